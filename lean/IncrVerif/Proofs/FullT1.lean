import IncrVerif.Proofs.FullH71
/-!
# C04 for the combined fragment, part 1: the BISIMULATION calculus

`FullH.Sim K g x x'` / `FullH.SimX K x x'` are FORWARD simulations (actual run ok ⇒ virtual run ok, same result, final state `virt g s'`).
Total correctness needs the CONVERSE as well: `BSimAt K P g s x x'` = the forward simulation `SimAt K g s x x'`, plus, from a state `s` with `Fr K g s` and the
carried invariant `P s`,
 * every successful run of `x` ends in a state with `P`;
 * every successful run of `x'` from `virt g s` is matched by a successful run of `x` from `s` (same result).
`BSimXAt` is the same over `SimXAt` (the ghost may be erased on nodes that end up invalid).
The carried invariant `P` is a parameter (`Keeps P`: kept by updates that do not touch kinds and parent lists); `PInv` (`MapRefsBack` + "a recorded parent that is a
map_ref node has the child as its input") is what the recursions that exist only in the actual engine (`markMapRefUnknown`, `child_changed` through chains) need.
-/
namespace IncrVerif.Proofs.FullT
open IncrVerif.Engine IncrVerif.Proofs IncrVerif.Proofs.Step IncrVerif.Proofs.Sched IncrVerif.Proofs.Quiet IncrVerif.Proofs.FullH

/-- a benign node update: kind, validity, cutoff, parent list, stored value and necessity are kept -/
def NKeep (nd nd' : Node) : Prop :=
  nd'.kind = nd.kind ∧ nd'.valid = nd.valid ∧ nd'.cutoff = nd.cutoff ∧ nd'.parents = nd.parents ∧ nd'.value = nd.value ∧
    nd'.isNecessary = nd.isNecessary

/-- an invariant the bisimulation can carry: kept by updates that leave the node table and the bind table alone, by benign node updates, and by the
removal of a parent entry -/
class Keeps (P : State → Prop) : Prop where
  of_nodes : ∀ {s s' : State}, P s → s'.nodes = s.nodes → s'.binds = s.binds → P s'
  modify : ∀ {s : State} (n : Nat) (f : Node → Node), P s → (∀ nd, NKeep nd (f nd)) → P { s with nodes := s.nodes.modify n f }
  rmParent : ∀ {s : State} (c k : Nat), P s →
    P { s with nodes := s.nodes.modify c fun x => { x with parents := swapRemove x.parents k } }

/-- … and also by changes of the bind table and by new nodes (pristine: no parents; a new `map_ref` node reads an existing node) -/
class KeepsG (P : State → Prop) : Prop extends Keeps P where
  of_nodes' : ∀ {s s' : State}, P s → s'.nodes = s.nodes → P s'
  push : ∀ {s : State} (nd : Node), P s → nd.parents = [] → (∀ pr i, nd.kind = .mapRef pr i → i < s.nodes.size) →
    P { s with nodes := s.nodes.push nd }

instance : KeepsG (fun _ => True) where
  of_nodes := fun _ _ _ => trivial
  modify := fun _ _ _ _ => trivial
  rmParent := fun _ _ _ => trivial
  of_nodes' := fun _ _ => trivial
  push := fun _ _ _ _ => trivial

/-- the keep / converse half -/
def RevAt (K : Kind → Prop) (P : State → Prop) (g : Nat → Option Val) (s : State) {α} (x x' : M α) : Prop :=
  Fr K g s → P s → (∀ r s', x.run.run s = (.ok r, s') → P s') ∧
    (∀ r t, x'.run.run (virt g s) = (.ok r, t) → ∃ s', x.run.run s = (.ok r, s'))

def BSimAt (K : Kind → Prop) (P : State → Prop) (g : Nat → Option Val) (s : State) {α} (x x' : M α) : Prop :=
  SimAt K g s x x' ∧ RevAt K P g s x x'

def BSim (K : Kind → Prop) (P : State → Prop) (g : Nat → Option Val) {α} (x x' : M α) : Prop := ∀ s, BSimAt K P g s x x'

def BSimXAt (K : Kind → Prop) (P : State → Prop) (g : Nat → Option Val) (s : State) {α} (x x' : M α) : Prop :=
  SimXAt K g s x x' ∧ RevAt K P g s x x'

def BSimX (K : Kind → Prop) (P : State → Prop) {α} (x x' : M α) : Prop := ∀ g s, BSimXAt K P g s x x'

section
variable {K : Kind → Prop} {P : State → Prop} {g : Nat → Option Val} {s : State} {α β : Type}

theorem BSim.at {x x' : M α} (h : BSim K P g x x') (s : State) : BSimAt K P g s x x' := h s
theorem BSimX.at {x x' : M α} (h : BSimX K P x x') (g : Nat → Option Val) (s : State) : BSimXAt K P g s x x' := h g s

theorem BSim.sim {x x' : M α} (h : BSim K P g x x') : Sim K g x x' := fun s => (h s).1
theorem BSimX.simX {x x' : M α} (h : BSimX K P x x') : SimX K x x' := fun g s => (h g s).1

theorem BSimAt.toX {x x' : M α} (h : BSimAt K P g s x x') : BSimXAt K P g s x x' := ⟨h.1.toX, h.2⟩
theorem BSimX.of_sim {x x' : M α} (h : ∀ g, BSim K P g x x') : BSimX K P x x' := fun g s => (h g s).toX

/-! ### the halves, for use -/

theorem BSimAt.fwd {x x' : M α} (h : BSimAt K P g s x x') (hf : Fr K g s) (hp : P s) {r : α} {s' : State}
    (hr : x.run.run s = (.ok r, s')) : x'.run.run (virt g s) = (.ok r, virt g s') ∧ Fr K g s' ∧ VM s s' ∧ P s' := by
  obtain ⟨h1, h2, h3⟩ := h.1 hf r s' hr
  exact ⟨h1, h2, h3, (h.2 hf hp).1 r s' hr⟩

theorem BSimAt.rev {x x' : M α} (h : BSimAt K P g s x x') (hf : Fr K g s) (hp : P s) {r : α} {t : State}
    (hr : x'.run.run (virt g s) = (.ok r, t)) : ∃ s', x.run.run s = (.ok r, s') ∧ t = virt g s' ∧ Fr K g s' ∧ VM s s' ∧ P s' := by
  obtain ⟨s', hs'⟩ := (h.2 hf hp).2 r t hr
  obtain ⟨h1, h2, h3, h4⟩ := h.fwd hf hp hs'
  rw [h1] at hr; cases hr
  exact ⟨s', hs', rfl, h2, h3, h4⟩

theorem BSimXAt.fwd {x x' : M α} (h : BSimXAt K P g s x x') (hf : Fr K g s) (hp : P s) {r : α} {s' : State}
    (hr : x.run.run s = (.ok r, s')) : ∃ g', x'.run.run (virt g s) = (.ok r, virt g' s') ∧ Fr K g' s' ∧ GR g g' s s' ∧ P s' := by
  obtain ⟨g', h1, h2, h3⟩ := h.1 hf r s' hr
  exact ⟨g', h1, h2, h3, (h.2 hf hp).1 r s' hr⟩

theorem BSimXAt.rev {x x' : M α} (h : BSimXAt K P g s x x') (hf : Fr K g s) (hp : P s) {r : α} {t : State}
    (hr : x'.run.run (virt g s) = (.ok r, t)) :
    ∃ s' g', x.run.run s = (.ok r, s') ∧ t = virt g' s' ∧ Fr K g' s' ∧ GR g g' s s' ∧ P s' := by
  obtain ⟨s', hs'⟩ := (h.2 hf hp).2 r t hr
  obtain ⟨g', h1, h2, h3, h4⟩ := h.fwd hf hp hs'
  rw [h1] at hr; cases hr
  exact ⟨s', g', hs', rfl, h2, h3, h4⟩

/-- **transfer**: a total-correctness statement about the virtual run gives one about the actual run -/
theorem BSimAt.tot {x x' : M α} (h : BSimAt K P g s x x') (hf : Fr K g s) (hp : P s) {Q : α → State → Prop}
    (T : Tot x' (virt g s) Q) : Tot x s (fun a s' => Q a (virt g s') ∧ Fr K g s' ∧ VM s s' ∧ P s') := by
  obtain ⟨a, t, h1, h2⟩ := T
  obtain ⟨s', hs', e, hp'⟩ := h.rev hf hp h1
  exact ⟨a, s', hs', by rw [← e]; exact h2, hp'⟩

theorem BSimXAt.tot {x x' : M α} (h : BSimXAt K P g s x x') (hf : Fr K g s) (hp : P s) {Q : α → State → Prop}
    (T : Tot x' (virt g s) Q) : Tot x s (fun a s' => ∃ g', Q a (virt g' s') ∧ Fr K g' s' ∧ GR g g' s s' ∧ P s') := by
  obtain ⟨a, t, h1, h2⟩ := T
  obtain ⟨s', g', hs', e, hp'⟩ := h.rev hf hp h1
  exact ⟨a, s', hs', g', by rw [← e]; exact h2, hp'⟩

/-- assembling from the forward simulation of `FullH` -/
theorem BSimAt.mk' {x x' : M α} (h : SimAt K g s x x')
    (hk : Fr K g s → P s → ∀ r s', x.run.run s = (.ok r, s') → P s')
    (hr : Fr K g s → P s → ∀ r t, x'.run.run (virt g s) = (.ok r, t) → ∃ s', x.run.run s = (.ok r, s')) :
    BSimAt K P g s x x' := ⟨h, fun hf hp => ⟨hk hf hp, hr hf hp⟩⟩

theorem BSimXAt.mk' {x x' : M α} (h : SimXAt K g s x x')
    (hk : Fr K g s → P s → ∀ r s', x.run.run s = (.ok r, s') → P s')
    (hr : Fr K g s → P s → ∀ r t, x'.run.run (virt g s) = (.ok r, t) → ∃ s', x.run.run s = (.ok r, s')) :
    BSimXAt K P g s x x' := ⟨h, fun hf hp => ⟨hk hf hp, hr hf hp⟩⟩

/-- the carried invariants of the current state may be used for the converse half -/
theorem BSimAt.rev_inv {x x' : M α} (h1 : SimAt K g s x x') (h2 : Fr K g s → P s → RevAt K P g s x x') : BSimAt K P g s x x' :=
  ⟨h1, fun hf hp => h2 hf hp hf hp⟩

theorem BSimAt.intro_inv {x x' : M α} (h : Fr K g s → BSimAt K P g s x x') : BSimAt K P g s x x' :=
  ⟨fun hf => (h hf).1 hf, fun hf => (h hf).2 hf⟩

/-! ### the calculus, same ghost -/

theorem BSimAt.ret (a : α) : BSimAt K P g s (pure a : M α) (pure a) := by
  refine ⟨SimAt.ret a, fun _ hp => ⟨fun r s' h => ?_, fun r t h => ?_⟩⟩
  · rw [run_pure] at h; cases h; exact hp
  · rw [run_pure] at h; cases h; exact ⟨s, rfl⟩

theorem BSimAt.thr (e e' : Panic) : BSimAt K P g s (throw e : M α) (throw e') := by
  refine ⟨SimAt.thr e _, fun _ _ => ⟨fun r s' h => ?_, fun r t h => ?_⟩⟩
  · rw [run_throw] at h; cases h
  · rw [run_throw] at h; cases h

theorem BSimAt.pan (e e' : String) : BSimAt K P g s (Engine.panic e : M α) (Engine.panic e') := BSimAt.thr _ _

theorem BSimAt.seq {x x' : M α} {f f' : α → M β} (hx : BSimAt K P g s x x')
    (hf : ∀ a s1, x.run.run s = (.ok a, s1) → BSimAt K P g s1 (f a) (f' a)) :
    BSimAt K P g s (x >>= f) (x' >>= f') := by
  refine ⟨SimAt.seq hx.1 fun a s1 h => (hf a s1 h).1, fun hn hp => ⟨fun r s' h => ?_, fun r t h => ?_⟩⟩
  · obtain ⟨a, s1, h1, h2⟩ := bind_ok_inv h
    obtain ⟨-, n1, -, p1⟩ := hx.fwd hn hp h1
    exact ((hf a s1 h1).fwd n1 p1 h2).2.2.2
  · obtain ⟨a, t1, h1, h2⟩ := bind_ok_inv h
    obtain ⟨s1, hs1, e, n1, -, p1⟩ := hx.rev hn hp h1
    rw [e] at h2
    obtain ⟨s', hs', -⟩ := (hf a s1 hs1).rev n1 p1 h2
    exact ⟨s', by rw [run_bind_ok hs1]; exact hs'⟩

theorem BSimAt.get_seq {k k' : State → M β} (h : BSimAt K P g s (k s) (k' (virt g s))) :
    BSimAt K P g s (get >>= k) (get >>= k') := by
  refine ⟨SimAt.get_seq h.1, fun hn hp => ⟨fun r s' hr => ?_, fun r t hr => ?_⟩⟩
  · rw [run_bind_get] at hr; exact (h.fwd hn hp hr).2.2.2
  · rw [run_bind_get] at hr
    obtain ⟨s', hs', -⟩ := h.rev hn hp hr
    exact ⟨s', by rw [run_bind_get]; exact hs'⟩

theorem BSimAt.getNode_seq {n : Nat} {k k' : Node → M β}
    (h : ∀ nd, s.nodes[n]? = some nd → (∀ e, nd.kind ≠ .expert e) →
      BSimAt K P g s (k nd) (k' (virtNode (g n) nd))) :
    BSimAt K P g s (getNode n >>= k) (getNode n >>= k') := by
  refine ⟨SimAt.getNode_seq fun nd hnd hne => (h nd hnd hne).1, fun hn hp => ⟨fun r s' hr => ?_, fun r t hr => ?_⟩⟩
  · obtain ⟨nd, hnd, hr⟩ := bind_getNode_inv hr
    exact ((h nd hnd (hn.some hnd)).fwd hn hp hr).2.2.2
  · obtain ⟨vnd, hvnd, hr⟩ := bind_getNode_inv hr
    rw [virt_getElem?] at hvnd
    cases hnd : s.nodes[n]? with
    | none => rw [hnd] at hvnd; cases hvnd
    | some nd =>
      rw [hnd] at hvnd
      simp only [Option.map_some, Option.some.injEq] at hvnd
      subst hvnd
      obtain ⟨s', hs', -⟩ := (h nd hnd (hn.some hnd)).rev hn hp hr
      exact ⟨s', by rw [run_bind_ok (run_getNode_some hnd)]; exact hs'⟩

theorem BSimAt.mod [Keeps P] {f f' : State → State} (h : virt g (f s) = f' (virt g s)) (hn : (f s).nodes = s.nodes)
    (hb : (f s).binds = s.binds) :
    BSimAt K P g s (modify f : M Unit) (modify f') := by
  refine ⟨SimAt.mod h hn, fun _ hp => ⟨fun r s' hr => ?_, fun r t hr => ?_⟩⟩
  · rw [run_modify] at hr; cases hr; exact Keeps.of_nodes hp hn hb
  · rw [run_modify] at hr; cases hr; exact ⟨_, run_modify _ _⟩

theorem BSimAt.mod_seq [Keeps P] {f f' : State → State} {k k' : Unit → M β} (h : virt g (f s) = f' (virt g s))
    (hn : (f s).nodes = s.nodes) (hb : (f s).binds = s.binds) (hk : BSimAt K P g (f s) (k ()) (k' ())) :
    BSimAt K P g s ((modify f : M Unit) >>= k) ((modify f' : M Unit) >>= k') :=
  BSimAt.seq (BSimAt.mod h hn hb) fun a s1 h1 => by
    rw [run_modify] at h1; cases h1; exact hk

/-- state updates that may change the bind table (`KeepsG`) -/
theorem BSimAt.modG [KeepsG P] {f f' : State → State} (h : virt g (f s) = f' (virt g s)) (hn : (f s).nodes = s.nodes) :
    BSimAt K P g s (modify f : M Unit) (modify f') := by
  refine ⟨SimAt.mod h hn, fun _ hp => ⟨fun r s' hr => ?_, fun r t hr => ?_⟩⟩
  · rw [run_modify] at hr; cases hr; exact KeepsG.of_nodes' hp hn
  · rw [run_modify] at hr; cases hr; exact ⟨_, run_modify _ _⟩

theorem BSimAt.modG_seq [KeepsG P] {f f' : State → State} {k k' : Unit → M β} (h : virt g (f s) = f' (virt g s))
    (hn : (f s).nodes = s.nodes) (hk : BSimAt K P g (f s) (k ()) (k' ())) :
    BSimAt K P g s ((modify f : M Unit) >>= k) ((modify f' : M Unit) >>= k') :=
  BSimAt.seq (BSimAt.modG h hn) fun a s1 h1 => by
    rw [run_modify] at h1; cases h1; exact hk

theorem BSimAt.cond {c c' : Prop} {_ : Decidable c} {_ : Decidable c'} {a b a' b' : M α} (hc : c ↔ c')
    (ha : c → BSimAt K P g s a a') (hb : ¬ c → BSimAt K P g s b b') :
    BSimAt K P g s (if c then a else b) (if c' then a' else b') := by
  by_cases h : c
  · rw [if_pos h, if_pos (hc.1 h)]; exact ha h
  · rw [if_neg h, if_neg (fun h' => h (hc.2 h'))]; exact hb h

theorem BSimAt.ite_left {c : Prop} {_ : Decidable c} {a b x' : M α}
    (ha : c → BSimAt K P g s a x') (hb : ¬ c → BSimAt K P g s b x') : BSimAt K P g s (if c then a else b) x' := by
  by_cases h : c
  · rw [if_pos h]; exact ha h
  · rw [if_neg h]; exact hb h

/-- both programs re-written -/
theorem BSimAt.congr {x y x' y' : M α} (h : BSimAt K P g s y y') (e1 : x = y) (e2 : x' = y') : BSimAt K P g s x x' := by
  subst e1; subst e2; exact h

/-- a commuting node update that keeps the carried invariant -/
theorem BSimAt.modNode' (n : Nat) {f f' : Node → Node} (hf : ∀ gv nd, virtNode gv (f nd) = f' (virtNode gv nd))
    (hk : ∀ nd, (f nd).kind = nd.kind ∧ (f nd).cutoff = nd.cutoff ∧ (f nd).oldState = nd.oldState ∧
      (nd.valid = false → (f nd).valid = false) ∧ ((f nd).didChange = false → nd.didChange = false))
    (hP : P s → P { s with nodes := s.nodes.modify n f }) :
    BSimAt K P g s (Engine.modNode n f) (Engine.modNode n f') := by
  refine ⟨Sim.modNode n hf hk s, fun _ hp => ⟨fun r s' hr => ?_, fun r t hr => ?_⟩⟩
  · rw [run_modNode] at hr; cases hr; exact hP hp
  · rw [run_modNode] at hr; cases hr; exact ⟨_, run_modNode _ _ _⟩

/-- a commuting node update that touches neither kinds nor parent lists -/
theorem BSim.modNode [Keeps P] (n : Nat) {f f' : Node → Node} (hf : ∀ gv nd, virtNode gv (f nd) = f' (virtNode gv nd))
    (hk : ∀ nd, (f nd).kind = nd.kind ∧ (f nd).cutoff = nd.cutoff ∧ (f nd).oldState = nd.oldState ∧
      (nd.valid = false → (f nd).valid = false) ∧ ((f nd).didChange = false → nd.didChange = false))
    (hp : ∀ nd, NKeep nd (f nd)) :
    BSim K P g (Engine.modNode n f) (Engine.modNode n f') :=
  fun _ => BSimAt.modNode' n hf hk fun h => Keeps.modify n f h hp

/-- loops: the body gets the membership of the element -/
theorem BSim.forIn {γ : Type} (l : List γ) {f f' : γ → β → M (ForInStep β)}
    (h : ∀ a, a ∈ l → ∀ b, BSim K P g (f a b) (f' a b)) (b : β) :
    BSim K P g (ForIn.forIn l b f) (ForIn.forIn l b f') := by
  induction l generalizing b with
  | nil => intro s; rw [List.forIn_nil, List.forIn_nil]; exact BSimAt.ret _
  | cons a l ih =>
    intro s
    rw [List.forIn_cons, List.forIn_cons]
    refine BSimAt.seq (h a (List.mem_cons_self ..) b s) fun r s1 _ => ?_
    cases r with
    | done b' => exact BSimAt.ret _
    | yield b' => exact ih (fun a ha => h a (List.mem_cons_of_mem _ ha)) b' s1

theorem BSimAt.map {x x' : M α} (f : α → β) (hx : BSimAt K P g s x x') : BSimAt K P g s (f <$> x) (f <$> x') := by
  rw [map_eq_pure_bind, map_eq_pure_bind]
  exact BSimAt.seq hx fun _ _ _ => BSimAt.ret _

theorem BSim.mapM {γ : Type} {f f' : γ → M β} (h : ∀ a, BSim K P g (f a) (f' a)) (l : List γ) :
    BSim K P g (l.mapM f) (l.mapM f') := by
  induction l with
  | nil => intro s; simp only [List.mapM_nil]; exact BSimAt.ret _
  | cons a l ih =>
    intro s
    simp only [List.mapM_cons]
    exact BSimAt.seq (h a s) fun _ s1 _ => BSimAt.seq (ih s1) fun _ _ _ => BSimAt.ret _

theorem BSim.dassert (c : Bool) (site : String) : BSim K P g (Engine.dassert c site) (Engine.dassert c site) := by
  intro s
  refine ⟨Sim.dassert c site s, fun _ hp => ⟨fun r s' h => ?_, fun r t h => ?_⟩⟩
  · rw [run_dassert] at h
    by_cases hc : s.cfg.debug = true ∧ c = false
    · rw [if_pos hc] at h; cases h
    · rw [if_neg hc] at h; cases h; exact hp
  · rw [run_dassert] at h
    by_cases hc : s.cfg.debug = true ∧ c = false
    · rw [if_pos (show (virt g s).cfg.debug = true ∧ c = false from hc)] at h; cases h
    · exact ⟨s, by rw [run_dassert, if_neg hc]⟩

theorem BSim.assertM (c : Bool) (site : String) : BSim K P g (Engine.assertM c site) (Engine.assertM c site) := by
  intro s
  refine ⟨Sim.assertM c site s, fun _ hp => ⟨fun r s' h => ?_, fun r t h => ?_⟩⟩
  · rw [run_assertM] at h
    split at h
    · cases h; exact hp
    · cases h
  · rw [run_assertM] at h
    split at h
    · rename_i hc; exact ⟨s, by rw [run_assertM, if_pos hc]⟩
    · cases h

/-! ### the calculus with a changing ghost -/

theorem BSimXAt.ret (a : α) : BSimXAt K P g s (pure a : M α) (pure a) := (BSimAt.ret a).toX
theorem BSimXAt.thr (e e' : Panic) : BSimXAt K P g s (throw e : M α) (throw e') := (BSimAt.thr e e').toX
theorem BSimXAt.pan (e e' : String) : BSimXAt K P g s (Engine.panic e : M α) (Engine.panic e') := BSimXAt.thr _ _

theorem BSimXAt.seq {x x' : M α} {f f' : α → M β} (hx : BSimXAt K P g s x x')
    (hf : ∀ a s1 g1, x.run.run s = (.ok a, s1) → BSimXAt K P g1 s1 (f a) (f' a)) :
    BSimXAt K P g s (x >>= f) (x' >>= f') := by
  refine ⟨SimXAt.seq hx.1 fun a s1 g1 h => (hf a s1 g1 h).1, fun hn hp => ⟨fun r s' h => ?_, fun r t h => ?_⟩⟩
  · obtain ⟨a, s1, h1, h2⟩ := bind_ok_inv h
    obtain ⟨g1, -, n1, -, p1⟩ := hx.fwd hn hp h1
    obtain ⟨g2, -, -, -, p2⟩ := (hf a s1 g1 h1).fwd n1 p1 h2
    exact p2
  · obtain ⟨a, t1, h1, h2⟩ := bind_ok_inv h
    obtain ⟨s1, g1, hs1, e, n1, -, p1⟩ := hx.rev hn hp h1
    rw [e] at h2
    obtain ⟨s', -, hs', -⟩ := (hf a s1 g1 hs1).rev n1 p1 h2
    exact ⟨s', by rw [run_bind_ok hs1]; exact hs'⟩

theorem BSimXAt.get_seq {k k' : State → M β} (h : BSimXAt K P g s (k s) (k' (virt g s))) :
    BSimXAt K P g s (get >>= k) (get >>= k') := by
  refine ⟨SimXAt.get_seq h.1, fun hn hp => ⟨fun r s' hr => ?_, fun r t hr => ?_⟩⟩
  · rw [run_bind_get] at hr
    obtain ⟨_, -, -, -, p⟩ := h.fwd hn hp hr; exact p
  · rw [run_bind_get] at hr
    obtain ⟨s', -, hs', -⟩ := h.rev hn hp hr
    exact ⟨s', by rw [run_bind_get]; exact hs'⟩

theorem BSimXAt.getNode_seq {n : Nat} {k k' : Node → M β}
    (h : ∀ nd, s.nodes[n]? = some nd → (∀ e, nd.kind ≠ .expert e) →
      BSimXAt K P g s (k nd) (k' (virtNode (g n) nd))) :
    BSimXAt K P g s (getNode n >>= k) (getNode n >>= k') := by
  refine ⟨SimXAt.getNode_seq fun nd hnd hne => (h nd hnd hne).1, fun hn hp => ⟨fun r s' hr => ?_, fun r t hr => ?_⟩⟩
  · obtain ⟨nd, hnd, hr⟩ := bind_getNode_inv hr
    obtain ⟨_, -, -, -, p⟩ := (h nd hnd (hn.some hnd)).fwd hn hp hr; exact p
  · obtain ⟨vnd, hvnd, hr⟩ := bind_getNode_inv hr
    rw [virt_getElem?] at hvnd
    cases hnd : s.nodes[n]? with
    | none => rw [hnd] at hvnd; cases hvnd
    | some nd =>
      rw [hnd] at hvnd
      simp only [Option.map_some, Option.some.injEq] at hvnd
      subst hvnd
      obtain ⟨s', -, hs', -⟩ := (h nd hnd (hn.some hnd)).rev hn hp hr
      exact ⟨s', by rw [run_bind_ok (run_getNode_some hnd)]; exact hs'⟩

theorem BSimXAt.mod_seq [Keeps P] {f f' : State → State} {k k' : Unit → M β} (h : virt g (f s) = f' (virt g s))
    (hn : (f s).nodes = s.nodes) (hb : (f s).binds = s.binds) (hk : BSimXAt K P g (f s) (k ()) (k' ())) :
    BSimXAt K P g s ((modify f : M Unit) >>= k) ((modify f' : M Unit) >>= k') := by
  refine ⟨SimXAt.mod_seq h hn hk.1, fun hne hp => ⟨fun r s' hr => ?_, fun r t hr => ?_⟩⟩
  · rw [run_bind_modify] at hr
    obtain ⟨_, -, -, -, p⟩ := hk.fwd (hne.of_nodes hn) (Keeps.of_nodes hp hn hb) hr; exact p
  · rw [run_bind_modify, ← h] at hr
    obtain ⟨s', -, hs', -⟩ := hk.rev (hne.of_nodes hn) (Keeps.of_nodes hp hn hb) hr
    exact ⟨s', by rw [run_bind_modify]; exact hs'⟩

theorem BSimXAt.modG_seq [KeepsG P] {f f' : State → State} {k k' : Unit → M β} (h : virt g (f s) = f' (virt g s))
    (hn : (f s).nodes = s.nodes) (hk : BSimXAt K P g (f s) (k ()) (k' ())) :
    BSimXAt K P g s ((modify f : M Unit) >>= k) ((modify f' : M Unit) >>= k') := by
  refine ⟨SimXAt.mod_seq h hn hk.1, fun hne hp => ⟨fun r s' hr => ?_, fun r t hr => ?_⟩⟩
  · rw [run_bind_modify] at hr
    obtain ⟨_, -, -, -, p⟩ := hk.fwd (hne.of_nodes hn) (KeepsG.of_nodes' hp hn) hr; exact p
  · rw [run_bind_modify, ← h] at hr
    obtain ⟨s', -, hs', -⟩ := hk.rev (hne.of_nodes hn) (KeepsG.of_nodes' hp hn) hr
    exact ⟨s', by rw [run_bind_modify]; exact hs'⟩

/-- sequencing a same-ghost program with a ghost-changing continuation -/
theorem BSimXAt.seqA {x x' : M α} {f f' : α → M β} (hx : BSimAt K P g s x x')
    (hf : ∀ a s1, x.run.run s = (.ok a, s1) → VM s s1 → BSimXAt K P g s1 (f a) (f' a)) :
    BSimXAt K P g s (x >>= f) (x' >>= f') := by
  refine ⟨FullH.ST.SimXAt.seqA hx.1 fun a s1 h v => (hf a s1 h v).1, fun hn hp => ⟨fun r s' h => ?_, fun r t h => ?_⟩⟩
  · obtain ⟨a, s1, h1, h2⟩ := bind_ok_inv h
    obtain ⟨-, n1, v1, p1⟩ := hx.fwd hn hp h1
    obtain ⟨g2, -, -, -, p2⟩ := (hf a s1 h1 v1).fwd n1 p1 h2
    exact p2
  · obtain ⟨a, t1, h1, h2⟩ := bind_ok_inv h
    obtain ⟨s1, hs1, e, n1, v1, p1⟩ := hx.rev hn hp h1
    rw [e] at h2
    obtain ⟨s', -, hs', -⟩ := (hf a s1 hs1 v1).rev n1 p1 h2
    exact ⟨s', by rw [run_bind_ok hs1]; exact hs'⟩

theorem BSimXAt.cond {c c' : Prop} {_ : Decidable c} {_ : Decidable c'} {a b a' b' : M α} (hc : c ↔ c')
    (ha : c → BSimXAt K P g s a a') (hb : ¬ c → BSimXAt K P g s b b') :
    BSimXAt K P g s (if c then a else b) (if c' then a' else b') := by
  by_cases h : c
  · rw [if_pos h, if_pos (hc.1 h)]; exact ha h
  · rw [if_neg h, if_neg (fun h' => h (hc.2 h'))]; exact hb h

theorem BSimX.forIn {γ : Type} (l : List γ) {f f' : γ → β → M (ForInStep β)}
    (h : ∀ a, a ∈ l → ∀ b, BSimX K P (f a b) (f' a b)) (b : β) :
    BSimX K P (ForIn.forIn l b f) (ForIn.forIn l b f') := by
  induction l generalizing b with
  | nil => intro g s; rw [List.forIn_nil, List.forIn_nil]; exact BSimXAt.ret _
  | cons a l ih =>
    intro g s
    rw [List.forIn_cons, List.forIn_cons]
    refine BSimXAt.seq (h a (List.mem_cons_self ..) b g s) fun r s1 g1 _ => ?_
    cases r with
    | done b' => exact BSimXAt.ret _
    | yield b' => exact ih (fun a ha => h a (List.mem_cons_of_mem _ ha)) b' g1 s1

end
end IncrVerif.Proofs.FullT
