import IncrVerif.Proofs.PerKeyH86
/-!
# Per-key operators, API actions part 4: creation of a static node, the run

`CF k s s'`: `s'` is `s` plus one fresh top-level node of kind `k` (and, for a `var`, its cell), named in `top`.
`create_cf`: what `stepAction env (.create i)` does for a static instruction of the fragment.
-/
namespace IncrVerif.Proofs.PerKeyH
open IncrVerif.Engine IncrVerif.Driver IncrVerif.Proofs IncrVerif.Proofs.Step IncrVerif.Proofs.Sched
open IncrVerif.Proofs.ExpertH IncrVerif.Proofs.EffH IncrVerif.Proofs.DriverH

def cKey (s : State) := (s.experts, s.perkeys, s.currentScope, s.panicCountdown, s.nextDep, s.ahh, s.stabNum,
  s.propagateInvalidity, s.status, s.observers)

structure CF (k : Kind) (s s' : State) : Prop where
  nodes : s'.nodes = s.nodes.push (QR.newNode k)
  vars : ((∀ c, k ≠ .var c) ∧ s'.vars = s.vars) ∨
    ∃ v, k = .var s.vars.size ∧ s'.vars = s.vars.push { value := v, setAt := s.stabNum, node := s.nodes.size }
  top : s'.top = s.top.push s.nodes.size
  key : cKey s' = cKey s

namespace CF
variable {k : Kind} {s s' : State}

theorem size (C : CF k s s') : s'.nodes.size = s.nodes.size + 1 := by rw [C.nodes, Array.size_push]
theorem nodeD_new (C : CF k s s') : s'.nodeD s.nodes.size = QR.newNode k := by
  simp only [State.nodeD, C.nodes, Array.getElem?_push, if_true, Option.getD_some]
theorem nodeD_old (C : CF k s s') {m : Nat} (h : m ≠ s.nodes.size) : s'.nodeD m = s.nodeD m := by
  simp only [State.nodeD, C.nodes, Array.getElem?_push, if_neg h]
theorem nodeD_lt (C : CF k s s') {m : Nat} (h : m < s.nodes.size) : s'.nodeD m = s.nodeD m :=
  C.nodeD_old (by omega)
theorem experts (C : CF k s s') : s'.experts = s.experts := by
  have := C.key; simp only [cKey, Prod.mk.injEq] at this; exact this.1
theorem perkeys (C : CF k s s') : s'.perkeys = s.perkeys := by
  have := C.key; simp only [cKey, Prod.mk.injEq] at this; exact this.2.1
theorem currentScope (C : CF k s s') : s'.currentScope = s.currentScope := by
  have := C.key; simp only [cKey, Prod.mk.injEq] at this; exact this.2.2.1
theorem panicCountdown (C : CF k s s') : s'.panicCountdown = s.panicCountdown := by
  have := C.key; simp only [cKey, Prod.mk.injEq] at this; exact this.2.2.2.1
theorem nextDep (C : CF k s s') : s'.nextDep = s.nextDep := by
  have := C.key; simp only [cKey, Prod.mk.injEq] at this; exact this.2.2.2.2.1
theorem ahh (C : CF k s s') : s'.ahh = s.ahh := by
  have := C.key; simp only [cKey, Prod.mk.injEq] at this; exact this.2.2.2.2.2.1
theorem observers (C : CF k s s') : s'.observers = s.observers := by
  have := C.key; simp only [cKey, Prod.mk.injEq] at this; exact this.2.2.2.2.2.2.2.2.2
theorem vars_old (C : CF k s s') {c : Nat} {vc : VarCell} (h : s.vars[c]? = some vc) : s'.vars[c]? = some vc := by
  rcases C.vars with ⟨-, e⟩ | ⟨v, -, e⟩
  · rw [e]; exact h
  · have hc : c < s.vars.size := (Array.getElem?_eq_some_iff.1 h).1
    rw [e, Array.getElem?_push, if_neg (by omega)]; exact h
theorem top_old (C : CF k s s') {j n : Nat} (h : s.top[j]? = some n) : s'.top[j]? = some n := by
  have hc : j < s.top.size := (Array.getElem?_eq_some_iff.1 h).1
  rw [C.top, Array.getElem?_push, if_neg (by omega)]; exact h
theorem top_inv (C : CF k s s') {j n : Nat} (h : s'.top[j]? = some n) : s.top[j]? = some n ∨ n = s.nodes.size := by
  rw [C.top, Array.getElem?_push] at h
  split at h
  · right; cases h; rfl
  · left; exact h

end CF

/-! ## the run -/

/-- the kinds a static instruction of the fragment creates: not an expert node, not a change detector -/
def PlainKind : Kind → Prop
  | .expert _ => False
  | .map f _ => f < fnPerKey
  | _ => True

theorem createNode_cf {k : Kind} {s s1 : State} {n : Nat} (hk : ∀ c, k ≠ .var c)
    (h : (createNode k .top).run.run s = (.ok n, s1)) :
    n = s.nodes.size ∧ s1.nodes = s.nodes.push (QR.newNode k) ∧ s1.vars = s.vars ∧ s1.top = s.top ∧
      cKey s1 = cKey s ∧ s1.handles = s.handles := by
  rw [QR.createNode_top_run] at h
  cases h
  exact ⟨rfl, rfl, rfl, rfl, rfl, rfl⟩

theorem createVar_cf {v : Val} {s s1 : State} {n : Nat}
    (h : (createVar v .top).run.run s = (.ok n, s1)) :
    n = s.nodes.size ∧ s1.nodes = s.nodes.push (QR.newNode (.var s.vars.size)) ∧
      s1.vars = s.vars.push { value := v, setAt := s.stabNum, node := s.nodes.size } ∧ s1.top = s.top ∧
      cKey s1 = cKey s := by
  rw [QR.createVar_top_run] at h
  cases h
  exact ⟨rfl, rfl, rfl, rfl, rfl⟩

theorem mapM_resolve_top {s : State} :
    ∀ (l : List Opnd) (r : List Nat) (s1 : State), (∀ a, a ∈ l → QR.OpndOK a) →
      (l.mapM (fun o => resolveOpnd [] o)).run.run s = (.ok r, s1) →
      s1 = s ∧ ∀ c, c ∈ r → ∃ j : Nat, s.top[j]? = some c := by
  intro l
  induction l with
  | nil =>
    intro r s1 _ h
    rw [List.mapM_nil] at h
    obtain ⟨e1, e2⟩ := pure_ok_inv h
    rw [e1]; exact ⟨e2, fun c hc => by cases hc⟩
  | cons a l ih =>
    intro r s1 hl h
    rw [List.mapM_cons] at h
    obtain ⟨b, t, h1, h2⟩ := bind_ok_inv h
    obtain ⟨et, k, hk⟩ := QR.resolveOpnd_outer_inv (hl a (List.mem_cons_self ..)) h1
    rw [et] at h2
    obtain ⟨bs, t2, h3, h4⟩ := bind_ok_inv h2
    obtain ⟨et2, hbs⟩ := ih bs t2 (fun x hx => hl x (List.mem_cons_of_mem _ hx)) h3
    obtain ⟨e1, e2⟩ := pure_ok_inv h4
    rw [e1, e2]
    refine ⟨et2, fun c hc => ?_⟩
    rcases List.mem_cons.1 hc with e | hc
    · rw [e]; exact ⟨k, hk⟩
    · exact hbs c hc

/-- the static instructions of the fragment -/
def PStatic : Instr → Prop
  | .const _ | .var _ | .map _ _ | .fold _ _ _ | .zip _ _ => True
  | _ => False

/-- what the elaboration of a static instruction of the fragment does -/
theorem elab_cf {env : Env} {s s1 : State} {i : Instr} {ro : Option Nat} (hsc : s.currentScope = .top)
    (hi : PInstrOK env s i) (hst : PStatic i) (h : (elabInstrM env [] .unit i).run.run s = (.ok ro, s1)) :
    ∃ k, ro = some s.nodes.size ∧ PKind env k ∧ PlainKind k ∧ (∀ c, c ∈ kids k → ∃ j : Nat, s.top[j]? = some c) ∧
      s1.nodes = s.nodes.push (QR.newNode k) ∧
      (((∀ c, k ≠ .var c) ∧ s1.vars = s.vars) ∨
        ∃ v, k = .var s.vars.size ∧ s1.vars = s.vars.push { value := v, setAt := s.stabNum, node := s.nodes.size }) ∧
      s1.top = s.top ∧ cKey s1 = cKey s := by
  cases i with
  | const v =>
    unfold elabInstrM at h
    simp only at h
    unfold elabInstr at h
    rw [run_bind_get] at h
    simp only [hsc] at h
    obtain ⟨n, h1, e⟩ := QR.map_ok_inv h
    obtain ⟨en, C⟩ := createNode_cf (by intro c e; cases e) h1
    exact ⟨.const v, by rw [e, en], trivial, trivial, (fun c hc => by cases hc), C.1, Or.inl ⟨(by intro c e; cases e), C.2.1⟩,
      C.2.2.1, C.2.2.2.1⟩
  | var v =>
    unfold elabInstrM at h
    simp only at h
    unfold elabInstr at h
    rw [run_bind_get] at h
    simp only at h
    obtain ⟨n, h1, e⟩ := QR.map_ok_inv h
    obtain ⟨en, C⟩ := createVar_cf h1
    exact ⟨.var s.vars.size, by rw [e, en], trivial, trivial, (fun c hc => by cases hc), C.1,
      Or.inr ⟨v, rfl, C.2.1⟩, C.2.2.1, C.2.2.2⟩
  | map f args =>
    unfold elabInstrM at h
    simp only at h
    unfold elabInstr at h
    rw [run_bind_get] at h
    simp only [hsc] at h
    obtain ⟨as, t, h1, h2⟩ := bind_ok_inv h
    obtain ⟨et, has⟩ := mapM_resolve_top args as t hi.2.2 h1
    rw [et] at h2
    obtain ⟨n, h3, e⟩ := QR.map_ok_inv h2
    obtain ⟨en, C⟩ := createNode_cf (by intro c e; cases e) h3
    have hf : f < fnPerKey := Nat.lt_trans hi.1 (by decide)
    exact ⟨.map f as, by rw [e, en], Or.inl ⟨hi.1, hi.2.1⟩, hf, has, C.1, Or.inl ⟨(by intro c e; cases e), C.2.1⟩,
      C.2.2.1, C.2.2.2.1⟩
  | fold f init cs =>
    unfold elabInstrM at h
    simp only at h
    unfold elabInstr at h
    rw [run_bind_get] at h
    simp only [hsc] at h
    obtain ⟨as, t, h1, h2⟩ := bind_ok_inv h
    obtain ⟨et, has⟩ := mapM_resolve_top cs as t hi.2 h1
    rw [et] at h2
    split at h2
    · obtain ⟨n, h3, e⟩ := QR.map_ok_inv h2
      obtain ⟨en, C⟩ := createNode_cf (by intro c e; cases e) h3
      exact ⟨.const init, by rw [e, en], trivial, trivial, (fun c hc => by cases hc), C.1,
        Or.inl ⟨(by intro c e; cases e), C.2.1⟩, C.2.2.1, C.2.2.2.1⟩
    · obtain ⟨n, h3, e⟩ := QR.map_ok_inv h2
      obtain ⟨en, C⟩ := createNode_cf (by intro c e; cases e) h3
      exact ⟨.fold f init as, by rw [e, en], hi.1, trivial, has, C.1, Or.inl ⟨(by intro c e; cases e), C.2.1⟩,
        C.2.2.1, C.2.2.2.1⟩
  | zip a b =>
    unfold elabInstrM at h
    simp only at h
    unfold elabInstr at h
    rw [run_bind_get] at h
    simp only [hsc] at h
    obtain ⟨na, t, h1, h2⟩ := bind_ok_inv h
    obtain ⟨et, ka, hka⟩ := QR.resolveOpnd_outer_inv hi.1 h1
    rw [et] at h2
    obtain ⟨nb, t, h1, h2⟩ := bind_ok_inv h2
    obtain ⟨et, kb, hkb⟩ := QR.resolveOpnd_outer_inv hi.2 h1
    rw [et] at h2
    obtain ⟨ca, t, h1, h2⟩ := bind_ok_inv h2
    rw [QR.isConstant_ok_inv h1] at h2
    obtain ⟨cb, t, h1, h2⟩ := bind_ok_inv h2
    rw [QR.isConstant_ok_inv h1] at h2
    split at h2
    · obtain ⟨n, h3, e⟩ := QR.map_ok_inv h2
      obtain ⟨en, C⟩ := createNode_cf (by intro c e; cases e) h3
      rename_i va vb _ _
      exact ⟨.const (.pair va vb), by rw [e, en], trivial, trivial, (fun c hc => by cases hc), C.1,
        Or.inl ⟨(by intro c e; cases e), C.2.1⟩, C.2.2.1, C.2.2.2.1⟩
    · obtain ⟨n, h3, e⟩ := QR.map_ok_inv h2
      obtain ⟨en, C⟩ := createNode_cf (by intro c e; cases e) h3
      refine ⟨.map fnZip [na, nb], by rw [e, en], Or.inr (Or.inl rfl), (by decide : fnZip < fnPerKey), ?_, C.1,
        Or.inl ⟨(by intro c e; cases e), C.2.1⟩, C.2.2.1, C.2.2.2.1⟩
      intro c hc
      simp only [kids, List.mem_cons, List.not_mem_nil, or_false] at hc
      rcases hc with e | e
      · rw [e]; exact ⟨ka, hka⟩
      · rw [e]; exact ⟨kb, hkb⟩
  | _ => exact hst.elim

/-- **what `create` of a static instruction of the fragment does** -/
theorem create_cf {env : Env} {s s' : State} {i : Instr} {tk : Array Nat} {r : String × Array Nat}
    (hsc : s.currentScope = .top) (hi : PInstrOK env s i) (hst : PStatic i)
    (h : (stepAction env (.create i) tk).run.run s = (.ok r, s')) :
    ∃ k, PKind env k ∧ PlainKind k ∧ (∀ c, c ∈ kids k → ∃ j : Nat, s.top[j]? = some c) ∧ CF k s s' := by
  unfold stepAction at h
  simp only at h
  obtain ⟨ro, s1, h1, h2⟩ := bind_ok_inv h
  obtain ⟨k, ero, hk, hp, hkids, hn, hv, ht, hkey⟩ := elab_cf hsc hi hst h1
  rw [ero] at h2
  simp only at h2
  obtain ⟨s2, e2, h3⟩ := QR.bind_modify_inv h2
  obtain ⟨-, e3⟩ := pure_ok_inv h3
  rw [e3, e2]
  exact ⟨k, hk, hp, hkids, ⟨hn, hv, by show s1.top.push _ = _; rw [ht], hkey⟩⟩

end IncrVerif.Proofs.PerKeyH
