import IncrVerif.Proofs.NestH21
/-!
# Nested binds (F2), the closure run, part 3: the two creation steps as extensions; a static node created in scope `.bind b`

* `NN.createBind_run`: the closed form of `createBind` (`NN.createdBind`); `NN.PushBind body lhs b s s'`: field-wise description; `PushBind.ext`.
* `NN.ext_of_push`: `createNode k (.bind b)` (`CN.Push`) as an extension.
* `NN.rkNew_inj`, `NN.rkBind` (the rank after `createBind`: two creations), `rkBind_old/lc/main/ext/inj`.
* `NN.KidOK2`, `NN.push_ginv2`: creating a static node with legal children keeps `GInv2` with the rank `rkNew rk br1.main s.nodes.size`.
-/
namespace IncrVerif.Proofs.NestH
open IncrVerif.Engine IncrVerif.Proofs IncrVerif.Proofs.Step IncrVerif.Proofs.Sched IncrVerif.Proofs.Quiet
open IncrVerif.Proofs.BindH

namespace NN

/-- the state after `createBind body lhs` -/
def createdBind (body lhs : Nat) (s : State) : State :=
  let s1 : State := { s with binds := s.binds.push { lhs := lhs, body := body } }
  let s2 := Inval.created (.bindLhsChange s.binds.size) s.currentScope .never s1
  let s3 := Inval.created (.bindMain s.binds.size s.nodes.size) s.currentScope .eq s2
  { s3 with binds := s3.binds.modify s.binds.size fun x => { x with lhsChange := s.nodes.size, main := s.nodes.size + 1 } }

/-- `createBind` never fails; it returns the main node `s.nodes.size + 1` -/
theorem createBind_run (body lhs : Nat) (s : State) :
    (createBind body lhs).run.run s = (.ok (s.nodes.size + 1), createdBind body lhs s) := by
  unfold createBind
  rw [run_bind_get, run_bind_modify]
  rw [Step.run_bind_ok (Inval.createNode_run _ _ _ _)]
  rw [Step.run_bind_ok (Inval.createNode_run _ _ _ _)]
  simp only [modBind]
  rw [run_bind_modify]
  have e : (Inval.created (Kind.bindLhsChange s.binds.size) s.currentScope CutoffK.never
      { s with binds := s.binds.push { lhs := lhs, body := body } }).nodes.size = s.nodes.size + 1 := by
    simp only [Inval.created, Array.size_push]
  simp only [e]
  rfl


/-- `s'` is `s` plus a fresh bind record `{lhs, body}` (index `s.binds.size`) and its two nodes, created in scope `.bind b` and registered there -/
structure PushBind (body lhs b : Nat) (s s' : State) : Prop where
  nodes : s'.nodes = (s.nodes.push { kind := .bindLhsChange s.binds.size, createdIn := .bind b, cutoff := .never }).push
    { kind := .bindMain s.binds.size s.nodes.size, createdIn := .bind b, cutoff := .eq }
  binds : s'.binds = (((s.binds.push { lhs := lhs, body := body }).modify b fun x =>
      { x with allNodesCreatedOnRhs := x.allNodesCreatedOnRhs ++ [s.nodes.size] }).modify b fun x =>
      { x with allNodesCreatedOnRhs := x.allNodesCreatedOnRhs ++ [s.nodes.size + 1] }).modify s.binds.size fun x =>
      { x with lhsChange := s.nodes.size, main := s.nodes.size + 1 }
  vars : s'.vars = s.vars
  rch : s'.rch = s.rch
  ahh : s'.ahh = s.ahh
  pc : s'.panicCountdown = s.panicCountdown
  scope : s'.currentScope = s.currentScope
  stabNum : s'.stabNum = s.stabNum
  status : s'.status = s.status
  cfg : s'.cfg = s.cfg
  top : s'.top = s.top
  pinv : s'.propagateInvalidity = s.propagateInvalidity

theorem createdBind_pushBind {body lhs b : Nat} {s : State} (hsc : s.currentScope = .bind b) :
    PushBind body lhs b s (createdBind body lhs s) := by
  refine ⟨?_, ?_, rfl, rfl, rfl, rfl, rfl, rfl, rfl, rfl, rfl, rfl⟩
  · simp only [createdBind, Inval.created, hsc]
  · simp only [createdBind, Inval.created, hsc, Array.size_push]

/-- `createBind` in scope `.bind b`, run form -/
theorem createBind_pushBind {body lhs b n : Nat} {t t1 : State} (hsc : t.currentScope = .bind b)
    (h : (createBind body lhs).run.run t = (.ok n, t1)) : n = t.nodes.size + 1 ∧ PushBind body lhs b t t1 := by
  rw [createBind_run] at h
  cases h
  exact ⟨rfl, createdBind_pushBind hsc⟩

namespace PushBind
variable {body lhs b : Nat} {s s' : State}

theorem size (C : PushBind body lhs b s s') : s'.nodes.size = s.nodes.size + 2 := by
  rw [C.nodes, Array.size_push, Array.size_push]

theorem nodeD_lc (C : PushBind body lhs b s s') :
    s'.nodeD s.nodes.size = { kind := .bindLhsChange s.binds.size, createdIn := .bind b, cutoff := .never } := by
  have : s.nodes.size ≠ s.nodes.size + 1 := by omega
  simp only [State.nodeD, C.nodes, Array.getElem?_push, Array.size_push, if_neg this, if_true, Option.getD_some]

theorem nodeD_main (C : PushBind body lhs b s s') :
    s'.nodeD (s.nodes.size + 1) = { kind := .bindMain s.binds.size s.nodes.size, createdIn := .bind b, cutoff := .eq } := by
  simp only [State.nodeD, C.nodes, Array.getElem?_push, Array.size_push, if_true, Option.getD_some]

theorem nodeD_lt (C : PushBind body lhs b s s') {m : Nat} (h : m < s.nodes.size) : s'.nodeD m = s.nodeD m := by
  have h1 : m ≠ s.nodes.size + 1 := by omega
  have h2 : m ≠ s.nodes.size := by omega
  simp only [State.nodeD, C.nodes, Array.getElem?_push, Array.size_push, if_neg h1, if_neg h2]

theorem binds_size (C : PushBind body lhs b s s') : s'.binds.size = s.binds.size + 1 := by
  rw [C.binds, Array.size_modify, Array.size_modify, Array.size_modify, Array.size_push]

theorem binds_b (C : PushBind body lhs b s s') {br1 : BindRec} (hb : s.binds[b]? = some br1) :
    s'.binds[b]? = some { br1 with allNodesCreatedOnRhs := br1.allNodesCreatedOnRhs ++ [s.nodes.size] ++ [s.nodes.size + 1] } := by
  have hlt := lt_of_getElem? hb
  have h1 : ¬ s.binds.size = b := by omega
  have h2 : ¬ b = s.binds.size := by omega
  rw [C.binds, Array.getElem?_modify, if_neg h1, Array.getElem?_modify, if_pos rfl, Array.getElem?_modify, if_pos rfl,
    Array.getElem?_push, if_neg h2, hb]
  rfl

theorem binds_new (C : PushBind body lhs b s s') {br1 : BindRec} (hb : s.binds[b]? = some br1) :
    s'.binds[s.binds.size]? = some { lhs := lhs, body := body, lhsChange := s.nodes.size, main := s.nodes.size + 1 } := by
  have hlt := lt_of_getElem? hb
  have h1 : ¬ b = s.binds.size := by omega
  rw [C.binds, Array.getElem?_modify, if_pos rfl, Array.getElem?_modify, if_neg h1, Array.getElem?_modify, if_neg h1,
    Array.getElem?_push, if_pos rfl]
  rfl

theorem binds_other (C : PushBind body lhs b s s') {b' : Nat} (hne : b' ≠ b) (hlt : b' < s.binds.size) :
    s'.binds[b']? = s.binds[b']? := by
  have h1 : ¬ s.binds.size = b' := by omega
  have h2 : ¬ b = b' := fun e => hne e.symm
  have h3 : ¬ b' = s.binds.size := by omega
  rw [C.binds, Array.getElem?_modify, if_neg h1, Array.getElem?_modify, if_neg h2, Array.getElem?_modify, if_neg h2,
    Array.getElem?_push, if_neg h3]

/-- the extension made by `createBind` -/
theorem ext (C : PushBind body lhs b s s') {br1 : BindRec} (hb : s.binds[b]? = some br1) : Ext b br1 s s' where
  size := by rw [C.size]; omega
  old m hm := C.nodeD_lt hm
  new m h1 h2 := by
    rw [C.size] at h2
    have : m = s.nodes.size ∨ m = s.nodes.size + 1 := by omega
    rcases this with e | e
    · subst e
      rw [C.nodeD_lc]
      exact ⟨rfl, rfl, rfl, rfl, rfl, rfl, rfl, rfl, rfl, rfl, rfl⟩
    · subst e
      rw [C.nodeD_main]
      exact ⟨rfl, rfl, rfl, rfl, rfl, rfl, rfl, rfl, rfl, rfl, rfl⟩
  bindB := by
    refine ⟨_, C.binds_b hb, fun m => ?_⟩
    simp only [List.mem_append, List.mem_singleton]
    rw [C.size]
    constructor
    · rintro ((h | h) | h)
      · exact Or.inl h
      · exact Or.inr (by omega)
      · exact Or.inr (by omega)
    · rintro (h | h)
      · exact Or.inl (Or.inl h)
      · have : m = s.nodes.size ∨ m = s.nodes.size + 1 := by omega
        rcases this with e | e
        · exact Or.inl (Or.inr e)
        · exact Or.inr e
  bindsGrow := by rw [C.binds_size]; omega
  bindsOther b' hne hlt := C.binds_other hne hlt
  bindsNew b' br' hge hb' := by
    have := lt_of_getElem? hb'
    rw [C.binds_size] at this
    have e : b' = s.binds.size := by omega
    subst e
    rw [C.binds_new hb] at hb'
    cases hb'
    refine ⟨rfl, rfl, Nat.le_refl _, rfl, ?_, ?_, ?_⟩
    · show s.nodes.size + 1 < s'.nodes.size
      rw [C.size]; omega
    · show (s'.nodeD s.nodes.size).kind = _
      rw [C.nodeD_lc]
    · show (s'.nodeD (s.nodes.size + 1)).kind = _
      rw [C.nodeD_main]
  vars := C.vars
  stabNum := C.stabNum
  status := C.status
  cfg := C.cfg
  scope := C.scope
  pc := C.pc
  rch := C.rch
  ahh := C.ahh
  top := C.top
  pinv := C.pinv

end PushBind

/-- the extension made by `createNode k (.bind b)` -/
theorem ext_of_push {k : Kind} {b : Nat} {s s' : State} (C : CN.Push k b s s') {br1 : BindRec}
    (hb : s.binds[b]? = some br1) : Ext b br1 s s' where
  size := by rw [C.size]; omega
  old m hm := C.nodeD_lt hm
  new m h1 h2 := by
    rw [C.size] at h2
    have : m = s.nodes.size := by omega
    subst this
    rw [C.nodeD_new]
    exact ⟨rfl, rfl, rfl, rfl, rfl, rfl, rfl, rfl, rfl, rfl, rfl⟩
  bindB := by
    refine ⟨br1.allNodesCreatedOnRhs ++ [s.nodes.size], ?_, fun m => ?_⟩
    · rw [C.binds, Array.getElem?_modify, if_pos rfl, hb]; rfl
    · simp only [List.mem_append, List.mem_singleton]
      rw [C.size]
      constructor
      · rintro (h | h)
        · exact Or.inl h
        · exact Or.inr (by omega)
      · rintro (h | h)
        · exact Or.inl h
        · exact Or.inr (by omega)
  bindsGrow := by rw [C.binds, Array.size_modify]; omega
  bindsOther b' hne _ := by
    rw [C.binds, Array.getElem?_modify, if_neg (fun e => hne e.symm)]
  bindsNew b' br' hge hb' := by
    have := lt_of_getElem? hb'
    rw [C.binds, Array.size_modify] at this
    omega
  vars := C.vars
  stabNum := C.stabNum
  status := C.status
  cfg := C.cfg
  scope := C.scope
  pc := C.pc
  rch := C.rch
  ahh := C.ahh
  top := C.top
  pinv := C.pinv


/-! ## the rank of the new nodes -/

theorem rkNew_inj {rk : Nat → Nat} {main N : Nat} (hinj : ∀ n m, n < N → m < N → rk n = rk m → n = m)
    (hpos : 0 < rk main) :
    ∀ n m, n < N + 1 → m < N + 1 → rkNew rk main N n = rkNew rk main N m → n = m := by
  intro n m hn hm h
  by_cases e1 : n = N <;> by_cases e2 : m = N
  · omega
  · rw [e1, rkNew_new, rkNew_old _ _ _ e2] at h; omega
  · rw [e2, rkNew_new, rkNew_old _ _ _ e1] at h; omega
  · rw [rkNew_old _ _ _ e1, rkNew_old _ _ _ e2] at h
    exact hinj n m (by omega) (by omega) (by omega)

/-- the rank after `createBind` in the scope of the bind with main node `main`: two creations -/
def rkBind (rk : Nat → Nat) (main m : Nat) : Nat → Nat := rkNew (rkNew rk main m) main (m + 1)

theorem rkBind_old (rk : Nat → Nat) (main m : Nat) {x : Nat} (h1 : x ≠ m) (h2 : x ≠ m + 1) :
    rkBind rk main m x = 2 * (2 * rk x) := by
  rw [rkBind, rkNew_old _ _ _ h2, rkNew_old _ _ _ h1]

theorem rkBind_lc (rk : Nat → Nat) (main m : Nat) : rkBind rk main m m = 2 * (2 * rk main - 1) := by
  rw [rkBind, rkNew_old _ _ _ (by omega), rkNew_new]

theorem rkBind_main (rk : Nat → Nat) {main m : Nat} (h : main ≠ m) :
    rkBind rk main m (m + 1) = 2 * (2 * rk main) - 1 := by
  rw [rkBind, rkNew_new, rkNew_old _ _ _ h]

theorem rkBind_ext (rk : Nat → Nat) (main : Nat) {m N : Nat} (h : N ≤ m) : RkExt rk (rkBind rk main m) N :=
  (rkNew_ext rk main h).trans (rkNew_ext _ main (Nat.le_refl (m + 1))) (by omega)

theorem rkBind_inj {rk : Nat → Nat} {main N : Nat} (hinj : ∀ n m, n < N → m < N → rk n = rk m → n = m)
    (hpos : 0 < rk main) (hne : main ≠ N) :
    ∀ n m, n < N + 2 → m < N + 2 → rkBind rk main N n = rkBind rk main N m → n = m := by
  apply rkNew_inj (rkNew_inj hinj hpos)
  rw [rkNew_old _ _ _ hne]
  omega

/-- a legal child of a node created by the closure of bind `b` (change detector `lc`, dying generation `dy`) -/
def KidOK2 (rk : Nat → Nat) (t : State) (b lc : Nat) (dy : List Nat) (c : Nat) : Prop :=
  c < t.nodes.size ∧ (t.nodeD c).valid = true ∧ (∀ b', (t.nodeD c).kind ≠ .bindLhsChange b') ∧
    (((t.nodeD c).createdIn = .top ∧ rk c < rk lc) ∨ ((t.nodeD c).createdIn = .bind b ∧ c ∉ dy))

theorem KidOK2.rk_lt {env : Env} {rk : Nat → Nat} {s : State} {dy : List Nat} {b c : Nat} {br1 : BindRec}
    (A : All2 env rk s dy) (hb : s.binds[b]? = some br1) (hlm : rk br1.lhsChange < rk br1.main)
    (h : KidOK2 rk s b br1.lhsChange dy c) : rk c < rk br1.main := by
  obtain ⟨h1, -, -, h4⟩ := h
  rcases h4 with ⟨-, h5⟩ | ⟨h5, -⟩
  · omega
  · exact (A.scopeRk c b br1 h1 h5 hb).2

/-! ## creating a static node in scope `.bind b` -/

section push
variable {env : Env} {rk : Nat → Nat} {k : Kind} {b : Nat} {s s' : State} {dy : List Nat} {ex : Nat → Prop}

/-- **node creation** in scope `.bind b` keeps the structural invariant, with the rank extended -/
theorem push_ginv2 (C : CN.Push k b s s') (I : GInv2 env rk s allClosed ex dy) {br1 : BindRec}
    (hb : s.binds[b]? = some br1) (hv : (s.nodeD br1.lhsChange).valid = true)
    (hk : StaticKind env k) (hnv : ∀ c, k ≠ .var c)
    (hkids : ∀ c, c ∈ kids k → KidOK2 rk s b br1.lhsChange dy c) :
    GInv2 env (rkNew rk br1.main s.nodes.size) s' allClosed ex dy := by
  have A := I.frag
  obtain ⟨r1, r2, -⟩ := A.recs b br1 hb
  have hvm : (s.nodeD br1.main).valid = true := by rw [A.recValid b br1 hb]; exact hv
  have hlm := A.lc_rk_main hb hvm
  have hmne : br1.main ≠ s.nodes.size := by omega
  have hlne : br1.lhsChange ≠ s.nodes.size := by omega
  have hsz := C.size
  have hmdy : s.nodes.size ∉ dy := fun h => by
    have := (A.dyIn _ h).1
    omega
  have hch : s'.children s.nodes.size = kids k := by
    rw [children_eq_kids (env := env) s' s.nodes.size (by rw [C.nodeD_new]) (by rw [C.nodeD_new]; exact hk),
      C.nodeD_new]
  have hbb : s'.binds[b]? = some { br1 with allNodesCreatedOnRhs := br1.allNodesCreatedOnRhs ++ [s.nodes.size] } := by
    rw [C.binds, Array.getElem?_modify, if_pos rfl, hb]; rfl
  apply (ext_of_push C hb).ginv2 I hb (rkNew_ext rk _ (Nat.le_refl _)) hv
  · intro n h1 h2
    have hns : n = s.nodes.size := by omega
    subst hns
    refine ⟨by rw [C.nodeD_new]; exact CN.bkind_of_static hk, by rw [C.nodeD_new]; exact Or.inl rfl,
      ?_, ?_, ?_, ?_, ?_, ?_, ?_, ?_⟩
    · intro c hc
      rw [hch] at hc
      have := (hkids c hc).1
      omega
    · intro c hc
      rw [hch] at hc
      rw [C.nodeD_lt (hkids c hc).1]; exact (hkids c hc).2.1
    · intro c hc
      rw [hch] at hc
      have h3 := (hkids c hc).1
      have h4 := (hkids c hc).rk_lt A hb hlm
      rw [rkNew_new, rkNew_old _ _ _ (by omega)]
      omega
    · intro b' hk'
      rw [C.nodeD_new] at hk'
      simp only at hk'
      rw [hk'] at hk; exact hk.elim
    · intro b' lc hk'
      rw [C.nodeD_new] at hk'
      simp only at hk'
      rw [hk'] at hk; exact hk.elim
    · intro c b' hc hk'
      rw [hch] at hc
      rw [C.nodeD_lt (hkids c hc).1] at hk'
      exact absurd hk' ((hkids c hc).2.2.1 b')
    · intro h
      rw [C.nodeD_new] at h
      cases h
    · intro b' h
      rw [C.nodeD_new] at h ⊢
      simp only at h ⊢
      injection h with h
      subst h
      refine ⟨hnv, _, hbb, r2, ?_⟩
      intro c hc
      rw [hch] at hc
      obtain ⟨h3, -, -, h4⟩ := hkids c hc
      rw [C.nodeD_lt h3]
      rcases h4 with ⟨h4, -⟩ | ⟨h4, h5⟩
      · exact Or.inl h4
      · exact Or.inr (Or.inl ⟨h4, ⟨fun h => absurd h h5, fun h => absurd h hmdy⟩⟩)
  · intro m h1 h2
    have hns : m = s.nodes.size := by omega
    subst hns
    rw [rkNew_new, rkNew_old _ _ _ hlne, rkNew_old _ _ _ hmne]
    omega
  · intro n m hn hm
    rw [hsz] at hn hm
    exact rkNew_inj A.rkInj (by omega) n m hn hm

end push

end NN
end IncrVerif.Proofs.NestH
