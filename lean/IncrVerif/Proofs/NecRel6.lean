import IncrVerif.Proofs.NecRel5
import IncrVerif.Engine.Run
/-!
# NecRel6 — `Sim` for the driver's step function `stepAction` (every action of a history)

Whenever the debug build's step returns normally, the release build's step returns the same API result and
token table, in the erasure of the debug build's final state.
-/
namespace IncrVerif.Proofs.NecRel
open IncrVerif.Engine IncrVerif.Proofs

macro_rules | `(tactic| sim_lemma) => `(tactic| exact sim_stabilise _ _)
macro_rules | `(tactic| sim_lemma) => `(tactic| exact sim_setMaxHeightAllowed _)

theorem sim_stepAction (env : Env) (a : Action) (tokens : Array Nat) : Sim (stepAction env a tokens) := by
  unfold stepAction; sim

/-- release form: from a release state, if the debug twin's step returns normally, the release step returns
the same result in the erased state (no invariant needed) -/
theorem stepAction_release (env : Env) (a : Action) (tokens : Array Nat) (s : State) (hrel : Release s)
    (cr : Option Nat) (r : String × Array Nat) (sd' : State)
    (hdbg : (stepAction env a tokens).run.run (debugTwin s cr) = (.ok r, sd')) :
    (stepAction env a tokens).run.run s = (.ok r, erase sd') ∧ Release (erase sd') := by
  have h1 := sim_stepAction env a tokens _ _ _ hdbg
  rw [erase_debugTwin s hrel] at h1
  exact ⟨h1, release_erase _⟩

end IncrVerif.Proofs.NecRel
