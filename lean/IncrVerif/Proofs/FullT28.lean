import IncrVerif.Proofs.FullT27
import IncrVerif.Proofs.FullT13
import IncrVerif.Proofs.FullT11
import IncrVerif.Proofs.FullT6
/-!
# C04 combined fragment: the CONVERSE of one simulated step, part 2: the phases of a change detector (twin of `FullH42`)
(phase 1 `lhsRunClosure`, phase 4 `lhsFinish`; phases 2, 3 are `BSimXAt.lhsRelink`, `BSimX.lhsInvalidateOld` of `LX2`), and `bindMain` with a right-hand side that may be invalid
-/
namespace IncrVerif.Proofs.FullT
set_option linter.unusedSectionVars false
open IncrVerif.Engine IncrVerif.Proofs IncrVerif.Proofs.Step IncrVerif.Proofs.Sched IncrVerif.Proofs.Quiet IncrVerif.Proofs.FullH

section
variable {g : Nat → Option Val} {env : Env} {sp : Nat → Val → Val}

/-- phase 1 after the reset of the list of the nodes created on the right-hand side (twin of `ST.SimAt.lhsRunRest`) -/
theorem BSimAt.lhsRunRest {n b lhs body : Nat} {t : State}
    (hrd : tv g t lhs = t.value env lhs) (htop : TopLt t) (htempl : ∀ v, ST.TemplS env sp (env.body body v)) :
    BSimAt (FK env sp) PInv g t
      (do let lhsVal ← valueUnwrap env lhs "node:recompute_one:child-value"
          let oldScope := (← get).currentScope
          modify fun s => { s with currentScope := .bind b }
          tick
          let t := env.body body lhsVal
          logEv (.inv s!"b{body}" n [lhsVal] "")
          let rhs ← Engine.elabTemplate env t lhsVal
          modify fun s => { s with currentScope := oldScope }
          pure rhs)
      (do let lhsVal ← valueUnwrap (VE env sp) lhs "node:recompute_one:child-value"
          let oldScope := (← get).currentScope
          modify fun s => { s with currentScope := .bind b }
          tick
          let t := (VE env sp).body body lhsVal
          logEv (.inv s!"b{body}" n [lhsVal] "")
          let rhs ← Engine.elabTemplate (VE env sp) t lhsVal
          modify fun s => { s with currentScope := oldScope }
          pure rhs) := by
  unfold Engine.valueUnwrap
  simp only [bind_assoc]
  refine BSimAt.get_seq ?_
  rw [virt_value, hrd]
  cases t.value env lhs with
  | none => exact BSimAt.pan _ _
  | some v =>
    simp only [pure_bind]
    refine BSimAt.get_seq ?_
    rw [virt_currentScope]
    refine BSimAt.mod_seq rfl rfl rfl ?_
    refine BSimAt.seq (BSim.tick _) fun _ t2 h2 => ?_
    refine BSimAt.seq (BSim.logEv _ _) fun _ t3 h3 => ?_
    have e2 := ST.tick_inv h2
    have ht3 : TopLt t3 := ST.TopLt.of_eq (ST.TopLt.of_eq htop e2) (ST.logEv_inv h3)
    refine BSimAt.seq (BSimAt.elabTemplate_PInv _ v (htempl v).1 (htempl v).2 ht3) fun rhs t4 _ => ?_
    exact BSimAt.mod_seq rfl rfl rfl (BSimAt.ret _)

/-- phase 1: the closure runs (twin of `ST.SimAt.lhsRunClosure`) -/
theorem BSimAt.lhsRunClosure {n b : Nat} {br : BindRec} {s : State}
    (hrd : tv g s br.lhs = s.value env br.lhs) (htop : TopLt s) (htempl : ∀ v, ST.TemplS env sp (env.body br.body v)) :
    BSimAt (FK env sp) PInv g s (Inval.lhsRunClosure env n b br) (Inval.lhsRunClosure (VE env sp) n b br) := by
  unfold Inval.lhsRunClosure Engine.modBind
  refine BSimAt.modG_seq rfl rfl (BSimAt.lhsRunRest ?_ (ST.TopLt.of_eq htop ⟨rfl, rfl⟩) htempl)
  generalize hs' : ({ s with binds := s.binds.modify b fun x => { x with allNodesCreatedOnRhs := [] } } : State) = s'
  have e1 : tv g s' br.lhs = tv g s br.lhs := by subst hs'; rfl
  have e2 : s'.value env br.lhs = s.value env br.lhs :=
    value_congr env s s' (by subst hs'; rfl) (fun m => by subst hs'; rfl) br.lhs
  rw [e1, e2]; exact hrd

end

section
variable {K : Kind → Prop} {g : Nat → Option Val} {env : Env} {sp : Nat → Val → Val}

/-- phase 4: the change detector "changes" (twin of `ST.SimAt.lhsFinish`) -/
theorem BSimAt.lhsFinish {fuel n : Nat} {t : State} (hk : ∀ p i, (t.nodeD n).kind ≠ .mapRef p i) (hc : ST.Exact t n)
    (hm : MRPV t) (hfuel : t.nodes.size ≤ fuel) :
    BSimAt K PInv g t (Inval.lhsFinish env fuel n) (Inval.lhsFinish (VE env sp) fuel n) := by
  unfold Inval.lhsFinish
  refine BSimAt.getNode_seq fun nd hnd _ => ?_
  rw [virtNode_valid]
  refine BSimAt.seq (BSim.dassert _ _ t) fun _ t1 h1 => ?_
  have e : t1 = t := by
    rw [run_dassert] at h1; split at h1 <;> cases h1; rfl
  subst e
  exact mcvC' K env sp g fuel n .unit _ hk hc hm hfuel

/-- phase 4 for a change detector: no condition on the cutoff -/
theorem BSimAt.lhsFinish_lc {fuel n : Nat} {t : State} (hk : ∃ b, (t.nodeD n).kind = .bindLhsChange b)
    (hm : MRPV t) (hfuel : t.nodes.size ≤ fuel) :
    BSimAt K PInv g t (Inval.lhsFinish env fuel n) (Inval.lhsFinish (VE env sp) fuel n) := by
  obtain ⟨b, hb⟩ := hk
  exact BSimAt.lhsFinish (fun p i => by rw [hb]; exact fun e => by cases e) (ST.exact_of_lc hb) hm hfuel

end
end IncrVerif.Proofs.FullT
