import IncrVerif.Proofs.LeakH14
/-!
# C12 over histories, part 15: `OkCond`, computably
-/
namespace IncrVerif.Proofs.LeakH
open IncrVerif.Engine IncrVerif.Driver IncrVerif.Proofs IncrVerif.Proofs.Own

def okCondB (s0 : State) : Action → Bool
  | .dropVar v => decide (v < s0.vars.size)
  | .dropHandle o => match resolve s0 [] o with
    | .ok _ => true
    | .error _ => false
  | .dropObs o => decide (o < s0.observers.size)
  | .disallow o => decide (o < s0.observers.size)
  | _ => false

theorem okCond_of_B {s0 : State} {a : Action} (h : okCondB s0 a = true) : OkCond s0 a := by
  cases a <;> simp only [okCondB, decide_eq_true_eq] at h <;> try (exact absurd h (by decide))
  case dropVar v => exact h
  case dropHandle o =>
    show ∃ n, resolve s0 [] o = .ok n
    cases hr : resolve s0 [] o with
    | ok n => exact ⟨n, rfl⟩
    | error e => rw [hr] at h; cases h
  case dropObs o => exact h
  case disallow o => exact h

end IncrVerif.Proofs.LeakH
