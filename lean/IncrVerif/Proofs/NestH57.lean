import IncrVerif.Proofs.NestH56
import IncrVerif.Proofs.BindH94
/-!
# Nested binds (F2), part 4, `stabilise`, part 3: `stabilise` on a program with nested binds (fragment F2)

Port of `BindH94` (`C2s3`).  From the invariant between actions `QI2 env s = ∃ rk, QInv2 env rk s` through the observer prefix (keeps the rank), the drain
(re-chooses the rank: `Aux2`) and `stabiliseEnd` (keeps the rank) back to `QI2`, with the from-scratch values.  The scheduling theorem's hypothesis is a
hypothesis: `∀ t, LcStepsOK2 env (AuxS2 env t)`.  `ReadsOK1` (what observers read: `evalB`) is generic and reused.
-/
namespace IncrVerif.Proofs.NestH
open IncrVerif.Engine IncrVerif.Driver IncrVerif.Proofs IncrVerif.Proofs.Step IncrVerif.Proofs.Sched IncrVerif.Proofs.Quiet
open IncrVerif.Proofs.BindH

/-- the structure of the graph between two actions -/
theorem QInv2.bgraph {env : Env} {rk : Nat → Nat} {s : State} (Q : QInv2 env rk s) : BGraph env s :=
  bgraph_of_ginv2 (ex := noEx) Q.struct Q.f2.noForce (fun n c hn hk => by
    obtain ⟨vc, h, -⟩ := Q.vars.node n c hn hk
    exact ⟨vc, h⟩)

/-- the conclusions of `stabilise_q2` about the final state (`BindH.Stabilised1` with `QInv1 ↦ QI2`, `F1Inv ↦ Aux2`) -/
structure Stabilised2 (env : Env) (fuel : Nat) (s s' : State) : Prop where
  inv : QI2 env s'
  newObservers : s'.newObservers = []
  disallowedObservers : s'.disallowedObservers = []
  vars : s'.vars = s.vars
  stabNum : s'.stabNum = s.stabNum + 1
  /-- runs of change detectors create nodes -/
  grow : s.nodes.size ≤ s'.nodes.size
  obs : ObsMap stabilisedState s s'
  /-- every necessary node is valid, not stale, and holds its from-scratch value -/
  values : ∀ n, s'.isNecessary n = true → ∀ k, (s'.nodeD n).height.toNat < k →
    (s'.nodeD n).valid = true ∧ s'.isStale n = false ∧ (s'.nodeD n).value = evalB env s' k n ∧
      s'.value env n = evalB env s' k n ∧ (evalB env s' k n).isSome = true
  /-- the drain: it starts in a state `t` with the drain invariant; no node runs twice, and no node that ran was invalidated later in the drain -/
  drain : ∃ t t3, DInv env t none ∧ Aux2 env t ∧ (drainHeap env fuel).run.run t = (.ok (), t3) ∧
    t.vars = s.vars ∧ t.stabNum = s.stabNum ∧ (drainTrace env fuel t).Nodup ∧
    ∀ m, m ∈ drainTrace env fuel t → RanOnceB t t3 m

set_option maxHeartbeats 800000 in
/-- **`stabilise` on a program with nested binds (fragment F2).** -/
theorem stabilise_q2 {env : Env} {fuel : Nat} {s s' : State} (H : ∀ t, LcStepsOK2 env (AuxS2 env t)) (Q : QI2 env s)
    (h : (stabilise env fuel).run.run s = (.ok (), s')) : Stabilised2 env fuel s s' := by
  obtain ⟨rk, Q⟩ := Q
  unfold stabilise at h
  rw [run_bind_get] at h
  obtain ⟨_, sa, ha, h⟩ := bind_ok_inv h
  have hsa : sa = s := by
    rw [run_assertM] at ha
    split at ha <;> cases ha
    rfl
  rw [hsa] at h
  obtain ⟨s0, hs0, h⟩ := bind_modify_inv h
  obtain ⟨_, t1, h1, h⟩ := bind_ok_inv h
  obtain ⟨_, t2, h2, h⟩ := bind_ok_inv h
  obtain ⟨_, t3, h3, h4⟩ := bind_ok_inv h
  -- the state with the status set
  have S0 : SInv2 env rk s0 s0.newObservers s0.disallowedObservers := by
    have I0 : SInv2 env rk s s.newObservers s.disallowedObservers := SInv2.of_qinv2 Q
    rw [hs0]
    exact N4p.sInv2_congr I0 rfl rfl rfl rfl rfl rfl rfl rfl
  -- the prefix (keeps the rank)
  obtain ⟨S1, hn1, hd1, F1, O1, -⟩ := addNewObservers_s2 S0 h1
  have M1 := addNewObservers_marks2 S0 h1
  obtain ⟨S2, hn2, hd2, F2, O2⟩ := unlinkDisallowedObservers_s2 S1 hn1 h2
  have M2 := unlinkDisallowedObservers_marks2 S1 hn1 h2
  have F : C2s.PreF s t2 := C2s.PreF.of hs0 (F1.trans F2) (fun m => (M2 m).trans (M1 m))
  obtain ⟨D2, A2⟩ := N4s.drain_start2 Q F S2
  -- the drain (re-chooses the rank)
  have X2 : AuxS2 env t2 t2 := ⟨⟨rk, A2⟩, DKey.refl _, NKey.refl _⟩
  obtain ⟨D3, ⟨⟨rk3, A3⟩, K3, N3⟩, he3, f3⟩ := drainHeap_invB2 (H t2) fuel t2 t3 D2 X2 h3
  obtain ⟨hnodup, honce⟩ := drain_onceB2 (H t2) fuel t2 t3 D2 X2 h3
  obtain ⟨V3, O3, T3⟩ := N4s.after_drain2 A3 K3 N3 f3.vars (F.varsOK Q.vars) S2.obs S2.obsTop
  -- the end (keeps the rank)
  have hsd : t3.setDuringStab = [] := by rw [K3.setDuringStab, F.setDuringStab]; exact Q.setDuringStab
  have hdv : t3.deadVars = [] := by rw [K3.deadVars, F.deadVars]; exact Q.deadVars
  have hoh : ∀ (o : Nat) (ob : ObsRec), t3.observers[o]? = some ob → ob.handlers = [] :=
    fun o ob ho => (O3.inRange o ob ho).2
  have E := stabiliseEnd_fin (env := env) (fuel := fuel) hsd hdv hoh h4
  have hb := C2s.stabiliseEnd_binds hsd hdv hoh h4
  have hno3 : t3.newObservers = [] := by rw [K3.newObservers]; exact hn2
  have hdo3 : t3.disallowedObservers = [] := by rw [K3.disallowedObservers]; exact hd2
  obtain ⟨Q', G, hval⟩ := N4s.qinv2_end D3 A3 E hb V3 O3 hno3 hdo3 T3
    (by rw [K3.alive, F.alive]; exact Q.alive)
  have hobs' : s'.observers = t2.observers := by rw [E.observers, K3.observers]
  refine
    { inv := ⟨rk3, Q'⟩
      newObservers := by rw [E.newObservers]; exact hno3
      disallowedObservers := by rw [E.disallowedObservers]; exact hdo3
      vars := by rw [E.vars, f3.vars, F.vars]
      stabNum := by rw [E.stabNum, f3.stabNum, F.stabNum]
      grow := by rw [E.size, ← F.size]; exact f3.grow
      obs := ?_
      values := ?_
      drain := ⟨t2, t3, D2, ⟨rk, A2⟩, h3, F.vars, F.stabNum, hnodup, honce⟩ }
  · -- observers
    refine ⟨by rw [hobs', O2.1, O1.1, hs0], fun o ob ho => ?_⟩
    have ho0 : s0.observers[o]? = some ob := by rw [hs0]; exact ho
    obtain ⟨ob1, h1o, h1n, h1s⟩ := O1.2 o ob ho0
    obtain ⟨ob2, h2o, h2n, h2s⟩ := O2.2 o ob1 h1o
    exact ⟨ob2, by rw [hobs']; exact h2o, by rw [h2n, h1n], by rw [h2s, h1s, stabilisedState_eq]⟩
  · -- values
    intro n hn k hk
    have hn3 : t3.isNecessary n = true := by rw [← G.g.nec]; exact hn
    have hk3 : (t3.nodeD n).height.toNat < k := by rw [← (G.g.node n).height]; exact hk
    obtain ⟨v1, v2, v3, -, v5⟩ := drained_valuesB D3 he3 n hn3 k hk3
    have hev : evalB env s' k n = evalB env t3 k n :=
      C2s.evalB_congr (fun m => (G.g.node m).kind) E.vars hb k n
    have hv' : (s'.nodeD n).value = evalB env s' k n := by rw [hval, hev]; exact v3
    have hvalid : (s'.nodeD n).valid = true := by rw [(G.g.node n).valid]; exact v1
    refine ⟨hvalid, ?_, hv', ?_, by rw [hev]; exact v5⟩
    · rw [KeyEq2.isStale2 (BL.KeyEq.of_same G) A3.frag]; exact v2
    · rw [Q'.bgraph.value_plain (Q'.bgraph.nec_lt hn) hvalid]; exact hv'

/-! ## what observers read -/

/-- **After a `stabilise` every in-use observer reads the from-scratch value of its node**, and no observer is waiting to be added or unlinked. -/
theorem stabilised_reads2 {env : Env} {fuel : Nat} {s s' : State} (R : Stabilised2 env fuel s s') :
    ReadsOK1 env s' ∧ ObsSettled s' := by
  obtain ⟨rk', Q'⟩ := R.inv
  have O' : ObsInv s' [] [] := by
    have := Q'.obs
    unfold ObsOK at this
    rw [R.newObservers, R.disallowedObservers] at this
    exact this
  constructor
  · intro o ob ho hst k hk
    have hmem : o ∈ (s'.nodeD ob.node).observers := (O'.mem ob.node o).2 ⟨ob, ho, rfl, Or.inl hst⟩
    have hn : s'.isNecessary ob.node = true := by
      rw [isNecessary_iff]; right; left; exact List.ne_nil_of_mem hmem
    obtain ⟨-, -, -, hv, hs⟩ := R.values ob.node hn k hk
    obtain ⟨v, hev⟩ := Option.isSome_iff_exists.1 hs
    refine ⟨v, ?_, hev⟩
    unfold State.tryGetValue
    rw [Q'.alive, Q'.status, ho]
    simp only [Bool.not_true, Bool.false_eq_true, if_false, hst]
    rw [hv, hev]
    rfl
  · intro o ob ho
    cases hst : ob.state with
    | inUse => exact Or.inl rfl
    | unlinked => exact Or.inr rfl
    | created => have := O'.created o ob ho hst; cases this
    | disallowed => have := (O'.dis o ob ho).1 hst; cases this

end IncrVerif.Proofs.NestH
