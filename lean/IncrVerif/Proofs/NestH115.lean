import IncrVerif.Proofs.NestH114
/-!
# Nested binds (F2), part 7c: the text-level semantics knows nothing the specification-level semantics does not know; THE AGREEMENT

Under `ProgOK p env s`: `denoteTop p f j = some w → ∃ n k, s.top[j]? = some n ∧ den2 env s k n = some w` (`N7.denote_to_den2`), by induction on the fuel `f` of the
mutual `denote*` family (`N7.SB`).  With N7b: `agree_den2_denote`, `agree_large`.
-/
namespace IncrVerif.Proofs.NestH
open IncrVerif.Engine IncrVerif.Driver IncrVerif.Proofs IncrVerif.Proofs.Step IncrVerif.Proofs.Sched IncrVerif.Proofs.Quiet
open IncrVerif.Proofs.BindH
open IncrVerif.Spec

namespace N7
open IncrVerif.Proofs.BindH.C3d IncrVerif.Proofs.NestH.N5d

/-- closures evaluated with fuel `K`, named nodes by `den2` with fuel `K` -/
def DBk (env : Env) (s : State) (K : Nat) : Nat → Val → Option Val := denBody env (den2 env s K) s.top K

/-- `ev` and `rec` know at least what `den2`/`denBody` know with fuel `K` -/
def GeK (env : Env) (s : State) (K : Nat) (ev : Nat → Option Val) (rec : Nat → Val → Option Val) : Prop :=
  LeEv (den2 env s K) ev ∧ LeRec (DBk env s K) rec

theorem den2_leEv (env : Env) (s : State) {K K' : Nat} (h : K ≤ K') : LeEv (den2 env s K) (den2 env s K') :=
  fun _ _ e => den2_mono e K' h

theorem dbk_le (env : Env) (s : State) {K K' : Nat} (h : K ≤ K') : LeRec (DBk env s K) (DBk env s K') :=
  denBody_mono env (den2_leEv env s h) s.top K K' h

theorem GeK.mono {env : Env} {s : State} {K K' : Nat} {ev : Nat → Option Val} {rec : Nat → Val → Option Val}
    (h : K ≤ K') (G : GeK env s K' ev rec) : GeK env s K ev rec :=
  ⟨fun a w e => G.1 a w (den2_leEv env s h a w e), fun b v w e => G.2 b v w (dbk_le env s h b v w e)⟩

theorem geK_self (env : Env) (s : State) (K : Nat) : GeK env s K (den2 env s K) (DBk env s K) :=
  ⟨LeEv.refl _, LeRec.refl _⟩

/-- the five statements, at fuel `f` -/
structure SB (p : RefProg) (s : State) (f : Nat) : Prop where
  opnd : ∀ L o w, denoteOpnd p f L o = some w →
    ∃ K, ∀ ev, LeEv (den2 p.env s K) ev → ∀ V, LeVals L V → denOpnd ev s.top V o = some w
  top : ∀ j w, denoteTop p f j = some w → ∃ n, s.top[j]? = some n ∧ ∃ k, den2 p.env s k n = some w
  instr : ∀ g L lv i w, InstrD (BodyD p.env g) i → denoteInstr p f L lv i = some w →
    ∃ K, ∀ ev rec, GeK p.env s K ev rec → ∀ V, LeVals L V → denInstr2 p.env ev s.top rec lv V i = some w
  templ : ∀ g body v w, BodyD p.env g body → denoteTemplate p f (p.env.body body v) v = some w →
    ∃ k, DBk p.env s k body v = some w
  templW : ∀ g body v w, BodyD p.env (g+1) body → denoteTemplateWith p f (p.env.body body v) v [] = some w →
    ∃ K, ∀ ev rec, GeK p.env s K ev rec →
      denOpnd ev s.top (denInstrs2 p.env ev s.top rec v (p.env.body body v).instrs []) (p.env.body body v).ret = some w

section B
variable {p : RefProg} {s : State}

theorem b_opnds {f : Nat} (hO : ∀ L o w, denoteOpnd p f L o = some w →
      ∃ K, ∀ ev, LeEv (den2 p.env s K) ev → ∀ V, LeVals L V → denOpnd ev s.top V o = some w) (L : List (Option Val)) :
    ∀ (args : List Opnd) (ws : List Val), args.mapM (denoteOpnd p f L) = some ws →
      ∃ K, ∀ ev, LeEv (den2 p.env s K) ev → ∀ V, LeVals L V → allSome (args.map (denOpnd ev s.top V)) = some ws := by
  intro args
  induction args with
  | nil =>
    intro ws e
    simp only [List.mapM_nil] at e
    cases e
    exact ⟨0, fun ev _ V _ => rfl⟩
  | cons a as ih =>
    intro ws e
    rw [List.mapM_cons] at e
    cases h1 : denoteOpnd p f L a with
    | none => rw [h1] at e; cases e
    | some x =>
      cases h2 : as.mapM (denoteOpnd p f L) with
      | none => rw [h1, h2] at e; cases e
      | some xs =>
        rw [h1, h2] at e
        cases e
        obtain ⟨K1, hK1⟩ := hO L a x h1
        obtain ⟨K2, hK2⟩ := ih xs h2
        refine ⟨max K1 K2, fun ev hev V hV => ?_⟩
        have e1 := hK1 ev (fun a w e => hev a w (den2_leEv p.env s (Nat.le_max_left K1 K2) a w e)) V hV
        have e2 := hK2 ev (fun a w e => hev a w (den2_leEv p.env s (Nat.le_max_right K1 K2) a w e)) V hV
        simp only [List.map_cons, allSome, e1, e2]

theorem b_list {f : Nat} {g : Nat} (lv : Val)
    (hI : ∀ L i w, InstrD (BodyD p.env g) i → denoteInstr p f L lv i = some w →
      ∃ K, ∀ ev rec, GeK p.env s K ev rec → ∀ V, LeVals L V → denInstr2 p.env ev s.top rec lv V i = some w) :
    ∀ (is : List Instr), (∀ i, i ∈ is → InstrD (BodyD p.env g) i) → ∀ (L : List (Option Val)),
      ∃ K, ∀ ev rec, GeK p.env s K ev rec → ∀ V, LeVals L V →
        LeVals (is.foldl (stepD p f lv) L) (denInstrs2 p.env ev s.top rec lv is V) := by
  intro is
  induction is with
  | nil => intro _ L; exact ⟨0, fun ev rec _ V hV => hV⟩
  | cons i is ih =>
    intro hall L
    have hi := hall i (List.mem_cons_self ..)
    have h1 : ∃ K1, ∀ ev rec, GeK p.env s K1 ev rec → ∀ V, LeVals L V → ∀ w, denoteInstr p f L lv i = some w →
        denInstr2 p.env ev s.top rec lv V i = some w := by
      cases hx : denoteInstr p f L lv i with
      | none => exact ⟨0, fun ev rec _ V _ w e => by cases e⟩
      | some w =>
        obtain ⟨K, hK⟩ := hI L i w hi hx
        exact ⟨K, fun ev rec G V hV w' e => by cases e; exact hK ev rec G V hV⟩
    obtain ⟨K1, hK1⟩ := h1
    obtain ⟨K2, hK2⟩ := ih (fun x hx => hall x (List.mem_cons_of_mem _ hx)) (L ++ [denoteInstr p f L lv i])
    refine ⟨max K1 K2, fun ev rec G V hV => ?_⟩
    simp only [denInstrs2, List.foldl_cons]
    rw [stepD_eq p f lv L i (instrD_ncp hi).1 (instrD_ncp hi).2]
    exact hK2 ev rec (G.mono (Nat.le_max_right K1 K2)) _
      (hV.snoc (fun w hw => hK1 ev rec (G.mono (Nat.le_max_left K1 K2)) V hV w hw))

/-- one instruction at fuel `f+1`, from the statements at fuel `f` -/
theorem b_instr {f : Nat} (IH : SB p s f) (g : Nat) (L : List (Option Val)) (lv : Val) (i : Instr) (w : Val)
    (hi : InstrD (BodyD p.env g) i) (e : denoteInstr p (f+1) L lv i = some w) :
    ∃ K, ∀ ev rec, GeK p.env s K ev rec → ∀ V, LeVals L V → denInstr2 p.env ev s.top rec lv V i = some w := by
  cases i <;> first | exact hi.elim | skip
  · rw [instr_const] at e
    exact ⟨0, fun ev rec _ V _ => e⟩
  · rw [instr_lhsConst] at e
    exact ⟨0, fun ev rec _ V _ => e⟩
  · rename_i fn args
    rw [instr_map] at e
    cases h1 : args.mapM (denoteOpnd p f L) with
    | none => rw [h1] at e; cases e
    | some ws =>
      rw [h1] at e
      obtain ⟨K, hK⟩ := b_opnds IH.opnd L args ws h1
      refine ⟨K, fun ev rec G V hV => ?_⟩
      show (allSome (args.map (denOpnd ev s.top V))).map (p.env.fn fn) = some w
      rw [hK ev G.1 V hV]; exact e
  · rename_i fn init cs
    rw [instr_fold] at e
    cases h1 : cs.mapM (denoteOpnd p f L) with
    | none => rw [h1] at e; cases e
    | some ws =>
      rw [h1] at e
      obtain ⟨K, hK⟩ := b_opnds IH.opnd L cs ws h1
      refine ⟨K, fun ev rec G V hV => ?_⟩
      show (allSome (cs.map (denOpnd ev s.top V))).map (List.foldl (p.env.foldStep fn) init) = some w
      rw [hK ev G.1 V hV]; exact e
  · rename_i b o
    rw [instr_bind] at e
    cases h1 : denoteOpnd p f L o with
    | none => rw [h1] at e; cases e
    | some x =>
      rw [h1] at e
      simp only [Option.bind_some] at e
      obtain ⟨K1, hK1⟩ := IH.opnd L o x h1
      obtain ⟨k2, hk2⟩ := IH.templ g b x w hi e
      refine ⟨max K1 k2, fun ev rec G V hV => ?_⟩
      rw [denInstr2_bind, hK1 ev (G.mono (Nat.le_max_left K1 k2)).1 V hV]
      exact (G.mono (Nat.le_max_right K1 k2)).2 b x w hk2

end B

section top
variable {p : RefProg} {s : State}

/-- the top-level nodes at fuel `f+1`, from the statements at fuel `f` -/
theorem b_top (P : ProgOK p p.env s) (Z : ZipPair p.env) {f : Nat} (IH : SB p s f) (j : Nat) (w : Val)
    (e : denoteTop p (f+1) j = some w) : ∃ n, s.top[j]? = some n ∧ ∃ k, den2 p.env s k n = some w := by
  cases hn : p.nodes[j]? with
  | none => rw [top_none p _ j hn] at e; cases e
  | some i =>
    have hlt : j < s.top.size := by
      rw [← P.size]; exact (Array.getElem?_eq_some_iff.1 hn).1
    have hj : s.top[j]? = some s.top[j] := Array.getElem?_eq_getElem hlt
    refine ⟨s.top[j], hj, ?_⟩
    generalize s.top[j] = n at hj
    have himg := P.img j i n hn hj
    -- the instructions evaluated through `denInstr2`
    have hD : ∀ (hv : ∀ v, i ≠ .var v) (g : Nat), InstrD (BodyD p.env g) i →
        (∀ k, den2 p.env s (k+1) n =
          denInstr2 p.env (den2 p.env s k) s.top (denBody p.env (den2 p.env s k) s.top k) .unit [] i) →
        ∃ k, den2 p.env s k n = some w := by
      intro hv g hI hd
      rw [top_instr p f j i hn hv] at e
      obtain ⟨K, hK⟩ := IH.instr g [] .unit i w hI e
      refine ⟨K + 1, ?_⟩
      rw [hd K]
      exact hK _ _ (geK_self p.env s K) [] (LeVals.refl [])
    cases i <;> simp only [TopImg] at himg
    · exact hD (fun _ e => by cases e) 0 trivial
        (fun k => by rw [den2_static himg.1 himg.2, denInstr2_not_bind _ _ _ _ _ _ _ (fun _ _ e => by cases e)])
    · exact absurd rfl himg.1
    · -- var
      rename_i v0
      obtain ⟨c, hc, hl⟩ := himg
      rw [top_var p f j v0 hn, hl] at e
      simp only [Option.bind_some] at e
      refine ⟨1, ?_⟩
      rw [den2_var hc, ← P.vars c]; exact e
    · exact hD (fun _ e => by cases e) 0 trivial
        (fun k => by rw [den2_static himg.1 himg.2, denInstr2_not_bind _ _ _ _ _ _ _ (fun _ _ e => by cases e)])
    · exact hD (fun _ e => by cases e) 0 trivial
        (fun k => by rw [den2_static himg.1 himg.2, denInstr2_not_bind _ _ _ _ _ _ _ (fun _ _ e => by cases e)])
    · obtain ⟨-, e⟩ := himg; simp only [kindOfInstr] at e; cases e
    · obtain ⟨-, e⟩ := himg; simp only [kindOfInstr] at e; cases e
    · -- bind
      obtain ⟨kk, b, lc, br, rfl, hc, hb, rfl, hl, g, hg⟩ := himg
      exact hD (fun _ e => by cases e) g hg (fun k => den2_bind hc hb hl k)
    · -- zip
      rename_i a b
      obtain ⟨ka, kb, na, nb, rfl, rfl, hka, hkb, hna, hnb, hor⟩ := himg
      rw [top_instr p f j _ hn (fun _ e => by cases e)] at e
      cases f with
      | zero => rw [denoteInstr] at e; cases e
      | succ f1 =>
        rw [instr_zip] at e
        cases h1 : denoteOpnd p f1 [] (.outer ka) with
        | none => rw [h1] at e; cases e
        | some wa =>
          cases h2 : denoteOpnd p f1 [] (.outer kb) with
          | none => rw [h1, h2] at e; cases e
          | some wb =>
            rw [h1, h2] at e
            simp only [Option.bind_some] at e
            injection e with e
            have h1' := (dmono p f1 (f1+1) (by omega)).opnd [] [] _ _ (LeVals.refl []) h1
            have h2' := (dmono p f1 (f1+1) (by omega)).opnd [] [] _ _ (LeVals.refl []) h2
            obtain ⟨K1, hK1⟩ := IH.opnd [] _ wa h1'
            obtain ⟨K2, hK2⟩ := IH.opnd [] _ wb h2'
            have ea := hK1 _ (LeEv.refl _) [] (LeVals.refl [])
            have eb := hK2 _ (LeEv.refl _) [] (LeVals.refl [])
            simp only [denOpnd, hna] at ea
            simp only [denOpnd, hnb] at eb
            rcases hor with hc | ⟨va, vb, hca, hcb, hc⟩
            · refine ⟨max K1 K2 + 1, ?_⟩
              rw [den2_map hc]
              simp only [evalArgs, den2_mono ea (max K1 K2) (Nat.le_max_left K1 K2),
                den2_mono eb (max K1 K2) (Nat.le_max_right K1 K2), Option.map_some]
              rw [Z wa wb, e]
            · refine ⟨1, ?_⟩
              rw [den2_const hc]
              have e1 := den2_mono ea (K1 + 1) (by omega)
              have e2 := den2_mono eb (K2 + 1) (by omega)
              rw [den2_const hca] at e1
              rw [den2_const hcb] at e2
              cases e1; cases e2
              rw [e]
    all_goals (obtain ⟨-, e⟩ := himg; simp only [kindOfInstr] at e; cases e)

/-- **the five statements hold at every fuel** -/
theorem sb (P : ProgOK p p.env s) (Z : ZipPair p.env) : ∀ f, SB p s f := by
  intro f
  induction f with
  | zero =>
    refine ⟨?_, ?_, ?_, ?_, ?_⟩
    · intro L o w e; rw [denoteOpnd] at e; cases e
    · intro j w e; rw [denoteTop] at e; cases e
    · intro g L lv i w _ e; rw [denoteInstr] at e; cases e
    · intro g body v w _ e; rw [denoteTemplate] at e; cases e
    · intro g body v w _ e; rw [denoteTemplateWith] at e; cases e
  | succ f IH =>
    refine ⟨?_, b_top P Z IH, b_instr IH, ?_, ?_⟩
    · intro L o w e
      cases o with
      | outer k =>
        rw [opnd_outer] at e
        obtain ⟨n, hn, k0, hk0⟩ := IH.top k w e
        refine ⟨k0, fun ev hev V _ => ?_⟩
        simp only [denOpnd, hn]
        exact hev n w hk0
      | loc j =>
        rw [opnd_loc] at e
        refine ⟨0, fun ev _ V hV => ?_⟩
        simp only [denOpnd]
        exact hV.2 j w e
      | abs _ => rw [opnd_abs] at e; cases e
      | slot _ => rw [opnd_slot] at e; cases e
    · intro g body v w hB e
      cases g with
      | zero => exact hB.elim
      | succ g =>
        rw [templ_succ] at e
        obtain ⟨K, hK⟩ := IH.templW g body v w hB e
        refine ⟨K + 1, ?_⟩
        have G : GeK p.env s K (den2 p.env s (K+1)) (denBody p.env (den2 p.env s (K+1)) s.top K) :=
          ⟨den2_leEv p.env s (by omega), denBody_mono p.env (den2_leEv p.env s (by omega)) s.top K K (Nat.le_refl _)⟩
        have := hK _ _ G
        unfold DBk
        rw [denBody]
        exact this
    · intro g body v w hB e
      rw [templWith_succ] at e
      obtain ⟨K1, hK1⟩ := b_list (g := g) v (fun L i w hi h => IH.instr g L v i w hi h) (p.env.body body v).instrs (hB v) []
      obtain ⟨K2, hK2⟩ := IH.opnd _ _ w e
      refine ⟨max K1 K2, fun ev rec G => ?_⟩
      exact hK2 ev (G.mono (Nat.le_max_right K1 K2)).1 _ (hK1 ev rec (G.mono (Nat.le_max_left K1 K2)) [] (LeVals.refl []))

end top

/-- **from `denoteTop` to `den2`**: what the text-level semantics computes for the `j`-th creation instruction, the specification-level semantics computes for the node
it created -/
theorem denote_to_den2 {p : RefProg} {env : Env} {s : State} (P : ProgOK p env s) (Z : ZipPair env) (f j : Nat) (w : Val)
    (e : denoteTop p f j = some w) : ∃ n, s.top[j]? = some n ∧ ∃ k, den2 env s k n = some w := by
  have henv := P.env
  subst henv
  exact (sb P Z f).top j w e

/-- closures: what `denoteTemplate` computes, `denBody` computes -/
theorem denote_to_body {p : RefProg} {env : Env} {s : State} (P : ProgOK p env s) (Z : ZipPair env) (f g body : Nat) (v w : Val)
    (hB : BodyD env g body) (e : denoteTemplate p f (env.body body v) v = some w) :
    ∃ k, denBody env (den2 env s k) s.top k body v = some w := by
  have henv := P.env
  subst henv
  exact (sb P Z f).templ g body v w hB e

end N7
end IncrVerif.Proofs.NestH

namespace IncrVerif.Proofs.NestH
open IncrVerif.Engine IncrVerif.Spec

/-- **THE AGREEMENT** of the specification-level semantics `den2` (nodes of the state, closures through templates) with the text-level reference semantics
`Spec.denoteTop` (creation instructions only), for a named node `top[j] = n`, when the program text describes the state: they compute the same values -/
theorem agree_den2_denote {p : RefProg} {env : Env} {s : State} (P : ProgOK p env s) (Z : ZipPair env) {j n : Nat}
    (hj : s.top[j]? = some n) (v : Val) :
    (∃ k, den2 env s k n = some v) ↔ (∃ f, denoteTop p f j = some v) := by
  constructor
  · rintro ⟨k, hk⟩
    exact N7.den2_to_denote P Z k j n v hj hk
  · rintro ⟨f, hf⟩
    obtain ⟨n', hn', k, hk⟩ := N7.denote_to_den2 P Z f j v hf
    rw [hj] at hn'; cases hn'
    exact ⟨k, hk⟩

/-- the same, "for all large enough fuel" (both semantics are monotone in the fuel) -/
theorem agree_large {p : RefProg} {env : Env} {s : State} (P : ProgOK p env s) (Z : ZipPair env) {j n : Nat}
    (hj : s.top[j]? = some n) (v : Val) :
    (∃ K, ∀ k, K ≤ k → den2 env s k n = some v) ↔ (∃ F, ∀ f, F ≤ f → denoteTop p f j = some v) := by
  constructor
  · rintro ⟨K, hK⟩
    obtain ⟨f, hf⟩ := (agree_den2_denote P Z hj v).1 ⟨K, hK K (Nat.le_refl _)⟩
    exact ⟨f, fun f' hf' => denoteTop_mono hf f' hf'⟩
  · rintro ⟨F, hF⟩
    obtain ⟨k, hk⟩ := (agree_den2_denote P Z hj v).2 ⟨F, hF F (Nat.le_refl _)⟩
    exact ⟨k, fun k' hk' => den2_mono hk k' hk'⟩

end IncrVerif.Proofs.NestH
