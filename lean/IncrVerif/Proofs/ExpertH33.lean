import IncrVerif.Proofs.ExpertH32
/-!
# Expert nodes: the frame `XF` for the API actions
-/
namespace IncrVerif.Proofs.ExpertH
open IncrVerif.Engine IncrVerif.Proofs IncrVerif.Proofs.Step

/-- the API actions that keep `XF`: all but node creation (`create`), `addDep` and `stabilise` -/
def XAct : Action → Prop
  | .create _ => False
  | .addDep .. => False
  | .stabilise => False
  | _ => True

theorem PresX.stepAction (env : Env) (a : Action) (tk : Array Nat) (h : XAct a) :
    Step.Pres XF (Engine.stepAction env a tk) := by
  unfold Engine.stepAction
  cases a <;> first | exact False.elim h | (dsimp only; qpres; done)

end IncrVerif.Proofs.ExpertH
