import IncrVerif.Proofs.MapRef5
import IncrVerif.Proofs.MapRef2
/-!
# map_ref fragment: simulation of the notification walk, part 1
(`tick`, `shouldCutoff`, `childChanged`, `rchMinHeight`, `parentIterCanRecomputeNow`)
-/
namespace IncrVerif.Proofs.MapRefH
open IncrVerif.Engine IncrVerif.Proofs IncrVerif.Proofs.Step IncrVerif.Proofs.Sched IncrVerif.Proofs.Quiet

section
variable {g : Nat → Option Val}

theorem Sim.tick : Sim g Engine.tick Engine.tick := by
  intro s; unfold Engine.tick; sim
  split <;> sim
macro_rules | `(tactic| sim_leaf) => `(tactic| with_reducible exact Sim.tick)

theorem St.bumpCounter (f : Counters → Counters) : Sim g (Engine.bumpCounter f) (Engine.bumpCounter f) := by
  intro s; unfold Engine.bumpCounter; sim
macro_rules | `(tactic| sim_leaf) => `(tactic| with_reducible exact St.bumpCounter _)

theorem virtEnv_cutoff (env : Env) : (virtEnv env).cutoff = env.cutoff := rfl
theorem virtEnv_proj (env : Env) : (virtEnv env).proj = env.proj := rfl

theorem Sim.shouldCutoff (env : Env) (n : Nat) (o v : Val) :
    Sim g (Engine.shouldCutoff env n o v) (Engine.shouldCutoff (virtEnv env) n o v) := by
  intro s; unfold Engine.shouldCutoff; simp only [virtEnv_cutoff]; sim
  split <;> sim
macro_rules | `(tactic| sim_leaf) => `(tactic| with_reducible exact Sim.shouldCutoff _ _ _ _)

/-! ## `child_changed` is invisible in the virtual state -/

theorem childChanged_veq {env : Env} {fuel p c ci : Nat} {o : Option Val} {t t' : State} {u : Unit}
    (hfr : Fr t) (h : (Engine.childChanged env fuel p c ci o).run.run t = (.ok u, t')) : VEq g t t' := by
  induction fuel generalizing p c ci o t t' u with
  | zero => unfold Engine.childChanged at h; cases h
  | succ fuel ih =>
    unfold Engine.childChanged at h
    obtain ⟨nd, hnd, h⟩ := bind_getNode_inv h
    obtain ⟨hne, hval⟩ := hfr.some hnd
    have hk? : nd.kind? = some nd.kind := by simp [Node.kind?, hval]
    rw [hk?] at h
    cases hkd : nd.kind <;> rw [hkd] at h
    case expert e => exact absurd hkd (hne e)
    case mapRef pr i =>
      dsimp only at h
      obtain ⟨cn, t1, h1, h2⟩ := bind_ok_inv h
      clear h
      have e1 : t1 = t := by
        rw [run_valueUnwrap] at h1; split at h1 <;> cases h1; rfl
      subst e1
      have hcut : nd.cutoff = .eq := by
        have := hfr.cut p pr i; rw [nodeD_of_some hnd] at this; exact this hkd
      have key : ∃ did, ((do
          modNode p fun x => { x with didChange := x.didChange || did }
          for (pp, ci) in (← getNode p).parents do
            childChanged env fuel pp p ci (o.map (env.proj pr))) : M Unit).run.run t1 = (.ok u, t') := by
        cases o with
        | none => exact ⟨true, h2⟩
        | some ov =>
          simp only [Option.map_some] at h2
          unfold Engine.shouldCutoff at h2
          simp only [bind_assoc] at h2
          rw [run_bind_ok (run_getNode_some hnd), hcut] at h2
          exact ⟨_, h2⟩
      obtain ⟨did, h3⟩ := key
      rw [run_bind_modNode] at h3
      obtain ⟨nd', hnd', h4⟩ := bind_getNode_inv h3
      obtain ⟨_, t3, h, h5⟩ := bind_ok_inv h4
      obtain ⟨-, rfl⟩ := pure_ok_inv h5
      have v1 : VEq g t1 { t1 with nodes := t1.nodes.modify p fun x => { x with didChange := x.didChange || did } } :=
        VEq.modNode t1 p _ (by vflag)
      refine Sched.forIn_ok_keep (fun s => VEq g t1 s) _ nd'.parents ?_ _ _ _ v1 h
      intro a _ s r s' k hb
      obtain ⟨pp, ci'⟩ := a
      obtain ⟨_, s1, hcc, hb1⟩ := bind_ok_inv hb
      obtain ⟨-, rfl⟩ := pure_ok_inv hb1
      exact Step.PreOrd.trans k (ih (k.noExp hfr) hcc)
    all_goals (obtain ⟨-, rfl⟩ := pure_ok_inv h; exact Step.PreOrd.refl _)

theorem virt_childChanged_run {env' : Env} {fuel p c ci : Nat} {o' : Option Val} {t : State} {nd : Node}
    (hp : t.nodes[p]? = some nd) (hv : nd.valid = true) (hne : ∀ e, nd.kind ≠ .expert e) :
    (Engine.childChanged env' (fuel + 1) p c ci o').run.run (virt g t) = (.ok (), virt g t) := by
  unfold Engine.childChanged
  have hvn : (virt g t).nodes[p]? = some (virtNode (g p) nd) := by rw [virt_getElem?, hp]; rfl
  rw [run_bind_ok (run_getNode_some hvn), virtNode_kind?]
  have hk? : nd.kind? = some nd.kind := by simp [Node.kind?, hv]
  rw [hk?]
  cases hkd : nd.kind <;> first | rfl | exact absurd hkd (hne _)

theorem Sim.childChanged (env : Env) (fuel p c ci : Nat) (o o' : Option Val) :
    Sim g (Engine.childChanged env fuel p c ci o) (Engine.childChanged (virtEnv env) fuel p c ci o') := by
  intro s hfr r s' h
  cases fuel with
  | zero => unfold Engine.childChanged at h; cases h
  | succ fuel =>
    have hv := childChanged_veq (g := g) hfr h
    unfold Engine.childChanged at h
    obtain ⟨nd, hnd, -⟩ := bind_getNode_inv h
    rw [virt_childChanged_run hnd (hfr.some hnd).2 (hfr.some hnd).1, hv.veq]
    exact ⟨rfl, hv.noExp hfr⟩
macro_rules | `(tactic| sim_leaf) => `(tactic| with_reducible exact Sim.childChanged _ _ _ _ _ _ _)

/-! ## `parent_iter_can_recompute_now` -/

theorem St.rchMinHeight : Sim g Engine.rchMinHeight Engine.rchMinHeight := by
  intro s; unfold Engine.rchMinHeight; sim
  exact SimAt.ret _
macro_rules | `(tactic| sim_leaf) => `(tactic| with_reducible exact St.rchMinHeight)

theorem Sim.parentIterCanRecomputeNow (p child : Nat) :
    Sim g (Engine.parentIterCanRecomputeNow p child) (Engine.parentIterCanRecomputeNow p child) := by
  intro s; unfold Engine.parentIterCanRecomputeNow; sim
  sim_kind
  have e : ∀ (x : Nat), ¬ ([x].length ≥ 2) := by intro x; simp
  rw [if_neg (e _)]
  sim
macro_rules | `(tactic| sim_leaf) => `(tactic| with_reducible exact Sim.parentIterCanRecomputeNow _ _)

end
end IncrVerif.Proofs.MapRefH
