import IncrVerif.Proofs.NestH115
import IncrVerif.Proofs.NestH122
import IncrVerif.Spec.Props
/-!
# Nested binds (F2), part 7d: the program text of a history (`progOf`); frames for `ProgOK`; the exact image of a top-level creation instruction

* `progStep`/`progOf`: what `Spec.Shadow.step` does to the `prog` component (`shadow_step_prog`, N7h), as a pure function of the history;
* `N7.topImg_ext`: `TopImg` moves to a state whose naming table extends the old one and which keeps the kinds of the old nodes and the closures/left-hand sides of
  the old bind records (`N7k.BKey`);
* `N7.elab_static_img`: the closed form of the elaboration of a static top-level instruction, with the EXACT kind of the new node (BindH84 `C2c.elab_static1` only says
  that the kind is static and that its children are named).
-/
namespace IncrVerif.Proofs.NestH
open IncrVerif.Engine IncrVerif.Driver IncrVerif.Proofs IncrVerif.Proofs.Step IncrVerif.Proofs.Sched IncrVerif.Proofs.Quiet
open IncrVerif.Proofs.BindH
open IncrVerif.Spec

/-! ## the program text of a history -/

/-- what `Shadow.step` does to the program text when the implementation answers `ok …` -/
def progStep (p : RefProg) : Action → RefProg
  | .create i =>
    match i with
    | .cutoff _ _ => p
    | .var v => { p with nodes := p.nodes.push (.var v), varOf := (p.nodes.size, p.vars.size) :: p.varOf, vars := p.vars.push v }
    | i => { p with nodes := p.nodes.push i }
  | .set v x => { p with vars := p.vars.modify v fun _ => x }
  | .modify v d => { p with vars := p.vars.modify v fun x => addInt7 x d }
  | .update v d => { p with vars := p.vars.modify v fun x => addInt7 x d }
  | .replaceWith v d => { p with vars := p.vars.modify v fun x => addInt7 x d }
  | .replace v x => { p with vars := p.vars.modify v fun _ => x }
  | _ => p

/-- the empty program -/
def progInit (env : Env) (po : Nat → Bool) : RefProg := { env := env, pureOld := po }

/-- **the program text of a history**: its creation instructions in order, the current values of its variables -/
def progOf (env : Env) (po : Nat → Bool) (acts : List Action) : RefProg := acts.foldl progStep (progInit env po)

theorem progOf_append (env : Env) (po : Nat → Bool) (as bs : List Action) :
    progOf env po (as ++ bs) = bs.foldl progStep (progOf env po as) := by
  unfold progOf; rw [List.foldl_append]

theorem progStep_env (p : RefProg) (a : Action) : (progStep p a).env = p.env := by
  cases a <;> try rfl
  rename_i i; cases i <;> rfl

namespace N7
open IncrVerif.Proofs.BindH.C3d IncrVerif.Proofs.NestH.N5d IncrVerif.Proofs.NestH.N7k

/-! ## frames -/

theorem resolveP_ext {s s' : State} (htop : ∀ (k n : Nat), s.top[k]? = some n → s'.top[k]? = some n) (L : List Nat) (o : Opnd)
    (n : Nat) (h : resolveP s L o = some n) : resolveP s' L o = some n := by
  cases o with
  | outer k => exact htop k n h
  | loc j => exact h
  | abs _ => cases h
  | slot _ => cases h

theorem resolveAll_ext {s s' : State} (htop : ∀ (k n : Nat), s.top[k]? = some n → s'.top[k]? = some n) (L : List Nat) :
    ∀ (args : List Opnd) (ns : List Nat), resolveAll s L args = some ns → resolveAll s' L args = some ns := by
  intro args
  induction args with
  | nil => intro ns h; exact h
  | cons a as ih =>
    intro ns h
    simp only [resolveAll] at h ⊢
    cases h1 : resolveP s L a with
    | none => rw [h1] at h; cases h
    | some n =>
      cases h2 : resolveAll s L as with
      | none => rw [h1, h2] at h; cases h
      | some ms =>
        rw [h1, h2] at h
        rw [resolveP_ext htop L a n h1, ih ms h2]
        exact h

theorem kindOfInstr_ext {s s' : State} (htop : ∀ (k n : Nat), s.top[k]? = some n → s'.top[k]? = some n) (i : Instr)
    (k : Kind) (h : kindOfInstr s [] .unit i = some k) : kindOfInstr s' [] .unit i = some k := by
  cases i <;> simp only [kindOfInstr] at h ⊢ <;> try (first | exact h | cases h)
  · rename_i g args
    cases h1 : resolveAll s [] args with
    | none => rw [h1] at h; cases h
    | some ns => rw [h1] at h; rw [resolveAll_ext htop [] args ns h1]; exact h
  · rename_i g init cs
    cases h1 : resolveAll s [] cs with
    | none => rw [h1] at h; cases h
    | some ns => rw [h1] at h; rw [resolveAll_ext htop [] cs ns h1]; exact h

/-- **frame for `TopImg`** -/
theorem topImg_ext {p p' : RefProg} {s s' : State} {j : Nat}
    (htop : ∀ (k n : Nat), s.top[k]? = some n → s'.top[k]? = some n)
    (hin : ∀ (k n : Nat), s.top[k]? = some n → n < s.nodes.size) (K : BKey s s')
    (hvo : p'.varOf.lookup j = p.varOf.lookup j) (henv : p'.env = p.env) {i : Instr} {n : Nat} (hn : n < s.nodes.size)
    (h : TopImg p s j i n) : TopImg p' s' j i n := by
  have hk := K.kind n hn
  cases i <;> simp only [TopImg] at h ⊢ <;> try exact ⟨h.1, by rw [hk]; exact kindOfInstr_ext htop _ _ h.2⟩
  · obtain ⟨c, h1, h2⟩ := h
    exact ⟨c, by rw [hk]; exact h1, by rw [hvo]; exact h2⟩
  · obtain ⟨k, b, lc, br, h1, h2, h3, h4, h5, g, h6⟩ := h
    obtain ⟨br', k1, k2, k3⟩ := K.binds b br h3
    exact ⟨k, b, lc, br', h1, by rw [hk]; exact h2, k1, k2.trans h4, by rw [k3]; exact htop _ _ h5, g, by rw [henv]; exact h6⟩
  · obtain ⟨ka, kb, na, nb, h1, h2, h3, h4, h5, h6, h7⟩ := h
    refine ⟨ka, kb, na, nb, h1, h2, h3, h4, htop _ _ h5, htop _ _ h6, ?_⟩
    rw [hk, K.kind na (hin _ _ h5), K.kind nb (hin _ _ h6)]
    exact h7

/-- **frame for `ProgOK`**: the naming table, the kinds of the old nodes, the closures and left-hand sides of the old bind records and the values of the variables are
unchanged -/
theorem progOK_frame {p : RefProg} {env : Env} {s s' : State} (P : ProgOK p env s)
    (hin : ∀ (k n : Nat), s.top[k]? = some n → n < s.nodes.size) (ht : s'.top = s.top) (K : BKey s s')
    (hv : ∀ c : Nat, (s'.vars[c]?).map VarCell.value = (s.vars[c]?).map VarCell.value) : ProgOK p env s' := by
  refine ⟨P.env, by rw [ht]; exact P.size, fun c => by rw [hv c]; exact P.vars c, ?_⟩
  intro j i n hi hn
  rw [ht] at hn
  exact topImg_ext (fun k n h => by rw [ht]; exact h) hin K rfl rfl (hin j n hn) (P.img j i n hi hn)

theorem vars_size {p : RefProg} {env : Env} {s : State} (P : ProgOK p env s) : p.vars.size = s.vars.size := by
  by_cases h1 : p.vars.size < s.vars.size
  · have := P.vars p.vars.size
    rw [Array.getElem?_eq_none (Nat.le_refl _), Array.getElem?_eq_getElem h1] at this
    cases this
  · by_cases h2 : s.vars.size < p.vars.size
    · have := P.vars s.vars.size
      rw [Array.getElem?_eq_none (Nat.le_refl _), Array.getElem?_eq_getElem h2] at this
      cases this
    · omega

/-! ## the exact image of a static top-level instruction -/

/-- kind `k` is the image of the static instruction `i` in state `s` -/
def StaticImg (s : State) (i : Instr) (k : Kind) : Prop :=
  match i with
  | .var _ => k = .var s.vars.size
  | .zip a b => ∃ ka kb na nb, a = .outer ka ∧ b = .outer kb ∧ s.top[ka]? = some na ∧ s.top[kb]? = some nb ∧
      (k = .map fnZip [na, nb] ∨
        ∃ va vb, (s.nodeD na).kind = .const va ∧ (s.nodeD nb).kind = .const vb ∧ k = .const (.pair va vb))
  | i => kindOfInstr s [] .unit i = some k

theorem resolveOpnd_outer_run {s s1 : State} {k n : Nat} (h : (resolveOpnd [] (.outer k)).run.run s = (.ok n, s1)) :
    s1 = s ∧ s.top[k]? = some n := by
  unfold resolveOpnd at h
  simp only at h
  rw [run_bind_get] at h
  cases hm : s.top[k]? with
  | some m =>
    rw [hm] at h
    obtain ⟨e1, e2⟩ := pure_ok_inv h
    rw [e1]; exact ⟨e2, rfl⟩
  | none => rw [hm] at h; cases h

theorem mapM_resolve_exact {s : State} :
    ∀ (l : List Opnd) (r : List Nat) (s1 : State), (∀ a, a ∈ l → Quiet.OpndOK a) →
      (l.mapM (fun o => resolveOpnd [] o)).run.run s = (.ok r, s1) → s1 = s ∧ resolveAll s [] l = some r := by
  intro l
  induction l with
  | nil =>
    intro r s1 _ h
    rw [List.mapM_nil] at h
    obtain ⟨e1, e2⟩ := pure_ok_inv h
    rw [e1]; exact ⟨e2, rfl⟩
  | cons a l ih =>
    intro r s1 hl h
    rw [List.mapM_cons] at h
    obtain ⟨b, t, h1, h2⟩ := bind_ok_inv h
    have ha := hl a (List.mem_cons_self ..)
    cases a with
    | outer k =>
      obtain ⟨et, hk⟩ := resolveOpnd_outer_run h1
      rw [et] at h2
      obtain ⟨bs, t2, h3, h4⟩ := bind_ok_inv h2
      obtain ⟨et2, hbs⟩ := ih bs t2 (fun x hx => hl x (List.mem_cons_of_mem _ hx)) h3
      obtain ⟨e1, e2⟩ := pure_ok_inv h4
      rw [e1, e2]
      refine ⟨et2, ?_⟩
      simp only [resolveAll, resolveP, hk, hbs]
    | loc _ => exact ha.elim
    | abs _ => exact ha.elim
    | slot _ => exact ha.elim

theorem isConstant_run {a : Nat} {s s1 : State} {r : Option Val} (h : (isConstant a).run.run s = (.ok r, s1)) :
    s1 = s ∧ ∀ v, r = some v → (s.nodeD a).kind = .const v := by
  refine ⟨isConstant_ok_inv h, ?_⟩
  unfold isConstant at h
  obtain ⟨nd, hnd, h⟩ := bind_getNode_inv h
  intro v hv
  have hnd' : s.nodeD a = nd := by
    simp only [State.nodeD, hnd, Option.getD_some]
  rw [hnd']
  unfold Node.kind? at h
  split at h
  · rename_i w hw
    obtain ⟨e1, -⟩ := pure_ok_inv h
    rw [hv] at e1
    injection e1 with e1
    split at hw
    · injection hw with hw; rw [hw, e1]
    · cases hw
  · obtain ⟨e1, -⟩ := pure_ok_inv h
    rw [hv] at e1; cases e1

end N7
end IncrVerif.Proofs.NestH
