import IncrVerif.Proofs.MapOld4
/-!
# map_with_old fragment: simulation of the necessity cascades
-/
namespace IncrVerif.Proofs.MapOldH
open IncrVerif.Engine IncrVerif.Proofs IncrVerif.Proofs.Step IncrVerif.Proofs.Sched IncrVerif.Proofs.Quiet

variable {sp : Nat → Val → Val}

section
/-- loops: same list, bodies simulate each other -/
macro "wsim_loop" : tactic =>
  `(tactic| ((with_reducible refine Sim.at (Sim.forIn _ (fun _ _ => ?_) _) _); intro _))

theorem Sim.getBind (b : Nat) : Sim (Engine.getBind b) (Engine.getBind b) := by
  intro s; unfold Engine.getBind; wsim
  split <;> wsim
macro_rules | `(tactic| wsim_leaf) => `(tactic| with_reducible exact Sim.getBind _)

theorem Sim.getExpert (b : Nat) : Sim (Engine.getExpert b) (Engine.getExpert b) := by
  intro s; unfold Engine.getExpert; wsim
  split <;> wsim
macro_rules | `(tactic| wsim_leaf) => `(tactic| with_reducible exact Sim.getExpert _)

theorem Sim.logEv (e : Event) : Sim (Engine.logEv e) (Engine.logEv e) := by
  intro s; unfold Engine.logEv; wsim
macro_rules | `(tactic| wsim_leaf) => `(tactic| with_reducible exact Sim.logEv _)

theorem Sim.modExpert (e : Nat) (f : ExpertRec → ExpertRec) : Sim (Engine.modExpert e f) (Engine.modExpert e f) := by
  intro s; unfold Engine.modExpert; wsim
macro_rules | `(tactic| wsim_leaf) => `(tactic| with_reducible exact Sim.modExpert _ _)

theorem Sim.observabilityChange (e : Nat) (b : Bool) :
    Sim (Engine.observabilityChange e b) (Engine.observabilityChange e b) := by
  intro s; unfold Engine.observabilityChange; wsim
macro_rules | `(tactic| wsim_leaf) => `(tactic| with_reducible exact Sim.observabilityChange _ _)

theorem Sim.scopeHeight (sc : Scope) : Sim (Engine.scopeHeight sc) (Engine.scopeHeight sc) := by
  intro s; unfold Engine.scopeHeight
  cases sc with
  | top => wsim
  | bind b => wsim
macro_rules | `(tactic| wsim_leaf) => `(tactic| with_reducible exact Sim.scopeHeight _)

theorem Sim.scopeIsNecessary (sc : Scope) : Sim (Engine.scopeIsNecessary sc) (Engine.scopeIsNecessary sc) := by
  intro s; unfold Engine.scopeIsNecessary
  cases sc with
  | top => wsim
  | bind b => wsim
macro_rules | `(tactic| wsim_leaf) => `(tactic| with_reducible exact Sim.scopeIsNecessary _)

theorem Sim.handleAfterStabilisation (n : Nat) :
    Sim (Engine.handleAfterStabilisation n) (Engine.handleAfterStabilisation n) := by
  intro s; unfold Engine.handleAfterStabilisation; wsim
macro_rules | `(tactic| wsim_leaf) => `(tactic| with_reducible exact Sim.handleAfterStabilisation _)

theorem Sim.maybeHandleAfterStabilisation (n : Nat) :
    Sim (Engine.maybeHandleAfterStabilisation n) (Engine.maybeHandleAfterStabilisation n) := by
  intro s; unfold Engine.maybeHandleAfterStabilisation; wsim
macro_rules | `(tactic| wsim_leaf) => `(tactic| with_reducible exact Sim.maybeHandleAfterStabilisation _)


theorem Sim.link (env : Env) (fuel : Nat) :
    (∀ n, Sim (becameNecessary env fuel n) (becameNecessary (virtEnv env sp) fuel n)) ∧
    (∀ c i p, Sim (addParentWithoutAdjustingHeights env fuel c i p)
      (addParentWithoutAdjustingHeights (virtEnv env sp) fuel c i p)) := by
  induction fuel with
  | zero =>
    constructor
    · intro n s; unfold becameNecessary; wsim
    · intro c i p s; unfold addParentWithoutAdjustingHeights; wsim
  | succ fuel ih =>
    constructor
    · intro n s
      unfold becameNecessary
      wsim
      all_goals first
        | exact ih.2 _ _ _ _
        | wsim_kind
    · intro c i p s
      unfold addParentWithoutAdjustingHeights
      wsim
      all_goals first
        | exact ih.1 _ _
        | wsim_kind
        | (exfalso; simp_all; done)
      all_goals wsim_kind

end
end IncrVerif.Proofs.MapOldH
