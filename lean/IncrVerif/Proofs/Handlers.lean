import IncrVerif.Engine.Recompute
/-!
# Helper definitions and lemmas for C09 (update-handler automaton)
-/
namespace IncrVerif.Proofs
open IncrVerif.Engine

/-- what one handler delivers over a sequence of per-round classifications, starting from `prev`;
this is exactly the loop body of `runAll` (match on `handlerStep`, then `prev := d.toPrev`). -/
def deliveries : Previously → List NodeUpdate → List NodeUpdate
  | _, [] => []
  | prev, nu :: rest =>
    match handlerStep prev nu with
    | none => deliveries prev rest
    | some d => d :: deliveries d.toPrev rest

/-- the specification: `Initialised` for the first round (whatever its classification, unless it is the
invalidation), `Changed` for each later round classified `changed`, until the first `invalidated`,
which is delivered once; nothing afterwards. -/
def specDeliveries (nus : List NodeUpdate) : List NodeUpdate :=
  (match nus.takeWhile (· != .invalidated) with
    | [] => []
    | _ :: rest => .necessary :: rest.filter (· == .changed))
  ++ (if nus.any (· == .invalidated) then [.invalidated] else [])

/-! ## the automaton, state by state -/

/-- what an already initialised handler (`prev ∈ {necessary, changed}`) delivers -/
def initDeliveries (nus : List NodeUpdate) : List NodeUpdate :=
  (nus.takeWhile (· != .invalidated)).filter (· == .changed)
    ++ (if nus.any (· == .invalidated) then [.invalidated] else [])

theorem deliveries_invalidated (nus : List NodeUpdate) : deliveries .invalidated nus = [] := by
  induction nus with
  | nil => rfl
  | cons nu rest ih => cases nu <;> simp [deliveries, handlerStep, ih]

theorem deliveries_init (nus : List NodeUpdate) (h : ∀ nu ∈ nus, nu ≠ .unnecessary) :
    deliveries .necessary nus = initDeliveries nus ∧ deliveries .changed nus = initDeliveries nus := by
  induction nus with
  | nil => exact ⟨rfl, rfl⟩
  | cons nu rest ih =>
    have ih := ih (fun x hx => h x (List.mem_cons_of_mem _ hx))
    have hnu := h nu (List.mem_cons_self)
    cases nu <;>
      simp_all [deliveries, handlerStep, NodeUpdate.toPrev, initDeliveries, deliveries_invalidated]

theorem deliveries_eq_spec (nus : List NodeUpdate) (h : ∀ nu ∈ nus, nu ≠ .unnecessary) :
    deliveries .neverBeenUpdated nus = specDeliveries nus := by
  cases nus with
  | nil => rfl
  | cons nu rest =>
    have ih := deliveries_init rest (fun x hx => h x (List.mem_cons_of_mem _ hx))
    have hnu := h nu (List.mem_cons_self)
    cases nu <;>
      simp_all [deliveries, handlerStep, NodeUpdate.toPrev, initDeliveries, specDeliveries,
        deliveries_invalidated]

/-! ## consequences of the closed form -/

theorem initialised_once (nus : List NodeUpdate) (h : ∀ nu ∈ nus, nu ≠ .unnecessary) :
    ((deliveries .neverBeenUpdated nus).drop 1).all (· != .necessary) = true := by
  rw [deliveries_eq_spec nus h, specDeliveries]
  split <;> split <;> simp <;> (intro x _; cases x <;> simp)

theorem append_invalidated_split (l pre post : List NodeUpdate)
    (hl : ∀ x ∈ l, x ≠ .invalidated) (h : l ++ [.invalidated] = pre ++ .invalidated :: post) :
    post = [] := by
  induction l generalizing pre with
  | nil =>
    cases pre with
    | nil => simpa using h.symm
    | cons a pre' => simp at h
  | cons a l ih =>
    cases pre with
    | nil =>
      simp at h
      exact absurd h.1 (hl a List.mem_cons_self)
    | cons b pre' =>
      simp at h
      exact ih pre' (fun x hx => hl x (List.mem_cons_of_mem _ hx)) (by simpa using h.2)

theorem nothing_after_invalidated (nus : List NodeUpdate) (h : ∀ nu ∈ nus, nu ≠ .unnecessary) :
    ∀ pre post, deliveries .neverBeenUpdated nus = pre ++ .invalidated :: post → post = [] := by
  intro pre post heq
  rw [deliveries_eq_spec nus h, specDeliveries] at heq
  -- the part before the optional final `invalidated` contains no `invalidated`
  have key : ∀ l : List NodeUpdate, (∀ x ∈ l, x ≠ .invalidated) →
      l ++ (if nus.any (· == .invalidated) then [NodeUpdate.invalidated] else [])
        = pre ++ .invalidated :: post → post = [] := by
    intro l hl e
    split at e
    · exact append_invalidated_split l pre post hl e
    · rw [List.append_nil] at e
      exact absurd rfl (hl .invalidated (by rw [e]; simp))
  split at heq
  · exact key [] (by simp) heq
  · next x rest hx =>
    refine key _ ?_ heq
    intro y hy
    simp only [List.mem_cons, List.mem_filter] at hy
    rcases hy with rfl | ⟨_, hy⟩
    · decide
    · intro e; subst e; simp at hy

theorem changed_count (nus : List NodeUpdate) (h : ∀ nu ∈ nus, nu ≠ .unnecessary) :
    ((deliveries .neverBeenUpdated nus).filter (· == .changed)).length
      = (((nus.takeWhile (· != .invalidated)).drop 1).filter (· == .changed)).length := by
  rw [deliveries_eq_spec nus h, specDeliveries]
  split <;> split <;> simp_all

/-! ## engine link -/

theorem nodeUpdate_ne_unnecessary (env : Env) (s : State) (n : Nat)
    (h : (s.nodeD n).observers ≠ []) : s.nodeUpdate env n ≠ .unnecessary := by
  have hn : (s.nodeD n).isNecessary = true := by
    simp [Node.isNecessary, h]
  unfold State.nodeUpdate
  simp only [hn]
  split
  · simp
  · simp
    split <;> simp

theorem nodeUpdate_changed_iff (env : Env) (s : State) (n : Nat) :
    s.nodeUpdate env n = .changed ↔
      ((s.nodeD n).valid = true ∧ (s.nodeD n).isNecessary = true ∧ (s.value env n).isSome = true
        ∧ (s.nodeD n).changedAt + 1 = s.stabNum) := by
  simp only [State.nodeUpdate]
  generalize (s.nodeD n).valid = v
  generalize (s.nodeD n).isNecessary = nec
  generalize (s.value env n).isSome = sm
  cases v <;> cases nec <;> cases sm <;> simp

end IncrVerif.Proofs
