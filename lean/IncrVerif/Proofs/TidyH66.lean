import IncrVerif.Proofs.TidyH65
import IncrVerif.Proofs.TidyH2
/-!
# T1b, part 9: `stabilise` of the fragment static + `map_ref` RETURNS (port of `Quiet.stabilise_total_q`)
-/
namespace IncrVerif.Proofs.TidyH.RT
open IncrVerif.Engine IncrVerif.Driver IncrVerif.Proofs IncrVerif.Proofs.Step IncrVerif.Proofs.Sched IncrVerif.Proofs.Quiet
open IncrVerif.Proofs.MapRefH

section
variable {env : Env} {g : Nat → Option Val} {s : State}

/-- the extra invariant of total correctness reads nothing that `virt` changes -/
theorem tinv_virt {N : Nat} (g : Nat → Option Val) (s : State) : TInv N (virt g s) ↔ TInv N s := by
  have hh : ∀ op, HBo (virt g s) op ↔ HBo s op := fun op => by
    constructor
    · intro h m hm ho
      have := h m (by rw [virt_isNecessary]; exact hm) ho
      rwa [virt_nodeD, virtNode_height] at this
    · intro h m hm ho
      rw [virt_isNecessary] at hm
      rw [virt_nodeD, virtNode_height]; exact h m hm ho
  constructor
  · intro T
    exact ⟨(hh _).1 T.hb, ⟨T.room.ahh, T.room.rch, by have := T.room.size; rwa [virt_size] at this⟩, T.linked,
      by have := T.topSize; rwa [virt_size] at this, T.newNodup, T.newState⟩
  · intro T
    exact ⟨(hh _).2 T.hb, ⟨T.room.ahh, T.room.rch, by rw [virt_size]; exact T.room.size⟩, T.linked,
      by rw [virt_size]; exact T.topSize, T.newNodup, T.newState⟩

/-- **`stabilise` returns** (fragment static + map_ref, enough fuel); the invariants are kept. -/
theorem stabiliseR_total {N fuel : Nat} (Q : QInvR env s g) (T : TInv N s) (hf : 3 * s.nodes.size + 4 ≤ fuel) :
    Tot (stabilise env fuel) s (fun _ s' => (∃ g', StabilisedR env fuel s s' g g') ∧ TInv N s') := by
  have Qv := Q.q
  have Tv : TInv N (virt g s) := (tinv_virt g s).2 T
  -- the state with the status set
  obtain ⟨s0, hs0⟩ : ∃ s0 : State, s0 = { s with status := .stabilising } := ⟨_, rfl⟩
  have hs0v : virt g s0 = { virt g s with status := .stabilising } := by rw [hs0]; rfl
  have hnd0 : ∀ m, s0.nodeD m = s.nodeD m := fun m => by rw [hs0]; rfl
  have hsz0 : s0.nodes.size = s.nodes.size := by rw [hs0]
  have V0 : VFrame s s0 := VFrame.of_nodes (by rw [hs0]) (by rw [hs0])
  have F0 : RFrag env s0 := RFrag.of_vframe V0 Q.frag
  have hp0 : s0.propagateInvalidity = [] := by rw [hs0]; exact Q.pinv
  have S0 : SInv (virtEnv env) (virt g s0) (virt g s0).newObservers (virt g s0).disallowedObservers := by
    rw [hs0v]
    exact ⟨Qv.struct.congr (SameG.of_nodes rfl rfl rfl rfl rfl),
      ⟨Qv.obs.inRange, Qv.obs.mem, Qv.obs.created, Qv.obs.newIn, Qv.obs.dis, Qv.obs.disIn, Qv.obs.disNodup⟩,
      Qv.pinv, Qv.handlers⟩
  have hb0 : HBo (virt g s0) allClosed := by
    rw [hs0v]
    intro m hm ho
    exact Tv.hb m hm ho
  have R0 : Room N (virt g s0) := by rw [hs0v]; exact ⟨Tv.room.ahh, Tv.room.rch, Tv.room.size⟩
  -- the carried invariant of the bisimulation
  have hpu : ∀ c p i, (p, i) ∈ (s0.nodeD c).parents → c ∈ kidsR (s0.nodeD p).kind := by
    intro c p i hm
    have := (S0.struct.par c p i (by rw [virt_nodeD, virtNode_parents]; exact hm)).1
    have := List.mem_of_getElem? this
    rwa [virt_kids] at this
  have P0 := P2.of_frag F0 hp0 hpu
  -- the first loop
  have hf1 : 2 * (virt g s0).nodes.size + 2 ≤ fuel := by rw [virt_size, hsz0]; omega
  have T1 := addNewObservers_total (fuel := fuel) (env := virtEnv env) S0 hb0 R0
    (by rw [hs0v]; exact Tv.newNodup) (by rw [hs0v]; exact Tv.newState) hf1
  obtain ⟨_, t1, h1, hb1, P1⟩ := (BSim.addNewObservers (g := g) env fuel (by rw [hsz0]; omega) s0).tot P0 T1
  have hv1 := ((BSim.addNewObservers (g := g) env fuel (by rw [hsz0]; omega) s0).fwd P0 h1).1
  obtain ⟨S1, hn1, hd1, PF1, O1, -⟩ := addNewObservers_s S0 hv1
  -- the second loop
  have hf2 : 3 * (virt g t1).nodes.size + 3 ≤ fuel := by rw [PF1.size, virt_size, hsz0]; omega
  have T2 := unlinkDisallowedObservers_total (env := virtEnv env) (fuel := fuel) S1 hn1 hb1 hf2
  obtain ⟨_, t2, h2, hb2, P2'⟩ := (BSim.unlinkDisallowedObservers (g := g) fuel t1).tot P1 T2
  have hv2 := ((BSim.unlinkDisallowedObservers (g := g) fuel t1).fwd P1 h2).1
  obtain ⟨S2, hn2, hd2, PF2, O2⟩ := unlinkDisallowedObservers_s S1 hn1 hv2
  have PF : PFrame (virt g s0) (virt g t2) := PF1.trans PF2
  have R2 : Room N (virt g t2) := R0.of_pframe PF
  have hsz2 : t2.nodes.size = s.nodes.size := by
    have := PF.size; rw [virt_size, virt_size] at this; rw [this, hsz0]
  -- the drain invariant
  obtain ⟨D2, hst2, hsd2, hdv2, hobs2⟩ := prefix_drainInvR Q (by rw [← hs0]; exact h1) h2
  have Sf : Safe (virt g t2) := by
    refine ⟨fun n hn => ?_, fun n hn => (GInv.node S2.struct (nec_lt_size hn)).top⟩
    have a1 := hb2 n hn rfl
    have a2 := nec_lt_size hn
    have a3 := R2.size
    rw [R2.rch]; omega
  have hun := unrun_le_size (virt g t2)
  rw [virt_size] at hun
  obtain ⟨t3, h3⟩ := drainHeapR_total fuel t2 g D2 Sf (by omega)
  obtain ⟨g3, D3, he3, f3⟩ := drainHeapR_inv fuel t2 t3 g D2 h3
  have c3 := f3.calm
  have k3 := f3.keyD
  simp only [KeyD, stateKeyD, Prod.mk.injEq] at k3
  obtain ⟨k_obs, -, -, k_top, -, -, -, -, -, -, k_ahh⟩ := k3
  -- the end
  have hhas0 : HasRange s0 := by
    intro n hn
    have : s0.handleAfterStab = [] := by rw [hs0]; exact Qv.handleAfterStab
    rw [this] at hn; cases hn
  have hhas2 : HasRange t2 := unlinkDisallowedObservers_hasRange h2 (addNewObservers_hasRange h1 hhas0)
  have hhas3 : HasRange t3 := by
    intro n hn
    have e : (virt g3 t3).handleAfterStab = (virt g t2).handleAfterStab := c3.has S2.handlers
    have e' : t3.handleAfterStab = t2.handleAfterStab := e
    rw [e'] at hn
    rw [dstep_size f3]; exact hhas2 n hn
  have hsd3 : t3.setDuringStab = [] := by
    have e : (virt g3 t3).setDuringStab = (virt g t2).setDuringStab := c3.setDuringStab
    exact e.trans hsd2
  have hdv3 : t3.deadVars = [] := by
    have e : (virt g3 t3).deadVars = (virt g t2).deadVars := c3.deadVars
    exact e.trans hdv2
  have hobs3 : ∀ (o : Nat) (ob : ObsRec), t3.observers[o]? = some ob → ob.handlers = [] := by
    intro o ob ho
    have e : t3.observers = t2.observers := k_obs
    rw [e] at ho; exact hobs2 o ob ho
  obtain ⟨_, s', h4, -⟩ := stabiliseEnd_total (env := env) (fuel := fuel) (s := t3) hsd3 hdv3 hobs3 hhas3
    (by
      intro n o ho
      have e1 : (t3.nodeD n).observers = (t2.nodeD n).observers := by
        have := (f3.frame.shape n).observers
        rwa [virt_nodeD, virt_nodeD, virtNode_observers, virtNode_observers] at this
      rw [e1] at ho
      obtain ⟨ob, hob, -⟩ := (S2.obs.mem n o).1 (by rw [virt_nodeD, virtNode_observers]; exact ho)
      have e : t3.observers = t2.observers := k_obs
      rw [e]
      exact (Array.getElem?_eq_some_iff.1 hob).1)
  have E := stabiliseEnd_fin (env := env) (fuel := fuel) (s := t3) (s' := s') hsd3 hdv3 hobs3 h4
  -- the run
  have hrun : (stabilise env fuel).run.run s = (.ok (), s') := by
    unfold stabilise
    have hst : (s.status == Status.notStabilising) = true := by
      have : s.status = .notStabilising := Qv.status
      rw [this]; rfl
    rw [run_bind_get, run_bind_ok (show (assertM (s.status == Status.notStabilising)
      "state:stabilise:status").run.run s = (.ok (), s) by rw [run_assertM, hst]; rfl),
      run_bind_modify]
    rw [← hs0, run_bind_ok h1, run_bind_ok h2, run_bind_ok h3]
    exact h4
  refine Tot.of_ok hrun ⟨stabiliseR Q hrun, ?_⟩
  -- the extra invariant at the end
  have hnodeE : ∀ m, ∃ b, s'.nodeD m = { t3.nodeD m with inHandleAfterStab := b } := E.node
  have hheight : ∀ m, (s'.nodeD m).height = (t2.nodeD m).height := by
    intro m
    obtain ⟨b, hb⟩ := hnodeE m
    have := (f3.frame.shape m).height
    rw [virt_nodeD, virt_nodeD, virtNode_height, virtNode_height] at this
    rw [hb]; exact this
  have hnec' : ∀ m, s'.isNecessary m = t2.isNecessary m := by
    intro m
    obtain ⟨b, hb⟩ := hnodeE m
    have e1 : s'.isNecessary m = t3.isNecessary m := by simp only [State.isNecessary, hb]; rfl
    have := f3.frame.nec m
    rw [virt_isNecessary, virt_isNecessary] at this
    rw [e1, this]
  have hsize' : s'.nodes.size = s.nodes.size := by rw [E.size, dstep_size f3, hsz2]
  have hvars : s'.vars = s.vars := by
    have e1 : t3.vars = t2.vars := f3.frame.vars
    have e2 : t2.vars = s0.vars := PF.vars
    rw [E.vars, e1, e2, hs0]
  have htop : s'.top = s.top := by
    have e1 : t3.top = t2.top := k_top
    have e2 : t2.top = s0.top := PF.top
    rw [E.top, e1, e2, hs0]
  have hnew : s'.newObservers = [] := by
    have e1 : t3.newObservers = t2.newObservers := c3.newObservers
    rw [E.newObservers, e1]; exact hn2
  refine ⟨?_, ⟨?_, ?_, by rw [hsize']; exact T.room.size⟩, ?_, ?_, ?_, ?_⟩
  · intro m hm ho
    rw [hheight]
    have := hb2 m (by rw [virt_isNecessary, ← hnec']; exact hm) ho
    rwa [virt_nodeD, virtNode_height] at this
  · have e1 : t3.ahh = t2.ahh := k_ahh
    rw [E.ahh, e1]; exact R2.ahh
  · have e1 : t3.rch.queues.size = t2.rch.queues.size := f3.frame.qsize
    rw [E.rch, ← R2.rch]; exact maxAllowed_congr e1
  · intro c vc hc
    rw [hvars] at hc
    exact T.linked c vc hc
  · rw [htop, hsize']; exact T.topSize
  · rw [hnew]; exact List.nodup_nil
  · intro o ob ho
    rw [hnew] at ho; cases ho

end
end IncrVerif.Proofs.TidyH.RT
