import IncrVerif.Proofs.PerKeyH79
/-!
# Per-key operators, `stabilise`, part 4: the end of `stabilise`

* `stabiliseEnd_perkeys`: `stabiliseEnd` (no deferred writes, no dead variables, no handlers) keeps `State.perkeys`
  (`Finished'` does not mention it).
* `finished_V`: `Finished'` of the actual states gives it for the value-faithful virtual states.
* **`stab_endP`**: from `PD env t3 none`, the frame `PStep t2 t3` of the drain and `Finished' t3 s'`: the invariant
  between API actions `PQ env rk' s'`.
-/
namespace IncrVerif.Proofs.PerKeyH
open IncrVerif.Engine IncrVerif.Driver IncrVerif.Proofs IncrVerif.Proofs.Step IncrVerif.Proofs.Sched
open IncrVerif.Proofs.ExpertH IncrVerif.Proofs.EffH IncrVerif.Proofs.DriverH IncrVerif.Proofs.ExpertH.QR

/-! ## `stabiliseEnd` keeps `perkeys` -/

/-- what `Finished'` does not say -/
structure MidPk (s t : State) : Prop where
  perkeys : t.perkeys = s.perkeys
  observers : t.observers = s.observers

theorem stabiliseEnd_perkeys {env : Env} {fuel : Nat} {s s' : State} (h1 : s.setDuringStab = [])
    (h2 : s.deadVars = []) (hobs : ∀ (o : Nat) (ob : ObsRec), s.observers[o]? = some ob → ob.handlers = [])
    (h : (stabiliseEnd env fuel).run.run s = (.ok (), s')) : s'.perkeys = s.perkeys := by
  unfold stabiliseEnd at h
  obtain ⟨s1, e1, h⟩ := bind_modify_inv h
  rw [run_bind_get] at h
  try dsimp only at h
  obtain ⟨s2, e2, h⟩ := bind_modify_inv h
  have h1' : s1.setDuringStab = [] := by rw [e1]; exact h1
  rw [h1', List.forIn_nil] at h
  obtain ⟨_, s3, hp, h⟩ := bind_ok_inv h
  obtain ⟨_, e3⟩ := pure_ok_inv hp
  rw [e3] at h
  rw [run_bind_get] at h
  try dsimp only at h
  obtain ⟨s4, e4, h⟩ := bind_modify_inv h
  have h2' : s2.deadVars = [] := by rw [e2, e1]; exact h2
  rw [h2', List.forIn_nil] at h
  obtain ⟨_, s5, hp5, h⟩ := bind_ok_inv h
  obtain ⟨_, e5⟩ := pure_ok_inv hp5
  rw [e5] at h
  rw [run_bind_get] at h
  try dsimp only at h
  obtain ⟨s6, e6, h⟩ := bind_modify_inv h
  have M6 : MidPk s s6 := by
    rw [e6, e4, e2, e1]
    exact ⟨rfl, rfl⟩
  obtain ⟨q, s7, hl3, h⟩ := bind_ok_inv h
  have M7 : MidPk s s7 := by
    refine forIn_ok_keepB (MidPk s) _ _ ?_ _ _ _ _ M6 hl3
    intro n _ b t r t' Mt hb
    obtain ⟨t1, et1, hb⟩ := bind_modNode_inv hb
    rw [run_bind_get] at hb
    obtain ⟨_, et'⟩ := pure_ok_inv hb
    rw [et', et1]
    exact ⟨Mt.perkeys, Mt.observers⟩
  obtain ⟨s8, e8, h⟩ := bind_modify_inv h
  rw [run_bind_get] at h
  obtain ⟨_, s9, hl4, h⟩ := bind_ok_inv h
  have e9 : s9 = s8 := by
    refine forIn_ok_keepB (fun t => t = s8) _ _ ?_ _ _ _ _ rfl hl4
    intro x _ b t r t' et hb
    obtain ⟨nd, _, hb⟩ := bind_getNode_inv hb
    obtain ⟨_, t1, hb1, hb⟩ := bind_ok_inv hb
    obtain ⟨_, et'⟩ := pure_ok_inv hb
    rw [et']
    refine forIn_ok_keepB (fun t => t = s8) _ _ ?_ _ _ _ _ et hb1
    intro o _ b2 u r2 u' eu hr
    obtain ⟨_, u1, hr1, hr⟩ := bind_ok_inv hr
    obtain ⟨_, eu'⟩ := pure_ok_inv hr
    rw [eu']
    have hobs' : ∀ (o : Nat) (ob : ObsRec), u.observers[o]? = some ob → ob.handlers = [] := by
      intro o ob ho
      rw [eu, e8] at ho
      exact hobs o ob (by rw [← M7.observers]; exact ho)
    rw [runAll_nohandlers hobs' hr1]; exact eu
  obtain ⟨s10, e10, h⟩ := bind_modify_inv h
  rw [run_modify] at h
  obtain ⟨_, e11⟩ := Prod.mk.inj h
  rw [← e11, e10, e9, e8]
  exact M7.perkeys

/-! ## `Finished'` in the virtual states -/

theorem finished_xf {t s' : State} (E : Finished' t s') : XF t s' :=
  ⟨E.size, fun m => by obtain ⟨b, hb⟩ := E.node m; rw [hb], by rw [E.experts], fun e => by rw [E.experts], E.nextDep⟩

/-- `Finished'` (the description of `stabiliseEnd`) of the actual states gives it for the virtual states -/
theorem finished_V {t s' : State} (E : Finished' t s') (hp : s'.perkeys = t.perkeys) : Finished' (V t) (V s') where
  size := by rw [V_size, V_size]; exact E.size
  node m := by
    obtain ⟨b, hb⟩ := E.node m
    refine ⟨b, ?_⟩
    have hfun : ∀ nd, vNode s' nd = vNode t nd := fun nd => by
      simp only [vNode, vKind_of_xf (finished_xf E) hp, E.experts]
    rw [V_nodeD, V_nodeD, hb, hfun]
    rfl
  vars := E.vars
  rch := E.rch
  ahh := E.ahh
  observers := E.observers
  newObservers := E.newObservers
  disallowedObservers := E.disallowedObservers
  allObservers := E.allObservers
  scope := E.scope
  pc := E.pc
  top := E.top
  handles := E.handles
  alive := E.alive
  pinv := E.pinv
  cfg := E.cfg
  stabNum := E.stabNum
  status := E.status
  setDuringStab := E.setDuringStab
  deadVars := E.deadVars
  handleAfterStab := E.handleAfterStab
  experts := rfl
  nextDep := E.nextDep

theorem PFrag.noMapRefP {env : Env} {s : State} (F : PFrag env s) (m p i : Nat) :
    (s.nodeD m).kind ≠ .mapRef p i := by
  intro h
  have := F.kindD m
  rw [h] at this
  exact this

/-! ## the end of the drain -/

set_option maxHeartbeats 1000000 in
/-- **the end of `stabilise`**: from the drain invariant with an empty heap to the invariant between API actions -/
theorem stab_endP {env : Env} {t2 t3 s' : State}
    (D3 : PD env t3 none) (N3 : NoRem t3) (f3 : PStep t2 t3)
    (O2 : ObsInv (V t2) [] []) (hn2 : t2.newObservers = []) (hd2 : t2.disallowedObservers = [])
    (hal : t2.alive = true) (E : Finished' t3 s') (hpk : s'.perkeys = t3.perkeys) :
    (∃ rk', PQ env rk' s') ∧ s'.newObservers = [] ∧ s'.disallowedObservers = [] := by
  have A3 := D3.aux
  have I3 := D3.inv
  obtain ⟨rk', AS3⟩ := A3.rank
  obtain ⟨-, -, k_obs, k_new, k_dis, -, -, -, k_top, k_alive⟩ := eKey_inv f3.key
  have S3 : Struct (penv env) rk' (V t3) :=
    struct_of_dinv AS3 I3 (fun c => by rw [V_nodeD, vNode_parents]; exact A3.nodup c)
  have Ev := finished_V E hpk
  -- nodes of the final state
  have hE : ∀ m, NodeG ((V t3).nodeD m) ((V s').nodeD m) ∧
      ((V s').nodeD m).value = ((V t3).nodeD m).value ∧
      ((V s').nodeD m).numOnUpdateHandlers = ((V t3).nodeD m).numOnUpdateHandlers := by
    intro m
    obtain ⟨b, hb⟩ := Ev.node m
    rw [hb]
    exact ⟨⟨rfl, rfl, rfl, rfl, rfl, rfl, rfl, rfl, rfl, rfl, rfl⟩, rfl, rfl⟩
  have G3 : SameG (V t3) (V s') := ⟨Ev.pc, Ev.scope, Ev.size, Ev.rch, Ev.vars, fun m => (hE m).1⟩
  have S' : Struct (penv env) rk' (V s') := S3.congr G3
  have hEn : ∀ m, ∃ b, s'.nodeD m = { t3.nodeD m with inHandleAfterStab := b } := E.node
  have hfld : ∀ m, (s'.nodeD m).kind = (t3.nodeD m).kind ∧ (s'.nodeD m).valid = (t3.nodeD m).valid ∧
      (s'.nodeD m).heightInAhh = (t3.nodeD m).heightInAhh ∧ (s'.nodeD m).value = (t3.nodeD m).value ∧
      (s'.nodeD m).observers = (t3.nodeD m).observers ∧ (s'.nodeD m).cutoff = (t3.nodeD m).cutoff ∧
      (s'.nodeD m).createdIn = (t3.nodeD m).createdIn ∧
      (s'.nodeD m).forceNecessary = (t3.nodeD m).forceNecessary ∧
      (s'.nodeD m).isNecessary = (t3.nodeD m).isNecessary := fun m => by
    obtain ⟨b, hb⟩ := hEn m; rw [hb]; exact ⟨rfl, rfl, rfl, rfl, rfl, rfl, rfl, rfl, rfl⟩
  have hsize' : (V t2).nodes.size ≤ (V s').nodes.size := by
    rw [V_size, V_size, E.size]; exact f3.grow
  have V3 := A3.vars
  have V' : VarsOK (V s') := by
    refine ⟨?_, ?_⟩
    · intro n c hn hk
      rw [(hE n).1.kind] at hk; rw [Ev.vars]; exact V3.node n c (by rw [← Ev.size]; exact hn) hk
    · intro c vc hc
      rw [Ev.vars] at hc; rw [Ev.size, (hE _).1.kind]; exact V3.cell c vc hc
  have hobs' : (V s').observers = (V t2).observers := by
    show s'.observers = t2.observers
    rw [E.observers, k_obs]
  have hnobs' : ∀ m, ((V s').nodeD m).observers = ((V t2).nodeD m).observers := fun m => by
    rw [(hE m).1.observers, V_nodeD, V_nodeD, vNode_observers, vNode_observers]
    by_cases hm : m < t2.nodes.size
    · exact (dnKey_inv (f3.node m hm)).2.1
    · rw [f3.newObs m (by omega), nodeD_default_of_ge t2 m (by omega)]; rfl
  have hno' : s'.newObservers = [] := by rw [E.newObservers, k_new]; exact hn2
  have hdo' : s'.disallowedObservers = [] := by rw [E.disallowedObservers, k_dis]; exact hd2
  have O' : ObsOK (V s') := by
    unfold ObsOK
    have e1 : (V s').newObservers = [] := hno'
    have e2 : (V s').disallowedObservers = [] := hdo'
    rw [e1, e2]
    refine ⟨?_, ?_, ?_, ?_, ?_, ?_, List.nodup_nil⟩
    · intro o ob ho; rw [hobs'] at ho
      exact ⟨Nat.lt_of_lt_of_le (O2.inRange o ob ho).1 hsize', (O2.inRange o ob ho).2⟩
    · intro n o; rw [hnobs', hobs']; exact O2.mem n o
    · intro o ob ho hc; rw [hobs'] at ho; exact O2.created o ob ho hc
    · intro o ho; cases ho
    · intro o ob ho; rw [hobs'] at ho; exact O2.dis o ob ho
    · intro o ho; cases ho
  have Q' : QInv (penv env) rk' (V s') := by
    refine ⟨S', V', O', ?_, ?_, ?_, ?_, Ev.status, ?_, Ev.setDuringStab, Ev.deadVars, Ev.handleAfterStab, ?_, ?_, ?_⟩
    · rw [Ev.stabNum]; have := I3.stamps.now; omega
    · intro m
      rw [(hE m).1.recomputedAt, (hE m).1.changedAt, Ev.stabNum]
      have := I3.stamps.node m; omega
    · intro c vc hc
      rw [Ev.vars] at hc; rw [Ev.stabNum]; have := I3.stamps.var c vc hc; omega
    · intro m hm hs
      rw [G3.staleOf] at hs
      have hm3 : m < (V t3).nodes.size := by rw [← Ev.size]; exact hm
      have sn := S3.node hm3
      have hst : (V t3).isStale m = false := by rw [GInv.isStale S3 hm3]; exact hs
      obtain ⟨w, hw, hv⟩ := cons_of_consB sn.kind (I3.cons m hm3 sn.valid hst)
      exact ⟨w, Target.congr (hE m).1.kind Ev.vars (fun c _ => (hE c).2.1) hw, by rw [(hE m).2.1]; exact hv⟩
    · show s'.alive = true
      rw [E.alive, k_alive]; exact hal
    · intro m
      rw [(hE m).2.2, V_nodeD, vNode_num]; exact A3.handlers m
    · show s'.propagateInvalidity = []
      rw [E.pinv]; exact A3.pinv
    · intro k n hk
      have hk' : t3.top[k]? = some n := by
        have : s'.top[k]? = some n := hk
        rw [E.top] at this; exact this
      rw [V_size, E.size]; exact A3.named k n hk'
  -- the actual final state
  have xf : XF t3 s' := finished_xf E
  have F' : PFrag env s' :=
    A3.frag.of_xf xf (by rw [E.pc]; exact A3.frag.pc) (fun m => by rw [(hfld m).2.1]; exact A3.frag.validD m)
      (fun e er he => by rw [E.experts] at he; exact (A3.frag.xok e er he).2.1)
      (fun m => ⟨(hfld m).2.2.2.2.2.1, (hfld m).2.2.2.2.2.2.1, (hfld m).2.2.2.2.2.2.2.1⟩)
      E.scope
  have A' : QR.AhhEmpty s' :=
    ⟨by rw [E.ahh]; exact A3.ahh.length, by rw [E.ahh]; exact A3.ahh.buckets,
      fun m => by rw [(hfld m).2.2.1]; exact A3.ahh.marks m⟩
  have stale' : ∀ m, s'.isStale m = t3.isStale m := fun m => by
    rw [isStale_V F', isStale_V A3.frag, G3.staleOf]
  have KF : PKF t3 s' := ⟨xf, fun m => (hfld m).2.2.2.1, stale', E.top, hpk, E.vars,
    fun m => by obtain ⟨b, hb⟩ := Ev.node m; rw [hb]⟩
  have PK' : PKOK env s' := PKOK.of_frame KF A3.pk
    (fun o ob' ho => by rw [E.observers] at ho; exact ⟨ob', ho, rfl⟩)
    (fun m o ho => by
      rw [(hfld m).2.2.2.2.1] at ho
      obtain ⟨ob, h3, h4, -⟩ := A3.obs m o ho
      exact ⟨ob, by rw [E.observers]; exact h3, h4⟩)
  have L' : SlotInv env s' := by
    refine A3.slots.of_frame xf E.experts (fun m => ?_) (fun m => ?_) stale'
    · rw [value_plain env s' m (F'.noMapRefP m), value_plain env t3 m (A3.frag.noMapRefP m)]
      exact (hfld m).2.2.2.1
    · simp only [State.isNecessary]; exact (hfld m).2.2.2.2.2.2.2.2
  exact ⟨⟨rk', F', Q', A', PK', L', NoRem.of_pkf KF N3⟩, hno', hdo'⟩

end IncrVerif.Proofs.PerKeyH
