import IncrVerif.Proofs.GenF6
/-!
# C03, combined fragment, part 7: NON-VACUITY, linked — in the state `s2` of `exHistF_flip` the nodes `5…13` are `Dead`, none is dead in `s1`
-/
namespace IncrVerif.Proofs.GenF
open IncrVerif.Engine IncrVerif.Driver IncrVerif.Proofs IncrVerif.Proofs.Step IncrVerif.Proofs.Sched IncrVerif.Proofs.Quiet
open IncrVerif.Proofs.FullH IncrVerif.Proofs.TidyH IncrVerif.Proofs.OnceF IncrVerif.Proofs.BindH

theorem summary_of {acts : List Action} {s : State} {v : List Nat × List Nat × List (List Nat)}
    (h : C2h.stateB fEnv acts = some s) (hs : (C2h.stateB fEnv acts).map summary = some v) : summary s = v := by
  rw [h] at hs
  exact Option.some.inj hs

theorem dead_of_summary {s : State} {a b : List Nat} {c : List (List Nat)} (h : summary s = (a, b, c)) (m : Nat) :
    (m ∈ a ↔ Dead s m) ∧ (m ∈ b ↔ m < s.nodes.size ∧ (s.nodeD m).valid = false) := by
  have h1 : (List.range s.nodes.size).filter (deadB s) = a := congrArg (·.1) h
  have h2 : (List.range s.nodes.size).filter (fun n => !(s.nodeD n).valid) = b := congrArg (·.2.1) h
  constructor
  · rw [← h1, List.mem_filter, List.mem_range, deadB_iff]
    exact ⟨fun x => x.2, fun x => ⟨x.1, x⟩⟩
  · rw [← h2, List.mem_filter, List.mem_range]
    constructor
    · rintro ⟨x, y⟩
      refine ⟨x, ?_⟩
      cases hv : (s.nodeD m).valid with
      | false => rfl
      | true => rw [hv] at y; cases y
    · rintro ⟨x, y⟩
      exact ⟨x, by rw [y]; rfl⟩

/-- the round of `exHistF` in which the outer lhs flips, with the concrete content: no node is dead before; exactly the nodes `5…13` are dead after, and exactly they are invalid -/
theorem exHistF_flip_dead : ∃ s1 s2, C2h.stateB fEnv (exHistF.take 11) = some s1 ∧ C2h.stateB fEnv (exHistF.take 12) = some s2 ∧
    QInvFE fEnv fSp s1 ∧ QInvFE fEnv fSp s2 ∧ (stabilise fEnv fuelDefault).run.run s1 = (.ok (), s2) ∧
    NoDeadStab fEnv fuelDefault s1 s2 ∧ DyingStab fEnv fuelDefault s1 s2 ∧
    (∀ m, ¬ Dead s1 m) ∧
    (∀ m, Dead s2 m ↔ m ∈ [5, 6, 7, 8, 9, 10, 11, 12, 13]) ∧
    (∀ m, (m < s2.nodes.size ∧ (s2.nodeD m).valid = false) ↔ m ∈ [5, 6, 7, 8, 9, 10, 11, 12, 13]) := by
  obtain ⟨s1, s2, a, b, Q1, Q2, k, N, D⟩ := exHistF_flip
  have u1 := summary_of a exHistF_summaries.1
  have u2 := summary_of b exHistF_summaries.2.1
  refine ⟨s1, s2, a, b, Q1, Q2, k, N, D, fun m hd => ?_, fun m => ((dead_of_summary u2 m).1).symm, fun m => ((dead_of_summary u2 m).2).symm⟩
  have := ((dead_of_summary u1 m).1).2 hd
  cases this

end IncrVerif.Proofs.GenF
