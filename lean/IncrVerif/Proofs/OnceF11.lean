import IncrVerif.Proofs.NestH122
/-!
# C02, combined fragment, part 11: THE VALUE FRAME — one `recomputeOne env fuel n` changes the stored value of no other existing node, except to erase it

`VR n s s'`: no node disappears, and every existing node `m ≠ n` stores in `s'` what it stored in `s`, or nothing (`invalidateNode` erases the value of a dying node).
`VR n` is kept by every function reachable from `recomputeOne env fuel n` — ALL kinds of nodes, whatever the outcome of the call — and `VR k` (any `k`) by `rchRemoveMin`: a
purely syntactic frame in the `Pres` style of `Proofs/Step.lean` (port of the ladder of `NestH122`, `BKey ↦ VR n`): the only writes of a `value` field are `maybe_change_value` and
the map_ref / map_with_old branches of `recompute_one` (on the node itself), `invalidate_node` (`value := none`), and node creation (new nodes).
-/
open IncrVerif.Engine IncrVerif.Proofs IncrVerif.Proofs.Step
namespace IncrVerif.Proofs.OnceF

/-- every existing node other than `n` keeps its stored value or loses it -/
structure VR (n : Nat) (s s' : State) : Prop where
  size : s.nodes.size ≤ s'.nodes.size
  value : ∀ m, m ≠ n → m < s.nodes.size → (s'.nodeD m).value = (s.nodeD m).value ∨ (s'.nodeD m).value = none

instance (n : Nat) : PreOrd (VR n) where
  refl _ := ⟨Nat.le_refl _, fun _ _ _ => Or.inl rfl⟩
  trans h1 h2 := by
    refine ⟨Nat.le_trans h1.size h2.size, fun m hm hlt => ?_⟩
    rcases h2.value m hm (Nat.lt_of_lt_of_le hlt h1.size) with e | e
    · rw [e]; exact h1.value m hm hlt
    · exact Or.inr e

theorem VR.of_eq {n : Nat} {s s' : State} (hn : s'.nodes = s.nodes) : VR n s s' :=
  ⟨by rw [hn]; exact Nat.le_refl _, fun m _ _ => Or.inl (by simp only [State.nodeD, hn])⟩

theorem VR.of_push_node {n : Nat} {s s' : State} {nd : Node} (hn : s'.nodes = s.nodes.push nd) : VR n s s' := by
  refine ⟨by rw [hn, Array.size_push]; omega, fun m _ hm => Or.inl ?_⟩
  simp only [State.nodeD, hn]
  rw [Array.getElem?_push, if_neg (by omega)]

macro_rules
  | `(tactic| qleaf) => `(tactic| ((with_reducible apply Step.Pres.modify); intro _; exact VR.of_push_node rfl))
macro_rules
  | `(tactic| qleaf) => `(tactic| ((with_reducible apply Step.Pres.modify); intro _; exact VR.of_eq rfl))

theorem PresV.modNode (n0 n : Nat) (f : Node → Node) (hf : ∀ x, (f x).value = x.value ∨ (f x).value = none) :
    Step.Pres (VR n0) (Engine.modNode n f) := by
  unfold Engine.modNode
  apply Step.Pres.modify
  intro s
  refine ⟨by show s.nodes.size ≤ (s.nodes.modify n f).size; rw [Array.size_modify]; exact Nat.le_refl _, fun m _ _ => ?_⟩
  rw [nodeD_modify]
  split
  · exact hf _
  · exact Or.inl rfl
macro_rules
  | `(tactic| qleaf) => `(tactic| ((with_reducible apply PresV.modNode); intro _; first | exact Or.inl rfl | exact Or.inr rfl))

/-- the node that runs may store anything -/
theorem PresV.modNode_self (n : Nat) (f : Node → Node) : Step.Pres (VR n) (Engine.modNode n f) := by
  unfold Engine.modNode
  apply Step.Pres.modify
  intro s
  refine ⟨by show s.nodes.size ≤ (s.nodes.modify n f).size; rw [Array.size_modify]; exact Nat.le_refl _, fun m hm _ => ?_⟩
  rw [nodeD_modify]
  split
  · rename_i h; exact absurd h.1.symm hm
  · exact Or.inl rfl
macro_rules
  | `(tactic| qleaf) => `(tactic| with_reducible apply PresV.modNode_self)

theorem PresV.modBind (n0 b : Nat) (f : BindRec → BindRec) : Step.Pres (VR n0) (Engine.modBind b f) := by
  unfold Engine.modBind
  apply Step.Pres.modify
  intro s
  exact VR.of_eq rfl
macro_rules
  | `(tactic| qleaf) => `(tactic| with_reducible apply PresV.modBind)

/-- register a `Step.Pres (VR _)` lemma as a leaf -/
macro "v_leaf " n:ident : command =>
  `(macro_rules | `(tactic| qleaf) => `(tactic| with_reducible apply $n))

theorem PresV.tick (n0 : Nat) : Step.Pres (VR n0) tick := by unfold Engine.tick; qpres
v_leaf PresV.tick
theorem PresV.logEv (n0 : Nat) (e) : Step.Pres (VR n0) (logEv e) := by unfold Engine.logEv; qpres
v_leaf PresV.logEv
theorem PresV.modExpert (n0 : Nat) (b f) : Step.Pres (VR n0) (modExpert b f) := by unfold Engine.modExpert; qpres
v_leaf PresV.modExpert
theorem PresV.modVar (n0 : Nat) (b f) : Step.Pres (VR n0) (modVar b f) := by unfold Engine.modVar; qpres
v_leaf PresV.modVar
theorem PresV.modObs (n0 : Nat) (b f) : Step.Pres (VR n0) (modObs b f) := by unfold Engine.modObs; qpres
v_leaf PresV.modObs
theorem PresV.rchLink (n0 : Nat) (n) : Step.Pres (VR n0) (rchLink n) := by unfold Engine.rchLink; qpres
v_leaf PresV.rchLink
theorem PresV.rchUnlink (n0 : Nat) (n) : Step.Pres (VR n0) (rchUnlink n) := by unfold Engine.rchUnlink; qpres
v_leaf PresV.rchUnlink
theorem PresV.rchInsert (n0 : Nat) (n) : Step.Pres (VR n0) (rchInsert n) := by unfold Engine.rchInsert; qpres
v_leaf PresV.rchInsert
theorem PresV.rchRemove (n0 : Nat) (n) : Step.Pres (VR n0) (rchRemove n) := by unfold Engine.rchRemove; qpres
v_leaf PresV.rchRemove
theorem PresV.rchMinHeight (n0 : Nat) : Step.Pres (VR n0) rchMinHeight := by unfold Engine.rchMinHeight; qpres
v_leaf PresV.rchMinHeight
theorem PresV.rchIncreaseHeight (n0 : Nat) (n) : Step.Pres (VR n0) (rchIncreaseHeight n) := by
  unfold Engine.rchIncreaseHeight; qpres
v_leaf PresV.rchIncreaseHeight
theorem PresV.setHeight (n0 : Nat) (n h) : Step.Pres (VR n0) (setHeight n h) := by unfold Engine.setHeight; qpres
v_leaf PresV.setHeight
theorem PresV.ahhAddUnlessMem (n0 : Nat) (n) : Step.Pres (VR n0) (ahhAddUnlessMem n) := by
  unfold Engine.ahhAddUnlessMem; qpres
v_leaf PresV.ahhAddUnlessMem
theorem PresV.ahhRemoveMin (n0 : Nat) : Step.Pres (VR n0) ahhRemoveMin := by unfold Engine.ahhRemoveMin; qpres
v_leaf PresV.ahhRemoveMin
theorem PresV.ensureHeightRequirement (n0 : Nat) (a b c d) : Step.Pres (VR n0) (ensureHeightRequirement a b c d) := by
  unfold Engine.ensureHeightRequirement; qpres
v_leaf PresV.ensureHeightRequirement



theorem PresV.adjustHeightsLoop (n0 : Nat) (oc op fuel) : Step.Pres (VR n0) (adjustHeightsLoop oc op fuel) := by
  induction fuel with
  | zero => unfold Engine.adjustHeightsLoop; qpres
  | succ fuel ih => unfold Engine.adjustHeightsLoop; qpres; all_goals exact ih
v_leaf PresV.adjustHeightsLoop
theorem PresV.adjustHeights (n0 : Nat) (oc op fuel) : Step.Pres (VR n0) (adjustHeights oc op fuel) := by
  unfold Engine.adjustHeights; qpres
v_leaf PresV.adjustHeights
theorem PresV.addParent (n0 : Nat) (a b c) : Step.Pres (VR n0) (addParent a b c) := by unfold Engine.addParent; qpres
v_leaf PresV.addParent
theorem PresV.removeParent (n0 : Nat) (a b c) : Step.Pres (VR n0) (removeParent a b c) := by
  unfold Engine.removeParent; qpres
v_leaf PresV.removeParent
theorem PresV.handleAfterStabilisation (n0 : Nat) (n) : Step.Pres (VR n0) (handleAfterStabilisation n) := by
  unfold Engine.handleAfterStabilisation; qpres
v_leaf PresV.handleAfterStabilisation
theorem PresV.maybeHandleAfterStabilisation (n0 : Nat) (n) : Step.Pres (VR n0) (maybeHandleAfterStabilisation n) := by
  unfold Engine.maybeHandleAfterStabilisation; qpres
v_leaf PresV.maybeHandleAfterStabilisation
theorem PresV.shouldCutoff (n0 : Nat) (env n o v) : Step.Pres (VR n0) (shouldCutoff env n o v) := by
  unfold Engine.shouldCutoff; qpres
v_leaf PresV.shouldCutoff
theorem PresV.edgeOnChange (n0 : Nat) (env e edge) : Step.Pres (VR n0) (edgeOnChange env e edge) := by
  unfold Engine.edgeOnChange; qpres
v_leaf PresV.edgeOnChange
theorem PresV.runEdgeCallback (n0 : Nat) (env e i) : Step.Pres (VR n0) (runEdgeCallback env e i) := by
  unfold Engine.runEdgeCallback; qpres
v_leaf PresV.runEdgeCallback
theorem PresV.observabilityChange (n0 : Nat) (e b) : Step.Pres (VR n0) (observabilityChange e b) := by
  unfold Engine.observabilityChange; qpres
v_leaf PresV.observabilityChange
theorem PresV.markMapRefUnknown (n0 : Nat) (fuel n) : Step.Pres (VR n0) (markMapRefUnknown fuel n) := by
  induction fuel generalizing n with
  | zero => unfold Engine.markMapRefUnknown; qpres
  | succ fuel ih => unfold Engine.markMapRefUnknown; qpres; all_goals exact ih _
v_leaf PresV.markMapRefUnknown


end IncrVerif.Proofs.OnceF
