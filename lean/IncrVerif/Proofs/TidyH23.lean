import IncrVerif.Proofs.TidyH22
/-!
# T3a part 6: valid histories of the static fragment with subscriptions never panic

`ValidHistS N nn nv no acts`: `Quiet.ValidHist` (existing operands / observers / vars, room `nodes ≤ N`, fuel
`3 * nodes + 4 ≤ fuelDefault` at every `stabilise`) plus: every `subscribe o h` names an existing observer.
`unsubscribe o t` and `stateUnsub t` need nothing: a token that was never issued is a no-op, and the owner the
token table records for an issued token exists (`TokIn`, an invariant of the history).
-/
namespace IncrVerif.Proofs.TidyH.SubsT
open IncrVerif.Engine IncrVerif.Driver IncrVerif.Proofs IncrVerif.Proofs.Step IncrVerif.Proofs.Sched
open IncrVerif.Proofs.Quiet

theorem grown_tokIn {a : Action} {s s' : State} {tk : Array Nat} (K : TokIn tk s) (G : Grown a s s') :
    TokIn tk s' := K.mono (by rw [G.2.2]; exact Nat.le_add_right _ _)

/-- **every action of the fragment whose indices exist returns**; `UInv`, `TInv`, `TokIn` are kept -/
theorem step_total {env : Env} {N : Nat} {s : State} {a : Action} {tk : Array Nat}
    (U : SubsH.UInv env s) (T : TInv N s) (K : TokIn tk s) (heff : SubsH.PureHandlers env)
    (ha : SubsH.SubAction env a) (hok : ActionOK N s a) (hsub : SubsOK s a) :
    Tot (stepAction env a tk) s
      (fun r s' => SubsH.UInv env s' ∧ TInv N s' ∧ TokIn r.2 s' ∧ Grown a s s') := by
  have fin : ∀ {P : String × Array Nat → State → Prop},
      Tot (stepAction env a tk) s (fun r s' => P r s' ∧ TInv N s' ∧ Grown a s s') →
      (∀ r s', P r s' → Grown a s s' → TokIn r.2 s') →
      Tot (stepAction env a tk) s
        (fun r s' => SubsH.UInv env s' ∧ TInv N s' ∧ TokIn r.2 s' ∧ Grown a s s') := by
    intro P hT hP
    obtain ⟨r, s', h, h1, h2, h3⟩ := hT
    exact ⟨r, s', h, (SubsH.step_u U heff ha h).1, h2, hP r s' h1 h3, h3⟩
  have simple : SimpleAction a → Tot (stepAction env a tk) s
      (fun r s' => SubsH.UInv env s' ∧ TInv N s' ∧ TokIn r.2 s' ∧ Grown a s s') := by
    intro hs
    exact fin (P := fun r _ => r.2 = tk) (simple_total (env := env) (tk := tk) U.core T hs hok)
      (fun r s' e G => by rw [e]; exact grown_tokIn K G)
  have subs : SubsOnly a → Tot (stepAction env a tk) s
      (fun r s' => SubsH.UInv env s' ∧ TInv N s' ∧ TokIn r.2 s' ∧ Grown a s s') := by
    intro hs
    exact fin (P := fun r s' => TokIn r.2 s') (subs_total (env := env) (tk := tk) U.core T K hs hsub)
      (fun r s' h _ => h)
  cases a <;> try exact ha.elim
  case create i =>
    exact fin (P := fun r _ => r.2 = tk) (create_total (tk := tk) U.core T ha hok)
      (fun r s' e G => by rw [e]; exact grown_tokIn K G)
  case observe n => exact simple ha
  case cloneObs o => exact simple trivial
  case dropObs o => exact simple trivial
  case disallow o => exact simple trivial
  case subscribe o h => exact subs trivial
  case unsubscribe o t => exact subs trivial
  case stateUnsub t => exact subs trivial
  case set v x => exact simple trivial
  case modify v d => exact simple trivial
  case update v d => exact simple trivial
  case replace v x => exact simple trivial
  case replaceWith v d => exact simple trivial
  case get v => exact simple trivial
  case isStable => exact simple trivial
  case stats => exact simple trivial
  case stabilise =>
    obtain ⟨_, s', h, T'⟩ := stabilise_total_u (env := env) U T heff hok
    have R := SubsH.stabilise_u U heff h
    have G : Grown .stabilise s s' := ⟨R.size, by rw [R.vars]; rfl, R.obs.1⟩
    exact ⟨_, s', step_stabilise_run h, R.inv, T', grown_tokIn K G, G⟩

/-! ## valid histories -/

/-- `SubsOK` in terms of the number of observers -/
def SubsOKc (no : Nat) : Action → Prop
  | .subscribe o _ => o < no
  | _ => True

theorem subsOK_of {s : State} {a : Action} (h : SubsOKc s.observers.size a) : SubsOK s a := by
  cases a <;> first | exact h | trivial

/-- a valid history of the fragment: `Quiet.ValidHist` (indices exist, at most `N` nodes, fuel at every
`stabilise`) and every `subscribe` names an existing observer; `nn`, `nv`, `no` = numbers of nodes, var
cells, observers before the history -/
def ValidHistS (N : Nat) : Nat → Nat → Nat → List Action → Prop
  | _, _, _, [] => True
  | nn, nv, no, a :: as =>
    ActionOKc N nn nv no a ∧ SubsOKc no a ∧
      ValidHistS N (nn + (grow a).1) (nv + (grow a).2.1) (no + (grow a).2.2) as

/-- a valid history without subscription actions is a valid history of the static fragment and vice versa -/
theorem validHistS_of_static {N : Nat} : ∀ {acts : List Action} {nn nv no : Nat},
    ValidHist N nn nv no acts → (∀ a, a ∈ acts → ∀ o h, a ≠ .subscribe o h) → ValidHistS N nn nv no acts := by
  intro acts
  induction acts with
  | nil => intro _ _ _ _ _; trivial
  | cons a as ih =>
    intro nn nv no hv hns
    refine ⟨hv.1, ?_, ih hv.2 (fun b hb => hns b (List.mem_cons_of_mem _ hb))⟩
    cases a <;> first | trivial | exact absurd rfl (hns _ (List.mem_cons_self ..) _ _)

/-- **Total correctness for the fragment with subscriptions.** A valid history runs without panic from any
state satisfying the invariants; the final state satisfies them. -/
theorem runActions_total {env : Env} {N : Nat} {acts : List Action} {s : State} {tk : Array Nat}
    (heff : SubsH.PureHandlers env) (U : SubsH.UInv env s) (T : TInv N s) (K : TokIn tk s)
    (ha : ∀ a, a ∈ acts → SubsH.SubAction env a)
    (hv : ValidHistS N s.nodes.size s.vars.size s.observers.size acts) :
    ∃ s' tk', runActions env acts s tk = .ok (s', tk') ∧ SubsH.UInv env s' ∧ TInv N s' ∧ TokIn tk' s' := by
  induction acts generalizing s tk with
  | nil => exact ⟨s, tk, rfl, U, T, K⟩
  | cons a as ih =>
    obtain ⟨hok, hsub, hrest⟩ := hv
    obtain ⟨r, s1, h1, U1, T1, K1, hg⟩ :=
      step_total (tk := tk) U T K heff (ha a (List.mem_cons_self ..)) (actionOK_of T.topSize hok)
        (subsOK_of hsub)
    obtain ⟨g1, g2, g3⟩ := hg
    rw [← g1, ← g2, ← g3] at hrest
    obtain ⟨s', tk', h2, U', T', K'⟩ := ih U1 T1 K1 (fun b hb => ha b (List.mem_cons_of_mem _ hb)) hrest
    refine ⟨s', tk', ?_, U', T', K'⟩
    simp only [runActions]
    rw [h1]
    exact h2

theorem tokIn_empty (s : State) : TokIn #[] s := by
  intro t o h; simp at h

/-- **from the initial state**: a valid history of the fragment never panics -/
theorem history_total {env : Env} {N : Nat} {d : Bool} {acts : List Action}
    (heff : SubsH.PureHandlers env) (ha : ∀ a, a ∈ acts → SubsH.SubAction env a)
    (hv : ValidHistS N 0 0 0 acts) :
    ∃ s' tk', runActions env acts (State.init N d) #[] = .ok (s', tk') ∧ SubsH.UInv env s' ∧ TInv N s' ∧
      TokIn tk' s' :=
  runActions_total heff (SubsH.uinv_init env N d) (tinv_init N d) (tokIn_empty _) ha hv

/-- validity of a prefix -/
theorem validHistS_append {N : Nat} : ∀ {as bs : List Action} {nn nv no : Nat},
    ValidHistS N nn nv no (as ++ bs) → ValidHistS N nn nv no as := by
  intro as
  induction as with
  | nil => intro _ _ _ _ _; trivial
  | cons a as ih => intro bs nn nv no hv; exact ⟨hv.1, hv.2.1, ih hv.2.2⟩

/-- **hence, unconditionally** (C09 for valid histories): the history runs, its final state satisfies the
invariant, and for EVERY token the logged updates are exactly the specified ones (`SubsH.specT`), of the shape
`Initialised` once and first, then only `Changed` -/
theorem valid_history_notifications {env : Env} {N : Nat} {d : Bool} {acts : List Action}
    (heff : SubsH.PureHandlers env) (ha : ∀ a, a ∈ acts → SubsH.SubAction env a)
    (hv : ValidHistS N 0 0 0 acts) :
    ∃ s' tk', runActions env acts (State.init N d) #[] = .ok (s', tk') ∧ SubsH.UInv env s' ∧ TInv N s' ∧
      ∀ t, SubsH.tokLog t s'.log = SubsH.specT env t acts (State.init N d) #[] [] ∧
        SubsH.Shape (SubsH.tokLog t s'.log) := by
  obtain ⟨s', tk', h, U', T', -⟩ := history_total (d := d) heff ha hv
  refine ⟨s', tk', h, U', T', fun t => ?_⟩
  have e := SubsH.history_notifications heff ha h t
  exact ⟨e, by rw [e]; exact SubsH.specT_shape env t acts _ _ trivial⟩

/-- **hence, unconditionally**: at every `stabilise` of a valid history the invariant holds before it, the
`stabilise` returns, and all conclusions of `SubsH.Stabilised` / `SubsH.stabilise_delivers` hold -/
theorem valid_history_stabilise {env : Env} {N : Nat} {d : Bool} {as bs : List Action}
    (heff : SubsH.PureHandlers env) (ha : ∀ a, a ∈ as ++ Action.stabilise :: bs → SubsH.SubAction env a)
    (hv : ValidHistS N 0 0 0 (as ++ Action.stabilise :: bs)) :
    ∃ s1 tk1 s2 s tk, runActions env as (State.init N d) #[] = .ok (s1, tk1) ∧ SubsH.UInv env s1 ∧
      (stabilise env fuelDefault).run.run s1 = (.ok (), s2) ∧ SubsH.Stabilised env fuelDefault s1 s2 ∧
      runActions env bs s2 tk1 = .ok (s, tk) ∧ SubsH.UInv env s ∧
      ∃ (pre del : List Event), s2.log = del.reverse ++ (pre ++ s1.log) ∧ (∀ e, e ∈ pre → SubsH.NotNotif e) ∧
        (∀ e, e ∈ del → ∃ t u, e = .notif t u) ∧
        (∀ t u, Event.notif t u ∈ del ↔
          ∃ (o : Nat) (ob : ObsRec) (h : HandlerRec), s1.observers[o]? = some ob ∧ h ∈ ob.handlers ∧
            h.token = t ∧ SubsH.expected s1 s2 o h = some u) ∧
        (del.filterMap SubsH.notifTok).Nodup := by
  obtain ⟨s, tk, h, U, -, -⟩ := history_total (d := d) heff ha hv
  obtain ⟨s1, tk1, s2, h1, U1, h2, R, h3⟩ := SubsH.history_stabilise_u heff ha h
  exact ⟨s1, tk1, s2, s, tk, h1, U1, h2, R, h3, U, SubsH.stabilise_delivers U1 heff h2⟩

end IncrVerif.Proofs.TidyH.SubsT
