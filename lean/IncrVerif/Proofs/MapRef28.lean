import IncrVerif.Proofs.MapRef25
import IncrVerif.Proofs.MapRef27
/-!
# map_ref fragment, part 12: every API action keeps the invariant (M2), whole histories (M3)
-/
namespace IncrVerif.Proofs.MapRefH
open IncrVerif.Engine IncrVerif.Driver IncrVerif.Proofs IncrVerif.Proofs.Step IncrVerif.Proofs.Sched IncrVerif.Proofs.Quiet

/-- **the API actions of the fragment static + map_ref.**  Node creation: `const`, `var`, `map f args` (`f < projBase`;
a user function `f < fnZip` without side effects), `fold`, `zip`, `mapRef p input` (`projBase + p < fnPerKey`), operands
naming top-level nodes; `observe` of a top-level node, `cloneObs`, `dropObs`, `disallow`; the five writes, `get`;
`stabilise`, `isStable`, `stats`. -/
def MapRefAction (env : Env) : Action → Prop
  | .create (.const _) => True
  | .create (.var _) => True
  | .create (.map f args) => f < projBase ∧ (f < fnZip → ∀ vals, env.fnEff f vals = []) ∧ ∀ a, a ∈ args → OpndOK a
  | .create (.fold _ _ cs) => ∀ a, a ∈ cs → OpndOK a
  | .create (.zip a b) => OpndOK a ∧ OpndOK b
  | .create (.mapRef p i) => projBase + p < fnPerKey ∧ OpndOK i
  | .observe n => OpndOK n
  | .cloneObs _ | .dropObs _ | .disallow _ => True
  | .set _ _ | .modify _ _ | .update _ _ | .replace _ _ | .replaceWith _ _ | .get _ => True
  | .stabilise | .isStable | .stats => True
  | _ => False

theorem MapRefAction.split {env : Env} {a : Action} (h : MapRefAction env a) (hs : a ≠ .stabilise) :
    RAction a ∧ RActionOK env a ∧ StaticAction (virtEnv env) (virtAction a) := by
  cases a <;> simp only [MapRefAction] at h <;> try exact h.elim
  case create i =>
    cases i <;> simp only [MapRefAction] at h <;> try exact h.elim
    case const v => exact ⟨trivial, trivial, trivial⟩
    case var v => exact ⟨trivial, trivial, trivial⟩
    case map f args =>
      refine ⟨trivial, ⟨h.1, h.2.1⟩, ?_, h.2.1, h.2.2⟩
      have := h.1; unfold projBase at this; unfold fnPerKey; omega
    case fold f init cs => exact ⟨trivial, trivial, h⟩
    case zip a b => exact ⟨trivial, trivial, h⟩
    case mapRef p i =>
      refine ⟨trivial, h.1, h.1, fun hf => ?_, fun a ha => ?_⟩
      · have := projBase_ge_zip; omega
      · simp only [List.mem_cons, List.mem_nil_iff, or_false] at ha; rw [ha]; exact h.2
  case observe n => exact ⟨trivial, trivial, h⟩
  case stabilise => exact absurd rfl hs
  all_goals exact ⟨trivial, trivial, trivial⟩

section
variable {env : Env} {g : Nat → Option Val} {s : State}

/-- the ghost values outside the node table are irrelevant -/
theorem virt_congr {g g' : Nat → Option Val} (h : ∀ m, m < s.nodes.size → g' m = g m) : virt g' s = virt g s := by
  unfold virt
  congr 1
  apply Array.ext
  · simp
  · intro i h1 h2
    simp only [Array.getElem_mapIdx]
    rw [h i (by simpa using h1)]

/-- the ghost values cut off at the node table -/
def cutG (g : Nat → Option Val) (s : State) : Nat → Option Val := fun m => if m < s.nodes.size then g m else none

theorem QInvR.cut (Q : QInvR env s g) : QInvR env s (cutG g s) ∧ cutG g s s.nodes.size = none := by
  have hv : virt (cutG g s) s = virt g s := virt_congr (fun m hm => by simp [cutG, hm])
  refine ⟨⟨Q.frag, by rw [hv]; exact Q.q, ?_⟩, by simp [cutG]⟩
  intro m p i hm hk hd
  have hlt := Q.frag.lt_of_mapRef hk
  simp only [cutG, hlt, if_true]
  exact Q.k m p i hm hk hd

/-- **M2: every API action of the fragment other than `stabilise` keeps the invariant.** -/
theorem actionR {a : Action} {tk : Array Nat} {r : String × Array Nat} {s' : State} (Q : QInvR env s g)
    (ha : MapRefAction env a) (hs : a ≠ .stabilise)
    (h : (stepAction env a tk).run.run s = (.ok r, s')) : ∃ g', QInvR env s' g' := by
  obtain ⟨hR, hok, hst⟩ := ha.split hs
  obtain ⟨Q0, hg0⟩ := Q.cut
  refine ⟨cutG g s, ?_⟩
  -- the virtual engine does the same
  obtain ⟨hv, -⟩ := SimAt.stepAction (g := cutG g s) env tk hg0 hR (Q0.frag.fr Q0.pinv) r s' h
  have Qv' : QInv (virtEnv env) (virt (cutG g s) s') := step_q Q0.q hst hv
  -- the actual frame
  have A : AFrame s s' := (PresA.stepAction env a tk hR).h _ _ _ h
  have RK : RKAll env s' := (PresRK.stepAction env a tk hR hok).h _ _ _ h Q0.frag.kind
  have K' : KInv env (cutG g s) s' := A.kInv Q0.frag Q0.k
  have hst' := Qv'.struct.static
  have F' : RFrag env s' := by
    refine ⟨hst'.pc, RK, fun m hm => ?_, fun m hm c hc => ?_, fun m p i hk => ?_⟩
    · have := (hst'.node m (by rw [virt_size]; exact hm)).valid
      rwa [virt_nodeD, virtNode_valid] at this
    · have := (hst'.node m (by rw [virt_size]; exact hm)).kidsLt c (by rw [virt_kids]; exact hc)
      exact this
    · have hm : m < s'.nodes.size := by
        by_cases h : m < s'.nodes.size
        · exact h
        · rw [nodeD_default_of_ge s' m (by omega)] at hk; cases hk
      have := (hst'.node m (by rw [virt_size]; exact hm)).cutoff
      rwa [virt_nodeD, virtNode_cutoff] at this
  exact ⟨F', Qv', K'⟩

/-- the invariant, with the ghost values hidden -/
def QInvRE (env : Env) (s : State) : Prop := ∃ g, QInvR env s g

/-- **M2.** Every API action of the fragment that returns keeps the invariant. -/
theorem stepR {a : Action} {tk : Array Nat} {r : String × Array Nat} {s' : State} (Q : QInvRE env s)
    (ha : MapRefAction env a) (h : (stepAction env a tk).run.run s = (.ok r, s')) : QInvRE env s' := by
  obtain ⟨g, Q⟩ := Q
  by_cases hs : a = .stabilise
  · subst hs
    obtain ⟨g', R⟩ := stabiliseR Q (step_stabilise h)
    exact ⟨g', R.inv⟩
  · exact actionR Q ha hs h

end

/-! ## the initial state, histories -/

theorem virt_init (g : Nat → Option Val) (N : Nat) (d : Bool) : virt g (State.init N d) = State.init N d := by
  unfold virt; congr 1

theorem init_invR (env : Env) (N : Nat) (d : Bool) : QInvRE env (State.init N d) := by
  refine ⟨fun _ => none, ⟨rfl, fun n hn => ?_, fun n hn => ?_, fun n hn => ?_, fun n p i hk => ?_⟩, ?_, ?_⟩
  · simp [State.init] at hn
  · simp [State.init] at hn
  · simp [State.init] at hn
  · rw [init_nodeD] at hk; cases hk
  · rw [virt_init]; exact qinv_init _ N d
  · intro m p i hm
    rw [State.isNecessary, init_nodeD] at hm; cases hm

/-- **M3 (a).** A history of actions of the fragment that runs without panic from a state satisfying the invariant
ends in a state satisfying it. -/
theorem runActionsR {env : Env} {acts : List Action} {s s' : State} {tk tk' : Array Nat}
    (Q : QInvRE env s) (ha : ∀ a, a ∈ acts → MapRefAction env a)
    (h : runActions env acts s tk = .ok (s', tk')) : QInvRE env s' := by
  induction acts generalizing s tk with
  | nil => simp only [runActions] at h; cases h; exact Q
  | cons a as ih =>
    simp only [runActions] at h
    rcases hx : (stepAction env a tk).run.run s with ⟨_ | r, s1⟩
    · rw [hx] at h; cases h
    · rw [hx] at h
      exact ih (stepR Q (ha a (List.mem_cons_self ..)) hx) (fun b hb => ha b (List.mem_cons_of_mem _ hb)) h

end IncrVerif.Proofs.MapRefH
