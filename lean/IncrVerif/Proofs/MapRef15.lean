import IncrVerif.Proofs.MapRef14
import IncrVerif.Proofs.MapRef6
/-!
# map_ref fragment, part 8: the drain invariant `DInvR` through `recomputeOne`, `recompute`, a pop and `drainHeap` (M1)
-/
namespace IncrVerif.Proofs.MapRefH
open IncrVerif.Engine IncrVerif.Proofs IncrVerif.Proofs.Step IncrVerif.Proofs.Sched IncrVerif.Proofs.Quiet

/-- the drain invariant of the fragment static + map_ref, with the ghost values `g` ("the projection the parents of a
map_ref node last consumed") and the current node `x`: the state is in the fragment; the virtual static state
satisfies the scheduling invariant of the static fragment; the `didChange` invariant holds -/
structure DInvR (env : Env) (s : State) (g : Nat → Option Val) (x : Option Nat) : Prop where
  frag : RFrag env s
  inv : Inv (virtEnv env) (virt g s) x
  k : KInv env g s
  pinv : s.propagateInvalidity = []

/-- what the drain keeps, read in the virtual states -/
structure DStep (env : Env) (s s' : State) (g g' : Nat → Option Val) : Prop where
  frame : Frame (virt g s) (virt g' s')
  calm : Calm (virt g s) (virt g' s')
  keyD : KeyD (virt g s) (virt g' s')
  unnec : UnnecOK (virtEnv env) (virt g s) → UnnecOK (virtEnv env) (virt g' s')

theorem DStep.refl (env : Env) (s : State) (g : Nat → Option Val) : DStep env s s g g :=
  ⟨Frame.refl _, Calm.refl _, KeyD.refl _, id⟩

theorem DStep.trans {env : Env} {a b c : State} {g1 g2 g3 : Nat → Option Val} (h1 : DStep env a b g1 g2)
    (h2 : DStep env b c g2 g3) : DStep env a c g1 g3 :=
  ⟨h1.frame.trans h2.frame, h1.calm.trans h2.calm, KeyD.trans h1.keyD h2.keyD, fun h => h2.unnec (h1.unnec h)⟩

section
variable {env : Env} {g : Nat → Option Val} {s : State}

/-- **M1, one `recomputeOne`.** On the current node of the invariant a successful `recomputeOne` re-establishes the
invariant (with new ghost values), the handed-over parent being the new current node. -/
theorem recomputeOneR_inv {fuel n : Nat} {s' : State} {r : Option Nat} (D : DInvR env s g (some n))
    (h : (recomputeOne env fuel n).run.run s = (.ok r, s')) :
    ∃ g', DInvR env s' g' r ∧ DStep env s s' g g' ∧ ((virt g' s').nodeD n).recomputedAt = s.stabNum := by
  by_cases hk : ∀ p i, (s.nodeD n).kind ≠ .mapRef p i
  · obtain ⟨hsim, K', F', hp'⟩ := step_static_node D.frag D.inv D.k D.pinv hk h
    obtain ⟨I', fr, hrec⟩ := recomputeOne_inv D.inv hsim
    have hc := recomputeOne_calm D.inv.graph (D.inv.cur n rfl).1 D.inv.kids_values hsim
    have hkd := recomputeOne_keyD D.inv.graph (D.inv.cur n rfl).1 D.inv.kids_values hsim
    exact ⟨g, ⟨F', I', K', hp'⟩, ⟨fr, hc, hkd, fun hU => recomputeOne_unnec D.inv hU hsim⟩, hrec⟩
  · have : ∃ p i, (s.nodeD n).kind = .mapRef p i := by
      cases hkd : (s.nodeD n).kind <;>
        first | exact ⟨_, _, rfl⟩ | (exfalso; apply hk; intro p i; rw [hkd]; intro h; cases h)
    obtain ⟨p, i, hkk⟩ := this
    obtain ⟨g', v, ch, ht, R, K', F', hp', hc, hkd⟩ := step_mapRef_node D.frag D.inv D.k D.pinv hkk h
    refine ⟨g', ⟨F', step_inv D.inv ht R, K', hp'⟩,
      ⟨⟨R.size, R.vars, R.stabNum, R.shapes, ?_, R.qsize⟩, calm_virt g g' hc, keyD_virt g g' hkd,
        fun hU => step_unnec (D.inv.cur n rfl).1 R hU⟩, R.recomputedAt⟩
    intro m hm
    by_cases hmn : m = n
    · subst hmn; exact R.recomputedAt
    · rw [(R.other m hmn).recomputedAt]; exact hm

/-- **M1, the direct-recompute chain.** -/
theorem recomputeR_inv : ∀ (fuel n : Nat) (s s' : State) (g : Nat → Option Val), DInvR env s g (some n) →
    (recompute env fuel n).run.run s = (.ok (), s') →
    ∃ g', DInvR env s' g' none ∧ DStep env s s' g g' := by
  intro fuel
  induction fuel with
  | zero => intro n s s' g _ h; unfold recompute at h; cases h
  | succ fuel ih =>
    intro n s s' g D h
    unfold recompute at h
    obtain ⟨r, s1, h1, h2⟩ := bind_ok_inv h
    obtain ⟨g1, D1, f1, -⟩ := recomputeOneR_inv D h1
    cases r with
    | none =>
      obtain ⟨-, rfl⟩ := pure_ok_inv h2
      exact ⟨g1, D1, f1⟩
    | some p =>
      obtain ⟨g2, D2, f2⟩ := ih p s1 s' g1 D1 h2
      exact ⟨g2, D2, f1.trans f2⟩

theorem heapInv_of_virt (h : HeapInv (virt g s)) : HeapInv s :=
  h.congr rfl (virt_size g s).symm fun m => by
    rw [virt_nodeD]
    exact ⟨(virtNode_heightInRch _ _).symm, (virtNode_height _ _).symm, (virt_isNecessary g s m).symm⟩

/-- taking a node out of the heap, in the actual and in the virtual state -/
theorem popR {s1 : State} {r : Option Nat} (D : DInvR env s g none)
    (h : rchRemoveMin.run.run s = (.ok r, s1)) :
    rchRemoveMin.run.run (virt g s) = (.ok r, virt g s1) ∧ RFrag env s1 ∧ KInv env g s1 ∧
      s1.propagateInvalidity = [] := by
  obtain ⟨hv, hfr⟩ := Sim.rchRemoveMin (g := g) s (D.frag.fr D.pinv) r s1 h
  refine ⟨hv, ?_⟩
  have hi := heapInv_of_virt D.inv.heap
  have hinv := rchRemoveMin_inv hi h
  cases r with
  | none =>
    obtain ⟨rfl, -⟩ := hinv
    exact ⟨D.frag, D.k, D.pinv⟩
  | some n =>
    obtain ⟨-, -, -, hs1, -⟩ := hinv
    have hnd : ∀ m, s1.nodeD m =
        if n = m ∧ m < s.nodes.size then { s.nodeD m with heightInRch := -1 } else s.nodeD m := by
      intro m; rw [hs1]; exact nodeD_modify s n m _
    have hsz : s1.nodes.size = s.nodes.size := by rw [hs1]; simp
    have hkind : ∀ m, (s1.nodeD m).kind = (s.nodeD m).kind := by intro m; rw [hnd]; split <;> rfl
    have hvalid : ∀ m, (s1.nodeD m).valid = (s.nodeD m).valid := by intro m; rw [hnd]; split <;> rfl
    have hcut : ∀ m, (s1.nodeD m).cutoff = (s.nodeD m).cutoff := by intro m; rw [hnd]; split <;> rfl
    have hval : ∀ m, (s1.nodeD m).value = (s.nodeD m).value := by intro m; rw [hnd]; split <;> rfl
    have hflag : ∀ m, (s1.nodeD m).didChange = (s.nodeD m).didChange := by intro m; rw [hnd]; split <;> rfl
    have hnec : ∀ m, s1.isNecessary m = s.isNecessary m := by
      intro m; simp only [State.isNecessary]; rw [hnd]; split <;> rfl
    refine ⟨⟨by rw [hs1]; exact D.frag.pc, fun m hm => by rw [hkind]; exact D.frag.kind m (by rw [← hsz]; exact hm),
        fun m hm => by rw [hvalid]; exact D.frag.valid m (by rw [← hsz]; exact hm),
        fun m hm => by rw [hkind]; exact D.frag.back m (by rw [← hsz]; exact hm),
        fun m p i hk => by rw [hkind] at hk; rw [hcut]; exact D.frag.cut m p i hk⟩, ?_, hfr.pinv⟩
    refine D.k.congr hnec hkind (fun m hd => by rw [← hflag]; exact hd) (fun m p i _ _ _ => ?_)
    exact value_congr env s s1 hsz (fun k => by simp only [valueCore, hkind, hvalid, hval]) m

/-- **M1, one pop of `drainHeap`.** -/
theorem popR_recompute {fuel n : Nat} {s1 s' : State} (D : DInvR env s g none)
    (hpop : rchRemoveMin.run.run s = (.ok (some n), s1))
    (hrec : (recompute env fuel n).run.run s1 = (.ok (), s')) :
    ∃ g', DInvR env s' g' none ∧ DStep env s s' g g' := by
  obtain ⟨hv, F1, K1, hp1⟩ := popR D hpop
  obtain ⟨I1, f1⟩ := pop_inv D.inv hv
  have D1 : DInvR env s1 g (some n) := ⟨F1, I1, K1, hp1⟩
  obtain ⟨g', D', f2⟩ := recomputeR_inv fuel n s1 s' g D1 hrec
  exact ⟨g', D', DStep.trans ⟨f1, pop_calm D.inv.heap hv, pop_keyD D.inv.heap hv,
    fun hU => pop_unnec D.inv.heap hU hv⟩ f2⟩

/-- **M1, the loop.** A successful `drainHeap` from the drain invariant ends with the drain invariant (for new ghost
values) and an empty heap. -/
theorem drainHeapR_inv : ∀ (fuel : Nat) (s s' : State) (g : Nat → Option Val), DInvR env s g none →
    (drainHeap env fuel).run.run s = (.ok (), s') →
    ∃ g', DInvR env s' g' none ∧ s'.rch.length = 0 ∧ DStep env s s' g g' := by
  intro fuel
  induction fuel with
  | zero => intro s s' g _ h; unfold drainHeap at h; cases h
  | succ fuel ih =>
    intro s s' g D h
    unfold drainHeap at h
    obtain ⟨r, s1, h1, h2⟩ := bind_ok_inv h
    cases r with
    | none =>
      obtain ⟨-, rfl⟩ := pure_ok_inv h2
      obtain ⟨rfl, he⟩ := rchRemoveMin_inv (heapInv_of_virt D.inv.heap) h1
      exact ⟨g, D, he, DStep.refl env _ g⟩
    | some n =>
      obtain ⟨u, s2, h3, h4⟩ := bind_ok_inv h2
      obtain ⟨g2, D2, f2⟩ := popR_recompute D h1 h3
      obtain ⟨g3, D3, he, f3⟩ := ih s2 s' g2 D2 h4
      exact ⟨g3, D3, he, f2.trans f3⟩

end
end IncrVerif.Proofs.MapRefH
