import IncrVerif.Proofs.MapOld30
/-!
# C17 at every operator step of a reachable drain state (definitions tables of the history language)

In any state of a drain that satisfies the drain invariant `DInvW` (every state of a `stabilise` of a history of the
fragment does), the recompute step of an operator node logs exactly the user-function calls `opCalls d g σ old x`, where
`x` is the CURRENT value of the node's input and `(σ, old)` — the node's closure state and stored output — is either the
state of a fresh node or `(x0, opSpec d g x0)` for the canonical input `x0` THE OPERATOR LAST RAN ON.
-/
namespace IncrVerif.Proofs.MapOldH
open IncrVerif IncrVerif.Engine IncrVerif.Driver IncrVerif.MapOps IncrVerif.Proofs IncrVerif.Proofs.Step IncrVerif.Proofs.Sched IncrVerif.Proofs.Quiet

theorem toEnv_withOldCalls_op (d : Defs) {g : Nat} (hg : opBase ≤ g) (σ : Val) (old : Option Val) (x : Val) :
    d.toEnv.withOldCalls g σ old x = opCalls d g σ old x := by
  show (if g ≥ opBase then opCalls d g σ old x else []) = _
  rw [if_pos hg]

/-- the `inv` events of one operator step, most recent first -/
def callEvents (n : Nat) (calls : List (String × List Val × String)) : List Event :=
  (calls.map fun c => Event.inv c.1 n c.2.1 c.2.2).reverse

/-- **C17, engine level.** -/
theorem operator_step_calls {d : Defs} {fuel n g i : Nat} {s s' : State} {r : Option Nat}
    (D : DInvW d.toEnv Canon (machSpec d) s (some n)) (hk : (s.nodeD n).kind = .mapWithOld g i)
    (hg : opBase ≤ g) (h : (recomputeOne d.toEnv fuel n).run.run s = (.ok r, s')) :
    ∃ x tail, (s.nodeD i).value = some x ∧ Canon x ∧
      s'.log = tail ++ callEvents n (opCalls d g (s.nodeD n).oldState (s.nodeD n).value x) ++ s.log ∧
      (∀ e, e ∈ tail → Noise e) ∧
      (((s.nodeD n).oldState = .unit ∧ (s.nodeD n).value = none) ∨
        (Canon (s.nodeD n).oldState ∧ (s.nodeD n).value = some (opSpec d g (s.nodeD n).oldState))) := by
  have F := D.frag
  have hlt := F.lt_of_mwo hk
  obtain ⟨x, hx⟩ := Inv.kids_some D.inv i (by rw [hk]; simp [kidsW])
  have hxv : s.value d.toEnv i = some x := by rw [F.value i]; exact hx
  obtain ⟨tail, hlog, hnoise⟩ := mwo_step_log hlt (F.valid n hlt) hk hxv F.pc h
  refine ⟨x, tail, hx, D.m.vals i x hx, ?_, hnoise, ?_⟩
  · rw [hlog]
    have hng : ¬ g < opBase := by omega
    simp only [woEvents, hng, if_false, toEnv_withOldCalls_op d hg, callEvents]
  · exact (opSt_iff d g _ _).1 (opReach d g hg _ _ (D.m.mach n g i hk))

/-! ## every `recomputeOne` of a drain happens in a state with the drain invariant -/

/-- induction principle over the steps of a drain: a reflexive, transitive relation that holds across every pop and
across every `recomputeOne` on the current node of a state with the drain invariant holds across the whole drain -/
theorem drain_steps_ind {env : Env} {C : Val → Prop} {sp : Nat → Val → Val} (V : ValOK env C sp)
    (P : State → State → Prop) (_hrefl : ∀ s, P s s) (htrans : ∀ a b c, P a b → P b c → P a c)
    (hpop : ∀ s r s1, DInvW env C sp s none → rchRemoveMin.run.run s = (.ok r, s1) → P s s1)
    (hstep : ∀ s n fuel r s', DInvW env C sp s (some n) → (recomputeOne env fuel n).run.run s = (.ok r, s') → P s s') :
    ∀ (fuel : Nat) (s s' : State), DInvW env C sp s none → (drainHeap env fuel).run.run s = (.ok (), s') → P s s' := by
  have hrec : ∀ (fuel n : Nat) (s s' : State), DInvW env C sp s (some n) →
      (recompute env fuel n).run.run s = (.ok (), s') → P s s' := by
    intro fuel
    induction fuel with
    | zero => intro n s s' _ h; unfold recompute at h; cases h
    | succ fuel ih =>
      intro n s s' D h
      unfold recompute at h
      obtain ⟨r, s1, h1, h2⟩ := bind_ok_inv h
      obtain ⟨D1, -, -⟩ := recomputeOneW_inv V D h1
      have p1 := hstep s n fuel r s1 D h1
      cases r with
      | none => obtain ⟨-, rfl⟩ := pure_ok_inv h2; exact p1
      | some p => exact htrans _ _ _ p1 (ih p s1 s' D1 h2)
  intro fuel
  induction fuel with
  | zero => intro s s' _ h; unfold drainHeap at h; cases h
  | succ fuel ih =>
    intro s s' D h
    unfold drainHeap at h
    obtain ⟨r, s1, h1, h2⟩ := bind_ok_inv h
    have p1 := hpop s r s1 D h1
    cases r with
    | none => obtain ⟨-, rfl⟩ := pure_ok_inv h2; exact p1
    | some n =>
      obtain ⟨u, s2, h3, h4⟩ := bind_ok_inv h2
      obtain ⟨hv, F1, M1, hp1⟩ := popW D h1
      obtain ⟨I1, -⟩ := pop_inv D.inv hv
      have D1 : DInvW env C sp s1 (some n) := ⟨F1, I1, M1, hp1⟩
      obtain ⟨D2, -⟩ := recomputeW_inv V fuel n s1 s2 D1 h3
      exact htrans _ _ _ p1 (htrans _ _ _ (hrec fuel n s1 s2 D1 h3) (ih s2 s' D2 h4))

end IncrVerif.Proofs.MapOldH
