import IncrVerif.Proofs.TidyH43
/-!
# T4: `drainHeap` RETURNS on states of the expert fragment X1 (total correctness of the drain)

Port of `Sched.recomputeOne_safe` / `recompute_total` / `drainHeap_total` (Sched10–12) to the drain invariant `DInvX`
of the fragment static + expert (ExpertH40), through the converse simulation `XR.SimR` (X4b_1…5):
the VIRTUAL run cannot panic (static theory on `virt s`), hence the ACTUAL run returns.
The measure is `Sched.unrun (virt s)`.
-/
namespace IncrVerif.Proofs.TidyH.XT
open IncrVerif.Engine IncrVerif.Driver IncrVerif.Proofs IncrVerif.Proofs.Step IncrVerif.Proofs.Sched
open IncrVerif.Proofs.ExpertH
open IncrVerif.Proofs.TidyH.XT.XR

namespace X4h

/-- the state in which the closure has run keeps `FrR`: kinds unchanged, the expert array is modified in place -/
theorem ranState_frr {env : Env} {n e : Nat} {s : State} {er : ExpertRec} (h : FrR s)
    (he : s.experts[e]? = some er) : FrR (ranState env n e s er) := by
  refine h.of_kinds (ranState_fr h.fr he) (fun m => ?_) ?_
  · rw [ranState_nodeD, started_nodeD]; split <;> rfl
  · rw [ranState_experts]; simp

theorem expert_or_not (k : Kind) : (∃ e, k = .expert e) ∨ ∀ e, k ≠ .expert e := by
  cases k <;> first | exact Or.inl ⟨_, rfl⟩ | (right; intro e h; cases h)

end X4h

section
variable {env : Env}

/-- **one `recomputeOne` returns.** On the current node of the drain invariant, with `Safe` of the virtual state and
some fuel, `recomputeOne` cannot panic. -/
theorem recomputeOneX_total {fuel n : Nat} {s : State} (D : DInvX env s (some n)) (S : Safe (virt s))
    (hf : 0 < fuel) : ∃ r s', (recomputeOne env fuel n).run.run s = (.ok r, s') := by
  have hnec : (virt s).isNecessary n = true := (D.inv.cur n rfl).1
  have hlt : n < s.nodes.size := by rw [← virt_size]; exact (D.inv.graph.nec n hnec).1
  have hfr : FrR s := FrR.of_frag D.frag D.pinv
  rcases X4h.expert_or_not (s.nodeD n).kind with ⟨e, hk⟩ | hne
  · obtain ⟨er, he, hnode⟩ := D.frag.xrec n e hlt hk
    obtain ⟨hpk, hni, hok, _⟩ := D.frag.xok e er he
    have hx : Xp.IsExpert s n (s.nodeD n) e er := ⟨some_of_lt hlt, D.frag.valid n hlt, hk, he⟩
    rw [Xp.recomputeOne_expert_run env fuel n hx hpk D.frag.pc (by omega)]
    change ∃ r s', (maybeChangeValue env fuel n (Xp.expertResult env s (Xp.readyRec env s er))).run.run
      (ranState env n e s er) = (.ok r, s')
    have hU := ranState_upd (env := env) D.frag hlt hk he
    have hfresh : ∀ p, p ∈ ((virt s).nodeD n).parents.map (·.1) →
        ((virt s).nodeD p).recomputedAt < (virt s).stabNum := fun p hp =>
      D.inv.fresh n (Or.inr rfl) p (D.inv.graph.parent_facts hp).2.2.1
    rcases hv : (maybeChangeValue (virtEnv env) fuel n (Xp.expertResult env s (Xp.readyRec env s er))).run.run
      (virt (ranState env n e s er)) with ⟨e1 | r, t⟩
    · have := (mcv_safe D.inv.graph D.inv.heap S hnec hfresh hU hv).2
      omega
    · obtain ⟨s', h1, -, -⟩ := SimR.maybeChangeValue env fuel n _ _ (X4h.ranState_frr hfr he) r t hv
      exact ⟨r, s', h1⟩
  · rcases hv : (recomputeOne (virtEnv env) fuel n).run.run (virt s) with ⟨e1 | r, t⟩
    · have := (recomputeOne_safe D.inv S hv).2
      omega
    · obtain ⟨s', h1, -, -⟩ := recomputeOne_simR hfr hlt (D.frag.kind n hlt) hne hv
      exact ⟨r, s', h1⟩

/-- a successful `recomputeOne` keeps `Safe` of the virtual state -/
theorem recomputeOneX_keeps_safe {fuel n : Nat} {s s' : State} {r : Option Nat} (D : DInvX env s (some n))
    (S : Safe (virt s)) (h : (recomputeOne env fuel n).run.run s = (.ok r, s')) : Safe (virt s') :=
  S.frame (recomputeOneX_inv D h).2.1.frame

theorem recomputeX_keeps_safe {fuel n : Nat} {s s' : State} (D : DInvX env s (some n))
    (S : Safe (virt s)) (h : (recompute env fuel n).run.run s = (.ok (), s')) : Safe (virt s') :=
  S.frame (recomputeX_inv fuel n s s' D h).2.frame

/-- the pop returns, and keeps `Safe` of the virtual state -/
theorem rchRemoveMinX_total {s : State} (D : DInvX env s none) (S : Safe (virt s)) :
    ∃ r s1, rchRemoveMin.run.run s = (.ok r, s1) ∧ rchRemoveMin.run.run (virt s) = (.ok r, virt s1) ∧
      Safe (virt s1) := by
  obtain ⟨r, t, hpop, S1⟩ := rchRemoveMin_safe D.inv S
  obtain ⟨s1, h1, ht, -⟩ := SimR.rchRemoveMin s (FrR.of_frag D.frag D.pinv) r t hpop
  rw [ht] at hpop S1
  exact ⟨r, s1, h1, hpop, S1⟩

/-- after its `recompute` the current node carries (virtually) the stamp of the round -/
theorem recomputeX_ran : ∀ (fuel n : Nat) (s s' : State), DInvX env s (some n) →
    (recompute env fuel n).run.run s = (.ok (), s') → ((virt s').nodeD n).recomputedAt = s.stabNum := by
  intro fuel
  cases fuel with
  | zero => intro n s s' _ h; unfold recompute at h; cases h
  | succ fuel =>
    intro n s s' D h
    unfold recompute at h
    obtain ⟨r, s1, h1, h2⟩ := bind_ok_inv h
    obtain ⟨D1, f1, hn1⟩ := recomputeOneX_inv D h1
    cases r with
    | none => obtain ⟨-, rfl⟩ := pure_ok_inv h2; exact hn1
    | some p =>
      obtain ⟨-, f2⟩ := recomputeX_inv fuel p s1 s' D1 h2
      have h3 : (virt s1).stabNum = s.stabNum := f1.frame.stabNum
      have := f2.frame.ran n (by rw [h3]; exact hn1)
      rw [h3] at this; exact this

/-- **the chain terminates**: with `fuel > unrun (virt s)` the direct-recompute chain returns -/
theorem recomputeX_total : ∀ (fuel n : Nat) (s : State), DInvX env s (some n) → Safe (virt s) →
    unrun (virt s) + 1 ≤ fuel → ∃ s', (recompute env fuel n).run.run s = (.ok (), s') := by
  intro fuel
  induction fuel with
  | zero => intro n s _ _ h; omega
  | succ fuel ih =>
    intro n s D S hf
    have hnlt := (D.inv.graph.nec n (D.inv.cur n rfl).1).1
    have hpos := unrun_pos hnlt D.inv.cur_not_yet
    obtain ⟨r, s1, h1⟩ := recomputeOneX_total (fuel := fuel) D S (by omega)
    obtain ⟨D1, f1, hn1⟩ := recomputeOneX_inv D h1
    unfold recompute
    rw [run_bind, h1]
    cases r with
    | none => exact ⟨s1, rfl⟩
    | some p =>
      have hlt := f1.frame.unrun_lt D.inv.stamps hnlt D.inv.cur_not_yet hn1
      exact ih p s1 D1 (S.frame f1.frame) (by omega)

/-- **the drain terminates**: with `fuel ≥ unrun (virt s) + 2` a `drainHeap` from a state with the drain invariant of
the fragment and `Safe` of the virtual state returns -/
theorem drainHeapX_total_unrun : ∀ (fuel : Nat) (s : State), DInvX env s none → Safe (virt s) →
    unrun (virt s) + 2 ≤ fuel → ∃ s', (drainHeap env fuel).run.run s = (.ok (), s') := by
  intro fuel
  induction fuel with
  | zero => intro s _ _ h; omega
  | succ fuel ih =>
    intro s D S hf
    obtain ⟨r, s1, hpop, hv, S1⟩ := rchRemoveMinX_total D S
    unfold drainHeap
    rw [run_bind, hpop]
    cases r with
    | none => exact ⟨s1, rfl⟩
    | some n =>
      obtain ⟨-, F1, hp1, A1⟩ := popX D hpop
      obtain ⟨I1, f1⟩ := pop_inv D.inv hv
      have D1 : DInvX env s1 (some n) := ⟨F1, I1, hp1, A1⟩
      have hle := f1.unrun_le D.inv.stamps
      obtain ⟨s2, hrec⟩ := recomputeX_total fuel n s1 D1 S1 (by omega)
      obtain ⟨D2, f2⟩ := recomputeX_inv fuel n s1 s2 D1 hrec
      have hnlt := (I1.graph.nec n (I1.cur n rfl).1).1
      have hlt := f2.frame.unrun_lt I1.stamps hnlt I1.cur_not_yet (recomputeX_ran fuel n s1 s2 D1 hrec)
      obtain ⟨s', hd⟩ := ih s2 D2 (S1.frame f2.frame) (by omega)
      refine ⟨s', ?_⟩
      simp only [run_bind, hrec, hd]

/-- **the drain terminates** with `fuel ≥ s.nodes.size + 2` -/
theorem drainHeapX_total {fuel : Nat} {s : State} (D : DInvX env s none) (S : Safe (virt s))
    (hf : s.nodes.size + 2 ≤ fuel) : ∃ s', (drainHeap env fuel).run.run s = (.ok (), s') := by
  have h1 := unrun_le_size (virt s)
  rw [virt_size] at h1
  exact drainHeapX_total_unrun fuel s D S (by omega)

/-- **total correctness of the drain in the fragment X1.** From the drain invariant and `Safe` of the virtual state,
with `fuel ≥ s.nodes.size + 2`, `drainHeap` returns; the final state satisfies the drain invariant, has an empty heap,
`Safe` of the virtual state is kept. -/
theorem drainHeapX_total_inv {fuel : Nat} {s : State} (D : DInvX env s none) (S : Safe (virt s))
    (hf : s.nodes.size + 2 ≤ fuel) :
    ∃ s', (drainHeap env fuel).run.run s = (.ok (), s') ∧ DInvX env s' none ∧ s'.rch.length = 0 ∧
      DStepX env s s' ∧ Safe (virt s') := by
  obtain ⟨s', h⟩ := drainHeapX_total D S hf
  obtain ⟨D', he, f⟩ := drainHeapX_inv fuel s s' D h
  exact ⟨s', h, D', he, f, S.frame f.frame⟩

end
end IncrVerif.Proofs.TidyH.XT
