import IncrVerif.Proofs.LeakH5
import IncrVerif.Proofs.Ownership
/-!
# C12 over histories, part 6: the drop phase

The four actions by which a program gives up what it holds — `dropVar`, `dropHandle`, `dropObs`, `disallow` —
in any order, any number of times, keep `DInv`: the quiescent invariant of the stripped state, `ObsDead`,
`VarDead`.  `dropVar`/`dropHandle` do not change the stripped state; `dropObs`/`disallow` commute with `strip`.
-/
namespace IncrVerif.Proofs.LeakH
open IncrVerif.Engine IncrVerif.Driver IncrVerif.Proofs IncrVerif.Proofs.Obs IncrVerif.Proofs.Life
open IncrVerif.Proofs.Own

/-- the actions that give up a handle -/
def DropAction : Action → Prop
  | .dropVar _ | .dropHandle _ | .dropObs _ | .disallow _ => True
  | _ => False

structure DInv (env : Env) (s : State) : Prop where
  q : Quiet.QInv env (strip s)
  od : ObsDead s
  vd : VarDead s

theorem disallowState_strip (s : State) (o : Nat) : disallowState (strip s) o = strip (disallowState s o) := by
  have e : (strip s).observers[o]? = s.observers[o]? := rfl
  unfold disallowState
  rw [e]
  cases s.observers[o]? with
  | none => rfl
  | some ob =>
    obtain ⟨n, st, hs, c⟩ := ob
    cases st <;> rfl

theorem disallowState_vars (s : State) (o : Nat) :
    (disallowState s o).vars = s.vars ∧ (disallowState s o).deadVars = s.deadVars := by
  unfold disallowState
  cases s.observers[o]? with
  | none => exact ⟨rfl, rfl⟩
  | some ob =>
    obtain ⟨n, st, hs, c⟩ := ob
    cases st <;> exact ⟨rfl, rfl⟩

theorem dropObsState_strip (s : State) (o : Nat) : dropObsState (strip s) o = strip (dropObsState s o) := by
  have e : (strip s).observers[o]? = s.observers[o]? := rfl
  unfold dropObsState
  rw [e]
  cases s.observers[o]? with
  | none => rfl
  | some ob =>
    dsimp only
    split
    · rfl
    · split
      · exact (disallowState_strip
          { s with observers := s.observers.modify o fun x => { x with clones := x.clones - 1 } } o)
      · rfl

theorem dropObsState_vars (s : State) (o : Nat) :
    (dropObsState s o).vars = s.vars ∧ (dropObsState s o).deadVars = s.deadVars := by
  unfold dropObsState
  cases s.observers[o]? with
  | none => exact ⟨rfl, rfl⟩
  | some ob =>
    dsimp only
    split
    · exact ⟨rfl, rfl⟩
    · split
      · exact disallowState_vars _ o
      · exact ⟨rfl, rfl⟩

theorem map_modify_handles (vs : Array VarCell) (v : Nat) :
    (vs.modify v fun x => { x with handles := x.handles - 1 }).map (fun vc => { vc with handles := 1 })
      = vs.map fun vc => { vc with handles := 1 } := by
  apply Array.ext_getElem?
  intro i
  rw [Array.getElem?_map, Array.getElem?_map, Array.getElem?_modify]
  split
  · cases vs[i]? <;> rfl
  · rfl

theorem strip_varDropped (s : State) (v : Nat) (vc : VarCell) : strip (varDropped s v vc) = strip s := by
  have e : strip (varDropped s v vc) = { strip s with
      vars := (s.vars.modify v fun x => { x with handles := x.handles - 1 }).map
        (fun vc => { vc with handles := 1 }) } := rfl
  rw [e, map_modify_handles]
  rfl

theorem varDead_varDropped {s : State} {v : Nat} {vc : VarCell} (VD : VarDead s) (hv : s.vars[v]? = some vc)
    (h0 : vc.handles ≠ 0) : VarDead (varDropped s v vc) := by
  intro c vc' hc hz hl
  have hvars : (varDropped s v vc).vars = s.vars.modify v fun x => { x with handles := x.handles - 1 } := rfl
  have hdead : (varDropped s v vc).deadVars = if vc.handles = 1 then s.deadVars ++ [v] else s.deadVars := rfl
  rw [hvars, Array.getElem?_modify] at hc
  rw [hdead]
  by_cases hvc : v = c
  · subst hvc
    rw [if_pos rfl, hv] at hc
    simp only [Option.map_some, Option.some.injEq] at hc
    have h1 : vc.handles = 1 := by
      rw [← hc] at hz
      simp only at hz
      omega
    rw [if_pos h1]
    exact List.mem_append_right _ (List.mem_singleton.2 rfl)
  · rw [if_neg hvc] at hc
    have := VD c vc' hc hz hl
    split
    · exact List.mem_append_left _ this
    · exact this

theorem drop_step {env : Env} {s s' : State} {a : Action} {tk : Array Nat} {r : String × Array Nat}
    (I : DInv env s) (ha : DropAction a) (h : (stepAction env a tk).run.run s = (.ok r, s')) :
    DInv env s' := by
  refine ⟨?_, obsDead_action I.od h, ?_⟩
  · -- the quiescent invariant of the stripped state
    cases a <;> try exact ha.elim
    case dropVar v =>
      cases hv : s.vars[v]? with
      | none =>
        simp only [stepAction, Obs.run_bind, dropVarHandle_run_none s v hv] at h
        cases h
      | some vc =>
        rw [dropVar_action_run env tk s v vc hv] at h
        obtain ⟨-, e⟩ := Prod.mk.inj h
        rw [← e]
        split
        · exact I.q
        · rw [strip_varDropped]; exact I.q
    case dropHandle o =>
      rw [dropHandle_run] at h
      cases hr : resolve s [] o with
      | error p => rw [hr] at h; cases h
      | ok n =>
        rw [hr] at h
        dsimp only at h
        split at h
        · obtain ⟨-, e⟩ := Prod.mk.inj h
          rw [← e]; exact I.q
        · obtain ⟨-, e⟩ := Prod.mk.inj h
          rw [← e]; exact I.q
    case dropObs o =>
      rw [stepAction_dropObs_run] at h
      obtain ⟨h1, h2⟩ := Prod.mk.inj h
      have hrun : (stepAction env (.dropObs o) tk).run.run (strip s) = (.ok r, strip s') := by
        rw [stepAction_dropObs_run, dropObsState_strip, h2]
        exact Prod.ext h1 rfl
      exact Quiet.step_q (a := .dropObs o) I.q trivial hrun
    case disallow o =>
      rw [stepAction_disallow_run] at h
      obtain ⟨h1, h2⟩ := Prod.mk.inj h
      have hrun : (stepAction env (.disallow o) tk).run.run (strip s) = (.ok r, strip s') := by
        rw [stepAction_disallow_run, disallowState_strip, h2]
        exact Prod.ext h1 rfl
      exact Quiet.step_q (a := .disallow o) I.q trivial hrun
  · -- dead variables
    cases a <;> try exact ha.elim
    case dropVar v =>
      cases hv : s.vars[v]? with
      | none =>
        simp only [stepAction, Obs.run_bind, dropVarHandle_run_none s v hv] at h
        cases h
      | some vc =>
        rw [dropVar_action_run env tk s v vc hv] at h
        obtain ⟨-, e⟩ := Prod.mk.inj h
        rw [← e]
        split
        · exact I.vd
        · rename_i h0
          exact varDead_varDropped I.vd hv h0
    case dropHandle o =>
      rw [dropHandle_run] at h
      cases hr : resolve s [] o with
      | error p => rw [hr] at h; cases h
      | ok n =>
        rw [hr] at h
        dsimp only at h
        split at h
        · obtain ⟨-, e⟩ := Prod.mk.inj h
          rw [← e]; exact I.vd
        · obtain ⟨-, e⟩ := Prod.mk.inj h
          rw [← e]; exact I.vd
    case dropObs o =>
      rw [stepAction_dropObs_run] at h
      obtain ⟨-, h2⟩ := Prod.mk.inj h
      obtain ⟨e1, e2⟩ := dropObsState_vars s o
      intro c vc hc
      rw [← h2, e1] at hc
      rw [← h2, e2]
      exact I.vd c vc hc
    case disallow o =>
      rw [stepAction_disallow_run] at h
      obtain ⟨-, h2⟩ := Prod.mk.inj h
      obtain ⟨e1, e2⟩ := disallowState_vars s o
      intro c vc hc
      rw [← h2, e1] at hc
      rw [← h2, e2]
      exact I.vd c vc hc

theorem drop_run {env : Env} {acts : List Action} {s s' : State} {tk tk' : Array Nat} (I : DInv env s)
    (ha : ∀ a, a ∈ acts → DropAction a) (h : Quiet.runActions env acts s tk = .ok (s', tk')) :
    DInv env s' := by
  induction acts generalizing s tk with
  | nil => simp only [Quiet.runActions] at h; cases h; exact I
  | cons a as ih =>
    simp only [Quiet.runActions] at h
    rcases hx : (stepAction env a tk).run.run s with ⟨_ | r, s1⟩
    · rw [hx] at h; cases h
    · rw [hx] at h
      exact ih (drop_step I (ha a (List.mem_cons_self ..)) hx)
        (fun b hb => ha b (List.mem_cons_of_mem _ hb)) h

end IncrVerif.Proofs.LeakH
