import IncrVerif.Proofs.FullT31
import IncrVerif.Proofs.FullT6
import IncrVerif.Proofs.FullT29
/-!
# C04 combined fragment: the headline theorems (all contracts discharged)
-/
namespace IncrVerif.Proofs.FullT
open IncrVerif.Engine IncrVerif.Driver IncrVerif.Proofs IncrVerif.Proofs.Step IncrVerif.Proofs.Sched IncrVerif.Proofs.Quiet IncrVerif.Proofs.FullH
open IncrVerif.Proofs.NestH (DT TotIf HasRoomG LcStepTotG stepFuel runS ResOK)

section
variable {env : Env} {sp : Nat → Val → Val} {N : Nat}

theorem anoC (env : Env) (sp : Nat → Val → Val) : AnoC env sp :=
  fun _ fuel _ hf => BSimXAt.addNewObservers (bnC (FK env sp) env sp) fuel hf

/-- **one `recomputeOne` of the drain returns** if the state it ends in has room -/
theorem stepTotF'' (E : EnvS env sp) (hF : FirstFn env) : StepTotF stepFuel env sp N := stepTotF' E hF (simTotC E)

/-- **`stabilise` returns** if the state it ends in has room -/
theorem stabTotC' (E : EnvS env sp) (hF : FirstFn env) : StabTotC needFuelF env sp N := stabTotC E hF (simTotC E) (anoC env sp)

/-- **C04 for the combined fragment**: a valid history never panics -/
theorem history_never_panicsF (E : EnvS env sp) (hF : FirstFn env) {d : Bool} {acts : List Action} (hH : HistFull env sp 0 acts)
    (hV : ValidIdxF 0 0 0 acts) (hroom : HasRoomG needFuelF N fuelDefault (runS env acts (State.init N d) #[]).2) :
    ∃ s tk g, Quiet.runActions env acts (State.init N d) #[] = .ok (s, tk) ∧ QF env sp N s g :=
  history_totalF' E hF (simTotC E) (anoC env sp) hH hV hroom

/-- the same from any state satisfying the invariants -/
theorem runActions_never_panicsF (E : EnvS env sp) (hF : FirstFn env) (acts : List Action) (s : State) (tk : Array Nat) (g : Nat → Option Val)
    (Q : QF env sp N s g) (hH : HistFull env sp s.top.size acts) (hV : ValidIdxF s.top.size s.vars.size s.observers.size acts)
    (hroom : HasRoomG needFuelF N fuelDefault (runS env acts s tk).2) :
    ∃ s' tk' g', Quiet.runActions env acts s tk = .ok (s', tk') ∧ QF env sp N s' g' :=
  runS_totalF E hF (stabTotC' E hF) (actTotC env sp N) needFuelF_facts.2.2 acts s tk g Q hH hV hroom

end
end IncrVerif.Proofs.FullT
