import IncrVerif.Proofs.BindH11
import IncrVerif.Proofs.Quiet14
/-!
# Binds, BF1: frames of one `recomputeOne` on a static-kind or `bindMain` node in a graph with binds

* `BF.HAh`: no node's `heightInAhh` marker changes; `Step.Pres BF.HAh` for `maybeChangeValue`.
* `BF.recomputeOne_closed`: the closed form of `recomputeOne` for the static kinds and for `bindMain`
  (`maybeChangeValue` run in `started n s`, possibly with some events logged).
* `BF.recomputeOne_keyD_B`, `BF.recomputeOne_hah`: the port of `Quiet.recomputeOne_keyD` to `BGraph` (static kinds AND
  `bindMain`), and the `heightInAhh` frame.
-/
namespace IncrVerif.Proofs.BindH
open IncrVerif.Engine IncrVerif.Proofs IncrVerif.Proofs.Step IncrVerif.Proofs.Sched IncrVerif.Proofs.Quiet
namespace BF

/-- no node's adjust-heights-heap marker changes -/
def HAh (s s' : State) : Prop := ∀ m, (s'.nodeD m).heightInAhh = (s.nodeD m).heightInAhh

theorem HAh.refl (s : State) : HAh s s := fun _ => rfl
theorem HAh.trans {a b c : State} (h1 : HAh a b) (h2 : HAh b c) : HAh a c :=
  fun m => (h2 m).trans (h1 m)
instance : PreOrd HAh := ⟨HAh.refl, HAh.trans⟩

theorem HAh.of_nodes {s s' : State} (h : s'.nodes = s.nodes) : HAh s s' := by
  intro m; simp [State.nodeD, h]

theorem HAh.modNode (s : State) (n : Nat) (f : Node → Node) (hf : ∀ x, (f x).heightInAhh = x.heightInAhh) :
    HAh s { s with nodes := s.nodes.modify n f } := by
  intro m
  rw [nodeD_modify]; split
  · exact hf _
  · rfl

theorem PresA.modNode (n : Nat) (f : Node → Node) (hf : ∀ x, (f x).heightInAhh = x.heightInAhh) :
    Step.Pres HAh (modNode n f) := by
  unfold Engine.modNode; exact Step.Pres.modify fun s => HAh.modNode s n f hf

local macro_rules
  | `(tactic| qleaf) =>
    `(tactic| ((with_reducible apply Step.Pres.modify); intro _; exact HAh.of_nodes rfl))
local macro_rules
  | `(tactic| qleaf) => `(tactic| ((with_reducible apply PresA.modNode); intro _; rfl))

theorem PresA.tick : Step.Pres HAh tick := by unfold Engine.tick; qpres
local macro_rules | `(tactic| qleaf) => `(tactic| with_reducible apply PresA.tick)
theorem PresA.logEv (e) : Step.Pres HAh (logEv e) := by unfold Engine.logEv; qpres
local macro_rules | `(tactic| qleaf) => `(tactic| with_reducible apply PresA.logEv)
theorem PresA.bumpCounter (f) : Step.Pres HAh (bumpCounter f) := by unfold Engine.bumpCounter; qpres
local macro_rules | `(tactic| qleaf) => `(tactic| with_reducible apply PresA.bumpCounter)
theorem PresA.modExpert (e f) : Step.Pres HAh (modExpert e f) := by unfold Engine.modExpert; qpres
local macro_rules | `(tactic| qleaf) => `(tactic| with_reducible apply PresA.modExpert)
theorem PresA.shouldCutoff (env n o v) : Step.Pres HAh (shouldCutoff env n o v) := by
  unfold Engine.shouldCutoff; qpres
local macro_rules | `(tactic| qleaf) => `(tactic| with_reducible apply PresA.shouldCutoff)
theorem PresA.edgeOnChange (env e edge) : Step.Pres HAh (edgeOnChange env e edge) := by
  unfold Engine.edgeOnChange; qpres
local macro_rules | `(tactic| qleaf) => `(tactic| with_reducible apply PresA.edgeOnChange)
theorem PresA.runEdgeCallback (env e i) : Step.Pres HAh (runEdgeCallback env e i) := by
  unfold Engine.runEdgeCallback; qpres
local macro_rules | `(tactic| qleaf) => `(tactic| with_reducible apply PresA.runEdgeCallback)
theorem PresA.rchLink (n) : Step.Pres HAh (rchLink n) := by unfold Engine.rchLink; qpres
local macro_rules | `(tactic| qleaf) => `(tactic| with_reducible apply PresA.rchLink)
theorem PresA.rchInsert (n) : Step.Pres HAh (rchInsert n) := by unfold Engine.rchInsert; qpres
local macro_rules | `(tactic| qleaf) => `(tactic| with_reducible apply PresA.rchInsert)
theorem PresA.rchMinHeight : Step.Pres HAh rchMinHeight := by unfold Engine.rchMinHeight; qpres
local macro_rules | `(tactic| qleaf) => `(tactic| with_reducible apply PresA.rchMinHeight)
theorem PresA.handleAfterStabilisation (n) : Step.Pres HAh (handleAfterStabilisation n) := by
  unfold Engine.handleAfterStabilisation; qpres
local macro_rules | `(tactic| qleaf) => `(tactic| with_reducible apply PresA.handleAfterStabilisation)
theorem PresA.maybeHandleAfterStabilisation (n) : Step.Pres HAh (maybeHandleAfterStabilisation n) := by
  unfold Engine.maybeHandleAfterStabilisation; qpres
local macro_rules | `(tactic| qleaf) => `(tactic| with_reducible apply PresA.maybeHandleAfterStabilisation)

theorem PresA.childChanged (env : Env) (fuel p c ci : Nat) (o : Option Val) :
    Step.Pres HAh (childChanged env fuel p c ci o) := by
  induction fuel generalizing p c ci o with
  | zero => unfold Engine.childChanged; qpres
  | succ fuel ih =>
    unfold Engine.childChanged
    qpres
    all_goals (apply Step.Pres.forIn; intro a b; qpres; exact ih _ _ _ _)
local macro_rules | `(tactic| qleaf) => `(tactic| with_reducible apply PresA.childChanged)

theorem PresA.parentIterCanRecomputeNow (p c : Nat) :
    Step.Pres HAh (parentIterCanRecomputeNow p c) := by
  unfold Engine.parentIterCanRecomputeNow; qpres
local macro_rules | `(tactic| qleaf) => `(tactic| with_reducible apply PresA.parentIterCanRecomputeNow)

theorem PresA.maybeChangeValueManual (env fuel n o d b) :
    Step.Pres HAh (maybeChangeValueManual env fuel n o d b) := by
  unfold Engine.maybeChangeValueManual
  qpres
  all_goals (apply Step.Pres.forIn; intro a b; qpres)
local macro_rules | `(tactic| qleaf) => `(tactic| with_reducible apply PresA.maybeChangeValueManual)

theorem PresA.maybeChangeValue (env fuel n v) : Step.Pres HAh (maybeChangeValue env fuel n v) := by
  unfold Engine.maybeChangeValue; qpres

theorem HAh.started (n : Nat) (s : State) : HAh s (Step.started n s) := by
  intro m; rw [started_nodeD]; split <;> rfl
theorem HAh.logged (es : List Event) (s : State) : HAh s (Step.logged es s) := fun _ => rfl

/-! ## the closed form of `recomputeOne` on the static kinds and on `bindMain` -/

/-- a successful `recomputeOne` on a necessary node of a static kind or of kind `bindMain` whose children have
values is `maybeChangeValue` run in a state `S0` that is `s` up to `recomputedAt` of `n`, the log, the counters and
`currentlyRunning` -/
theorem recomputeOne_closed {env : Env} {fuel n : Nat} {s s' : State} {r : Option Nat}
    (g : BGraph env s) (hn : s.isNecessary n = true)
    (hk : StaticKind env (s.nodeD n).kind ∨ ∃ b lc, (s.nodeD n).kind = .bindMain b lc)
    (hvals : ∀ c, c ∈ s.children n → ∃ v, (s.nodeD c).value = some v)
    (h : (recomputeOne env fuel n).run.run s = (.ok r, s')) :
    ∃ v S0, KeyD s S0 ∧ HAh s S0 ∧ (maybeChangeValue env fuel n v).run.run S0 = (.ok r, s') := by
  have hlt := BS.nec_lt hn
  have hv := (g.nec n hn).1
  have hnn := some_of_lt hlt
  have k1 := KeyD.started n s
  have a1 := HAh.started n s
  rcases hk with hk | ⟨b, lc, hkd⟩
  · obtain ⟨vals, hpv, hvo⟩ := BS.vals_of_children g hlt hv hk hvals
    cases hkd : (s.nodeD n).kind with
    | const w =>
      rw [recomputeOne_const_run env fuel n s _ w hnn hv hkd] at h
      exact ⟨_, _, k1, a1, h⟩
    | var c =>
      obtain ⟨vc, hvc⟩ := g.var n c hlt hv hkd
      rw [recomputeOne_var_run env fuel n s _ c vc hnn hv hkd hvc] at h
      exact ⟨_, _, k1, a1, h⟩
    | map f args =>
      rw [hkd] at hk hpv hvo
      by_cases hf : f < fnZip
      · rw [recomputeOne_map_run env fuel n s _ f args vals hnn hv hkd hf hvo (hk.2 hf vals) g.pc] at h
        exact ⟨_, _, k1.trans (KeyD.logged _ _), a1.trans (HAh.logged _ _), h⟩
      · rw [recomputeOne_mapBuiltin_run env fuel n s _ f args vals hnn hv hkd hf hk.1 hvo] at h
        exact ⟨_, _, k1, a1, h⟩
    | fold f init cs =>
      rw [hkd] at hpv hvo
      rw [recomputeOne_fold_run env fuel n s _ f init cs vals hnn hv hkd hvo g.pc] at h
      exact ⟨_, _, k1.trans (KeyD.logged _ _), a1.trans (HAh.logged _ _), h⟩
    | mapRef _ _ => rw [hkd] at hk; exact hk.elim
    | mapWithOld _ _ => rw [hkd] at hk; exact hk.elim
    | bindLhsChange _ => rw [hkd] at hk; exact hk.elim
    | bindMain _ _ => rw [hkd] at hk; exact hk.elim
    | expert _ => rw [hkd] at hk; exact hk.elim
  · obtain ⟨br, hbr, -, -, -⟩ := g.mainRec n b lc hlt hv hkd
    cases hr : br.rhs with
    | none =>
      obtain ⟨e, t, he⟩ := BS.recomputeOne_bindMain_norhs env fuel n s _ b lc br hnn hv hkd hbr hr
      rw [he] at h; cases h
    | some r0 =>
      have hch : s.children n = [lc, r0] := by
        simp only [State.children, BS.kind?_of_valid hv, hkd, hbr, hr]
      have hmem : r0 ∈ s.children n := by rw [hch]; simp
      obtain ⟨hrlt, hrv⟩ := (g.node n hlt hv).2.2 r0 hmem
      obtain ⟨v, hval⟩ := hvals r0 hmem
      have hval' : s.value env r0 = some v := by
        rw [value_plain env s r0 (BS.BKind.not_mapRef (g.node r0 hrlt hrv).1)]; exact hval
      rw [recomputeOne_bindMain_run env fuel n s _ b lc r0 br _ v hnn hv hkd hbr hr (some_of_lt hrlt) hrv
        hval'] at h
      exact ⟨_, _, k1, a1, h⟩

/-- the port of `Quiet.recomputeOne_keyD` to graphs with binds: static kinds and `bindMain` -/
theorem recomputeOne_keyD_B {env : Env} {fuel n : Nat} {s s' : State} {r : Option Nat}
    (g : BGraph env s) (hn : s.isNecessary n = true)
    (hk : StaticKind env (s.nodeD n).kind ∨ ∃ b lc, (s.nodeD n).kind = .bindMain b lc)
    (hvals : ∀ c, c ∈ s.children n → ∃ v, (s.nodeD c).value = some v)
    (h : (recomputeOne env fuel n).run.run s = (.ok r, s')) : KeyD s s' := by
  obtain ⟨v, S0, k0, -, h0⟩ := recomputeOne_closed g hn hk hvals h
  exact k0.trans ((PresK.maybeChangeValue env fuel n v).h S0 _ s' h0)

/-- no `heightInAhh` marker changes -/
theorem recomputeOne_hah {env : Env} {fuel n : Nat} {s s' : State} {r : Option Nat}
    (g : BGraph env s) (hn : s.isNecessary n = true)
    (hk : StaticKind env (s.nodeD n).kind ∨ ∃ b lc, (s.nodeD n).kind = .bindMain b lc)
    (hvals : ∀ c, c ∈ s.children n → ∃ v, (s.nodeD c).value = some v)
    (h : (recomputeOne env fuel n).run.run s = (.ok r, s')) : HAh s s' := by
  obtain ⟨v, S0, -, a0, h0⟩ := recomputeOne_closed g hn hk hvals h
  exact a0.trans ((PresA.maybeChangeValue env fuel n v).h S0 _ s' h0)

end BF
end IncrVerif.Proofs.BindH
