import IncrVerif.Proofs.GenF4
/-!
# C03, combined fragment, part 5: the generation that dies in a `stabilise` does not run in it; dead nodes are not observed; a Boolean test for `Dead`

* `stabilise_dying`: a node registered in bind `b`'s list when `stabilise` is called and not registered in it when `stabilise` returns is dead and invalid in the final state
  and is NOT in the drain trace of this `stabilise` — neither before nor after the run of the change detector (`OnceStab`: every node of the trace is still valid at the end).
* `step_unreg_dead`: the same at the granularity of one `recomputeOne` from the drain invariant (whatever its outcome).
* `dead_not_observed`: between API actions no observer record names a dead node (observers watch top-level nodes: `QInv2.obsTop`).
* `deadB`: Boolean version of `Dead` (`deadB_iff`).
-/
namespace IncrVerif.Proofs.GenF
open IncrVerif.Engine IncrVerif.Driver IncrVerif.Proofs IncrVerif.Proofs.Step IncrVerif.Proofs.Sched IncrVerif.Proofs.Quiet
open IncrVerif.Proofs.FullH IncrVerif.Proofs.TidyH IncrVerif.Proofs.OnceF

/-- the generation that dies in the run `s → s'` of `stabilise env fuel` -/
def DyingStab (env : Env) (fuel : Nat) (s s' : State) : Prop :=
  ∃ t1 t2 t3,
    (addNewObservers env fuel).run.run { s with status := .stabilising } = (.ok (), t1) ∧
    (unlinkDisallowedObservers fuel).run.run t1 = (.ok (), t2) ∧
    (drainHeap env fuel).run.run t2 = (.ok (), t3) ∧ (stabiliseEnd env fuel).run.run t3 = (.ok (), s') ∧
    ∀ b m, Reg s b m → ¬ Reg s' b m →
      Dead s' m ∧ (s'.nodeD m).valid = false ∧ m ∉ drainTrace env fuel t2

section
variable {env : Env} {sp : Nat → Val → Val}

theorem stabilise_dying (E : EnvS env sp) (hF : FirstFn env) {fuel : Nat} {s s' : State} (Q : QInvFE env sp s)
    (h : (stabilise env fuel).run.run s = (.ok (), s')) : DyingStab env fuel s s' := by
  obtain ⟨-, -, Q'⟩ := stabilise_c02 E hF Q h
  obtain ⟨t1, t2, t3, h1, h2, h3, h4, -, -, -, hend, -⟩ := stabilise_noDead E hF Q h
  refine ⟨t1, t2, t3, h1, h2, h3, h4, fun b m hr hu => ?_⟩
  obtain ⟨hn, -, hc⟩ := reg_facts_q Q hr
  have K := (CK.PresCK.stabilise env fuel).h s _ s' h
  obtain ⟨br, hb, -⟩ := hr
  obtain ⟨br', hb', -, -⟩ := K.binds b br hb
  have D : Dead s' m := ⟨Nat.lt_of_lt_of_le hn K.size, b, br', by rw [K.cin m hn]; exact hc, hb', fun hm => hu ⟨br', hb', hm⟩⟩
  exact ⟨D, dead_invalid_q Q' D, fun hm => hend m hm D⟩

/-- one `recomputeOne` from the drain invariant, whatever its outcome: a node registered before and not registered after is dead after -/
theorem step_unreg_dead {fuel n : Nat} {t s s' : State} {g : Nat → Option Val} {x : Option Nat} {r : Except Panic (Option Nat)}
    (D : DInvF env sp t s g x) (h : (recomputeOne env fuel n).run.run s = (r, s')) {b m : Nat} (hr : Reg s b m) (hu : ¬ Reg s' b m) :
    Dead s' m := by
  obtain ⟨rk, A⟩ := all2_of_d D
  obtain ⟨hn, -, hc⟩ := reg_facts_all2 A hr
  have K := (CK.PresCK.recomputeOne env fuel n).h s r s' h
  obtain ⟨br, hb, -⟩ := hr
  obtain ⟨br', hb', -, -⟩ := K.binds b br hb
  exact ⟨Nat.lt_of_lt_of_le hn K.size, b, br', by rw [K.cin m hn]; exact hc, hb', fun hm => hu ⟨br', hb', hm⟩⟩

/-- between API actions no observer record names a dead node -/
theorem dead_not_observed {s : State} {n : Nat} (Q : QInvFE env sp s) (hd : Dead s n) :
    ∀ (o : Nat) (ob : ObsRec), s.observers[o]? = some ob → ob.node ≠ n := by
  intro o ob ho e
  obtain ⟨g, Q⟩ := Q
  obtain ⟨⟨rk, Qv⟩, -⟩ := Q.q
  have := (Qv.obsTop o ob ho).1
  rw [virt_nodeD, virtNode_createdIn, e] at this
  obtain ⟨-, b, br, hc, -, -⟩ := hd
  rw [hc] at this; cases this

/-- the generation that dies in a `stabilise`, at every `stabilise` of every history of the combined fragment -/
theorem history_dying (E : EnvS env sp) (hF : FirstFn env) {N : Nat} {d : Bool} {as bs : List Action}
    {s : State} {tk : Array Nat} (hH : HistFull env sp 0 (as ++ Action.stabilise :: bs))
    (h : Quiet.runActions env (as ++ Action.stabilise :: bs) (State.init N d) #[] = .ok (s, tk)) :
    ∃ s1 tk1 s2, Quiet.runActions env as (State.init N d) #[] = .ok (s1, tk1) ∧
      (stabilise env fuelDefault).run.run s1 = (.ok (), s2) ∧ DyingStab env fuelDefault s1 s2 ∧
      Quiet.runActions env bs s2 tk1 = .ok (s, tk) := by
  obtain ⟨s1, tk1, s2, h1, Q1, hst, -, -, -, h2⟩ := history_c02 E hF hH h
  exact ⟨s1, tk1, s2, h1, hst, stabilise_dying E hF Q1 hst, h2⟩

end

/-- Boolean version of `Dead` -/
def deadB (s : State) (n : Nat) : Bool :=
  decide (n < s.nodes.size) &&
    match (s.nodeD n).createdIn with
    | .bind b => (match s.binds[b]? with
      | some br => !(br.allNodesCreatedOnRhs.contains n)
      | none => false)
    | .top => false

theorem deadB_iff (s : State) (n : Nat) : deadB s n = true ↔ Dead s n := by
  unfold deadB Dead
  constructor
  · intro h
    rw [Bool.and_eq_true, decide_eq_true_eq] at h
    obtain ⟨h1, h2⟩ := h
    refine ⟨h1, ?_⟩
    cases hc : (s.nodeD n).createdIn with
    | top => rw [hc] at h2; cases h2
    | bind b =>
      rw [hc] at h2
      cases hb : s.binds[b]? with
      | none => simp only [hb] at h2; cases h2
      | some br =>
        simp only [hb] at h2
        refine ⟨b, br, rfl, hb, fun hm => ?_⟩
        have : br.allNodesCreatedOnRhs.contains n = true := List.contains_iff_mem.2 hm
        rw [this] at h2; cases h2
  · rintro ⟨h1, b, br, hc, hb, hm⟩
    rw [Bool.and_eq_true, decide_eq_true_eq]
    refine ⟨h1, ?_⟩
    rw [hc]
    simp only [hb]
    cases hx : br.allNodesCreatedOnRhs.contains n with
    | false => rfl
    | true => exact absurd (List.contains_iff_mem.1 hx) hm

end IncrVerif.Proofs.GenF
