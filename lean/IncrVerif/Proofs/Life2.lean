import IncrVerif.Proofs.Life1
/-!
# Observer lifecycle over whole histories, part 2: effects, recompute, handlers; the two observer
phases, `stabilise` and every API action

* generic in `R` (`ObsLocal R`): operator closures, `childChanged`, `maybeChangeValue`, …
* `DisLocal R`: `ObsLocal R` for which `disallow_future_use` is a step; then everything user effects can
  do is a step: `runEffects`, `recomputeOne`, `recompute`, `drainHeap` (generic in `R`).
* `Pres Dis` for `runAll`, `stabiliseEnd`; `Pres Life` for `addNewObservers`,
  `unlinkDisallowedObservers`, `stabilise`, `stepAction` (every action).
-/
namespace IncrVerif.Proofs.Life
open IncrVerif.Engine IncrVerif.Proofs.Obs

/-! ## operator closures, change propagation: generic in the relation -/
section
variable {R : State → State → Prop} [ObsLocal R]
theorem PresD.expertValue (env e d sl) : Pres R (expertValue env e d sl) := by
  unfold Engine.expertValue; lpres
life_leaf PresD.expertValue
theorem PresD.withOldEvents (env g n σ old x new did) :
    Pres R (withOldEvents env g n σ old x new did) := by
  unfold Engine.withOldEvents; lpres
life_leaf PresD.withOldEvents
set_option maxHeartbeats 1000000 in
theorem PresD.perKeyDriver (env fuel op m) : Pres R (perKeyDriver env fuel op m) := by
  unfold Engine.perKeyDriver; lpres
life_leaf PresD.perKeyDriver

theorem PresD.childChanged (env fuel p c ci o) : Pres R (childChanged env fuel p c ci o) := by
  induction fuel generalizing p c ci o with
  | zero => unfold Engine.childChanged; lpres
  | succ fuel ih => unfold Engine.childChanged; lpres; all_goals exact ih _ _ _ _
life_leaf PresD.childChanged
theorem PresD.parentIterCanRecomputeNow (p c) : Pres R (parentIterCanRecomputeNow p c) := by
  unfold Engine.parentIterCanRecomputeNow; lpres
life_leaf PresD.parentIterCanRecomputeNow
theorem PresD.maybeChangeValueManual (env fuel n o d b) :
    Pres R (maybeChangeValueManual env fuel n o d b) := by
  unfold Engine.maybeChangeValueManual; lpres
life_leaf PresD.maybeChangeValueManual
theorem PresD.maybeChangeValue (env fuel n v) : Pres R (maybeChangeValue env fuel n v) := by
  unfold Engine.maybeChangeValue; lpres
life_leaf PresD.maybeChangeValue
end

/-! ## `disallow_future_use` is the one `Dis` step that moves a state -/

theorem run_bumpCounter (f : Counters → Counters) (s : State) :
    (bumpCounter f).run.run s = (.ok (), { s with counters := f s.counters }) := rfl
theorem run_modObs (o : Nat) (f : ObsRec → ObsRec) (s : State) :
    (modObs o f).run.run s = (.ok (), { s with observers := s.observers.modify o f }) := rfl

/-- the state after `disallow_future_use o` on an in-use observer -/
def afterDisInUse (s : State) (o : Nat) : State :=
  { s with
    counters := { s.counters with activeObservers := s.counters.activeObservers - 1 },
    observers := s.observers.modify o fun x => { x with state := .disallowed },
    disallowedObservers := s.disallowedObservers ++ [o] }

/-- the state after `disallow_future_use o` on a created observer -/
def afterDisCreated (s : State) (o : Nat) : State :=
  { s with
    counters := { s.counters with activeObservers := s.counters.activeObservers - 1 },
    observers := s.observers.modify o fun x => { x with state := .unlinked, handlers := [] } }

/-- `disallow_future_use`, in closed form -/
theorem disallowFutureUse_run (s : State) (o : Nat) :
    (disallowFutureUse o).run.run s =
      match s.observers[o]? with
      | none => (.error (.site "model:no-such-observer"), s)
      | some ob => match ob.state with
        | .created => (.ok (), afterDisCreated s o)
        | .inUse => (.ok (), afterDisInUse s o)
        | .disallowed => (.ok (), s)
        | .unlinked => (.ok (), s) := by
  cases h : s.observers[o]? with
  | none => exact disallow_out_of_range s o h
  | some ob =>
    unfold disallowFutureUse
    rw [run_bind_ok (run_getObs_some h)]
    cases hst : ob.state <;>
      simp only [hst, run_bind, run_bumpCounter, run_modObs, run_modify, run_pure] <;> rfl

theorem Dis.disInUse (s : State) (o : Nat) (ob : ObsRec) (h : s.observers[o]? = some ob)
    (hst : ob.state = .inUse) : Dis s (afterDisInUse s o) := by
  have hmod : ∀ m, (afterDisInUse s o).observers[m]? =
      if o = m then (s.observers[m]?).map (fun x => { x with state := .disallowed })
      else s.observers[m]? := by
    intro m; simp only [afterDisInUse, Array.getElem?_modify]
  refine ⟨by simp [afterDisInUse], fun m x e => ?_, rfl, [o], rfl, by simp, fun m => ?_⟩
  · rw [hmod]
    split
    · rename_i hm; subst hm
      rw [e]
      rw [h] at e; cases e
      exact ⟨_, rfl, rfl, rfl, .inr (by rw [hst]; rfl), .inl rfl⟩
    · exact ⟨x, e, RecDis.refl _⟩
  · constructor
    · intro hm
      have hm : m = o := by simpa using hm
      subst hm
      exact ⟨ob, _, h, by rw [hmod, if_pos rfl, h]; rfl, hst, rfl⟩
    · rintro ⟨x, x', e, e', u, d⟩
      rw [hmod] at e'
      split at e'
      · rename_i hm; simp [hm]
      · rw [e] at e'; cases e'; rw [u] at d; cases d

theorem Dis.disCreated (s : State) (o : Nat) (ob : ObsRec) (h : s.observers[o]? = some ob)
    (hst : ob.state = .created) : Dis s (afterDisCreated s o) := by
  have hmod : ∀ m, (afterDisCreated s o).observers[m]? =
      if o = m then (s.observers[m]?).map (fun x => { x with state := .unlinked, handlers := [] })
      else s.observers[m]? := by
    intro m; simp only [afterDisCreated, Array.getElem?_modify]
  refine ⟨by simp [afterDisCreated], fun m x e => ?_, rfl, [], by simp [afterDisCreated],
    List.nodup_nil, fun m => ⟨fun hm => absurd hm List.not_mem_nil, ?_⟩⟩
  · rw [hmod]
    split
    · rename_i hm; subst hm
      rw [e]
      rw [h] at e; cases e
      exact ⟨_, rfl, rfl, rfl, .inr (by rw [hst]; rfl), .inr ⟨hst, rfl, rfl⟩⟩
    · exact ⟨x, e, RecDis.refl _⟩
  · rintro ⟨x, x', e, e', u, d⟩
    rw [hmod] at e'
    split at e'
    · rename_i hm; subst hm
      rw [e] at e'; cases e'; cases d
    · rw [e] at e'; cases e'; rw [u] at d; cases d

theorem PresD.disallowFutureUse (o) : Pres Dis (disallowFutureUse o) := by
  constructor
  intro s r s' h
  rw [disallowFutureUse_run] at h
  split at h
  · cases h; exact Dis.refl _
  · rename_i ob hob
    split at h <;> cases h
    · rename_i hst; exact Dis.disCreated s o ob hob hst
    · rename_i hst; exact Dis.disInUse s o ob hob hst
    · exact Dis.refl _
    · exact Dis.refl _

/-- relations for which `disallow_future_use` is a step: everything user effects can do is then a step -/
class DisLocal (R : State → State → Prop) : Prop extends ObsLocal R where
  disallow : ∀ o, Pres R (disallowFutureUse o)

instance : DisLocal Dis := ⟨PresD.disallowFutureUse⟩

theorem PresE.disallowFutureUse {R : State → State → Prop} [DisLocal R] (o) :
    Pres R (disallowFutureUse o) := DisLocal.disallow o
life_leaf PresE.disallowFutureUse

/-- `Dis` does not look at the log -/
theorem PresD.logEv_any (e) : Pres Dis (Engine.logEv e) := by
  unfold Engine.logEv; exact Pres.modify fun _ => Dis.of_eq rfl rfl rfl
life_leaf PresD.logEv_any

/-! ## effects, recompute: generic in the relation -/
section
variable {R : State → State → Prop} [DisLocal R]
theorem PresD.runEffectBasic (env e) : Pres R (runEffectBasic env e) := by
  unfold Engine.runEffectBasic; lpres
life_leaf PresD.runEffectBasic
theorem PresD.runEffects (env fuel effs arg) : Pres R (runEffects env fuel effs arg) := by
  unfold Engine.runEffects; lpres
life_leaf PresD.runEffects
set_option maxHeartbeats 1000000 in
theorem PresD.recomputeOne (env fuel n) : Pres R (recomputeOne env fuel n) := by
  unfold Engine.recomputeOne; lpres
life_leaf PresD.recomputeOne
theorem PresD.recompute (env fuel n) : Pres R (recompute env fuel n) := by
  induction fuel generalizing n with
  | zero => unfold Engine.recompute; lpres
  | succ fuel ih => unfold Engine.recompute; lpres; all_goals exact ih _
life_leaf PresD.recompute
theorem PresD.drainHeap (env fuel) : Pres R (drainHeap env fuel) := by
  induction fuel with
  | zero => unfold Engine.drainHeap; lpres
  | succ fuel ih => unfold Engine.drainHeap; lpres; all_goals exact ih
life_leaf PresD.drainHeap
end

/-! ## handlers -/

/-- the `prev` update of `run_all` keeps every registration -/
theorem RecDis.setPrev (x : ObsRec) (g : HandlerRec → HandlerRec) (hg : ∀ h, hkey (g h) = hkey h) :
    RecDis x { x with handlers := x.handlers.map g } := by
  refine ⟨rfl, rfl, .inl rfl, .inl ?_⟩
  simp only [List.map_map]
  exact List.map_congr_left fun h _ => hg h

theorem PresD.modObs_setPrev (o : Nat) (g : HandlerRec → HandlerRec) (hg : ∀ h, hkey (g h) = hkey h) :
    Pres Dis (modObs o fun x => { x with handlers := x.handlers.map g }) := by
  unfold Engine.modObs
  refine Pres.modify fun s => Dis.modObs s o _ fun x => ⟨RecDis.setPrev x g hg, ?_⟩
  rintro ⟨u, d⟩
  rw [u] at d; cases d

macro_rules
  | `(tactic| lleaf) =>
    `(tactic| ((with_reducible apply PresD.modObs_setPrev); intro h; dsimp only [hkey]; split <;> rfl))

theorem PresD.runAll (env fuel o n nu now) : Pres Dis (runAll env fuel o n nu now) := by
  unfold Engine.runAll; lpres
life_leaf PresD.runAll
theorem PresD.stabiliseEnd (env fuel) : Pres Dis (stabiliseEnd env fuel) := by
  unfold Engine.stabiliseEnd; lpres
life_leaf PresD.stabiliseEnd

/-! ## `Life` for everything -/

theorem PresL.ofDis {α} {m : M α} (h : Pres Dis m) : Pres Life m := h.mono fun _ _ q => q.life
theorem PresL.ofFrameS {α} {m : M α} (h : Pres FrameS m) : Pres Life m :=
  h.mono fun _ _ q => Life.of_frame q.toFrame

macro_rules | `(tactic| lleaf) => `(tactic| ((with_reducible apply PresL.ofDis); lleaf))
macro_rules
  | `(tactic| lleaf) =>
    `(tactic| ((with_reducible apply Pres.modify); intro _; exact Life.of_eq rfl))

theorem Life.of_push {s s' : State} (ob : ObsRec) (h : s'.observers = s.observers.push ob) :
    Life s s' := by
  refine ⟨by simp [h], fun m x e => ?_⟩
  have hlt : m < s.observers.size := (Array.getElem?_eq_some_iff.1 e).1
  refine ⟨x, ?_, rfl, lifeLe_refl _⟩
  simp [h, Array.getElem?_push, Nat.ne_of_lt hlt, e]

theorem lifeLe_unlinked (a : ObsState) : lifeLe a .unlinked := by cases a <;> decide

theorem PresL.modObs (o : Nat) (f : ObsRec → ObsRec)
    (hf : ∀ x, (f x).node = x.node ∧ lifeLe x.state (f x).state) : Pres Life (modObs o f) := by
  unfold Engine.modObs; exact Pres.modify fun s => Life.modObs s o f hf

macro_rules
  | `(tactic| lleaf) =>
    `(tactic| ((with_reducible apply PresL.modObs); intro x; exact ⟨rfl, by first | exact lifeLe_refl _ | exact lifeLe_unlinked _⟩))

/-- the first half of the loop body of `add_new_observers`: created ↦ in use -/
theorem PresL.getObs_match {β} (o : Nat) (k1 k2 : M β) (k3 : M β) (f : ObsRec → ObsRec)
    (k4 : ObsRec → M β)
    (hf : ∀ x : ObsRec, x.state = .created → (f x).node = x.node ∧ lifeLe x.state (f x).state)
    (h1 : Pres Life k1) (h2 : Pres Life k2) (h3 : Pres Life k3) (h4 : ∀ ob, Pres Life (k4 ob)) :
    Pres Life (getObs o >>= fun ob => match ob.state with
      | .inUse => k1 | .disallowed => k2 | .unlinked => k3
      | .created => Engine.modObs o f >>= fun _ => k4 ob) := by
  constructor
  intro s r s' h
  cases hob : s.observers[o]? with
  | none => rw [run_bind_error (run_getObs_none hob)] at h; cases h; exact Life.refl _
  | some ob =>
    rw [run_bind_ok (run_getObs_some hob)] at h
    cases hst : ob.state <;> simp only [hst] at h
    · rw [run_bind, run_modObs] at h
      refine Life.trans ?_ ((h4 ob).h _ _ _ h)
      refine ⟨by simp, fun m x e => ?_⟩
      simp only [Array.getElem?_modify, e]
      split
      · rename_i hm; subst hm
        rw [hob] at e; cases e
        exact ⟨f ob, rfl, (hf ob hst).1, (hf ob hst).2⟩
      · exact ⟨x, rfl, rfl, lifeLe_refl _⟩
    · exact h1.h _ _ _ h
    · exact h2.h _ _ _ h
    · exact h3.h _ _ _ h

/-- `add_new_observers`: created ↦ in use -/
theorem PresL.addNewObservers (env fuel) : Pres Life (addNewObservers env fuel) := by
  unfold Engine.addNewObservers
  apply Pres.bind Pres.get; intro _
  apply Pres.bind
  · lpres
  intro _
  apply Pres.bind _ (fun _ => Pres.pure _)
  apply Pres.forIn; intro o _
  refine PresL.getObs_match o _ _ _ _ _ (fun x hx => ⟨rfl, by rw [hx]; exact (by decide : lifeLe .created .inUse)⟩) ?_ ?_ ?_ fun ob => ?_
  all_goals lpres
/-- `unlink_disallowed_observers`: (disallowed) ↦ unlinked -/
theorem PresL.unlinkDisallowedObservers (fuel) : Pres Life (unlinkDisallowedObservers fuel) := by
  unfold Engine.unlinkDisallowedObservers; lpres
life_leaf PresL.addNewObservers
life_leaf PresL.unlinkDisallowedObservers

theorem PresL.stabilise (env fuel) : Pres Life (stabilise env fuel) := by
  unfold Engine.stabilise; lpres
life_leaf PresL.stabilise

theorem PresL.subscribe (o h) : Pres Life (subscribe o h) := PresL.ofFrameS (Pres.subscribe o h)
theorem PresL.unsubscribe (o t w) : Pres Life (unsubscribe o t w) :=
  PresL.ofFrameS (Pres.unsubscribe o t w)
life_leaf PresL.subscribe
life_leaf PresL.unsubscribe

macro_rules
  | `(tactic| lleaf) =>
    `(tactic| ((with_reducible apply Pres.modify); intro _; exact Life.of_push _ rfl))

/-- every API action, every outcome -/
theorem PresL.stepAction (env : Env) (a : Action) (tokens : Array Nat) :
    Pres Life (stepAction env a tokens) := by
  cases a <;> (simp only [Engine.stepAction]; lpres)

end IncrVerif.Proofs.Life
