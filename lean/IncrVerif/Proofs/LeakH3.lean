import IncrVerif.Proofs.LeakH2
import IncrVerif.Proofs.Life5
/-!
# C12 over histories, part 3: what one `stabilise` leaves of the ownership roots

`stabilise_q` (`Proofs/Quiet16.lean`) with dead variables allowed: from the quiescent invariant of `strip s`,
a `stabilise` that returns keeps the program's handles and the shared cells, applies `break_rc_cycle` to the
dead variables, empties the recompute heap, keeps every observer's clone count and moves its lifecycle state by
`stabilisedState`.
-/
namespace IncrVerif.Proofs.LeakH
open IncrVerif.Engine IncrVerif.Driver IncrVerif.Proofs IncrVerif.Proofs.Step IncrVerif.Proofs.Sched
open IncrVerif.Proofs.Quiet

theorem flatten_of_bucketSum_zero (q : Array (List Nat)) (h : bucketSum q = 0) : q.toList.flatten = [] := by
  rw [List.flatten_eq_nil_iff]
  intro x hx
  obtain ⟨i, hi, e⟩ := List.getElem_of_mem hx
  have hi' : i < q.size := by simpa using hi
  have := bucketSum_zero_mem q h i hi'
  rw [← e]
  simpa using this

/-- what a `stabilise` leaves of the fields read by `State.roots` -/
structure Freed (s s' : State) : Prop where
  handles : s'.handles = s.handles
  slots : s'.slots = s.slots
  vars : s'.vars = killVars s.deadVars s.vars
  heap : s'.rch.queues.toList.flatten = []
  obsSize : s'.observers.size = s.observers.size
  obs : ∀ (o : Nat) (ob : ObsRec), s.observers[o]? = some ob →
    ∃ ob', s'.observers[o]? = some ob' ∧ ob'.node = ob.node ∧ ob'.clones = ob.clones ∧
      ob'.state = stabilisedState ob.state

set_option maxHeartbeats 800000 in
theorem stabilise_freed {env : Env} {fuel : Nat} {s s' : State} (Q : QInv env (strip s))
    (h : (stabilise env fuel).run.run s = (.ok (), s')) : Freed s s' := by
  have hspec := IncrVerif.Proofs.Life.stabilise_spec env fuel s s' h
  unfold stabilise at h
  rw [run_bind_get] at h
  obtain ⟨_, sa, ha, h⟩ := bind_ok_inv h
  have hsa : sa = s := by
    rw [run_assertM] at ha
    split at ha <;> cases ha
    rfl
  rw [hsa] at h
  obtain ⟨s0, hs0, h⟩ := bind_modify_inv h
  obtain ⟨_, t1, h1, h⟩ := bind_ok_inv h
  obtain ⟨_, t2, h2, h⟩ := bind_ok_inv h
  obtain ⟨_, t3, h3, h4⟩ := bind_ok_inv h
  have hv : VEq (strip s).vars s.vars := veq_strip s.vars
  have hnd0 : ∀ m, s0.nodeD m = (strip s).nodeD m := fun m => by rw [hs0]; rfl
  have hsz0 : s0.nodes.size = (strip s).nodes.size := by rw [hs0]; rfl
  have hvars0 : s0.vars = s.vars := by rw [hs0]
  have hv0 : VEq (strip s).vars s0.vars := by rw [hvars0]; exact hv
  have hstab0 : s0.stabNum = (strip s).stabNum := by rw [hs0]; rfl
  have S0s : Struct env s0 := by
    rw [hs0]
    exact (ginv_vars Q.struct hv).congr (SameG.of_nodes rfl rfl rfl rfl rfl)
  have S0 : SInv env s0 s0.newObservers s0.disallowedObservers := by
    refine ⟨S0s, ?_, ?_, ?_⟩
    · rw [hs0]
      exact ⟨Q.obs.inRange, Q.obs.mem, Q.obs.created, Q.obs.newIn, Q.obs.dis, Q.obs.disIn, Q.obs.disNodup⟩
    · rw [hs0]; exact Q.pinv
    · intro m; rw [hnd0]; exact Q.handlers m
  -- the prefix
  obtain ⟨S1, hn1, hd1, F1, O1, N1⟩ := addNewObservers_s S0 h1
  obtain ⟨S2, hn2, hd2, F2, O2⟩ := unlinkDisallowedObservers_s S1 hn1 h2
  have F : PFrame s0 t2 := F1.trans F2
  have V0 : VarsOK s0 := varsOK_veq hsz0 hnd0 hv0 Q.vars
  have V2 : VarsOK t2 := F.varsOK V0
  have st2 : ∀ m, (t2.nodeD m).recomputedAt < t2.stabNum ∧ (t2.nodeD m).changedAt < t2.stabNum := by
    intro m
    rw [F.recomputedAt, F.changedAt, F.stabNum, hstab0, hnd0]; exact Q.stamps m
  have cons2 : ∀ m, m < t2.nodes.size → staleOf t2 m = false → Consistent env t2 m := by
    intro m hm hs
    rw [F.staleOf, staleOf_veq hnd0 hv0] at hs
    have hc := Q.cons m (by rw [← hsz0, ← F.size]; exact hm) hs
    exact F.consistent (consistent_veq hnd0 hv0 hc)
  have D2 : DrainInv env t2 :=
    drainInv_of S2.struct V2 (by rw [F.stabNum, hstab0]; exact Q.now) st2
      (fun c vc hc => by
        rw [F.vars] at hc
        obtain ⟨vc0, h0, -, -, e⟩ := hv0.get_some hc
        rw [F.stabNum, hstab0, ← e]; exact Q.varStamp c vc0 h0) cons2
  -- the drain
  obtain ⟨D3, he3, f3⟩ := drainHeap_inv fuel t2 t3 D2 h3
  have c3 := drainHeap_calm fuel t2 t3 D2 h3
  have k3 := drainHeap_keyD D2 h3
  simp only [stateKeyD, Prod.mk.injEq] at k3
  obtain ⟨k_obs, k_all, k_scope, k_top, k_handles, k_alive, k_pinv, k_binds, k_memos, k_slots, k_ahh⟩ := k3
  obtain ⟨f_vars, -, -, -, -, f_sds, f_dead, -, f_handles, -, -, -, -, -, f_slots⟩ := F.sk
  -- the end
  have E := stabiliseEnd_dead (env := env) (fuel := fuel) (s := t3) (s' := s')
    (by rw [c3.setDuringStab, f_sds, hs0]; exact Q.setDuringStab)
    (by intro o ob ho; rw [k_obs] at ho; exact (S2.obs.inRange o ob ho).2) h4
  have hobs' : s'.observers = t2.observers := by rw [E.observers, k_obs]
  refine ⟨?_, ?_, ?_, ?_, ?_, ?_⟩
  · rw [E.handles, k_handles, f_handles, hs0]
  · rw [E.slots, k_slots, f_slots, hs0]
  · rw [E.vars, c3.deadVars, f_dead, f3.vars, f_vars, hs0]
  · rw [E.rch]
    exact flatten_of_bucketSum_zero _ (by rw [← D3.heap.wf.length]; exact he3)
  · rw [hobs', O2.1, O1.1, hs0]
  · intro o ob ho
    have ho0 : s0.observers[o]? = some ob := by rw [hs0]; exact ho
    obtain ⟨ob1, h1o, h1n, h1s⟩ := O1.2 o ob ho0
    obtain ⟨ob2, h2o, h2n, h2s⟩ := O2.2 o ob1 h1o
    obtain ⟨ob', ho', -, hcl, -⟩ := hspec.2.2.2.2.1 o ob ho
    have e : ob' = ob2 := by
      rw [hobs', h2o] at ho'
      exact (Option.some.inj ho').symm
    exact ⟨ob2, by rw [hobs']; exact h2o, by rw [h2n, h1n], by rw [← e]; exact hcl,
      by rw [h2s, h1s, stabilisedState_eq]⟩

end IncrVerif.Proofs.LeakH
