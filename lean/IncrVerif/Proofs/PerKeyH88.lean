import IncrVerif.Proofs.PerKeyH87
/-!
# Per-key operators, API actions part 5: creation of a static node keeps `PQ`; all static actions (`action_static_p`)
-/
namespace IncrVerif.Proofs.PerKeyH
open IncrVerif.Engine IncrVerif.Driver IncrVerif.Proofs IncrVerif.Proofs.Step IncrVerif.Proofs.Sched
open IncrVerif.Proofs.ExpertH IncrVerif.Proofs.EffH IncrVerif.Proofs.DriverH

theorem kidsX_plain (xs : Array ExpertRec) {k : Kind} (h : PlainKind k) : kidsX xs k = kids k := by
  cases k <;> first | rfl | exact h.elim

theorem CF.kf {k : Kind} {s s' : State} (C : CF k s s') : KF s s' :=
  ⟨by rw [C.size]; omega, fun m hm => by rw [C.nodeD_lt hm],
    fun e er he => ⟨er, by rw [C.experts]; exact he, rfl⟩, fun j n h => C.top_old h,
    fun m hm => by rw [C.nodeD_lt hm, C.experts],
    fun m e hm hk hs => V_stamp_keep hk (by rw [C.nodeD_lt hm]) (by rw [C.nodeD_lt hm]) (by rw [C.experts]; exact id) hs⟩

theorem PFrag.of_cf {env : Env} {k : Kind} {s s' : State} (P : PFrag env s) (C : CF k s s') (hk : PKind env k)
    (hp : PlainKind k) : PFrag env s' := by
  have hsz := C.size
  have hnew := C.nodeD_new
  refine ⟨by rw [C.panicCountdown]; exact P.pc, fun n hn => ?_, fun n hn => ?_, fun n hn => ?_, fun n hn => ?_,
    fun n hn => ?_, fun n e hn hke => ?_, fun e er he => ?_, fun e er he => ?_, by rw [C.currentScope]; exact P.scope⟩
  all_goals try (by_cases e0 : n = s.nodes.size)
  · rw [e0, hnew]; exact hk
  · rw [C.nodeD_old e0]; exact P.kind n (by omega)
  · rw [e0, hnew]; rfl
  · rw [C.nodeD_old e0]; exact P.valid n (by omega)
  · rw [e0, hnew]; rfl
  · rw [C.nodeD_old e0]; exact P.cutoff n (by omega)
  · rw [e0, hnew]; rfl
  · rw [C.nodeD_old e0]; exact P.top n (by omega)
  · rw [e0, hnew]; rfl
  · rw [C.nodeD_old e0]; exact P.force n (by omega)
  · rw [e0, hnew] at hke
    have : k = .expert e := hke
    rw [this] at hp; exact hp.elim
  · rw [C.nodeD_old e0] at hke; rw [C.experts]; exact P.xrec n e (by omega) hke
  · rw [C.experts] at he
    obtain ⟨h1, h2⟩ := P.xnode e er he
    exact ⟨by omega, by rw [C.nodeD_lt h1]; exact h2⟩
  · rw [C.experts] at he; exact P.xok e er he

theorem ahhEmpty_of_cf {k : Kind} {s s' : State} (A : QR.AhhEmpty s) (C : CF k s s') : QR.AhhEmpty s' := by
  refine ⟨by rw [C.ahh]; exact A.length, by rw [C.ahh]; exact A.buckets, fun m => ?_⟩
  by_cases e : m = s.nodes.size
  · rw [e, C.nodeD_new]; rfl
  · rw [C.nodeD_old e]; exact A.marks m

theorem PKOK.of_cf {env : Env} {k : Kind} {s s' : State} (P : PKOK env s) (C : CF k s s') (hp : PlainKind k)
    (hkids : ∀ c, c ∈ kids k → ∃ j : Nat, s.top[j]? = some c)
    (hin : ∀ n c, n < s.nodes.size → c ∈ kidsX s.experts (s.nodeD n).kind → c < s.nodes.size)
    (htop : ∀ (j n : Nat), s.top[j]? = some n → n < s.nodes.size) : PKOK env s' := by
  have hsz := C.size
  have hnewk : kidsX s'.experts (s'.nodeD s.nodes.size).kind = kids k := by
    rw [C.nodeD_new]; exact kidsX_plain _ hp
  refine ⟨fun op pr hpr => ?_, ?_, ?_, fun n f args hn hk hf => ?_, fun o ob ho => ?_, fun op pr hpr v hv => ?_⟩
  · rw [C.perkeys] at hpr
    have h := P.ops op pr hpr
    obtain ⟨x, e, er, hN, -⟩ := h.nodes
    have hlt := hN.lt
    refine h.of_frame C.kf (fun c x h1 h2 hx => ?_) (fun x hx ho => by rw [C.nodeD_lt hx]; exact ho)
      (fun j x hj => ?_) fun hs => ?_
    · have : c = s.nodes.size := by omega
      rw [this, hnewk] at hx
      obtain ⟨j, hj⟩ := hkids x hx
      exact h.privTop j x hj
    · rcases C.top_inv hj with h1 | h1
      · exact Or.inl h1
      · right; intro hpv
        have := priv_lt h hpv; omega
    · have hk := hN.lcKind
      rw [← hN.lc] at hk
      have hl : pr.lhsChange < s.nodes.size := by rw [hN.lc]; omega
      have hst : s'.isStale pr.lhsChange = s.isStale pr.lhsChange := by
        refine isStale_map_congr hk (by rw [C.nodeD_lt hl]; exact hk) (by rw [C.nodeD_lt hl])
          (by rw [C.nodeD_lt hl]) (fun c hc => ?_)
        simp only [List.mem_cons, List.not_mem_nil, or_false] at hc
        rw [hc, C.nodeD_lt (by omega)]
      rw [hst] at hs
      rw [C.nodeD_lt (by omega)]; exact h.input hs
  · exact P.recs.of_frame C.perkeys fun e er' he' => ⟨er', by rw [← C.experts]; exact he', rfl, rfl⟩
  · obtain ⟨ψ, hψ⟩ := P.pot
    refine ⟨fun n => if n = s.nodes.size then 2 * n else ψ n, fun n c hn hc => ?_, fun j n h => ?_,
      fun op pr hpr => ?_, fun n hn => ?_⟩
    · by_cases e : n = s.nodes.size
      · rw [e, hnewk] at hc
        obtain ⟨j, hj⟩ := hkids c hc
        have hc' := htop j c hj
        rw [if_neg (by omega), e, if_pos rfl, hψ.top j c hj]; omega
      · have hn' : n < s.nodes.size := by omega
        rw [(C.kf).kids n hn'] at hc
        have hc' := hin n c hn' hc
        rw [if_neg (by omega), if_neg e]; exact hψ.mono n c hn' hc
    · rcases C.top_inv h with h1 | h1
      · have := htop j n h1
        rw [if_neg (by omega)]; exact hψ.top j n h1
      · rw [if_pos h1]
    · rw [C.perkeys] at hpr
      obtain ⟨a, b, c, d⟩ := hψ.op op pr hpr
      have h := P.ops op pr hpr
      obtain ⟨x, e, er, hN, he, hpk, hch, hent, hout⟩ := h.nodes
      have hlt := hN.lt
      have hlc := hN.lc
      refine ⟨by rw [if_neg (by omega)]; exact a, by rw [if_neg (by omega)]; exact b,
        by rw [if_neg (by omega)]; exact c, fun key p dd hm => ?_⟩
      have := (hent key p dd hm).plt
      rw [if_neg (by omega)]; exact d key p dd hm
    · by_cases e : n = s.nodes.size
      · rw [if_pos e]; omega
      · rw [if_neg e]; exact hψ.le n (by omega)
  · by_cases e : n = s.nodes.size
    · rw [e, C.nodeD_new] at hk
      have : k = .map f args := hk
      rw [this] at hp
      exact absurd hp (by show ¬ f < fnPerKey; omega)
    · rw [C.nodeD_old e] at hk; rw [C.perkeys]
      exact P.lcs n f args (by omega) hk hf
  · rw [C.observers] at ho
    obtain ⟨j, hj⟩ := P.obsTop o ob ho
    exact ⟨j, C.top_old hj⟩
  · rw [C.perkeys] at hpr
    obtain ⟨x, e, er, hN, -⟩ := (P.ops op pr hpr).nodes
    have hlt := hN.lt
    rw [C.nodeD_lt (by omega)] at hv
    exact P.maps op pr hpr v hv

theorem NoRem.of_cf {env : Env} {k : Kind} {s s' : State} (N : NoRem s) (P : PKOK env s) (C : CF k s s') :
    NoRem s' := by
  intro op pr hp
  rw [C.perkeys] at hp
  obtain ⟨x0, e, er, hN, -⟩ := (P.ops op pr hp).nodes
  have hlt := hN.lt
  have hx0 := hN.xlt
  obtain ⟨x, c, vc, mv, hk1, hk2, hv, hval, hs, h1, h2, h3⟩ := (N op pr hp).input
  have ex : x = x0 := by
    have := hN.conv
    rw [hk1] at this
    cases this; rfl
  have hr : s'.nodeD (pr.result - 1) = s.nodeD (pr.result - 1) := C.nodeD_lt (by omega)
  have hx : s'.nodeD x = s.nodeD x := C.nodeD_lt (by omega)
  exact ⟨⟨x, c, vc, mv, by rw [hr]; exact hk1, by rw [hx]; exact hk2, C.vars_old hv, hval, hs, h1,
    by rw [hx]; exact h2, by rw [hr, hx]; exact h3⟩⟩

/-! ## the action -/

theorem PStatic.static {env : Env} {s : State} {i : Instr} (hst : PStatic i) (hi : PInstrOK env s i) :
    QR.StaticInstr (penv env) i := by
  cases i <;> try exact hst.elim
  case const => trivial
  case var => trivial
  case map f args => exact ⟨Nat.lt_trans hi.1 (by decide), fun _ _ => rfl, hi.2.2⟩
  case fold f init cs => exact hi.2
  case zip a b => exact hi

theorem kids_lt_of_q {env : Env} {rk : Nat → Nat} {s : State} (Q : QR.QInv (penv env) rk (V s)) :
    ∀ n c, n < s.nodes.size → c ∈ kidsX s.experts (s.nodeD n).kind → c < s.nodes.size := by
  intro n c hn hc
  have := (Q.struct.static.node n (by rw [V_size]; exact hn)).kidsIn c (by rw [V_kids]; exact hc)
  rw [V_size] at this; exact this

theorem top_lt_of_q {env : Env} {rk : Nat → Nat} {s : State} (Q : QR.QInv (penv env) rk (V s)) :
    ∀ (j n : Nat), s.top[j]? = some n → n < s.nodes.size := by
  intro j n h
  have := Q.top j n h
  rw [V_size] at this; exact this

/-- **creation of a static node keeps `PQ`** (`hv`: the simulation on the virtual state; `hsl`: slots) -/
theorem action_create_static {env : Env} {rk : Nat → Nat} {s s' : State} {i : Instr} {tk : Array Nat}
    {r : String × Array Nat} (Q : PQ env rk s) (hi : PInstrOK env s i) (hst : PStatic i)
    (hv : (stepAction (penv env) (.create i) tk).run.run (V s) = (.ok r, V s'))
    (hsl : SlotInv env s')
    (h : (stepAction env (.create i) tk).run.run s = (.ok r, s')) : PQ env rk s' := by
  obtain ⟨k, hk, hp, hkids, C⟩ := create_cf Q.frag.scope hi hst h
  exact ⟨Q.frag.of_cf C hk hp, QR.step_q Q.q (a := .create i) (hst.static hi) hv, ahhEmpty_of_cf Q.ahh C,
    Q.pk.of_cf C hp hkids (kids_lt_of_q Q.q) (top_lt_of_q Q.q), hsl, Q.norem.of_cf Q.pk C⟩

/-! ## all static actions -/

/-- the static actions of the fragment: all but `stabilise` and `create (.perKey ..)` -/
def PStaticAct : Action → Prop
  | .create i => PStatic i
  | a => PAct a

theorem pstaticAct_of {env : Env} {s : State} {a : Action} (ha : PActionOK env s a) (hs : a ≠ .stabilise)
    (hpk : ∀ cut fam x, a ≠ .create (.perKey cut fam x)) : PStaticAct a := by
  cases a <;> first | exact ha.elim | trivial | exact absurd rfl hs | skip
  rename_i i
  cases i <;> first | exact ha.elim | trivial | exact absurd rfl (hpk _ _ _)

/-- **every static API action of the fragment keeps the invariant between actions**, modulo the simulation on the
virtual state (`hv`, from `VSim`) and the slots of the new state (`hsl`, from `pk-slots`) -/
theorem action_static_p {env : Env} {rk : Nat → Nat} {s s' : State} {a : Action} {tk : Array Nat}
    {r : String × Array Nat} (Q : PQ env rk s) (ha : PActionOK env s a) (hs : PStaticAct a)
    (hv : (stepAction (penv env) a tk).run.run (V s) = (.ok r, V s'))
    (hsl : SlotInv env s')
    (h : (stepAction env a tk).run.run s = (.ok r, s')) : PQ env rk s' := by
  by_cases hc : ∃ i, a = .create i
  · obtain ⟨i, rfl⟩ := hc
    exact action_create_static Q ha hs hv hsl h
  · have hp : PAct a := by
      cases a <;> first | exact hs | exact absurd ⟨_, rfl⟩ hc
    exact action_nocreate Q hp ha hv hsl h

end IncrVerif.Proofs.PerKeyH
