import IncrVerif.Proofs.Life9
/-!
# Observer lifecycle over whole histories, part 10: tokens are fresh and belong to one observer;
`disallow`, the last `drop` and `unsubscribe` kill the subscriptions concerned
-/
namespace IncrVerif.Proofs.Life
open IncrVerif.Engine IncrVerif.Proofs.Obs

/-- the tokens registered on a record, whatever its state -/
def tokensOf (x : ObsRec) : List Nat := x.handlers.map (·.token)

/-- every registered token has been issued (`< nextToken`) and is registered on one observer only -/
structure TokWF (s : State) : Prop where
  fresh : ∀ (o : Nat) (ob : ObsRec), s.observers[o]? = some ob → ∀ t, t ∈ tokensOf ob → t < s.nextToken
  unique : ∀ (o o' : Nat) (ob ob' : ObsRec), s.observers[o]? = some ob → s.observers[o']? = some ob' →
    ∀ t, t ∈ tokensOf ob → t ∈ tokensOf ob' → o = o'

theorem TokWF.init (maxHeight : Nat) (debug : Bool) : TokWF (State.init maxHeight debug) :=
  ⟨fun o ob h => by simp [State.init] at h, fun o o' ob ob' h => by simp [State.init] at h⟩

/-- registrations only shrink, index by index, and `nextToken` does not decrease -/
theorem TokWF.of_sub {s s' : State} (hn : s.nextToken ≤ s'.nextToken)
    (hs : ∀ (o : Nat) (ob' : ObsRec), s'.observers[o]? = some ob' →
      tokensOf ob' = [] ∨ ∃ ob : ObsRec, s.observers[o]? = some ob ∧ ∀ t, t ∈ tokensOf ob' → t ∈ tokensOf ob)
    (hw : TokWF s) : TokWF s' := by
  refine ⟨fun o ob' e' t ht => ?_, fun o o' ob ob' e e' t ht ht' => ?_⟩
  · rcases hs o ob' e' with h | ⟨ob, e, hsub⟩
    · rw [h] at ht; cases ht
    · exact Nat.lt_of_lt_of_le (hw.fresh o ob e t (hsub t ht)) hn
  · rcases hs o ob e with h | ⟨x, ex, hsub⟩
    · rw [h] at ht; cases ht
    · rcases hs o' ob' e' with h | ⟨x', ex', hsub'⟩
      · rw [h] at ht'; cases ht'
      · exact hw.unique o o' x x' ex ex' t (hsub t ht) (hsub' t ht')

def TokStep (s s' : State) : Prop := TokWF s → TokWF s'

theorem TokStep.of_obs {s s' : State} (h1 : s'.observers = s.observers)
    (h2 : s'.nextToken = s.nextToken) : TokStep s s' :=
  TokWF.of_sub (Nat.le_of_eq h2.symm) fun o ob' e' => .inr ⟨ob', by rw [← h1]; exact e', fun _ h => h⟩

instance : ObsLocal TokStep where
  refl _ := id
  trans h1 h2 := h2 ∘ h1
  of_eq s s' h1 _ _ h4 _ := TokWF.of_sub (Nat.le_of_eq h4.symm) fun o ob' e' =>
    .inr ⟨ob', by rw [← h1]; exact e', fun _ h => h⟩
  logEv _ _ _ := TokStep.of_obs rfl rfl

/-- `TokStep` looks at `observers` and `nextToken` only -/
macro_rules
  | `(tactic| lleaf) =>
    `(tactic| ((with_reducible apply Pres.modify); intro _; exact TokStep.of_obs rfl rfl))

theorem TokStep.modify_at {s s' : State} (o : Nat) (f : ObsRec → ObsRec)
    (ho : s'.observers = s.observers.modify o f) (hn : s'.nextToken = s.nextToken)
    (hf : ∀ x t, t ∈ tokensOf (f x) → t ∈ tokensOf x) : TokStep s s' := by
  refine TokWF.of_sub (Nat.le_of_eq hn.symm) fun m ob' e' => .inr ?_
  rw [ho, Array.getElem?_modify] at e'
  split at e'
  · cases hx : s.observers[m]? with
    | none => rw [hx] at e'; cases e'
    | some x =>
      rw [hx] at e'
      simp only [Option.map_some, Option.some.injEq] at e'
      subst e'
      exact ⟨x, rfl, hf x⟩
  · exact ⟨ob', e', fun _ h => h⟩

theorem PresT.modObs (o : Nat) (f : ObsRec → ObsRec)
    (hf : ∀ x t, t ∈ tokensOf (f x) → t ∈ tokensOf x) : Pres TokStep (modObs o f) := by
  unfold Engine.modObs
  exact Pres.modify fun s => TokStep.modify_at o f rfl rfl hf

theorem PresT.modObs_setPrev (o : Nat) (g : HandlerRec → HandlerRec)
    (hg : ∀ h, (g h).token = h.token) :
    Pres TokStep (Engine.modObs o fun x => { x with handlers := x.handlers.map g }) := by
  refine PresT.modObs o _ fun x t ht => ?_
  simp only [tokensOf, List.map_map, List.mem_map, Function.comp_def] at ht ⊢
  obtain ⟨a, ha, rfl⟩ := ht
  exact ⟨a, ha, (hg a).symm⟩

theorem PresT.modObs_filter (o : Nat) (p : HandlerRec → Bool) :
    Pres TokStep (Engine.modObs o fun x => { x with handlers := x.handlers.filter p }) := by
  refine PresT.modObs o _ fun x t ht => ?_
  simp only [tokensOf, List.mem_map, List.mem_filter] at ht ⊢
  obtain ⟨a, ⟨ha, _⟩, rfl⟩ := ht
  exact ⟨a, ha, rfl⟩

macro_rules
  | `(tactic| lleaf) =>
    `(tactic| ((with_reducible apply PresT.modObs); intro x t ht; (first | exact ht | exact absurd ht List.not_mem_nil)))
macro_rules
  | `(tactic| lleaf) =>
    `(tactic| ((with_reducible apply PresT.modObs_setPrev); intro h; (try dsimp only); split <;> rfl))
life_leaf PresT.modObs_filter

theorem PresT.logEv_any (e) : Pres TokStep (Engine.logEv e) := by
  unfold Engine.logEv; exact Pres.modify fun _ => TokStep.of_obs rfl rfl
life_leaf PresT.logEv_any

theorem PresT.disallowFutureUse (o : Nat) : Pres TokStep (disallowFutureUse o) := by
  unfold Engine.disallowFutureUse; lpres
instance : DisLocal TokStep := ⟨PresT.disallowFutureUse⟩

theorem PresT.runAll (env fuel o n nu now) : Pres TokStep (runAll env fuel o n nu now) := by
  unfold Engine.runAll; lpres
life_leaf PresT.runAll
theorem PresT.stabiliseEnd (env fuel) : Pres TokStep (stabiliseEnd env fuel) := by
  unfold Engine.stabiliseEnd; lpres
life_leaf PresT.stabiliseEnd
theorem PresT.addNewObservers (env fuel) : Pres TokStep (addNewObservers env fuel) := by
  unfold Engine.addNewObservers; lpres
life_leaf PresT.addNewObservers
theorem PresT.unlinkDisallowedObservers (fuel) : Pres TokStep (unlinkDisallowedObservers fuel) := by
  unfold Engine.unlinkDisallowedObservers; lpres
life_leaf PresT.unlinkDisallowedObservers
theorem PresT.stabilise (env fuel) : Pres TokStep (stabilise env fuel) := by
  unfold Engine.stabilise; lpres
life_leaf PresT.stabilise

theorem PresT.subscribe (o hid) : Pres TokStep (subscribe o hid) := by
  unfold Engine.subscribe
  apply Pres.get_bind_at
  intro s r s' hrun
  split at hrun
  · simp only [run_pure] at hrun; cases hrun; exact id
  cases hob : s.observers[o]? with
  | none => rw [run_bind_error (run_getObs_none hob)] at hrun; cases hrun; exact id
  | some ob =>
    rw [run_bind_ok (run_getObs_some hob)] at hrun
    have key : ∀ (rest : M (Except ObsError Nat)), Pres TokStep rest →
        ((modify fun s => { s with nextToken := s.nextToken + 1 }) >>= fun _ =>
          Engine.modObs o (fun x => { x with handlers := x.handlers ++
            [{ token := s.nextToken, hid := hid, createdAt := s.stabNum }] }) >>= fun _ => rest).run.run s
          = (r, s') → TokStep s s' := by
      intro rest hrest h
      simp only [run_bind, run_modify, run_modObs] at h
      have h2 := hrest.h _ _ _ h
      refine fun hw => h2 ?_
      -- the records of the intermediate state
      have hrec : ∀ (m : Nat) (x' : ObsRec),
          (s.observers.modify o fun x => { x with handlers := x.handlers ++
            [{ token := s.nextToken, hid := hid, createdAt := s.stabNum }] })[m]? = some x' →
          ∃ x : ObsRec, s.observers[m]? = some x ∧
            ∀ t, t ∈ tokensOf x' → t ∈ tokensOf x ∨ (m = o ∧ t = s.nextToken) := by
        intro m x' e'
        simp only [Array.getElem?_modify] at e'
        split at e'
        · rename_i hmo; subst hmo
          rw [hob] at e'
          simp only [Option.map_some, Option.some.injEq] at e'
          subst e'
          refine ⟨ob, hob, fun t ht => ?_⟩
          simp only [tokensOf, List.map_append, List.map_cons, List.map_nil, List.mem_append,
            List.mem_singleton] at ht
          rcases ht with h | h
          · exact .inl h
          · exact .inr ⟨rfl, h⟩
        · exact ⟨x', e', fun t ht => .inl ht⟩
      refine ⟨fun m x' e' t ht => ?_, fun m m' x' y' e' f' t ht ht' => ?_⟩
      · obtain ⟨x, ex, hx⟩ := hrec m x' e'
        rcases hx t ht with h | ⟨_, h⟩
        · exact Nat.lt_succ_of_lt (hw.fresh m x ex t h)
        · rw [h]; exact Nat.lt_succ_self _
      · obtain ⟨x, ex, hx⟩ := hrec m x' e'
        obtain ⟨y, ey, hy⟩ := hrec m' y' f'
        rcases hx t ht with h | ⟨hm, h⟩ <;> rcases hy t ht' with h' | ⟨hm', h'⟩
        · exact hw.unique m m' x y ex ey t h h'
        · have := hw.fresh m x ex t h
          rw [h'] at this; exact absurd this (Nat.lt_irrefl _)
        · have := hw.fresh m' y ey t h'
          rw [h] at this; exact absurd this (Nat.lt_irrefl _)
        · rw [hm, hm']
    cases hst : ob.state <;> simp only [hst] at hrun
    · exact key _ (by lpres) hrun
    · exact key _ (by lpres) hrun
    · simp only [run_pure] at hrun; cases hrun; exact id
    · simp only [run_pure] at hrun; cases hrun; exact id
life_leaf PresT.subscribe

theorem PresT.unsubscribe (o t w) : Pres TokStep (unsubscribe o t w) := by
  unfold Engine.unsubscribe; lpres
life_leaf PresT.unsubscribe

theorem TokStep.of_push {s s' : State} (n : Nat)
    (ho : s'.observers = s.observers.push { node := n }) (hn : s'.nextToken = s.nextToken) :
    TokStep s s' := by
  refine TokWF.of_sub (Nat.le_of_eq hn.symm) fun m ob' e' => ?_
  rw [ho, Array.getElem?_push] at e'
  split at e'
  · cases e'; exact .inl rfl
  · exact .inr ⟨ob', e', fun _ h => h⟩

macro_rules
  | `(tactic| lleaf) =>
    `(tactic| ((with_reducible apply Pres.modify); intro _; exact TokStep.of_push _ rfl rfl))

/-- every API action, every outcome, keeps `TokWF` -/
theorem PresT.stepAction (env : Env) (a : Action) (tokens : Array Nat) :
    Pres TokStep (stepAction env a tokens) := by
  cases a <;> (simp only [Engine.stepAction]; lpres)

theorem Run.tokWF {env : Env} {P : Action → Except Panic (String × Array Nat) → Prop} {s s' : State}
    (h : Run env P s s') (hw : TokWF s) : TokWF s' :=
  (Run.induct (R := TokStep) (fun a tokens _ => PresT.stepAction env a tokens)
    (fun _ => TokStep.of_obs rfl rfl) h) hw

/-! ## what kills a subscription -/

/-- after `disallow_future_use o` (also: after the last handle of `o` is dropped) every token registered
on `o` is dead -/
theorem dead_of_disallowState {s : State} (hw : TokWF s) (o : Nat) (ob : ObsRec)
    (e : s.observers[o]? = some ob) (tok : Nat) (ht : tok ∈ tokensOf ob) :
    Dead (disallowState s o) tok := by
  have hnt : (disallowState s o).nextToken = s.nextToken := by
    unfold disallowState; rw [e]
    obtain ⟨n, st, hs, c⟩ := ob
    cases st <;> rfl
  refine ⟨by rw [hnt]; exact hw.fresh o ob e tok ht, fun m x' e' hm => ?_⟩
  -- the records afterwards
  have hrec : (disallowState s o).observers[m]? =
      if o = m then (s.observers[m]?).map (fun x => (disallowState s o).observers[m]?.getD x)
      else s.observers[m]? := by
    split
    · rename_i hm'; subst hm'
      rw [e]; simp only [Option.map_some]
      cases h : (disallowState s o).observers[o]? with
      | none =>
        exfalso
        have hsz : (disallowState s o).observers.size = s.observers.size := by
          unfold disallowState; rw [e]
          obtain ⟨n, st, hs, c⟩ := ob
          cases st <;> simp [afterDisCreated, afterDisInUse]
        have := Array.getElem?_eq_none_iff.1 h
        have := (Array.getElem?_eq_some_iff.1 e).1
        omega
      | some y => rfl
    · rename_i hm'
      unfold disallowState; rw [e]
      obtain ⟨n, st, hs, c⟩ := ob
      cases st <;> simp [afterDisCreated, afterDisInUse, Array.getElem?_modify, hm']
  by_cases hmo : o = m
  · subst hmo
    -- the record of `o` is no longer live
    have hst : x'.state = .unlinked ∨ x'.state = .disallowed := by
      have ht := table_disallowState s o
      have hrow := congrArg (fun t : Array Row => (t[o]?).map (·.2.1)) ht
      simp only [table, Array.getElem?_map, Array.getElem?_modify, e', e, if_true, Option.map_some,
        core3, disallowRow, Option.some.injEq] at hrow
      rw [hrow]; cases ob.state <;> simp [afterDisallow]
    rcases hst with h | h <;> simp [liveTokens, h] at hm
  · rw [hrec, if_neg hmo] at e'
    have hsub : tok ∈ tokensOf x' := by
      revert hm; simp only [liveTokens, tokensOf]; cases x'.state <;> simp
    exact hmo (hw.unique o m ob x' e e' tok ht hsub)

/-- dropping the last handle of `o` kills every subscription of `o` -/
theorem dead_of_dropObsState {s : State} (hw : TokWF s) (o : Nat) (ob : ObsRec)
    (e : s.observers[o]? = some ob) (hc : ob.clones = 1) (tok : Nat) (ht : tok ∈ tokensOf ob) :
    Dead (dropObsState s o) tok := by
  unfold dropObsState
  rw [e]
  simp only [hc, Nat.one_ne_zero, if_false, if_true]
  have hw1 : TokWF { s with observers := s.observers.modify o fun x => { x with clones := x.clones - 1 } } :=
    TokStep.modify_at (s := s) o (fun x => { x with clones := x.clones - 1 }) rfl rfl (fun _ _ h => h) hw
  refine dead_of_disallowState hw1 o { ob with clones := ob.clones - 1 } ?_ tok ht
  simp [Array.getElem?_modify, e]

/-- `unsubscribe` (with the right owner) kills the subscription, whatever its outcome -/
theorem dead_of_unsubscribe {s s' : State} (hw : TokWF s) (o : Nat) (ob : ObsRec)
    (e : s.observers[o]? = some ob) (tok : Nat) (ht : tok ∈ tokensOf ob)
    (r : Except Panic (Except ObsError Unit))
    (hrun : (unsubscribe o tok o).run.run s = (r, s')) : Dead s' tok := by
  have hfresh := hw.fresh o ob e tok ht
  by_cases hst : ob.state = .created ∨ ob.state = .inUse
  · obtain ⟨s'', hr, ⟨ob', e', hs', _, hh'⟩, hoth, _, hnt, _⟩ := unsubscribe_ok s o tok ob e hst
    rw [hr] at hrun; cases hrun
    refine ⟨by rw [hnt]; exact hfresh, fun m x' ex' hm => ?_⟩
    by_cases hmo : m = o
    · subst hmo
      rw [e'] at ex'; cases ex'
      have : tok ∈ tokensOf ob' := by
        revert hm; simp only [liveTokens, tokensOf]; cases ob'.state <;> simp
      rw [tokensOf, hh'] at this
      simp only [List.mem_map, List.mem_filter, bne_iff_ne, ne_eq] at this
      obtain ⟨a, ⟨_, hne⟩, ha⟩ := this
      exact hne ha
    · rw [hoth m hmo] at ex'
      have hsub : tok ∈ tokensOf x' := by
        revert hm; simp only [liveTokens, tokensOf]; cases x'.state <;> simp
      exact hmo (hw.unique o m ob x' e ex' tok ht hsub).symm
  · have hst' : ob.state = .disallowed ∨ ob.state = .unlinked := by
      revert hst; cases ob.state <;> simp
    rw [unsubscribe_noop s o tok ob e hst'] at hrun; cases hrun
    refine ⟨hfresh, fun m x' ex' hm => ?_⟩
    by_cases hmo : m = o
    · subst hmo
      rw [e] at ex'; cases ex'
      rcases hst' with h | h <;> simp [liveTokens, h] at hm
    · have hsub : tok ∈ tokensOf x' := by
        revert hm; simp only [liveTokens, tokensOf]; cases x'.state <;> simp
      exact hmo (hw.unique o m ob x' e ex' tok ht hsub).symm

end IncrVerif.Proofs.Life
