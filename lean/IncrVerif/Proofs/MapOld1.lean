import IncrVerif.Proofs.MapRef29
/-!
# map_with_old fragment, part 1: the virtual static state

`virt s`: the state `s` in which every `map_with_old` node `mapWithOld g i` is replaced by the static node
`map (woBase + enc g) [i]` (same stored value, same everything else).  `virtEnv env sp` interprets the function ids
`woBase + enc g` as the pure functions `sp g` ("what machine `g` computes").  Everything the structural/scheduling
invariants of the static fragment read (`parents`, heights, stamps, heap, values, `children`, `isStale`,
`isNecessary`) is the same in `s` and `virt s`.
-/
namespace IncrVerif.Proofs.MapOldH
open IncrVerif.Engine IncrVerif.Proofs IncrVerif.Proofs.Step IncrVerif.Proofs.Sched IncrVerif.Proofs.Quiet

/-- function ids from here on (below `fnPerKey`) name the machines' pure functions in the virtual environment -/
def woBase : Nat := 1000003

theorem woBase_gt : fnIdent < woBase := by decide
theorem woBase_ge_zip : fnZip ≤ woBase := by decide

/-- the machine ids of the fragment: user-written machines `g < 400000` and the incremental-map operator closures
`opBase ≤ g < opBase + 400000` (all four operator kinds) -/
def WId (g : Nat) : Prop := g < 400000 ∨ (opBase ≤ g ∧ g < opBase + 400000)

instance (g : Nat) : Decidable (WId g) := by unfold WId; infer_instance

/-- machine ids are packed into `[0, 800000)` so that `woBase + enc g < fnPerKey` -/
def enc (g : Nat) : Nat := if g < opBase then g else g - 600000
def dec (e : Nat) : Nat := if e < 400000 then e else e + 600000

theorem dec_enc {g : Nat} (h : WId g) : dec (enc g) = g := by
  unfold WId opBase at h; unfold dec enc opBase
  rcases h with h | h
  · rw [if_pos (show g < 1000000 by omega), if_pos h]
  · rw [if_neg (show ¬ g < 1000000 by omega), if_neg (by omega)]; omega

theorem enc_lt {g : Nat} (h : WId g) : woBase + enc g < fnPerKey := by
  unfold WId opBase at h; unfold enc opBase woBase fnPerKey
  rcases h with h | h
  · rw [if_pos (by omega)]; omega
  · rw [if_neg (by omega)]; omega

def virtKind : Kind → Kind
  | .mapWithOld g i => .map (woBase + enc g) [i]
  | k => k

def virtNode (nd : Node) : Node := { nd with kind := virtKind nd.kind }

def virt (s : State) : State := { s with nodes := s.nodes.map virtNode }

/-- the environment of the virtual static engine: `sp g` is the pure function machine `g` computes -/
def virtEnv (env : Env) (sp : Nat → Val → Val) : Env :=
  { env with fn := fun f vals =>
      if woBase ≤ f then sp (dec (f - woBase)) (vals.headD .unit) else env.fn f vals }

/-- kinds of the fragment static + map_with_old (`G g`: what is required of machine `g`) -/
def WKind (env : Env) (G : Nat → Prop) : Kind → Prop
  | .const _ => True
  | .var _ => True
  | .map f _ => f < woBase ∧ (f < fnZip → ∀ vals, env.fnEff f vals = [])
  | .fold _ _ _ => True
  | .mapWithOld g _ => WId g ∧ G g
  | _ => False

theorem virtNode_default : virtNode default = default := rfl

theorem virt_nodeD (s : State) (m : Nat) : (virt s).nodeD m = virtNode (s.nodeD m) := by
  unfold State.nodeD virt
  simp only [Array.getElem?_map]
  cases h : s.nodes[m]? with
  | none => simp [virtNode_default]
  | some nd => simp

theorem virt_size (s : State) : (virt s).nodes.size = s.nodes.size := by simp [virt]

theorem virt_getElem? (s : State) (m : Nat) : (virt s).nodes[m]? = (s.nodes[m]?).map virtNode := by
  simp [virt, Array.getElem?_map]

section fields
variable (nd : Node)

theorem virtNode_kind : (virtNode nd).kind = virtKind nd.kind := rfl
theorem virtNode_valid : (virtNode nd).valid = nd.valid := rfl
theorem virtNode_cutoff : (virtNode nd).cutoff = nd.cutoff := rfl
theorem virtNode_createdIn : (virtNode nd).createdIn = nd.createdIn := rfl
theorem virtNode_parents : (virtNode nd).parents = nd.parents := rfl
theorem virtNode_observers : (virtNode nd).observers = nd.observers := rfl
theorem virtNode_forceNecessary : (virtNode nd).forceNecessary = nd.forceNecessary := rfl
theorem virtNode_height : (virtNode nd).height = nd.height := rfl
theorem virtNode_heightInRch : (virtNode nd).heightInRch = nd.heightInRch := rfl
theorem virtNode_heightInAhh : (virtNode nd).heightInAhh = nd.heightInAhh := rfl
theorem virtNode_recomputedAt : (virtNode nd).recomputedAt = nd.recomputedAt := rfl
theorem virtNode_changedAt : (virtNode nd).changedAt = nd.changedAt := rfl
theorem virtNode_num : (virtNode nd).numOnUpdateHandlers = nd.numOnUpdateHandlers := rfl
theorem virtNode_inHas : (virtNode nd).inHandleAfterStab = nd.inHandleAfterStab := rfl
theorem virtNode_oldState : (virtNode nd).oldState = nd.oldState := rfl
theorem virtNode_value : (virtNode nd).value = nd.value := rfl
theorem virtNode_didChange : (virtNode nd).didChange = nd.didChange := rfl
theorem virtNode_isNecessary : (virtNode nd).isNecessary = nd.isNecessary := rfl
theorem virtNode_inRch : (virtNode nd).inRch = nd.inRch := rfl

theorem virtNode_not_mapWithOld (g i : Nat) : (virtNode nd).kind ≠ .mapWithOld g i := by
  rw [virtNode_kind]; cases nd.kind <;> simp [virtKind]

theorem virtKind_mapRef_iff (k : Kind) (p i : Nat) : virtKind k = .mapRef p i ↔ k = .mapRef p i := by
  cases k <;> simp [virtKind]

theorem virtKind_expert_iff (k : Kind) (e : Nat) : virtKind k = .expert e ↔ k = .expert e := by
  cases k <;> simp [virtKind]
end fields

/-- the children of a kind of the fragment (what `State.children` yields for a valid node) -/
def kidsW : Kind → List Nat
  | .map _ args => args
  | .fold _ _ cs => cs
  | .mapWithOld _ i => [i]
  | _ => []

theorem kids_virtKind (k : Kind) : kids (virtKind k) = kidsW k := by cases k <;> rfl

theorem staticKind_virt {env : Env} {G : Nat → Prop} (sp : Nat → Val → Val) {k : Kind} (h : WKind env G k) :
    StaticKind (virtEnv env sp) (virtKind k) := by
  cases k <;> simp only [WKind] at h <;> simp only [virtKind, StaticKind]
  case map f args =>
    refine ⟨by have := h.1; unfold woBase at this; unfold fnPerKey; omega, fun hf vals => h.2 hf vals⟩
  case mapWithOld g i =>
    refine ⟨enc_lt h.1, fun hf => ?_⟩
    have := woBase_ge_zip; omega
  all_goals exact h

/-! ## state-level readers -/

variable (s : State)

theorem virt_isNecessary (m : Nat) : (virt s).isNecessary m = s.isNecessary m := by
  simp [State.isNecessary, virt_nodeD, virtNode_isNecessary]

theorem virt_vars : (virt s).vars = s.vars := rfl
theorem virt_rch : (virt s).rch = s.rch := rfl
theorem virt_stabNum : (virt s).stabNum = s.stabNum := rfl

theorem virtNode_kind? (nd : Node) : (virtNode nd).kind? = (nd.kind?).map virtKind := by
  simp only [Node.kind?, virtNode_valid, virtNode_kind]
  by_cases h : nd.valid = true <;> simp [h]

theorem virt_kind? (m : Nat) : ((virt s).nodeD m).kind? = ((s.nodeD m).kind?).map virtKind := by
  rw [virt_nodeD, virtNode_kind?]

theorem virt_children (m : Nat) : (virt s).children m = s.children m := by
  unfold State.children
  rw [virt_kind?]
  cases h : (s.nodeD m).kind? with
  | none => rfl
  | some k => cases k <;> rfl

theorem virt_isStale (m : Nat) : (virt s).isStale m = s.isStale m := by
  unfold State.isStale
  simp only [virt_children, virt_nodeD, virtNode_kind?, virtNode_recomputedAt, virtNode_changedAt, virt_vars]
  cases h : (s.nodeD m).kind? with
  | none => rfl
  | some k => cases k <;> rfl

theorem virt_needsToBeComputed (m : Nat) : (virt s).needsToBeComputed m = s.needsToBeComputed m := by
  simp [State.needsToBeComputed, virt_isNecessary, virt_isStale]

theorem virt_staleOf {env : Env} {G : Nat → Prop} (sp : Nat → Val → Val) (m : Nat)
    (hv : (s.nodeD m).valid = true) (hk : WKind env G (s.nodeD m).kind) :
    staleOf (virt s) m = s.isStale m := by
  rw [← virt_isStale s m]
  exact (isStale_static (env := virtEnv env sp) (virt s) m (by rw [virt_nodeD, virtNode_valid]; exact hv)
    (by rw [virt_nodeD, virtNode_kind]; exact staticKind_virt sp hk)).symm

/-- a node that is not a `map_ref` node reads its stored value; in the virtual state as in the actual one -/
theorem virt_value (env env' : Env) (n : Nat) (h : ∀ p i, (s.nodeD n).kind ≠ .mapRef p i) :
    (virt s).value env' n = s.value env n := by
  rw [value_plain env s n h, value_plain env' (virt s) n (by
    intro p i; rw [virt_nodeD, virtNode_kind]; intro e; exact h p i ((virtKind_mapRef_iff _ p i).1 e))]
  rw [virt_nodeD, virtNode_value]

theorem virtEnv_fn_real (env : Env) (sp : Nat → Val → Val) {f : Nat} (h : f < woBase) (vals : List Val) :
    (virtEnv env sp).fn f vals = env.fn f vals := by
  simp [virtEnv, Nat.not_le.2 h]

theorem virtEnv_fn_mach (env : Env) (sp : Nat → Val → Val) {g : Nat} (h : WId g) (vals : List Val) :
    (virtEnv env sp).fn (woBase + enc g) vals = sp g (vals.headD .unit) := by
  simp [virtEnv, dec_enc h]

theorem virtEnv_foldStep (env : Env) (sp : Nat → Val → Val) : (virtEnv env sp).foldStep = env.foldStep := rfl
theorem virtEnv_fnEff (env : Env) (sp : Nat → Val → Val) : (virtEnv env sp).fnEff = env.fnEff := rfl
theorem virtEnv_cutoff (env : Env) (sp : Nat → Val → Val) : (virtEnv env sp).cutoff = env.cutoff := rfl
theorem virtEnv_proj (env : Env) (sp : Nat → Val → Val) : (virtEnv env sp).proj = env.proj := rfl

theorem virt_kids (m : Nat) : kids ((virt s).nodeD m).kind = kidsW (s.nodeD m).kind := by
  rw [virt_nodeD, virtNode_kind, kids_virtKind]

theorem virt_plainVals (l : List Nat) : plainVals (virt s) l = plainVals s l := by
  unfold plainVals
  exact evalArgs_congr _ _ _ fun a _ => by rw [virt_nodeD, virtNode_value]

end IncrVerif.Proofs.MapOldH
