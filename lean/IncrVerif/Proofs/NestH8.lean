import IncrVerif.Proofs.NestH6
import IncrVerif.Proofs.BindH52
import IncrVerif.Proofs.BindH53
/-!
# Nested binds (F2), linking cascade, part 1: helpers; the pure step lemmas `addEdge_*`, `setHeight_open` for `GInv2`

Port of `BindH49` (`CL1`, fragment F1, `GInv1`) to fragment F2 (`GInv2 env rk`, ghost rank `rk`).  `CL.Only`, `CL.HF`,
`CL.ScopeQuiet` and their lemmas are reused from `BindH.CL`; the frame lemmas about the rank (`rk_cframe`, …) disappear.
-/
namespace IncrVerif.Proofs.NestH
open IncrVerif.Engine IncrVerif.Proofs IncrVerif.Proofs.Step IncrVerif.Proofs.Sched IncrVerif.Proofs.Quiet
open IncrVerif.Proofs.BindH

namespace NL
open BL CL

/-! ## frames: `Only`, `AboveR2` -/

theorem only_aboveR2 {rk : Nat → Nat} {n : Nat} {s s' : State} (h : Only n s s') : AboveR2 rk s n s' :=
  fun m hm => h m (fun e => by rw [e] at hm; exact Nat.lt_irrefl _ hm)

theorem aboveR2_refl (rk : Nat → Nat) (s : State) (n : Nat) : AboveR2 rk s n s := fun _ _ => rfl

/-! ## basic facts about `GInv2` (`GInv2.kid_rk` is in `N2c`) -/

section
variable {env : Env} {rk : Nat → Nat} {s s' : State} {op : Nat → Op} {ex : Nat → Prop} {dy : List Nat}

theorem GInv2.node (I : GInv2 env rk s op ex dy) {n : Nat} (h : n < s.nodes.size) : N2 env rk s dy n := I.frag.node n h

theorem GInv2.kid_ne (I : GInv2 env rk s op ex dy) {p i c : Nat} (h : (s.children p)[i]? = some c) : c ≠ p := by
  intro e; have := I.kid_rk h; rw [e] at this; exact Nat.lt_irrefl _ this

theorem GInv2.kid_in (I : GInv2 env rk s op ex dy) {p i c : Nat} (h : (s.children p)[i]? = some c) :
    c < s.nodes.size := (I.frag.node p (children_lt_size h)).kidsIn c (List.mem_of_getElem? h)

theorem GInv2.kid_valid (I : GInv2 env rk s op ex dy) {p i c : Nat} (h : (s.children p)[i]? = some c) :
    (s.nodeD c).valid = true := (I.frag.node p (children_lt_size h)).kidsValid c (List.mem_of_getElem? h)

theorem GInv2.par_rk (I : GInv2 env rk s op ex dy) {c p i : Nat} (h : (p, i) ∈ (s.nodeD c).parents) :
    rk c < rk p := I.kid_rk (I.par c p i h).1

/-- a necessary node is valid -/
theorem GInv2.valid_of_nec (I : GInv2 env rk s op ex dy) {m : Nat} (h : s.isNecessary m = true) :
    (s.nodeD m).valid = true := by
  cases hv : (s.nodeD m).valid with
  | true => rfl
  | false =>
    obtain ⟨h1, h2, h3, -, -⟩ := I.inv m hv
    simp only [State.isNecessary, Node.isNecessary, h1, h2, h3] at h
    cases h

/-- an open node is valid -/
theorem GInv2.valid_of_open (I : GInv2 env rk s op ex dy) {m : Nat} (h : op m ≠ .closed) :
    (s.nodeD m).valid = true := by
  cases hv : (s.nodeD m).valid with
  | true => rfl
  | false => exact absurd (I.inv m hv).2.2.2.2 h

/-- the fields `inv`, `scopeObs`, `lcObs` through a step that keeps validity, kinds, scopes, observers, forcing -/
theorem GInv2.extras {op' : Nat → Op} (I : GInv2 env rk s op ex dy) (E : KeyEq s s')
    (hob : ∀ m, (s'.nodeD m).observers = (s.nodeD m).observers)
    (hfo : ∀ m, (s'.nodeD m).forceNecessary = (s.nodeD m).forceNecessary)
    (hpa : ∀ m, (s.nodeD m).valid = false → (s'.nodeD m).parents = (s.nodeD m).parents)
    (hq : ∀ m, (s.nodeD m).valid = false → (s'.nodeD m).inRch = (s.nodeD m).inRch)
    (hop : ∀ m, (s.nodeD m).valid = false → op m = .closed → op' m = .closed) :
    (∀ m, (s'.nodeD m).valid = false →
      (s'.nodeD m).parents = [] ∧ (s'.nodeD m).observers = [] ∧ (s'.nodeD m).forceNecessary = false ∧
        (s'.nodeD m).inRch = false ∧ op' m = .closed) ∧
    (∀ m b, (s'.nodeD m).createdIn = .bind b → (s'.nodeD m).observers = []) ∧
    (∀ m b, (s'.nodeD m).kind = .bindLhsChange b → (s'.nodeD m).observers = []) := by
  refine ⟨?_, ?_, ?_⟩
  · intro m hv
    rw [E.valid] at hv
    obtain ⟨h1, h2, h3, h4, h5⟩ := I.inv m hv
    exact ⟨by rw [hpa m hv]; exact h1, by rw [hob]; exact h2, by rw [hfo]; exact h3, by rw [hq m hv]; exact h4,
      hop m hv h5⟩
  · intro m b h
    rw [E.createdIn] at h
    rw [hob]; exact I.scopeObs m b h
  · intro m b h
    rw [E.kind] at h
    rw [hob]; exact I.lcObs m b h

end

/-! ## congruence -/

theorem GInv2.congr {env : Env} {rk : Nat → Nat} {s s' : State} {op : Nat → Op} {ex : Nat → Prop} {dy : List Nat} (I : GInv2 env rk s op ex dy)
    (hB : SameB s s') : GInv2 env rk s' op ex dy := by
  have h := hB.g
  have E := KeyEq.of_same hB
  obtain ⟨x1, x2, x3⟩ := GInv2.extras (op' := op) I E (fun m => (h.node m).observers)
    (fun m => (h.node m).forceNecessary) (fun m _ => (h.node m).parents) (fun m _ => h.inRch m)
    (fun m _ ho => ho)
  exact {
    inv := x1
    scopeObs := x2
    lcObs := x3
    scopeH := fun m b br hv hsc hb hn ho => by
      rw [E.valid] at hv; rw [E.createdIn] at hsc; rw [E.binds] at hb; rw [h.nec] at hn
      rw [(h.node _).height, (h.node _).height]
      exact I.scopeH m b br hv hsc hb hn ho
    frag := KeyEq2.frag2 E I.frag (by rw [h.pc]; exact I.frag.pc) (by rw [h.scope]; exact I.frag.scope)
    par := fun c p i hm => by
      rw [(h.node c).parents] at hm
      rw [KeyEq2.children2 E I.frag, h.wants]
      exact I.par c p i hm
    conv := fun p i c hk hw => by
      rw [KeyEq2.children2 E I.frag] at hk
      rw [h.wants] at hw
      rw [(h.node c).parents]
      exact I.conv p i c hk hw
    nodup := fun c => by rw [(h.node c).parents]; exact I.nodup c
    hlt := fun c p i hm ho => by
      rw [(h.node c).parents] at hm
      rw [(h.node c).height, (h.node p).height]
      exact I.hlt c p i hm ho
    hpos := fun n hn ho => by
      rw [h.nec] at hn
      rw [(h.node n).height]; exact I.hpos n hn ho
    lnec := fun p k ho => by rw [h.nec]; exact I.lnec p k ho
    unec := fun p k ho => by rw [h.nec]; exact I.unec p k ho
    heap := I.heap.congr h.rch h.size (fun m => (h.node m).heightInRch)
    hgt := fun m hq ho => by
      rw [h.inRch] at hq
      rw [(h.node m).heightInRch, (h.node m).height]; exact I.hgt m hq ho
    qnec := fun m hq => by
      rw [h.inRch] at hq
      rw [h.nec]; exact I.qnec m hq
    queued := fun m ho hn hs hx => by
      rw [h.nec] at hn
      rw [KeyEq2.isStale2 E I.frag] at hs
      rw [h.inRch]; exact I.queued m ho hn hs hx
    qstale := fun m hq => by
      rw [h.inRch] at hq
      rw [KeyEq2.isStale2 E I.frag]; exact I.qstale m hq
    opLt := fun m ho => by rw [h.size]; exact I.opLt m ho }

/-- an unnecessary closed node is not queued -/
theorem GInv2.not_queued_of_not_nec {env : Env} {rk : Nat → Nat} {s : State} {op : Nat → Op} {ex : Nat → Prop} {dy : List Nat}
    (I : GInv2 env rk s op ex dy) {c : Nat}
    (hc : s.isNecessary c = false) (hcl : op c = .closed) : (s.nodeD c).inRch = false := by
  cases h : (s.nodeD c).inRch
  · rfl
  · rcases I.qnec c h with h1 | ⟨k, h1⟩
    · rw [hc] at h1; cases h1
    · rw [hcl] at h1; cases h1

section
variable {env : Env} {rk : Nat → Nat} {s s' : State} {op : Nat → Op} {ex : Nat → Prop} {dy : List Nat}

/-! ## linking -/

/-- `addParent c idx p` where `c` is already necessary (and closed) -/
theorem GInv2.addEdge_nec {c p idx : Nat} (I : GInv2 env rk s op ex dy)
    (U : NodeUpd c (fParents ((s.nodeD c).parents ++ [(p, idx)])) s s') (hb : s'.binds = s.binds)
    (hop : op p = .linking idx) (hk : (s.children p)[idx]? = some c)
    (hc : s.isNecessary c = true) (_hcl : op c = .closed) :
    GInv2 env rk s' (upd op p (.linking (idx + 1))) ex dy := by
  have K := keeps_fParents ((s.nodeD c).parents ++ [(p, idx)])
  have E := KeyEq.of_upd U K hb
  have hne : c ≠ p := GInv2.kid_ne I hk
  have hcv : (s.nodeD c).valid = true := GInv2.kid_valid I hk
  have hpc : (s'.nodeD c).parents = (s.nodeD c).parents ++ [(p, idx)] := U.parents_self
  have hht : ∀ m, (s'.nodeD m).height = (s.nodeD m).height := fun m => by
    by_cases h : m = c
    · rw [h]; exact U.height_self
    · exact U.height_other h
  have hmem : ∀ m x, x ∈ (s'.nodeD m).parents ↔ (x ∈ (s.nodeD m).parents ∨ (m = c ∧ x = (p, idx))) := by
    intro m x
    by_cases h : m = c
    · rw [h, hpc, List.mem_append, List.mem_singleton]; simp
    · rw [U.parents_other h]; simp [h]
  have hnec : ∀ m, s'.isNecessary m = s.isNecessary m := fun m => by
    by_cases h : m = c
    · rw [h, hc]; exact nec_of_mem_parents (x := (p, idx)) ((hmem c _).2 (Or.inr ⟨rfl, rfl⟩))
    · exact U.nec_other h
  have hcl' : ∀ m, upd op p (.linking (idx + 1)) m = .closed → m ≠ p ∧ op m = .closed :=
    fun m h => upd_closed_inv (Op.linking_ne_closed _) h
  have hw : ∀ q i, Wants s' (upd op p (.linking (idx + 1))) q i ↔ (Wants s op q i ∨ (q = p ∧ i = idx)) := by
    intro q i
    by_cases h : q = p
    · rw [h, wants_linking (upd_self ..), wants_linking hop]
      constructor
      · intro h1
        by_cases h2 : i = idx
        · exact Or.inr ⟨rfl, h2⟩
        · exact Or.inl (by omega)
      · rintro (h1 | ⟨-, h1⟩) <;> omega
    · unfold Wants
      rw [upd_other _ _ _ h, hnec]
      simp [h]
  have hob : ∀ m, (s'.nodeD m).observers = (s.nodeD m).observers := fun m => by
    by_cases h : m = c
    · rw [h]; exact U.observers_self
    · exact U.observers_other h
  obtain ⟨x1, x2, x3⟩ := GInv2.extras (op' := upd op p (.linking (idx + 1))) I E hob (U.forceNecessary K)
    (fun m hv => U.parents_other (fun e => by rw [e, hcv] at hv; cases hv)) (fun m _ => U.inRch K m)
    (fun m hv ho => by
      have hpv : (s.nodeD p).valid = true := GInv2.valid_of_open I (by rw [hop]; exact Op.linking_ne_closed _)
      have h1 : m ≠ p := fun e => by rw [e, hpv] at hv; cases hv
      rw [upd_other _ _ _ h1]; exact ho)
  refine { frag := KeyEq2.frag2 E I.frag (by rw [U.pc]; exact I.frag.pc) (by rw [U.scope]; exact I.frag.scope),
           inv := x1, scopeObs := x2, lcObs := x3,
           par := ?_, conv := ?_, nodup := ?_, hlt := ?_, hpos := ?_,
           lnec := ?_, unec := ?_, heap := U.heap K I.heap, hgt := ?_, qnec := ?_, queued := ?_,
           qstale := ?_, opLt := ?_, scopeH := ?_ }
  · intro c' q i hm
    rw [KeyEq2.children2 E I.frag, hw]
    rcases (hmem _ _).1 hm with h | ⟨h1, h2⟩
    · exact ⟨(I.par c' q i h).1, Or.inl (I.par c' q i h).2⟩
    · cases h2; rw [h1]; exact ⟨hk, Or.inr ⟨rfl, rfl⟩⟩
  · intro q i c' hk' hw'
    rw [KeyEq2.children2 E I.frag] at hk'
    rw [hmem]
    rcases (hw q i).1 hw' with h | ⟨h1, h2⟩
    · exact Or.inl (I.conv q i c' hk' h)
    · rw [h1, h2, hk] at hk'; cases hk'; exact Or.inr ⟨rfl, by rw [h1, h2]⟩
  · intro m
    by_cases h : m = c
    · rw [h, hpc, List.nodup_append]
      refine ⟨I.nodup c, by simp, ?_⟩
      intro a ha b hb
      rw [List.mem_singleton] at hb
      rw [hb]; intro e; rw [e] at ha
      have := (wants_linking hop).1 (I.par c p idx ha).2
      omega
    · rw [U.parents_other h]; exact I.nodup m
  · intro c' q i hm ho
    obtain ⟨h1, h2⟩ := hcl' q ho
    rw [hht, hht]
    rcases (hmem _ _).1 hm with h | ⟨-, h3⟩
    · exact I.hlt c' q i h h2
    · cases h3; exact absurd rfl h1
  · intro m hn ho
    rw [hnec] at hn
    rw [hht]; exact I.hpos m hn (hcl' m ho).2
  · intro q k ho
    rw [hnec]
    by_cases h : q = p
    · rw [h]; exact I.lnec p idx hop
    · rw [upd_other _ _ _ h] at ho; exact I.lnec q k ho
  · intro q k ho
    rw [hnec]
    by_cases h : q = p
    · rw [h, upd_self] at ho; cases ho
    · rw [upd_other _ _ _ h] at ho; exact I.unec q k ho
  · intro m hq ho
    rw [U.inRch K] at hq
    rw [U.heightInRch K, hht]; exact I.hgt m hq (hcl' m ho).2
  · intro m hq
    rw [U.inRch K] at hq
    rw [hnec]
    rcases I.qnec m hq with h | ⟨k, h⟩
    · exact Or.inl h
    · refine Or.inr ⟨k, ?_⟩
      have : m ≠ p := by intro e; rw [e, hop] at h; cases h
      rw [upd_other _ _ _ this]; exact h
  · intro m ho hn hs hx
    rw [hnec] at hn
    rw [KeyEq2.isStale2 E I.frag] at hs
    rw [U.inRch K]; exact I.queued m (hcl' m ho).2 hn hs hx
  · intro m hq
    rw [U.inRch K] at hq
    rw [KeyEq2.isStale2 E I.frag]; exact I.qstale m hq
  · intro m ho
    rw [U.size]
    by_cases h : m = p
    · rw [h]; exact I.opLt p (by rw [hop]; exact Op.linking_ne_closed _)
    · rw [upd_other _ _ _ h] at ho; exact I.opLt m ho
  · intro m b br hv hsc hb' hn' ho
    rw [E.valid] at hv; rw [E.createdIn] at hsc; rw [E.binds] at hb'; rw [hnec] at hn'
    rw [hht, hht]
    exact I.scopeH m b br hv hsc hb' hn' (hcl' m ho).2

/-- `addParent c idx p` where `c` was unnecessary (and closed): `c` is now open with no edge recorded, and it is
not queued -/
theorem GInv2.addEdge_open {c p idx : Nat} (I : GInv2 env rk s op ex dy)
    (U : NodeUpd c (fParents ((s.nodeD c).parents ++ [(p, idx)])) s s') (hb : s'.binds = s.binds)
    (hop : op p = .linking idx) (hk : (s.children p)[idx]? = some c)
    (hc : s.isNecessary c = false) (hcl : op c = .closed) :
    GInv2 env rk s' (upd (upd op p (.linking (idx + 1))) c (.linking 0)) ex dy ∧
      (s'.nodeD c).parents = [(p, idx)] ∧ (s'.nodeD c).inRch = false := by
  have K := keeps_fParents ((s.nodeD c).parents ++ [(p, idx)])
  have E := KeyEq.of_upd U K hb
  have hne : c ≠ p := GInv2.kid_ne I hk
  have hcv : (s.nodeD c).valid = true := GInv2.kid_valid I hk
  have hpar0 : (s.nodeD c).parents = [] := parents_nil_of_not_nec hc
  have hpc : (s'.nodeD c).parents = [(p, idx)] := by rw [U.parents_self]; simp [fParents, hpar0]
  have hcq : (s.nodeD c).inRch = false := GInv2.not_queued_of_not_nec I hc hcl
  refine ⟨?_, hpc, by rw [U.inRch K]; exact hcq⟩
  have hht : ∀ m, (s'.nodeD m).height = (s.nodeD m).height := fun m => by
    by_cases h : m = c
    · rw [h]; exact U.height_self
    · exact U.height_other h
  have hmem : ∀ m x, x ∈ (s'.nodeD m).parents ↔ (x ∈ (s.nodeD m).parents ∨ (m = c ∧ x = (p, idx))) := by
    intro m x
    by_cases h : m = c
    · rw [h, hpc, hpar0, List.mem_singleton]; simp
    · rw [U.parents_other h]; simp [h]
  have hnec : ∀ m, m ≠ c → s'.isNecessary m = s.isNecessary m := fun m h => U.nec_other h
  have hnecc : s'.isNecessary c = true :=
    nec_of_mem_parents (x := (p, idx)) ((hmem c _).2 (Or.inr ⟨rfl, rfl⟩))
  have hopc : upd (upd op p (.linking (idx + 1))) c (.linking 0) c = .linking 0 := upd_self ..
  have hopp : upd (upd op p (.linking (idx + 1))) c (.linking 0) p = .linking (idx + 1) := by
    rw [upd_other _ _ _ (Ne.symm hne), upd_self]
  have hopo : ∀ m, m ≠ c → m ≠ p → upd (upd op p (.linking (idx + 1))) c (.linking 0) m = op m := by
    intro m h1 h2; rw [upd_other _ _ _ h1, upd_other _ _ _ h2]
  have hcl' : ∀ m, upd (upd op p (.linking (idx + 1))) c (.linking 0) m = .closed →
      m ≠ c ∧ m ≠ p ∧ op m = .closed := by
    intro m h
    obtain ⟨h1, h2⟩ := upd_closed_inv (Op.linking_ne_closed _) h
    obtain ⟨h3, h4⟩ := upd_closed_inv (Op.linking_ne_closed _) h2
    exact ⟨h1, h3, h4⟩
  have hw : ∀ q i, Wants s' (upd (upd op p (.linking (idx + 1))) c (.linking 0)) q i ↔
      (Wants s op q i ∨ (q = p ∧ i = idx)) := by
    intro q i
    by_cases h : q = p
    · rw [h, wants_linking hopp, wants_linking hop]
      constructor
      · intro h1
        by_cases h2 : i = idx
        · exact Or.inr ⟨rfl, h2⟩
        · exact Or.inl (by omega)
      · rintro (h1 | ⟨-, h1⟩) <;> omega
    · by_cases h' : q = c
      · rw [h', wants_linking hopc, wants_closed hcl, hc]; simp [hne]
      · unfold Wants
        rw [hopo q h' h, hnec q h']
        simp [h]
  have hob : ∀ m, (s'.nodeD m).observers = (s.nodeD m).observers := fun m => by
    by_cases h : m = c
    · rw [h]; exact U.observers_self
    · exact U.observers_other h
  obtain ⟨x1, x2, x3⟩ := GInv2.extras (op' := upd (upd op p (.linking (idx + 1))) c (.linking 0)) I E hob (U.forceNecessary K)
    (fun m hv => U.parents_other (fun e => by rw [e, hcv] at hv; cases hv)) (fun m _ => U.inRch K m)
    (fun m hv ho => by
      have hpv : (s.nodeD p).valid = true := GInv2.valid_of_open I (by rw [hop]; exact Op.linking_ne_closed _)
      have h1 : m ≠ p := fun e => by rw [e, hpv] at hv; cases hv
      have h2 : m ≠ c := fun e => by rw [e, hcv] at hv; cases hv
      rw [hopo m h2 h1]; exact ho)
  refine { frag := KeyEq2.frag2 E I.frag (by rw [U.pc]; exact I.frag.pc) (by rw [U.scope]; exact I.frag.scope),
           inv := x1, scopeObs := x2, lcObs := x3,
           par := ?_, conv := ?_, nodup := ?_, hlt := ?_, hpos := ?_,
           lnec := ?_, unec := ?_, heap := U.heap K I.heap, hgt := ?_, qnec := ?_, queued := ?_,
           qstale := ?_, opLt := ?_, scopeH := ?_ }
  · intro c' q i hm
    rw [KeyEq2.children2 E I.frag, hw]
    rcases (hmem _ _).1 hm with h | ⟨h1, h2⟩
    · exact ⟨(I.par c' q i h).1, Or.inl (I.par c' q i h).2⟩
    · cases h2; rw [h1]; exact ⟨hk, Or.inr ⟨rfl, rfl⟩⟩
  · intro q i c' hk' hw'
    rw [KeyEq2.children2 E I.frag] at hk'
    rw [hmem]
    rcases (hw q i).1 hw' with h | ⟨h1, h2⟩
    · exact Or.inl (I.conv q i c' hk' h)
    · rw [h1, h2, hk] at hk'; cases hk'; exact Or.inr ⟨rfl, by rw [h1, h2]⟩
  · intro m
    by_cases h : m = c
    · rw [h, hpc]; simp
    · rw [U.parents_other h]; exact I.nodup m
  · intro c' q i hm ho
    obtain ⟨-, h1, h2⟩ := hcl' q ho
    rw [hht, hht]
    rcases (hmem _ _).1 hm with h | ⟨-, h3⟩
    · exact I.hlt c' q i h h2
    · cases h3; exact absurd rfl h1
  · intro m hn ho
    obtain ⟨h1, -, h2⟩ := hcl' m ho
    rw [hnec m h1] at hn
    rw [hht]; exact I.hpos m hn h2
  · intro q k ho
    by_cases h' : q = c
    · rw [h']; exact hnecc
    · rw [hnec q h']
      by_cases h : q = p
      · rw [h]; exact I.lnec p idx hop
      · rw [hopo q h' h] at ho; exact I.lnec q k ho
  · intro q k ho
    by_cases h' : q = c
    · rw [h', hopc] at ho; cases ho
    · rw [hnec q h']
      by_cases h : q = p
      · rw [h, hopp] at ho; cases ho
      · rw [hopo q h' h] at ho; exact I.unec q k ho
  · intro m hq ho
    rw [U.inRch K] at hq
    rw [U.heightInRch K, hht]; exact I.hgt m hq (hcl' m ho).2.2
  · intro m hq
    rw [U.inRch K] at hq
    have h' : m ≠ c := by intro e; rw [e, hcq] at hq; cases hq
    rw [hnec m h']
    rcases I.qnec m hq with h | ⟨k, h⟩
    · exact Or.inl h
    · refine Or.inr ⟨k, ?_⟩
      have : m ≠ p := by intro e; rw [e, hop] at h; cases h
      rw [hopo m h' this]; exact h
  · intro m ho hn hs hx
    obtain ⟨h1, -, h2⟩ := hcl' m ho
    rw [hnec m h1] at hn
    rw [KeyEq2.isStale2 E I.frag] at hs
    rw [U.inRch K]; exact I.queued m h2 hn hs hx
  · intro m hq
    rw [U.inRch K] at hq
    rw [KeyEq2.isStale2 E I.frag]; exact I.qstale m hq
  · intro m ho
    rw [U.size]
    by_cases h' : m = c
    · rw [h']; exact U.lt
    · by_cases h : m = p
      · rw [h]; exact I.opLt p (by rw [hop]; exact Op.linking_ne_closed _)
      · rw [hopo m h' h] at ho; exact I.opLt m ho
  · intro m b br hv hsc hb' hn' ho
    obtain ⟨h1, -, h2⟩ := hcl' m ho
    rw [E.valid] at hv; rw [E.createdIn] at hsc; rw [E.binds] at hb'; rw [hnec m h1] at hn'
    rw [hht, hht]
    exact I.scopeH m b br hv hsc hb' hn' h2

/-- the height of an open node whose parents are all open is not constrained -/
theorem GInv2.setHeight_open {n : Nat} {h : Int} (I : GInv2 env rk s op ex dy) (U : NodeUpd n (fHeight h) s s')
    (hb : s'.binds = s.binds)
    (hop : op n ≠ .closed) (hpar : ∀ p i, (p, i) ∈ (s.nodeD n).parents → op p ≠ .closed)
    (hsq : ScopeQuiet s n) :
    GInv2 env rk s' op ex dy := by
  have K := keeps_fHeight h
  have E := KeyEq.of_upd U K hb
  have hpa : ∀ m, (s'.nodeD m).parents = (s.nodeD m).parents := fun m => by
    by_cases e : m = n
    · rw [e]; exact U.parents_self
    · exact U.parents_other e
  have hnec : ∀ m, s'.isNecessary m = s.isNecessary m := fun m => by
    by_cases e : m = n
    · rw [e]
      simp only [State.isNecessary, Node.isNecessary, U.self.parents, U.self.observers, U.self.forceNecessary]
      rfl
    · exact U.nec_other e
  have hw : ∀ q i, Wants s' op q i ↔ Wants s op q i := fun q i => by unfold Wants; rw [hnec]
  have hcn : ∀ m, op m = .closed → m ≠ n := fun m ho e => hop (e ▸ ho)
  have hob : ∀ m, (s'.nodeD m).observers = (s.nodeD m).observers := fun m => by
    by_cases h : m = n
    · rw [h]; exact U.observers_self
    · exact U.observers_other h
  obtain ⟨x1, x2, x3⟩ := GInv2.extras (op' := op) I E hob (U.forceNecessary K)
    (fun m _ => hpa m) (fun m _ => U.inRch K m) (fun m _ ho => ho)
  refine { frag := KeyEq2.frag2 E I.frag (by rw [U.pc]; exact I.frag.pc) (by rw [U.scope]; exact I.frag.scope),
           inv := x1, scopeObs := x2, lcObs := x3,
           par := ?_, conv := ?_, nodup := ?_, hlt := ?_, hpos := ?_,
           lnec := ?_, unec := ?_, heap := U.heap K I.heap, hgt := ?_, qnec := ?_, queued := ?_,
           qstale := ?_, opLt := ?_, scopeH := ?_ }
  · intro c q i hm
    rw [hpa] at hm
    rw [KeyEq2.children2 E I.frag, hw]; exact I.par c q i hm
  · intro q i c hk hw'
    rw [KeyEq2.children2 E I.frag] at hk
    rw [hw] at hw'
    rw [hpa]; exact I.conv q i c hk hw'
  · intro m; rw [hpa]; exact I.nodup m
  · intro c q i hm ho
    rw [hpa] at hm
    have h1 : c ≠ n := by intro e; rw [e] at hm; exact hpar q i hm ho
    rw [U.height_other h1, U.height_other (hcn q ho)]
    exact I.hlt c q i hm ho
  · intro m hn ho
    rw [hnec] at hn
    rw [U.height_other (hcn m ho)]; exact I.hpos m hn ho
  · intro q k ho
    rw [hnec]; exact I.lnec q k ho
  · intro q k ho
    rw [hnec]; exact I.unec q k ho
  · intro m hq ho
    rw [U.inRch K] at hq
    rw [U.heightInRch K, U.height_other (hcn m ho)]; exact I.hgt m hq ho
  · intro m hq
    rw [U.inRch K] at hq
    rw [hnec]; exact I.qnec m hq
  · intro m ho hn hs hx
    rw [hnec] at hn
    rw [KeyEq2.isStale2 E I.frag] at hs
    rw [U.inRch K]; exact I.queued m ho hn hs hx
  · intro m hq
    rw [U.inRch K] at hq
    rw [KeyEq2.isStale2 E I.frag]; exact I.qstale m hq
  · intro m ho
    rw [U.size]; exact I.opLt m ho
  · intro m b br hv hsc hb' hn' ho
    rw [E.valid] at hv; rw [E.createdIn] at hsc; rw [E.binds] at hb'; rw [hnec] at hn'
    have h1 : m ≠ n := hcn m ho
    have h2 : br.lhsChange ≠ n := by
      intro e
      rw [hsq m b br hsc hb' e] at hn'; cases hn'
    rw [U.height_other h1, U.height_other h2]
    exact I.scopeH m b br hv hsc hb' hn' ho

end


end NL

end IncrVerif.Proofs.NestH
