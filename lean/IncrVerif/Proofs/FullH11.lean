import IncrVerif.Proofs.FullH10
/-!
# C01 full fragment: the functions that may INVALIDATE, in the `SimX` calculus (the ghost may be erased)
(`invalidateNode`, `propagateInvalidity`, `becameNecessaryPropagate`, `stateAddParent`, `changeChildBindRhs`)
-/
namespace IncrVerif.Proofs.FullH
open IncrVerif.Engine IncrVerif.Proofs IncrVerif.Proofs.Step IncrVerif.Proofs.Sched IncrVerif.Proofs.Quiet

/-- registered `SimX` lemmas -/
syntax "fsimx_leaf" : tactic
macro_rules | `(tactic| fsimx_leaf) => `(tactic| fail "no leaf")

set_option hygiene false in
macro "fsimx_step" : tactic => `(tactic| first
  | with_reducible exact SimXAt.ret _
  | with_reducible exact SimXAt.thr _ _
  | with_reducible exact SimXAt.pan _ _
  | ((with_reducible refine SimXAt.get_seq ?_); try fnorm)
  | ((with_reducible refine SimXAt.getNode_seq fun nd hnd hne => ?_); try fnorm)
  | ((with_reducible refine SimXAt.mod_seq ?_ ?_ ?_) <;> (first | rfl | skip))
  | ((with_reducible refine SimAt.toX (SimAt.mod ?_ ?_)) <;> rfl)
  | ((with_reducible refine SimAt.toX (Sim.at ?_ _)); fsim_leaf)
  | ((with_reducible refine SimX.at ?_ _ _); fsimx_leaf)
  | ((with_reducible refine SimX.at (SimX.forIn _ (fun _ _ => ?_) _) _ _); intro _ _)
  | (with_reducible refine SimXAt.seq ?_ fun _ _ _ _ => ?_)
  | (refine SimXAt.cond Iff.rfl (fun _ => ?_) (fun _ => ?_)))

macro "fsimx" : tactic => `(tactic| repeat (any_goals fsimx_step))

set_option hygiene false in
/-- a `match` on the kind of the node last read by `getNode` -/
macro "fsimx_kind" : tactic => `(tactic| (
  simp only [virtNode_kind?]
  rcases hk : nd.kind? with _ | k
  all_goals try cases k
  all_goals simp only [Option.map_none, Option.map_some, virtKind]
  all_goals try exact absurd (kind_of_kind? hk) (hne _)
  fsimx))

section
variable {K : Kind → Prop} {g : Nat → Option Val} {sp : Nat → Val → Val}

/-- the ghost with the entry of `n` erased -/
@[reducible] def eraseG (g : Nat → Option Val) (n : Nat) : Nat → Option Val := fun m => if m = n then none else g m

theorem Fr.eraseG {s : State} (h : Fr K g s) (n : Nat) : Fr K (eraseG g n) s :=
  ⟨h.kinds, h.noExp, h.cut, fun m hm => by unfold FullH.eraseG; split; rfl; exact h.fresh m hm⟩

/-- `GR` after an erasure at `n` (before which only `VM` work happened), once `n` is invalid -/
theorem GR.of_erase {g2 : Nat → Option Val} {s sB s' : State} {n : Nat} (h1 : VM s sB)
    (h2 : GR (eraseG g n) g2 sB s') (hinv : (s'.nodeD n).valid = false) : GR g g2 s s' := by
  refine ⟨h1.trans h2.vm, fun m => ?_⟩
  rcases h2.gh m with e | ⟨e, hv⟩
  · by_cases hm : m = n
    · subst hm
      refine Or.inr ⟨?_, hinv⟩
      rw [e]; simp [eraseG]
    · left; rw [e]; simp [eraseG, hm]
  · exact Or.inr ⟨e, hv⟩

/-- the last part of `invalidate_node` -/
def invTail (n : Nat) : M Unit := do
  modNode n fun x => { x with valid := false }
  for (p, _) in (← getNode n).parents do
    modify fun s => { s with propagateInvalidity := p :: s.propagateInvalidity }
  let s ← get
  dassert (!s.needsToBeComputed n) "node:invalidate_node:not-needs-to-be-computed"
  if (s.nodeD n).inRch then rchRemove n

/-- `invalidate_nodes_created_on_rhs`, then the last part -/
def invCT (fuel : Nat) (k : Kind) (n : Nat) : M Unit :=
  match k with
  | .bindMain b _ => do
    let all := (← getBind b).allNodesCreatedOnRhs
    modBind b fun x => { x with allNodesCreatedOnRhs := [] }
    for r in all do invalidateNode fuel r
    invTail n
  | _ => invTail n

theorem invalidateNode_succ (fuel n : Nat) : Engine.invalidateNode (fuel + 1) n = (do
    let nd ← getNode n
    if !nd.valid then return
    maybeHandleAfterStabilisation n
    let now := (← get).stabNum
    modNode n fun x => { x with value := none, changedAt := now, recomputedAt := now }
    modify fun s => { s with counters := { s.counters with invalidated := s.counters.invalidated + 1 } }
    if (← get).isNecessary n then
      removeChildren fuel n
      setHeight n ((← scopeHeight nd.createdIn) + 1)
      invCT fuel nd.kind n
    else invCT fuel nd.kind n) := by
  rw [Engine.invalidateNode]
  rfl

theorem Sim.invTail (n : Nat) : Sim K g (invTail n) (invTail n) := by
  intro s; unfold FullH.invTail; fsim

theorem SimX.invCT (fuel : Nat) (ih : ∀ n, SimX K (Engine.invalidateNode fuel n) (Engine.invalidateNode fuel n))
    (k : Kind) (n : Nat) : SimX K (invCT fuel k n) (invCT fuel (virtKind k) n) := by
  intro g s
  cases k <;> simp only [virtKind, FullH.invCT]
  case bindMain b lc =>
    fsimx
    · exact ih _ _ _
    · exact (Sim.invTail n _).toX
  all_goals exact (Sim.invTail n _).toX

theorem SimX.invalidateNode (fuel n : Nat) : SimX K (Engine.invalidateNode fuel n) (Engine.invalidateNode fuel n) := by
  induction fuel generalizing n with
  | zero => intro g s; unfold Engine.invalidateNode; exact SimXAt.thr _ _
  | succ fuel ih =>
    intro g s hfr r s' hr
    have hinv := (Inval.invalidateNode_ok hr).2.1
    rw [invalidateNode_succ] at hr ⊢
    obtain ⟨nd, hnd, hr⟩ := bind_getNode_inv hr
    have hne := hfr.some hnd
    have hv : (virt g s).nodes[n]? = some (virtNode (g n) nd) := by rw [virt_getElem?, hnd]; rfl
    rw [run_bind_ok (run_getNode_some hv)]
    simp only [virtNode_valid, virtNode_createdIn, virtNode_kind]
    by_cases hval : (!nd.valid) = true
    · rw [if_pos hval] at hr ⊢
      rw [run_pure] at hr; cases hr
      exact ⟨g, rfl, hfr, GR.refl _ _⟩
    rw [if_neg hval] at hr ⊢
    obtain ⟨_, sA, hA, hr⟩ := bind_ok_inv hr
    obtain ⟨eA, frA, vmA⟩ := Sim.maybeHandleAfterStabilisation n s hfr _ sA hA
    rw [run_bind_ok eA]
    rw [run_bind_get] at hr ⊢
    rw [virt_stabNum]
    rw [run_bind_modNode] at hr ⊢
    have hE := virt_erase g sA n
      (fun x => { x with value := none, changedAt := sA.stabNum, recomputedAt := sA.stabNum })
      (fun x => { x with value := none, changedAt := sA.stabNum, recomputedAt := sA.stabNum }) (by fcomm)
    rw [← hE]
    have frB : Fr K (eraseG g n) { sA with nodes := sA.nodes.modify n fun x =>
        { x with value := none, changedAt := sA.stabNum, recomputedAt := sA.stabNum } } :=
      fr_modify (frA.eraseG n) n _ (fun _ => ⟨rfl, rfl⟩)
    have vmB : VM sA { sA with nodes := sA.nodes.modify n fun x =>
        { x with value := none, changedAt := sA.stabNum, recomputedAt := sA.stabNum } } :=
      vm_modify sA n _ (by fkind)
    suffices hrest : SimXAt K (eraseG g n) _ _ _ by
      obtain ⟨g2, e2, fr2, gr2⟩ := hrest frB r s' hr
      exact ⟨g2, e2, fr2, GR.of_erase (vmA.trans vmB) gr2 hinv⟩
    fsimx
    all_goals exact SimX.invCT fuel ih _ _ _ _
macro_rules | `(tactic| fsimx_leaf) => `(tactic| with_reducible exact SimX.invalidateNode _ _)

theorem SimX.propagateInvalidity (fuel : Nat) :
    SimX K (Engine.propagateInvalidity fuel) (Engine.propagateInvalidity fuel) := by
  induction fuel with
  | zero => intro g s; unfold Engine.propagateInvalidity; exact SimXAt.thr _ _
  | succ fuel ih =>
    intro g s
    unfold Engine.propagateInvalidity
    refine SimXAt.get_seq ?_
    fnorm
    split
    · exact SimXAt.ret _
    · rename_i n rest hpi
      fsimx
      all_goals first
        | exact ih _ _
        | (simp only [virtNode_kind?]
           rcases hk : (({ s with propagateInvalidity := rest } : State).nodeD n).kind? with _ | k
           all_goals try cases k
           all_goals simp only [Option.map_none, Option.map_some, virtKind]
           all_goals fsimx
           all_goals exact ih _ _)
macro_rules | `(tactic| fsimx_leaf) => `(tactic| with_reducible exact SimX.propagateInvalidity _)

theorem SimX.becameNecessaryPropagate (env : Env) (fuel n : Nat) :
    SimX K (Engine.becameNecessaryPropagate env fuel n) (Engine.becameNecessaryPropagate (virtEnv env sp) fuel n) := by
  intro g s; unfold Engine.becameNecessaryPropagate; fsimx
macro_rules | `(tactic| fsimx_leaf) => `(tactic| with_reducible exact SimX.becameNecessaryPropagate _ _ _)

theorem SimX.stateAddParent (env : Env) (fuel child index parent : Nat) :
    SimX K (Engine.stateAddParent env fuel child index parent)
      (Engine.stateAddParent (virtEnv env sp) fuel child index parent) := by
  intro g s; unfold Engine.stateAddParent; fsimx
macro_rules | `(tactic| fsimx_leaf) => `(tactic| with_reducible exact SimX.stateAddParent _ _ _ _ _)

theorem SimX.changeChildBindRhs (env : Env) (fuel main : Nat) (old : Option Nat) (new index : Nat) :
    SimX K (Engine.changeChildBindRhs env fuel main old new index)
      (Engine.changeChildBindRhs (virtEnv env sp) fuel main old new index) := by
  intro g s; unfold Engine.changeChildBindRhs
  fsimx
  fsimx_kind
  all_goals (cases old <;> fsimx)
macro_rules | `(tactic| fsimx_leaf) => `(tactic| with_reducible exact SimX.changeChildBindRhs _ _ _ _ _ _)

end
end IncrVerif.Proofs.FullH
