import IncrVerif.Proofs.FullT21
/-!
# C04 combined fragment: the step contract `StepTotF` from its five cases
(simulated static / `bindMain` step, simulated run of a change detector, map_ref step, map_with_old step, verdict step)
-/
namespace IncrVerif.Proofs.FullT
open IncrVerif.Engine IncrVerif.Driver IncrVerif.Proofs IncrVerif.Proofs.Step IncrVerif.Proofs.Sched IncrVerif.Proofs.Quiet IncrVerif.Proofs.FullH
open IncrVerif.Proofs.MapOldH (MReach)
open IncrVerif.Proofs.BindH (DInv BGraph StepRelB TargetB FrameB)
open IncrVerif.Proofs.NestH (AuxS2 Aux2 GenOK2 F2Inv DT HBo2 RhsRan Lim cnt TotIf HasRoomG StepL2 LcStepsOK2 LcStepTotG)

section
variable {env : Env} {sp : Nat → Val → Val}

/-- `step_simulated` of FullH45, also returning the run of the virtual engine -/
theorem step_simulated_v (LS : LcSimSpec env sp) (LK : LcKSpec env sp) {t s : State} {g : Nat → Option Val} {fuel n : Nat}
    {r : Option Nat} {s' : State} (D : DInvF env sp t s g (some n))
    (hk1 : ∀ p i, (s.nodeD n).kind ≠ .mapRef p i) (hk2 : ∀ m i, (s.nodeD n).kind ≠ .mapWithOld m i)
    (hex : (s.nodeD n).cutoff = .eq ∨ ∃ b, (s.nodeD n).kind = .bindLhsChange b)
    (h : (recomputeOne env fuel n).run.run s = (.ok r, s')) :
    ∃ g', DInvF env sp t s' g' r ∧ FrameB (virt g s) (virt g' s') ∧
      ((virt g' s').nodeD n).recomputedAt = s.stabNum ∧
      (recomputeOne (VE env sp) fuel n).run.run (virt g s) = (.ok r, virt g' s') := by
  have I := D.inv
  have gr := I.graph
  obtain ⟨hnec, hnlt, hnv, -, -⟩ := I.cur_facts
  rw [virt_size] at hnlt
  rw [virt_nodeD, virtNode_valid] at hnv
  have hkids := kids_settled D
  have nv := recomputeOne_nv env fuel n s s' r h
  have hBk := (gr.node n (by rw [virt_size]; exact hnlt) (by rw [virt_nodeD, virtNode_valid]; exact hnv)).1
  rw [virt_nodeD, virtNode_kind] at hBk
  by_cases hk3 : ∀ b, (s.nodeD n).kind ≠ .bindLhsChange b
  · have hrhs : ∀ b lc br r0, (s.nodeD n).kind = .bindMain b lc → s.binds[b]? = some br → br.rhs = some r0 →
        (s.nodeD r0).valid = true := by
      intro b lc br r0 hkd hb hr
      have hc : r0 ∈ (virt g s).children n := by
        rw [virt_children]
        unfold State.children Node.kind?
        rw [hnv, hkd]
        simp only [if_true, hb, hr]
        simp
      have := ((gr.node n (by rw [virt_size]; exact hnlt) (by rw [virt_nodeD, virtNode_valid]; exact hnv)).2.2 r0 hc).2
      rw [virt_nodeD, virtNode_valid] at this
      exact this
    have hcn : (s.nodeD n).cutoff = .eq := by
      rcases hex with e | ⟨b, e⟩
      · exact e
      · exact absurd e (hk3 b)
    obtain ⟨hv, hfr, vm⟩ := recomputeOne_sim D.frag hnlt hnv hk1 hk2 hk3 hcn hrhs (fun a ha => (hkids a ha).1) h
    obtain ⟨g', D', f', hr', -⟩ := step_simulated LS LK D hk1 hk2 hex h
    -- the ghost of `step_simulated` in this case is `g`; redo the short argument to keep it syntactically
    have hkS : StaticKind (VE env sp) ((virt g s).nodeD n).kind ∨ ∃ b lc, ((virt g s).nodeD n).kind = .bindMain b lc := by
      rw [virt_nodeD, virtNode_kind]
      cases hkd : (s.nodeD n).kind <;> rw [hkd] at hBk <;> simp only [virtKind] at hBk ⊢ <;>
        first
        | exact Or.inl hBk
        | exact Or.inr ⟨_, _, rfl⟩
        | exact absurd hkd (hk3 _)
    obtain ⟨v, ch, ht, R⟩ := BindH.recomputeOne_stepB gr I.heap hnec hkS I.kids_values hv
    have I' := BindH.stepB_inv I ht R
    have A' := (hVirt env sp t).other fuel n _ _ r I ⟨D.aux, D.gen⟩ hkS hv
    obtain ⟨K', F'⟩ := static_keepsK' D hk1 hk2 hk3 (Or.inl hcn) h
    have hsz' : s'.nodes.size = s.nodes.size := by have := R.size; rw [virt_size, virt_size] at this; exact this
    obtain ⟨Dp', C'⟩ := dep_stepB D.dep D.cr I R (fun m => (kc_of_vm vm hsz' m).1) (fun m => (kc_of_vm vm hsz' m).2)
      (fun a b _ hc => by rw [hcn] at hc; cases hc)
    refine ⟨g, ⟨F', I', A'.1, A'.2, K', ?_, D.gs.of_gr (GR.of_vm vm), Dp', C'⟩, R.frame, R.recomputedAt, hv⟩
    refine minv_after D.m vm nv hnlt (fun m i hk => hk2 m i (by rw [← (vm.kind n hnlt).1]; exact hk)) ?_
    intro x m i hx hxn hxv hkx
    have hmr : ∀ p i, (s.nodeD x).kind ≠ .mapRef p i := by intro p i; rw [hkx]; intro h; cases h
    have h1 := (R.other x hxn).value
    rw [virt_value_field g s hmr, virt_value_field g s' (by rw [(vm.kind x hx).1]; exact hmr)] at h1
    exact h1
  · have : ∃ b, (s.nodeD n).kind = .bindLhsChange b := by
      cases hkd : (s.nodeD n).kind <;>
        first | exact ⟨_, rfl⟩ | (exfalso; apply hk3; intro b; rw [hkd]; intro h; cases h)
    obtain ⟨b, hkb⟩ := this
    obtain ⟨g', hv, hfr, R0⟩ := LS t s g fuel n b r s' D hkb h
    have hkv : ((virt g s).nodeD n).kind = .bindLhsChange b := by rw [virt_nodeD, virtNode_kind, hkb]; rfl
    obtain ⟨⟨br, br', R⟩, A'⟩ := (hVirt env sp t).lc fuel n b _ _ r I ⟨D.aux, D.gen⟩ hkv hv
    have I' := NestH.stepL2_inv I hkv R
    have K' := LK t s g g' fuel n b r s' D hkb h hv hfr R0
    have hback := mapRefsBack_of_vm D.frag.back R0.vm
    have hpc : s'.panicCountdown = none := I'.graph.pc
    have hkids' : ∀ x c, (s'.nodeD x).valid = true → c ∈ s'.children x → (s'.nodeD c).valid = true ∧ c < s'.nodes.size := by
      intro x c hxv hc
      have hx : x < s'.nodes.size := by
        by_cases hx : x < s'.nodes.size
        · exact hx
        · rw [BindH.children_default s' x (by omega)] at hc; cases hc
      have := (I'.graph.node x (by rw [virt_size]; exact hx) (by rw [virt_nodeD, virtNode_valid]; exact hxv)).2.2 c
        (by rw [virt_children]; exact hc)
      rw [virt_size, virt_nodeD, virtNode_valid] at this
      exact ⟨this.2, this.1⟩
    obtain ⟨Dp', C'⟩ := dep_stepL2 D.dep D.cr I hkb R R0.vm nv hnlt hkids'
    refine ⟨g', ⟨⟨hfr, hback, hpc⟩, I', A'.1, A'.2, K', ?_, D.gs.of_gr R0, Dp', C'⟩, R.frame I, R.self.1, hv⟩
    refine minv_after D.m R0.vm nv hnlt (fun m i hk => ?_) ?_
    · rw [(R0.vm.kind n hnlt).1, hkb] at hk; cases hk
    · intro x m i hx hxn hxv hkx
      have hmr : ∀ p i, (s.nodeD x).kind ≠ .mapRef p i := by intro p i; rw [hkx]; intro h; cases h
      rcases R.old x (by rw [virt_size]; exact hx) hxn with ⟨-, hd, -⟩ | ⟨-, -, -, h4, -⟩
      · rw [virt_nodeD, virtNode_valid, hxv] at hd; cases hd
      · rw [virt_value_field g s hmr, virt_value_field g' s' (by rw [(R0.vm.kind x hx).1]; exact hmr)] at h4
        exact h4

end
end IncrVerif.Proofs.FullT
