import IncrVerif.Proofs.NestH19
import IncrVerif.Proofs.NestH1
import IncrVerif.Proofs.BindH77
/-!
# Nested binds (F2), the run of a change detector, part 1: `All2` is a property of the keys, re-stamping, phase 0 (`Pre2`)

Port of `BindH73` (`CC1`).  Reused as they are: `CC.lc_run_inv`, `CC.NKey`, `CC.started_*`, `CC.ahhEmpty_started`.
-/
namespace IncrVerif.Proofs.NestH
open IncrVerif.Engine IncrVerif.Proofs IncrVerif.Proofs.Step IncrVerif.Proofs.Sched IncrVerif.Proofs.Quiet
open IncrVerif.Proofs.BindH
namespace NC

/-! ## `All2` is a property of the keys -/

/-- `All2` only reads kinds, validity, cutoffs, scopes, the bind table, the node count (and the ghost rank) -/
theorem all2_congr {env : Env} {rk : Nat → Nat} {s s' : State} {dy : List Nat} (A : All2 env rk s dy)
    (hsz : s'.nodes.size = s.nodes.size) (hb : s'.binds = s.binds)
    (eK : ∀ m, (s'.nodeD m).kind = (s.nodeD m).kind) (eV : ∀ m, (s'.nodeD m).valid = (s.nodeD m).valid)
    (eCut : ∀ m, (s'.nodeD m).cutoff = (s.nodeD m).cutoff)
    (eC : ∀ m, (s'.nodeD m).createdIn = (s.nodeD m).createdIn)
    (hpc : s'.panicCountdown = none) (hsc : s'.currentScope = .top) : All2 env rk s' dy := by
  have hch : ∀ m, s'.children m = s.children m := fun m => by
    by_cases hm : m < s.nodes.size
    · exact children_congr_B (eK m) (eV m) hb (A.node m hm).kind
    · rw [children_default s m (by omega), children_default s' m (by rw [hsz]; omega)]
  refine ⟨hpc, hsc, fun n hn => ?_, ?_, ?_, ?_, ?_, ?_, ?_, ?_, ?_⟩
  · have sn := A.node n (by rw [← hsz]; exact hn)
    refine ⟨by rw [eK]; exact sn.kind, by rw [eCut]; exact sn.cutoff, ?_, ?_, ?_, ?_, ?_, ?_, ?_, ?_⟩
    · rw [hch, hsz]; exact sn.kidsIn
    · intro c hc; rw [hch] at hc; rw [eV]; exact sn.kidsValid c hc
    · rw [hch]; exact sn.kidLt
    · rw [eK, hb]; exact sn.lcRec
    · rw [eK, hb]; exact sn.mainRec
    · intro c b hc hk
      rw [hch] at hc
      rw [eK] at hk ⊢
      exact sn.lcChild c b hc hk
    · intro h
      rw [eC] at h
      obtain ⟨h1, h2⟩ := sn.top h
      refine ⟨by rw [eV]; exact h1, ?_⟩
      intro c hc
      rw [hch] at hc
      rw [eC, eK]
      exact h2 c hc
    · intro b h
      rw [eC] at h
      obtain ⟨h2, br, h3, h4, h5⟩ := sn.inScope b h
      refine ⟨by rw [eK]; exact h2, br, by rw [hb]; exact h3, h4, ?_⟩
      intro c hc
      rw [hch] at hc
      rw [eC, eK]
      exact h5 c hc
  · intro b br hbr
    rw [hb] at hbr
    rw [hsz, eK, eK, eC, eC]
    exact A.recs b br hbr
  · intro b br hbr m
    rw [hb] at hbr
    rw [hsz, eV, eC]
    exact A.gen b br hbr m
  · intro b br hbr
    rw [hb] at hbr
    exact A.genDy b br hbr
  · intro m hm
    rw [hsz, eC]
    exact A.dyIn m hm
  · intro n b br hn hv hsc' hbr
    rw [hsz] at hn; rw [eV] at hv; rw [eC] at hsc'; rw [hb] at hbr
    rw [eV, eV]
    exact A.scopeValid n b br hn hv hsc' hbr
  · intro b br hbr
    rw [hb] at hbr
    rw [eV, eV]
    exact A.recValid b br hbr
  · intro n b br hn hsc' hbr
    rw [hsz] at hn; rw [eC] at hsc'; rw [hb] at hbr
    exact A.scopeRk n b br hn hsc' hbr
  · intro n m hn hm
    rw [hsz] at hn hm
    exact A.rkInj n m hn hm

/-! ## phase 0: the running node is stamped -/

/-- the structural invariant when one node (not queued) is re-stamped: only `queued` and `qstale` have to be
re-established -/
theorem ginv2_restamp {env : Env} {rk : Nat → Nat} {s s1 : State} {n : Nat} {ex ex' : Nat → Prop} {dy : List Nat}
    (G : GInv2 env rk s allClosed ex dy)
    (hpc : s1.panicCountdown = s.panicCountdown) (hsc : s1.currentScope = s.currentScope)
    (hsz : s1.nodes.size = s.nodes.size) (hrch : s1.rch = s.rch) (hvars : s1.vars = s.vars)
    (hbinds : s1.binds = s.binds)
    (hnd : ∀ m, ∃ y, s1.nodeD m = { s.nodeD m with recomputedAt := y })
    (hother : ∀ m, m ≠ n → s1.nodeD m = s.nodeD m)
    (hnq : (s.nodeD n).inRch = false) (hfresh : s1.isStale n = false)
    (hq : ∀ m, m ≠ n → s.isNecessary m = true → s.isStale m = true → ¬ ex' m → (s.nodeD m).inRch = true) :
    GInv2 env rk s1 allClosed ex' dy := by
  have hkind : ∀ m, (s1.nodeD m).kind = (s.nodeD m).kind := fun m => by
    obtain ⟨y, e⟩ := hnd m; rw [e]
  have hvalid : ∀ m, (s1.nodeD m).valid = (s.nodeD m).valid := fun m => by
    obtain ⟨y, e⟩ := hnd m; rw [e]
  have hcutoff : ∀ m, (s1.nodeD m).cutoff = (s.nodeD m).cutoff := fun m => by
    obtain ⟨y, e⟩ := hnd m; rw [e]
  have hcreated : ∀ m, (s1.nodeD m).createdIn = (s.nodeD m).createdIn := fun m => by
    obtain ⟨y, e⟩ := hnd m; rw [e]
  have hparents : ∀ m, (s1.nodeD m).parents = (s.nodeD m).parents := fun m => by
    obtain ⟨y, e⟩ := hnd m; rw [e]
  have hobs : ∀ m, (s1.nodeD m).observers = (s.nodeD m).observers := fun m => by
    obtain ⟨y, e⟩ := hnd m; rw [e]
  have hforce : ∀ m, (s1.nodeD m).forceNecessary = (s.nodeD m).forceNecessary := fun m => by
    obtain ⟨y, e⟩ := hnd m; rw [e]
  have hheight : ∀ m, (s1.nodeD m).height = (s.nodeD m).height := fun m => by
    obtain ⟨y, e⟩ := hnd m; rw [e]
  have hhrch : ∀ m, (s1.nodeD m).heightInRch = (s.nodeD m).heightInRch := fun m => by
    obtain ⟨y, e⟩ := hnd m; rw [e]
  have hchg : ∀ m, (s1.nodeD m).changedAt = (s.nodeD m).changedAt := fun m => by
    obtain ⟨y, e⟩ := hnd m; rw [e]
  have hinr : ∀ m, (s1.nodeD m).inRch = (s.nodeD m).inRch := fun m => by
    unfold Node.inRch; rw [hhrch m]
  have hnec : ∀ m, s1.isNecessary m = s.isNecessary m := fun m => by
    unfold State.isNecessary Node.isNecessary; rw [hparents, hobs, hforce]
  have hch : ∀ m, s1.children m = s.children m := fun m => by
    by_cases hm : m < s.nodes.size
    · exact children_congr_B (hkind m) (hvalid m) hbinds (G.frag.node m hm).kind
    · rw [children_default s m (by omega), children_default s1 m (by rw [hsz]; omega)]
  have hst : ∀ m, m ≠ n → s1.isStale m = s.isStale m := fun m e => by
    by_cases hm : m < s.nodes.size
    · exact isStale_congr_B (G.frag.node m hm).kind (hkind m) (hvalid m) (by rw [hother m e]) hvars hbinds
        (fun c _ => hchg c)
    · rw [BL.isStale_default s m (by omega), BL.isStale_default s1 m (by rw [hsz]; omega)]
  have hw : ∀ p i, Wants s1 allClosed p i ↔ Wants s allClosed p i := fun p i => by
    rw [wants_closed rfl, wants_closed rfl, hnec]
  exact {
    frag := all2_congr G.frag hsz hbinds hkind hvalid hcutoff hcreated (by rw [hpc]; exact G.frag.pc)
      (by rw [hsc]; exact G.frag.scope)
    par := fun c p i hm => by
      rw [hparents] at hm
      rw [hch, hw]
      exact G.par c p i hm
    conv := fun p i c hk hwn => by
      rw [hch] at hk
      rw [hw] at hwn
      rw [hparents]
      exact G.conv p i c hk hwn
    nodup := fun c => by rw [hparents]; exact G.nodup c
    hlt := fun c p i hm ho => by
      rw [hparents] at hm
      rw [hheight, hheight]
      exact G.hlt c p i hm ho
    hpos := fun m hn ho => by
      rw [hnec] at hn
      rw [hheight]; exact G.hpos m hn ho
    lnec := fun p k ho => by cases ho
    unec := fun p k ho => by cases ho
    heap := G.heap.congr hrch hsz hhrch
    hgt := fun m hq' ho => by
      rw [hinr] at hq'
      rw [hhrch, hheight]; exact G.hgt m hq' ho
    qnec := fun m hq' => by
      rw [hinr] at hq'
      rw [hnec]; exact G.qnec m hq'
    queued := fun m _ hn hs hx => by
      have e : m ≠ n := by
        intro e; subst e; rw [hfresh] at hs; cases hs
      rw [hnec] at hn
      rw [hst m e] at hs
      rw [hinr]; exact hq m e hn hs hx
    qstale := fun m hq' => by
      rw [hinr] at hq'
      have e : m ≠ n := by
        intro e; subst e; rw [hnq] at hq'; cases hq'
      rw [hst m e]; exact G.qstale m hq'
    opLt := fun m ho => absurd rfl ho
    scopeH := fun m b br hv hsc' hb hn ho => by
      rw [hvalid] at hv
      rw [hcreated] at hsc'
      rw [hbinds] at hb
      rw [hnec] at hn
      rw [hheight, hheight]
      exact G.scopeH m b br hv hsc' hb hn ho
    inv := fun m hv => by
      rw [hvalid] at hv
      rw [hparents, hobs, hforce, hinr]
      exact G.inv m hv
    scopeObs := fun m b h => by
      rw [hcreated] at h
      rw [hobs]; exact G.scopeObs m b h
    lcObs := fun m b h => by
      rw [hkind] at h
      rw [hobs]; exact G.lcObs m b h }

/-! ## everything about the state in which the closure run starts -/

/-- what `DInv` and `F2Inv` say about the bind of the running change detector, and the structural invariant in
`started n s`.  The change detector may itself be a node of an outer scope. -/
structure Pre2 (env : Env) (rk : Nat → Nat) (n b : Nat) (br : BindRec) (s : State) : Prop where
  hlt : n < s.nodes.size
  hvn : (s.nodeD n).valid = true
  hb : s.binds[b]? = some br
  hlc : br.lhsChange = n
  hmain : br.main = n + 1
  hml : br.main < s.nodes.size
  hkm : (s.nodeD br.main).kind = .bindMain b n
  hvm : (s.nodeD br.main).valid = true
  scM : (s.nodeD br.main).createdIn = (s.nodeD n).createdIn
  hmem : n ∈ s.children br.main
  necMain : s.isNecessary br.main = true
  hmr : (s.nodeD br.main).recomputedAt < s.stabNum
  g0 : GInv2 env rk (started n s) allClosed (· = br.main) []
  ahh0 : AhhEmpty (started n s)

theorem lc_pre2 {env : Env} {rk : Nat → Nat} {s : State} {n b : Nat} (I : DInv env s (some n)) (A : F2Inv env rk s)
    (hk : (s.nodeD n).kind = .bindLhsChange b) : ∃ br, Pre2 env rk n b br s := by
  obtain ⟨hn, hlt, hv, hnq, -⟩ := I.cur_facts
  have G := ginv2_of_dinv I A
  obtain ⟨br, hb, hlc⟩ := (A.frag.node n hlt).lcRec b hk
  obtain ⟨h1, h2, -, h4, h5⟩ := A.frag.recs b br hb
  have hvm : (s.nodeD br.main).valid = true := by rw [A.frag.recValid b br hb, hlc]; exact hv
  rw [hlc] at h1 h4 h5
  have hmem : n ∈ s.children br.main := by rw [G.main_children hb hvm, hlc]; exact List.mem_cons_self ..
  have necMain : s.isNecessary br.main = true := by
    -- `n` is necessary, unobserved and not forced: it has a recorded parent, which is the main node
    rcases (isNecessary_iff s n).1 hn with hp | ho | hf
    · obtain ⟨⟨p, i⟩, hpi⟩ := List.exists_mem_of_ne_nil _ hp
      obtain ⟨hpn, hci⟩ := I.graph.parent n p i hpi
      have hpl := I.graph.nec_lt hpn
      have hkp := (A.frag.node p hpl).lcChild n b (List.mem_of_getElem? hci) hk
      obtain ⟨br', hb', hm', -⟩ := (A.frag.node p hpl).mainRec b n hkp
      rw [hb] at hb'; cases hb'
      rw [hm']; exact hpn
    · exact absurd (A.lcObs n b hk) ho
    · rw [A.noForce n] at hf; cases hf
  have hBn : BKind env ((started n s).nodeD n).kind := by
    rw [CC.started_self hlt]; show BKind env (s.nodeD n).kind; rw [hk]; trivial
  have hfresh : (started n s).isStale n = false := by
    apply isStale_fresh hBn (show 0 ≤ s.stabNum from I.stamps.now)
    · show ((started n s).nodeD n).recomputedAt = s.stabNum
      rw [CC.started_self hlt]
    · exact I.stamps.var
    · intro c
      show ((started n s).nodeD c).changedAt ≤ s.stabNum
      obtain ⟨y, e⟩ := CC.started_upto n s c
      rw [e]; exact (I.stamps.node c).2
  have G1 : GInv2 env rk (started n s) allClosed (· = br.main) [] :=
    ginv2_restamp G rfl rfl (CC.started_size n s) rfl rfl rfl (CC.started_upto n s)
      (fun m e => CC.started_other s e)
      hnq hfresh (fun m e hmn' hms _ => by
        rcases I.pending m hmn' hms with h1 | h1
        · exact h1
        · exact absurd (Option.some.inj h1).symm e)
  exact ⟨br, hlt, hv, hb, hlc, h1, h2, h4, hvm, h5, hmem, necMain,
    I.fresh br.main n (Below.of_edge (Edge.child hmem)) (Or.inr rfl), G1, CC.ahhEmpty_started A.ahh⟩

end NC
end IncrVerif.Proofs.NestH
