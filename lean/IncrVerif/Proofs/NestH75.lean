import IncrVerif.Proofs.NestH68
import IncrVerif.Proofs.NestH70
import IncrVerif.Proofs.NestH74
import IncrVerif.Proofs.NestH67
/-!
# Nested binds (F2), END TO END, part b: "generations are current" and the specification-level semantics over whole histories

`QG2 env s := QI2 env s ∧ GenOK2 env s` is kept by every API action of the fragment (`step_F2`); at every `stabilise` of a history every in-use observer reads
`den2` — evaluate the lhs of each bind, run the closure on that value, evaluate the template it returns, inner binds recursively (`history_stabilise_F2`).
-/
namespace IncrVerif.Proofs.NestH
open IncrVerif.Engine IncrVerif.Driver IncrVerif.Proofs IncrVerif.Proofs.Step IncrVerif.Proofs.Sched IncrVerif.Proofs.Quiet
open IncrVerif.Proofs.BindH

/-- the closure run registers exactly the image of the closure's template -/
theorem closure_elab2' (env : Env) : ClosureElabSpec2 env := closure_elab2 env

/-- the invariant between API actions, with "generations are current" -/
def QG2 (env : Env) (s : State) : Prop := QI2 env s ∧ GenOK2 env s

/-- **`GenOK2` is kept by a run of a change detector** -/
theorem lc_gen2' {env : Env} {fuel n b : Nat} {rk : Nat → Nat} {s s' : State} {r : Option Nat}
    (I : DInv env s (some n)) (A : F2Inv env rk s) (G : GenOK2 env s) (hk : (s.nodeD n).kind = .bindLhsChange b)
    (h : (recomputeOne env fuel n).run.run s = (.ok r, s')) : GenOK2 env s' :=
  N5g.lc_gen2 (closure_spec2 env) (relink_spec2 env) (inval_spec2 env) (closure_elab2 env) I A G hk h

/-- **`stabilise` keeps "generations are current"** -/
theorem stabilise_gen2' {env : Env} {fuel : Nat} {s s' : State} (Q : QI2 env s) (G : GenOK2 env s)
    (h : (stabilise env fuel).run.run s = (.ok (), s')) : GenOK2 env s' :=
  stabilise_gen2 (closure_spec2 env) (relink_spec2 env) (inval_spec2 env) (closure_elab2 env) Q G h

/-- **after a `stabilise` every in-use observer reads the specification-level from-scratch value `den2` of its node** -/
theorem stabilise_reads_den2' {env : Env} {fuel : Nat} {s s' : State} (Q : QI2 env s) (G : GenOK2 env s)
    (h : (stabilise env fuel).run.run s = (.ok (), s')) :
    ∀ (o : Nat) (ob : ObsRec), s'.observers[o]? = some ob → ob.state = .inUse →
      ∃ v, s'.tryGetValue env o = .ok v ∧ ∃ K, ∀ k, K ≤ k → den2 env s' k ob.node = some v :=
  stabilise_reads_den2 (closure_spec2 env) (relink_spec2 env) (inval_spec2 env) (closure_elab2 env) Q G h

/-- **Every API action of the fragment keeps the invariant.** -/
theorem step_F2 {env : Env} {s s' : State} {a : Action} {tokens : Array Nat} {r : String × Array Nat}
    (Q : QG2 env s) (ha : ActionF2 env s.top.size a) (h : (stepAction env a tokens).run.run s = (.ok r, s')) :
    QG2 env s' :=
  ⟨step_q2' Q.1 ha h,
    step_gen2 (closure_spec2 env) (relink_spec2 env) (inval_spec2 env) (closure_elab2 env) Q.1 Q.2 ha h⟩

theorem qg2_init (env : Env) (N : Nat) (d : Bool) : QG2 env (State.init N d) :=
  ⟨qi2_init env N d, genOK2_init env N d⟩

/-- a run of `as ++ bs` from a state satisfying the invariant: the prefix runs and reaches a state satisfying the invariant from which the rest runs -/
theorem runActions_split_F2 {env : Env} {as bs : List Action} {s s' : State} {tk tk' : Array Nat}
    (Q : QG2 env s) (hH : HistF2 env s.top.size (as ++ bs))
    (h : Quiet.runActions env (as ++ bs) s tk = .ok (s', tk')) :
    ∃ s1 tk1, Quiet.runActions env as s tk = .ok (s1, tk1) ∧ QG2 env s1 ∧ HistF2 env s1.top.size bs ∧
      Quiet.runActions env bs s1 tk1 = .ok (s', tk') := by
  induction as generalizing s tk with
  | nil => exact ⟨s, tk, rfl, Q, hH, h⟩
  | cons a as ih =>
    simp only [List.cons_append, Quiet.runActions] at h ⊢
    obtain ⟨ha, hrest⟩ := hH
    rcases hx : (stepAction env a tk).run.run s with ⟨_ | r, s1⟩
    · rw [hx] at h; cases h
    · rw [hx] at h
      have Q1 := step_F2 Q ha hx
      have ht := N4h.top_step2 Q.1 ha hx
      have hrest' : HistF2 env s1.top.size (as ++ bs) := by rw [ht]; exact hrest
      exact ih Q1 hrest' h

/-- **Whole histories.** Every state reached from the initial state by a history of the fragment (that runs without panic) satisfies the invariant. -/
theorem history_F2 {env : Env} {N : Nat} {d : Bool} {acts : List Action} {s : State} {tk : Array Nat}
    (hH : HistF2 env 0 acts) (h : Quiet.runActions env acts (State.init N d) #[] = .ok (s, tk)) : QG2 env s := by
  have hH' : HistF2 env (State.init N d).top.size (acts ++ []) := by rw [List.append_nil]; exact hH
  have h' : Quiet.runActions env (acts ++ []) (State.init N d) #[] = .ok (s, tk) := by
    rw [List.append_nil]; exact h
  obtain ⟨s1, tk1, -, Q1, -, h2⟩ := runActions_split_F2 (qg2_init env N d) hH' h'
  simp only [Quiet.runActions] at h2
  cases h2
  exact Q1

/-- **Every `stabilise` of a history.** At each `stabilise` action of a history of the fragment that runs from the initial state: the state `s1` before it satisfies
the invariant; the `stabilise` returns a state `s2` with all conclusions of `stabilise_F2'` (invariant again, values = `evalB`, the drain ran no node twice and no node of
a dying generation of any depth); and every in-use observer reads the FROM-SCRATCH value `den2` of its node. -/
theorem history_stabilise_F2 {env : Env} {N : Nat} {d : Bool} {as bs : List Action} {s : State} {tk : Array Nat}
    (hH : HistF2 env 0 (as ++ Action.stabilise :: bs))
    (h : Quiet.runActions env (as ++ Action.stabilise :: bs) (State.init N d) #[] = .ok (s, tk)) :
    ∃ s1 tk1 s2, Quiet.runActions env as (State.init N d) #[] = .ok (s1, tk1) ∧ QG2 env s1 ∧
      (stabilise env fuelDefault).run.run s1 = (.ok (), s2) ∧ Stabilised2 env fuelDefault s1 s2 ∧ QG2 env s2 ∧
      (∀ (o : Nat) (ob : ObsRec), s2.observers[o]? = some ob → ob.state = .inUse →
        ∃ v, s2.tryGetValue env o = .ok v ∧ ∃ K, ∀ k, K ≤ k → den2 env s2 k ob.node = some v) ∧
      Quiet.runActions env bs s2 tk1 = .ok (s, tk) := by
  obtain ⟨s1, tk1, h1, Q1, hH1, h2⟩ := runActions_split_F2 (qg2_init env N d) hH h
  simp only [Quiet.runActions] at h2
  rcases hx : (stepAction env .stabilise tk1).run.run s1 with ⟨_ | r, s2⟩
  · rw [hx] at h2; cases h2
  · rw [hx] at h2
    replace h2 : Quiet.runActions env bs s2 r.2 = .ok (s, tk) := h2
    have hst := Quiet.step_stabilise hx
    have htk : r.2 = tk1 := by
      unfold stepAction at hx
      dsimp only at hx
      obtain ⟨u, s3, h3, h4⟩ := bind_ok_inv hx
      obtain ⟨e, -⟩ := pure_ok_inv h4
      rw [e]
    rw [htk] at h2
    have S := stabilise_F2' Q1.1 hst
    exact ⟨s1, tk1, s2, h1, Q1, hst, S, ⟨S.inv, stabilise_gen2' Q1.1 Q1.2 hst⟩,
      stabilise_reads_den2' Q1.1 Q1.2 hst, h2⟩

/-- the nested example history is a history of the fragment, it runs, and every state it reaches satisfies the invariant -/
theorem exHistN_F2 : HistF2 nEnv 0 exHistN ∧
    (∃ s tk, Quiet.runActions nEnv exHistN (State.init 128 true) #[] = .ok (s, tk) ∧ QG2 nEnv s) := by
  refine ⟨exHistN_frag, ?_⟩
  obtain ⟨s, tk, h⟩ := exHistN_runs
  exact ⟨s, tk, h, history_F2 exHistN_frag h⟩

end IncrVerif.Proofs.NestH
