import IncrVerif.Proofs.PerKeyH60
import IncrVerif.Proofs.PerKeyH36
/-!
# One `.right` iteration of the per-key loop, part c: steps E, F (`σ4 → σ6`) and the whole chain
-/
namespace IncrVerif.Proofs.PerKeyH
open IncrVerif.Engine IncrVerif.Driver IncrVerif.Proofs IncrVerif.Proofs.Step IncrVerif.Proofs.Sched
open IncrVerif.Proofs.ExpertH IncrVerif.Proofs.EffH IncrVerif.Proofs.DriverH IncrVerif.Proofs.ExpertH.QR IncrVerif.Proofs.Xp

/-- what the steps E, F add to the shape: the new edge of the result record, the names, the operator records -/
structure REF (op : Nat) (key : Int) (eres : Nat) (er : ExpertRec) (σ σ6 : State) (mapped dep : Nat) : Prop where
  hdep : dep = σ.nextDep + 1
  nextDep : σ6.nextDep = σ.nextDep + 2
  perkeys : σ6.perkeys = σ.perkeys.modify op fun p =>
    { p with prevNodes := (key, (σ.nodes.size, dep)) :: p.prevNodes.filter (·.1 != key) }
  xres : ∃ er', σ6.experts[eres]? = some er' ∧
    er'.children = er.children ++ [{ dep := σ.nextDep + 1, child := mapped, cb := some (σ.nextDep + 1) }] ∧
    er'.forceStale = true

theorem r_stepEF {env : Env} {fuel op lc eres res : Nat} {key : Int} {tm : Template} {σ σ4 σ5 : State}
    {mapped dep : Nat} {er : ExpertRec}
    (R4 : RSh env op key lc tm (fun _ => False) σ σ4 mapped) (hnd4 : σ4.nextDep = σ.nextDep + 1)
    (hpk4 : σ4.perkeys = σ.perkeys) (hmlt : mapped < σ4.nodes.size)
    (hres : res < σ.nodes.size) (hk : (σ.nodeD res).kind = .expert eres) (he : σ.experts[eres]? = some er)
    (hacyc : ¬ ExpertH.Below σ4 mapped res)
    (h5 : (expertAddDependency env fuel res mapped true).run.run σ4 = (.ok dep, σ5)) :
    RSh env op key lc tm (fun e => e = eres) σ (rS6 op key σ.nodes.size dep σ5) mapped ∧
      REF op key eres er σ (rS6 op key σ.nodes.size dep σ5) mapped dep ∧
      RSh env op key lc tm (fun e => e = eres) σ σ5 mapped ∧ σ5.perkeys = σ.perkeys := by
  obtain ⟨er4, he4, -, -, -, -, -, -, -, hc4, -, -⟩ := R4.lfx.lf.xrec eres er he
  have hc4 : er4.children = er.children := hc4 fun h => h
  have hlt4 : res < σ4.nodes.size := Nat.lt_of_lt_of_le hres R4.lfx.lf.grow
  obtain ⟨M5, S5, lfx45, lk, hdep, hnd5, er5, he5, hch5, hfs5, -, -, -⟩ :=
    r_addDep R4.mid R4.slots hlt4 (by rw [R4.kind_old hres]; exact hk) he4 hmlt hacyc h5
  have hXlt : eres < σ.experts.size := (Array.getElem?_eq_some_iff.1 he).1
  have hN4 : σ.nodes.size < σ4.nodes.size := by rw [R4.size]; omega
  -- the shape of σ5
  have R5 : RSh env op key lc tm (fun e => e = eres) σ σ5 mapped := by
    refine ⟨M5, S5, (R4.lfx.mono fun _ h => h.elim).trans lfx45, by rw [lk.size, R4.size], by rw [lk.xsize, R4.xsize],
      ?_, fun j i hji => ?_, R4.ret, ?_⟩
    · rw [lfx45.lf.node _ hN4]; exact R4.pnode
    · obtain ⟨k, h1, h2⟩ := R4.inode j i hji
      have hlt : j < tm.instrs.length := by
        rcases Nat.lt_or_ge j tm.instrs.length with h | h
        · exact h
        · rw [List.getElem?_eq_none h] at hji; cases hji
      exact ⟨k, h1, by rw [lfx45.lf.node _ (by rw [R4.size]; omega)]; exact h2⟩
    · obtain ⟨erX, hx, x1, x2, x3, x4, x5⟩ := R4.xnew
      obtain ⟨erX', hx', y1, y2, y3, -, -, -, -, y8, -, -⟩ := lfx45.lf.xrec _ erX hx
      have hne : ¬ σ.experts.size = eres := by omega
      exact ⟨erX', hx', y1.trans x1, y2.trans x2, y3.trans x3, (y8 hne).trans x4,
        (lfx45.fs _ erX erX' hne hx hx').trans x5⟩
  -- the operator records
  have hS6 : ∀ pk, SlotInv env { σ5 with perkeys := pk } := fun pk =>
    r_cfx_slots M5 S5 (CFX.of_nodes rfl rfl rfl)
  have lfx56 : LFX (fun e => e = eres) σ5 (rS6 op key σ.nodes.size dep σ5) := LFX.of_same rfl rfl rfl rfl
  refine ⟨⟨mid_twL_perkeys M5 _, hS6 _, R5.lfx.trans lfx56, R5.size, R5.xsize, R5.pnode, R5.inode, R5.ret, R5.xnew⟩,
    ⟨by rw [hdep, hnd4], ?_, ?_, er5, he5, ?_, hfs5⟩, R5, by rw [lk.perkeys, hpk4]⟩
  · show σ5.nextDep = _
    rw [hnd5, hnd4]
  · simp only [rS6]
    rw [lk.perkeys, hpk4]
  · rw [hch5, hc4]
    simp only [newEdge, hnd4, if_true]

end IncrVerif.Proofs.PerKeyH
