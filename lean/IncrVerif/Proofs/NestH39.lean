import IncrVerif.Proofs.NestH38
/-!
# Nested binds (F2), the run of a change detector, part 4: `StepL2`

Port of `BindH76` (`CC4`).
-/
namespace IncrVerif.Proofs.NestH
open IncrVerif.Engine IncrVerif.Proofs IncrVerif.Proofs.Step IncrVerif.Proofs.Sched IncrVerif.Proofs.Quiet
open IncrVerif.Proofs.BindH
namespace NC

/-- a valid node that has never been computed (not a variable) is stale -/
theorem isStale_pristine2 {s : State} {m : Nat} (hv : (s.nodeD m).valid = true)
    (hnv : ∀ c, (s.nodeD m).kind ≠ .var c) (hr : (s.nodeD m).recomputedAt = -1) : s.isStale m = true := by
  unfold State.isStale
  simp only [Node.kind?, hv, if_true, hr]
  cases hkd : (s.nodeD m).kind <;> first
    | exact absurd hkd (hnv _)
    | rfl
    | simp

namespace MidRel2
variable {env : Env} {rk' : Nat → Nat} {n b rhs : Nat} {br : BindRec} {l : List Nat} {s t : State}

/-- an old record after phase 3: same `lhs`, `lhsChange`, `main`, `body`; same `rhs` unless it is the record of `b` -/
theorem bind_old (M : MidRel2 env rk' n b rhs br l s t) (hb : s.binds[b]? = some br) {b' : Nat} {br0 : BindRec}
    (h0 : s.binds[b']? = some br0) :
    ∃ br1, t.binds[b']? = some br1 ∧ br1.lhs = br0.lhs ∧ br1.lhsChange = br0.lhsChange ∧ br1.main = br0.main ∧
      br1.body = br0.body ∧ (b' ≠ b → br1.rhs = br0.rhs) := by
  by_cases e : b' = b
  · subst e
    rw [hb] at h0; cases h0
    exact ⟨_, M.bind, rfl, rfl, rfl, rfl, fun h => absurd rfl h⟩
  · obtain ⟨k1, k2⟩ := M.bindsOld b' br0 e h0
    by_cases hd : Dying s br.allNodesCreatedOnRhs br0.main
    · exact ⟨_, k1 hd, rfl, rfl, rfl, rfl, fun _ => rfl⟩
    · exact ⟨_, k2 hd, rfl, rfl, rfl, rfl, fun _ => rfl⟩

/-- the child list of a surviving node other than the bind's main node is unchanged -/
theorem children (M : MidRel2 env rk' n b rhs br l s t) {rk : Nat → Nat} (A : All2 env rk s [])
    (hb : s.binds[b]? = some br) {m : Nat}
    (hlt : m < s.nodes.size) (hd : ¬ Dying s br.allNodesCreatedOnRhs m) (hm : m ≠ br.main) :
    t.children m = s.children m := by
  have sn := A.node m hlt
  have k := M.nk m hlt hd
  unfold State.children Node.kind?
  rw [k.kind, k.valid]
  cases hv : (s.nodeD m).valid
  · rfl
  · simp only [if_true]
    cases hkd : (s.nodeD m).kind with
    | bindLhsChange b' =>
      dsimp only
      obtain ⟨br0, h0, -⟩ := sn.lcRec b' hkd
      obtain ⟨br1, h1, e1, -⟩ := M.bind_old hb h0
      rw [h0, h1]
      dsimp only
      rw [e1]
    | bindMain b' lc =>
      dsimp only
      obtain ⟨br0, h0, hm0, -⟩ := sn.mainRec b' lc hkd
      have e : b' ≠ b := by
        intro e; subst e
        rw [hb] at h0; cases h0
        exact hm hm0.symm
      obtain ⟨br1, h1, -, -, -, -, e5⟩ := M.bind_old hb h0
      rw [h0, h1]
      dsimp only
      rw [e5 e]
    | expert e => have := sn.kind; rw [hkd] at this; exact this.elim
    | _ => rfl

end MidRel2

namespace Mid2
variable {env : Env} {rk rk' : Nat → Nat} {n b rhs : Nat} {br : BindRec} {l : List Nat} {r : Option Nat}
  {s t s' : State}

theorem stab (X : Mid2 env rk rk' n b rhs br l r s t s') : s'.stabNum = s.stabNum :=
  X.step.stabNum.trans X.rel.stabNum

theorem nd (X : Mid2 env rk rk' n b rhs br l r s t s') (A : F2Inv env rk s) :
    ¬ Dying s br.allNodesCreatedOnRhs n := X.pre.n_notDying A

theorem md (X : Mid2 env rk rk' n b rhs br l r s t s') (A : F2Inv env rk s) :
    ¬ Dying s br.allNodesCreatedOnRhs br.main := X.pre.main_notDying A

/-- the four kinds of indices -/
theorem classes (_X : Mid2 env rk rk' n b rhs br l r s t s') (m : Nat) :
    (m < s.nodes.size ∧ ¬ Dying s br.allNodesCreatedOnRhs m) ∨ Dying s br.allNodesCreatedOnRhs m ∨
      (s.nodes.size ≤ m ∧ m < t.nodes.size) ∨ t.nodes.size ≤ m := by
  by_cases hd : Dying s br.allNodesCreatedOnRhs m
  · exact Or.inr (Or.inl hd)
  · by_cases h1 : m < s.nodes.size
    · exact Or.inl ⟨h1, hd⟩
    · by_cases h2 : m < t.nodes.size
      · exact Or.inr (Or.inr (Or.inl ⟨by omega, h2⟩))
      · exact Or.inr (Or.inr (Or.inr (by omega)))

/-- no stamp of `t` is in the future -/
theorem stampsT (X : Mid2 env rk rk' n b rhs br l r s t s') (I : DInv env s (some n)) (m : Nat) :
    (t.nodeD m).recomputedAt ≤ s.stabNum ∧ (t.nodeD m).changedAt ≤ s.stabNum := by
  have M := X.rel
  rcases X.classes m with ⟨h1, hd⟩ | hd | ⟨h1, h2⟩ | h1
  · by_cases e : m = n
    · subst e; rw [M.recN, M.chgN]; exact ⟨Int.le_refl _, Int.le_refl _⟩
    · rw [M.recO m h1 hd e, M.chgO m h1 hd e]; exact I.stamps.node m
  · obtain ⟨-, -, -, -, -, -, d6, d7, -⟩ := M.dead m hd
    exact ⟨d6, d7⟩
  · obtain ⟨-, -, c3, c4, -⟩ := M.new m h1 h2
    rw [c3, c4]
    have := I.stamps.now
    exact ⟨by omega, by omega⟩
  · rw [nodeD_default t m h1, ← nodeD_default s m (by have := M.grow; omega)]
    exact I.stamps.node m

/-- the last step changes no stamp at all (`n` was stamped by `started` and by `lhsRelink`) -/
theorem recT (X : Mid2 env rk rk' n b rhs br l r s t s') (m : Nat) :
    (s'.nodeD m).recomputedAt = (t.nodeD m).recomputedAt := by
  by_cases e : m = n
  · subst e; rw [X.step.recomputedAt, X.rel.recN, X.rel.stabNum]
  · exact (X.step.other m e).recomputedAt

theorem chgT (X : Mid2 env rk rk' n b rhs br l r s t s') (m : Nat) :
    (s'.nodeD m).changedAt = (t.nodeD m).changedAt := by
  by_cases e : m = n
  · subst e; rw [X.step.changedAt, if_pos rfl, X.rel.chgN, X.rel.stabNum]
  · exact (X.step.other m e).changedAt

theorem keyEq (X : Mid2 env rk rk' n b rhs br l r s t s') : BL.KeyEq t s' :=
  ⟨X.step.size, X.step.binds, X.step.vars, fun m => (X.step.shapes m).valid, fun m => (X.step.shapes m).kind,
    fun m => (X.step.shapes m).cutoff, fun m => (X.step.shapes m).createdIn, X.recT, X.chgT⟩

theorem staleT (X : Mid2 env rk rk' n b rhs br l r s t s') (m : Nat) : s'.isStale m = t.isStale m :=
  KeyEq2.isStale2 X.keyEq X.ginv.frag m

theorem childrenT (X : Mid2 env rk rk' n b rhs br l r s t s') (m : Nat) : s'.children m = t.children m :=
  KeyEq2.children2 X.keyEq X.ginv.frag m

theorem children_other (X : Mid2 env rk rk' n b rhs br l r s t s') (A : F2Inv env rk s) {m : Nat}
    (hlt : m < s.nodes.size) (hd : ¬ Dying s br.allNodesCreatedOnRhs m) (hm : m ≠ br.main) :
    s'.children m = s.children m :=
  (X.childrenT m).trans (X.rel.children A.frag X.pre.hb hlt hd hm)

theorem main_lt (X : Mid2 env rk rk' n b rhs br l r s t s') : br.main < t.nodes.size := by
  have := X.rel.grow; have := X.pre.hml; omega

/-- the main node is stale after phase 3 -/
theorem main_stale (X : Mid2 env rk rk' n b rhs br l r s t s') (A : F2Inv env rk s) :
    t.isStale br.main = true := by
  have N := X.ginv.frag.node br.main X.main_lt
  apply isStale_of_child X.validMain N.kind (c := n)
  · rw [X.kidsMain]; exact List.mem_cons_self ..
  · rw [X.rel.chgN, X.rel.recO br.main X.pre.hml (X.md A) X.pre.ne]; exact X.pre.hmr

/-- the change detector is not stale after phase 3 -/
theorem n_fresh (X : Mid2 env rk rk' n b rhs br l r s t s') (I : DInv env s (some n)) : t.isStale n = false := by
  have hlt : n < t.nodes.size := nec_lt_size X.necN
  apply isStale_fresh (X.ginv.frag.node n hlt).kind (by rw [X.rel.stabNum]; exact I.stamps.now)
    (by rw [X.rel.recN, X.rel.stabNum])
  · intro c vc h
    rw [X.rel.vars] at h
    rw [X.rel.stabNum]; exact I.stamps.var c vc h
  · intro c
    rw [X.rel.stabNum]; exact (X.stampsT I c).2

/-- the only recorded parent of `n` after phase 3 is the main node -/
theorem par_n (X : Mid2 env rk rk' n b rhs br l r s t s') (A : F2Inv env rk s)
    (hk : (s.nodeD n).kind = .bindLhsChange b)
    {p : Nat} (hp : p ∈ (t.nodeD n).parents.map (·.1)) : p = br.main := by
  obtain ⟨⟨p', i⟩, hmem, rfl⟩ := List.mem_map.1 hp
  obtain ⟨hci, -⟩ := X.ginv.par n p' i hmem
  have hpl := children_lt_size hci
  have N := X.ginv.frag.node p' hpl
  have hkp := N.lcChild n b (List.mem_of_getElem? hci)
    (by rw [(X.rel.nk n X.pre.hlt (X.nd A)).kind]; exact hk)
  obtain ⟨br', hb', hm', -⟩ := N.mainRec b n hkp
  rw [X.rel.bind] at hb'
  cases hb'
  exact hm'.symm

theorem main_par (X : Mid2 env rk rk' n b rhs br l r s t s') : br.main ∈ (t.nodeD n).parents.map (·.1) := by
  have h0 : (t.children br.main)[0]? = some n := by rw [X.kidsMain]; rfl
  exact List.mem_map.2 ⟨(br.main, 0), X.ginv.conv br.main 0 n h0 ((wants_closed rfl).2 X.necMain), rfl⟩

theorem rhs_ne (X : Mid2 env rk rk' n b rhs br l r s t s') : rhs ≠ n := by
  have := X.pre.hlt
  rcases X.rhsOK with ⟨-, h, -⟩ | ⟨h, -⟩
  · intro e; rw [e] at h; omega
  · omega

end Mid2

/-- **the run of a change detector in F2 satisfies `StepL2`** -/
theorem stepL2_of_mid {env : Env} {rk rk' : Nat → Nat} {n b rhs : Nat} {br : BindRec} {l : List Nat}
    {r : Option Nat} {s t s' : State}
    (I : DInv env s (some n)) (A : F2Inv env rk s) (hk : (s.nodeD n).kind = .bindLhsChange b)
    (X : Mid2 env rk rk' n b rhs br l r s t s') :
    StepL2 env n b br { { br with allNodesCreatedOnRhs := l } with rhs := some rhs } r s s' := by
  have R := X.step
  have M := X.rel
  have hmst := X.main_stale A
  have kn := M.nk n X.pre.hlt (X.nd A)
  refine
    { bind := X.pre.hb
      bind' := by rw [R.binds]; exact M.bind
      lc := ⟨X.pre.hlc, X.pre.hlc, rfl, rfl, rfl⟩
      bindsOld := ⟨by rw [R.binds]; exact M.bindsGrow, fun b' br0 e h0 => ?_⟩
      grow := by rw [R.size]; exact M.grow
      vars := R.vars.trans M.vars
      stabNum := X.stab
      graph' := R.graph X.graph
      heap' := R.heap
      stamps' := ⟨by rw [X.stab]; exact I.stamps.now, fun m => ?_, fun c vc h => ?_⟩
      qstale' := fun m hm => ?_
      pending' := fun m hn hs => ?_
      self := ?_
      old := fun m hm e => ?_
      new := fun m h1 h2 => ?_
      main := ⟨X.pre.hml, X.pre.hmem, by rw [X.childrenT, X.kidsMain]; exact List.mem_cons_self .., X.pre.ne⟩
      ret := fun p hp => ?_ }
  · -- the other old records
    rw [R.binds]
    obtain ⟨k1, k2⟩ := M.bindsOld b' br0 e h0
    by_cases hd : Dying s br.allNodesCreatedOnRhs br0.main
    · refine ⟨_, k1 hd, ⟨rfl, rfl, rfl, rfl, rfl⟩, fun hv => ?_⟩
      rw [(R.shapes _).valid, (M.dead _ hd).1] at hv; cases hv
    · exact ⟨_, k2 hd, BSame.refl _, fun _ => rfl⟩
  · -- stamps of the nodes
    rw [X.stab, X.recT, X.chgT]
    exact X.stampsT I m
  · -- stamps of the variables
    rw [R.vars, M.vars] at h
    rw [X.stab]; exact I.stamps.var c vc h
  · -- only stale nodes are queued
    rw [X.staleT]
    rcases R.newIn m hm with h1 | ⟨-, h1⟩
    · exact X.ginv.qstale m h1
    · rw [X.par_n A hk h1]; exact hmst
  · -- stale necessary nodes are queued or handed over
    rw [R.nec] at hn
    rw [X.staleT] at hs
    by_cases e : m = br.main
    · rw [e]; exact R.parentsIn rfl br.main X.main_par
    · left
      have hq := X.ginv.queued m rfl hn hs e
      by_cases e2 : m = n
      · exfalso
        rw [e2, X.n_fresh I] at hs; cases hs
      · exact (R.other m e2).inRch hq
  · -- the change detector itself
    refine ⟨by rw [R.recomputedAt, M.stabNum], by rw [R.changedAt, if_pos rfl, M.stabNum], R.value, ?_,
      (R.shapes n).kind.trans kn.kind, X.children_other A X.pre.hlt (X.nd A) (Ne.symm X.pre.ne),
      (R.shapes n).createdIn.trans kn.createdIn⟩
    rw [(R.shapes n).valid, kn.valid]; exact X.pre.hvn
  · -- the other old nodes
    by_cases hd : Dying s br.allNodesCreatedOnRhs m
    · left
      obtain ⟨k1, k2⟩ := X.pre.dying_below A hd
      exact ⟨k1, by rw [(R.shapes m).valid]; exact (M.dead m hd).1, k2⟩
    · right
      have k := M.nk m hm hd
      refine ⟨(R.shapes m).valid.trans k.valid, (R.shapes m).kind.trans k.kind,
        (R.shapes m).createdIn.trans k.createdIn, ?_, ?_, ?_, fun hm' => X.children_other A hm hd hm'⟩
      · rw [(R.other m e).value, k.value]
      · rw [(R.other m e).recomputedAt, M.recO m hm hd e]
      · rw [(R.other m e).changedAt, M.chgO m hm hd e]
  · -- the new nodes
    rw [R.size] at h2
    have e : m ≠ n := by have := X.pre.hlt; omega
    obtain ⟨c1, c2, c3, -⟩ := M.new m h1 h2
    refine ⟨(R.other m e).recomputedAt.trans c3, (R.shapes m).createdIn.trans c1, fun _ => ?_⟩
    rw [X.staleT]
    obtain ⟨k1, -⟩ := (X.ginv.frag.node m h2).inScope b c1
    exact isStale_pristine2 c2 k1 c3
  · -- the handed-over node
    obtain ⟨-, h1, h2, h3⟩ := R.ret p hp
    have hpm := X.par_n A hk h1
    subst hpm
    refine ⟨rfl, h2, by rw [R.nec]; exact X.necMain, fun m hm => ?_⟩
    have hcm := X.kidsMain
    rw [(R.shapes _).height, (R.shapes m).height]
    rcases h3 with ⟨h4, -⟩ | h4 | ⟨b', lc, -, h4, -⟩
    · rw [hcm] at h4; cases h4
    · exact h4 m hm
    · rw [hcm] at h4
      injection h4 with _ h5
      injection h5 with h6 _
      exact absurd h6 X.rhs_ne

end NC
end IncrVerif.Proofs.NestH
