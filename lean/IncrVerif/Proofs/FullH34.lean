import IncrVerif.Proofs.FullH33
/-!
# C01 full fragment, MW4: assembling the new drain invariant of a map_with_old step — generic parts
-/
namespace IncrVerif.Proofs.FullH
open IncrVerif.Engine IncrVerif.Proofs IncrVerif.Proofs.Step IncrVerif.Proofs.Sched IncrVerif.Proofs.Quiet
open IncrVerif.Proofs.BindH (DInv BGraph StepRelB Edge Below TargetB ConsistentB BKind FrameB)
open IncrVerif.Proofs.NestH (AuxS2 Aux2 GenOK2 F2Inv)
open IncrVerif.Proofs.MapOldH (mwoX mwoX_nodeD mwoX_size MReach setValue_shape setValue_size setValue_recomputedAt)
open IncrVerif.Proofs.MapRefH (ValFrame)
namespace MW

/-- the virtual side: from the invariants of a (possibly patched) virtual pre-state `P` and the step relation `P → S'`, the invariants of `S'`
and the frame `S → S'` -/
theorem finish {env : Env} {rk : Nat → Nat} {n : Nat} {v : Val} {ch : Bool} {r : Option Nat} {S P S' : State}
    (hP : P = S ∨ ∃ u, P = setValue n u S)
    (IP : DInv env P (some n)) (AP : F2Inv env rk P) (GP : GenOK2 env P) (ht : TargetB env P n v) (R : StepRelB n v ch r P S')
    (hk : StaticKind env (S.nodeD n).kind ∨ ∃ b lc, (S.nodeD n).kind = .bindMain b lc) (hnv : (S.nodeD n).valid = true)
    (hnum : ∀ m, (S'.nodeD m).numOnUpdateHandlers = (S.nodeD m).numOnUpdateHandlers) (hah : BindH.BF.HAh S S')
    (htop : S'.top = S.top) (hahh : S'.ahh = S.ahh) (hpinv : S'.propagateInvalidity = S.propagateInvalidity)
    (hsc : S'.currentScope = S.currentScope) :
    DInv env S' r ∧ F2Inv env rk S' ∧ GenOK2 env S' ∧ FrameB S S' ∧ (S'.nodeD n).recomputedAt = S.stabNum ∧
      (S'.nodeD n).valid = true := by
  rcases hP with rfl | ⟨u, rfl⟩
  · exact ⟨BindH.stepB_inv IP ht R, post_F2 IP.graph AP R hnum hah htop hahh hpinv hsc, post_gen IP AP GP hk R htop,
      R.frame, R.recomputedAt, R.shape.valid.trans hnv⟩
  · have hk' : StaticKind env ((setValue n u S).nodeD n).kind ∨ ∃ b lc, ((setValue n u S).nodeD n).kind = .bindMain b lc := by
      rw [(setValue_shape n u S n).kind]; exact hk
    refine ⟨BindH.stepB_inv IP ht R, ?_, post_gen IP AP GP hk' R htop, ?_, R.recomputedAt, ?_⟩
    · exact post_F2 IP.graph AP R (fun m => by rw [hnum, setValue_num]) (fun m => by rw [hah m, setValue_heightInAhh]) htop hahh hpinv hsc
    · have fr0 : FrameB S (setValue n u S) :=
        ⟨rfl, rfl, by rw [setValue_size]; exact Nat.le_refl _, fun m hm => ⟨by rw [setValue_recomputedAt]; exact hm, setValue_valid u m⟩⟩
      exact fr0.trans R.frame
    · rw [R.shape.valid, setValue_valid]; exact hnv

/-! ## the actual side -/

/-- what the second half of the step (the notifications) leaves of the nodes -/
structure NV (X s' : State) : Prop where
  size : s'.nodes.size = X.nodes.size
  pc : s'.panicCountdown = none
  kind : ∀ k, (s'.nodeD k).kind = (X.nodeD k).kind
  valid : ∀ k, (s'.nodeD k).valid = (X.nodeD k).valid
  cutoff : ∀ k, (s'.nodeD k).cutoff = (X.nodeD k).cutoff
  value : ∀ k, (s'.nodeD k).value = (X.nodeD k).value
  oldState : ∀ k, (s'.nodeD k).oldState = (X.nodeD k).oldState

theorem NV.refl {X : State} (hpc : X.panicCountdown = none) : NV X X :=
  ⟨rfl, hpc, fun _ => rfl, fun _ => rfl, fun _ => rfl, fun _ => rfl, fun _ => rfl⟩

theorem NV.of_touched {n : Nat} {X s' : State} (hpc : X.panicCountdown = none) (q : Step.Quiet (touched n X) s') : NV X s' := by
  have hT := fun k => touched_nodeD n k X
  refine ⟨q.size.trans (by simp [touched]), q.pc hpc, fun k => ?_, fun k => ?_, fun k => ?_, fun k => ?_, fun k => ?_⟩
  · rw [(q.node k).kind, hT]; split <;> rfl
  · rw [(q.node k).valid, hT]; split <;> rfl
  · rw [(q.node k).cutoff, hT]; split <;> rfl
  · rw [(q.node k).value, hT]; split <;> rfl
  · rw [(q.node k).oldState, hT]; split <;> rfl

section
variable {env : Env} {sp : Nat → Val → Val} {g : Nat → Option Val} {s X s' : State} {n : Nat}

theorem ffrag_after (F : FFrag env sp g s) (VF : ValFrame n s X) (nv : NV X s') : FFrag env sp g s' :=
  F.of_frame (nv.size.trans VF.size) (fun k => (nv.kind k).trans (VF.kind k)) (fun k => (nv.cutoff k).trans (VF.cutoff k)) nv.pc

theorem minv_after {m i : Nat} {v σ : Val} (M : MInv env s) (VF : ValFrame n s X) (nv : NV X s')
    (hold : ∀ k, k ≠ n → (X.nodeD k).oldState = (s.nodeD k).oldState) (hk : (s.nodeD n).kind = .mapWithOld m i)
    (hXv : (X.nodeD n).value = some v) (hXo : (X.nodeD n).oldState = σ) (hr : MReach env (fun _ => True) m σ (some v)) :
    MInv env s' := by
  intro k m' i' hv hk'
  rw [nv.valid, VF.valid] at hv
  rw [nv.kind, VF.kind] at hk'
  rw [nv.value, nv.oldState]
  by_cases e : k = n
  · subst e
    rw [hk] at hk'; cases hk'
    rw [hXv, hXo]; exact hr
  · rw [VF.value k e, hold k e]
    exact M k m' i' hv hk'

theorem gsome_after (GS : GSome g s) (VF : ValFrame n s X) (nv : NV X s') (fm : MapRefH.FM X s') : GSome g s' := by
  intro k p i hv hk hd
  rw [nv.valid, VF.valid] at hv
  rw [nv.kind, VF.kind] at hk
  refine GS k p i hv hk ?_
  cases hs : (s.nodeD k).didChange with
  | false => rfl
  | true =>
    have := fm k (by rw [VF.flag]; exact hs)
    rw [this] at hd; cases hd

/-- the first run of a machine that reports "unchanged": the values read only change from `none`, and a map_ref node that reads `none`
in `s` has its flag up (`GSome`) -/
theorem kinv_first (F : FFrag env sp g s) (K : KInv env g s) (GS : GSome g s) (VF : ValFrame n s X)
    (hnm : ∀ p i, (s.nodeD n).kind ≠ .mapRef p i) (hv : (s.nodeD n).value = none) : KInv env g X := by
  have FX : FFrag env sp g X := F.of_valFrame VF
  have hval : ∀ k, X.value env k = s.value env k ∨ s.value env k = none := by
    intro k
    induction k using Nat.strongRecOn with
    | _ k ih =>
      by_cases hmr : (s.nodeD k).valid = true ∧ ∃ p i, (s.nodeD k).kind = .mapRef p i
      · obtain ⟨hvk, p, i, hkk⟩ := hmr
        have hi : i < k := F.input_lt hkk
        rw [value_mapRef F hvk hkk, value_mapRef FX (by rw [VF.valid]; exact hvk) (by rw [VF.kind]; exact hkk)]
        rcases ih i hi with h1 | h1
        · exact Or.inl (by rw [h1])
        · exact Or.inr (by rw [h1]; rfl)
      · have hs : (s.nodeD k).valid = false ∨ ∀ p i, (s.nodeD k).kind ≠ .mapRef p i := by
          cases hvk : (s.nodeD k).valid with
          | false => exact Or.inl rfl
          | true => exact Or.inr (fun p i e => hmr ⟨hvk, p, i, e⟩)
        have hX : (X.nodeD k).valid = false ∨ ∀ p i, (X.nodeD k).kind ≠ .mapRef p i := by
          rw [VF.valid, VF.kind]; exact hs
        rw [value_stored hs, value_stored hX]
        by_cases e : k = n
        · subst e; exact Or.inr hv
        · exact Or.inl (VF.value k e)
  refine K.congr VF.valid VF.nec VF.kind (fun k hd => by rw [← VF.flag]; exact hd) (fun k p i hvk hn hkk hd => ?_)
  rcases hval k with h1 | h1
  · exact h1
  · exfalso
    have hd0 : (s.nodeD k).didChange = false := by rw [← VF.flag]; exact hd
    have h2 := K k p i hvk hn hkk hd0
    have h3 := GS k p i hvk hkk hd0
    rw [h2, h1] at h3
    cases h3

/-- `tv` only reads the kind (map_ref or not) and the stored value -/
theorem tv_congr {a : Nat} (hk : (X.nodeD a).kind = (s.nodeD a).kind) (hv : (X.nodeD a).value = (s.nodeD a).value) :
    tv g X a = tv g s a := by
  by_cases hmr : ∃ p i, (s.nodeD a).kind = .mapRef p i
  · obtain ⟨p, i, h⟩ := hmr
    rw [tv_mapRef h, tv_mapRef (hk.trans h)]
  · have h0 : ∀ p i, (s.nodeD a).kind ≠ .mapRef p i := fun p i e => hmr ⟨p, i, e⟩
    rw [tv_not_mapRef h0, tv_not_mapRef (by rw [hk]; exact h0), hv]

/-- `DepInv` and `CRl` when a valueless node `n` that is not a `map` node gets a value and is stamped as recomputed (nothing else a reader sees changes):
the first run of a map_with_old node whose machine reports "unchanged" -/
theorem dep_first (Dp : DepInv g s) (C : CRl s) (VF : ValFrame n s X)
    (hnk : ∀ f args, (s.nodeD n).kind ≠ .map f args) (hnm : ∀ p i, (s.nodeD n).kind ≠ .mapRef p i)
    (hv : (s.nodeD n).value = none) (hst : X.stabNum = s.stabNum)
    (hch : ∀ k, (X.nodeD k).changedAt = (s.nodeD k).changedAt)
    (hrec : ∀ k, k ≠ n → (X.nodeD k).recomputedAt = (s.nodeD k).recomputedAt)
    (hrn : (X.nodeD n).recomputedAt = s.stabNum) : DepInv g X ∧ CRl X := by
  constructor
  · intro x a b w hvx hkx hcx hca hw
    rw [VF.valid] at hvx; rw [VF.kind] at hkx; rw [VF.cutoff] at hcx; rw [hch, hch] at hca
    have hxn : x ≠ n := by intro e; rw [e] at hkx; exact hnk _ _ hkx
    rw [VF.value x hxn] at hw
    have h1 := Dp x a b w hvx hkx hcx hca hw
    have han : a ≠ n := by
      intro e
      rw [e, tv_not_mapRef hnm, hv] at h1; cases h1
    rw [tv_congr (VF.kind a) (VF.value a han)]
    exact h1
  · intro k hvk hnmk hval hc
    rw [hst] at hc ⊢
    by_cases e : k = n
    · rw [e]; exact hrn
    · rw [VF.valid] at hvk; rw [VF.value k e] at hval; rw [hch] at hc
      rw [hrec k e]
      exact C k hvk (by intro p i; rw [← VF.kind]; exact hnmk p i) hval hc

/-- the machine invariant when the machine states and stored values of the map_with_old nodes are untouched -/
theorem minv_keep (M : MInv env s) (hk : ∀ k, (s'.nodeD k).kind = (s.nodeD k).kind) (hvd : ∀ k, (s'.nodeD k).valid = (s.nodeD k).valid)
    (hval : ∀ k m i, (s.nodeD k).kind = .mapWithOld m i →
      (s'.nodeD k).value = (s.nodeD k).value ∧ (s'.nodeD k).oldState = (s.nodeD k).oldState) : MInv env s' := by
  intro k m i hv hkk
  rw [hvd] at hv; rw [hk] at hkk
  obtain ⟨h1, h2⟩ := hval k m i hkk
  rw [h1, h2]
  exact M k m i hv hkk

end
end MW
end IncrVerif.Proofs.FullH
