import IncrVerif.Proofs.CutH15
import IncrVerif.Engine.Run
-- Port of Proofs/Quiet13.lean to ARBITRARY cutoffs (scratch name Q13); overview in Props/C06History.lean
/-!
# Part 12: the prefix of `stabilise`: `addNewObservers`, `unlinkDisallowedObservers`
-/
namespace IncrVerif.Proofs.CutH
open IncrVerif.Engine IncrVerif.Driver IncrVerif.Proofs IncrVerif.Proofs.Step IncrVerif.Proofs.Sched
variable {e : Bool}

/-- the invariant during the prefix of `stabilise`: `pn` / `pd` are the observers still to be added / unlinked -/
structure SInv (env : Env) (s : State) (pn pd : List Nat) : Prop where
  struct : Struct env s
  obs : ObsInv s pn pd
  pinv : s.propagateInvalidity = []
  handlers : ∀ m, (s.nodeD m).numOnUpdateHandlers ≤ 0

/-- how `addNewObservers` changes the state of an observer -/
def addedState : ObsState → ObsState
  | .created => .inUse
  | x => x

/-- how `unlinkDisallowedObservers` changes the state of an observer -/
def unlinkedState : ObsState → ObsState
  | .disallowed => .unlinked
  | x => x

/-- observer records: same number, same nodes, states mapped by `f` -/
def ObsMap (f : ObsState → ObsState) (s s' : State) : Prop :=
  s'.observers.size = s.observers.size ∧
  ∀ (o : Nat) (ob : ObsRec), s.observers[o]? = some ob →
    ∃ ob', s'.observers[o]? = some ob' ∧ ob'.node = ob.node ∧ ob'.state = f ob.state

namespace P12

/-! ## inversion helpers -/

theorem run_getObs (o : Nat) (s : State) :
    (getObs o).run.run s = match s.observers[o]? with
      | some x => (.ok x, s)
      | none => (.error (.site "model:no-such-observer"), s) := by
  simp only [getObs, run_bind, run_get]
  cases s.observers[o]? <;> rfl

theorem bind_getObs_inv {β} {o : Nat} {f : ObsRec → M β} {s s' : State} {r : β}
    (h : (getObs o >>= f).run.run s = (.ok r, s')) :
    ∃ ob, s.observers[o]? = some ob ∧ (f ob).run.run s = (.ok r, s') := by
  obtain ⟨ob, s1, h1, h2⟩ := bind_ok_inv h
  rw [run_getObs] at h1
  cases ho : s.observers[o]? with
  | none => rw [ho] at h1; cases h1
  | some x =>
    rw [ho] at h1; cases h1
    exact ⟨_, rfl, h2⟩

theorem bind_modObs_inv {β} {o : Nat} {g : ObsRec → ObsRec} {f : Unit → M β} {s s' : State} {r : β}
    (h : (modObs o g >>= f).run.run s = (.ok r, s')) :
    ∃ s1, s1 = { s with observers := s.observers.modify o g } ∧ (f ()).run.run s1 = (.ok r, s') := by
  unfold modObs at h
  rw [run_bind_modify] at h; exact ⟨_, rfl, h⟩

theorem has_cases {n : Nat} {s s' : State} {r : Except Panic Unit}
    (h : (handleAfterStabilisation n).run.run s = (r, s')) : s' = s ∨ s' = Sched.hasMarked n s := by
  unfold handleAfterStabilisation at h
  simp only [run_bind, run_getNode] at h
  cases hn : s.nodes[n]? with
  | none => rw [hn] at h; cases h; exact Or.inl rfl
  | some nd =>
    rw [hn] at h
    simp only [run_ite, run_pure, run_bind, run_modNode, run_modify] at h
    split at h
    · cases h; exact Or.inr rfl
    · cases h; exact Or.inl rfl

/-! ## the observer records after the state of one observer was set -/

/-- `t'` has the observer records of `t`, except that the state of `o` is now `x` -/
structure ObsSet (o : Nat) (x : ObsState) (t t' : State) : Prop where
  self : ∀ ob, t.observers[o]? = some ob → t'.observers[o]? = some { ob with state := x }
  other : ∀ o', o' ≠ o → t'.observers[o']? = t.observers[o']?
  size : t'.observers.size = t.observers.size

theorem ObsSet.of_modify {o : Nat} {x : ObsState} {t t' : State}
    (h : t'.observers = t.observers.modify o fun y => { y with state := x }) : ObsSet o x t t' := by
  refine ⟨fun ob hob => ?_, fun o' ho' => ?_, by rw [h]; simp⟩
  · rw [h, Array.getElem?_modify, if_pos rfl, hob]; rfl
  · rw [h, Array.getElem?_modify, if_neg (fun e => ho' e.symm)]

theorem ObsSet.then_eq {o : Nat} {x : ObsState} {t t' t'' : State} (h : ObsSet o x t t')
    (e : t''.observers = t'.observers) : ObsSet o x t t'' :=
  ⟨fun ob hob => by rw [e]; exact h.self ob hob, fun o' ho' => by rw [e]; exact h.other o' ho', by rw [e]; exact h.size⟩

/-- the general shape of the observer records in terms of the old ones -/
theorem ObsSet.recs {o : Nat} {x : ObsState} {t t' : State} (h : ObsSet o x t t') (o' : Nat) (ob : ObsRec)
    (hob : t.observers[o']? = some ob) :
    ∃ ob', t'.observers[o']? = some ob' ∧ ob'.node = ob.node ∧ ob'.handlers = ob.handlers ∧
      ((o' ≠ o ∧ ob'.state = ob.state) ∨ (o' = o ∧ ob'.state = x)) := by
  by_cases e : o' = o
  · rw [e] at hob ⊢
    exact ⟨_, h.self ob hob, rfl, rfl, Or.inr ⟨rfl, rfl⟩⟩
  · exact ⟨ob, by rw [h.other o' e]; exact hob, rfl, rfl, Or.inl ⟨e, rfl⟩⟩

/-- the converse: every new record comes from an old one -/
theorem ObsSet.back {o : Nat} {x : ObsState} {t t' : State} (h : ObsSet o x t t') (o' : Nat) (ob' : ObsRec)
    (hob : t'.observers[o']? = some ob') :
    ∃ ob, t.observers[o']? = some ob ∧ ob'.node = ob.node ∧ ob'.handlers = ob.handlers ∧
      ((o' ≠ o ∧ ob'.state = ob.state) ∨ (o' = o ∧ ob'.state = x)) := by
  have hlt : o' < t.observers.size := by
    rw [← h.size]; exact (Array.getElem?_eq_some_iff.1 hob).1
  obtain ⟨ob, hob0⟩ : ∃ ob, t.observers[o']? = some ob := ⟨_, Array.getElem?_eq_getElem hlt⟩
  obtain ⟨ob1, h1, h2, h3, h4⟩ := h.recs o' ob hob0
  rw [hob] at h1; cases h1
  exact ⟨ob, hob0, h2, h3, h4⟩

/-! ## the observer bookkeeping through one iteration -/

/-- skipping an observer that is not `created` (it was dropped before it was ever linked) -/
theorem obsInv_skip_step {t : State} {o : Nat} {rest pd : List Nat} {ob : ObsRec}
    (O : ObsInv t (o :: rest) pd) (hob : t.observers[o]? = some ob) (hst : ob.state ≠ .created) :
    ObsInv t rest pd where
  inRange := O.inRange
  mem := O.mem
  created o' ob' h hc := by
    rcases List.mem_cons.1 (O.created o' ob' h hc) with e | e
    · rw [e, hob] at h; cases h; exact absurd hc hst
    · exact e
  newIn o' h := O.newIn o' (List.mem_cons_of_mem _ h)
  dis := O.dis
  disIn := O.disIn
  disNodup := O.disNodup

/-- linking a `created` observer -/
theorem obsInv_add_step {t t' : State} {o : Nat} {rest pd : List Nat} {ob : ObsRec}
    (O : ObsInv t (o :: rest) pd) (hob : t.observers[o]? = some ob) (hst : ob.state = .created)
    (S : ObsSet o .inUse t t') (hsz : t'.nodes.size = t.nodes.size)
    (hself : (t'.nodeD ob.node).observers = (t.nodeD ob.node).observers ++ [o])
    (hoth : ∀ m, m ≠ ob.node → (t'.nodeD m).observers = (t.nodeD m).observers) :
    ObsInv t' rest pd where
  inRange o' ob' h := by
    obtain ⟨ob0, h0, hn, hh, -⟩ := S.back o' ob' h
    rw [hn, hh, hsz]; exact O.inRange o' ob0 h0
  mem n o' := by
    by_cases eo : o' = o
    · rw [eo]
      have hnew := S.self ob hob
      by_cases en : n = ob.node
      · rw [en, hself]
        exact ⟨fun _ => ⟨_, hnew, rfl, Or.inl rfl⟩, fun _ => List.mem_append_right _ (List.mem_singleton.2 rfl)⟩
      · rw [hoth n en, O.mem n o]
        constructor
        · rintro ⟨ob0, h0, h1, h2⟩
          rw [hob] at h0; cases h0
          rw [hst] at h2; rcases h2 with h2 | h2 <;> cases h2
        · rintro ⟨ob1, h0, h1, _⟩
          rw [hnew] at h0; cases h0
          exact absurd h1.symm en
    · have hrec : t'.observers[o']? = t.observers[o']? := S.other o' eo
      by_cases en : n = ob.node
      · rw [en, hself, List.mem_append, List.mem_singleton, hrec, O.mem]
        exact ⟨fun h => h.resolve_right eo, Or.inl⟩
      · rw [hoth n en, hrec, O.mem]
  created o' ob' h hc := by
    obtain ⟨ob0, h0, -, -, h4⟩ := S.back o' ob' h
    rcases h4 with ⟨e, hs⟩ | ⟨e, hs⟩
    · rcases List.mem_cons.1 (O.created o' ob0 h0 (by rw [← hs]; exact hc)) with h | h
      · exact absurd h e
      · exact h
    · rw [hs] at hc; cases hc
  newIn o' h := by
    obtain ⟨ob0, h0⟩ := O.newIn o' (List.mem_cons_of_mem _ h)
    obtain ⟨ob1, h1, _⟩ := S.recs o' ob0 h0
    exact ⟨ob1, h1⟩
  dis o' ob' h := by
    obtain ⟨ob0, h0, -, -, h4⟩ := S.back o' ob' h
    rcases h4 with ⟨e, hs⟩ | ⟨e, hs⟩
    · rw [hs]; exact O.dis o' ob0 h0
    · rw [hs, e]
      have := O.dis o ob hob
      rw [hst] at this
      constructor
      · intro h; cases h
      · intro h; exact absurd (this.2 h) (by intro h; cases h)
  disIn o' h := by
    obtain ⟨ob0, h0⟩ := O.disIn o' h
    obtain ⟨ob1, h1, _⟩ := S.recs o' ob0 h0
    exact ⟨ob1, h1⟩
  disNodup := O.disNodup

/-- unlinking a `disallowed` observer -/
theorem obsInv_unlink_step {t t' : State} {o : Nat} {rest : List Nat} {ob : ObsRec}
    (O : ObsInv t [] (o :: rest)) (hob : t.observers[o]? = some ob)
    (S : ObsSet o .unlinked t t') (hsz : t'.nodes.size = t.nodes.size)
    (hself : (t'.nodeD ob.node).observers = (t.nodeD ob.node).observers.filter (· != o))
    (hoth : ∀ m, m ≠ ob.node → (t'.nodeD m).observers = (t.nodeD m).observers) :
    ObsInv t' [] rest where
  inRange o' ob' h := by
    obtain ⟨ob0, h0, hn, hh, -⟩ := S.back o' ob' h
    rw [hn, hh, hsz]; exact O.inRange o' ob0 h0
  mem n o' := by
    by_cases eo : o' = o
    · rw [eo]
      have hnew := S.self ob hob
      constructor
      · intro hm
        exfalso
        by_cases en : n = ob.node
        · rw [en, hself, List.mem_filter] at hm
          simp at hm
        · rw [hoth n en, O.mem n o] at hm
          obtain ⟨ob0, h0, h1, _⟩ := hm
          rw [hob] at h0; cases h0
          exact en h1.symm
      · rintro ⟨ob1, h0, _, h2⟩
        rw [hnew] at h0; cases h0
        rcases h2 with h2 | h2 <;> cases h2
    · have hrec : t'.observers[o']? = t.observers[o']? := S.other o' eo
      by_cases en : n = ob.node
      · rw [en, hself, List.mem_filter, hrec, ← O.mem]
        constructor
        · exact fun h => h.1
        · exact fun h => ⟨h, by simpa using eo⟩
      · rw [hoth n en, hrec, O.mem]
  created o' ob' h hc := by
    obtain ⟨ob0, h0, -, -, h4⟩ := S.back o' ob' h
    rcases h4 with ⟨e, hs⟩ | ⟨e, hs⟩
    · exact O.created o' ob0 h0 (by rw [← hs]; exact hc)
    · rw [hs] at hc; cases hc
  newIn o' h := by cases h
  dis o' ob' h := by
    obtain ⟨ob0, h0, -, -, h4⟩ := S.back o' ob' h
    rcases h4 with ⟨e, hs⟩ | ⟨e, hs⟩
    · rw [hs, O.dis o' ob0 h0, List.mem_cons]
      exact ⟨fun h => h.resolve_left e, Or.inr⟩
    · rw [hs, e]
      constructor
      · intro h; cases h
      · intro h; exact absurd h (List.nodup_cons.1 O.disNodup).1
  disIn o' h := by
    obtain ⟨ob0, h0⟩ := O.disIn o' (List.mem_cons_of_mem _ h)
    obtain ⟨ob1, h1, _⟩ := S.recs o' ob0 h0
    exact ⟨ob1, h1⟩
  disNodup := (List.nodup_cons.1 O.disNodup).2

/-! ## the explicit state updates of the two loop bodies (before the cascades) -/

/-- the state after the bookkeeping of `add_new_observers` for observer `o` of node `n` with `k` handlers -/
def obsAdded (o n : Nat) (k : Int) (t : State) : State :=
  { t with observers := t.observers.modify o (fun x => { x with state := .inUse }),
           allObservers := t.allObservers ++ [o],
           nodes := t.nodes.modify n fun x =>
             { x with observers := x.observers ++ [o], numOnUpdateHandlers := x.numOnUpdateHandlers + k } }

/-- the state after the bookkeeping of `unlink_disallowed_observers` for observer `o` of node `n` -/
def obsRemoved (o n : Nat) (k : Int) (t : State) : State :=
  { t with observers := t.observers.modify o (fun x => { x with state := .unlinked }),
           allObservers := t.allObservers.filter (· != o),
           nodes := t.nodes.modify n fun x =>
             { x with observers := x.observers.filter (· != o),
                      numOnUpdateHandlers := x.numOnUpdateHandlers - k } }

theorem obsAdded_nodeD (o n : Nat) (k : Int) (t : State) (m : Nat) :
    (obsAdded o n k t).nodeD m = if n = m ∧ m < t.nodes.size then
      { t.nodeD m with observers := (t.nodeD m).observers ++ [o],
                       numOnUpdateHandlers := (t.nodeD m).numOnUpdateHandlers + k } else t.nodeD m := by
  show ({ t with nodes := t.nodes.modify n _ } : State).nodeD m = _
  rw [nodeD_modify]

theorem obsRemoved_nodeD (o n : Nat) (k : Int) (t : State) (m : Nat) :
    (obsRemoved o n k t).nodeD m = if n = m ∧ m < t.nodes.size then
      { t.nodeD m with observers := (t.nodeD m).observers.filter (· != o),
                       numOnUpdateHandlers := (t.nodeD m).numOnUpdateHandlers - k } else t.nodeD m := by
  show ({ t with nodes := t.nodes.modify n _ } : State).nodeD m = _
  rw [nodeD_modify]

theorem obsAdded_upd {o n : Nat} {k : Int} {t : State} (hn : n < t.nodes.size) :
    NodeUpd n (fObservers ((t.nodeD n).observers ++ [o])) t (obsAdded o n k t) := by
  refine ⟨hn, rfl, rfl, by simp [obsAdded], rfl, rfl, fun m hm => ?_, ?_⟩
  · rw [obsAdded_nodeD, if_neg (fun e => hm e.1.symm)]; exact NodeG.refl _
  · rw [obsAdded_nodeD, if_pos ⟨rfl, hn⟩]; exact ⟨rfl, rfl, rfl, rfl, rfl, rfl, rfl, rfl, rfl, rfl, rfl⟩

theorem obsRemoved_upd {o n : Nat} {k : Int} {t : State} (hn : n < t.nodes.size) :
    NodeUpd n (fObservers ((t.nodeD n).observers.filter (· != o))) t (obsRemoved o n k t) := by
  refine ⟨hn, rfl, rfl, by simp [obsRemoved], rfl, rfl, fun m hm => ?_, ?_⟩
  · rw [obsRemoved_nodeD, if_neg (fun e => hm e.1.symm)]; exact NodeG.refl _
  · rw [obsRemoved_nodeD, if_pos ⟨rfl, hn⟩]; exact ⟨rfl, rfl, rfl, rfl, rfl, rfl, rfl, rfl, rfl, rfl, rfl⟩

theorem obsAdded_frame (o n : Nat) (t : State) : PFrame t (obsAdded o n ((0 : Nat) : Int) t) := by
  refine ⟨by simp [obsAdded], fun m => ?_, rfl, id⟩
  rw [obsAdded_nodeD]; split
  · simp [nodeKeyP]
  · rfl

theorem obsRemoved_frame (o n : Nat) (t : State) : PFrame t (obsRemoved o n ((0 : Nat) : Int) t) := by
  refine ⟨by simp [obsRemoved], fun m => ?_, rfl, id⟩
  rw [obsRemoved_nodeD]; split
  · simp [nodeKeyP]
  · rfl

/-! ## the structural invariant through one iteration -/

theorem allClosed_low (n : Nat) : ∀ m, allClosed m ≠ .closed → n ≤ m := fun _ h => absurd rfl h

theorem propagateInvalidity_nil {fuel : Nat} {s s' : State} {u : Unit} (hp : s.propagateInvalidity = [])
    (h : (propagateInvalidity fuel).run.run s = (.ok u, s')) : s' = s := by
  cases fuel with
  | zero => unfold propagateInvalidity at h; cases h
  | succ fuel =>
    unfold propagateInvalidity at h
    rw [run_bind_get, hp] at h
    exact (pure_ok_inv h).2

/-- the end of the body of `add_new_observers`: the link cascade if the node was not necessary -/
theorem struct_add {env : Env} {fuel n : Nat} {l : List Nat} {was : Bool} {t t4 t' : State}
    {r : ForInStep PUnit}
    (I : Struct env t) (U : NodeUpd n (fObservers l) t t4) (hl : l ≠ []) (hwas : was = t.isNecessary n)
    (hp : t4.propagateInvalidity = [])
    (h : (if (!was) = true then do
            becameNecessaryPropagate env fuel n
            pure (ForInStep.yield PUnit.unit)
          else pure (ForInStep.yield PUnit.unit)).run.run t4 = (.ok r, t')) :
    r = .yield PUnit.unit ∧ Struct env t' ∧ CFrame t4 t' ∧ t'.propagateInvalidity = [] ∧
      (∀ m, t4.isNecessary m = true → t'.isNecessary m = true) := by
  cases hw : was with
  | true =>
    rw [hw] at h hwas
    simp only [Bool.not_true, Bool.false_eq_true, if_false] at h
    obtain ⟨hr, e⟩ := pure_ok_inv h
    rw [e]
    exact ⟨hr, I.addObs_nec U hl hwas.symm rfl, CFrame.refl _, hp, fun _ h => h⟩
  | false =>
    rw [hw] at h hwas
    simp only [Bool.not_false, if_true] at h
    obtain ⟨_, t5, h5, h⟩ := bind_ok_inv h
    obtain ⟨hr, e⟩ := pure_ok_inv h
    rw [e]
    unfold becameNecessaryPropagate at h5
    obtain ⟨_, t6, h6, h5⟩ := bind_ok_inv h5
    obtain ⟨I1, hpar⟩ := GInv.addObs_open I U hl hwas.symm rfl
    obtain ⟨I2, -, hL⟩ := becameNecessary_spec h6 I1 (upd_self _ _ _)
      (by
        intro m hm
        by_cases e : m = n
        · omega
        · rw [upd_other _ _ _ e] at hm; exact absurd rfl hm)
      (by intro p i hpi; rw [hpar] at hpi; cases hpi)
    rw [upd_upd, upd_eq_self allClosed n .closed rfl] at I2
    have hp6 : t6.propagateInvalidity = [] := by rw [hL.pinv]; exact hp
    have e5 := propagateInvalidity_nil hp6 h5
    rw [e5]
    exact ⟨hr, I2, hL.fr, hp6, fun m hm => hL.nec hm⟩

/-- the end of the body of `unlink_disallowed_observers`: the unlink cascade if the node is no longer necessary -/
theorem struct_unlink {env : Env} {fuel n : Nat} {l : List Nat} {t t3 t' : State}
    (I : Struct env t) (U : NodeUpd n (fObservers l) t t3) (hn : t.isNecessary n = true)
    (h : (checkIfUnnecessary fuel n).run.run t3 = (.ok (), t')) :
    Struct env t' ∧ URel t3 t' := by
  obtain ⟨H1, H2⟩ := GInv.remObs I U rfl hn
  cases hnc : t3.isNecessary n with
  | true =>
    obtain ⟨I2, -, hU⟩ := checkIfUnnecessary_spec h (H1 hnc) (allClosed_low n) (Or.inl ⟨hnc, rfl⟩)
    rw [upd_eq_self allClosed n .closed rfl] at I2
    exact ⟨I2, hU⟩
  | false =>
    obtain ⟨I2, -, hU⟩ := checkIfUnnecessary_spec h (H2 hnc)
      (by
        intro m hm
        by_cases e : m = n
        · omega
        · rw [upd_other _ _ _ e] at hm; exact absurd rfl hm)
      (Or.inr ⟨hnc, upd_self _ _ _⟩)
    rw [upd_upd, upd_eq_self allClosed n .closed rfl] at I2
    exact ⟨I2, hU⟩

/-! ## frame accessors -/

theorem cf_obsArr {s s' : State} (h : CFrame s s') : s'.observers = s.observers := by
  have := h.key; simp only [stateKey, Prod.mk.injEq] at this; exact this.2.1
theorem cf_newObs {s s' : State} (h : CFrame s s') : s'.newObservers = s.newObservers := by
  have := h.key; simp only [stateKey, Prod.mk.injEq] at this; exact this.2.2.2.2.2.2.2.2.1
theorem cf_disObs {s s' : State} (h : CFrame s s') : s'.disallowedObservers = s.disallowedObservers := by
  have := h.key; simp only [stateKey, Prod.mk.injEq] at this; exact this.2.2.2.2.2.2.2.2.2.1
theorem pf_num {s s' : State} (h : PFrame s s') (m : Nat) :
    (s'.nodeD m).numOnUpdateHandlers = (s.nodeD m).numOnUpdateHandlers := by
  have := h.node m; simp only [nodeKeyP, Prod.mk.injEq] at this; exact this.2.2.2.2.2.2.2.2

/-! ## what one iteration (and hence the whole loop) does outside the invariant -/

/-- the state `b` of an observer is the state `a`, or `a = x` was turned into `y` -/
def StChg (x y a b : ObsState) : Prop := b = a ∨ (a = x ∧ b = y)

structure IterRel (x y : ObsState) (t t' : State) : Prop where
  frame : PFrame t t'
  newObs : t'.newObservers = t.newObservers
  disObs : t'.disallowedObservers = t.disallowedObservers
  size : t'.observers.size = t.observers.size
  recs : ∀ (o : Nat) (ob : ObsRec), t.observers[o]? = some ob →
    ∃ ob', t'.observers[o]? = some ob' ∧ ob'.node = ob.node ∧ StChg x y ob.state ob'.state

theorem IterRel.refl (x y : ObsState) (t : State) : IterRel x y t t :=
  ⟨PFrame.refl t, rfl, rfl, rfl, fun _ ob h => ⟨ob, h, rfl, Or.inl rfl⟩⟩

theorem IterRel.trans {x y : ObsState} {a b c : State} (h1 : IterRel x y a b) (h2 : IterRel x y b c) :
    IterRel x y a c := by
  refine ⟨h1.frame.trans h2.frame, h2.newObs.trans h1.newObs, h2.disObs.trans h1.disObs,
    h2.size.trans h1.size, fun o ob h => ?_⟩
  obtain ⟨ob1, e1, n1, c1⟩ := h1.recs o ob h
  obtain ⟨ob2, e2, n2, c2⟩ := h2.recs o ob1 e1
  refine ⟨ob2, e2, n2.trans n1, ?_⟩
  rcases c1 with c1 | ⟨c1, c1'⟩
  · rw [c1] at c2; exact c2
  · rcases c2 with c2 | ⟨_, c2'⟩
    · exact Or.inr ⟨c1, c2.trans c1'⟩
    · exact Or.inr ⟨c1, c2'⟩

/-! ## one iteration of `add_new_observers` -/

theorem add_created {env : Env} {fuel o : Nat} {rest pd : List Nat} {t t4 t' : State} {ob : ObsRec}
    {was : Bool} {r : ForInStep PUnit}
    (I : SInv env t (o :: rest) pd) (hob : t.observers[o]? = some ob) (hst : ob.state = .created)
    (hwas : was = t.isNecessary ob.node)
    (h4 : (handleAfterStabilisation ob.node).run.run (obsAdded o ob.node ((0 : Nat) : Int) t) = (.ok (), t4))
    (h : (if (!was) = true then do
            becameNecessaryPropagate env fuel ob.node
            pure (ForInStep.yield PUnit.unit)
          else pure (ForInStep.yield PUnit.unit)).run.run t4 = (.ok r, t')) :
    r = .yield PUnit.unit ∧ SInv env t' rest pd ∧ IterRel .created .inUse t t' ∧
      (∀ m, t.isNecessary m = true → t'.isNecessary m = true) := by
  have hn : ob.node < t.nodes.size := (I.obs.inRange o ob hob).1
  have U3 : NodeUpd ob.node (fObservers ((t.nodeD ob.node).observers ++ [o])) t
      (obsAdded o ob.node ((0 : Nat) : Int) t) := obsAdded_upd hn
  have R : Irrel ob.node (obsAdded o ob.node ((0 : Nat) : Int) t) t4 := by
    rcases has_cases h4 with e | e
    · rw [e]; exact Irrel.refl _ _
    · rw [e]; exact Irrel.marked _ _
  have U4 := U3.then_same R.same
  have L := R.rel (fun _ => False)
  have hp4 : t4.propagateInvalidity = [] := (L.pinv.trans rfl).trans I.pinv
  have hl : (t.nodeD ob.node).observers ++ [o] ≠ [] := by simp
  obtain ⟨hr, I', F, hp', hnec⟩ := struct_add I.struct U4 hl hwas hp4 h
  have F3 : CFrame (obsAdded o ob.node ((0 : Nat) : Int) t) t' := L.fr.trans F
  have P : PFrame t t' := (obsAdded_frame o ob.node t).trans F3.toP
  have S : ObsSet o .inUse t t' :=
    (ObsSet.of_modify (t' := obsAdded o ob.node ((0 : Nat) : Int) t) rfl).then_eq (cf_obsArr F3)
  have O' : ObsInv t' rest pd := obsInv_add_step I.obs hob hst S (F3.size.trans U3.size)
    ((F3.observers ob.node).trans U3.self.observers)
    (fun m hm => (F3.observers m).trans (U3.other m hm).observers)
  refine ⟨hr, ⟨I', O', hp', fun m => by rw [pf_num P]; exact I.handlers m⟩,
    ⟨P, (cf_newObs F3).trans rfl, (cf_disObs F3).trans rfl, S.size, fun o' ob' ho' => ?_⟩, fun m hm => hnec m ?_⟩
  · obtain ⟨ob1, h1, h2, -, h3⟩ := S.recs o' ob' ho'
    refine ⟨ob1, h1, h2, ?_⟩
    rcases h3 with ⟨_, h3⟩ | ⟨e, h3⟩
    · exact Or.inl h3
    · rw [e, hob] at ho'; cases ho'
      exact Or.inr ⟨hst, h3⟩
  · by_cases e : m = ob.node
    · rw [e]; exact (U4.nec_self_iff (keeps_fObservers _)).2 (Or.inr (Or.inl hl))
    · rw [U4.nec_other e]; exact hm

/-! ## one iteration of `unlink_disallowed_observers` -/

theorem unlink_iter {env : Env} {fuel o : Nat} {rest : List Nat} {t t' : State} {ob : ObsRec}
    (I : SInv env t [] (o :: rest)) (hob : t.observers[o]? = some ob)
    (h : (checkIfUnnecessary fuel ob.node).run.run (obsRemoved o ob.node ((0 : Nat) : Int) t) = (.ok (), t')) :
    SInv env t' [] rest ∧ IterRel .disallowed .unlinked t t' := by
  have hn : ob.node < t.nodes.size := (I.obs.inRange o ob hob).1
  have hst : ob.state = .disallowed := (I.obs.dis o ob hob).2 (List.mem_cons_self ..)
  have hmem : o ∈ (t.nodeD ob.node).observers := (I.obs.mem ob.node o).2 ⟨ob, hob, rfl, Or.inr hst⟩
  have hnec : t.isNecessary ob.node = true :=
    (isNecessary_iff t ob.node).2 (Or.inr (Or.inl (List.ne_nil_of_mem hmem)))
  have U3 : NodeUpd ob.node (fObservers ((t.nodeD ob.node).observers.filter (· != o))) t
      (obsRemoved o ob.node ((0 : Nat) : Int) t) := obsRemoved_upd hn
  obtain ⟨I', hU⟩ := struct_unlink I.struct U3 hnec h
  have F3 := hU.fr
  have P : PFrame t t' := (obsRemoved_frame o ob.node t).trans F3.toP
  have S : ObsSet o .unlinked t t' :=
    (ObsSet.of_modify (t' := obsRemoved o ob.node ((0 : Nat) : Int) t) rfl).then_eq (cf_obsArr F3)
  have O' : ObsInv t' [] rest := obsInv_unlink_step I.obs hob S (F3.size.trans U3.size)
    ((F3.observers ob.node).trans U3.self.observers)
    (fun m hm => (F3.observers m).trans (U3.other m hm).observers)
  refine ⟨⟨I', O', (hU.pinv.trans rfl).trans I.pinv, fun m => by rw [pf_num P]; exact I.handlers m⟩,
    ⟨P, (cf_newObs F3).trans rfl, (cf_disObs F3).trans rfl, S.size, fun o' ob' ho' => ?_⟩⟩
  obtain ⟨ob1, h1, h2, -, h3⟩ := S.recs o' ob' ho'
  refine ⟨ob1, h1, h2, ?_⟩
  rcases h3 with ⟨_, h3⟩ | ⟨e, h3⟩
  · exact Or.inl h3
  · rw [e, hob] at ho'; cases ho'
    exact Or.inr ⟨hst, h3⟩

/-- fields of the state that the observer bookkeeping does not read -/
theorem obsInv_congr {s s' : State} {pn pd : List Nat} (O : ObsInv s pn pd)
    (h1 : s'.observers = s.observers) (h2 : s'.nodes = s.nodes) : ObsInv s' pn pd := by
  have hnd : ∀ m, s'.nodeD m = s.nodeD m := fun m => by simp [State.nodeD, h2]
  refine ⟨?_, ?_, ?_, ?_, ?_, ?_, O.disNodup⟩
  · intro o ob h; rw [h1] at h; rw [h2]; exact O.inRange o ob h
  · intro n o; rw [hnd, h1]; exact O.mem n o
  · intro o ob h; rw [h1] at h; exact O.created o ob h
  · intro o h; rw [h1]; exact O.newIn o h
  · intro o ob h; rw [h1] at h; exact O.dis o ob h
  · intro o h; rw [h1]; exact O.disIn o h

theorem sInv_congr {env : Env} {s s' : State} {pn pd : List Nat} (I : SInv env s pn pd)
    (h1 : s'.observers = s.observers) (h2 : s'.nodes = s.nodes) (h3 : s'.panicCountdown = s.panicCountdown)
    (h4 : s'.currentScope = s.currentScope) (h5 : s'.rch = s.rch) (h6 : s'.vars = s.vars)
    (h7 : s'.propagateInvalidity = s.propagateInvalidity) : SInv env s' pn pd := by
  refine ⟨GInv.congr I.struct (SameG.of_nodes h2 h3 h4 h5 h6), obsInv_congr I.obs h1 h2, h7.trans I.pinv, fun m => ?_⟩
  have : s'.nodeD m = s.nodeD m := by simp [State.nodeD, h2]
  rw [this]; exact I.handlers m

theorem drop_of_getElem? {α} {l : List α} {j : Nat} {a : α} (h : l[j]? = some a) :
    l.drop j = a :: l.drop (j + 1) := by
  obtain ⟨hlt, e⟩ := List.getElem?_eq_some_iff.1 h
  rw [← e]; exact List.drop_eq_getElem_cons hlt

end P12

open P12

theorem addNewObservers_s {env : Env} {fuel : Nat} {s s' : State}
    (I : SInv env s s.newObservers s.disallowedObservers)
    (h : (addNewObservers env fuel).run.run s = (.ok (), s')) :
    SInv env s' [] s'.disallowedObservers ∧ s'.newObservers = [] ∧
      s'.disallowedObservers = s.disallowedObservers ∧ PFrame s s' ∧ ObsMap addedState s s' ∧
      (∀ m, s.isNecessary m = true → s'.isNecessary m = true) := by
  unfold addNewObservers at h
  rw [run_bind_get] at h
  obtain ⟨s0, hs0, h⟩ := bind_modify_inv h
  obtain ⟨u, s1, hloop, h⟩ := bind_ok_inv h
  obtain ⟨-, e⟩ := pure_ok_inv h
  rw [e]
  have I0 : SInv env s0 s.newObservers s.disallowedObservers := by
    rw [hs0]; exact sInv_congr I rfl rfl rfl rfl rfl rfl rfl
  have P0 : PFrame s s0 := by rw [hs0]; exact ⟨rfl, fun _ => rfl, rfl, id⟩
  have hno0 : s0.newObservers = [] := by rw [hs0]
  have hdo0 : s0.disallowedObservers = s.disallowedObservers := by rw [hs0]
  have hob0 : s0.observers = s.observers := by rw [hs0]
  have hnec0 : ∀ m, s0.isNecessary m = s.isNecessary m := fun m => by rw [hs0]; rfl
  have hfin := forIn_ok_inv _ s.newObservers
    (fun j (_ : PUnit) t => SInv env t (s.newObservers.drop j) s.disallowedObservers ∧
      IterRel .created .inUse s0 t ∧ (∀ m, s0.isNecessary m = true → t.isNecessary m = true))
    (by
      intro j o b t r t' hj ⟨It, Rt, Nt⟩ hbody
      rw [drop_of_getElem? hj] at It
      obtain ⟨ob, hob, hbody⟩ := bind_getObs_inv hbody
      cases hst : ob.state <;> rw [hst] at hbody <;> try dsimp only at hbody
      case inUse =>
        obtain ⟨_, _, h1, _⟩ := bind_ok_inv hbody
        rw [run_panic] at h1; cases h1
      case disallowed =>
        obtain ⟨_, _, h1, _⟩ := bind_ok_inv hbody
        rw [run_panic] at h1; cases h1
      case unlinked =>
        obtain ⟨hr, e⟩ := pure_ok_inv hbody
        rw [e]
        exact ⟨_, hr, ⟨It.struct, obsInv_skip_step It.obs hob (by rw [hst]; exact fun e => by cases e), It.pinv,
          It.handlers⟩, Rt, Nt⟩
      case created =>
        obtain ⟨t1, ht1, hbody⟩ := bind_modObs_inv hbody
        rw [run_bind_get] at hbody
        try dsimp only at hbody
        obtain ⟨t2, ht2, hbody⟩ := bind_modify_inv hbody
        obtain ⟨t3, ht3, hbody⟩ := bind_modNode_inv hbody
        obtain ⟨_, t4, h4, hbody⟩ := bind_ok_inv hbody
        rw [run_bind_get] at hbody
        replace hbody := bind_dassert_inv hbody
        have hh : ob.handlers = [] := (It.obs.inRange o ob hob).2
        have e3 : t3 = obsAdded o ob.node ((0 : Nat) : Int) t := by rw [ht3, ht2, ht1, hh]; rfl
        rw [e3] at h4
        obtain ⟨hr, I', R', N'⟩ := add_created (was := t1.isNecessary ob.node) It hob hst
          (by rw [ht1]; rfl) h4 hbody
        exact ⟨_, hr, I', Rt.trans R', fun m hm => N' m (Nt m hm)⟩)
    s.newObservers 0 PUnit.unit s0 u s1 (by simp) (Nat.zero_le _)
    ⟨by rw [List.drop_zero]; exact I0, IterRel.refl _ _ _, fun _ h => h⟩ hloop
  obtain ⟨I1, R1, N1⟩ := hfin
  rw [List.drop_length] at I1
  have hdo1 : s1.disallowedObservers = s.disallowedObservers := R1.disObs.trans hdo0
  refine ⟨by rw [hdo1]; exact I1, R1.newObs.trans hno0, hdo1, P0.trans R1.frame,
    ⟨R1.size.trans (by rw [hob0]), fun o ob ho => ?_⟩, fun m hm => N1 m (by rw [hnec0]; exact hm)⟩
  obtain ⟨ob', h1, h2, h3⟩ := R1.recs o ob (by rw [hob0]; exact ho)
  refine ⟨ob', h1, h2, ?_⟩
  rcases h3 with h3 | ⟨h3, h4⟩
  · rw [h3]
    cases hst : ob.state
    case created =>
      have := I1.obs.created o ob' h1 (by rw [h3, hst])
      cases this
    all_goals rfl
  · rw [h3, h4]; rfl

theorem unlinkDisallowedObservers_s {env : Env} {fuel : Nat} {s s' : State}
    (I : SInv env s [] s.disallowedObservers) (hn : s.newObservers = [])
    (h : (unlinkDisallowedObservers fuel).run.run s = (.ok (), s')) :
    SInv env s' [] [] ∧ s'.newObservers = [] ∧ s'.disallowedObservers = [] ∧ PFrame s s' ∧
      ObsMap unlinkedState s s' := by
  unfold unlinkDisallowedObservers at h
  rw [run_bind_get] at h
  obtain ⟨s0, hs0, h⟩ := bind_modify_inv h
  obtain ⟨u, s1, hloop, h⟩ := bind_ok_inv h
  obtain ⟨-, e⟩ := pure_ok_inv h
  rw [e]
  have I0 : SInv env s0 [] s.disallowedObservers := by
    rw [hs0]; exact sInv_congr I rfl rfl rfl rfl rfl rfl rfl
  have P0 : PFrame s s0 := by rw [hs0]; exact ⟨rfl, fun _ => rfl, rfl, id⟩
  have hno0 : s0.newObservers = [] := by rw [hs0]; exact hn
  have hdo0 : s0.disallowedObservers = [] := by rw [hs0]
  have hob0 : s0.observers = s.observers := by rw [hs0]
  have hfin := forIn_ok_inv _ s.disallowedObservers
    (fun j (_ : PUnit) t => SInv env t [] (s.disallowedObservers.drop j) ∧
      IterRel .disallowed .unlinked s0 t)
    (by
      intro j o b t r t' hj ⟨It, Rt⟩ hbody
      rw [drop_of_getElem? hj] at It
      obtain ⟨ob, hob, hbody⟩ := bind_getObs_inv hbody
      replace hbody := bind_dassert_inv hbody
      obtain ⟨t1, ht1, hbody⟩ := bind_modObs_inv hbody
      obtain ⟨t2, ht2, hbody⟩ := bind_modNode_inv hbody
      obtain ⟨t3, ht3, hbody⟩ := bind_modify_inv hbody
      obtain ⟨_, t4, h4, hbody⟩ := bind_ok_inv hbody
      obtain ⟨hr, e⟩ := pure_ok_inv hbody
      rw [e]
      have hh : ob.handlers = [] := (It.obs.inRange o ob hob).2
      have e3 : t3 = obsRemoved o ob.node ((0 : Nat) : Int) t := by rw [ht3, ht2, ht1, hh]; rfl
      rw [e3] at h4
      obtain ⟨I', R'⟩ := unlink_iter It hob h4
      exact ⟨_, hr, I', Rt.trans R'⟩)
    s.disallowedObservers 0 PUnit.unit s0 u s1 (by simp) (Nat.zero_le _)
    ⟨by rw [List.drop_zero]; exact I0, IterRel.refl _ _ _⟩ hloop
  obtain ⟨I1, R1⟩ := hfin
  rw [List.drop_length] at I1
  refine ⟨I1, R1.newObs.trans hno0, R1.disObs.trans hdo0, P0.trans R1.frame,
    R1.size.trans (by rw [hob0]), fun o ob ho => ?_⟩
  obtain ⟨ob', h1, h2, h3⟩ := R1.recs o ob (by rw [hob0]; exact ho)
  refine ⟨ob', h1, h2, ?_⟩
  rcases h3 with h3 | ⟨h3, h4⟩
  · rw [h3]
    cases hst : ob.state
    case disallowed =>
      have := (I1.obs.dis o ob' h1).1 (by rw [h3, hst])
      cases this
    all_goals rfl
  · rw [h3, h4]; rfl

end IncrVerif.Proofs.CutH
