import IncrVerif.Proofs.PerKeyH13
/-!
# A run of a per-key change detector, part 5a (`.unequal` iteration): what `expertMakeStale` does to the ACTUAL state

`UF x e er a b`: `b` is `a` after `expertMakeStale x` on an expert node `x` whose record is `e`/`er`: the record gets
`forceStale := true`, `x` may have been queued (`heightInRch`, the heap), nothing else changes.
-/
namespace IncrVerif.Proofs.PerKeyH
open IncrVerif.Engine IncrVerif.Driver IncrVerif.Proofs IncrVerif.Proofs.Step IncrVerif.Proofs.Sched
open IncrVerif.Proofs.ExpertH IncrVerif.Proofs.EffH IncrVerif.Proofs.DriverH IncrVerif.Proofs.ExpertH.QR

/-- the frame of `expertMakeStale` on an expert node with record `e` / `er` -/
structure UF (e : Nat) (er : ExpertRec) (a b : State) : Prop where
  size : b.nodes.size = a.nodes.size
  node : ∀ m, ∃ h, b.nodeD m = { a.nodeD m with heightInRch := h }
  xsize : b.experts.size = a.experts.size
  xold : a.experts[e]? = some er
  xself : b.experts[e]? = some { er with forceStale := true }
  xother : ∀ e', e' ≠ e → b.experts[e']? = a.experts[e']?
  key : eKey b = eKey a
  perkeys : b.perkeys = a.perkeys
  nextDep : b.nextDep = a.nextDep

theorem UF.of_same {e : Nat} {er : ExpertRec} {a : State} (hx : a.experts[e]? = some er) (hf : er.forceStale = true) :
    UF e er a a := by
  refine ⟨rfl, fun m => ⟨(a.nodeD m).heightInRch, rfl⟩, rfl, hx, ?_, fun _ _ => rfl, rfl, rfl, rfl⟩
  rw [hx]
  congr 1
  cases er
  simp only at hf
  subst hf
  rfl

theorem UF.of_forced {e : Nat} {er : ExpertRec} {a : State} (hx : a.experts[e]? = some er) :
    UF e er a (Xp.forced e er a) := by
  refine ⟨rfl, fun m => ⟨(a.nodeD m).heightInRch, rfl⟩, by simp [Xp.forced, Xp.putExpert], hx, forced_get hx,
    fun e' h => forced_get_ne h, rfl, rfl, rfl⟩

theorem UF.inserted {e : Nat} {er : ExpertRec} {a b : State} (U : UF e er a b) (n : Nat) (h : Int) :
    UF e er a (inserted n h b) := by
  refine ⟨(Array.size_modify ..).trans U.size, fun m => ?_, U.xsize, U.xold, U.xself, U.xother, ?_, U.perkeys,
    U.nextDep⟩
  · obtain ⟨h0, e0⟩ := U.node m
    rw [inserted_nodeD]
    split
    · exact ⟨h, by rw [e0]⟩
    · exact ⟨h0, e0⟩
  · rw [← U.key]
    simp [eKey, IncrVerif.Proofs.inserted]

/-- **the run of `expertMakeStale`** on a valid expert node -/
theorem u_run {s s' : State} {n : Nat} {nd : Node} {e : Nat} {er : ExpertRec} (hx : Xp.IsExpert s n nd e er)
    (h : (expertMakeStale n).run.run s = (.ok (), s')) : UF e er s s' := by
  cases hr : Xp.runningOk s n
  · obtain ⟨p, hp⟩ := Xp.expertMakeStale_assert_fails hx hr
    rw [hp] at h; cases h
  rw [Xp.expertMakeStale_run hx hr] at h
  by_cases hf : er.forceStale = true
  · rw [if_pos hf] at h
    have e' : s' = s := by cases h; rfl
    subst e'
    exact UF.of_same hx.xrec hf
  rw [if_neg hf] at h
  by_cases hc : (nd.isNecessary && !nd.inRch) = true
  · rw [if_pos hc] at h
    obtain ⟨nd', -, -, -, e'⟩ := rchInsert_ok_inv h
    rw [e']
    exact (UF.of_forced hx.xrec).inserted _ _
  · rw [if_neg hc] at h
    have e' : s' = Xp.forced e er s := by cases h; rfl
    subst e'
    exact UF.of_forced hx.xrec

/-! ## what the frame keeps -/

section
variable {e : Nat} {er : ExpertRec} {a b : State}

theorem UF.nodeKey (U : UF e er a b) (m : Nat) : nodeKey (b.nodeD m) = nodeKey (a.nodeD m) := by
  obtain ⟨h, e0⟩ := U.node m; rw [e0]; rfl

theorem UF.kind (U : UF e er a b) (m : Nat) : (b.nodeD m).kind = (a.nodeD m).kind := by
  obtain ⟨h, e0⟩ := U.node m; rw [e0]

theorem UF.observers (U : UF e er a b) (m : Nat) : (b.nodeD m).observers = (a.nodeD m).observers := by
  obtain ⟨h, e0⟩ := U.node m; rw [e0]

theorem UF.isNecessary (U : UF e er a b) (m : Nat) : b.isNecessary m = a.isNecessary m := by
  obtain ⟨h, e0⟩ := U.node m
  unfold State.isNecessary; rw [e0]; rfl

/-- old record ↦ new record: the same but (for `e`) `forceStale` -/
theorem UF.fwd (U : UF e er a b) {e' : Nat} {er' : ExpertRec} (h : a.experts[e']? = some er') :
    ∃ er'', b.experts[e']? = some er'' ∧ er'' = { er' with forceStale := er''.forceStale } ∧
      (er'.forceStale = true → er''.forceStale = true) ∧
      ((er''.children = er'.children ∧ er''.forceStale = er'.forceStale) ∨ er''.forceStale = true) := by
  by_cases he : e' = e
  · subst he
    rw [U.xold] at h; cases h
    exact ⟨_, U.xself, rfl, fun _ => rfl, Or.inr rfl⟩
  · exact ⟨er', by rw [U.xother e' he]; exact h, rfl, id, Or.inl ⟨rfl, rfl⟩⟩

theorem UF.bwd (U : UF e er a b) {e' : Nat} {er'' : ExpertRec} (h : b.experts[e']? = some er'') :
    ∃ er', a.experts[e']? = some er' ∧ er'' = { er' with forceStale := er''.forceStale } ∧
      (er'.forceStale = true → er''.forceStale = true) := by
  by_cases he : e' = e
  · subst he
    rw [U.xself] at h; cases h
    exact ⟨er, U.xold, rfl, fun _ => rfl⟩
  · exact ⟨er'', by rw [← U.xother e' he]; exact h, rfl, id⟩

theorem UF.xrec_eq (U : UF e er a b) (e' : Nat) :
    ExpertH.xRec b.experts e' =
      { ExpertH.xRec a.experts e' with forceStale := (ExpertH.xRec b.experts e').forceStale } := by
  cases h : a.experts[e']? with
  | some er' =>
    obtain ⟨er'', h2, h3, -⟩ := U.fwd h
    rw [xRec_some h, xRec_some h2]; exact h3
  | none =>
    have h2 : b.experts[e']? = none := by
      cases h2 : b.experts[e']? with
      | none => rfl
      | some er'' => obtain ⟨er', h3, -⟩ := U.bwd h2; rw [h] at h3; cases h3
    rw [xRec_none h, xRec_none h2]

theorem UF.xrec_children (U : UF e er a b) (e' : Nat) :
    (ExpertH.xRec b.experts e').children = (ExpertH.xRec a.experts e').children := by
  rw [U.xrec_eq e']

theorem UF.kidsX (U : UF e er a b) (m : Nat) :
    kidsX b.experts (b.nodeD m).kind = kidsX a.experts (a.nodeD m).kind := by
  rw [U.kind m]
  cases (a.nodeD m).kind <;> simp only [ExpertH.kidsX]
  rw [U.xrec_children]

/-- a raised flag stays up -/
theorem UF.forced_mono (U : UF e er a b) (m : Nat) (h : forced a.experts (a.nodeD m).kind = true) :
    forced b.experts (b.nodeD m).kind = true := by
  rw [U.kind m]
  cases hk : (a.nodeD m).kind <;> rw [hk] at h <;> try exact h
  rename_i e'
  simp only [ExpertH.forced] at h ⊢
  cases hx : a.experts[e']? with
  | some er' =>
    obtain ⟨er'', h2, -, h4, -⟩ := U.fwd hx
    rw [xRec_some hx] at h
    rw [xRec_some h2]; exact h4 h
  | none => rw [xRec_none hx] at h; cases h

/-- the flag of the node itself is up -/
theorem UF.forced_self (U : UF e er a b) {x : Nat} (hk : (a.nodeD x).kind = .expert e) :
    forced b.experts (b.nodeD x).kind = true := by
  rw [U.kind x, hk]
  simp only [ExpertH.forced, xRec_some U.xself]

theorem UF.top (U : UF e er a b) : b.top = a.top := by
  have := U.key
  simp only [eKey, Prod.mk.injEq] at this
  exact this.2.2.2.2.2.2.2.2.2.2.2.2.2.2.1

theorem UF.stateObservers (U : UF e er a b) : b.observers = a.observers := by
  have := U.key
  simp only [eKey, Prod.mk.injEq] at this
  exact this.2.2.2.2.2.2.1

theorem UF.pc (U : UF e er a b) : b.panicCountdown = a.panicCountdown := by
  have := U.key
  simp only [eKey, Prod.mk.injEq] at this
  exact this.2.2.2.2.2.2.2.2.2.2.2.2.2.2.2.2.2

theorem UF.scope (U : UF e er a b) : b.currentScope = a.currentScope := by
  have := U.key
  simp only [eKey, Prod.mk.injEq] at this
  exact this.2.2.2.2.2.1

theorem UF.vars (U : UF e er a b) : b.vars = a.vars := by
  have := U.key
  simp only [eKey, Prod.mk.injEq] at this
  exact this.1

theorem UF.pinv (U : UF e er a b) : b.propagateInvalidity = a.propagateInvalidity := by
  have := U.key
  simp only [eKey, Prod.mk.injEq] at this
  exact this.2.2.2.2.2.2.2.2.2.2.2.2.2.1

/-! ## the frames of LC1 -/

theorem UF.lf (U : UF e er a b) (D : Nat → Prop) : LF D a b := by
  refine ⟨Nat.le_of_eq U.size.symm, fun m _ => U.nodeKey m, U.key, Nat.le_of_eq U.xsize.symm, ?_,
    Nat.le_of_eq U.nextDep.symm, fun m h1 h2 => absurd h2 (by rw [U.size]; omega), fun m h => by rw [U.isNecessary]; exact h⟩
  intro e' er' he'
  obtain ⟨er'', h2, h3, h4, h5⟩ := U.fwd he'
  refine ⟨er'', h2, ?_, ?_, ?_, ?_, ?_, ?_, h4, fun _ => ?_, ⟨[], ?_⟩, h5⟩ <;> rw [h3] <;> simp

end

end IncrVerif.Proofs.PerKeyH
