import IncrVerif.Proofs.FullH6
/-!
# C01 full fragment: simulation of the necessity cascades (port of MapRef5 / MapOld5)
-/
namespace IncrVerif.Proofs.FullH
open IncrVerif.Engine IncrVerif.Proofs IncrVerif.Proofs.Step IncrVerif.Proofs.Sched IncrVerif.Proofs.Quiet

section
variable {K : Kind → Prop} {g : Nat → Option Val} {sp : Nat → Val → Val}

/-- loops: same list, bodies simulate each other -/
macro "fsim_loop" : tactic =>
  `(tactic| ((with_reducible refine Sim.at (Sim.forIn _ (fun _ _ => ?_) _) _); intro _))

theorem Sim.getBind (b : Nat) : Sim K g (Engine.getBind b) (Engine.getBind b) := by
  intro s; unfold Engine.getBind; fsim
  split <;> fsim
macro_rules | `(tactic| fsim_leaf) => `(tactic| with_reducible exact Sim.getBind _)

theorem Sim.getExpert (b : Nat) : Sim K g (Engine.getExpert b) (Engine.getExpert b) := by
  intro s; unfold Engine.getExpert; fsim
  split <;> fsim
macro_rules | `(tactic| fsim_leaf) => `(tactic| with_reducible exact Sim.getExpert _)

theorem Sim.logEv (e : Event) : Sim K g (Engine.logEv e) (Engine.logEv e) := by
  intro s; unfold Engine.logEv; fsim
macro_rules | `(tactic| fsim_leaf) => `(tactic| with_reducible exact Sim.logEv _)

theorem Sim.modExpert (e : Nat) (f : ExpertRec → ExpertRec) : Sim K g (Engine.modExpert e f) (Engine.modExpert e f) := by
  intro s; unfold Engine.modExpert; fsim
macro_rules | `(tactic| fsim_leaf) => `(tactic| with_reducible exact Sim.modExpert _ _)

theorem Sim.modBind (b : Nat) (f : BindRec → BindRec) : Sim K g (Engine.modBind b f) (Engine.modBind b f) := by
  intro s; unfold Engine.modBind; fsim
macro_rules | `(tactic| fsim_leaf) => `(tactic| with_reducible exact Sim.modBind _ _)

theorem Sim.observabilityChange (e : Nat) (b : Bool) :
    Sim K g (Engine.observabilityChange e b) (Engine.observabilityChange e b) := by
  intro s; unfold Engine.observabilityChange; fsim
macro_rules | `(tactic| fsim_leaf) => `(tactic| with_reducible exact Sim.observabilityChange _ _)

theorem Sim.scopeHeight (sc : Scope) : Sim K g (Engine.scopeHeight sc) (Engine.scopeHeight sc) := by
  intro s; unfold Engine.scopeHeight
  cases sc with
  | top => fsim
  | bind b => fsim
macro_rules | `(tactic| fsim_leaf) => `(tactic| with_reducible exact Sim.scopeHeight _)

theorem Sim.scopeIsNecessary (sc : Scope) : Sim K g (Engine.scopeIsNecessary sc) (Engine.scopeIsNecessary sc) := by
  intro s; unfold Engine.scopeIsNecessary
  cases sc with
  | top => fsim
  | bind b => fsim
macro_rules | `(tactic| fsim_leaf) => `(tactic| with_reducible exact Sim.scopeIsNecessary _)

theorem Sim.scopeIsValid (sc : Scope) : Sim K g (Engine.scopeIsValid sc) (Engine.scopeIsValid sc) := by
  intro s; unfold Engine.scopeIsValid
  cases sc with
  | top => fsim
  | bind b => fsim
macro_rules | `(tactic| fsim_leaf) => `(tactic| with_reducible exact Sim.scopeIsValid _)

theorem Sim.handleAfterStabilisation (n : Nat) :
    Sim K g (Engine.handleAfterStabilisation n) (Engine.handleAfterStabilisation n) := by
  intro s; unfold Engine.handleAfterStabilisation; fsim
macro_rules | `(tactic| fsim_leaf) => `(tactic| with_reducible exact Sim.handleAfterStabilisation _)

theorem Sim.maybeHandleAfterStabilisation (n : Nat) :
    Sim K g (Engine.maybeHandleAfterStabilisation n) (Engine.maybeHandleAfterStabilisation n) := by
  intro s; unfold Engine.maybeHandleAfterStabilisation; fsim
macro_rules | `(tactic| fsim_leaf) => `(tactic| with_reducible exact Sim.maybeHandleAfterStabilisation _)

theorem Sim.link (env : Env) (fuel : Nat) :
    (∀ n, Sim K g (becameNecessary env fuel n) (becameNecessary (virtEnv env sp) fuel n)) ∧
    (∀ c i p, Sim K g (addParentWithoutAdjustingHeights env fuel c i p)
      (addParentWithoutAdjustingHeights (virtEnv env sp) fuel c i p)) := by
  induction fuel with
  | zero =>
    constructor
    · intro n s; unfold becameNecessary; fsim
    · intro c i p s; unfold addParentWithoutAdjustingHeights; fsim
  | succ fuel ih =>
    constructor
    · intro n s
      unfold becameNecessary
      fsim
      all_goals first
        | exact ih.2 _ _ _ _
        | fsim_kind
    · intro c i p s
      unfold addParentWithoutAdjustingHeights
      fsim
      all_goals first
        | exact ih.1 _ _
        | fsim_kind
      all_goals first
        | fsim_kind
        | (refine SimAt.ite_left (fun _ => SimAt.veq_seq (PresV.markMapRefUnknown _ _) fun _ _ => ?_) (fun _ => ?_)
           <;> fsim <;> fsim_kind)

theorem Sim.becameNecessary (env : Env) (fuel n : Nat) :
    Sim K g (Engine.becameNecessary env fuel n) (Engine.becameNecessary (virtEnv env sp) fuel n) := (Sim.link env fuel).1 n
theorem Sim.addParentWithoutAdjustingHeights (env : Env) (fuel c i p : Nat) :
    Sim K g (Engine.addParentWithoutAdjustingHeights env fuel c i p)
      (Engine.addParentWithoutAdjustingHeights (virtEnv env sp) fuel c i p) := (Sim.link env fuel).2 c i p
macro_rules | `(tactic| fsim_leaf) => `(tactic| with_reducible exact Sim.becameNecessary _ _ _)
macro_rules | `(tactic| fsim_leaf) => `(tactic| with_reducible exact Sim.addParentWithoutAdjustingHeights _ _ _ _ _)

end
end IncrVerif.Proofs.FullH
