import IncrVerif.Proofs.EffH3
/-!
# Effects, part 6: `stabiliseEnd` with deferred writes — each deferred write is an ordinary immediate write
-/
namespace IncrVerif.Proofs.EffH
open IncrVerif.Engine IncrVerif.Driver IncrVerif.Proofs IncrVerif.Proofs.Step IncrVerif.Proofs.Sched
open IncrVerif.Proofs.Quiet

/-- the first thing `stabiliseEnd` does: the round number goes up, the stack of deferred writes is taken -/
def bump (s : State) : State :=
  { s with stabNum := s.stabNum + 1, currentlyRunning := none, setDuringStab := [] }

/-- the last thing `stabiliseEnd` does -/
def quiet (s : State) : State := { s with status := .notStabilising, handleAfterStab := [] }

/-- `s'` is `s` after some immediate writes: only `vars`, the heap markers of nodes, the recompute heap and the
counters differ -/
structure Applied (s s' : State) : Prop where
  eq : s' = { s with vars := s'.vars, nodes := s'.nodes, rch := s'.rch, counters := s'.counters }
  size : s'.nodes.size = s.nodes.size
  node : ∀ m, ∃ h, s'.nodeD m = { s.nodeD m with heightInRch := h }
  vsize : s'.vars.size = s.vars.size

theorem Applied.refl (s : State) : Applied s s := ⟨rfl, rfl, fun _ => ⟨_, rfl⟩, rfl⟩
theorem Applied.trans {a b c : State} (h1 : Applied a b) (h2 : Applied b c) : Applied a c where
  eq := by rw [h2.eq, h1.eq]
  size := h2.size.trans h1.size
  node m := by
    obtain ⟨x, hx⟩ := h1.node m
    obtain ⟨y, hy⟩ := h2.node m
    exact ⟨y, by rw [hy, hx]⟩
  vsize := h2.vsize.trans h1.vsize

/-- `didSet_ok` with the height facts of the heap insertion -/
theorem e6_didSet_ok (v : Nat) (s s' : State) (vc : VarCell) (u : Unit)
    (hv : s.vars[v]? = some vc)
    (hr : (didSetVarWhileNotStabilising v).run.run s = (.ok u, s')) :
    s' = didSetFinal v vc s ∧ vc.linked = true ∧
    (vc.setAt < s.stabNum →
      ((s.nodeD vc.node).valid && s.isNecessary vc.node && !(s.nodeD vc.node).inRch) = true →
      0 ≤ (s.nodeD vc.node).height ∧ (s.nodeD vc.node).height ≤ s.rch.maxAllowed) := by
  rw [didSet_run v s vc hv] at hr
  unfold didSetFinal
  by_cases h1 : vc.linked = false
  · rw [if_pos h1] at hr; cases hr
  rw [if_neg h1] at hr
  have hl : vc.linked = true := by simpa using h1
  by_cases h2 : s.stabNum ≤ vc.setAt
  · rw [if_pos h2] at hr; cases hr
    rw [if_pos h2]; exact ⟨rfl, hl, fun h => by omega⟩
  rw [if_neg h2] at hr
  rw [if_neg h2]
  simp only at hr
  by_cases h3 : s.cfg.debug = true ∧
      (!(s.nodeD vc.node).valid ||
        (bumped (withCell v { vc with setAt := s.stabNum } s)).isStale vc.node) = false
  · rw [if_pos h3] at hr; cases hr
  rw [if_neg h3] at hr
  by_cases h4 : ((s.nodeD vc.node).valid && s.isNecessary vc.node && !(s.nodeD vc.node).inRch) = true
  · rw [if_pos h4] at hr
    rw [if_pos h4]
    obtain ⟨nd, hnd, hge, hle, hs'⟩ := rchInsert_ok _ _ _ _ hr
    have hD : s.nodeD vc.node = nd := by
      have : s.nodes[vc.node]? = some nd := hnd
      simp [State.nodeD, this]
    rw [hD]
    exact ⟨hs', hl, fun _ _ => ⟨hge, hle⟩⟩
  · rw [if_neg h4] at hr
    rw [if_neg h4]
    cases hr
    exact ⟨rfl, hl, fun _ h => absurd h h4⟩

theorem e6_quiet_didSetFinal (v : Nat) (vc : VarCell) (s : State) :
    quiet (didSetFinal v vc s) = didSetFinal v vc (quiet s) := by
  unfold didSetFinal
  by_cases h2 : s.stabNum ≤ vc.setAt
  · rw [if_pos h2, if_pos (show (quiet s).stabNum ≤ vc.setAt from h2)]; rfl
  · rw [if_neg h2, if_neg (show ¬ (quiet s).stabNum ≤ vc.setAt from h2)]
    by_cases h4 : ((s.nodeD vc.node).valid && s.isNecessary vc.node && !(s.nodeD vc.node).inRch) = true
    · rw [if_pos h4, if_pos (show (((quiet s).nodeD vc.node).valid && (quiet s).isNecessary vc.node &&
        !((quiet s).nodeD vc.node).inRch) = true from h4)]; rfl
    · rw [if_neg h4, if_neg (show ¬ (((quiet s).nodeD vc.node).valid && (quiet s).isNecessary vc.node &&
        !((quiet s).nodeD vc.node).inRch) = true from h4)]; rfl

theorem e6_didSetFinal_wrote (v : Nat) (vc0 : VarCell) (x : Val) (s : State) :
    didSetFinal v { vc0 with value := x } (withCell v { vc0 with value := x } s) = wroteOutside v vc0 x s := by
  unfold didSetFinal wroteOutside stampedWrite
  simp only [withCell_withCell]
  rfl

theorem e6_applied_withCell (v : Nat) (vc : VarCell) (s : State) : Applied s (withCell v vc s) :=
  ⟨rfl, rfl, fun m => ⟨_, rfl⟩, by simp [withCell]⟩

theorem e6_inserted_node (n : Nat) (h : Int) (s : State) (m : Nat) :
    ∃ h', (inserted n h s).nodeD m = { s.nodeD m with heightInRch := h' } := by
  have e : (inserted n h s).nodeD m =
      ({ s with nodes := s.nodes.modify n fun x => { x with heightInRch := h } } : State).nodeD m := rfl
  rw [e, nodeD_modify]
  split
  · exact ⟨_, rfl⟩
  · exact ⟨_, rfl⟩

theorem e6_applied_didSetFinal (v : Nat) (vc : VarCell) (s : State) : Applied s (didSetFinal v vc s) := by
  unfold didSetFinal
  split
  · exact ⟨rfl, rfl, fun m => ⟨_, rfl⟩, rfl⟩
  · split
    · refine ⟨rfl, ?_, fun m => ?_, by simp [inserted, bumped, withCell]⟩
      · exact Array.size_modify ..
      · exact e6_inserted_node _ _ _ m
    · exact ⟨rfl, rfl, fun m => ⟨_, rfl⟩, by simp [bumped, withCell]⟩

/-- one deferred write applied by the var phase of `stabiliseEnd` keeps the invariant between actions (read with
the status reset): it is `wroteOutside` -/
theorem applyPending_q {env : Env} {v : Nat} {b c : State} {u : Unit} (Q : QInv env (quiet b))
    (h : (applyPending v).run.run b = (.ok u, c)) : QInv env (quiet c) ∧ Applied b c := by
  rw [applyPending_run] at h
  cases hv : b.vars[v]? with
  | none => rw [hv] at h; cases h
  | some vc =>
    simp only [hv] at h
    cases hp : vc.pending with
    | none =>
      simp only [hp] at h; cases h
      exact ⟨Q, Applied.refl _⟩
    | some x =>
      simp only [hp] at h
      have hv1 := withCell_get v { vc with pending := none, value := x } vc b hv
      obtain ⟨hc, -, hh⟩ := e6_didSet_ok v _ _ _ _ hv1 h
      have hv0 : (quiet (withCell v { vc with pending := none } b)).vars[v]? = some { vc with pending := none } :=
        withCell_get v { vc with pending := none } vc b hv
      have P : SameP (quiet b) (quiet (withCell v { vc with pending := none } b)) := by
        refine ⟨rfl, by simp [quiet, withCell], fun w a ha => ?_⟩
        by_cases hw : w = v
        · subst hw
          have ha' : b.vars[w]? = some a := ha
          rw [hv] at ha'; cases ha'
          exact ⟨_, hv0, rfl⟩
        · exact ⟨a, by rw [← ha]; exact withCell_get_ne v w _ b hw, CellP.refl a⟩
      have Q0 : QInv env (quiet (withCell v { vc with pending := none } b)) := P.qinv Q Q.setDuringStab
      obtain ⟨-, Q1⟩ := wroteOutside_q x Q0 hv0 hh
      have e : quiet c = wroteOutside v { vc with pending := none } x
          (quiet (withCell v { vc with pending := none } b)) := by
        rw [hc, e6_quiet_didSetFinal, ← e6_didSetFinal_wrote]
        have : quiet (withCell v { vc with pending := none, value := x } b) =
            withCell v { vc with pending := none, value := x }
              (quiet (withCell v { vc with pending := none } b)) := by
          rw [← withCell_withCell v { vc with pending := none } { vc with pending := none, value := x } b]
          rfl
        rw [this]
      rw [e]
      refine ⟨Q1, ?_⟩
      rw [hc]
      exact (e6_applied_withCell v _ b).trans (e6_applied_didSetFinal v _ _)

/-- the var phase -/
theorem applyAll_q {env : Env} : ∀ (stack : List Nat) (b c : State) (u : Unit), QInv env (quiet b) →
    (applyAll stack).run.run b = (.ok u, c) → QInv env (quiet c) ∧ Applied b c := by
  intro stack
  induction stack with
  | nil =>
    intro b c u Q h
    cases h
    exact ⟨Q, Applied.refl _⟩
  | cons v vs ih =>
    intro b c u Q h
    simp only [applyAll] at h
    obtain ⟨u1, s1, h1, h2⟩ := bind_ok_inv h
    obtain ⟨Q1, A1⟩ := applyPending_q Q h1
    obtain ⟨Q2, A2⟩ := ih s1 c u Q1 h2
    exact ⟨Q2, A1.trans A2⟩

/-- the rest of `stabiliseEnd` when no var died and no node has update handlers: the status is reset (and the
weak tables are collected) -/
theorem e6_qinv_flags {env : Env} {s s' : State} (Q : QInv env s)
    (heq : s' = { s with memos := s'.memos, nodes := s'.nodes }) (hsz : s'.nodes.size = s.nodes.size)
    (hn : ∀ m, ∃ b, s'.nodeD m = { s.nodeD m with inHandleAfterStab := b }) : QInv env s' := by
  have hE : ∀ m, NodeG (s.nodeD m) (s'.nodeD m) ∧ (s'.nodeD m).value = (s.nodeD m).value ∧
      (s'.nodeD m).numOnUpdateHandlers = (s.nodeD m).numOnUpdateHandlers := by
    intro m
    obtain ⟨b, hb⟩ := hn m
    rw [hb]
    exact ⟨⟨rfl, rfl, rfl, rfl, rfl, rfl, rfl, rfl, rfl, rfl, rfl⟩, rfl, rfl⟩
  have evars : s'.vars = s.vars := by rw [heq]
  have eobs : s'.observers = s.observers := by rw [heq]
  have G : SameG s s' := ⟨by rw [heq], by rw [heq], hsz, by rw [heq], evars, fun m => (hE m).1⟩
  have hno : s'.newObservers = s.newObservers := by rw [heq]
  have hdo : s'.disallowedObservers = s.disallowedObservers := by rw [heq]
  have estab : s'.stabNum = s.stabNum := by rw [heq]
  refine ⟨Q.struct.congr G, ⟨?_, ?_⟩, ?_, by rw [estab]; exact Q.now, ?_, ?_, ?_, by rw [heq]; exact Q.status,
    by rw [heq]; exact Q.alive, by rw [heq]; exact Q.setDuringStab, by rw [heq]; exact Q.deadVars,
    by rw [heq]; exact Q.handleAfterStab, ?_, by rw [heq]; exact Q.pinv, ?_⟩
  · intro n c hlt hk; rw [(hE n).1.kind] at hk; rw [evars]; exact Q.vars.node n c (by rw [← hsz]; exact hlt) hk
  · intro c vc hc; rw [evars] at hc; rw [hsz, (hE _).1.kind]; exact Q.vars.cell c vc hc
  · unfold ObsOK
    rw [hno, hdo]
    have o2 := Q.obs
    refine ⟨?_, ?_, ?_, fun o ho => by rw [eobs]; exact o2.newIn o ho, ?_,
      fun o ho => by rw [eobs]; exact o2.disIn o ho, o2.disNodup⟩
    · intro o ob ho; rw [eobs] at ho; rw [hsz]; exact o2.inRange o ob ho
    · intro n o; rw [(hE n).1.observers, eobs]; exact o2.mem n o
    · intro o ob ho hc; rw [eobs] at ho; exact o2.created o ob ho hc
    · intro o ob ho; rw [eobs] at ho; exact o2.dis o ob ho
  · intro m
    rw [(hE m).1.recomputedAt, (hE m).1.changedAt, estab]; exact Q.stamps m
  · intro c vc hc
    rw [evars] at hc; rw [estab]; exact Q.varStamp c vc hc
  · intro m hm hs
    rw [G.staleOf] at hs
    obtain ⟨w, hw, hv⟩ := Q.cons m (by rw [← hsz]; exact hm) hs
    exact ⟨w, Target.congr (hE m).1.kind evars (fun c _ => (hE c).2.1) hw, by rw [(hE m).2.1]; exact hv⟩
  · intro m
    rw [(hE m).2.2]; exact Q.handlers m
  · intro k n hk
    have : s'.top = s.top := by rw [heq]
    rw [this] at hk
    rw [hsz]; exact Q.top k n hk

theorem e6_dead (c : State) (h : c.deadVars = []) : ({ c with deadVars := [] } : State) = c := by rw [← h]

/-- loop invariant of the second loop of `stabiliseEndRest` -/
structure e6_Mid (c t : State) : Prop where
  eq : t = { c with nodes := t.nodes, deadVars := [], handleAfterStab := [] }
  size : t.nodes.size = c.nodes.size
  node : ∀ m, ∃ b, t.nodeD m = { c.nodeD m with inHandleAfterStab := b }

theorem e6_Mid.modNode {c t : State} (M : e6_Mid c t) (n : Nat) (b : Bool) :
    e6_Mid c { t with nodes := t.nodes.modify n fun x => { x with inHandleAfterStab := b } } := by
  refine ⟨?_, ?_, ?_⟩
  · conv => lhs; rw [M.eq]
  · rw [← M.size]; exact Array.size_modify ..
  · intro m
    obtain ⟨b0, hb0⟩ := M.node m
    rw [nodeD_modify]
    split
    · exact ⟨b, by rw [hb0]⟩
    · exact ⟨b0, hb0⟩

theorem endRest_q {env env' : Env} {fuel : Nat} {c s' : State} (Q : QInv env (quiet c))
    (h : (stabiliseEndRest env' fuel).run.run c = (.ok (), s')) :
    QInv env s' ∧ s' = { quiet c with memos := s'.memos, nodes := s'.nodes } ∧
      s'.nodes.size = c.nodes.size ∧ ∀ m, ∃ b, s'.nodeD m = { c.nodeD m with inHandleAfterStab := b } := by
  have hd : c.deadVars = [] := Q.deadVars
  have hobs : ∀ (o : Nat) (ob : ObsRec), c.observers[o]? = some ob → ob.handlers = [] :=
    fun o ob ho => (Q.obs.inRange o ob ho).2
  unfold stabiliseEndRest at h
  rw [run_bind_get] at h
  try dsimp only at h
  obtain ⟨s4, e4, h⟩ := bind_modify_inv h
  rw [hd, List.forIn_nil] at h
  obtain ⟨_, s5, hp5, h⟩ := bind_ok_inv h
  obtain ⟨_, e5⟩ := pure_ok_inv hp5
  rw [e5] at h
  rw [run_bind_get] at h
  try dsimp only at h
  obtain ⟨s6, e6, h⟩ := bind_modify_inv h
  have M6 : e6_Mid c s6 := by
    rw [e6, e4]
    exact ⟨rfl, rfl, fun m => ⟨_, rfl⟩⟩
  obtain ⟨q, s7, hl3, h⟩ := bind_ok_inv h
  have M7 : e6_Mid c s7 := by
    refine forIn_ok_keepB (e6_Mid c) _ _ ?_ _ _ _ _ M6 hl3
    intro n _ b t r t' Mt hb
    obtain ⟨t1, et1, hb⟩ := bind_modNode_inv hb
    rw [run_bind_get] at hb
    obtain ⟨_, et'⟩ := pure_ok_inv hb
    rw [et', et1]
    exact Mt.modNode n false
  obtain ⟨s8, e8, h⟩ := bind_modify_inv h
  rw [run_bind_get] at h
  obtain ⟨_, s9, hl4, h⟩ := bind_ok_inv h
  have e7o : s7.observers = c.observers := by rw [M7.eq]
  have e9 : s9 = s8 := by
    refine forIn_ok_keepB (fun t => t = s8) _ _ ?_ _ _ _ _ rfl hl4
    intro x _ b t r t' et hb
    obtain ⟨nd, _, hb⟩ := bind_getNode_inv hb
    obtain ⟨_, t1, hb1, hb⟩ := bind_ok_inv hb
    obtain ⟨_, et'⟩ := pure_ok_inv hb
    rw [et']
    refine forIn_ok_keepB (fun t => t = s8) _ _ ?_ _ _ _ _ et hb1
    intro o _ b2 u r2 u' eu hr
    obtain ⟨_, u1, hr1, hr⟩ := bind_ok_inv hr
    obtain ⟨_, eu'⟩ := pure_ok_inv hr
    rw [eu']
    have hobs' : ∀ (o : Nat) (ob : ObsRec), u.observers[o]? = some ob → ob.handlers = [] := by
      intro o ob ho
      rw [eu, e8] at ho
      exact hobs o ob (by rw [← e7o]; exact ho)
    rw [runAll_nohandlers hobs' hr1]; exact eu
  obtain ⟨s10, e10, h⟩ := bind_modify_inv h
  rw [run_modify] at h
  obtain ⟨_, e11⟩ := Prod.mk.inj h
  have hn' : s'.nodes = s7.nodes := by rw [← e11, e10, e9, e8]
  have heq : s' = { quiet c with memos := s'.memos, nodes := s'.nodes } := by
    have e7 : s7 = { ({ c with deadVars := [] } : State) with nodes := s7.nodes, handleAfterStab := [] } := M7.eq
    rw [e6_dead c hd] at e7
    have key : ∀ (a : State), a = { c with nodes := a.nodes, handleAfterStab := [] } →
        ∀ m, ({ a with status := .notStabilising, memos := m } : State) =
          { quiet c with memos := m, nodes := a.nodes } := by
      intro a ha m
      conv => lhs; rw [ha]
      rfl
    have h1 : s' = { s7 with status := .notStabilising, memos := s'.memos } := by rw [← e11, e10, e9, e8]
    rw [hn']
    exact h1.trans (key s7 e7 _)
  have hsz : s'.nodes.size = c.nodes.size := by rw [hn']; exact M7.size
  have hnode : ∀ m, ∃ b, s'.nodeD m = { c.nodeD m with inHandleAfterStab := b } := by
    intro m
    have : s'.nodeD m = s7.nodeD m := by simp only [State.nodeD, hn']
    rw [this]; exact M7.node m
  exact ⟨e6_qinv_flags Q heq hsz hnode, heq, hsz, hnode⟩

/-- **`stabiliseEnd` with deferred writes.**  If the state after the bump of the round number, read with the status
reset, satisfies the invariant between actions, then so does the final state; the final state is the bumped state
after the immediate writes (`Applied`), with the status reset; the variables are described by `applyCell`. -/
theorem stabiliseEnd_eff {env env' : Env} {fuel : Nat} {t s' : State} (Q : QInv env (quiet (bump t)))
    (h : (stabiliseEnd env' fuel).run.run t = (.ok (), s')) :
    QInv env s' ∧ ∃ c, Applied (bump t) c ∧ s' = { quiet c with memos := s'.memos, nodes := s'.nodes } ∧
      s'.nodes.size = c.nodes.size ∧ (∀ m, ∃ b, s'.nodeD m = { c.nodeD m with inHandleAfterStab := b }) ∧
      ∀ w, c.vars[w]? =
        if w ∈ t.setDuringStab then (t.vars[w]?).map (applyCell (t.stabNum + 1)) else t.vars[w]? := by
  rw [stabiliseEnd_eq] at h
  obtain ⟨u, c, h1, h2⟩ := bind_ok_inv h
  rw [stabiliseEndVars_run] at h1
  have h1' : (applyAll t.setDuringStab).run.run (bump t) = (.ok u, c) := h1
  obtain ⟨Qc, A⟩ := applyAll_q t.setDuringStab (bump t) c u Q h1'
  obtain ⟨Q', heq, hsz, hnode⟩ := endRest_q Qc h2
  exact ⟨Q', c, A, heq, hsz, hnode, (applyAll_ok _ _ _ _ h1').2.2.2⟩


end IncrVerif.Proofs.EffH
