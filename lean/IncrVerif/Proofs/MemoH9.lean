import IncrVerif.Proofs.MemoH5
/-!
# C20 over whole histories, K3: hereditarily static top-level nodes stay valid — definitions and contracts

FRAGMENT: user functions and handlers never call `expert::invalidate` (`EffK3`); the state reached contains no
per-key driver node (`NoPK`; kinds are immutable and nodes are only appended, so then none ever existed).

`TV s s'`: `s'` is a future of `s`, `RegScoped` is kept, and — if `s'` has no per-key driver — `TopValid` is kept
(given `RegScoped s`).  `ASpec env`: the contract between the invalidation part (K1x) and the recompute part (K2x).
-/
namespace IncrVerif.Proofs.MemoH
open IncrVerif.Engine IncrVerif.Proofs.Obs IncrVerif.Proofs.Memo

/-- no node is the `lhs_change` closure of a per-key operator (`map` with id `≥ fnPerKey`) -/
def NoPK (s : State) : Prop :=
  ∀ n f args, n < s.nodes.size → (s.nodeD n).kind = .map f args → f < fnPerKey

theorem NoPK.back {s s' : State} (hf : Fut s s') (h : NoPK s') : NoPK s := by
  intro n f args hn hk
  have hc := hf.core n hn
  simp only [nodeK, Prod.mk.injEq] at hc
  exact h n f args (Nat.lt_of_lt_of_le hn hf.nodesLe) (hc.1.trans hk)

/-- user code that does not call `expert::invalidate` -/
def EffK3 : Effect → Prop
  | .xInval _ => False
  | _ => True

structure EnvK3 (env : Env) : Prop where
  fnEff : ∀ f vs, ∀ e ∈ env.fnEff f vs, EffK3 e
  handler : ∀ h u, ∀ e ∈ env.handler h u, EffK3 e

/-- future + registrations stay scoped -/
structure FR (s s' : State) : Prop where
  fut : Fut s s'
  reg : RegScoped s → RegScoped s'

instance : PreOrd FR :=
  ⟨fun s => ⟨Fut.refl s, fun h => h⟩, fun h1 h2 => ⟨h1.fut.trans h2.fut, fun h => h2.reg (h1.reg h)⟩⟩
instance : ILocal FR := ⟨fun _ _ h => ⟨h.fut, h.reg⟩⟩

structure TV (s s' : State) : Prop where
  fut : Fut s s'
  reg : RegScoped s → RegScoped s'
  valid : NoPK s' → RegScoped s → TopValid s → TopValid s'

theorem TV.refl (s : State) : TV s s := ⟨Fut.refl s, fun h => h, fun _ _ h => h⟩
theorem TV.trans {a b c : State} (h1 : TV a b) (h2 : TV b c) : TV a c :=
  ⟨h1.fut.trans h2.fut, fun h => h2.reg (h1.reg h),
   fun hn hr ht => h2.valid hn (h1.reg hr) (h1.valid (hn.back h2.fut) hr ht)⟩
instance : PreOrd TV := ⟨TV.refl, TV.trans⟩

theorem TV.fr {s s' : State} (h : TV s s') : FR s s' := ⟨h.fut, h.reg⟩

/-- a step that neither invalidates nor touches registrations wrongly -/
theorem TV.of_frame {s s' : State} (h : F0V s s') : TV s s' where
  fut := h.toF0.fut
  reg := h.reg
  valid _ _ ht n hn := by
    by_cases hlt : n < s.nodes.size
    · rw [h.valid n hlt]; exact ht n (hn.back h.toF0.fut hlt)
    · exact h.newValid n (Nat.le_of_not_lt hlt) hn.lt

instance : FLocal TV := ⟨fun _ _ h => TV.of_frame h⟩

/-- a step that changes neither nodes nor binds nor `top` (e.g. the sweep of the memo tables, the update of
a memo table, `handles`, observers) -/
theorem TV.of_eq {s s' : State} (h1 : s'.nodes = s.nodes) (h2 : s'.binds = s.binds) (h3 : s'.top = s.top) :
    TV s s' where
  fut := Fut.of_eq h1 h3
  reg := RegScoped.of_eq h1 h2
  valid _ _ ht n hn := by
    have := ht n (hn.back (Fut.of_eq h1 h3) (by rw [← h1]; exact hn.lt))
    simpa only [State.nodeD, h1] using this

/-- THE CONTRACT of the invalidation part -/
structure ASpec (env : Env) : Prop where
  /-- invalidating a node that is not hereditarily static keeps everything -/
  inval : ∀ fuel n s r s', (invalidateNode fuel n).run.run s = (r, s') → ¬ STop s n → TV s s'
  prop : ∀ fuel, Pres TV (propagateInvalidity fuel)
  bnp : ∀ fuel n, Pres TV (becameNecessaryPropagate env fuel n)
  sap : ∀ fuel c i p, Pres TV (stateAddParent env fuel c i p)
  ccbr : ∀ fuel m o nw i, Pres TV (changeChildBindRhs env fuel m o nw i)
  xadd : ∀ fuel n c cb, Pres TV (expertAddDependency env fuel n c cb)
  effs : ∀ fuel effs arg, (∀ e ∈ effs, EffK3 e) → Pres TV (runEffects env fuel effs arg)
  ano : ∀ fuel, Pres TV (addNewObservers env fuel)
  send : ∀ fuel, Pres TV (stabiliseEnd env fuel)

end IncrVerif.Proofs.MemoH
