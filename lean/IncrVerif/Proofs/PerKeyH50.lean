import IncrVerif.Proofs.PerKeyH15
import IncrVerif.Proofs.PerKeyH42
import IncrVerif.Proofs.PerKeyH49
import IncrVerif.Proofs.PerKeyH23
/-!
# A run of a per-key change detector, part 7a: the pure rewiring-with-creation step `StepP` from `V s` to the
unstamped `V s2` (port of `DriverH.stepWOfMid`)
-/
namespace IncrVerif.Proofs.PerKeyH
open IncrVerif.Engine IncrVerif.Driver IncrVerif.Proofs IncrVerif.Proofs.Step IncrVerif.Proofs.Sched
open IncrVerif.Proofs.ExpertH IncrVerif.Proofs.EffH IncrVerif.Proofs.DriverH IncrVerif.Proofs.ExpertH.QR

/-- the rewired nodes of a run of the change detector of `op`: the result (when a key was added), the per-key input
nodes of the keys whose value changed -/
def LcX (s s2 : State) (op eres : Nat) (pr : PerKeyRec) (m : List (Int × Int)) (x : Nat) : Prop :=
  (x = pr.result ∧ ¬ ((∀ pr2, s2.perkeys[op]? = some pr2 → pr2.prevNodes = pr.prevNodes) ∧
    (∀ er er', s.experts[eres]? = some er → s2.experts[eres]? = some er' →
      er'.children = er.children ∧ er'.forceStale = er.forceStale))) ∨
  (∃ key d, (key, (x, d)) ∈ pr.prevNodes ∧ pr.prevMap.lookup key ≠ m.lookup key)

theorem eKey_started (n : Nat) (s : State) : eKey (started n s) = eKey s := rfl

theorem started_experts (n : Nat) (s : State) : (started n s).experts = s.experts := rfl

/-- the fields of an old node after the loop -/
theorem lf_old {D : Nat → Prop} {n : Nat} {s s2 : State} (lf : LF D (started n s) s2) {m : Nat}
    (hm : m < s.nodes.size) :
    (s2.nodeD m).kind = (s.nodeD m).kind ∧ (s2.nodeD m).createdIn = (s.nodeD m).createdIn ∧
    (s2.nodeD m).cutoff = (s.nodeD m).cutoff ∧ (s2.nodeD m).value = (s.nodeD m).value ∧
    (s2.nodeD m).valid = (s.nodeD m).valid ∧ (s2.nodeD m).changedAt = (s.nodeD m).changedAt ∧
    (s2.nodeD m).observers = (s.nodeD m).observers ∧
    (s2.nodeD m).forceNecessary = (s.nodeD m).forceNecessary ∧
    (s2.nodeD m).numOnUpdateHandlers = (s.nodeD m).numOnUpdateHandlers ∧
    (s2.nodeD m).recomputedAt = if m = n then s.stabNum else (s.nodeD m).recomputedAt := by
  have := lf.node m (by rw [started_size]; exact hm)
  simp only [nodeKey, Prod.mk.injEq] at this
  obtain ⟨h1, h2, h3, h4, h5, h6, h7, h8, h9, h10⟩ := this
  rw [started_nodeD] at h1 h2 h3 h4 h5 h6 h7 h8 h9 h10
  by_cases hmn : m = n
  · subst hmn
    simp only [true_and, hm, if_true] at h1 h2 h3 h4 h5 h6 h7 h8 h9 h10 ⊢
    exact ⟨h1, h2, h3, h4, h5, h7, h8, h9, h10, h6⟩
  · have hne : ¬ (n = m ∧ m < s.nodes.size) := fun h => hmn h.1.symm
    simp only [hne, if_false, hmn] at h1 h2 h3 h4 h5 h6 h7 h8 h9 h10 ⊢
    exact ⟨h1, h2, h3, h4, h5, h7, h8, h9, h10, h6⟩

theorem lf_key {D : Nat → Prop} {n : Nat} {s s2 : State} (lf : LF D (started n s) s2) :
    s2.vars = s.vars ∧ s2.binds = s.binds ∧ s2.stabNum = s.stabNum ∧ s2.top = s.top ∧
      s2.propagateInvalidity = s.propagateInvalidity ∧ s2.panicCountdown = s.panicCountdown :=
  eKey_fields (lf.key.trans (eKey_started n s))

theorem lf_grow {D : Nat → Prop} {n : Nat} {s s2 : State} (lf : LF D (started n s) s2) :
    s.nodes.size ≤ s2.nodes.size := by
  have := lf.grow; rw [started_size] at this; exact this

theorem lf_new {D : Nat → Prop} {n : Nat} {s s2 : State} (lf : LF D (started n s) s2) {m : Nat}
    (h1 : s.nodes.size ≤ m) (h2 : m < s2.nodes.size) : NewNode (s2.nodeD m) :=
  lf.new m (by rw [started_size]; exact h1) h2


/-! ## the static facts about the running operator -/

section
variable {env : Env} {s s2 : State} {n op eres : Nat} {pr : PerKeyRec} {m : List (Int × Int)}

theorem LcBase.opok (B : LcBase env s n op pr eres) : OpOK env s op pr := B.pd.aux.pk.ops op pr B.hop

/-- the nodes and the result record of the running operator -/
theorem LcBase.facts (B : LcBase env s n op pr eres) :
    ∃ x er, OpNodes s op pr x eres ∧ s.experts[eres]? = some er ∧ er.pk = some (op, none) ∧ er.node = pr.result ∧
      (∃ d0 rest, er.children = { dep := d0, child := n, cb := none } :: rest) ∧
      (∀ key p d, (key, (p, d)) ∈ pr.prevNodes → EntryOK env s op pr er key p d) ∧
      n = pr.result + 1 ∧ n < s.nodes.size ∧ (s.nodeD n).kind = .map (fnPerKey + op) [pr.result - 1] := by
  obtain ⟨x, e, er, hN, he, hpk, ⟨d0, rest, hch, -, -⟩, hent, -⟩ := B.opok.nodes
  have hee : e = eres := by
    have := hN.result
    rw [B.hres] at this
    injection this with this
    exact this.symm
  subst hee
  have hlc : n = pr.result + 1 := by rw [← B.hn]; exact hN.lc
  have hnode : er.node = pr.result := by
    obtain ⟨er', he', hn'⟩ := B.pd.aux.frag.xrec pr.result e (by have := hN.lt; omega) B.hres
    rw [he] at he'; cases he'; exact hn'
  refine ⟨x, er, hN, he, hpk, hnode, ⟨d0, rest, by rw [← B.hn]; exact hch⟩, hent, hlc, ?_, ?_⟩
  · have := hN.lt; omega
  · rw [hlc]; exact hN.lcKind

theorem LcBase.n_not_expert (B : LcBase env s n op pr eres) (e : Nat) : (s.nodeD n).kind ≠ .expert e := by
  obtain ⟨-, -, -, -, -, -, -, -, -, -, hk⟩ := B.facts
  rw [hk]; intro h; cases h

/-- an entry of the running operator: its node, its record -/
theorem LcBase.entry (B : LcBase env s n op pr eres) {key : Int} {p d : Nat} (h : (key, (p, d)) ∈ pr.prevNodes) :
    p < s.nodes.size ∧ p ≠ n ∧ p ≠ pr.result ∧ ∃ ep erp d0, (s.nodeD p).kind = .expert ep ∧
      s.experts[ep]? = some erp ∧ erp.pk = some (op, some key) ∧ erp.node = p ∧ ep ≠ eres ∧
      erp.children = [{ dep := d0, child := n, cb := none }] := by
  obtain ⟨x, er, hN, he, hpk, hnode, -, hent, hlc, hnlt, hnk⟩ := B.facts
  have E := hent key p d h
  obtain ⟨ep, erp, d0, h1, h2, h3, h4⟩ := E.pnode
  have hne : ep ≠ eres := by
    rintro rfl
    rw [he] at h2; cases h2
    rw [hpk] at h3; cases h3
  obtain ⟨erp', h2', hn'⟩ := B.pd.aux.frag.xrec p ep E.plt h1
  rw [h2] at h2'; cases h2'
  refine ⟨E.plt, ?_, ?_, ep, erp, d0, h1, h2, h3, hn', hne, by rw [← B.hn]; exact h4⟩
  · rintro rfl
    rw [hnk] at h1; cases h1
  · rintro rfl
    rw [B.hres] at h1
    injection h1 with h1
    exact hne h1.symm


/-! ## records and virtual kinds of the nodes that are not rewired -/

theorem pkRec_of {s : State} {op : Nat} {pr : PerKeyRec} (h : s.perkeys[op]? = some pr) : pkRec s op = pr := by
  simp only [pkRec, h, Option.getD_some]

theorem LE.pkRec_other (E : LE env s n op pr eres m s2) {op' : Nat} (h : op' ≠ op) : pkRec s2 op' = pkRec s op' := by
  simp only [pkRec, E.pother op' h]

/-- the record of an old expert node that is not rewired -/
theorem lc_rec_same (B : LcBase env s n op pr eres) (E : LE env s n op pr eres m s2) {x e : Nat}
    (hx : x < s.nodes.size) (hX : ¬ LcX s s2 op eres pr m x) (hk : (s.nodeD x).kind = .expert e) :
    ∃ er er2, s.experts[e]? = some er ∧ s2.experts[e]? = some er2 ∧ er2.pk = er.pk ∧ er2.f = er.f ∧
      er2.children = er.children ∧ er2.forceStale = er.forceStale ∧ er.node = x := by
  have F := B.pd.aux.frag
  obtain ⟨er, he, hnode⟩ := F.xrec x e hx hk
  obtain ⟨er2, he2, a1, -, a3, -, -, -, -, a8, -, -⟩ := E.lf.xrec e er he
  by_cases hee : e = eres
  · subst hee
    have hxr : x = pr.result := F.sl_xinj hk B.hres
    have hc : (∀ pr2, s2.perkeys[op]? = some pr2 → pr2.prevNodes = pr.prevNodes) ∧
        (∀ er er', s.experts[e]? = some er → s2.experts[e]? = some er' →
          er'.children = er.children ∧ er'.forceStale = er.forceStale) :=
      Classical.not_not.1 fun hc => hX (Or.inl ⟨hxr, hc⟩)
    obtain ⟨c1, c2⟩ := hc.2 er er2 he he2
    exact ⟨er, er2, he, he2, a3, a1, c1, c2, hnode⟩
  · refine ⟨er, er2, he, he2, a3, a1, a8 hee, ?_, hnode⟩
    rcases E.fsame e er er2 hee he he2 with h | ⟨key, d, h1, h2⟩
    · exact h
    · exact absurd (Or.inr ⟨key, d, by rw [← hnode]; exact h1, h2⟩) hX

/-- the virtual kind and the virtual stamp rule of an old node that is not rewired are unchanged -/
theorem lc_vkind_same (B : LcBase env s n op pr eres) (E : LE env s n op pr eres m s2) {x : Nat}
    (hx : x < s.nodes.size) (hX : ¬ LcX s s2 op eres pr m x) :
    vKind s2 (s.nodeD x).kind = vKind s (s.nodeD x).kind ∧
      forced s2.experts (s.nodeD x).kind = forced s.experts (s.nodeD x).kind := by
  cases hk : (s.nodeD x).kind <;> try (exact ⟨rfl, rfl⟩)
  rename_i e
  obtain ⟨er, er2, he, he2, hpk, hf, hch, hfs, hnode⟩ := lc_rec_same B E hx hX hk
  refine ⟨?_, by simp only [forced, xRec_some he, xRec_some he2, hfs]⟩
  obtain ⟨op', pr', hp', hcase⟩ := B.pd.aux.pk.recs e er he
  obtain ⟨pn, hpop⟩ := E.pop
  rcases hcase with ⟨h1, h2⟩ | ⟨key, d, h1, h2⟩
  · -- a result record
    have k1 : (xRec s.experts e).pk = some (op', none) := by rw [xRec_some he]; exact h1
    have k2 : (xRec s2.experts e).pk = some (op', none) := by rw [xRec_some he2, hpk]; exact h1
    rw [vKind_expert_res s k1, vKind_expert_res s2 k2, xRec_some he, xRec_some he2, hch]
    by_cases hop : op' = op
    · subst hop
      rw [B.hop] at hp'; cases hp'
      have hxr : x = pr.result := hnode.symm.trans h2
      have hc : (∀ pr2, s2.perkeys[op']? = some pr2 → pr2.prevNodes = pr.prevNodes) ∧
          (∀ er er', s.experts[eres]? = some er → s2.experts[eres]? = some er' →
            er'.children = er.children ∧ er'.forceStale = er.forceStale) :=
        Classical.not_not.1 fun hc => hX (Or.inl ⟨hxr, hc⟩)
      rw [pkRec_of hpop, pkRec_of B.hop, hc.1 _ hpop]
    · rw [E.pkRec_other hop]
  · -- an entry
    have k1 : (xRec s.experts e).pk = some (op', some key) := by rw [xRec_some he]; exact h1
    have k2 : (xRec s2.experts e).pk = some (op', some key) := by rw [xRec_some he2, hpk]; exact h1
    rw [vKind_expert_key s k1, vKind_expert_key s2 k2, xRec_some he, xRec_some he2, hch]
    by_cases hop : op' = op
    · subst hop
      rw [B.hop] at hp'; cases hp'
      have hl : pr.prevMap.lookup key = m.lookup key :=
        Classical.not_not.1 fun hne => hX (Or.inr ⟨key, d, by rw [← hnode]; exact h2, hne⟩)
      rw [pkRec_of hpop, pkRec_of B.hop, hl]
    · rw [E.pkRec_other hop]

/-- the children of an old node that is not rewired are unchanged -/
theorem lc_children_same (B : LcBase env s n op pr eres) (E : LE env s n op pr eres m s2) {x : Nat}
    (hx : x < s.nodes.size) (hX : ¬ LcX s s2 op eres pr m x) : s2.children x = s.children x := by
  obtain ⟨k1, -, -, -, k5, -⟩ := lf_old E.lf hx
  unfold State.children Node.kind?
  rw [k1, k5, (lf_key E.lf).2.1, B.pd.aux.frag.valid x hx]
  cases hk : (s.nodeD x).kind <;> try rfl
  rename_i e
  obtain ⟨er, er2, he, he2, -, -, hch, -, -⟩ := lc_rec_same B E hx hX hk
  simp only [if_true, he, he2, hch]


/-! ## stamps and variables of `V s2` -/

/-- a raised `forceStale` flag stays up -/
theorem lf_forced_mono {D : Nat → Prop} (lf : LF D (started n s) s2) (k : Kind) (h : forced s.experts k = true) :
    forced s2.experts k = true := by
  cases k <;> simp only [forced] at h ⊢ <;> try (exact h)
  rename_i e
  cases he : s.experts[e]? with
  | none => rw [xRec_forceStale_none he] at h; cases h
  | some er =>
    rw [xRec_some he] at h
    obtain ⟨er', he', -, -, -, -, -, -, a7, -⟩ := lf.xrec e er he
    rw [xRec_some he']
    exact a7 h

theorem V_default_ge (s : State) (x : Nat) (h : s.nodes.size ≤ x) : (V s).nodeD x = default := by
  rw [V_nodeD, nodeD_default_of_ge s x h]; rfl

/-- no stamp of `V s2` is in the future -/
theorem lc_stamps {D : Nat → Prop} (lf : LF D (started n s) s2) (T : Stamps (V s)) : Stamps (V s2) := by
  obtain ⟨-, -, hst, -⟩ := lf_key lf
  have h0 : 0 ≤ s.stabNum := T.now
  refine ⟨by rw [V_stabNum, hst]; exact h0, fun x => ?_, fun c vc h => ?_⟩
  · rw [V_stabNum, hst]
    by_cases hx : x < s.nodes.size
    · obtain ⟨k1, -, -, -, -, k6, -, -, -, k10⟩ := lf_old lf hx
      have hT := T.node x
      rw [V_nodeD, vNode_recomputedAt, vNode_changedAt, V_stabNum] at hT
      rw [V_nodeD, vNode_recomputedAt, vNode_changedAt, k6, k1]
      refine ⟨?_, hT.2⟩
      cases hf2 : forced s2.experts (s.nodeD x).kind with
      | true => simp only [if_true]; omega
      | false =>
        have hf : forced s.experts (s.nodeD x).kind = false := by
          cases hf : forced s.experts (s.nodeD x).kind with
          | false => rfl
          | true => rw [lf_forced_mono lf _ hf] at hf2; cases hf2
        rw [hf] at hT
        simp only [Bool.false_eq_true, if_false] at hT ⊢
        rw [k10]
        split
        · exact Int.le_refl _
        · exact hT.1
    · by_cases hx2 : x < s2.nodes.size
      · have N := lf_new lf (Nat.le_of_not_lt hx) hx2
        rw [V_nodeD, vNode_recomputedAt, vNode_changedAt, N.recomputedAt, N.changedAt]
        refine ⟨?_, by omega⟩
        split <;> omega
      · rw [V_default_ge s2 x (Nat.le_of_not_lt hx2)]
        exact ⟨by show (-1 : Int) ≤ _; omega, by show (-1 : Int) ≤ _; omega⟩
  · rw [V_vars, (lf_key lf).1] at h
    rw [V_stabNum, hst]
    exact T.var c vc h

/-- var nodes and var cells still name each other -/
theorem lc_varsOK {D : Nat → Prop} (lf : LF D (started n s) s2) (W : VarsOK (V s)) : VarsOK (V s2) := by
  obtain ⟨hv, -⟩ := lf_key lf
  constructor
  · intro x c hx hk
    rw [V_size] at hx
    rw [V_kind, vKind_eq_var] at hk
    by_cases hxs : x < s.nodes.size
    · rw [(lf_old lf hxs).1] at hk
      obtain ⟨vc, h1, h2⟩ := W.node x c (by rw [V_size]; exact hxs) (by rw [V_kind, vKind_eq_var]; exact hk)
      exact ⟨vc, by rw [V_vars, hv]; exact h1, h2⟩
    · exact absurd hk ((lf_new lf (Nat.le_of_not_lt hxs) hx).notVar c)
  · intro c vc h
    rw [V_vars, hv] at h
    obtain ⟨h1, h2⟩ := W.cell c vc h
    rw [V_size] at h1
    rw [V_kind, vKind_eq_var] at h2
    refine ⟨by rw [V_size]; exact Nat.lt_of_lt_of_le h1 (lf_grow lf), ?_⟩
    rw [V_kind, vKind_eq_var, (lf_old lf h1).1]
    exact h2


/-! ## the step -/

theorem isStale_of_forced (F : PFrag env s) {x : Nat} (hx : x < s.nodes.size)
    (h : forced s.experts (s.nodeD x).kind = true) : s.isStale x = true := by
  cases hk : (s.nodeD x).kind <;> rw [hk] at h <;> try (cases h)
  rename_i e
  obtain ⟨er, he, -⟩ := F.xrec x e hx hk
  simp only [forced, xRec_some he] at h
  exact isStale_of_forceStale hk (F.valid x hx) he h

/-- an expert node whose virtual stamp is `-1` (flagged stale, or never computed) is stale -/
theorem isStale_of_vstamp (F : PFrag env s) {x e : Nat} (hx : x < s.nodes.size) (hk : (s.nodeD x).kind = .expert e)
    (h : ((V s).nodeD x).recomputedAt = -1) : s.isStale x = true := by
  rcases (V_stamp_iff s x).1 h with h | h
  · exact isStale_of_forced F hx h
  · unfold State.isStale Node.kind?
    simp only [F.valid x hx, if_true, hk, h]
    simp

/-- **part A**: the rewiring-with-creation step of the virtual states -/
theorem lc_stepP (B : LcBase env s n op pr eres) (E : LE env s n op pr eres m s2) :
    StepP (penv env) (LcX s s2 op eres pr m) n (V s) (unstamp n (s.nodeD n).recomputedAt (V s2)) ∧
      NewStale (V s) (unstamp n (s.nodeD n).recomputedAt (V s2)) := by
  have I := B.pd.inv
  have A := B.pd.aux
  have F := A.frag
  have F2 := E.frag
  obtain ⟨x0, er0, hN, he0, hpk0, hnode0, ⟨d0, rest, hch0⟩, hent, hlc, hnlt, hnk⟩ := B.facts
  have hne := B.n_not_expert
  obtain ⟨hvars, hbinds, hstab, -, -, -⟩ := lf_key E.lf
  have hgrow := lf_grow E.lf
  obtain ⟨rk2, st2W⟩ := E.mid.st
  have st2 : Struct (penv env) rk2 (V s2) := struct_V F2 st2W
  have T2 : Stamps (V s2) := lc_stamps E.lf I.stamps
  have V2 : VarsOK (V s2) := lc_varsOK E.lf A.vars
  have hkn2 : (s2.nodeD n).kind = (s.nodeD n).kind := (lf_old E.lf hnlt).1
  have hne2 : ∀ e, (s2.nodeD n).kind ≠ .expert e := fun e => by rw [hkn2]; exact hne e
  have hnlt2 : n < (V s2).nodes.size := by rw [V_size]; omega
  have hstampV : ((V s2).nodeD n).recomputedAt = (V s2).stabNum := by
    rw [V_recomputedAt_of_not_expert s2 n hne2, (lf_old E.lf hnlt).2.2.2.2.2.2.2.2.2, if_pos rfl, V_stabNum, hstab]
  have hnst : (V s2).isStale n = false := by
    rw [GInv.isStale st2 hnlt2]; exact staleOf_stamped T2 hstampV
  have hnq : ((V s2).nodeD n).inRch = false := by
    cases hq : ((V s2).nodeD n).inRch with
    | false => rfl
    | true => rw [((Struct.queued_iff st2 n).1 hq).2] at hnst; cases hnst
  have hnec2 : s2.isNecessary n = true :=
    E.lf.nec n (by rw [started_isNecessary, ← V_isNecessary]; exact (I.cur n rfl).1)
  have hR := sameR_unstamp n (s.nodeD n).recomputedAt (V s2)
  have hstale : ∀ x, x ≠ n → (unstamp n (s.nodeD n).recomputedAt (V s2)).isStale x = (V s2).isStale x :=
    fun x hx => hR.isStale (by rw [unstamp_other n _ _ hx])
  have h0 : 0 ≤ s.stabNum := I.stamps.now
  -- a rewired node
  have hrew : ∀ x, LcX s s2 op eres pr m x → x ≠ n ∧ x < s.nodes.size ∧ n ∈ s.children x ∧
      (∃ e, (s2.nodeD x).kind = .expert e) ∧ ((V s2).nodeD x).recomputedAt = -1 := by
    rintro x (⟨rfl, hnc⟩ | ⟨key, d, hm, hl⟩)
    · have hlt : pr.result < s.nodes.size := by have := hN.lt; omega
      refine ⟨by omega, hlt, ?_, ⟨eres, by rw [(lf_old E.lf hlt).1]; exact B.hres⟩,
        (V_stamp_iff s2 _).2 (Or.inl (E.resAlt.resolve_left hnc))⟩
      rw [children_expert (F.valid _ hlt) B.hres he0, hch0]
      simp
    · obtain ⟨hplt, hpn, -, ep, erp, dd, h1, h2, -, -, -, h6⟩ := B.entry hm
      refine ⟨hpn, hplt, ?_, ⟨ep, by rw [(lf_old E.lf hplt).1]; exact h1⟩, E.forcedU key x d hm hl⟩
      rw [children_expert (F.valid _ hplt) h1 h2, h6]
      simp
  have W : StepP (penv env) (LcX s s2 op eres pr m) n (V s) (unstamp n (s.nodeD n).recomputedAt (V s2)) := {
    grow := by rw [hR.size, V_size, V_size]; exact hgrow
    vars := by rw [hR.vars]; exact hvars
    binds := by rw [hR.binds]; exact hbinds
    stabNum := by rw [hR.stabNum]; exact hstab
    graph' := bgraph_congrR (bgraph_V F2 st2W V2) hR
    heap' := heapInv_congrR (heapInv_V F2 st2W) hR
    stamps' := by
      refine ⟨by rw [hR.stabNum]; exact T2.now, fun x => ?_, fun c vc h => ?_⟩
      · rw [hR.stabNum, hR.changedAt]
        refine ⟨?_, (T2.node x).2⟩
        by_cases hx : x = n
        · subst hx
          rw [unstamp_self _ _ _ hnlt2, V_stabNum, hstab]
          have := (I.stamps.node x).1
          rw [V_recomputedAt_of_not_expert s x hne, V_stabNum] at this
          exact this
        · rw [unstamp_other _ _ _ hx]; exact (T2.node x).1
      · rw [hR.vars] at h; rw [hR.stabNum]; exact T2.var c vc h
    qstale' := by
      intro x hq
      rw [hR.inRch] at hq
      have hx : x ≠ n := by
        intro e; subst e; rw [hnq] at hq; cases hq
      rw [hstale x hx]
      exact ((Struct.queued_iff st2 x).1 hq).2
    pending' := by
      intro x h1 h2
      by_cases hx : x = n
      · exact Or.inr hx
      · rw [hR.nec] at h1
        rw [hstale x hx] at h2
        rw [hR.inRch]
        exact Or.inl ((Struct.queued_iff st2 x).2 ⟨h1, h2⟩)
    notX := fun hX => (hrew n hX).1 rfl
    selfNec := by rw [hR.nec, V_isNecessary]; exact hnec2
    selfQ := by rw [hR.inRch]; exact hnq
    xOld := fun x hX => by rw [V_size]; exact (hrew x hX).2.1
    old := by
      intro x hx
      rw [V_size] at hx
      rw [hR.valid, hR.createdIn, hR.value, hR.changedAt, hR.kind, hR.children]
      obtain ⟨k1, k2, -, k4, k5, k6, -, -, -, k10⟩ := lf_old E.lf hx
      simp only [V_nodeD, vNode_valid, vNode_createdIn, vNode_value, vNode_changedAt, vNode_kind, V_children]
      refine ⟨k5, k2, k4, k6, fun hX => ?_⟩
      obtain ⟨hk, hf⟩ := lc_vkind_same B E hx hX
      refine ⟨by rw [k1]; exact hk, ?_, lc_children_same B E hx hX⟩
      by_cases hxn : x = n
      · subst hxn
        rw [unstamp_self _ _ _ hnlt2, vNode_recomputedAt_of_not_expert _ _ hne]
      · rw [unstamp_other _ _ _ hxn, V_nodeD, vNode_recomputedAt, vNode_recomputedAt, k1, hf, k10, if_neg hxn]
    rewired := by
      intro x hx
      obtain ⟨hxn, hxlt, hch, ⟨ex, hkx⟩, hf⟩ := hrew x hx
      refine ⟨by rw [V_children]; exact hch, ?_, ?_⟩
      · rw [hstale x hxn, V_isStale]
        exact isStale_of_vstamp F2 (Nat.lt_of_lt_of_le hxlt hgrow) hkx hf
      · rw [unstamp_other _ _ _ hxn, hf, V_stabNum]
        omega
    new := by
      intro x h1 h2
      rw [V_size] at h1
      rw [hR.size, V_size] at h2
      have hxn : x ≠ n := by omega
      have N := lf_new E.lf h1 h2
      rw [unstamp_other _ _ _ hxn, V_nodeD, vNode_recomputedAt, N.recomputedAt]
      split <;> rfl }
  refine ⟨W, newStale_of_noNewVar W fun x c h1 h2 _ => ?_⟩
  rw [V_size] at h1
  rw [hR.size, V_size] at h2
  rw [hR.kind, V_kind]
  intro hk
  exact (lf_new E.lf h1 h2).notVar c ((vKind_eq_var s2 _ c).1 hk)

/-- the drain invariant of the state in which the static step of the change detector starts -/
theorem lc_inv' (B : LcBase env s n op pr eres) (E : LE env s n op pr eres m s2) :
    BindH.DInv (penv env) (unstamp n (s.nodeD n).recomputedAt (V s2)) (some n) :=
  stepP_inv' B.pd.inv (lc_stepP B E).1 (lc_stepP B E).2

end

end IncrVerif.Proofs.PerKeyH
