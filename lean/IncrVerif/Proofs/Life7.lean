import IncrVerif.Proofs.Life6
/-!
# Observer lifecycle over whole histories, part 7: handlers are only run for in-use observers
-/
namespace IncrVerif.Proofs.Life
open IncrVerif.Engine IncrVerif.Proofs.Obs

/-- the ghost check in front of a delivery to the handler registered under `tok` on observer `o`:
the observer is in use and the handler is still registered -/
def deliveryCheck (o tok : Nat) : M Unit := do
  let ob ← getObs o
  assertM (ob.state == .inUse && ob.handlers.any (·.token == tok))
    "ghost:notification-for-an-observer-not-in-use-or-an-unregistered-handler"

/-- the loop body of `run_all` -/
def runAllBody (env : Env) (fuel o n : Nat) (nu : NodeUpdate) (now : Int) (h : HandlerRec) :
    M (ForInStep PUnit) := do
  match (← getObs o).state with
  | .created | .unlinked => Engine.panic "internal_observer:run_all:state"
  | .disallowed => pure ()
  | .inUse =>
    if h.createdAt < now then
      match handlerStep h.prev nu with
      | none => pure ()
      | some d =>
        modObs o fun x => { x with handlers := x.handlers.map fun h' =>
          if h'.token == h.token then { h' with prev := d.toPrev } else h' }
        let upd ← match d with
          | .changed => do pure (Update.changed (← valueUnwrap env n "node_update:value-unwrap"))
          | .necessary => do pure (Update.initialised (← valueUnwrap env n "node_update:value-unwrap"))
          | .invalidated => pure Update.invalidated
          | .unnecessary => Engine.panic "public:subscription-got-unnecessary"
        tick
        logEv (.notif h.token upd)
        runEffects env fuel (env.handler h.hid upd)
  pure (ForInStep.yield ⟨⟩)

theorem runAll_eq (env : Env) (fuel o n : Nat) (nu : NodeUpdate) (now : Int) :
    runAll env fuel o n nu now = (do
      let hs := (← getObs o).handlers
      let _ ← forIn hs PUnit.unit fun h _ => runAllBody env fuel o n nu now h
      pure ()) := by
  unfold runAll runAllBody
  rfl

/-- `runAllBody` with the ghost check: the observer is in use at the moment the notification is logged
and the handler runs -/
def runAllBodyChecked (env : Env) (fuel o n : Nat) (nu : NodeUpdate) (now : Int) (h : HandlerRec) :
    M (ForInStep PUnit) := do
  match (← getObs o).state with
  | .created | .unlinked => Engine.panic "internal_observer:run_all:state"
  | .disallowed => pure ()
  | .inUse =>
    if h.createdAt < now then
      match handlerStep h.prev nu with
      | none => pure ()
      | some d =>
        modObs o fun x => { x with handlers := x.handlers.map fun h' =>
          if h'.token == h.token then { h' with prev := d.toPrev } else h' }
        let upd ← match d with
          | .changed => do pure (Update.changed (← valueUnwrap env n "node_update:value-unwrap"))
          | .necessary => do pure (Update.initialised (← valueUnwrap env n "node_update:value-unwrap"))
          | .invalidated => pure Update.invalidated
          | .unnecessary => Engine.panic "public:subscription-got-unnecessary"
        tick
        deliveryCheck o h.token
        logEv (.notif h.token upd)
        runEffects env fuel (env.handler h.hid upd)
  pure (ForInStep.yield ⟨⟩)

theorem M.ext {α} {x y : M α} (h : ∀ s, x.run.run s = y.run.run s) : x = y := by
  funext s; exact h s

theorem run_bind_congr {α β} {x : M α} {f g : α → M β} (s : State)
    (h : ∀ a s1, x.run.run s = (.ok a, s1) → (f a).run.run s1 = (g a).run.run s1) :
    (x >>= f).run.run s = (x >>= g).run.run s := by
  rw [run_bind, run_bind]
  rcases hx : x.run.run s with ⟨r, s1⟩
  cases r with
  | error e => rfl
  | ok a => exact h a s1 hx

/-- observer `o` is in use and has a handler registered under `tok` -/
def Deliverable (t : State) (o tok : Nat) : Prop :=
  ∃ ob : ObsRec, t.observers[o]? = some ob ∧ ob.state = .inUse ∧ tok ∈ ob.handlers.map (·.token)

theorem deliveryCheck_noop {β} (o tok : Nat) (k : M β) (s : State) (hs : Deliverable s o tok) :
    (deliveryCheck o tok >>= fun _ => k).run.run s = k.run.run s := by
  obtain ⟨ob, e, hst, htok⟩ := hs
  unfold deliveryCheck
  simp only [bind_assoc]
  rw [run_bind_ok (run_getObs_some e), hst]
  have : ob.handlers.any (fun x => x.token == tok) = true := by
    rw [List.any_eq_true]
    obtain ⟨x, hx, hxt⟩ := List.mem_map.1 htok
    exact ⟨x, hx, by simp [hxt]⟩
  simp only [this]
  rfl

/-- `Same`, and every observer keeps its handler registrations (token, hid, createdAt) -/
structure SameK (s s' : State) : Prop extends Same s s' where
  keys : ∀ o : Nat, (s'.observers[o]?).map (fun x : ObsRec => x.handlers.map hkey)
    = (s.observers[o]?).map (fun x : ObsRec => x.handlers.map hkey)

instance : ObsLocal SameK where
  refl s := ⟨Same.refl s, fun _ => rfl⟩
  trans h1 h2 := ⟨h1.toSame.trans h2.toSame, fun o => (h2.keys o).trans (h1.keys o)⟩
  of_eq s s' h1 h2 h3 h4 h5 := ⟨ObsLocal.of_eq s s' h1 h2 h3 h4 h5, fun o => by rw [h1]⟩
  logEv e s he := ⟨ObsLocal.logEv e s he, fun _ => rfl⟩

theorem SameK.modObs_setPrev (s : State) (o : Nat) (g : HandlerRec → HandlerRec)
    (hg : ∀ h, hkey (g h) = hkey h) :
    SameK s { s with observers := s.observers.modify o fun x => { x with handlers := x.handlers.map g } } := by
  refine ⟨Same.modObs s o _ (fun _ => rfl), fun m => ?_⟩
  simp only [Array.getElem?_modify]
  split
  · cases s.observers[m]? with
    | none => rfl
    | some x =>
      simp only [Option.map_some, List.map_map, Option.some.injEq]
      exact List.map_congr_left fun h _ => hg h
  · rfl

theorem PresK.modObs_setPrev (o : Nat) (g : HandlerRec → HandlerRec) (hg : ∀ h, hkey (g h) = hkey h) :
    Pres SameK (modObs o fun x => { x with handlers := x.handlers.map g }) := by
  unfold Engine.modObs
  exact Pres.modify fun s => SameK.modObs_setPrev s o g hg

macro_rules
  | `(tactic| lleaf) =>
    `(tactic| ((with_reducible apply PresK.modObs_setPrev); intro h; dsimp only [hkey]; split <;> rfl))

theorem SameK.deliverable {s s' : State} (h : SameK s s') {o tok : Nat} (hd : Deliverable s o tok) :
    Deliverable s' o tok := by
  obtain ⟨ob, e, hst, htok⟩ := hd
  have hs := h.toSame.stOf_eq o
  rw [stOf_eq_some.2 ⟨ob, e, hst⟩] at hs
  obtain ⟨ob', e', hst'⟩ := stOf_eq_some.1 hs
  refine ⟨ob', e', hst', ?_⟩
  have hk := h.keys o
  rw [e, e'] at hk
  simp only [Option.map_some, Option.some.injEq] at hk
  have : ob'.handlers.map (·.token) = ob.handlers.map (·.token) := by
    have := congrArg (List.map Prod.fst) hk
    simpa [List.map_map, Function.comp_def, hkey] using this
  rw [this]; exact htok

/-- a step that keeps the observer table and the registrations can be skipped when comparing two
continuations that agree wherever the delivery is legitimate -/
theorem check_after {α β} (o tok : Nat) (pre : M α) (hp : Pres SameK pre) (f g : α → M β) (s : State)
    (hs : Deliverable s o tok)
    (hfg : ∀ a s', Deliverable s' o tok → (f a).run.run s' = (g a).run.run s') :
    (pre >>= f).run.run s = (pre >>= g).run.run s := by
  apply run_bind_congr
  intro a s1 h1
  exact hfg a s1 ((hp.h _ _ _ h1).deliverable hs)

theorem getObs_ok_inv {o : Nat} {s s1 : State} {ob : ObsRec}
    (h : (getObs o).run.run s = (.ok ob, s1)) : s1 = s ∧ s.observers[o]? = some ob := by
  cases e : s.observers[o]? with
  | none => rw [run_getObs_none e] at h; cases h
  | some x => rw [run_getObs_some e] at h; cases h; exact ⟨rfl, rfl⟩

macro "chk" o:term "," tok:term : tactic =>
  `(tactic| first
    | exact deliveryCheck_noop _ _ _ _ (by assumption)
    | (refine check_after $o $tok _ (by lpres) _ _ _ (by assumption) ?_; intro _ _ _))

/-- the two loop bodies agree wherever the handler `h` is registered on `o` if `o` is in use -/
theorem runAllBodyChecked_run (env : Env) (fuel o n : Nat) (nu : NodeUpdate) (now : Int)
    (h : HandlerRec) (s : State)
    (hreg : ∀ ob : ObsRec, s.observers[o]? = some ob → ob.state = .inUse →
      h.token ∈ ob.handlers.map (·.token)) :
    (runAllBodyChecked env fuel o n nu now h).run.run s
      = (runAllBody env fuel o n nu now h).run.run s := by
  unfold runAllBodyChecked runAllBody
  apply run_bind_congr
  intro ob s1 hob
  obtain ⟨rfl, e⟩ := getObs_ok_inv hob
  dsimp only
  cases hst : ob.state <;> simp only []
  -- in use
  have hs : Deliverable s1 o h.token := ⟨ob, e, hst, hreg ob e hst⟩
  by_cases hc : h.createdAt < now
  · simp only [hc, if_true]
    cases hd : handlerStep h.prev nu with
    | none => rfl
    | some d =>
      simp only []
      chk o, h.token
      cases d <;> simp only [] <;> repeat (chk o, h.token)
  · simp only [hc, if_false]

theorem PresD.runAllBody (env fuel o n nu now h) : Pres Dis (runAllBody env fuel o n nu now h) := by
  unfold Life.runAllBody; lpres

/-- two loops whose bodies agree wherever an invariant (kept by the second body) holds -/
theorem forIn_congr_inv {α} (I : State → Prop) (f g : α → PUnit → M (ForInStep PUnit)) (l : List α)
    (hI : ∀ a, a ∈ l → ∀ s r s', I s → (g a ⟨⟩).run.run s = (r, s') → I s')
    (hfg : ∀ a, a ∈ l → ∀ s, I s → (f a ⟨⟩).run.run s = (g a ⟨⟩).run.run s) :
    ∀ s, I s → (forIn l PUnit.unit f).run.run s = (forIn l PUnit.unit g).run.run s := by
  induction l with
  | nil => intro s _; rfl
  | cons a l ih =>
    intro s hi
    rw [List.forIn_cons, List.forIn_cons, run_bind, run_bind, hfg a List.mem_cons_self s hi]
    rcases hx : (g a ⟨⟩).run.run s with ⟨r, s1⟩
    have hi1 := hI a List.mem_cons_self s r s1 hi hx
    cases r with
    | error e => rfl
    | ok x =>
      cases x with
      | done b => rfl
      | yield b =>
        exact ih (fun b hb => hI b (List.mem_cons_of_mem _ hb))
          (fun b hb => hfg b (List.mem_cons_of_mem _ hb)) s1 hi1

/-- `run_all` with the ghost check -/
def runAllChecked (env : Env) (fuel o n : Nat) (nu : NodeUpdate) (now : Int) : M Unit := do
  let hs := (← getObs o).handlers
  let _ ← forIn hs PUnit.unit fun h _ => runAllBodyChecked env fuel o n nu now h
  pure ()

/-- O4: the ghost check never fires — `run_all` IS `run_all` with the check "the observer is in use
and this handler is still registered on it" in front of every notification -/
theorem runAllChecked_eq (env : Env) (fuel o n : Nat) (nu : NodeUpdate) (now : Int) :
    runAllChecked env fuel o n nu now = runAll env fuel o n nu now := by
  rw [runAll_eq]
  unfold runAllChecked
  apply M.ext
  intro s
  apply run_bind_congr
  intro ob s1 hob
  obtain ⟨rfl, e⟩ := getObs_ok_inv hob
  dsimp only
  -- while `o` is in use its registrations are those of the snapshot
  let I : State → Prop := fun t => ∀ x : ObsRec, t.observers[o]? = some x → x.state = .inUse →
    x.handlers.map hkey = ob.handlers.map hkey
  have key := forIn_congr_inv I
    (fun h _ => runAllBodyChecked env fuel o n nu now h) (fun h _ => runAllBody env fuel o n nu now h)
    ob.handlers ?_ ?_ s1 ?_
  · rw [run_bind, run_bind, key]
  · -- the invariant is kept
    intro a _ t r t' hi hrun x' ex' hst'
    have d := (PresD.runAllBody env fuel o n nu now a).h t r t' hrun
    obtain ⟨x, ex, rd⟩ := d.obs_back ex'
    have hst : x.state = .inUse := by
      rcases rd.state with h | h
      · rw [← h]; exact hst'
      · rw [hst'] at h; revert h; cases x.state <;> simp [afterDisallow]
    rcases rd.handlers with h | ⟨_, h, _⟩
    · rw [h]; exact hi x ex hst
    · rw [hst'] at h; cases h
  · -- the bodies agree
    intro a ha t hi
    refine runAllBodyChecked_run env fuel o n nu now a t fun x ex hst => ?_
    have hk := hi x ex hst
    have : x.handlers.map (·.token) = ob.handlers.map (·.token) := by
      have := congrArg (List.map Prod.fst) hk
      simpa [List.map_map, Function.comp_def, hkey] using this
    rw [this]
    exact List.mem_map.2 ⟨a, ha, rfl⟩
  · intro x ex _
    rw [e] at ex; cases ex; rfl

end IncrVerif.Proofs.Life
