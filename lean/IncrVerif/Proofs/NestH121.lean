import IncrVerif.Proofs.NestH120
/-!
# Nested binds (F2), part 7g: observers watch NAMED nodes; `ProgOK` along histories; HEADLINE `history_stabilise_denote`
-/
namespace IncrVerif.Proofs.NestH
open IncrVerif.Engine IncrVerif.Driver IncrVerif.Proofs IncrVerif.Proofs.Step IncrVerif.Proofs.Sched IncrVerif.Proofs.Quiet
open IncrVerif.Proofs.BindH
open IncrVerif.Spec

/-- every observer watches a node named by the naming table (it was created by `observe (.outer j)`) -/
def ObsNamed (s : State) : Prop := ∀ (o : Nat) (ob : ObsRec), s.observers[o]? = some ob → ∃ j : Nat, s.top[j]? = some ob.node

namespace N7

/-- the naming table is unchanged and the observers watch the nodes they watched -/
structure ON (s s' : State) : Prop where
  top : s'.top = s.top
  obs : ∀ (o : Nat) (ob' : ObsRec), s'.observers[o]? = some ob' → ∃ ob, s.observers[o]? = some ob ∧ ob'.node = ob.node

instance : PreOrd ON where
  refl _ := ⟨rfl, fun o ob h => ⟨ob, h, rfl⟩⟩
  trans h1 h2 := ⟨h2.top.trans h1.top, fun o ob' h => by
    obtain ⟨ob1, k1, k2⟩ := h2.obs o ob' h
    obtain ⟨ob0, k3, k4⟩ := h1.obs o ob1 k1
    exact ⟨ob0, k3, k2.trans k4⟩⟩

theorem ON.of_eq {s s' : State} (ht : s'.top = s.top) (ho : s'.observers = s.observers) : ON s s' :=
  ⟨ht, fun o ob h => ⟨ob, by rw [← ho]; exact h, rfl⟩⟩

theorem ON.named {s s' : State} (F : ON s s') (O : ObsNamed s) : ObsNamed s' := by
  intro o ob' h
  obtain ⟨ob, k1, k2⟩ := F.obs o ob' h
  obtain ⟨j, hj⟩ := O o ob k1
  exact ⟨j, by rw [F.top, k2]; exact hj⟩

macro_rules
  | `(tactic| qleaf) => `(tactic| ((with_reducible apply Step.Pres.modify); intro _; exact ON.of_eq rfl rfl))

theorem presON_modObs (o : Nat) (f : ObsRec → ObsRec) (hf : ∀ x, (f x).node = x.node) : Step.Pres ON (modObs o f) := by
  unfold Engine.modObs
  apply Step.Pres.modify
  intro s
  refine ⟨rfl, fun o' ob' h => ?_⟩
  have h' : (s.observers.modify o f)[o']? = some ob' := h
  rw [Array.getElem?_modify] at h'
  by_cases e : o = o'
  · rw [if_pos e] at h'
    cases hx : s.observers[o']? with
    | none => rw [hx] at h'; cases h'
    | some ob =>
      rw [hx] at h'
      simp only [Option.map_some] at h'
      cases h'
      exact ⟨ob, rfl, hf ob⟩
  · rw [if_neg e] at h'
    exact ⟨ob', h', rfl⟩
macro_rules
  | `(tactic| qleaf) => `(tactic| ((with_reducible apply presON_modObs); intro _; rfl))

theorem presON_getObs (o : Nat) : Step.Pres ON (getObs o) := by unfold Engine.getObs; qpres
macro_rules | `(tactic| qleaf) => `(tactic| with_reducible apply presON_getObs)
theorem presON_bumpCounter (f) : Step.Pres ON (bumpCounter f) := by unfold Engine.bumpCounter; qpres
macro_rules | `(tactic| qleaf) => `(tactic| with_reducible apply presON_bumpCounter)
theorem presON_disallowFutureUse (o) : Step.Pres ON (disallowFutureUse o) := by unfold Engine.disallowFutureUse; qpres
macro_rules | `(tactic| qleaf) => `(tactic| with_reducible apply presON_disallowFutureUse)

theorem presON_cloneObs (env : Env) (o : Nat) (tokens : Array Nat) : Step.Pres ON (stepAction env (.cloneObs o) tokens) := by
  unfold Engine.stepAction; qpres
theorem presON_dropObs (env : Env) (o : Nat) (tokens : Array Nat) : Step.Pres ON (stepAction env (.dropObs o) tokens) := by
  unfold Engine.stepAction; qpres
theorem presON_disallow (env : Env) (o : Nat) (tokens : Array Nat) : Step.Pres ON (stepAction env (.disallow o) tokens) := by
  unfold Engine.stepAction; qpres

theorem obsNamed_write {env : Env} {rk : Nat → Nat} {s s' : State} {v : Nat} {f : Val → Val} {isSet : Bool} {r : Val}
    (Q : QInv2 env rk s) (h : (writeVar v f isSet).run.run s = (.ok r, s')) (O : ObsNamed s) : ObsNamed s' := by
  obtain ⟨vc, hv⟩ := writeVar_ok_cell h
  have hst : s.status ≠ .stabilising := by rw [Q.status]; intro e; cases e
  obtain ⟨hr, hs', -, -, hh⟩ := writeVar_outside_ok v f isSet s s' vc r hv hst h
  obtain ⟨R, -⟩ := N4w.wroteOutside_q (f vc.value) Q hv hh
  rw [← hs'] at R
  exact (ON.of_eq R.top R.observers).named O

theorem obsNamed_stabilise {env : Env} {fuel : Nat} {s s' : State} (Q : QI2 env s)
    (hst : (stabilise env fuel).run.run s = (.ok (), s')) (O : ObsNamed s) : ObsNamed s' := by
  have S := stabilise_F2' Q hst
  have ht := ((C2h.PresTop.stabilise env fuel).h _ _ _ hst).top
  intro o ob' ho
  have hlt : o < s.observers.size := by rw [← S.obs.1]; exact (Array.getElem?_eq_some_iff.1 ho).1
  obtain ⟨ob1, k1, k2, -⟩ := S.obs.2 o s.observers[o] (Array.getElem?_eq_getElem hlt)
  rw [ho] at k1; cases k1
  obtain ⟨j, hj⟩ := O o s.observers[o] (Array.getElem?_eq_getElem hlt)
  exact ⟨j, by rw [ht, k2]; exact hj⟩

theorem progOK_stabilise {p : RefProg} {env : Env} {fuel : Nat} {s s' : State} (Q : QI2 env s)
    (hst : (stabilise env fuel).run.run s = (.ok (), s')) (P : ProgOK p env s) : ProgOK p env s' := by
  have S := stabilise_F2' Q hst
  obtain ⟨rk, Q'⟩ := Q
  exact progOK_frame P (top_in Q') ((C2h.PresTop.stabilise env fuel).h _ _ _ hst).top
    ((N7k.PresBK.stabilise env fuel).h _ _ _ hst) (fun c => by rw [S.vars])

theorem histF2_prefix {env : Env} : ∀ (as bs : List Action) (T : Nat), HistF2 env T (as ++ bs) → HistF2 env T as := by
  intro as
  induction as with
  | nil => intro _ _ _; trivial
  | cons a as ih => intro bs T h; exact ⟨h.1, ih bs _ h.2⟩

end N7

/-- **observers watch named nodes**: kept by every API action of the fragment -/
theorem obsNamed_step {env : Env} {s s' : State} {a : Action} {tokens : Array Nat} {r : String × Array Nat}
    (Q : QI2 env s) (ha : ActionF2 env s.top.size a) (h : (stepAction env a tokens).run.run s = (.ok r, s'))
    (O : ObsNamed s) : ObsNamed s' := by
  cases a <;> try exact ha.elim
  case create i =>
    obtain ⟨-, E, m, hm, -⟩ := step_create2 Q ha h
    intro o ob ho
    rw [E.observers] at ho
    obtain ⟨j, hj⟩ := O o ob ho
    refine ⟨j, ?_⟩
    rw [hm, Array.getElem?_push, if_neg (by have := (Array.getElem?_eq_some_iff.1 hj).1; omega)]
    exact hj
  case observe n =>
    cases n <;> try exact ha.elim
    rename_i k
    simp only [stepAction, resolveOpnd] at h
    obtain ⟨n, s0, h0, h⟩ := bind_ok_inv h
    rw [run_bind_get] at h0
    cases hk : s.top[k]? with
    | none => rw [hk] at h0; cases h0
    | some n' =>
      rw [hk] at h0
      obtain ⟨en, e0⟩ := pure_ok_inv h0
      rw [e0] at h
      rw [run_bind_get] at h
      obtain ⟨s1, e1, h⟩ := bind_modify_inv h
      obtain ⟨s2, e2, h⟩ := bind_bumpCounter_inv h
      obtain ⟨-, e⟩ := pure_ok_inv h
      rw [e, e2, e1]
      intro o ob ho
      have ho' : (s.observers.push { node := n })[o]? = some ob := ho
      rw [Array.getElem?_push] at ho'
      split at ho'
      · cases ho'
        exact ⟨k, by rw [en]; exact hk⟩
      · exact O o ob ho'
  case cloneObs o => exact ((N7.presON_cloneObs env o tokens).h _ _ _ h).named O
  case dropObs o => exact ((N7.presON_dropObs env o tokens).h _ _ _ h).named O
  case disallow o => exact ((N7.presON_disallow env o tokens).h _ _ _ h).named O
  case stabilise => exact N7.obsNamed_stabilise Q (Quiet.step_stabilise h) O
  all_goals obtain ⟨rk, Q⟩ := Q
  case set v x =>
    unfold stepAction at h
    dsimp only at h
    obtain ⟨_, s1, h1, h2⟩ := bind_ok_inv h
    obtain ⟨-, e2⟩ := pure_ok_inv h2
    obtain ⟨r1, h1⟩ := discard_ok_inv h1
    rw [e2]; exact N7.obsNamed_write Q h1 O
  case modify v d =>
    unfold stepAction at h
    dsimp only at h
    obtain ⟨_, s1, h1, h2⟩ := bind_ok_inv h
    obtain ⟨-, e2⟩ := pure_ok_inv h2
    obtain ⟨r1, h1⟩ := discard_ok_inv h1
    rw [e2]; exact N7.obsNamed_write Q h1 O
  case update v d =>
    unfold stepAction at h
    dsimp only at h
    obtain ⟨_, s1, h1, h2⟩ := bind_ok_inv h
    obtain ⟨-, e2⟩ := pure_ok_inv h2
    obtain ⟨r1, h1⟩ := discard_ok_inv h1
    rw [e2]; exact N7.obsNamed_write Q h1 O
  case replace v x =>
    unfold stepAction at h
    dsimp only at h
    obtain ⟨_, s1, h1, h2⟩ := bind_ok_inv h
    obtain ⟨-, e2⟩ := pure_ok_inv h2
    rw [e2]; exact N7.obsNamed_write Q h1 O
  case replaceWith v d =>
    unfold stepAction at h
    dsimp only at h
    obtain ⟨_, s1, h1, h2⟩ := bind_ok_inv h
    obtain ⟨-, e2⟩ := pure_ok_inv h2
    rw [e2]; exact N7.obsNamed_write Q h1 O
  case get v =>
    unfold stepAction at h
    dsimp only at h
    obtain ⟨_, s1, h1, h2⟩ := bind_ok_inv h
    obtain ⟨-, e2⟩ := pure_ok_inv h2
    rw [e2, getVar_ok_inv h1]; exact O
  case isStable =>
    unfold stepAction at h
    dsimp only at h
    rw [run_bind_get] at h
    obtain ⟨-, e2⟩ := pure_ok_inv h
    rw [e2]; exact O
  case stats =>
    unfold stepAction at h
    dsimp only at h
    obtain ⟨-, e2⟩ := pure_ok_inv h
    rw [e2]; exact O

/-! ## whole histories -/

theorem progOK_init (env : Env) (po : Nat → Bool) (N : Nat) (d : Bool) : ProgOK (progInit env po) env (State.init N d) := by
  refine ⟨rfl, rfl, fun c => ?_, fun j i n hi _ => ?_⟩
  · show (#[] : Array Val)[c]? = ((#[] : Array VarCell)[c]?).map VarCell.value
    simp
  · have : (#[] : Array Instr)[j]? = some i := hi
    simp at this

theorem obsNamed_init (N : Nat) (d : Bool) : ObsNamed (State.init N d) := by
  intro o ob ho
  have : (#[] : Array ObsRec)[o]? = some ob := ho
  simp at this

/-- a run of a list of actions of the fragment moves the text by `progStep` -/
theorem runActions_progOK {env : Env} : ∀ (acts : List Action) {p : RefProg} {s s' : State} {tk tk' : Array Nat},
    QG2 env s → HistF2 env s.top.size acts → ProgOK p env s → ObsNamed s →
    Quiet.runActions env acts s tk = .ok (s', tk') → ProgOK (acts.foldl progStep p) env s' ∧ ObsNamed s' := by
  intro acts
  induction acts with
  | nil =>
    intro p s s' tk tk' _ _ P O h
    simp only [Quiet.runActions] at h
    cases h
    exact ⟨P, O⟩
  | cons a as ih =>
    intro p s s' tk tk' Q hH P O h
    simp only [Quiet.runActions] at h
    obtain ⟨ha, hrest⟩ := hH
    rcases hx : (stepAction env a tk).run.run s with ⟨_ | r, s1⟩
    · rw [hx] at h; cases h
    · rw [hx] at h
      have Q1 := step_F2 Q ha hx
      have ht := N4h.top_step2 Q.1 ha hx
      have hrest' : HistF2 env s1.top.size as := by rw [ht]; exact hrest
      exact ih Q1 hrest' (progOK_step Q.1 ha hx P) (obsNamed_step Q.1 ha hx O) h

/-- **`ProgOK` along histories.**  In every state reached from the initial state by a history of the fragment, the top-level nodes are the images of the creation
instructions of the history and the variables have the values the history wrote: `ProgOK (progOf env po acts) env s`; and the observers watch named nodes. -/
theorem progOK_history {env : Env} (po : Nat → Bool) {N : Nat} {d : Bool} {acts : List Action} {s : State} {tk : Array Nat}
    (hH : HistF2 env 0 acts) (h : Quiet.runActions env acts (State.init N d) #[] = .ok (s, tk)) :
    ProgOK (progOf env po acts) env s ∧ ObsNamed s :=
  runActions_progOK acts (qg2_init env N d) hH (progOK_init env po N d) (obsNamed_init N d) h

/-- **HEADLINE: observers read the TEXT-LEVEL reference value.**  At each `stabilise` action of a history of fragment F2 that runs from the initial state, with
`p := progOf env po as` the program text of the prefix (creation instructions in order, current variable values): the state `s2` after the `stabilise` is described
by `p` (`ProgOK`), and every in-use observer watches a named node `top[j]` and reads `Spec.denoteTop p f j` for all large enough `f` — the value obtained from the
program text alone: evaluate the operands; for a `bind`, evaluate the lhs, run the closure on that value, evaluate the template it returns, nested binds recursively. -/
theorem history_stabilise_denote {env : Env} (po : Nat → Bool) (Z : ZipPair env) {N : Nat} {d : Bool} {as bs : List Action}
    {s : State} {tk : Array Nat} (hH : HistF2 env 0 (as ++ Action.stabilise :: bs))
    (h : Quiet.runActions env (as ++ Action.stabilise :: bs) (State.init N d) #[] = .ok (s, tk)) :
    ∃ s1 tk1 s2, Quiet.runActions env as (State.init N d) #[] = .ok (s1, tk1) ∧
      (stabilise env fuelDefault).run.run s1 = (.ok (), s2) ∧ QG2 env s2 ∧ ProgOK (progOf env po as) env s2 ∧
      (∀ (o : Nat) (ob : ObsRec), s2.observers[o]? = some ob → ob.state = .inUse →
        ∃ v j, s2.tryGetValue env o = .ok v ∧ s2.top[j]? = some ob.node ∧
          ∃ F, ∀ f, F ≤ f → denoteTop (progOf env po as) f j = some v) ∧
      Quiet.runActions env bs s2 tk1 = .ok (s, tk) := by
  obtain ⟨s1, tk1, s2, h1, Q1, hst, S, Q2, hread, h2⟩ := history_stabilise_F2 hH h
  obtain ⟨P1, O1⟩ := progOK_history po (N7.histF2_prefix as _ 0 hH) h1
  have P2 := N7.progOK_stabilise Q1.1 hst P1
  have O2 := N7.obsNamed_stabilise Q1.1 hst O1
  refine ⟨s1, tk1, s2, h1, hst, Q2, P2, ?_, h2⟩
  intro o ob ho hu
  obtain ⟨v, hv, K, hK⟩ := hread o ob ho hu
  obtain ⟨j, hj⟩ := O2 o ob ho
  exact ⟨v, j, hv, hj, (agree_large P2 Z hj v).1 ⟨K, hK⟩⟩

end IncrVerif.Proofs.NestH
