import IncrVerif.Proofs.FullT12
/-!
# C04 combined fragment: bisimulation of the phases of the change detector `bindLhsChange` that need no node creation
(twin of `SimX.lhsRelink`, `SimX.lhsInvalidateOld` of FullH42)
-/
namespace IncrVerif.Proofs.FullT
set_option linter.unusedSectionVars false
open IncrVerif.Engine IncrVerif.Proofs IncrVerif.Proofs.Step IncrVerif.Proofs.Sched IncrVerif.Proofs.Quiet IncrVerif.Proofs.FullH

section
variable {K : Kind → Prop} {g : Nat → Option Val} {env : Env} {sp : Nat → Val → Val}

/-- phase 2: the right-hand side of the bind main is swapped (`br.main` is a `bindMain` node, or nothing happens: no sanity condition) -/
theorem BSimXAt.lhsRelink (L : ApC K env sp) (fuel n b : Nat) (br : BindRec) (now : Int) (rhs : Nat) {s : State}
    (hfuel : 3 * s.nodes.size + 2 ≤ fuel) :
    BSimXAt K PInv g s (Inval.lhsRelink env fuel n b br now rhs) (Inval.lhsRelink (VE env sp) fuel n b br now rhs) := by
  unfold Inval.lhsRelink
  refine BSimXAt.seqA (BSim.modBind b _ s) fun _ s1 h1 _ => ?_
  unfold Engine.modBind at h1
  rw [run_modify] at h1; cases h1
  refine BSimXAt.seqA (BSim.at (by bsim_leaf) _) fun _ s2 h2 _ => ?_
  rw [run_modNode] at h2; cases h2
  exact BSimXAt.changeChildBindRhs L fuel br.main br.rhs rhs 1 (by simpa using hfuel)

end

section
variable {K : Kind → Prop} {P : State → Prop} [KeepsI P]

/-- phase 3: the nodes of the previous run are invalidated -/
theorem BSimX.lhsInvalidateOld (fuel : Nat) (br : BindRec) :
    BSimX K P (Inval.lhsInvalidateOld fuel br) (Inval.lhsInvalidateOld fuel br) := by
  intro g s; unfold Inval.lhsInvalidateOld; bsimx

end
end IncrVerif.Proofs.FullT
