import IncrVerif.Proofs.MemoH3
/-!
# C20 over whole histories, part 4: every API action keeps the table invariant (K1)

* `ms_memoCall`: a memoised call is an `MS` step (hit: nothing changes; miss: the new entry is `Produced`);
* `ms_stepAction`: every API action, whatever its outcome; `ms_run`: whole histories;
* `stabilise_sweeps`: a `stabilise` that returns ends with the sweep; `stabilise_entries_alive`.
-/
namespace IncrVerif.Proofs.MemoH
open IncrVerif.Engine IncrVerif.Proofs.Obs IncrVerif.Proofs.Memo

theorem memoFinish_memos (sc : Scope) (m : Nat) (key : Int) (n : Nat) (s : State) :
    (memoFinish sc m key n s).memos
      = (m, (key, n) :: (table s m).filter (·.1 != key)) :: s.memos.filter (·.1 != m) := rfl

/-- storing a produced node keeps the invariant -/
theorem TInv.finish {env : Env} {s : State} (h : TInv env s) (sc : Scope) {m : Nat} {key : Int} {n : Nat}
    (hp : Produced env s m key n) : TInv env (memoFinish sc m key n s) := by
  have hfut : Fut s (memoFinish sc m key n s) := Fut.of_eq rfl rfl
  refine ⟨?_, ?_, ?_⟩
  · rw [memoFinish_memos]; exact h.tables.cons_filter m _
  · intro m' tbl hm
    rw [memoFinish_memos] at hm
    rcases List.mem_cons.1 hm with hm | hm
    · cases hm; exact (h.table_keys m).cons_filter key n
    · exact h.keys m' tbl (List.mem_filter.1 hm).1
  · intro m' tbl hm key' n' hk
    rw [memoFinish_memos] at hm
    rcases List.mem_cons.1 hm with hm | hm
    · cases hm
      rcases List.mem_cons.1 hk with hk | hk
      · cases hk; exact hp.mono hfut
      · obtain ⟨t0, h1, h2⟩ := table_mem (List.mem_filter.1 hk).1
        exact (h.entry m t0 h1 key' n' h2).mono hfut
    · exact (h.entry m' tbl (List.mem_filter.1 hm).1 key' n' hk).mono hfut

/-- the closed form of a memoised call that returns: a hit, or a miss whose body ran from `memoStart` -/
theorem memoCall_ok_cases (env : Env) (m : Nat) (key : Int) (s s' : State) (n : Nat)
    (hrun : (memoCall env m key).run.run s = (.ok n, s')) :
    (memoHit s m key = some n ∧ s' = s) ∨
    (memoHit s m key = none ∧ ∃ s1 s2 u, tick.run.run s = (.ok u, s1) ∧
      (elabTemplateBase (env.memo m) (.int key)).run.run (memoStart m key s1) = (.ok n, s2) ∧
      s' = memoFinish s1.currentScope m key n s2) := by
  rw [memoCall_run] at hrun
  cases hh : memoHit s m key with
  | some n' => rw [hh] at hrun; cases hrun; exact .inl ⟨rfl, rfl⟩
  | none =>
    rw [hh] at hrun
    dsimp only at hrun
    rcases ht : tick.run.run s with ⟨_ | u, s1⟩
    · rw [ht] at hrun; cases hrun
    · rw [ht] at hrun
      dsimp only at hrun
      rcases he : (elabTemplateBase (env.memo m) (.int key)).run.run (memoStart m key s1) with ⟨_ | n', s2⟩
      · rw [he] at hrun; cases hrun
      · rw [he] at hrun; cases hrun
        exact .inr ⟨rfl, s1, s2, u, rfl, he, rfl⟩

theorem F0V.memoStart (m : Nat) (key : Int) (s : State) : F0V s (memoStart m key s) where
  nodesLe := Nat.le_refl _
  core _ _ := rfl
  memos := rfl
  top := rfl
  handles := rfl
  obs _ := rfl
  reg h := h
  log := ⟨[memoNote m key], rfl⟩
  valid _ _ := rfl
  newValid i hi1 hi2 := absurd hi2 (by show ¬ i < s.nodes.size; omega)

theorem ms_memoCall {env : Env} (hok : MemoBodyOK env) (m : Nat) (key : Int) :
    Pres (MS env) (memoCall env m key) := by
  refine ⟨fun s r s' hrun => ?_⟩
  rw [memoCall_run] at hrun
  split at hrun
  · cases hrun; exact PreOrd.refl _
  · rcases ht : tick.run.run s with ⟨_ | u, s1⟩
    · rw [ht] at hrun; cases hrun
      exact MS.of_f0 ((PresF.tick (R := F0V)).h _ _ _ ht).toF0
    · rw [ht] at hrun
      dsimp only at hrun
      have hf1 : F0V s (memoStart m key s1) :=
        PreOrd.trans ((PresF.tick (R := F0V)).h _ _ _ ht) (F0V.memoStart m key s1)
      rcases he : (elabTemplateBase (env.memo m) (.int key)).run.run (memoStart m key s1) with ⟨_ | n, s2⟩
      · rw [he] at hrun; cases hrun
        exact MS.of_f0 (PreOrd.trans hf1 ((PresF.elabTemplateBase (R := F0V) _ _ _).h _ _ _ he)).toF0
      · rw [he] at hrun; cases hrun
        have hf2 : F0V s s2 := PreOrd.trans hf1 ((PresF.elabTemplateBase (R := F0V) _ _ _).h _ _ _ he)
        have hfin : Fut s2 (memoFinish s1.currentScope m key n s2) := Fut.of_eq rfl rfl
        refine ⟨hf2.toF0.fut.trans hfin, fun hti => ?_, fun hr => RegScoped.of_eq rfl rfl (hf2.reg hr)⟩
        have ht2 : TInv env s2 := hti.mono hf2.toF0.fut hf2.memos
        have hfresh := elabTemplateBase_fresh (hok m).1 (hok m).2 _ _ _ _ he
        exact ht2.finish _ ⟨memoStart m key s1, s2, rfl, he, hfresh.1, hfresh.2, Fut.refl _⟩

theorem MS.sweep {env : Env} (s : State) : MS env s (sweep s) :=
  ⟨Fut.of_eq rfl rfl,
   fun h => (h.gc s.aliveSet).mono (Fut.of_eq rfl rfl) rfl,
   RegScoped.of_eq rfl rfl⟩

theorem MS.push {env : Env} (s : State) (n : Nat) :
    MS env s { s with top := s.top.push n, handles := n :: s.handles } := by
  have hf : Fut s { s with top := s.top.push n, handles := n :: s.handles } :=
    ⟨Nat.le_refl _, fun _ _ => rfl, fun k x hk => by
      show (s.top.push n)[k]? = some x
      rw [Array.getElem?_push]
      have : k < s.top.size := by
        rcases Nat.lt_or_ge k s.top.size with h | h
        · exact h
        · rw [Array.getElem?_eq_none h] at hk; cases hk
      rw [if_neg (Nat.ne_of_lt this)]; exact hk⟩
  exact ⟨hf, fun h => h.mono hf rfl, RegScoped.of_eq rfl rfl⟩

theorem bodiesP_true (env : Env) : BodiesP (fun _ _ => True) env := fun _ _ _ _ _ _ _ => trivial

/-- EVERY API action, whatever its outcome, is an `MS` step -/
theorem ms_stepAction {env : Env} (hok : MemoBodyOK env) (a : Action) (tokens : Array Nat) :
    Pres (MS env) (stepAction env a tokens) := by
  have hm : ∀ m key, (fun _ _ => True : Nat → Int → Prop) m key → Pres (MS env) (memoCall env m key) :=
    fun m key _ => ms_memoCall hok m key
  by_cases hp : Action.isPlain a = true
  · exact PresI.stepAction_plain env a tokens hp
  · cases a <;> simp only [Action.isPlain, not_true_eq_false] at hp
    case create i =>
      exact PresB.stepAction_create hm (fun _ _ _ => trivial) tokens MS.push
    case observe o =>
      exact PresI.stepAction_observe env o tokens fun s ob l => MS.of_quiet ⟨rfl, rfl, rfl, rfl⟩
    case cloneObs o =>
      exact PresI.stepAction_cloneObs env o tokens fun s f _ => MS.of_quiet ⟨rfl, rfl, rfl, rfl⟩
    case dropObs o =>
      exact (Quiet0.stepAction_dropObs env o tokens).mono fun _ _ h => MS.of_quiet h
    case dropHandle o =>
      exact (Quiet0.stepAction_dropHandle env o tokens).mono fun _ _ h => MS.of_quiet h
    case stabilise =>
      refine ⟨fun s r s' hrun => ?_⟩
      rcases Split.stepAction_stabilise hm (bodiesP_true env) tokens s r s' hrun with h | ⟨s1, h1, rfl⟩
      · exact h
      · exact PreOrd.trans h1 (MS.sweep s1)

/-- whole histories (any actions, any outcomes, the harness's log reset included) -/
theorem ms_run {env : Env} (hok : MemoBodyOK env) {P} {s s' : State} (h : Life.Run env P s s') :
    MS env s s' :=
  Life.Run.induct (fun a tokens _ => ms_stepAction hok a tokens)
    (fun _ => MS.of_quiet ⟨rfl, rfl, rfl, rfl⟩) h

/-! ## the sweep at the end of a `stabilise` that returns -/

theorem stabilise_sweeps (env : Env) (fuel : Nat) :
    ∀ s r s', (stabilise env fuel).run.run s = (.ok r, s') → ∃ s1, s' = sweep s1 := by
  unfold Engine.stabilise
  repeat (first
    | exact stabiliseEnd_gc env fuel
    | (refine bind_ok_post fun _ => ?_)
    | dsimp only)

theorem stepAction_stabilise_sweeps (env : Env) (tokens : Array Nat) (s s' : State) (r)
    (h : (stepAction env .stabilise tokens).run.run s = (.ok r, s')) : ∃ s1, s' = sweep s1 := by
  simp only [Engine.stepAction] at h
  obtain ⟨a, s1, h1, h2⟩ := bind_ok_inv' h
  cases h2
  exact stabilise_sweeps env _ s a _ h1

theorem aliveSet_sweep (s : State) : (sweep s).aliveSet = s.aliveSet := rfl

/-- after a `stabilise` that returns, every entry of every table names a node that is still allocated -/
theorem stabilise_entries_alive (env : Env) (tokens : Array Nat) (s s' : State) (r)
    (h : (stepAction env .stabilise tokens).run.run s = (.ok r, s')) :
    ∀ m tbl, (m, tbl) ∈ s'.memos → ∀ key n, (key, n) ∈ tbl → n ∈ s'.aliveSet := by
  obtain ⟨s1, rfl⟩ := stepAction_stabilise_sweeps env tokens s s' r h
  intro m tbl hm key n hk
  rw [aliveSet_sweep]
  have hm' : (m, tbl) ∈ gcMemos s1.aliveSet s1.memos := hm
  obtain ⟨e, he, heq⟩ := List.mem_map.1 hm'
  obtain ⟨m0, t0⟩ := e
  cases heq
  have := (List.mem_filter.1 hk).2
  simpa using this

end IncrVerif.Proofs.MemoH
