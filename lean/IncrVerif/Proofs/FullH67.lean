import IncrVerif.Proofs.FullH63
import IncrVerif.Proofs.FullH53
import IncrVerif.Proofs.FullH60
/-!
# C01 full fragment: NON-VACUITY, part 6 — the headline theorems apply to the example (all hypotheses discharged)
-/
namespace IncrVerif.Proofs.FullH
open IncrVerif.Engine IncrVerif.Driver IncrVerif.Proofs IncrVerif.Proofs.Step IncrVerif.Proofs.Sched IncrVerif.Proofs.Quiet
open IncrVerif.Proofs.NestH (progOf)

/-- the kit of special steps for `fEnv` -/
theorem fEnv_kit : Kit fEnv fSp := kit_of fEnv_envS fEnv_first (lcKSpec_of_envS fEnv_envS)

/-- the state the example history ends in satisfies the history invariant -/
theorem exHistF_inv (po : Nat → Bool) :
    ∃ s tk, Quiet.runActions fEnv exHistF (State.init 128 true) #[] = .ok (s, tk) ∧ HI fEnv fSp po exHistF s := by
  obtain ⟨s, tk, h⟩ := exHistF_runs
  exact ⟨s, tk, h, history_full fEnv_kit exHistF_frag h⟩

/-- **the headline theorem applies at every `stabilise` of the example history**: every in-use observer reads `Spec.denoteTop` of its handle in the program
text of the prefix -/
theorem exHistF_headline {as bs : List Action} (e : exHistF = as ++ Action.stabilise :: bs) :
    ∃ s tk s1 tk1 s2, Quiet.runActions fEnv exHistF (State.init 128 true) #[] = .ok (s, tk) ∧
      Quiet.runActions fEnv as (State.init 128 true) #[] = .ok (s1, tk1) ∧
      (stabilise fEnv fuelDefault).run.run s1 = (.ok (), s2) ∧ QInvFE fEnv fSp s2 ∧
      (∀ (o : Nat) (ob : ObsRec), s2.observers[o]? = some ob → ob.state = .inUse →
        ∃ v j, s2.tryGetValue fEnv o = .ok v ∧ s2.top[j]? = some ob.node ∧
          ∃ F, ∀ f, F ≤ f → Spec.denoteTop (progOf fEnv (fun _ => true) as) f j = some v) ∧
      Quiet.runActions fEnv bs s2 tk1 = .ok (s, tk) := by
  obtain ⟨s, tk, h⟩ := exHistF_runs
  have hH := exHistF_frag
  have h0 := h
  rw [e] at h hH
  obtain ⟨s1, tk1, s2, k1, k2, k3, k4, k5⟩ :=
    history_stabilise_denote fEnv_kit fEnv_envS (fun _ => true) fEnv_zip (fun _ => rfl) (fun _ _ => rfl) fEnv_first hH h
  exact ⟨s, tk, s1, tk1, s2, h0, k1, k2, k3, k4, k5⟩

/-- the seven `stabilise`s of the example history -/
theorem exHistF_splits :
    exHistF = exHistF.take 5 ++ Action.stabilise :: exHistF.drop 6 ∧
    exHistF = exHistF.take 7 ++ Action.stabilise :: exHistF.drop 8 ∧
    exHistF = exHistF.take 9 ++ Action.stabilise :: exHistF.drop 10 ∧
    exHistF = exHistF.take 11 ++ Action.stabilise :: exHistF.drop 12 ∧
    exHistF = exHistF.take 13 ++ Action.stabilise :: exHistF.drop 14 ∧
    exHistF = exHistF.take 18 ++ Action.stabilise :: exHistF.drop 19 ∧
    exHistF = exHistF.take 20 ++ Action.stabilise :: exHistF.drop 21 :=
  ⟨rfl, rfl, rfl, rfl, rfl, rfl, rfl⟩

set_option maxRecDepth 100000 in
/-- the text-level reference semantics of handle 3 (the bind) in the program text of the seven prefixes (fuel 10): the values the observers read
(`exHistF_reads`, `exHistF_reobserve`) -/
theorem exHistF_denote :
    ([5, 7, 9, 11, 13, 18, 20].map fun k => Spec.denoteTop (progOf fEnv (fun _ => true) (exHistF.take k)) 10 3) =
      [some (.int 16), some (.int 79), some (.int 83), some (.int 1), some (.int 1), some (.int 8), some (.int 78)] := by
  decide +kernel



end IncrVerif.Proofs.FullH
