import IncrVerif.Proofs.FullH4
import IncrVerif.Proofs.MapRef12
/-!
# C01 full fragment: what `child_changed` / `maybe_change_value_manual` do to the `didChange` flags
(port of MapRef10 `childChanged_flags`, MapRef11 `mcvm_flags`; states may contain invalid nodes and bind kinds)

`IsMapRef`, `FM`, `PresFM.*`, `UpM`, `EdgeOK`, `Changed`, `CCPost`, `forward_flags` of `MapRefH` are state-generic and reused.
-/
namespace IncrVerif.Proofs.FullH
open IncrVerif.Engine IncrVerif.Proofs IncrVerif.Proofs.Step IncrVerif.Proofs.Sched IncrVerif.Proofs.Quiet
open IncrVerif.Proofs.MapRefH (IsMapRef isMapRef_iff not_isMapRef_iff FM UpM EdgeOK Changed CCPost forward_flags
  PresFM.forward PresFM.childChanged PresFM.maybeChangeValueManual forIn_inv_post logged_nil)

/-- a valid map_ref node reads the projection of what its input reads (only `MapRefsBack` is needed) -/
theorem value_mapRef' {env : Env} {s : State} (hb : MapRefsBack s) {n p i : Nat} (hv : (s.nodeD n).valid = true)
    (hk : (s.nodeD n).kind = .mapRef p i) : s.value env n = (s.value env i).map (env.proj p) := by
  have hlt : n < s.nodes.size := by
    by_cases h : n < s.nodes.size
    · exact h
    · rw [nodeD_default_of_ge s n (by omega)] at hk; cases hk
  have hi : i < n := hb n (s.nodeD n) p i (some_of_lt hlt) hk
  unfold State.value
  rw [valueWith_succ']
  have hc : valueCore (s.nodeD n) = (.mapRef p i, true, (s.nodeD n).value) := by
    simp [valueCore, hk, hv]
  rw [hc]
  simp only [valueStep']
  congr 1
  exact valueWith_congr_below env.proj s s hb i (fun _ _ => rfl) _ _ (by omega) (by omega)

theorem mapRefsBack_of_kind {s W : State} (hb : MapRefsBack s) (hk : ∀ m, (W.nodeD m).kind = (s.nodeD m).kind) :
    MapRefsBack W := by
  intro n nd p i hn hkn
  have h1 : (s.nodeD n).kind = .mapRef p i := by rw [← hk, nodeD_of_some hn]; exact hkn
  have hlt : n < s.nodes.size := by
    by_cases h : n < s.nodes.size
    · exact h
    · rw [nodeD_default_of_ge s n (by omega)] at h1; cases h1
  exact hb n (s.nodeD n) p i (some_of_lt hlt) h1

/-- the setting of the flag argument: `s0` the state before the step (old values), `W` the state in which the notifications start.
(No "all nodes valid": what is needed is that RECORDED PARENTS are valid — they are necessary.) -/
structure CCtx (env : Env) (s0 W : State) : Prop where
  pc : W.panicCountdown = none
  /-- the input of a `map_ref` node is an earlier node (in `s0`, hence in `W`) -/
  back0 : MapRefsBack s0
  /-- `map_ref` nodes have the cutoff `.eq` or `.never` (both pure: no tick, no log) -/
  cut : ∀ n p i, (W.nodeD n).kind = .mapRef p i → (W.nodeD n).cutoff = .eq ∨ (W.nodeD n).cutoff = .never
  kind0 : ∀ m, (s0.nodeD m).kind = (W.nodeD m).kind
  valid0 : ∀ m, (s0.nodeD m).valid = (W.nodeD m).valid
  /-- recorded parent entries of map_ref parents are real child edges -/
  edge : EdgeOK W
  /-- recorded parents are valid -/
  pvalid : ∀ c p ci, (p, ci) ∈ (W.nodeD c).parents → (W.nodeD p).valid = true

theorem CCtx.back {env : Env} {s0 W : State} (C : CCtx env s0 W) : MapRefsBack W :=
  mapRefsBack_of_kind C.back0 (fun m => (C.kind0 m).symm)

/-- **the flags.** A successful `child_changed p c ci old` on a recorded map_ref parent `p` of `c`, where `old` is
what `c` read in `s0`, raises the `didChange` flag of every map_ref node at or above `p` whose read value is not
the one of `s0`. -/
theorem childChanged_flags {env : Env} {s0 W : State} (C : CCtx env s0 W) : ∀ fuel, CCPost env s0 W fuel := by
  intro fuel
  induction fuel with
  | zero => intro p c ci oldOpt t t' u h; unfold Engine.childChanged at h; cases h
  | succ fuel ih =>
    intro p c ci oldOpt t t' u h q hmem hold hmr m hm hch
    obtain ⟨pr, i, hk⟩ := isMapRef_iff.1 hmr
    have hic : i = c := C.edge c p ci pr i hmem hk
    subst hic
    have hpW : p < W.nodes.size := by
      by_cases h : p < W.nodes.size
      · exact h
      · rw [nodeD_default_of_ge W p (by omega)] at hk; cases hk
    have hvW : (W.nodeD p).valid = true := C.pvalid i p ci hmem
    have hpt : p < t.nodes.size := by rw [q.size]; exact hpW
    have hnd := some_of_lt hpt
    have hkt : (t.nodeD p).kind = .mapRef pr i := by rw [(q.node p).kind]; exact hk
    have hvt : (t.nodeD p).valid = true := by rw [(q.node p).valid]; exact hvW
    have hk? : (t.nodeD p).kind? = some (.mapRef pr i) := by simp [Node.kind?, hvt, hkt]
    -- the child has a value
    have hcv : ∃ cn, t.value env i = some cn := by
      have h' := h
      unfold Engine.childChanged at h'
      rw [run_bind_ok (run_getNode_some hnd), hk?] at h'
      dsimp only at h'
      obtain ⟨cn, t1, h1, -⟩ := bind_ok_inv h'
      rw [run_valueUnwrap] at h1
      cases hv : t.value env i with
      | none => rw [hv] at h1; cases h1
      | some x => exact ⟨x, rfl⟩
    obtain ⟨cn, hcn⟩ := hcv
    have hcnW : W.value env i = some cn := by rw [← q.value_eqM env i]; exact hcn
    have hparents : (t.nodeD p).parents = (W.nodeD p).parents := (q.node p).parents
    -- what `p` read before and reads now
    have hk0 : (s0.nodeD p).kind = .mapRef pr i := by rw [C.kind0]; exact hk
    have hv0 : (s0.nodeD p).valid = true := by rw [C.valid0]; exact hvW
    have hp0 : s0.value env p = (s0.value env i).map (env.proj pr) := value_mapRef' C.back0 hv0 hk0
    have hpW' : W.value env p = some (env.proj pr cn) := by rw [value_mapRef' C.back hvW hk, hcnW]; rfl
    rw [childChanged_mapRef_run env fuel p i ci oldOpt t (t.nodeD p) pr i cn hnd hk? hcn] at h
    -- the recursive calls
    have fwd : ∀ (selfOld : Option Val) (t2 : State),
        (forwardChildChanged env fuel p selfOld (W.nodeD p).parents).run.run t2 = (.ok u, t') →
        Step.Quiet W t2 → (∀ o, selfOld = some o → s0.value env p = some o) →
        ((t2.nodeD p).didChange = true ∨ ¬ Changed env s0 W p) → (t'.nodeD m).didChange = true := by
      intro selfOld t2 h2 q2 hso hflag
      rcases hm with rfl | hup
      · rcases hflag with hf | hf
        · exact (PresFM.forward env fuel m selfOld _).h _ _ _ h2 m hf
        · exact absurd hch hf
      · obtain ⟨pp, ci', hpm, hpk, hmm⟩ := hup.cases_head
        exact forward_flags ih p selfOld hso _ t2 t' u h2 q2 (fun _ h => h) (pp, ci') hpm hpk m hmm hch
    have qor : ∀ (d : Bool) (x : State), Step.Quiet x (orDidChange p d x) :=
      fun d x => Step.Quiet.modNode x p _ (by nodesame)
    have hor : ∀ (d : Bool) (x : State), p < x.nodes.size →
        ((orDidChange p d x).nodeD p).didChange = ((x.nodeD p).didChange || d) := by
      intro d x hx
      show (({ x with nodes := x.nodes.modify p _ } : State).nodeD p).didChange = _
      rw [nodeD_modify, if_pos ⟨rfl, hx⟩]
    cases oldOpt with
    | none =>
      dsimp only at h
      rw [hparents] at h
      refine fwd none _ h (q.trans (qor true t)) (fun o ho => by cases ho) (Or.inl ?_)
      rw [hor true t hpt]; simp
    | some o =>
      dsimp only at h
      have hpc : t.panicCountdown = none := q.pc C.pc
      have hcut : (t.nodeD p).cutoff = .eq ∨ (t.nodeD p).cutoff = .never := by
        rw [(q.node p).cutoff]; exact C.cut p pr i hk
      rw [shouldCutoff_run env p _ _ t _ hnd hpc] at h
      obtain ⟨vb, hverd, hvb⟩ : ∃ vb, cutoffVerdict env t p (env.proj pr o) (env.proj pr cn) = some vb ∧
          (vb = true → env.proj pr o = env.proj pr cn) := by
        unfold cutoffVerdict
        rcases hcut with hc | hc <;> rw [hc]
        · exact ⟨_, rfl, fun h => by simpa using h⟩
        · exact ⟨_, rfl, fun h => by cases h⟩
      have hlog : cutoffLog env t p (env.proj pr o) (env.proj pr cn) = [] := by
        unfold cutoffLog
        rcases hcut with hc | hc <;> rw [hc]
      rw [hverd, hlog, logged_nil] at h
      dsimp only at h
      rw [hparents] at h
      have hs0i : s0.value env i = some o := hold o rfl
      refine fwd (some (env.proj pr o)) _ h (q.trans (qor _ t)) ?_ ?_
      · intro o' ho'; cases ho'; rw [hp0, hs0i]; rfl
      · rw [hor _ t hpt]
        by_cases hne : env.proj pr o = env.proj pr cn
        · right
          rintro (hc | hc)
          · rw [hp0, hs0i] at hc; cases hc
          · apply hc; rw [hp0, hs0i, hpW', Option.map_some, hne]
        · left
          have : vb = false := by
            cases vb with
            | false => rfl
            | true => exact absurd (hvb rfl) hne
          rw [this]; simp

/-- **the flags after a propagating `maybe_change_value_manual`** (with notifications: `runChildChanged = true`).
`W0`: the state in which it is called (new value stored); `s0`: the pre-state of the step; `old`: what is passed as the old value
(`none` for a `map_with_old` node). -/
theorem mcvm_flags {env : Env} {s0 W0 s' : State} {fuel n : Nat} {old : Option Val} {r : Option Nat}
    (C : CCtx env s0 (touched n W0)) (hold : ∀ o, old = some o → s0.value env n = some o)
    (h : (maybeChangeValueManual env fuel n old true true).run.run W0 = (.ok r, s')) :
    ∀ m, UpM (touched n W0) m n → Changed env s0 (touched n W0) m → (s'.nodeD m).didChange = true := by
  generalize hW : touched n W0 = W at C ⊢
  intro m hup hch
  have CC := childChanged_flags C fuel
  unfold maybeChangeValueManual at h
  simp only [Bool.not_true, Bool.false_eq_true, if_false, if_true, run_bind_get, run_bind_modNode,
    run_bind_bumpCounter] at h
  obtain ⟨u, s1, h1, h2⟩ := bind_ok_inv h
  have h1' : (maybeHandleAfterStabilisation n).run.run W = (.ok u, s1) := by rw [← hW]; exact h1
  have q1 : Step.Quiet W s1 := (Step.Pres.maybeHandleAfterStabilisation n).h _ _ _ h1'
  obtain ⟨nd1, hnd1, h3⟩ := bind_getNode_inv h2
  have hpar1 : nd1.parents = (W.nodeD n).parents := by
    have := (q1.node n).parents
    rw [nodeD_of_some hnd1] at this
    exact this
  rw [hpar1] at h3
  obtain ⟨p, ci, hpm, hpk, hmm⟩ := hup.cases_head
  rcases hps : (W.nodeD n).parents with _ | ⟨⟨p0, ci0⟩, rest⟩
  · rw [hps] at hpm; cases hpm
  rw [hps] at h3 hpm
  dsimp only at h3
  obtain ⟨u2, s2, hloop, hlast⟩ := bind_ok_inv h3
  -- the loop over the other parents
  have hmemr : ∀ a, a ∈ rest → a ∈ (W.nodeD n).parents := by
    intro a ha; rw [hps]; exact List.mem_cons_of_mem _ ha
  have L := forIn_inv_post (fun t => Step.Quiet W t)
    (fun (a : Nat × Nat) t => IsMapRef (W.nodeD a.1).kind → ∀ m, (m = a.1 ∨ UpM W m a.1) → Changed env s0 W m →
      (t.nodeD m).didChange = true) _ rest
    (by
      intro a ha t r t' qt hb
      obtain ⟨pa, cia⟩ := a
      obtain ⟨_, t1, hcc, hb1⟩ := bind_ok_inv hb
      have qc : Step.Quiet t t1 := (Step.Pres.childChanged ..).h _ _ _ hcc
      have qb : Step.Quiet t1 t' := by refine Step.Pres.h ?_ _ _ _ hb1; qpres
      have fb : FM t1 t' := by refine Step.Pres.h ?_ _ _ _ hb1; qpres
      refine ⟨(qt.trans qc).trans qb, ?_, ?_⟩
      · rw [run_bind_get] at hb1
        obtain ⟨na, hna, hb4⟩ := bind_getNode_inv (bind_dassert_inv hb1)
        split at hb4
        · obtain ⟨_, t5, hins, hb5⟩ := bind_ok_inv hb4
          obtain ⟨rfl, -⟩ := pure_ok_inv hb5; rfl
        · obtain ⟨rfl, -⟩ := pure_ok_inv hb4; rfl
      · intro hmr m' hm' hch'
        exact fb m' (CC pa n cia old t t1 _ hcc qt (hmemr _ ha) hold hmr m' hm' hch'))
    (by
      intro a b hb t r t' qt hp hrun hmr m' hm' hch'
      have fb : FM t t' := by
        obtain ⟨pb, cib⟩ := b
        refine Step.Pres.h ?_ _ _ _ hrun; qpres
      exact fb m' (hp hmr m' hm' hch'))
    s1 _ s2 q1 hloop
  obtain ⟨q2, hrestP⟩ := L
  -- the first parent
  obtain ⟨_, s3, hcc, hl1⟩ := bind_ok_inv hlast
  have f3 : FM s3 s' := by refine Step.Pres.h ?_ _ _ _ hl1; qpres
  have fc : FM s2 s3 := (PresFM.childChanged ..).h _ _ _ hcc
  rcases List.mem_cons.1 hpm with he | hr
  · cases he
    exact f3 m (CC p n ci old s2 s3 _ hcc q2 (by rw [hps]; exact List.mem_cons_self ..) hold hpk m hmm hch)
  · exact f3 m (fc m (hrestP (p, ci) hr hpk m hmm hch))

end IncrVerif.Proofs.FullH
