import IncrVerif.Proofs.Quiet20
/-!
# Part 26: `create` returns
-/
namespace IncrVerif.Proofs.Quiet
open IncrVerif.Engine IncrVerif.Driver IncrVerif.Proofs IncrVerif.Proofs.Step IncrVerif.Proofs.Sched

theorem map_run_ok {α β} {f : α → β} {x : M α} {s s1 : State} {a : α}
    (h : x.run.run s = (.ok a, s1)) : (f <$> x).run.run s = (.ok (f a), s1) := by
  rw [map_eq_pure_bind, run_bind_ok h, run_pure]

/-- a top-level handle that exists resolves -/
theorem resolveOpnd_run {s : State} {o : Opnd} (ho : OpndIn s o) :
    ∃ n, (resolveOpnd [] o).run.run s = (.ok n, s) := by
  cases o with
  | outer k =>
    have hk : k < s.top.size := ho
    refine ⟨s.top[k], ?_⟩
    unfold resolveOpnd
    simp only
    rw [run_bind_get, Array.getElem?_eq_getElem hk]
    rfl
  | _ => exact ho.elim

theorem mapM_resolve_run {s : State} :
    ∀ (l : List Opnd), (∀ a, a ∈ l → OpndIn s a) →
      ∃ r, (l.mapM (fun o => resolveOpnd [] o)).run.run s = (.ok r, s) := by
  intro l
  induction l with
  | nil => intro _; exact ⟨[], by rw [List.mapM_nil, run_pure]⟩
  | cons a l ih =>
    intro hl
    obtain ⟨n, hn⟩ := resolveOpnd_run (hl a (List.mem_cons_self ..))
    obtain ⟨r, hr⟩ := ih (fun x hx => hl x (List.mem_cons_of_mem _ hx))
    exact ⟨n :: r, by rw [List.mapM_cons, run_bind_ok hn, run_bind_ok hr, run_pure]⟩

theorem isConstant_run {s : State} {a : Nat} (ha : a < s.nodes.size) :
    ∃ r, (isConstant a).run.run s = (.ok r, s) := by
  unfold isConstant
  rw [run_bind_ok (run_getNode_some (some_of_lt ha))]
  split
  · exact ⟨_, run_pure _ _⟩
  · exact ⟨_, run_pure _ _⟩

/-- the elaboration of a static instruction whose operands exist returns -/
theorem elab_ret {env : Env} {s : State} {i : Instr} (Q : QInv env s) (hi : StaticInstr env i)
    (hin : InstrIn s i) :
    ∃ ro s1, (elabInstrM env [] .unit i).run.run s = (.ok ro, s1) ∧ s1.ahh = s.ahh ∧
      s1.vars.size = s.vars.size + (grow (.create i)).2.1 := by
  have hsc := Q.struct.static.scope
  cases i with
  | const v =>
    unfold elabInstrM
    simp only
    unfold elabInstr
    rw [run_bind_get]
    simp only [hsc]
    exact ⟨_, _, map_run_ok (createNode_top_run _ s), rfl, rfl⟩
  | var v =>
    unfold elabInstrM
    simp only
    unfold elabInstr
    rw [run_bind_get]
    simp only
    exact ⟨_, _, map_run_ok (createVar_top_run _ s), rfl, by simp only [Array.size_push]; rfl⟩
  | map f args =>
    unfold elabInstrM
    simp only
    unfold elabInstr
    rw [run_bind_get]
    simp only [hsc]
    obtain ⟨r, hr⟩ := mapM_resolve_run args hin
    rw [run_bind_ok hr]
    exact ⟨_, _, map_run_ok (createNode_top_run _ s), rfl, rfl⟩
  | fold f init cs =>
    unfold elabInstrM
    simp only
    unfold elabInstr
    rw [run_bind_get]
    simp only [hsc]
    obtain ⟨r, hr⟩ := mapM_resolve_run cs hin
    rw [run_bind_ok hr]
    split
    · exact ⟨_, _, map_run_ok (createNode_top_run _ s), rfl, rfl⟩
    · exact ⟨_, _, map_run_ok (createNode_top_run _ s), rfl, rfl⟩
  | zip a b =>
    unfold elabInstrM
    simp only
    unfold elabInstr
    rw [run_bind_get]
    simp only [hsc]
    obtain ⟨na, hna⟩ := resolveOpnd_run hin.1
    obtain ⟨nb, hnb⟩ := resolveOpnd_run hin.2
    obtain ⟨-, ka, hka⟩ := resolveOpnd_outer_inv hi.1 hna
    obtain ⟨-, kb, hkb⟩ := resolveOpnd_outer_inv hi.2 hnb
    obtain ⟨ca, hca⟩ := isConstant_run (Q.top ka na hka)
    obtain ⟨cb, hcb⟩ := isConstant_run (Q.top kb nb hkb)
    rw [run_bind_ok hna, run_bind_ok hnb, run_bind_ok hca, run_bind_ok hcb]
    split
    · exact ⟨_, _, map_run_ok (createNode_top_run _ s), rfl, rfl⟩
    · exact ⟨_, _, map_run_ok (createNode_top_run _ s), rfl, rfl⟩
  | _ => exact hi.elim

theorem create_total {env : Env} {N : Nat} {s : State} {i : Instr} {tk : Array Nat}
    (Q : QInv env s) (T : TInv N s) (hi : StaticInstr env i) (hok : ActionOK N s (.create i)) :
    Tot (stepAction env (.create i) tk) s (fun r s' => r.2 = tk ∧ TInv N s' ∧ Grown (.create i) s s') := by
  obtain ⟨hin, hroom⟩ := hok
  obtain ⟨ro, s1, hrun, hahh, hvs⟩ := elab_ret Q hi hin
  obtain ⟨k, ero, hk, hkids, C⟩ := elab_static Q hi hrun
  unfold stepAction
  simp only
  refine Tot.bind_ok hrun ?_
  rw [ero]
  simp only
  refine Tot.bind_modify (Tot.pure ⟨rfl, ?_, ?_⟩)
  · refine ⟨?_, ⟨?_, ?_, ?_⟩, ?_, ?_, ?_, ?_⟩
    · intro m hn ho
      have hn' : s1.isNecessary m = true := hn
      have e := C.ne_of_nec hn'
      rw [C.nec_old e] at hn'
      show (s1.nodeD m).height ≤ _
      rw [C.nodeD_old e]; exact T.hb m hn' ho
    · show s1.ahh.maxAllowed = _
      rw [hahh]; exact T.room.ahh
    · show s1.rch.maxAllowed = _
      rw [C.rch]; exact T.room.rch
    · show s1.nodes.size ≤ N
      rw [C.size]; exact hroom
    · intro c vc h
      have h' : s1.vars[c]? = some vc := h
      rcases C.vars with ⟨-, e⟩ | ⟨v, -, ev⟩
      · rw [e] at h'; exact T.linked c vc h'
      · rw [ev, Array.getElem?_push] at h'
        split at h'
        · injection h' with h'
          rw [← h']
        · exact T.linked c vc h'
    · show (s1.top.push _).size = s1.nodes.size
      rw [Array.size_push, C.top, C.size, T.topSize]
    · show s1.newObservers.Nodup
      rw [C.newObservers]; exact T.newNodup
    · intro o ob h1 h2
      have h1' : o ∈ s1.newObservers := h1
      have h2' : s1.observers[o]? = some ob := h2
      rw [C.newObservers] at h1'
      rw [C.observers] at h2'
      exact T.newState o ob h1' h2'
  · refine ⟨?_, ?_, ?_⟩
    · show s1.nodes.size = _
      rw [C.size]
      cases i <;> first | rfl | exact hi.elim
    · exact hvs
    · show s1.observers.size = _
      rw [C.observers]
      cases i <;> first | rfl | exact hi.elim

end IncrVerif.Proofs.Quiet
