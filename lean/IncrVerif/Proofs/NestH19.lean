import IncrVerif.Proofs.NestH6
import IncrVerif.Proofs.BindH61
/-!
# Nested binds (F2), part f: the auxiliary invariant `F2Inv` of a drain, and the CONTRACTS of the phases of a run of a change detector

A run of a change detector `n` of bind `b` is (`Inval.recomputeOne_bindLhsChange_run`, `Proofs/Invalidation.lean`), from `started n s`:
`lhsRunClosure` (reset the list of registered nodes, run the closure = elaborate the template in scope `.bind b`; NEW: `bind body' o` instructions create a
fresh bind record and its two nodes in scope `.bind b`), `lhsRelink` (install the new right-hand side), `lhsInvalidateOld` (invalidate the previous
generation; NEW: `invalidateNode` on the main node of an inner bind recursively invalidates the nodes of the inner bind's scope and empties its list),
`lhsFinish` (`maybeChangeValue n ()`).
-/
namespace IncrVerif.Proofs.NestH
open IncrVerif.Engine IncrVerif.Proofs IncrVerif.Proofs.Step IncrVerif.Proofs.Sched IncrVerif.Proofs.Quiet
open IncrVerif.Proofs.BindH

/-! ## templates of fragment F2 -/

/-- an operand of a closure whose bind has change detector `lc`, with `nloc` locals created so far: a top-level node of SMALLER RANK than `lc` or an earlier local -/
def OpndOK2 (rk : Nat → Nat) (s : State) (lc nloc : Nat) : Opnd → Prop
  | .outer k => ∃ r, s.top[k]? = some r ∧ rk r < rk lc
  | .loc j => j < nloc
  | _ => False

/-- instructions of F2 closures: each creates exactly one LOCAL (an inner bind creates two nodes; its main node is the local); `P body'`: the inner body is fine -/
def InstrOK2 (env : Env) (rk : Nat → Nat) (s : State) (P : Nat → Prop) (lc nloc : Nat) : Instr → Prop
  | .const _ => True
  | .lhsConst => True
  | .map f args => f < fnPerKey ∧ (f < fnZip → ∀ vals, env.fnEff f vals = []) ∧ ∀ a, a ∈ args → OpndOK2 rk s lc nloc a
  | .fold _ _ cs => ∀ a, a ∈ cs → OpndOK2 rk s lc nloc a
  | .bind body' o => P body' ∧ OpndOK2 rk s lc nloc o
  | _ => False

def TemplOK2 (env : Env) (rk : Nat → Nat) (s : State) (P : Nat → Prop) (lc : Nat) (t : Template) : Prop :=
  (∀ j i, t.instrs[j]? = some i → InstrOK2 env rk s P lc j i) ∧ OpndOK2 rk s lc t.instrs.length t.ret

/-- the closure `body` (and, with one unit of fuel less, every closure it nests) is fine for a bind whose change detector is `lc`.
All operands `.outer k` of all nesting levels are below `lc` (the inner change detectors have larger rank, see `BodyOK2.mono`). -/
def BodyOK2 (env : Env) (rk : Nat → Nat) (s : State) (lc : Nat) : Nat → Nat → Prop
  | 0, _ => False
  | f+1, body => ∀ v, TemplOK2 env rk s (fun b' => BodyOK2 env rk s lc f b') lc (env.body body v)

/-- two ranks order the nodes of the state alike -/
def RkExt (rk rk' : Nat → Nat) (N : Nat) : Prop := ∀ a c, a < N → c < N → (rk' a < rk' c ↔ rk a < rk c)

theorem OpndOK2.mono_top {rk rk' : Nat → Nat} {s s' : State} {lc lc' nloc : Nat} {o : Opnd}
    (htop : ∀ (k r : Nat), s.top[k]? = some r → s'.top[k]? = some r)
    (h : ∀ r, rk r < rk lc → (∃ k : Nat, s.top[k]? = some r) → rk' r < rk' lc')
    (ho : OpndOK2 rk s lc nloc o) : OpndOK2 rk' s' lc' nloc o := by
  cases o with
  | outer k =>
    obtain ⟨r, h1, h2⟩ := ho
    exact ⟨r, htop k r h1, h r h2 ⟨k, h1⟩⟩
  | loc j => exact ho
  | abs _ => exact ho.elim
  | slot _ => exact ho.elim

theorem InstrOK2.mono_top {env : Env} {rk rk' : Nat → Nat} {s s' : State} {P P' : Nat → Prop} {lc lc' nloc : Nat} {i : Instr}
    (htop : ∀ (k r : Nat), s.top[k]? = some r → s'.top[k]? = some r)
    (h : ∀ r, rk r < rk lc → (∃ k : Nat, s.top[k]? = some r) → rk' r < rk' lc')
    (hP : ∀ b, P b → P' b) (hi : InstrOK2 env rk s P lc nloc i) : InstrOK2 env rk' s' P' lc' nloc i := by
  cases i <;> first | exact hi | exact hi.elim | skip
  · exact ⟨hi.1, hi.2.1, fun a ha => OpndOK2.mono_top htop h (hi.2.2 a ha)⟩
  · exact fun a ha => OpndOK2.mono_top htop h (hi a ha)
  · exact ⟨hP _ hi.1, OpndOK2.mono_top htop h hi.2⟩

theorem TemplOK2.mono_top {env : Env} {rk rk' : Nat → Nat} {s s' : State} {P P' : Nat → Prop} {lc lc' : Nat} {t : Template}
    (htop : ∀ (k r : Nat), s.top[k]? = some r → s'.top[k]? = some r)
    (h : ∀ r, rk r < rk lc → (∃ k : Nat, s.top[k]? = some r) → rk' r < rk' lc')
    (hP : ∀ b, P b → P' b) (ht : TemplOK2 env rk s P lc t) : TemplOK2 env rk' s' P' lc' t :=
  ⟨fun j i hj => InstrOK2.mono_top htop h hP (ht.1 j i hj), OpndOK2.mono_top htop h ht.2⟩

/-- a body that is fine for `lc` under `rk` is fine for `lc'` under `rk'` when the naming table only grows and every named top-level node below `lc` is below `lc'` -/
theorem BodyOK2.mono_top {env : Env} {rk rk' : Nat → Nat} {s s' : State} {lc lc' : Nat}
    (htop : ∀ (k r : Nat), s.top[k]? = some r → s'.top[k]? = some r)
    (h : ∀ r, rk r < rk lc → (∃ k : Nat, s.top[k]? = some r) → rk' r < rk' lc') :
    ∀ (f body : Nat), BodyOK2 env rk s lc f body → BodyOK2 env rk' s' lc' f body := by
  intro f
  induction f with
  | zero => intro body hb; exact hb.elim
  | succ f ih =>
    intro body hb v
    exact TemplOK2.mono_top htop h (fun b' hb' => ih b' hb') (hb v)

theorem OpndOK2.mono {rk rk' : Nat → Nat} {s s' : State} {lc lc' nloc : Nat} {o : Opnd}
    (htop : s'.top = s.top) (h : ∀ r, rk r < rk lc → (∃ k : Nat, s.top[k]? = some r) → rk' r < rk' lc')
    (ho : OpndOK2 rk s lc nloc o) : OpndOK2 rk' s' lc' nloc o :=
  OpndOK2.mono_top (fun k r hk => by rw [htop]; exact hk) h ho

theorem InstrOK2.mono {env : Env} {rk rk' : Nat → Nat} {s s' : State} {P P' : Nat → Prop} {lc lc' nloc : Nat} {i : Instr}
    (htop : s'.top = s.top) (h : ∀ r, rk r < rk lc → (∃ k : Nat, s.top[k]? = some r) → rk' r < rk' lc')
    (hP : ∀ b, P b → P' b) (hi : InstrOK2 env rk s P lc nloc i) : InstrOK2 env rk' s' P' lc' nloc i :=
  InstrOK2.mono_top (fun k r hk => by rw [htop]; exact hk) h hP hi

theorem TemplOK2.mono {env : Env} {rk rk' : Nat → Nat} {s s' : State} {P P' : Nat → Prop} {lc lc' : Nat} {t : Template}
    (htop : s'.top = s.top) (h : ∀ r, rk r < rk lc → (∃ k : Nat, s.top[k]? = some r) → rk' r < rk' lc')
    (hP : ∀ b, P b → P' b) (ht : TemplOK2 env rk s P lc t) : TemplOK2 env rk' s' P' lc' t :=
  TemplOK2.mono_top (fun k r hk => by rw [htop]; exact hk) h hP ht

/-- a body that is fine for `lc` under `rk` is fine for `lc'` under `rk'` when every named top-level node below `lc` is below `lc'` -/
theorem BodyOK2.mono {env : Env} {rk rk' : Nat → Nat} {s s' : State} {lc lc' : Nat}
    (htop : s'.top = s.top) (h : ∀ r, rk r < rk lc → (∃ k : Nat, s.top[k]? = some r) → rk' r < rk' lc') :
    ∀ (f body : Nat), BodyOK2 env rk s lc f body → BodyOK2 env rk' s' lc' f body :=
  BodyOK2.mono_top (fun k r hk => by rw [htop]; exact hk) h

/-! ## the auxiliary invariant -/

structure F2Inv (env : Env) (rk : Nat → Nat) (s : State) : Prop where
  frag : All2 env rk s []
  nodup : ∀ c, (s.nodeD c).parents.Nodup
  ahh : AhhEmpty s
  pinv : s.propagateInvalidity = []
  noForce : ∀ m, (s.nodeD m).forceNecessary = false
  noHandlers : ∀ m, (s.nodeD m).numOnUpdateHandlers = 0
  /-- invalid nodes are isolated -/
  inv : ∀ m, (s.nodeD m).valid = false →
    (s.nodeD m).parents = [] ∧ (s.nodeD m).observers = [] ∧ (s.nodeD m).inRch = false
  scopeObs : ∀ m b, (s.nodeD m).createdIn = .bind b → (s.nodeD m).observers = []
  lcObs : ∀ m b, (s.nodeD m).kind = .bindLhsChange b → (s.nodeD m).observers = []
  lcCut : ∀ m b, (s.nodeD m).kind = .bindLhsChange b → (s.nodeD m).cutoff = .never
  /-- the naming table names top-level nodes that are not change detectors -/
  topOK : ∀ (k r : Nat), s.top[k]? = some r →
    r < s.nodes.size ∧ (s.nodeD r).createdIn = .top ∧ ∀ b', (s.nodeD r).kind ≠ .bindLhsChange b'
  /-- the closure of every bind record (also of inner and of dead ones) is fine for its change detector -/
  closures : ∀ (b : Nat) (br : BindRec), s.binds[b]? = some br → ∃ f, BodyOK2 env rk s br.lhsChange f br.body
  /-- the lhs of a LIVE bind is not a change detector -/
  lhsOK : ∀ (b : Nat) (br : BindRec), s.binds[b]? = some br → (s.nodeD br.lhsChange).valid = true →
    ∀ b', (s.nodeD br.lhs).kind ≠ .bindLhsChange b'
  /-- a bind that never ran has no registered nodes -/
  rhsNone : ∀ (b : Nat) (br : BindRec), s.binds[b]? = some br → br.rhs = none → br.allNodesCreatedOnRhs = []
  /-- a dead bind has no registered nodes -/
  deadNone : ∀ (b : Nat) (br : BindRec), s.binds[b]? = some br → (s.nodeD br.main).valid = false →
    br.allNodesCreatedOnRhs = []
  /-- the installed right-hand side of a LIVE bind: a top-level node below the change detector, or a valid node of the scope; never a change detector -/
  rhsOK : ∀ (b : Nat) (br : BindRec) (o : Nat), s.binds[b]? = some br → br.rhs = some o →
    (s.nodeD br.main).valid = true →
    (∀ b', (s.nodeD o).kind ≠ .bindLhsChange b') ∧
    (((s.nodeD o).createdIn = .top ∧ rk o < rk br.lhsChange) ∨
     ((s.nodeD o).createdIn = .bind b ∧ (s.nodeD o).valid = true))

/-- during a drain the structural invariant holds with every node closed and the current node excused -/
theorem ginv2_of_dinv {env : Env} {rk : Nat → Nat} {s : State} {x : Option Nat} (I : DInv env s x) (A : F2Inv env rk s) :
    GInv2 env rk s allClosed (fun m => x = some m) [] where
  frag := A.frag
  par c p i h := by
    obtain ⟨h1, h2⟩ := I.graph.parent c p i h
    exact ⟨h2, (wants_closed rfl).2 h1⟩
  conv p i c hk hw := (I.graph.child p ((wants_closed rfl).1 hw) i c hk).2.1
  nodup := A.nodup
  hlt c p i h _ := by
    obtain ⟨h1, h2⟩ := I.graph.parent c p i h
    exact (I.graph.child p h1 i c h2).2.2
  hpos n hn _ := (I.graph.nec n hn).2
  lnec p k h := by cases h
  unec p k h := by cases h
  heap := ⟨I.heap.wf, fun m hm => by rw [I.heap.hgt m hm]; exact I.heap.lb m hm, I.heap.lb0⟩
  hgt m hm _ := I.heap.hgt m hm
  qnec m hm := Or.inl (I.heap.nec m hm)
  queued m _ hn hs hex := by
    rcases I.pending m hn hs with h | h
    · exact h
    · exact absurd h hex
  qstale := I.qstale
  opLt m h := absurd rfl h
  scopeH n b br hv hsc hb hn _ := by
    obtain ⟨br', hb', -, -, h⟩ := I.graph.scope n b (I.graph.nec_lt hn) hv hsc
    rw [hb] at hb'; cases hb'
    exact (h hn).2
  inv m hv := by
    obtain ⟨h1, h2, h3⟩ := A.inv m hv
    exact ⟨h1, h2, A.noForce m, h3, rfl⟩
  scopeObs := A.scopeObs
  lcObs := A.lcObs

/-! ## phase 1: the closure run -/

/-- what the closure run changes: it appends nodes (created in scope `.bind b`, pristine) and registers exactly them; it appends bind records (the inner binds) -/
structure CRel2 (b : Nat) (br : BindRec) (s s' : State) : Prop where
  grow : s.nodes.size ≤ s'.nodes.size
  old : ∀ m, m < s.nodes.size → s'.nodeD m = s.nodeD m
  new : ∀ m, s.nodes.size ≤ m → m < s'.nodes.size →
    (s'.nodeD m).createdIn = .bind b ∧ (s'.nodeD m).valid = true ∧ (s'.nodeD m).recomputedAt = -1 ∧
    (s'.nodeD m).changedAt = -1 ∧ (s'.nodeD m).value = none ∧ (s'.nodeD m).parents = [] ∧
    (s'.nodeD m).observers = [] ∧ (s'.nodeD m).forceNecessary = false ∧ (s'.nodeD m).heightInRch = -1 ∧
    (s'.nodeD m).heightInAhh = -1 ∧ (s'.nodeD m).numOnUpdateHandlers = 0
  bind : ∃ l, s'.binds[b]? = some { br with allNodesCreatedOnRhs := l } ∧
    ∀ m, m ∈ l ↔ (s.nodes.size ≤ m ∧ m < s'.nodes.size)
  bindsGrow : s.binds.size ≤ s'.binds.size
  bindsOther : ∀ b', b' ≠ b → b' < s.binds.size → s'.binds[b']? = s.binds[b']?
  /-- the records of the inner binds: never run, their two nodes are new -/
  bindsNew : ∀ b' br', s.binds.size ≤ b' → s'.binds[b']? = some br' →
    br'.rhs = none ∧ br'.allNodesCreatedOnRhs = [] ∧ s.nodes.size ≤ br'.lhsChange
  vars : s'.vars = s.vars
  stabNum : s'.stabNum = s.stabNum
  status : s'.status = s.status
  cfg : s'.cfg = s.cfg
  scope : s'.currentScope = s.currentScope
  pc : s'.panicCountdown = s.panicCountdown
  rch : s'.rch = s.rch
  ahh : s'.ahh = s.ahh
  top : s'.top = s.top
  pinv : s'.propagateInvalidity = s.propagateInvalidity

/-- the specification of the closure run (phase 1) in fragment F2.  The rank is extended: `rk'` orders the old nodes as `rk` does. -/
def ClosureSpec2 (env : Env) : Prop :=
  ∀ (n b rhs : Nat) (br : BindRec) (rk : Nat → Nat) (s s' : State) (ex : Nat → Prop),
    (Inval.lhsRunClosure env n b br).run.run s = (.ok rhs, s') →
    GInv2 env rk s allClosed ex [] → AhhEmpty s → s.binds[b]? = some br → br.lhsChange = n →
    (s.nodeD n).valid = true →
    (∃ f, BodyOK2 env rk s n f br.body) →
    (∀ (k r : Nat), s.top[k]? = some r →
      r < s.nodes.size ∧ (s.nodeD r).createdIn = .top ∧ ∀ b', (s.nodeD r).kind ≠ .bindLhsChange b') →
    (∀ m b', (s.nodeD m).kind = .bindLhsChange b' → (s.nodeD m).cutoff = .never) →
    ∃ rk', RkExt rk rk' s.nodes.size ∧
    GInv2 env rk' s' allClosed ex br.allNodesCreatedOnRhs ∧ AhhEmpty s' ∧ CRel2 b br s s' ∧
    rhs < s'.nodes.size ∧ (∀ b', (s'.nodeD rhs).kind ≠ .bindLhsChange b') ∧
    (((s'.nodeD rhs).createdIn = .top ∧ rk' rhs < rk' n) ∨ s.nodes.size ≤ rhs) ∧
    (∀ m b', (s'.nodeD m).kind = .bindLhsChange b' → (s'.nodeD m).cutoff = .never) ∧
    (∀ b' br', s.binds.size ≤ b' → s'.binds[b']? = some br' →
      (∃ f, BodyOK2 env rk' s' br'.lhsChange f br'.body) ∧ ∀ b'', (s'.nodeD br'.lhs).kind ≠ .bindLhsChange b'')

/-! ## phase 2: installing the new right-hand side -/

/-- the specification of `lhsRelink` (phase 2) in fragment F2; `br` is the record as it was when the run started (`br.rhs` = the old right-hand side),
`br1` the current record (its list of registered nodes is the new generation), `dy` the dying generation (the nodes of scope `b` registered before) -/
def RelinkSpec2 (env : Env) : Prop :=
  ∀ (fuel b n rhs : Nat) (rk : Nat → Nat) (s s' : State) (br br1 : BindRec) (ex : Nat → Prop) (dy : List Nat),
    (Inval.lhsRelink env fuel n b br s.stabNum rhs).run.run s = (.ok (), s') →
    GInv2 env rk s allClosed ex dy → ex br.main → AhhEmpty s →
    s.binds[b]? = some br1 → br1.rhs = br.rhs → br1.main = br.main → br1.lhsChange = n →
    (s.nodeD br.main).valid = true →
    s.isNecessary br.main = true →
    rhs < s.nodes.size → rhs ∉ dy → (∀ b', (s.nodeD rhs).kind ≠ .bindLhsChange b') →
    (((s.nodeD rhs).createdIn = .top ∧ rk rhs < rk n) ∨
      ((s.nodeD rhs).createdIn = .bind b ∧ (s.nodeD rhs).valid = true)) →
    (∀ o, br.rhs = some o → (∀ b', (s.nodeD o).kind ≠ .bindLhsChange b') ∧
      (((s.nodeD o).createdIn = .top ∧ rk o < rk n) ∨
       ((s.nodeD o).createdIn = .bind b ∧ o ∈ dy))) →
    (∀ m, m ∈ dy → (s.nodeD m).createdIn = .bind b) →
    (∀ m, (s.nodeD m).forceNecessary = false) → s.propagateInvalidity = [] →
    (s.nodeD br.main).recomputedAt < s.stabNum →
    GInv2 env rk s' allClosed ex dy ∧ AhhEmpty s' ∧ RRelB b n rhs br1 s s' ∧ s'.propagateInvalidity = [] ∧
      (∀ m, (s'.nodeD m).forceNecessary = false) ∧ s'.isNecessary br.main = true

/-! ## phase 3: invalidating the previous generation -/

/-- the nodes that die when the generation `dy` is invalidated: the nodes of `dy` and, recursively, the valid nodes of the scopes of the inner binds among them -/
inductive Dying (s : State) (dy : List Nat) : Nat → Prop
  | base {m : Nat} : m ∈ dy → Dying s dy m
  | inner {p m b2 lc2 : Nat} : Dying s dy p → (s.nodeD p).kind = .bindMain b2 lc2 → m < s.nodes.size →
      (s.nodeD m).valid = true → (s.nodeD m).createdIn = .bind b2 → Dying s dy m

/-- what phase 3 changes: the dying nodes become invalid (value dropped, stamped with the round number), the records of the dying inner binds lose their
lists; nothing else -/
structure IRel2 (dy : List Nat) (s s' : State) : Prop where
  size : s'.nodes.size = s.nodes.size
  other : ∀ m, ¬ Dying s dy m → s'.nodeD m = s.nodeD m
  dead : ∀ m, Dying s dy m → (s'.nodeD m).valid = false ∧ (s'.nodeD m).kind = (s.nodeD m).kind ∧
    (s'.nodeD m).createdIn = (s.nodeD m).createdIn ∧ (s'.nodeD m).cutoff = (s.nodeD m).cutoff ∧
    (s'.nodeD m).parents = [] ∧ (s'.nodeD m).observers = [] ∧
    (s'.nodeD m).forceNecessary = false ∧ (s'.nodeD m).heightInRch = -1 ∧
    (s'.nodeD m).heightInAhh = (s.nodeD m).heightInAhh ∧
    (s'.nodeD m).recomputedAt ≤ s.stabNum ∧ (s'.nodeD m).changedAt ≤ s.stabNum ∧
    (s'.nodeD m).numOnUpdateHandlers = (s.nodeD m).numOnUpdateHandlers
  bindsSize : s'.binds.size = s.binds.size
  /-- the record of a bind whose main node dies loses its list; every other record is unchanged -/
  binds : ∀ (b' : Nat) (br0 : BindRec), s.binds[b']? = some br0 →
    (Dying s dy br0.main → s'.binds[b']? = some { br0 with allNodesCreatedOnRhs := [] }) ∧
    (¬ Dying s dy br0.main → s'.binds[b']? = some br0)
  vars : s'.vars = s.vars
  stabNum : s'.stabNum = s.stabNum
  status : s'.status = s.status
  cfg : s'.cfg = s.cfg
  scope : s'.currentScope = s.currentScope
  pc : s'.panicCountdown = s.panicCountdown
  rch : s'.rch = s.rch
  ahh : s'.ahh = s.ahh
  top : s'.top = s.top
  pinv : s'.propagateInvalidity = s.propagateInvalidity

/-- the specification of `lhsInvalidateOld` (phase 3) in fragment F2 -/
def InvalSpec2 (env : Env) : Prop :=
  ∀ (fuel b : Nat) (br : BindRec) (rk : Nat → Nat) (s s' : State) (ex : Nat → Prop),
    (Inval.lhsInvalidateOld fuel br).run.run s = (.ok (), s') →
    GInv2 env rk s allClosed ex br.allNodesCreatedOnRhs →
    (br.rhs = none → br.allNodesCreatedOnRhs = []) →
    (∀ m, m ∈ br.allNodesCreatedOnRhs → (s.nodeD m).createdIn = .bind b ∧ (s.nodeD m).parents = [] ∧
      (s.nodeD m).valid = true) →
    (∀ br1 r, s.binds[b]? = some br1 → br1.rhs = some r → r ∉ br.allNodesCreatedOnRhs) →
    (∀ m, (s.nodeD m).forceNecessary = false) → (∀ m, (s.nodeD m).numOnUpdateHandlers = 0) →
    s.propagateInvalidity = [] →
    (∀ (b' : Nat) (br' : BindRec), s.binds[b']? = some br' → br'.rhs = none → br'.allNodesCreatedOnRhs = []) →
    GInv2 env rk s' allClosed ex [] ∧ IRel2 br.allNodesCreatedOnRhs s s'

end IncrVerif.Proofs.NestH
