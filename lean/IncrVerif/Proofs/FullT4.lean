import IncrVerif.Proofs.FullT3
/-!
# C04 combined fragment, part 4: CONTRACTS between the files of the bisimulation ladder (so that they can be written in parallel)
-/
namespace IncrVerif.Proofs.FullT
open IncrVerif.Engine IncrVerif.Proofs IncrVerif.Proofs.Step IncrVerif.Proofs.Sched IncrVerif.Proofs.Quiet IncrVerif.Proofs.FullH

/-- CONTRACT (file `L6`): `became_necessary` — the virtual run returns ⇒ the actual run returns (incl. `markMapRefUnknown`), with fuel `3 * size + 2` -/
def BnC (K : Kind → Prop) (env : Env) (sp : Nat → Val → Val) : Prop :=
  ∀ (g : Nat → Option Val) (fuel n : Nat) (s : State), 3 * s.nodes.size + 2 ≤ fuel →
    BSimAt K PInv g s (becameNecessary env fuel n) (becameNecessary (virtEnv env sp) fuel n)

/-- CONTRACT (file `L6`): `add_parent_without_adjusting_heights`; the new edge must be sane: `p` exists, and if `p` is a `map_ref` node then `c` is its input -/
def ApC (K : Kind → Prop) (env : Env) (sp : Nat → Val → Val) : Prop :=
  ∀ (g : Nat → Option Val) (fuel c i p : Nat) (s : State), 3 * s.nodes.size + 2 ≤ fuel → p < s.nodes.size →
    (∀ pr j, (s.nodeD p).kind = .mapRef pr j → j = c) →
    BSimAt K PInv g s (addParentWithoutAdjustingHeights env fuel c i p) (addParentWithoutAdjustingHeights (virtEnv env sp) fuel c i p)

/-- CONTRACT (file `L9`): `maybe_change_value` of an EXACT node that is not a `map_ref` node (incl. `child_changed` through chains of `map_ref` parents) -/
def McvC (K : Kind → Prop) (env : Env) (sp : Nat → Val → Val) : Prop :=
  ∀ (g : Nat → Option Val) (fuel n : Nat) (v : Val) (t : State), (∀ p i, (t.nodeD n).kind ≠ .mapRef p i) →
    (t.nodeD n).cutoff = virtCut (t.nodeD n).kind (t.nodeD n).cutoff → t.nodes.size ≤ fuel →
    BSimAt K PInv g t (maybeChangeValue env fuel n v) (maybeChangeValue (virtEnv env sp) fuel n v)

end IncrVerif.Proofs.FullT
