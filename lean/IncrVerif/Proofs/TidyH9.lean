import IncrVerif.Proofs.MapOld35
/-!
# T2b, part 1: the EXACT simulation calculus for the fragment static + map_with_old

`MapOldH.SimAt` is a forward simulation of the successful runs only.  Total correctness needs the converse (the virtual
static engine returns ⇒ the actual engine returns).  `WT.SimAt s x x'`: WHATEVER the outcome of the run of `x` from `s`
(a result or a panic), the run of `x'` from `virt s` has the same outcome and ends in `virt` of the final state.  Since
runs are functions this is a bisimulation: `SimAt.fwd` (the forward simulation of MapOld3) and `SimAt.rev` (the converse),
and it transfers total-correctness statements from the virtual to the actual engine (`SimAt.tot`).
-/
namespace IncrVerif.Proofs.TidyH.WT
open IncrVerif.Engine IncrVerif.Proofs IncrVerif.Proofs.Step IncrVerif.Proofs.Sched IncrVerif.Proofs.Quiet
open IncrVerif.Proofs.MapOldH

def SimAt (s : State) {α} (x x' : M α) : Prop :=
  Fr s → ∀ (r : Except Panic α) s', x.run.run s = (r, s') → x'.run.run (virt s) = (r, virt s') ∧ Fr s'

def Sim {α} (x x' : M α) : Prop := ∀ s, SimAt s x x'

section
variable {s : State} {α β : Type}

theorem run_bind_err {x : M α} {f : α → M β} {e : Panic} {s1 : State} (h : x.run.run s = (.error e, s1)) :
    (x >>= f).run.run s = (.error e, s1) := by
  show ((ExceptT.bind x f).run).run s = _
  simp only [ExceptT.bind, ExceptT.run, ExceptT.mk, ExceptT.bindCont, bind, StateT.bind, StateT.run] at h ⊢
  rw [h]; rfl

/-- the forward simulation of `MapOld3` -/
theorem SimAt.fwd {x x' : M α} (h : SimAt s x x') : MapOldH.SimAt s x x' :=
  fun hn r s' hr => h hn (.ok r) s' hr

theorem Sim.fwd {x x' : M α} (h : Sim x x') : MapOldH.Sim x x' := fun s => (h s).fwd

/-- the converse simulation: if the virtual run returns so does the actual run -/
theorem SimAt.rev {x x' : M α} (h : SimAt s x x') (hn : Fr s) {r : α} {t : State}
    (hv : x'.run.run (virt s) = (.ok r, t)) : ∃ s', x.run.run s = (.ok r, s') ∧ t = virt s' ∧ Fr s' := by
  rcases h1 : x.run.run s with ⟨r1, s1⟩
  obtain ⟨e1, n1⟩ := h hn r1 s1 h1
  rw [hv] at e1
  cases e1
  exact ⟨s1, rfl, rfl, n1⟩

/-- **transfer**: total correctness of the virtual run gives total correctness of the actual run -/
theorem SimAt.tot {x x' : M α} (h : SimAt s x x') (hn : Fr s) {Q' : α → State → Prop} (T : Tot x' (virt s) Q') :
    Tot x s (fun a s' => Q' a (virt s') ∧ Fr s') := by
  obtain ⟨a, t, hv, hq⟩ := T
  obtain ⟨s', h1, rfl, n1⟩ := h.rev hn hv
  exact ⟨a, s', h1, hq, n1⟩

theorem Sim.at {x x' : M α} (h : Sim x x') (s : State) : SimAt s x x' := h s

theorem SimAt.ret (a : α) : SimAt s (pure a : M α) (pure a) := by
  intro hn r s' h; rw [run_pure] at h; cases h; exact ⟨rfl, hn⟩

theorem SimAt.thr (e : Panic) : SimAt s (throw e : M α) (throw e) := by
  intro hn r s' h; rw [run_throw] at h; cases h; exact ⟨rfl, hn⟩

theorem SimAt.pan (e : String) : SimAt s (Engine.panic e : M α) (Engine.panic e) := SimAt.thr _

theorem SimAt.seq {x x' : M α} {f f' : α → M β} (hx : SimAt s x x')
    (hf : ∀ a s1, x.run.run s = (.ok a, s1) → SimAt s1 (f a) (f' a)) :
    SimAt s (x >>= f) (x' >>= f') := by
  intro hn r s' h
  rcases h1 : x.run.run s with ⟨a | a, s1⟩
  · obtain ⟨e1, n1⟩ := hx hn _ s1 h1
    rw [run_bind_err h1] at h; cases h
    exact ⟨run_bind_err e1, n1⟩
  · obtain ⟨e1, n1⟩ := hx hn _ s1 h1
    rw [run_bind_ok h1] at h; rw [run_bind_ok e1]
    exact hf a s1 h1 n1 r s' h

theorem SimAt.get_seq {k k' : State → M β} (h : SimAt s (k s) (k' (virt s))) :
    SimAt s (get >>= k) (get >>= k') := by
  intro hn r s' hr
  rw [run_bind_get] at hr ⊢
  exact h hn r s' hr

theorem run_getNode_none {n : Nat} (h : s.nodes[n]? = none) :
    (getNode n).run.run s = (.error (.site "model:no-such-node"), s) := by
  unfold getNode
  rw [run_bind_get, h]; rfl

theorem SimAt.getNode_seq {n : Nat} {k k' : Node → M β}
    (h : ∀ nd, s.nodes[n]? = some nd → (∀ e, nd.kind ≠ .expert e) → (∀ p i, nd.kind ≠ .mapRef p i) →
      nd.valid = true → SimAt s (k nd) (k' (virtNode nd))) :
    SimAt s (getNode n >>= k) (getNode n >>= k') := by
  intro hn r s' hr
  cases hnd : s.nodes[n]? with
  | none =>
    have hv : (virt s).nodes[n]? = none := by rw [virt_getElem?, hnd]; rfl
    rw [run_bind_err (run_getNode_none hnd)] at hr
    cases hr
    exact ⟨run_bind_err (run_getNode_none hv), hn⟩
  | some nd =>
    have hv : (virt s).nodes[n]? = some (virtNode nd) := by rw [virt_getElem?, hnd]; rfl
    rw [run_bind_ok (run_getNode_some hnd)] at hr
    rw [run_bind_ok (run_getNode_some hv)]
    exact h nd hnd (hn.some hnd).1 (hn.some hnd).2.1 (hn.some hnd).2.2 hn r s' hr

theorem SimAt.mod {f f' : State → State} (h : virt (f s) = f' (virt s)) (hn : (f s).nodes = s.nodes)
    (hp : (f s).propagateInvalidity = s.propagateInvalidity) :
    SimAt s (modify f : M Unit) (modify f') := by
  intro hne r s' hr; rw [run_modify] at hr ⊢; cases hr; rw [h]; exact ⟨rfl, hne.of_nodes hn hp⟩

theorem SimAt.mod_seq {f f' : State → State} {k k' : Unit → M β} (h : virt (f s) = f' (virt s))
    (hn : (f s).nodes = s.nodes) (hp : (f s).propagateInvalidity = s.propagateInvalidity)
    (hk : SimAt (f s) (k ()) (k' ())) :
    SimAt s ((modify f : M Unit) >>= k) ((modify f' : M Unit) >>= k') := by
  intro hne r s' hr
  rw [run_bind_modify] at hr ⊢
  rw [← h]; exact hk (hne.of_nodes hn hp) r s' hr

theorem SimAt.cond {c c' : Prop} {_ : Decidable c} {_ : Decidable c'} {a b a' b' : M α} (hc : c ↔ c')
    (ha : c → SimAt s a a') (hb : ¬ c → SimAt s b b') :
    SimAt s (if c then a else b) (if c' then a' else b') := by
  by_cases h : c
  · rw [if_pos h, if_pos (hc.1 h)]; exact ha h
  · rw [if_neg h, if_neg (fun h' => h (hc.2 h'))]; exact hb h

/-- a commuting node update -/
theorem Sim.modNode (n : Nat) {f f' : Node → Node} (hf : ∀ nd, virtNode (f nd) = f' (virtNode nd))
    (hk : ∀ nd, (f nd).kind = nd.kind ∧ (f nd).valid = nd.valid ∧ (f nd).cutoff = nd.cutoff) :
    Sim (Engine.modNode n f) (Engine.modNode n f') := by
  intro s hne r s' hr
  rw [run_modNode] at hr ⊢
  cases hr
  refine ⟨?_, fr_modify hne n f hk⟩
  congr 1
  simp only [virt]
  congr 1
  apply Array.ext
  · simp
  · intro i h1 h2
    simp only [Array.getElem_map, Array.getElem_modify]
    split
    · rename_i e; subst e; exact (hf _).symm
    · rfl

theorem Sim.forIn {γ : Type} (l : List γ) {f f' : γ → β → M (ForInStep β)} (h : ∀ a b, Sim (f a b) (f' a b))
    (b : β) : Sim (ForIn.forIn l b f) (ForIn.forIn l b f') := by
  induction l generalizing b with
  | nil => intro s; rw [List.forIn_nil, List.forIn_nil]; exact SimAt.ret _
  | cons a l ih =>
    intro s
    rw [List.forIn_cons, List.forIn_cons]
    refine SimAt.seq (h a b s) fun r s1 _ => ?_
    cases r with
    | done b' => exact SimAt.ret _
    | yield b' => exact ih b' s1

theorem Sim.dassert (c : Bool) (site : String) : Sim (Engine.dassert c site) (Engine.dassert c site) := by
  intro s hn r s' h
  rw [run_dassert] at h ⊢
  by_cases hc : s.cfg.debug = true ∧ c = false
  · rw [if_pos hc] at h; cases h; exact ⟨if_pos hc, hn⟩
  · rw [if_neg hc] at h; cases h; exact ⟨if_neg hc, hn⟩

theorem Sim.assertM (c : Bool) (site : String) : Sim (Engine.assertM c site) (Engine.assertM c site) := by
  intro s hn r s' h
  rw [run_assertM] at h ⊢
  split at h
  · rename_i hc; cases h; rw [if_pos hc]; exact ⟨rfl, hn⟩
  · rename_i hc; cases h; rw [if_neg hc]; exact ⟨rfl, hn⟩

theorem SimAt.map {x x' : M α} (f : α → β) (hx : SimAt s x x') : SimAt s (f <$> x) (f <$> x') := by
  rw [map_eq_pure_bind, map_eq_pure_bind]
  exact SimAt.seq hx fun _ _ _ => SimAt.ret _

theorem SimAt.discard {x x' : M α} (hx : SimAt s x x') : SimAt s (discard x) (discard x') := by
  unfold Functor.discard
  exact SimAt.map (Function.const α PUnit.unit) hx

end

/-! ## the tactics (as `wsim` … of MapOld4, for the exact simulation) -/

/-- registered `Sim` lemmas -/
syntax "esim_leaf" : tactic
macro_rules | `(tactic| esim_leaf) => `(tactic| fail "no leaf")

set_option hygiene false in
macro "esim_step" : tactic => `(tactic| first
  | with_reducible exact SimAt.ret _
  | with_reducible exact SimAt.thr _
  | with_reducible exact SimAt.pan _
  | ((with_reducible refine SimAt.get_seq ?_); try wnorm)
  | ((with_reducible refine SimAt.getNode_seq fun nd hnd hne hnr hval => ?_); try wnorm)
  | ((with_reducible refine SimAt.mod_seq ?_ ?_ ?_ ?_) <;> (first | rfl | skip))
  | ((with_reducible refine SimAt.mod ?_ ?_ ?_) <;> rfl)
  | ((with_reducible refine Sim.at ?_ _); esim_leaf)
  | ((with_reducible refine Sim.at (Sim.forIn _ (fun _ _ => ?_) _) _); intro _)
  | (with_reducible refine SimAt.seq ?_ fun _ _ _ => ?_)
  | (refine SimAt.cond Iff.rfl (fun _ => ?_) (fun _ => ?_)))

macro "esim" : tactic => `(tactic| repeat (any_goals esim_step))

set_option hygiene false in
/-- a `match` on the kind of the node last read by `getNode` -/
macro "esim_kind" : tactic => `(tactic| (
  simp only [virtNode_kind?]
  rcases hk : nd.kind? with _ | k
  all_goals try cases k
  all_goals simp only [Option.map_none, Option.map_some, virtKind]
  all_goals try exact absurd (kind_of_kind? hk) (hne _)
  all_goals try exact absurd (kind_of_kind? hk) (hnr _ _)
  esim))

end IncrVerif.Proofs.TidyH.WT
