import IncrVerif.Proofs.MapRef5
/-!
# map_ref fragment: simulation of the unlinking cascade and the rest of the recompute heap
-/
namespace IncrVerif.Proofs.MapRefH
open IncrVerif.Engine IncrVerif.Proofs IncrVerif.Proofs.Step IncrVerif.Proofs.Sched IncrVerif.Proofs.Quiet

section
variable {g : Nat → Option Val}

theorem Sim.removeParent (c i p : Nat) : Sim g (Engine.removeParent c i p) (Engine.removeParent c i p) := by
  intro s; unfold Engine.removeParent; sim
  split <;> sim
macro_rules | `(tactic| sim_leaf) => `(tactic| with_reducible exact Sim.removeParent _ _ _)

theorem Sim.rchUnlink (n : Nat) : Sim g (Engine.rchUnlink n) (Engine.rchUnlink n) := by
  intro s; unfold Engine.rchUnlink; sim
  split <;> sim
  split <;> sim
  split <;> sim
macro_rules | `(tactic| sim_leaf) => `(tactic| with_reducible exact Sim.rchUnlink _)

theorem Sim.rchRemove (n : Nat) : Sim g (Engine.rchRemove n) (Engine.rchRemove n) := by
  intro s; unfold Engine.rchRemove; sim
macro_rules | `(tactic| sim_leaf) => `(tactic| with_reducible exact Sim.rchRemove _)

theorem Sim.rchRemoveMin : Sim g Engine.rchRemoveMin Engine.rchRemoveMin := by
  intro s; unfold Engine.rchRemoveMin; sim
  split <;> sim
macro_rules | `(tactic| sim_leaf) => `(tactic| with_reducible exact Sim.rchRemoveMin)

theorem Sim.rchMinHeight : Sim g Engine.rchMinHeight Engine.rchMinHeight := by
  intro s; unfold Engine.rchMinHeight; sim
  exact SimAt.ret _
macro_rules | `(tactic| sim_leaf) => `(tactic| with_reducible exact Sim.rchMinHeight)

theorem Sim.unlink (fuel : Nat) :
    (∀ n, Sim g (becameUnnecessary fuel n) (becameUnnecessary fuel n)) ∧
    (∀ n, Sim g (checkIfUnnecessary fuel n) (checkIfUnnecessary fuel n)) ∧
    (∀ n, Sim g (removeChildren fuel n) (removeChildren fuel n)) := by
  induction fuel with
  | zero =>
    refine ⟨?_, ?_, ?_⟩
    · intro n s; unfold becameUnnecessary; sim
    · intro n s; unfold checkIfUnnecessary; sim
    · intro n s; unfold removeChildren; sim
  | succ fuel ih =>
    refine ⟨?_, ?_, ?_⟩
    · intro n s
      unfold becameUnnecessary
      sim
      all_goals first
        | exact ih.2.2 _ _
        | sim_kind
    · intro n s
      unfold checkIfUnnecessary
      sim
      all_goals exact ih.1 _ _
    · intro n s
      unfold removeChildren
      sim
      all_goals exact ih.2.1 _ _

theorem Sim.becameUnnecessary (fuel n : Nat) :
    Sim g (Engine.becameUnnecessary fuel n) (Engine.becameUnnecessary fuel n) := (Sim.unlink fuel).1 n
theorem Sim.checkIfUnnecessary (fuel n : Nat) :
    Sim g (Engine.checkIfUnnecessary fuel n) (Engine.checkIfUnnecessary fuel n) := (Sim.unlink fuel).2.1 n
theorem Sim.removeChildren (fuel n : Nat) :
    Sim g (Engine.removeChildren fuel n) (Engine.removeChildren fuel n) := (Sim.unlink fuel).2.2 n
macro_rules | `(tactic| sim_leaf) => `(tactic| with_reducible exact Sim.becameUnnecessary _ _)
macro_rules | `(tactic| sim_leaf) => `(tactic| with_reducible exact Sim.checkIfUnnecessary _ _)
macro_rules | `(tactic| sim_leaf) => `(tactic| with_reducible exact Sim.removeChildren _ _)

theorem Sim.propagateInvalidity (fuel : Nat) :
    Sim g (Engine.propagateInvalidity fuel) (Engine.propagateInvalidity fuel) := by
  intro s hn r s' hr
  cases fuel with
  | zero => unfold Engine.propagateInvalidity at hr; cases hr
  | succ fuel =>
    unfold Engine.propagateInvalidity at hr ⊢
    rw [run_bind_get] at hr ⊢
    rw [virt_propagateInvalidity]
    rw [hn.pinv] at hr ⊢
    cases hr
    exact ⟨rfl, hn⟩
macro_rules | `(tactic| sim_leaf) => `(tactic| with_reducible exact Sim.propagateInvalidity _)

theorem Sim.becameNecessary (env : Env) (fuel n : Nat) :
    Sim g (Engine.becameNecessary env fuel n) (Engine.becameNecessary (virtEnv env) fuel n) := (Sim.link env fuel).1 n
theorem Sim.addParentWithoutAdjustingHeights (env : Env) (fuel c i p : Nat) :
    Sim g (Engine.addParentWithoutAdjustingHeights env fuel c i p)
      (Engine.addParentWithoutAdjustingHeights (virtEnv env) fuel c i p) := (Sim.link env fuel).2 c i p
macro_rules | `(tactic| sim_leaf) => `(tactic| with_reducible exact Sim.becameNecessary _ _ _)
macro_rules | `(tactic| sim_leaf) => `(tactic| with_reducible exact Sim.addParentWithoutAdjustingHeights _ _ _ _ _)

theorem Sim.becameNecessaryPropagate (env : Env) (fuel n : Nat) :
    Sim g (Engine.becameNecessaryPropagate env fuel n) (Engine.becameNecessaryPropagate (virtEnv env) fuel n) := by
  intro s; unfold Engine.becameNecessaryPropagate; sim
macro_rules | `(tactic| sim_leaf) => `(tactic| with_reducible exact Sim.becameNecessaryPropagate _ _ _)

end
end IncrVerif.Proofs.MapRefH
