import IncrVerif.Proofs.TidyH56
/-!
# T1b, part 3: bisimulation ladder — the unlinking cascade and the rest of the recompute heap (conversion of MapRef6,
the unconditional lemmas)
-/
namespace IncrVerif.Proofs.TidyH.RT
open IncrVerif.Engine IncrVerif.Driver IncrVerif.Proofs IncrVerif.Proofs.Step IncrVerif.Proofs.Sched IncrVerif.Proofs.Quiet
open IncrVerif.Proofs.MapRefH

section
variable {P : State → Prop} [Keeps P] {g : Nat → Option Val}

/-- not a benign update (`parents` changes): `Keeps.rmParent` -/
theorem BSim.removeParent (c i p : Nat) : BSim P g (Engine.removeParent c i p) (Engine.removeParent c i p) := by
  intro s; unfold Engine.removeParent; bsim
  split
  · bsim
  · exact BSimAt.modNode' _ (by vcomm) (fun hp => Keeps.rmParent _ _ hp)
macro_rules | `(tactic| bsim_leaf) => `(tactic| with_reducible exact BSim.removeParent _ _ _)

theorem BSim.rchUnlink (n : Nat) : BSim P g (Engine.rchUnlink n) (Engine.rchUnlink n) := by
  intro s; unfold Engine.rchUnlink; bsim
  split <;> bsim
  split <;> bsim
  split <;> bsim
macro_rules | `(tactic| bsim_leaf) => `(tactic| with_reducible exact BSim.rchUnlink _)

theorem BSim.rchRemove (n : Nat) : BSim P g (Engine.rchRemove n) (Engine.rchRemove n) := by
  intro s; unfold Engine.rchRemove; bsim
macro_rules | `(tactic| bsim_leaf) => `(tactic| with_reducible exact BSim.rchRemove _)

theorem BSim.rchRemoveMin : BSim P g Engine.rchRemoveMin Engine.rchRemoveMin := by
  intro s; unfold Engine.rchRemoveMin; bsim
  split <;> bsim
macro_rules | `(tactic| bsim_leaf) => `(tactic| with_reducible exact BSim.rchRemoveMin)

theorem BSim.unlink (fuel : Nat) :
    (∀ n, BSim P g (becameUnnecessary fuel n) (becameUnnecessary fuel n)) ∧
    (∀ n, BSim P g (checkIfUnnecessary fuel n) (checkIfUnnecessary fuel n)) ∧
    (∀ n, BSim P g (removeChildren fuel n) (removeChildren fuel n)) := by
  induction fuel with
  | zero =>
    refine ⟨?_, ?_, ?_⟩
    · intro n s; unfold becameUnnecessary; bsim
    · intro n s; unfold checkIfUnnecessary; bsim
    · intro n s; unfold removeChildren; bsim
  | succ fuel ih =>
    refine ⟨?_, ?_, ?_⟩
    · intro n s
      unfold becameUnnecessary
      bsim
      all_goals first
        | exact ih.2.2 _ _
        | bsim_kind
    · intro n s
      unfold checkIfUnnecessary
      bsim
      all_goals exact ih.1 _ _
    · intro n s
      unfold removeChildren
      bsim
      all_goals exact ih.2.1 _ _

theorem BSim.becameUnnecessary (fuel n : Nat) :
    BSim P g (Engine.becameUnnecessary fuel n) (Engine.becameUnnecessary fuel n) := (BSim.unlink fuel).1 n
theorem BSim.checkIfUnnecessary (fuel n : Nat) :
    BSim P g (Engine.checkIfUnnecessary fuel n) (Engine.checkIfUnnecessary fuel n) := (BSim.unlink fuel).2.1 n
theorem BSim.removeChildren (fuel n : Nat) :
    BSim P g (Engine.removeChildren fuel n) (Engine.removeChildren fuel n) := (BSim.unlink fuel).2.2 n
macro_rules | `(tactic| bsim_leaf) => `(tactic| with_reducible exact BSim.becameUnnecessary _ _)
macro_rules | `(tactic| bsim_leaf) => `(tactic| with_reducible exact BSim.checkIfUnnecessary _ _)
macro_rules | `(tactic| bsim_leaf) => `(tactic| with_reducible exact BSim.removeChildren _ _)

/-- by hand: `Fr` says that nothing is pending, so both runs are `pure ()` (or both are out of fuel) -/
theorem BSim.propagateInvalidity (fuel : Nat) :
    BSim P g (Engine.propagateInvalidity fuel) (Engine.propagateInvalidity fuel) := by
  intro s hp
  have hn := Keeps.fr hp
  cases fuel with
  | zero =>
    refine ⟨fun r s' hr => ?_, fun r t hr => ?_⟩
    · unfold Engine.propagateInvalidity at hr; cases hr
    · unfold Engine.propagateInvalidity at hr; cases hr
  | succ fuel =>
    have e1 : (Engine.propagateInvalidity (fuel + 1)).run.run s = (.ok (), s) := by
      unfold Engine.propagateInvalidity
      rw [run_bind_get, hn.pinv]; rfl
    have e2 : (Engine.propagateInvalidity (fuel + 1)).run.run (virt g s) = (.ok (), virt g s) := by
      unfold Engine.propagateInvalidity
      rw [run_bind_get, virt_propagateInvalidity, hn.pinv]; rfl
    refine ⟨fun r s' hr => ?_, fun r t hr => ?_⟩
    · rw [e1] at hr; cases hr; exact ⟨e2, hp⟩
    · rw [e2] at hr; cases hr; exact ⟨s, e1⟩
macro_rules | `(tactic| bsim_leaf) => `(tactic| with_reducible exact BSim.propagateInvalidity _)

end
end IncrVerif.Proofs.TidyH.RT
