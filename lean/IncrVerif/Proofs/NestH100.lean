import IncrVerif.Proofs.NestH109
import IncrVerif.Proofs.NestH68
import IncrVerif.Proofs.StepStamp
import IncrVerif.Proofs.Sched13
/-!
# Total correctness of the drain when the graph GROWS during the drain, part 1: potential, node-count monotonicity, one step

* `HasRoomG need N fuel s'`, `LcStepTotG need`, `DrainTotG need`: the contracts of `T2x.lean` with the fuel bound `need : Nat → Nat` as a parameter
  (`HasRoom = HasRoomG needFuel` etc. by `rfl`).  The drain calls the steps with LESS fuel than it has itself, so the bound of the drain must be larger
  than the bound of the steps (`need1 sz + sz + 1 ≤ need2 sz`): with one and the same `needFuel` for both contracts `LcStepTot → DrainTot` is not provable.
* `T2g.unrun_le`, `T2g.unrun_lt`: the potential `unrun s + (M - s.nodes.size)` never goes up along a `FrameB` step and goes down when a node gets its stamp
  (stated without subtraction: `unrun s' + s.nodes.size (+ 1) ≤ unrun s + s'.nodes.size`).
* `T2g.recomputeOne_size`, `T2g.recompute_size`, `T2g.drainHeap_size`: the node count only grows, for ANY outcome (from the drain invariant).
* `T2g.pop_DT`, `T2g.step_tot`: `remove_min` keeps `DT`; one `recomputeOne` on the current node returns and keeps `DT` if the state it ends in has room.
-/
namespace IncrVerif.Proofs.NestH
open IncrVerif.Engine IncrVerif.Driver IncrVerif.Proofs IncrVerif.Proofs.Step IncrVerif.Proofs.Sched IncrVerif.Proofs.Quiet
open IncrVerif.Proofs.BindH

/-! ## the contracts, with the fuel bound as a parameter -/

/-- the room proviso on the final state, for the fuel bound `need` -/
def HasRoomG (need : Nat → Nat) (N fuel : Nat) (s' : State) : Prop := s'.nodes.size ≤ N ∧ need s'.nodes.size ≤ fuel

/-- CONTRACT (parametrised): a run of a change detector returns if the state it ends in has room for `need` -/
def LcStepTotG (need : Nat → Nat) (env : Env) (N : Nat) : Prop :=
  ∀ (fuel n b : Nat) (s : State), DInv env s (some n) → DT env N s → (s.nodeD n).kind = .bindLhsChange b →
    TotIf (recomputeOne env fuel n) s (HasRoomG need N fuel) (fun _ s' => DT env N s')

/-- CONTRACT (parametrised): the drain returns if the state it ends in has room for `need` -/
def DrainTotG (need : Nat → Nat) (env : Env) (N : Nat) : Prop :=
  ∀ (fuel : Nat) (s : State), DInv env s none → DT env N s →
    TotIf (drainHeap env fuel) s (HasRoomG need N fuel) (fun _ s' => DT env N s')

theorem hasRoomG_needFuel (N fuel : Nat) (s' : State) : HasRoomG needFuel N fuel s' = HasRoom N fuel s' := rfl
theorem lcStepTotG_needFuel (env : Env) (N : Nat) : LcStepTotG needFuel env N = LcStepTot env N := rfl
theorem drainTotG_needFuel (env : Env) (N : Nat) : DrainTotG needFuel env N = DrainTot env N := rfl

namespace T2g

/-! ## the potential -/

/-- the potential `unrun s + (M - s.nodes.size)` does not go up: a new node adds at most one to `unrun` -/
theorem unrun_le {s s' : State} (f : FrameB s s') (st : Stamps s) :
    unrun s' + s.nodes.size ≤ unrun s + s'.nodes.size := by
  obtain ⟨k, hk⟩ : ∃ k, s'.nodes.size = s.nodes.size + k := ⟨s'.nodes.size - s.nodes.size, by have := f.grow; omega⟩
  unfold unrun
  rw [hk, List.range_add, List.countP_append, f.stabNum]
  have h1 : (List.range s.nodes.size).countP (fun m => decide ((s'.nodeD m).recomputedAt < s.stabNum)) ≤
      (List.range s.nodes.size).countP (fun m => decide ((s.nodeD m).recomputedAt < s.stabNum)) := by
    apply countP_le_of_imp
    intro m _ hm
    have hm' := of_decide_eq_true hm
    apply decide_eq_true
    have h2 := (st.node m).1
    by_cases e : (s.nodeD m).recomputedAt = s.stabNum
    · have := (f.ran m e).1; omega
    · omega
  have h2 := List.countP_le_length (p := fun m => decide ((s'.nodeD m).recomputedAt < s.stabNum))
    (l := List.map (fun x => s.nodes.size + x) (List.range k))
  rw [List.length_map, List.length_range] at h2
  omega

/-- … and goes down when an old node gets its stamp -/
theorem unrun_lt {s s' : State} (f : FrameB s s') (st : Stamps s) {n : Nat} (hn : n < s.nodes.size)
    (h0 : (s.nodeD n).recomputedAt < s.stabNum) (h1 : (s'.nodeD n).recomputedAt = s.stabNum) :
    unrun s' + s.nodes.size + 1 ≤ unrun s + s'.nodes.size := by
  obtain ⟨k, hk⟩ : ∃ k, s'.nodes.size = s.nodes.size + k := ⟨s'.nodes.size - s.nodes.size, by have := f.grow; omega⟩
  unfold unrun
  rw [hk, List.range_add, List.countP_append, f.stabNum]
  have h1 : (List.range s.nodes.size).countP (fun m => decide ((s'.nodeD m).recomputedAt < s.stabNum)) <
      (List.range s.nodes.size).countP (fun m => decide ((s.nodeD m).recomputedAt < s.stabNum)) := by
    refine countP_lt_of_imp _ _ _ ?_ n (List.mem_range.2 hn) (decide_eq_true h0) (decide_eq_false (by omega))
    intro m _ hm
    have hm' := of_decide_eq_true hm
    apply decide_eq_true
    have h2 := (st.node m).1
    by_cases e : (s.nodeD m).recomputedAt = s.stabNum
    · have := (f.ran m e).1; omega
    · omega
  have h2 := List.countP_le_length (p := fun m => decide ((s'.nodeD m).recomputedAt < s.stabNum))
    (l := List.map (fun x => s.nodes.size + x) (List.range k))
  rw [List.length_map, List.length_range] at h2
  omega

/-! ## the node count only grows, for any outcome -/

theorem recomputeOne_size {env : Env} {fuel n : Nat} {s s' : State} {r : Except Panic (Option Nat)}
    (I : DInv env s (some n)) (h : (recomputeOne env fuel n).run.run s = (r, s')) : s.nodes.size ≤ s'.nodes.size :=
  (recomputeOne_stamp env fuel n s s' _ r (some_of_lt I.cur_facts.2.1) h).2.2.2

theorem recompute_size {env : Env} : ∀ (fuel n : Nat) (s s' : State) (r : Except Panic Unit), DInv env s (some n) → Aux2 env s →
    (recompute env fuel n).run.run s = (r, s') → s.nodes.size ≤ s'.nodes.size := by
  intro fuel
  induction fuel with
  | zero =>
    intro n s s' r _ _ h
    unfold recompute at h
    rw [run_throw] at h
    cases h
    exact Nat.le_refl _
  | succ fuel ih =>
    intro n s s' r I A h
    unfold recompute at h
    rcases h1 : (recomputeOne env fuel n).run.run s with ⟨r1, s1⟩
    have hs1 := recomputeOne_size I h1
    rw [run_bind_of h1] at h
    cases r1 with
    | error e =>
      dsimp only at h
      cases h
      exact hs1
    | ok r1 =>
      dsimp only at h
      obtain ⟨I1, A1, -, -, -⟩ := recomputeOne_invB2 (lcStepsOK_F2' env) I A h1
      cases r1 with
      | none =>
        have : s' = s1 := by
          have h' : (pure () : M Unit).run.run s1 = (r, s') := h
          rw [run_pure] at h'
          cases h'; rfl
        rw [this]; exact hs1
      | some p =>
        exact Nat.le_trans hs1 (ih p s1 s' r I1 A1 h)

theorem drainHeap_size {env : Env} : ∀ (fuel : Nat) (s s' : State) (r : Except Panic Unit), DInv env s none → Aux2 env s →
    (drainHeap env fuel).run.run s = (r, s') → s.nodes.size ≤ s'.nodes.size := by
  intro fuel
  induction fuel with
  | zero =>
    intro s s' r _ _ h
    unfold drainHeap at h
    rw [run_throw] at h
    cases h
    exact Nat.le_refl _
  | succ fuel ih =>
    intro s s' r I A h
    unfold drainHeap at h
    obtain ⟨r1, s1, h1⟩ := rchRemoveMin_ok I.heap
    rw [run_bind_of h1] at h
    dsimp only at h
    cases r1 with
    | none =>
      have hp := rchRemoveMin_inv I.heap h1
      simp only at hp
      have : s' = s1 := by
        have h' : (pure () : M Unit).run.run s1 = (r, s') := h
        rw [run_pure] at h'
        cases h'; rfl
      rw [this, hp.1]
      exact Nat.le_refl _
    | some n =>
      obtain ⟨I1, f1⟩ := pop_invB I h1
      have A1 := (lcStepsOK_F2' env).pop s s1 n I A h1
      rcases h2 : (recompute env fuel n).run.run s1 with ⟨r2, s2⟩
      have hs2 := recompute_size fuel n s1 s2 r2 I1 A1 h2
      have h' : (recompute env fuel n >>= fun _ => drainHeap env fuel).run.run s1 = (r, s') := h
      rw [run_bind_of h2] at h'
      cases r2 with
      | error e =>
        dsimp only at h'
        cases h'
        exact Nat.le_trans f1.grow hs2
      | ok u =>
        dsimp only at h'
        obtain ⟨I2, A2, -⟩ := recompute_invB2 (lcStepsOK_F2' env) fuel n s1 s2 I1 A1 h2
        exact Nat.le_trans f1.grow (Nat.le_trans hs2 (ih s2 s' r I2 A2 h'))

theorem DT.aux {env : Env} {N : Nat} {s : State} (D : DT env N s) : Aux2 env s := by
  obtain ⟨rk, A, -⟩ := D
  exact ⟨rk, A⟩

/-! ## `remove_min` keeps `DT` -/

theorem pop_DT {env : Env} {N : Nat} {s s1 : State} {n : Nat} (hi : HeapInv s)
    (hr : rchRemoveMin.run.run s = (.ok (some n), s1)) (D : DT env N s) : DT env N s1 := by
  obtain ⟨rk, A, hb, H, L⟩ := D
  have hpop := rchRemoveMin_inv hi hr
  simp only at hpop
  obtain ⟨-, -, -, hs1, hq⟩ := hpop
  have hnode : ∀ m, s1.nodeD m =
      if n = m ∧ m < s.nodes.size then { s.nodeD m with heightInRch := -1 } else s.nodeD m := by
    intro m
    rw [hs1]
    exact nodeD_modify { s with rch := s1.rch } n m (fun x => { x with heightInRch := -1 })
  have hshape : ∀ m, SameShape (s.nodeD m) (s1.nodeD m) := by
    intro m; rw [hnode]; split <;> exact ⟨rfl, rfl, rfl, rfl, rfl, rfl, rfl, rfl⟩
  have hsz : s1.nodes.size = s.nodes.size := by rw [hs1]; simp
  have hahh : s1.ahh = s.ahh := by rw [hs1]
  refine ⟨rk, pop_F2 hi hr A, ?_, pop_rhsRan hi hr H, ?_⟩
  · intro m hm ho
    rw [isNecessary_of_shape hshape] at hm
    rw [(hshape m).height, hsz]
    exact hb m hm ho
  · exact ⟨by rw [hahh]; exact L.ahh, by rw [maxAllowed_congr hq]; exact L.rch⟩

/-! ## one step -/

/-- the kind of the current node of the drain invariant -/
theorem cur_kind {env : Env} {s : State} {n : Nat} (I : DInv env s (some n)) :
    (StaticKind env (s.nodeD n).kind ∨ ∃ b lc, (s.nodeD n).kind = .bindMain b lc) ∨
      ∃ b, (s.nodeD n).kind = .bindLhsChange b := by
  obtain ⟨-, hnlt, hnv, -, -⟩ := I.cur_facts
  have hB := (I.graph.node n hnlt hnv).1
  cases hk : (s.nodeD n).kind <;> rw [hk] at hB <;>
    first
    | exact Or.inl (Or.inl hB)
    | exact Or.inl (Or.inr ⟨_, _, rfl⟩)
    | exact Or.inr ⟨_, rfl⟩

/-- **one `recomputeOne` of the drain**: whatever its outcome, if the state it ends in has room (for the bound `need` of the runs of change detectors,
and at least one unit of fuel) then it returned, and `DT` holds again -/
theorem step_tot {need : Nat → Nat} {env : Env} {N : Nat} (L : LcStepTotG need env N) {fuel n : Nat} {s s1 : State}
    {r1 : Except Panic (Option Nat)} (I : DInv env s (some n)) (D : DT env N s)
    (h : (recomputeOne env fuel n).run.run s = (r1, s1)) (hN : s1.nodes.size ≤ N) (hf : need s1.nodes.size ≤ fuel) (hf1 : 1 ≤ fuel) :
    ∃ r, r1 = .ok r ∧ DT env N s1 := by
  rcases cur_kind I with hk | ⟨b, hk⟩
  · obtain ⟨rk, A, hb, H, Lm⟩ := D
    have hsz := recomputeOne_size I h
    have R : Room N s := Lm.room (by omega)
    obtain ⟨r, s1', hrun, hb1, R1⟩ := recomputeOne_static_total2' I A H hb R hk hf1
    rw [hrun] at h
    cases h
    obtain ⟨hn, -, -, -, -⟩ := I.cur_facts
    exact ⟨r, rfl, rk, recomputeOne_stepB_F2 I.graph I.heap hn hk I.kids_values hrun A, hb1,
      recomputeOne_static_rhsRan I A hk hrun H, Room.lim R1⟩
  · exact L fuel n b s I D hk r1 s1 h ⟨hN, hf⟩

end T2g
end IncrVerif.Proofs.NestH
