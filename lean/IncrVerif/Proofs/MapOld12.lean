import IncrVerif.Proofs.MapOld11
import IncrVerif.Proofs.MapOld10
/-!
# map_with_old fragment: one `recomputeOne` on the current node of the drain invariant

* a node that is not a map_with_old node: the actual step is simulated by the step of the virtual static engine
  (`step_static_node`);
* a map_with_old node (`step_mwo_node`): no simulation (the actual node fires iff the machine says so); the step relation
  `Sched.StepRel` of the virtual states is assembled from the actual run and the machine contract.  When the machine
  reports "no change" on its very first run (the node has no value yet) the virtual pre-state is patched
  (`Inv.patch`: pretend the node already stored the value — all its parents are stale anyway).
-/
namespace IncrVerif.Proofs.MapOldH
open IncrVerif.Engine IncrVerif.Proofs IncrVerif.Proofs.Step IncrVerif.Proofs.Sched IncrVerif.Proofs.Quiet

variable {env : Env} {C : Val → Prop} {sp : Nat → Val → Val} {s : State}

/-- the runtime facts of the simulation follow from the fragment -/
theorem WFrag.fr {G : Nat → Prop} (F : WFrag env G s) (hp : s.propagateInvalidity = []) : Fr s :=
  ⟨F.not_expert, F.valid', hp, F.not_mapRef⟩

/-- the children of the current node have values -/
theorem Inv.kids_some {n : Nat} (I : Inv (virtEnv env sp) (virt s) (some n)) :
    ∀ a, a ∈ kidsW (s.nodeD n).kind → ∃ v, (s.nodeD a).value = some v := by
  intro a ha
  obtain ⟨vals, hvals⟩ := I.kids_values
  rw [virt_kids, virt_plainVals] at hvals
  exact evalArgs_some_mem _ _ _ hvals a ha

/-- the value of the defining expression of a virtual node satisfies `C` -/
theorem target_C (V : ValOK env C sp) (F : WFrag env (Good env C sp) s) (M : MInv env C s) {m : Nat} {w : Val}
    (hm : m < s.nodes.size) (h : Target (virtEnv env sp) (virt s) m w) : C w := by
  have hK := F.kind m hm
  have hL := M.lits m hm
  unfold Target at h
  rw [virt_nodeD, virtNode_kind] at h
  cases hk : (s.nodeD m).kind <;> rw [hk] at h hK hL <;> simp only [virtKind] at h
  case const v => rw [h]; exact hL
  case var c =>
    obtain ⟨vc, hvc, rfl⟩ := h
    exact M.vars c vc hvc
  case map f args =>
    obtain ⟨vals, hvals, rfl⟩ := h
    rw [virt_plainVals] at hvals
    rw [virtEnv_fn_real env sp hK.1]
    exact V.fn f vals (plainVals_C M.vals args vals hvals)
  case fold f init cs =>
    obtain ⟨vals, hvals, rfl⟩ := h
    rw [virt_plainVals] at hvals
    rw [virtEnv_foldStep]
    exact foldl_C V f vals init hL (plainVals_C M.vals cs vals hvals)
  case mapWithOld g i =>
    obtain ⟨vals, hvals, rfl⟩ := h
    rw [virt_plainVals] at hvals
    rw [virtEnv_fn_mach env sp hK.1]
    apply V.spec
    have hc := plainVals_C M.vals [i] vals hvals
    simp only [plainVals, evalArgs] at hvals
    cases hx : (s.nodeD i).value with
    | none => rw [hx] at hvals; simp at hvals
    | some x =>
      rw [hx] at hvals
      simp at hvals
      subst hvals
      exact hc x (List.mem_cons_self ..)
  all_goals exact hK.elim

/-- a node of the fragment that is not a map_with_old node computes what `Step.Computes` says -/
theorem computes_of_frag {G : Nat → Prop} {n : Nat} (F : WFrag env G s) (hn : n < s.nodes.size)
    (hk : ∀ g i, (s.nodeD n).kind ≠ .mapWithOld g i)
    (hvar : ∀ c, (s.nodeD n).kind = .var c → ∃ vc, s.vars[c]? = some vc)
    (hkids : ∀ a, a ∈ kidsW (s.nodeD n).kind → (s.value env a).isSome = true) :
    ∃ v evs, Computes env s n (s.nodeD n) v (s.nodeD n).oldState evs := by
  have hR := F.kind n hn
  cases hkd : (s.nodeD n).kind with
  | const w => exact ⟨w, [], Computes.const w hkd⟩
  | var c =>
    obtain ⟨vc, hvc⟩ := hvar c hkd
    exact ⟨vc.value, [], Computes.var c vc hkd hvc⟩
  | map f args =>
    rw [hkd] at hR hkids
    obtain ⟨vals, hvals⟩ := MapRefH.valuesOf_of_isSome env s args (fun a ha => hkids a ha)
    by_cases hf : f < fnZip
    · exact ⟨_, _, Computes.map f args vals hkd hf hvals (hR.2 hf vals)⟩
    · refine ⟨_, [], Computes.mapBuiltin f args vals hkd hf ?_ hvals⟩
      have := hR.1; unfold woBase at this; unfold fnPerKey; omega
  | fold f init cs =>
    rw [hkd] at hkids
    obtain ⟨vals, hvals⟩ := MapRefH.valuesOf_of_isSome env s cs (fun a ha => hkids a ha)
    exact ⟨_, _, Computes.fold f init cs vals hkd hvals⟩
  | mapWithOld g i => exact absurd hkd (hk g i)
  | mapRef _ _ => rw [hkd] at hR; exact hR.elim
  | bindLhsChange _ => rw [hkd] at hR; exact hR.elim
  | bindMain _ _ => rw [hkd] at hR; exact hR.elim
  | expert _ => rw [hkd] at hR; exact hR.elim

/-- what a step of node `n` leaves of the fragment and the value-level invariant: everything, given what `n` stores
afterwards -/
theorem frag_minv_after {n : Nat} {s' : State} {v : Val} (F : WFrag env (Good env C sp) s) (M : MInv env C s)
    (hsz : s'.nodes.size = s.nodes.size) (hkind : ∀ m, (s'.nodeD m).kind = (s.nodeD m).kind)
    (hvalid : ∀ m, (s'.nodeD m).valid = (s.nodeD m).valid)
    (hval : ∀ m, m ≠ n → (s'.nodeD m).value = (s.nodeD m).value)
    (hold : ∀ m, m ≠ n → (s'.nodeD m).oldState = (s.nodeD m).oldState)
    (hvars : s'.vars = s.vars) (hpc : s'.panicCountdown = none)
    (hvn : (s'.nodeD n).value = some v) (hC : C v)
    (hmach : ∀ g i, (s.nodeD n).kind = .mapWithOld g i → MReach env C g (s'.nodeD n).oldState (some v)) :
    WFrag env (Good env C sp) s' ∧ MInv env C s' := by
  refine ⟨⟨hpc, fun m hm => by rw [hkind]; exact F.kind m (by rw [← hsz]; exact hm),
    fun m hm => by rw [hvalid]; exact F.valid m (by rw [← hsz]; exact hm),
    fun m hm => by rw [hkind]; exact F.back m (by rw [← hsz]; exact hm)⟩, ?_, ?_, ?_, ?_⟩
  · intro m w hw
    by_cases hmn : m = n
    · subst hmn; rw [hvn] at hw; cases hw; exact hC
    · rw [hval m hmn] at hw; exact M.vals m w hw
  · intro m hm; rw [hkind]; exact M.lits m (by rw [← hsz]; exact hm)
  · rw [hvars]; exact M.vars
  · intro m g i hk
    rw [hkind] at hk
    by_cases hmn : m = n
    · subst hmn; rw [hvn]; exact hmach g i hk
    · rw [hval m hmn, hold m hmn]; exact M.mach m g i hk

/-- **one step, not a map_with_old node.** -/
theorem step_static_node {fuel n : Nat} {s' : State} {r : Option Nat} (V : ValOK env C sp)
    (D : DInvW env C sp s (some n)) (hk : ∀ g i, (s.nodeD n).kind ≠ .mapWithOld g i)
    (h : (recomputeOne env fuel n).run.run s = (.ok r, s')) :
    (recomputeOne (virtEnv env sp) fuel n).run.run (virt s) = (.ok r, virt s') ∧
      WFrag env (Good env C sp) s' ∧ MInv env C s' ∧ s'.propagateInvalidity = [] := by
  have F := D.frag
  have I := D.inv
  have gr := I.graph
  obtain ⟨hnv, -⟩ := I.cur n rfl
  obtain ⟨hlt, -, -, -, -⟩ := gr.nec n hnv
  rw [virt_size] at hlt
  have hkids : ∀ a, a ∈ kidsW (s.nodeD n).kind → (s.value env a).isSome = true := by
    intro a ha
    obtain ⟨w, hw⟩ := Inv.kids_some I a ha
    rw [F.value a, hw]; rfl
  have hvar : ∀ c, (s.nodeD n).kind = .var c → ∃ vc, s.vars[c]? = some vc := by
    intro c hc
    exact gr.var n c hnv (by rw [virt_nodeD, virtNode_kind, hc]; rfl)
  obtain ⟨hsim, hfr'⟩ := recomputeOne_sim (sp := sp) F (F.fr D.pinv) hlt hk hvar hkids h
  refine ⟨hsim, ?_⟩
  obtain ⟨v, ch, ht, R⟩ := recomputeOne_static gr I.heap hnv I.kids_values hsim
  obtain ⟨v0, evs, hc⟩ := computes_of_frag F hlt hk hvar hkids
  have P := recomputeOne_post env fuel n s s' _ v0 _ evs r (some_of_lt hlt) (F.valid n hlt) F.pc hc h
  have hvn : (s'.nodeD n).value = some v := by
    have := R.value; rwa [virt_nodeD, virtNode_value] at this
  obtain ⟨F', M'⟩ := frag_minv_after (v := v) F D.m P.frame.size P.frame.kind P.frame.valid P.frame.value
    P.frame.oldState P.frame.vars P.pc hvn (target_C V F D.m hlt ht)
    (fun g i hg => absurd hg (hk g i))
  exact ⟨F', M', hfr'.pinv⟩

/-! ## a map_with_old node -/

/-- the state in which the notifications of a map_with_old step start -/
def mwoX (n : Nat) (new σ' : Val) (es : List Event) (s : State) : State :=
  setWithOld n new σ' (logged es (started n s))

theorem mwoX_nodeD (n m : Nat) (new σ' : Val) (es : List Event) (s : State) (hn : n < s.nodes.size) :
    (mwoX n new σ' es s).nodeD m =
      if m = n then { s.nodeD n with recomputedAt := s.stabNum, value := some new, oldState := σ' }
      else s.nodeD m := by
  unfold mwoX setWithOld
  rw [nodeD_modify]
  have e : ∀ k, (logged es (started n s)).nodeD k = (started n s).nodeD k := fun _ => rfl
  have hsz : (logged es (started n s)).nodes.size = s.nodes.size := by simp [logged, started]
  by_cases hm : m = n
  · subst hm
    rw [if_pos ⟨rfl, by rw [hsz]; exact hn⟩, if_pos rfl, e, started_nodeD, if_pos ⟨rfl, hn⟩]
  · rw [if_neg (fun h => hm h.1.symm), if_neg hm, e, started_nodeD, if_neg (fun h => hm h.1.symm)]

theorem mwoX_size (n : Nat) (new σ' : Val) (es : List Event) (s : State) :
    (mwoX n new σ' es s).nodes.size = s.nodes.size := by
  simp [mwoX, setWithOld, logged, started]

/-- the virtual image of that state differs from a virtual pre-state `P` (the virtual state itself, or patched at `n`)
only in the value and stamps of node `n` -/
theorem mwoX_upd {n : Nat} {new σ' : Val} {es : List Event} (P : State) (hn : n < s.nodes.size)
    (hpc : s.panicCountdown = none) (hP : ∀ m, ∃ w, P.nodeD m = { (virt s).nodeD m with value := w })
    (hPo : ∀ m, m ≠ n → P.nodeD m = (virt s).nodeD m)
    (hsz : P.nodes.size = s.nodes.size) (hvars : P.vars = s.vars) (hst : P.stabNum = s.stabNum) (hr : P.rch = s.rch) :
    Upd n P (virt (mwoX n new σ' es s)) := by
  have hX := fun m => mwoX_nodeD n m new σ' es s hn
  refine ⟨by rw [virt_size, mwoX_size, hsz], hvars.symm, hst.symm, hpc, hr.symm, fun m hm => ?_, ?_, ?_⟩
  · rw [virt_nodeD, hX, if_neg hm, hPo m hm, virt_nodeD]
  · obtain ⟨w, hw⟩ := hP n
    rw [virt_nodeD, hX, if_pos rfl, hw, virt_nodeD]
    exact ⟨rfl, rfl, rfl, rfl, rfl, rfl, rfl, rfl⟩
  · obtain ⟨w, hw⟩ := hP n
    rw [virt_nodeD, hX, if_pos rfl, hw, virt_nodeD]
    rfl

theorem calm_virt {s s' : State} (c : Calm s s') : Calm (virt s) (virt s') where
  status := c.status
  setDuringStab := c.setDuringStab
  deadVars := c.deadVars
  newObservers := c.newObservers
  disallowedObservers := c.disallowedObservers
  num m := by rw [virt_nodeD, virt_nodeD, virtNode_num, virtNode_num]; exact c.num m
  has h := c.has (fun m => by have := h m; rwa [virt_nodeD, virtNode_num] at this)

theorem stateKeyD_virt (s : State) : stateKeyD (virt s) = stateKeyD s := rfl

theorem keyD_virt {s s' : State} (c : KeyD s s') : KeyD (virt s) (virt s') := by
  unfold KeyD at *; rw [stateKeyD_virt, stateKeyD_virt]; exact c

/-- what one step on the current node establishes (the conclusions the drain needs) -/
structure StepOut (env : Env) (C : Val → Prop) (sp : Nat → Val → Val) (n : Nat) (r : Option Nat) (s s' : State) :
    Prop where
  inv : Inv (virtEnv env sp) (virt s') r
  frame : Frame (virt s) (virt s')
  unnec : UnnecOK (virtEnv env sp) (virt s) → UnnecOK (virtEnv env sp) (virt s')
  ran : ((virt s').nodeD n).recomputedAt = s.stabNum
  frag : WFrag env (Good env C sp) s'
  m : MInv env C s'
  pinv : s'.propagateInvalidity = []
  calm : Calm (virt s) (virt s')
  keyD : KeyD (virt s) (virt s')

theorem frame_of_stepRel {n : Nat} {v : Val} {ch : Bool} {r : Option Nat} {S S' : State}
    (R : StepRel n v ch r S S') : Frame S S' := by
  refine ⟨R.size, R.vars, R.stabNum, R.shapes, ?_, R.qsize⟩
  intro m hm
  by_cases hmn : m = n
  · subst hmn; exact R.recomputedAt
  · rw [(R.other m hmn).recomputedAt]; exact hm

set_option maxHeartbeats 1000000 in
/-- **one step, a map_with_old node.** -/
theorem step_mwo_node {fuel n g i : Nat} {s' : State} {r : Option Nat} (V : ValOK env C sp)
    (D : DInvW env C sp s (some n)) (hk : (s.nodeD n).kind = .mapWithOld g i)
    (h : (recomputeOne env fuel n).run.run s = (.ok r, s')) : StepOut env C sp n r s s' := by
  have F := D.frag
  have I := D.inv
  have M := D.m
  have gr := I.graph
  have hi := I.heap
  obtain ⟨hnv, -⟩ := I.cur n rfl
  have hlt := F.lt_of_mwo hk
  have hnn := some_of_lt hlt
  have hK := F.kind n hlt
  rw [hk] at hK
  obtain ⟨hW, hG⟩ := hK
  -- the input
  obtain ⟨x, hx⟩ := Inv.kids_some I i (by rw [hk]; simp [kidsW])
  have hxv : s.value env i = some x := by rw [F.value i]; exact hx
  have hCx : C x := M.vals i x hx
  have hreach := M.mach n g i hk
  -- the machine
  generalize hw : env.withOld g (s.nodeD n).oldState (s.nodeD n).value x = w at *
  have hout : w.2.1 = sp g x := by rw [← hw]; exact hG.out _ _ hreach x hCx
  have hflag : w.2.2 = false → (s.nodeD n).value = none ∨ (s.nodeD n).value = some (sp g x) := by
    rw [← hw]; exact hG.flag _ _ hreach x hCx
  have hreach' : MReach env C g w.1 (some w.2.1) := by rw [← hw]; exact MReach.step hreach hCx
  obtain ⟨es, hrun⟩ := recomputeOne_mwo_run env fuel n s (s.nodeD n) g i x hnn (F.valid n hlt) hk hxv F.pc
  rw [hw] at hrun
  rw [hrun] at h
  -- the state in which the notifications start
  have hXe : setWithOld n w.2.1 w.1 (logged es (started n s)) = mwoX n w.2.1 w.1 es s := rfl
  rw [hXe] at h
  have hX := fun m => mwoX_nodeD n m w.2.1 w.1 es s hlt
  have hXsz := mwoX_size n w.2.1 w.1 es s
  have hXk : ∀ m, ((mwoX n w.2.1 w.1 es s).nodeD m).kind = (s.nodeD m).kind := by
    intro m; rw [hX]; split
    · rename_i e; rw [e]
    · rfl
  have hXv : ∀ m, ((mwoX n w.2.1 w.1 es s).nodeD m).valid = (s.nodeD m).valid := by
    intro m; rw [hX]; split
    · rename_i e; rw [e]
    · rfl
  have hXval : ∀ m, m ≠ n → ((mwoX n w.2.1 w.1 es s).nodeD m).value = (s.nodeD m).value := by
    intro m hm; rw [hX, if_neg hm]
  have hXold : ∀ m, m ≠ n → ((mwoX n w.2.1 w.1 es s).nodeD m).oldState = (s.nodeD m).oldState := by
    intro m hm; rw [hX, if_neg hm]
  have hXn : (mwoX n w.2.1 w.1 es s).nodeD n =
      { s.nodeD n with recomputedAt := s.stabNum, value := some w.2.1, oldState := w.1 } := by
    rw [hX, if_pos rfl]
  have hCv : C (sp g x) := V.spec g x hCx
  -- the target of the virtual node
  have htarget : Target (virtEnv env sp) (virt s) n (sp g x) := by
    unfold Target
    have hkv : ((virt s).nodeD n).kind = .map (woBase + enc g) [i] := by
      rw [virt_nodeD, virtNode_kind, hk]; rfl
    rw [hkv]
    refine ⟨[x], ?_, by rw [virtEnv_fn_mach env sp hW]; rfl⟩
    rw [virt_plainVals]
    simp only [plainVals, evalArgs, hx]
  -- the actual frame of the first half
  have c0 : Calm s (mwoX n w.2.1 w.1 es s) :=
    ((Calm.started n s).trans (Calm.logged es _)).trans (Calm.modNode _ n _ (fun _ => rfl))
  have k0 : KeyD s (mwoX n w.2.1 w.1 es s) := rfl
  have hXpinv : (mwoX n w.2.1 w.1 es s).propagateInvalidity = [] := D.pinv
  have hXvars : (mwoX n w.2.1 w.1 es s).vars = s.vars := rfl
  have hXpc : (mwoX n w.2.1 w.1 es s).panicCountdown = none := F.pc
  obtain ⟨FX, MX⟩ := frag_minv_after (n := n) (v := sp g x) F M hXsz hXk hXv hXval hXold hXvars hXpc
    (by rw [hXn]; show some w.2.1 = _; rw [hout]) hCv
    (fun g' i' hk' => by
      rw [hk] at hk'; cases hk'
      rw [hXn]; show MReach env C g w.1 (some (sp g x)); rw [← hout]; exact hreach')
  have hUself : Upd n (virt s) (virt (mwoX n w.2.1 w.1 es s)) :=
    mwoX_upd (virt s) hlt F.pc (fun m => ⟨_, rfl⟩) (fun _ _ => rfl) (virt_size s) rfl rfl rfl
  have hXnv : ((virt (mwoX n w.2.1 w.1 es s)).nodeD n).value = some (sp g x) := by
    rw [virt_nodeD, virtNode_value, hXn]; show some w.2.1 = _; rw [hout]
  have hXnr : ((virt (mwoX n w.2.1 w.1 es s)).nodeD n).recomputedAt = (virt s).stabNum := by
    rw [virt_nodeD, virtNode_recomputedAt, hXn]; rfl
  have hXnc : ((virt (mwoX n w.2.1 w.1 es s)).nodeD n).changedAt = ((virt s).nodeD n).changedAt := by
    rw [virt_nodeD, virtNode_changedAt, hXn, virt_nodeD, virtNode_changedAt]
  cases hdid : w.2.2 with
  | false =>
    rw [hdid, run_mcvm_false] at h
    cases h
    rcases hflag hdid with hnone | hsome
    · -- first run, "no change": patch the virtual pre-state
      have hvn : ((virt s).nodeD n).value = none := by rw [virt_nodeD, virtNode_value]; exact hnone
      have IP : Inv (virtEnv env sp) (setValue n (some (sp g x)) (virt s)) (some n) := Inv.patch I hvn
      have hUP : Upd n (setValue n (some (sp g x)) (virt s)) (virt (mwoX n w.2.1 w.1 es s)) := by
        refine mwoX_upd _ hlt F.pc (fun m => ?_) (fun m hm => ?_) ?_ rfl rfl rfl
        · exact setValue_nodeD_with n _ (virt s) m
        · rw [setValue_nodeD, if_neg (fun e => hm e.1.symm)]
        · rw [setValue_size, virt_size]
      have hPn : ((setValue n (some (sp g x)) (virt s)).nodeD n).value = some (sp g x) := by
        rw [setValue_nodeD, if_pos ⟨rfl, by rw [virt_size]; exact hlt⟩]
      have R : StepRel n (sp g x) false none (setValue n (some (sp g x)) (virt s))
          (virt (mwoX n w.2.1 w.1 es s)) := by
        refine stepRel_of_quiet hUP (Step.Quiet.refl _) hXnv ?_ ?_ (fun _ => ⟨hPn, rfl⟩) (hUP.heap IP.heap) rfl
          (fun m hm => Or.inl hm) (fun hc => by cases hc) (fun q hq => by cases hq)
        · rw [hXnr]; rfl
        · rw [hXnc, setValue_changedAt]; simp
      have ht' := Target.patch_self (v := sp g x) gr hnv htarget
      have fr0 : Frame (virt s) (setValue n (some (sp g x)) (virt s)) :=
        ⟨setValue_size _ _ _, rfl, rfl, fun m => setValue_shape n _ (virt s) m,
          fun m hm => by rw [setValue_recomputedAt]; exact hm, rfl⟩
      exact ⟨step_inv IP ht' R, fr0.trans (frame_of_stepRel R),
        fun hU => step_unnec (by rw [setValue_isNecessary]; exact hnv) R (UnnecOK.patch hU hnv hvn),
        R.recomputedAt, FX, MX, hXpinv, calm_virt c0, keyD_virt k0⟩
    · have R : StepRel n (sp g x) false none (virt s) (virt (mwoX n w.2.1 w.1 es s)) := by
        refine stepRel_of_quiet hUself (Step.Quiet.refl _) hXnv hXnr ?_ (fun _ => ⟨?_, rfl⟩) (hUself.heap hi) rfl
          (fun m hm => Or.inl hm) (fun hc => by cases hc) (fun q hq => by cases hq)
        · rw [hXnc]; simp
        · rw [virt_nodeD, virtNode_value]; exact hsome
      exact ⟨step_inv I htarget R, frame_of_stepRel R, fun hU => step_unnec hnv R hU, R.recomputedAt, FX, MX,
        hXpinv, calm_virt c0, keyD_virt k0⟩
  | true =>
    rw [hdid] at h
    -- the notification part is simulated by the virtual engine
    obtain ⟨hsim, hfr'⟩ := Sim.maybeChangeValueManual (sp := sp) env fuel n none true true _ (FX.fr hXpinv) r s' h
    generalize hWd : virt (mwoX n w.2.1 w.1 es s) = W at hUself hXnv hXnr hXnc hsim
    have hltv : n < (virt s).nodes.size := by rw [virt_size]; exact hlt
    have hltW : n < W.nodes.size := by rw [hUself.size]; exact hltv
    have q : Step.Quiet (touched n W) (virt s') := mcvm_true_quiet _ _ _ _ _ _ _ _ hsim
    have hUT : Upd n (virt s) (touched n W) := hUself.touched
    have eT : (touched n W).nodeD n = { W.nodeD n with changedAt := W.stabNum } := by
      rw [touched_nodeD, if_pos ⟨rfl, hltW⟩]
    have hparT : ((touched n W).nodeD n).parents = ((virt s).nodeD n).parents := hUT.shape.parents
    have hpar : ∀ q, q ∈ ((touched n W).nodeD n).parents.map (·.1) →
        ParentOK (virtEnv env sp) (touched n W) q := by
      intro q hq
      rw [hparT] at hq
      obtain ⟨⟨p', ci⟩, hmem, rfl⟩ := List.mem_map.1 hq
      have hpn := (gr.parent n p' ci hmem).1
      obtain ⟨h1, h2, h3, _, _⟩ := gr.nec p' hpn
      have sh := hUT.shapeAll p'
      exact ⟨by rw [hUT.size]; exact h1, by rw [sh.valid]; exact h2, by rw [sh.kind]; exact h3,
        by rw [hUT.nec]; exact hpn⟩
    obtain ⟨k, hret⟩ := mcvm_heap (hUT.heap hi) hpar hsim
    have hpin := mcvm_parents (virtEnv env sp) fuel n _ W (virt s') r _ (some_of_lt hltW) hsim
    have hparW : (W.nodeD n).parents = ((virt s).nodeD n).parents := hUself.shape.parents
    have R : StepRel n (sp g x) true r (virt s) (virt s') := by
      refine stepRel_of_quiet hUT q ?_ ?_ ?_ (fun hc => by cases hc) k.heap k.qsize ?_ ?_ ?_
      · rw [eT]; exact hXnv
      · rw [eT]; exact hXnr
      · rw [eT, if_pos rfl]; exact hUself.stabNum
      · intro m hm
        rcases k.only m hm with h1 | h1
        · exact Or.inl h1
        · rw [hparT] at h1; exact Or.inr ⟨rfl, h1⟩
      · intro _ q' hq'
        rw [← hparW] at hq'
        rcases hpin q' hq' with h1 | h1
        · exact Or.inl h1.2
        · exact Or.inr h1.2.1
      · intro q' hq'
        obtain ⟨h1, h2, h3⟩ := hret q' hq'
        rw [hparT] at h1
        exact ⟨rfl, h1, h2, h3⟩
    -- the actual frame of the second half
    have qa : Step.Quiet (touched n (mwoX n w.2.1 w.1 es s)) s' := mcvm_true_quiet _ _ _ _ _ _ _ _ h
    have hT := fun m => touched_nodeD n m (mwoX n w.2.1 w.1 es s)
    have hsz' : s'.nodes.size = (mwoX n w.2.1 w.1 es s).nodes.size := by
      rw [qa.size]; simp [touched]
    obtain ⟨F', M'⟩ := frag_minv_after (n := n) (v := sp g x) FX MX hsz'
      (fun m => by rw [(qa.node m).kind, hT]; split <;> rfl)
      (fun m => by rw [(qa.node m).valid, hT]; split <;> rfl)
      (fun m hm => by rw [(qa.node m).value, hT, if_neg (fun e => hm e.1.symm)])
      (fun m hm => by rw [(qa.node m).oldState, hT, if_neg (fun e => hm e.1.symm)])
      (by rw [qa.vars]; rfl) (qa.pc hXpc)
      (by rw [(qa.node n).value, hT]; split <;> (rw [hXn]; show some w.2.1 = _; rw [hout]))
      hCv
      (fun g' i' hk' => by
        rw [hXk, hk] at hk'; cases hk'
        rw [(qa.node n).oldState, hT]
        split <;> (rw [hXn]; show MReach env C g w.1 (some (sp g x)); rw [← hout]; exact hreach'))
    exact ⟨step_inv I htarget R, frame_of_stepRel R, fun hU => step_unnec hnv R hU, R.recomputedAt, F', M',
      hfr'.pinv, calm_virt (c0.trans ((PresC.maybeChangeValueManual ..).h _ _ _ h)),
      keyD_virt (KeyD.trans k0 ((PresK.maybeChangeValueManual ..).h _ _ _ h))⟩

end IncrVerif.Proofs.MapOldH
