import IncrVerif.Proofs.CutH24
import IncrVerif.Proofs.CutH23
-- Port of Proofs/Quiet19.lean to ARBITRARY cutoffs (scratch name Q19); overview in Props/C06History.lean
/-!
# Part 18: whole histories of static programs (G4)
-/
namespace IncrVerif.Proofs.CutH
open IncrVerif.Engine IncrVerif.Driver IncrVerif.Proofs IncrVerif.Proofs.Step IncrVerif.Proofs.Sched
variable {e : Bool}

/-- every observer in use reads the from-scratch evaluation of its node on the current variable values -/
def ReadsOK (env : Env) (s : State) : Prop :=
  ∀ (o : Nat) (ob : ObsRec), s.observers[o]? = some ob → ob.state = .inUse →
    ∀ k, (s.nodeD ob.node).height.toNat < k →
      ∃ v, s.tryGetValue env o = .ok v ∧ eval env s k ob.node = some v

/-- no observer is waiting to be added or unlinked -/
def ObsSettled (s : State) : Prop :=
  ∀ (o : Nat) (ob : ObsRec), s.observers[o]? = some ob → ob.state = .inUse ∨ ob.state = .unlinked

/-- every observer in use reads the stored value of its node, which exists -/
def ReadsSome (env : Env) (s : State) : Prop :=
  ∀ (o : Nat) (ob : ObsRec), s.observers[o]? = some ob → ob.state = .inUse →
    ∃ v, s.tryGetValue env o = .ok v ∧ (s.nodeD ob.node).value = some v ∧ s.isNecessary ob.node = true

theorem stabilised_obs {env : Env} {fuel : Nat} {s s' : State} (R : Stabilised env e fuel s s') :
    ObsInv s' [] [] := by
  have := R.inv.obs
  unfold ObsOK at this
  rw [R.newObservers, R.disallowedObservers] at this
  exact this

theorem stabilised_settled {env : Env} {fuel : Nat} {s s' : State} (R : Stabilised env e fuel s s') :
    ReadsSome env s' ∧ ObsSettled s' := by
  have Q' := R.inv
  have O' := stabilised_obs R
  constructor
  · intro o ob ho hst
    have hmem : o ∈ (s'.nodeD ob.node).observers := (O'.mem ob.node o).2 ⟨ob, ho, rfl, Or.inl hst⟩
    have hn : s'.isNecessary ob.node = true := by
      rw [isNecessary_iff]; right; left; exact List.ne_nil_of_mem hmem
    obtain ⟨-, -, v, hv, hread⟩ := R.settled ob.node hn
    refine ⟨v, ?_, hv, hn⟩
    unfold State.tryGetValue
    rw [Q'.alive, Q'.status, ho]
    simp only [Bool.not_true, Bool.false_eq_true, if_false, hst]
    rw [hread]
    rfl
  · intro o ob ho
    cases hst : ob.state with
    | inUse => exact Or.inl rfl
    | unlinked => exact Or.inr rfl
    | created => have := O'.created o ob ho hst; cases this
    | disallowed => have := (O'.dis o ob ho).1 hst; cases this

theorem stabilised_reads {env : Env} {fuel : Nat} {s s' : State} (R : Stabilised env true fuel s s') :
    ReadsOK env s' ∧ ObsSettled s' := by
  have Q' := R.inv
  have O' := stabilised_obs R
  refine ⟨?_, (stabilised_settled R).2⟩
  intro o ob ho hst k hk
  have hmem : o ∈ (s'.nodeD ob.node).observers := (O'.mem ob.node o).2 ⟨ob, ho, rfl, Or.inl hst⟩
  have hn : s'.isNecessary ob.node = true := by
    rw [isNecessary_iff]; right; left; exact List.ne_nil_of_mem hmem
  obtain ⟨-, -, -, hv, hs⟩ := R.values rfl ob.node hn k hk
  obtain ⟨v, hev⟩ := Option.isSome_iff_exists.1 hs
  refine ⟨v, ?_, hev⟩
  unfold State.tryGetValue
  rw [Q'.alive, Q'.status, ho]
  simp only [Bool.not_true, Bool.false_eq_true, if_false, hst]
  rw [hv, hev]
  rfl

/-- **C05 cone.** In a state satisfying the invariant a node is necessary iff it is in the cone of a linked observer. -/
theorem QInv.nec_iff_cone {env : Env} {s : State} (Q : QInv env e s) (n : Nat) :
    s.isNecessary n = true ↔ InCone s n :=
  CutH.nec_iff_cone Q.struct Q.obs n

/-- the initial state followed by a list of static actions: the invariant holds, with the flag "every cutoff ever
in force was exact" up iff every action of the history is an `ExactAction` -/
theorem history_q {env : Env} {N : Nat} {d : Bool} {acts : List Action} {s : State} {tk : Array Nat}
    (ha : ∀ a, a ∈ acts → StaticAction env a)
    (h : runActions env acts (State.init N d) #[] = .ok (s, tk)) : QInv env (acts.all ExactAction) s := by
  have := runActions_q (qinv_init env N d) ha h
  simpa using this

/-- **G4: every state reached.** If a history of static actions runs (without panic) from the initial state,
then every prefix runs, and the state it reaches satisfies the invariant. -/
theorem history_prefix {env : Env} {N : Nat} {d : Bool} {as bs : List Action} {s : State} {tk : Array Nat}
    (ha : ∀ a, a ∈ as ++ bs → StaticAction env a)
    (h : runActions env (as ++ bs) (State.init N d) #[] = .ok (s, tk)) :
    ∃ s1 tk1, runActions env as (State.init N d) #[] = .ok (s1, tk1) ∧ QInv env (as.all ExactAction) s1 ∧
      runActions env bs s1 tk1 = .ok (s, tk) := by
  obtain ⟨s1, tk1, h1, h2⟩ := runActions_prefix h
  exact ⟨s1, tk1, h1, history_q (fun a hm => ha a (List.mem_append_left _ hm)) h1, h2⟩

/-- **G4: every `stabilise` of a history.** At each `stabilise` action of a history of static actions (ANY cutoffs)
that runs from the initial state: the state `s1` before it satisfies the invariant; the `stabilise` returns a state
`s2` with all the conclusions of `stabilise_q` (invariant, nothing pending, variables unchanged, every necessary node
valid, non-stale, with a value; the drain ran no node twice and only necessary nodes); every observer in use reads
the stored value of its node; every observer is in use or unlinked; a node is necessary iff it is in the cone of an
observer in use.  If all actions before were `ExactAction`s, every observer in use reads the from-scratch value. -/
theorem history_stabilise {env : Env} {N : Nat} {d : Bool} {as bs : List Action} {s : State}
    {tk : Array Nat} (ha : ∀ a, a ∈ as ++ Action.stabilise :: bs → StaticAction env a)
    (h : runActions env (as ++ Action.stabilise :: bs) (State.init N d) #[] = .ok (s, tk)) :
    ∃ s1 tk1 s2, runActions env as (State.init N d) #[] = .ok (s1, tk1) ∧ QInv env (as.all ExactAction) s1 ∧
      (stabilise env fuelDefault).run.run s1 = (.ok (), s2) ∧
      Stabilised env (as.all ExactAction) fuelDefault s1 s2 ∧
      ReadsSome env s2 ∧ ObsSettled s2 ∧ (∀ n, s2.isNecessary n = true ↔ InCone s2 n) ∧
      (as.all ExactAction = true → ReadsOK env s2) ∧
      runActions env bs s2 tk1 = .ok (s, tk) := by
  obtain ⟨s1, tk1, h1, Q1, h2⟩ := history_prefix ha h
  simp only [runActions] at h2
  rcases hx : (stepAction env .stabilise tk1).run.run s1 with ⟨_ | r, s2⟩
  · rw [hx] at h2; cases h2
  · rw [hx] at h2
    replace h2 : runActions env bs s2 r.2 = .ok (s, tk) := h2
    have hst := step_stabilise hx
    have R := stabilise_q Q1 hst
    obtain ⟨hr, hos⟩ := stabilised_settled R
    have htk : r.2 = tk1 := by
      unfold stepAction at hx
      dsimp only at hx
      obtain ⟨u, s3, h3, h4⟩ := bind_ok_inv hx
      obtain ⟨e, -⟩ := pure_ok_inv h4
      rw [e]
    rw [htk] at h2
    refine ⟨s1, tk1, s2, h1, Q1, hst, R, hr, hos, R.inv.nec_iff_cone, ?_, h2⟩
    intro hall
    rw [hall] at R
    exact (stabilised_reads R).1

end IncrVerif.Proofs.CutH
