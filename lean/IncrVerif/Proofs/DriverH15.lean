import IncrVerif.Proofs.DriverH10
import IncrVerif.Proofs.DriverH11
/-!
# `RmSpec`, part 6: the unlinking phase and the closing phase, on abstract (virtual) states
-/
namespace IncrVerif.Proofs.DriverH
open IncrVerif.Engine IncrVerif.Driver IncrVerif.Proofs IncrVerif.Proofs.Step IncrVerif.Proofs.Sched
open IncrVerif.Proofs.ExpertH IncrVerif.Proofs.ExpertH.QR

section
variable {env : Env} {rk : Nat → Nat} {x c k fuel : Nat}

/-- `removeParent c k x ; checkIfUnnecessary fuel c` on the opened node `x` (all its `k + 1` edges recorded, the last one
going to `c`): afterwards `x` is `.linking k`, it was not touched, and the recorded children of `x` are still lower -/
theorem rm_unlink {S1 S2 S3 : State}
    (I1 : GInv env rk S1 (upd allClosed x (.linking (k + 1))))
    (hkid : (kids (S1.nodeD x).kind)[k]? = some c)
    (hh1 : ∀ c' j, (x, j) ∈ (S1.nodeD c').parents → (S1.nodeD c').height < (S1.nodeD x).height)
    (h2 : (removeParent c k x).run.run S1 = (.ok (), S2))
    (h3 : (checkIfUnnecessary fuel c).run.run S2 = (.ok (), S3)) :
    GInv env rk S3 (upd allClosed x (.linking k)) ∧ S3.nodeD x = S1.nodeD x ∧
      (∀ c' j, (x, j) ∈ (S3.nodeD c').parents → (S3.nodeD c').height < (S3.nodeD x).height) ∧
      URel S1 S3 := by
  have hop1 : upd allClosed x (.linking (k + 1)) x = .linking (k + 1) := upd_self ..
  have hcx : c ≠ x := I1.kid_ne hkid
  have hlt : rk c < rk x := I1.kid_lt hkid
  have hclc : upd allClosed x (.linking (k + 1)) c = .closed := upd_other _ _ _ hcx
  obtain ⟨hA, hB, hab2, hu2, hoth2, -⟩ := removeParent_dropLastLinking h2 I1 hop1 hkid hclc
  rw [upd_upd] at hA hB
  have hopc : upd allClosed x (.linking k) c = .closed := upd_other _ _ _ hcx
  have key : GInv env rk S3 (upd allClosed x (.linking k)) ∧ Above rk c S2 S3 ∧ URel S2 S3 := by
    cases hnc : S2.isNecessary c with
    | true =>
      have I2 := hA hnc
      obtain ⟨I3, hab3, hu3⟩ := QR.checkIfUnnecessary_spec h3 I2 (by
        intro m hm
        by_cases e : m = x
        · rw [e]; omega
        · rw [upd_other _ _ _ e] at hm; exact absurd rfl hm) (Or.inl ⟨hnc, hopc⟩)
      rw [upd_eq_self _ _ _ hopc] at I3
      exact ⟨I3, hab3, hu3⟩
    | false =>
      have I2 := hB hnc
      obtain ⟨I3, hab3, hu3⟩ := QR.checkIfUnnecessary_spec h3 I2 (by
        intro m hm
        by_cases e1 : m = c
        · rw [e1]; exact Nat.le_refl _
        · rw [upd_other _ _ _ e1] at hm
          by_cases e : m = x
          · rw [e]; omega
          · rw [upd_other _ _ _ e] at hm; exact absurd rfl hm) (Or.inr ⟨hnc, upd_self _ _ _⟩)
      rw [upd_upd, upd_eq_self _ _ _ hopc] at I3
      exact ⟨I3, hab3, hu3⟩
  obtain ⟨I3, hab3, hu3⟩ := key
  have hx31 : S3.nodeD x = S1.nodeD x := (hab3 x hlt).trans (hoth2 x hcx.symm)
  have nh2 : NH S1 S2 := NH.removeParent h2
  have nh3 : NH S2 S3 := NH.checkIfUnnecessary h3
  refine ⟨I3, hx31, ?_, hu2.trans hu3⟩
  intro c' j hm
  have hm2 := hu3.par c' _ hm
  have hm1 := hu2.par c' _ hm2
  have nec3 : S3.isNecessary c' = true := nec_of_mem_parents hm
  obtain ⟨n2, e3⟩ := nh3 c' nec3
  obtain ⟨-, e2⟩ := nh2 c' n2
  rw [e3, e2, hx31]
  exact hh1 c' j hm1

/-- `S'` is `S4` with `x` inserted into the recompute heap at its height -/
structure InsertedAt (x : Nat) (S4 S' : State) : Prop where
  pc : S'.panicCountdown = S4.panicCountdown
  scope : S'.currentScope = S4.currentScope
  size : S'.nodes.size = S4.nodes.size
  vars : S'.vars = S4.vars
  node : ∀ m, ∃ y, S'.nodeD m = { S4.nodeD m with heightInRch := y }
  mark : ∀ m, m ≠ x → (S'.nodeD m).heightInRch = (S4.nodeD m).heightInRch
  heap : HeapG S'
  self : (S'.nodeD x).heightInRch = (S4.nodeD x).height

/-- the record loses its last edge (`Rekind` to the first `k` children), then the node is closed: it is queued
already, or it has just been inserted -/
theorem rm_close {S3 S4 S' : State} {k'' : Kind}
    (I3 : GInv env rk S3 (upd allClosed x (.linking k)))
    (R : Rekind x k'' S3 S4) (hkk : kids k'' = (kids (S3.nodeD x).kind).take k) (hsk : StaticKind env k'')
    (hst : staleOf S4 x = true)
    (hh3 : ∀ c' j, (x, j) ∈ (S3.nodeD c').parents → (S3.nodeD c').height < (S3.nodeD x).height)
    (h03 : 0 ≤ (S3.nodeD x).height)
    (hg3 : (S3.nodeD x).inRch = true → (S3.nodeD x).heightInRch = (S3.nodeD x).height)
    (hcase : ((S3.nodeD x).inRch = true ∧ S' = S4) ∨ ((S3.nodeD x).inRch = false ∧ InsertedAt x S4 S')) :
    Struct env rk S' := by
  have hop : upd allClosed x (.linking k) x = .linking k := upd_self ..
  have I4 := GInv.shrink I3 R hop hkk hsk hst
  have hlen : (kids (S4.nodeD x).kind).length ≤ k := by
    rw [R.kind_self, hkk, List.length_take]; exact Nat.min_le_left _ _
  have hh4 : ∀ (i c : Nat), (kids (S4.nodeD x).kind)[i]? = some c → (S4.nodeD c).height < (S4.nodeD x).height := by
    intro i c hc
    have hi : i < k := by
      rcases Nat.lt_or_ge i (kids (S4.nodeD x).kind).length with h | h
      · omega
      · rw [List.getElem?_eq_none h] at hc; cases hc
    have hm := I4.conv x i c hc ((wants_linking hop).2 hi)
    rw [R.parents] at hm
    rw [R.height, R.height]; exact hh3 c i hm
  have h04 : 0 ≤ (S4.nodeD x).height := by rw [R.height]; exact h03
  rcases hcase with ⟨hq, hS⟩ | ⟨hnq, J⟩
  · rw [hS]
    have hq4 : (S4.nodeD x).inRch = true := by rw [R.inRch]; exact hq
    have := GInv.close_link_queued I4 hop hlen hh4 h04 hq4 (by rw [R.heightInRch, R.height]; exact hg3 hq)
    rwa [upd_closed_all] at this
  · have hnq4 : (S4.nodeD x).inRch = false := by rw [R.inRch]; exact hnq
    have := I4.close_link_gen (s' := S') hop hnq4 hlen hh4 h04 J.pc J.scope J.size J.vars J.node J.mark J.heap
      (Or.inr ⟨hst, J.self⟩)
    rwa [upd_closed_all] at this

end

end IncrVerif.Proofs.DriverH
