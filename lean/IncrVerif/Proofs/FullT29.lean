import IncrVerif.Proofs.FullT28
import IncrVerif.Proofs.FullT26
/-!
# C04 combined fragment: a SIMULATED step of the drain returns (`SimTotC`)

`recomputeOne env fuel n` on a node that is neither a map_ref nor a map_with_old node and is EXACT (cutoff `.eq`, or a change detector): whatever its outcome, if the
state it ends in has room then it returned, and `PInv` holds again.
* static kinds / `bindMain`: the VIRTUAL run returns (`NestH.recomputeOne_static_total2'`), hence the actual one (`recomputeOne_sim_rev`).
* a change detector: `NestH.lcStep_totalG` is mirrored phase by phase — each phase of the VIRTUAL run returns (`T2f.phase1_tot … phase4_tot`), the converse half of the
  bisimulation of that phase gives the actual phase; `MRPV` of the state after phase 3 from `T2f.mid3_of … .graph`.
-/
namespace IncrVerif.Proofs.FullT
set_option linter.unusedSectionVars false
open IncrVerif.Engine IncrVerif.Driver IncrVerif.Proofs IncrVerif.Proofs.Step IncrVerif.Proofs.Sched IncrVerif.Proofs.Quiet IncrVerif.Proofs.FullH
open IncrVerif.Proofs.BindH (DInv BGraph)
open IncrVerif.Proofs.NestH (DT)

section
variable {env : Env} {sp : Nat → Val → Val} {N : Nat}

/-- static kinds and `bindMain` -/
theorem simTot_static {t s : State} {g : Nat → Option Val} {fuel n : Nat}
    (D : DInvF env sp t s g (some n)) (hP : PInv s) (T : DT (VE env sp) N (virt g s))
    (hk1 : ∀ p i, (s.nodeD n).kind ≠ .mapRef p i) (hk2 : ∀ m i, (s.nodeD n).kind ≠ .mapWithOld m i)
    (hk3 : ∀ b, (s.nodeD n).kind ≠ .bindLhsChange b) (hcn : (s.nodeD n).cutoff = .eq)
    {r1 : Except Panic (Option Nat)} {s1 : State} (h : (recomputeOne env fuel n).run.run s = (r1, s1))
    (hN : s1.nodes.size ≤ N) (hfs : s1.nodes.size ≤ fuel) (hf1 : 1 ≤ fuel) :
    ∃ r, r1 = .ok r ∧ PInv s1 := by
  have I := D.inv
  have gr := I.graph
  obtain ⟨hnec, hnlt, hnv, -, -⟩ := I.cur_facts
  rw [virt_size] at hnlt
  rw [virt_nodeD, virtNode_valid] at hnv
  have hkids := kids_settled D
  have hBk := (gr.node n (by rw [virt_size]; exact hnlt) (by rw [virt_nodeD, virtNode_valid]; exact hnv)).1
  rw [virt_nodeD, virtNode_kind] at hBk
  have hrhs : ∀ b lc br r0, (s.nodeD n).kind = .bindMain b lc → s.binds[b]? = some br → br.rhs = some r0 →
      (s.nodeD r0).valid = true := by
    intro b lc br r0 hkd hb hr
    have hc : r0 ∈ (virt g s).children n := by
      rw [virt_children]
      unfold State.children Node.kind?
      rw [hnv, hkd]
      simp only [if_true, hb, hr]
      simp
    have := ((gr.node n (by rw [virt_size]; exact hnlt) (by rw [virt_nodeD, virtNode_valid]; exact hnv)).2.2 r0 hc).2
    rw [virt_nodeD, virtNode_valid] at this
    exact this
  have hkS : Sched.StaticKind (VE env sp) ((virt g s).nodeD n).kind ∨ ∃ b lc, ((virt g s).nodeD n).kind = .bindMain b lc := by
    rw [virt_nodeD, virtNode_kind]
    cases hkd : (s.nodeD n).kind <;> rw [hkd] at hBk <;> simp only [virtKind] at hBk ⊢ <;>
      first
      | exact Or.inl hBk
      | exact Or.inr ⟨_, _, rfl⟩
      | exact absurd hkd (hk3 _)
  obtain ⟨rk, A, hb, H, Lm⟩ := T
  have hgrow := recomputeOne_sizeF D h
  have R : Quiet.Room N (virt g s) := Lm.room (by rw [virt_size]; omega)
  obtain ⟨r, tv', hrunv, -⟩ := NestH.recomputeOne_static_total2' I A H hb R hkS hf1
  obtain ⟨s', hs', -, -, -, p'⟩ := recomputeOne_sim_rev D.frag hP (mrpv_of_bgraph gr) (by omega) hnlt hnv hk1 hk2 hk3 hcn hrhs
    (fun a ha => (hkids a ha).1) hrunv
  rw [hs'] at h; cases h
  exact ⟨r, rfl, p'⟩

/-- a change detector: `NestH.lcStep_totalG`, phase by phase -/
theorem simTot_lc (E : EnvS env sp) {t s : State} {g : Nat → Option Val} {fuel n b : Nat}
    (D : DInvF env sp t s g (some n)) (hP : PInv s) (T : DT (VE env sp) N (virt g s))
    (hkb : (s.nodeD n).kind = .bindLhsChange b)
    {r1 : Except Panic (Option Nat)} {s1 : State} (h : (recomputeOne env fuel n).run.run s = (r1, s1))
    (hN : s1.nodes.size ≤ N) (hf : 3 * s1.nodes.size + 3 ≤ fuel) :
    ∃ r, r1 = .ok r ∧ PInv s1 := by
  have I := D.inv
  obtain ⟨rk, A, hB, H, L⟩ := T
  have hk : ((virt g s).nodeD n).kind = .bindLhsChange b := by rw [virt_nodeD, virtNode_kind, hkb]; rfl
  obtain ⟨br, X⟩ := NestH.NC.lc_pre2 I A hk
  have hnlt : n < s.nodes.size := by have := X.hlt; rwa [virt_size] at this
  have hnv : (s.nodeD n).valid = true := by have := X.hvn; rwa [virt_nodeD, virtNode_valid] at this
  have hb : s.binds[b]? = some br := X.hb
  rw [Inval.recomputeOne_bindLhsChange_run env fuel n s _ b br (some_of_lt hnlt) hnv hkb hb] at h
  -- the facts of the actual state
  have hk? : (s.nodeD n).kind? = some (.bindLhsChange b) := by simp [Node.kind?, hnv, hkb]
  have hrd : tv g (started n s) br.lhs = (started n s).value env br.lhs := by
    rw [ST.tv_started, started_value]
    apply fun a ha => (kids_settled D a ha).1
    unfold State.children
    rw [hk?]
    simp only [hb]
    simp
  have hk0 : ST.NK n (started n s) :=
    ⟨by simp [started]; exact hnlt, (fun p i => by rw [ST.started_kind, hkb]; exact fun e => by cases e),
      ST.exact_started (ST.exact_of_lc hkb) []⟩
  have fr0 : Fr (FK env sp) g (started n s) := ST.fr_started D.frag.fr n
  have p0 : PInv (started n s) := pinv_started hP n []
  -- phase 1
  obtain ⟨rhs, S1, h1v, -⟩ := NestH.T2f.phase1_tot I A X
  have h1v' : (Inval.lhsRunClosure (VE env sp) n b br).run.run (virt g (started n s)) = (.ok rhs, S1) := by
    rw [ST.virt_started]; exact h1v
  obtain ⟨t1, h1, e1, fr1, vm1, p1⟩ := (BSimAt.lhsRunClosure hrd (ST.topLt_started n (topLt_of_dinvF D))
    (fun v => ST.templS_of_envS E br.body v)).rev fr0 p0 h1v'
  subst e1
  have hrest : (NestH.T2f.rest env fuel n b br s.stabNum rhs).run.run t1 = (r1, s1) := by
    rw [run_bind_ok h1] at h; exact h
  have hsz1 := NestH.T2f.rest_size hrest
  obtain ⟨rk', l, P⟩ := NestH.NC.phase1 (NestH.closure_spec2 (VE env sp)) X A h1v
  have hB1 := NestH.T2f.hbo2_phase1 P hB
  have L1 : NestH.Lim N (virt g t1) := NestH.T2f.lim_eq (NestH.T2f.lim_started L) P.rel.ahh P.rel.rch
  have R1 : Quiet.Room N (virt g t1) := L1.room (by rw [virt_size]; omega)
  -- phase 2
  obtain ⟨u2, S2, h2v, hB2, R2⟩ := NestH.T2f.phase2_tot (fuel := fuel) X A P hB1 R1 (by rw [virt_size]; omega)
  have Q := NestH.NC.phase2 (NestH.relink_spec2 (VE env sp)) X A P h2v
  obtain ⟨t2, g2, h2, e2, fr2, gr2, p2⟩ := (BSimXAt.lhsRelink (apC (FK env sp) env sp) fuel n b br s.stabNum rhs
    (by omega)).rev fr1 p1 h2v
  subst e2
  -- phase 3
  obtain ⟨u3, S3, h3v, -⟩ := NestH.T2f.phase3_tot (fuel := fuel) X A P Q (by rw [Q.rel.size, virt_size]; omega)
  have R3 := NestH.NC.phase3 (NestH.inval_spec2 (VE env sp)) X A P Q h3v
  obtain ⟨t3, g3, h3, e3, fr3, gr3, p3⟩ := (BSimX.lhsInvalidateOld (K := FK env sp) (P := PInv) fuel br g2 t2).rev fr2 p2 h3v
  subst e3
  have hB3 := NestH.T2f.hbo2_phase3 R3.rel hB2
  have Rm3 : Quiet.Room N (virt g3 t3) := NestH.T2d.room_nodes R2 R3.rel.ahh R3.rel.rch R3.rel.size
  have Y := NestH.T2f.mid3_of I A X P Q R3
  have hsz3 : t3.nodes.size = t1.nodes.size := by
    have := R3.rel.size.trans Q.rel.size
    rwa [virt_size, virt_size] at this
  -- phase 4
  obtain ⟨r4, S4, h4v, -⟩ := NestH.T2f.phase4_tot (fuel := fuel) Y A hk hB3 Rm3 (by omega)
  have hk3 := ((hk0.vm vm1).vm gr2.vm).vm gr3.vm
  have hkb3 : (t3.nodeD n).kind = .bindLhsChange b := by
    have v := (vm1.trans gr2.vm).trans gr3.vm
    rw [(v.kind n hk0.1).1, ST.started_kind]; exact hkb
  obtain ⟨s4, h4, -, -, -, p4⟩ := (BSimAt.lhsFinish_lc (K := FK env sp) (g := g3) (env := env) (sp := sp) (fuel := fuel) ⟨b, hkb3⟩
    (mrpv_of_bgraph Y.graph) (by omega)).rev fr3 p3 h4v
  have hall : (NestH.T2f.rest env fuel n b br s.stabNum rhs).run.run t1 = (.ok r4, s4) := by
    unfold NestH.T2f.rest
    rw [run_bind_ok h2, run_bind_ok h3]; exact h4
  rw [hall] at hrest
  cases hrest
  exact ⟨r4, rfl, p4⟩

/-- **a simulated step of the drain returns**, for any fuel bound `need` with `3 * sz + 3 ≤ need sz` -/
theorem simTotG {need : Nat → Nat} (hneed : ∀ sz, 3 * sz + 3 ≤ need sz) (E : EnvS env sp) : SimTotC need env sp N := by
  intro t s g fuel n D hP T hk1 hk2 hex r1 s1 h hN hf
  have hfu := hneed s1.nodes.size
  by_cases hk3 : ∀ b, (s.nodeD n).kind ≠ .bindLhsChange b
  · have hcn : (s.nodeD n).cutoff = .eq := by
      rcases hex with e | ⟨b, e⟩
      · exact e
      · exact absurd e (hk3 b)
    exact simTot_static D hP T hk1 hk2 hk3 hcn h hN (by omega) (by omega)
  · have : ∃ b, (s.nodeD n).kind = .bindLhsChange b := by
      cases hkd : (s.nodeD n).kind <;>
        first | exact ⟨_, rfl⟩ | (exfalso; apply hk3; intro b; rw [hkd]; intro h; cases h)
    obtain ⟨b, hkb⟩ := this
    exact simTot_lc E D hP T hkb h hN (by omega)

theorem simTotC (E : EnvS env sp) : SimTotC NestH.stepFuel env sp N :=
  simTotG (fun sz => by unfold NestH.stepFuel; omega) E

/-- the same in the `TotIf` style -/
theorem recomputeOne_simulated_totIf {need : Nat → Nat} (hneed : ∀ sz, 3 * sz + 3 ≤ need sz) (E : EnvS env sp)
    {t s : State} {g : Nat → Option Val} {fuel n : Nat} (D : DInvF env sp t s g (some n)) (hP : PInv s) (T : DT (VE env sp) N (virt g s))
    (hk1 : ∀ p i, (s.nodeD n).kind ≠ .mapRef p i) (hk2 : ∀ m i, (s.nodeD n).kind ≠ .mapWithOld m i)
    (hex : (s.nodeD n).cutoff = .eq ∨ ∃ b, (s.nodeD n).kind = .bindLhsChange b) :
    NestH.TotIf (recomputeOne env fuel n) s (NestH.HasRoomG need N fuel) (fun _ s' => PInv s') :=
  fun r1 s1 h hroom => simTotG hneed E t s g fuel n D hP T hk1 hk2 hex r1 s1 h hroom.1 hroom.2

end
end IncrVerif.Proofs.FullT
