import IncrVerif.Proofs.EffH1
/-!
# Effects, part 9: the API actions other than `stabilise` keep `CellsOK` (nothing pending, live handles)
-/
namespace IncrVerif.Proofs.EffH
open IncrVerif.Engine IncrVerif.Driver IncrVerif.Proofs IncrVerif.Proofs.Step IncrVerif.Proofs.Sched
open IncrVerif.Proofs.Quiet

namespace P9

/-- the frame relation: `CellsOK` is kept -/
def KeepC (s s' : State) : Prop := CellsOK s → CellsOK s'

instance : PreOrd KeepC := ⟨fun _ h => h, fun h1 h2 h => h2 (h1 h)⟩

theorem pres_mod {f : State → State} (hf : ∀ s, (f s).vars = s.vars) : Step.Pres KeepC (modify f : M Unit) :=
  Step.Pres.modify fun s h v c hv => h v c (by rw [hf s] at hv; exact hv)

theorem pres_bumpCounter (f) : Step.Pres KeepC (bumpCounter f) := by
  unfold bumpCounter; exact pres_mod fun _ => rfl

theorem pres_modObs (o f) : Step.Pres KeepC (modObs o f) := by
  unfold modObs; exact pres_mod fun _ => rfl

theorem pres_modBind (o f) : Step.Pres KeepC (modBind o f) := by
  unfold modBind; exact pres_mod fun _ => rfl

theorem pres_getObs (o) : Step.Pres KeepC (getObs o) := by
  unfold getObs; qpres

theorem pres_resolveOpnd (loc o) : Step.Pres KeepC (resolveOpnd loc o) := by
  unfold resolveOpnd; qpres

theorem pres_createNode (k sc c) : Step.Pres KeepC (createNode k sc c) := by
  unfold createNode
  qpres
  all_goals first | exact pres_bumpCounter _ | exact pres_modBind _ _ | exact pres_mod fun _ => rfl

theorem pres_createVar (v sc) : Step.Pres KeepC (createVar v sc) := by
  unfold createVar
  qpres
  · exact pres_createNode _ _ _
  · refine Step.Pres.modify fun s h w c hw => ?_
    dsimp only at hw
    rw [Array.getElem?_push] at hw
    split at hw
    · cases hw; exact ⟨rfl, Nat.one_ne_zero⟩
    · exact h w c hw

theorem pres_isConstant (n) : Step.Pres KeepC (isConstant n) := by
  unfold isConstant; qpres

theorem pres_disallow (o) : Step.Pres KeepC (disallowFutureUse o) := by
  unfold disallowFutureUse
  qpres
  all_goals first | exact pres_getObs _ | exact pres_bumpCounter _ | exact pres_modObs _ _ | exact pres_mod fun _ => rfl

theorem pres_elabInstr {env : Env} (loc lv i) (hi : StaticInstr env i) : Step.Pres KeepC (elabInstr loc lv i) := by
  cases i <;> try exact hi.elim
  all_goals unfold elabInstr
  all_goals dsimp only
  all_goals qpres
  all_goals first | exact pres_createNode _ _ _ | exact pres_createVar _ _ | exact pres_resolveOpnd _ _ | exact pres_isConstant _

theorem pres_elabInstrM {env : Env} (loc lv i) (hi : StaticInstr env i) :
    Step.Pres KeepC (elabInstrM env loc lv i) := by
  have e : elabInstrM env loc lv i = elabInstr loc lv i := by
    cases i <;> first | rfl | exact hi.elim
  rw [e]; exact pres_elabInstr loc lv i hi

/-- a write outside a stabilisation: the old value is returned, the cell gets the new value (and maybe a new stamp),
no other cell changes -/
theorem write_ok {s s' : State} {v : Nat} {f : Val → Val} {isSet : Bool} {r : Val}
    (hst : s.status ≠ .stabilising) (h : (writeVar v f isSet).run.run s = (.ok r, s')) :
    ∃ vc, s.vars[v]? = some vc ∧ r = vc.value ∧
      (∃ sa, s'.vars[v]? = some { vc with value := f vc.value, setAt := sa }) ∧
      ∀ w, w ≠ v → s'.vars[w]? = s.vars[w]? := by
  obtain ⟨vc, hv⟩ := writeVar_ok_cell h
  obtain ⟨hr, -, h1, h2, -⟩ := IncrVerif.Props.C08.write_outside_ok v f isSet s s' vc r hv hst h
  exact ⟨vc, hv, hr, ⟨_, h1⟩, h2⟩

theorem write_cells {s s' : State} {v : Nat} {f : Val → Val} {isSet : Bool} {r : Val}
    (hst : s.status ≠ .stabilising) (hc : CellsOK s)
    (h : (writeVar v f isSet).run.run s = (.ok r, s')) : CellsOK s' := by
  obtain ⟨vc, hv, -, ⟨sa, h1⟩, h2⟩ := write_ok hst h
  intro w c hw
  by_cases e : w = v
  · rw [e, h1] at hw; cases hw; exact hc v vc hv
  · rw [h2 w e] at hw; exact hc w c hw

end P9
open P9

/-- a static API action other than `stabilise`, run outside a stabilisation, keeps `CellsOK`: it leaves `vars` alone,
or pushes one fresh cell (`create var`), or changes `value`/`setAt` of one cell (the five writes) -/
theorem step_cells {env : Env} {s s' : State} {a : Action} {tk : Array Nat} {r : String × Array Nat}
    (ha : StaticAction env a) (hns : a ≠ .stabilise) (hst : s.status = .notStabilising) (hc : CellsOK s)
    (h : (stepAction env a tk).run.run s = (.ok r, s')) : CellsOK s' := by
  have hst' : s.status ≠ .stabilising := by rw [hst]; intro e; cases e
  have wr : ∀ {v f isSet} {u : Unit} {s1 : State},
      (discard (writeVar v f isSet)).run.run s = (.ok u, s1) → CellsOK s1 := by
    intro v f isSet u s1 h1
    obtain ⟨r1, h1⟩ := discard_ok_inv h1
    exact write_cells hst' hc h1
  cases a <;> try exact ha.elim
  case stabilise => exact absurd rfl hns
  case create i =>
    refine (Step.Pres.h (R := KeepC) ?_ _ _ _ h : KeepC s s') hc
    unfold stepAction
    dsimp only
    qpres
    · exact pres_elabInstrM _ _ _ ha
    · exact pres_mod fun _ => rfl
  case observe n =>
    refine (Step.Pres.h (R := KeepC) ?_ _ _ _ h : KeepC s s') hc
    unfold stepAction
    dsimp only
    qpres
    all_goals first | exact pres_resolveOpnd _ _ | exact pres_bumpCounter _ | exact pres_mod fun _ => rfl
  case cloneObs o =>
    refine (Step.Pres.h (R := KeepC) ?_ _ _ _ h : KeepC s s') hc
    unfold stepAction
    dsimp only
    qpres
    exact pres_modObs _ _
  case dropObs o =>
    refine (Step.Pres.h (R := KeepC) ?_ _ _ _ h : KeepC s s') hc
    unfold stepAction
    dsimp only
    qpres
    all_goals first | exact pres_getObs _ | exact pres_modObs _ _ | exact pres_disallow _
  case disallow o =>
    refine (Step.Pres.h (R := KeepC) ?_ _ _ _ h : KeepC s s') hc
    unfold stepAction
    dsimp only
    qpres
    exact pres_disallow _
  case set v x =>
    unfold stepAction at h
    dsimp only at h
    obtain ⟨_, s1, h1, h2⟩ := bind_ok_inv h
    obtain ⟨-, e2⟩ := pure_ok_inv h2
    rw [e2]; exact wr h1
  case modify v d =>
    unfold stepAction at h
    dsimp only at h
    obtain ⟨_, s1, h1, h2⟩ := bind_ok_inv h
    obtain ⟨-, e2⟩ := pure_ok_inv h2
    rw [e2]; exact wr h1
  case update v d =>
    unfold stepAction at h
    dsimp only at h
    obtain ⟨_, s1, h1, h2⟩ := bind_ok_inv h
    obtain ⟨-, e2⟩ := pure_ok_inv h2
    rw [e2]; exact wr h1
  case replace v x =>
    unfold stepAction at h
    dsimp only at h
    obtain ⟨_, s1, h1, h2⟩ := bind_ok_inv h
    obtain ⟨-, e2⟩ := pure_ok_inv h2
    rw [e2]; exact write_cells hst' hc h1
  case replaceWith v d =>
    unfold stepAction at h
    dsimp only at h
    obtain ⟨_, s1, h1, h2⟩ := bind_ok_inv h
    obtain ⟨-, e2⟩ := pure_ok_inv h2
    rw [e2]; exact write_cells hst' hc h1
  case get v =>
    unfold stepAction at h
    dsimp only at h
    obtain ⟨_, s1, h1, h2⟩ := bind_ok_inv h
    obtain ⟨-, e2⟩ := pure_ok_inv h2
    rw [e2, getVar_ok_inv h1]; exact hc
  case isStable =>
    unfold stepAction at h
    dsimp only at h
    rw [run_bind_get] at h
    obtain ⟨-, e2⟩ := pure_ok_inv h
    rw [e2]; exact hc
  case stats =>
    unfold stepAction at h
    dsimp only at h
    obtain ⟨-, e2⟩ := pure_ok_inv h
    rw [e2]; exact hc

/-- `get` returns the logical value of the variable and changes nothing -/
theorem step_get {env : Env} {s s' : State} {v : Nat} {tk : Array Nat} {r : String × Array Nat}
    (h : (stepAction env (.get v) tk).run.run s = (.ok r, s')) :
    ∃ vc, s.vars[v]? = some vc ∧ r = ("ok " ++ vc.value.render, tk) ∧ s' = s := by
  unfold stepAction at h
  dsimp only at h
  obtain ⟨vc, s1, h1, h2⟩ := bind_ok_inv h
  obtain ⟨e1, e2⟩ := pure_ok_inv h2
  have hs := getVar_ok_inv h1
  refine ⟨vc, ?_, e1, by rw [e2, hs]⟩
  rw [run_getVar] at h1
  cases hv : s.vars[v]? with
  | none => rw [hv] at h1; cases h1
  | some x => rw [hv] at h1; cases h1; rfl

/-- `replace` returns the logical value the variable had and stores the new one -/
theorem step_replace {env : Env} {s s' : State} {v : Nat} {x : Val} {tk : Array Nat} {r : String × Array Nat}
    (hst : s.status ≠ .stabilising)
    (h : (stepAction env (.replace v x) tk).run.run s = (.ok r, s')) :
    ∃ vc, s.vars[v]? = some vc ∧ r = ("ok " ++ vc.value.render, tk) ∧
      ∃ vc', s'.vars[v]? = some vc' ∧ vc'.value = x := by
  unfold stepAction at h
  dsimp only at h
  obtain ⟨old, s1, h1, h2⟩ := bind_ok_inv h
  obtain ⟨e1, e2⟩ := pure_ok_inv h2
  obtain ⟨vc, hv, hr, ⟨sa, hn⟩, -⟩ := write_ok hst h1
  exact ⟨vc, hv, by rw [e1, hr], _, by rw [e2]; exact hn, rfl⟩

/-- `replace_with` returns the logical value the variable had and stores the updated one -/
theorem step_replaceWith {env : Env} {s s' : State} {v : Nat} {d : Int} {tk : Array Nat} {r : String × Array Nat}
    (hst : s.status ≠ .stabilising)
    (h : (stepAction env (.replaceWith v d) tk).run.run s = (.ok r, s')) :
    ∃ vc, s.vars[v]? = some vc ∧ r = ("ok " ++ vc.value.render, tk) ∧
      ∃ vc', s'.vars[v]? = some vc' ∧ vc'.value = vc.value.addInt d 7 := by
  unfold stepAction at h
  dsimp only at h
  obtain ⟨old, s1, h1, h2⟩ := bind_ok_inv h
  obtain ⟨e1, e2⟩ := pure_ok_inv h2
  obtain ⟨vc, hv, hr, ⟨sa, hn⟩, -⟩ := write_ok hst h1
  exact ⟨vc, hv, by rw [e1, hr], _, by rw [e2]; exact hn, rfl⟩

/-- `set`/`modify`/`update` store the new logical value -/
theorem step_set {env : Env} {s s' : State} {v : Nat} {x : Val} {tk : Array Nat} {r : String × Array Nat}
    (hst : s.status ≠ .stabilising)
    (h : (stepAction env (.set v x) tk).run.run s = (.ok r, s')) :
    ∃ vc', s'.vars[v]? = some vc' ∧ vc'.value = x := by
  unfold stepAction at h
  dsimp only at h
  obtain ⟨_, s1, h1, h2⟩ := bind_ok_inv h
  obtain ⟨-, e2⟩ := pure_ok_inv h2
  obtain ⟨r1, h1⟩ := discard_ok_inv h1
  obtain ⟨vc, hv, hr, ⟨sa, hn⟩, -⟩ := write_ok hst h1
  exact ⟨_, by rw [e2]; exact hn, rfl⟩

end IncrVerif.Proofs.EffH
