import IncrVerif.Proofs.Poison
import Std.Do
import Std.Tactic.Do
import Lean
/-!
# C05 / C11 (edges): the necessity and edge invariant of the engine model

`NecWF s` (defined near the end of this file, in terms of the state) says: every recorded parent edge is a
real edge (`e1`), every recorded parent is necessary (`e2`), a node marked as queued in the recompute heap is
necessary and valid (`e3`), no edge is recorded twice (`e4`), and the record tables are consistent with the
node kinds (`kinds`).  The theorems for users are in `Props/C05.lean`.

How it is proved.  All reasoning is done on a *view* of the state (`View`, `viewOf`): per node the parent list,
"has an observer or is forced necessary", `valid`, "is queued", the kind; the children function; table sizes.
Every function `f` of the model gets ONE Hoare triple (`Std.Do`, `mvcgen`) of the shape
`⦃viewOf s = v⦄ f ⦃R v (viewOf s)⦄` (normal outcome; the exceptional postcondition is `True`), the ghost `v`
being instantiated by `mvcgen` through the precondition.  The invariant on views is `NecV` (= `J` + "no bad
node").  It is broken transiently inside the cascades; these get relational postconditions:
* unlinking (`becameUnnecessary`/`checkIfUnnecessary`/`removeChildren`): `UPost`/`RCPost`: the part `J` is kept,
  the view changes by `URel` (parent lists shrink), and the set of *bad* nodes (unnecessary but still recorded
  as a parent, or still queued) only shrinks, losing the node the cascade was started for;
* linking (`becameNecessary`/`addParentWithoutAdjustingHeights`): `BNPost`/`APost`: `NecV` is kept on the nose,
  the view changes by `LRel`, and the recorded edges of every other necessary node are untouched (needed for
  "no duplicate edges");
* invalidation (`invalidateNode`): `IPost` (`IRel`);
* `changeChildBindRhs`: `CCPost`, from the invariant modulo the one edge whose child the bind just replaced
  (`NecX`).
Everything else keeps `NecV` (`NP`), does not change the view (`VF`), or only extends it (`Ext`, node creation).

`Proofs/Poison.lean` (hence `Proofs/HeapWF.lean`) is imported on purpose (two modules running `mvcgen` over the
same model functions cannot be imported side by side); `nv_mvcgen` is `mvcgen` with all their `@[spec]` lemmas
erased, and the lemmas here are registered with priority 100000 (200000 for specs of one syntactic shape of a
primitive call).
-/
namespace IncrVerif.Proofs.Nec
open IncrVerif.Engine IncrVerif.Proofs Std.Do

set_option mvcgen.warning false

/-! ### part N1 -/

open Lean.Parser.Tactic in
/-- `mvcgen` blind to the specifications of `Proofs/HeapWF.lean` and `Proofs/Poison.lean` (which must be
imported, see the note in `Proofs/Poison.lean`) -/
macro "nv_mvcgen" " [" args:(simpStar <|> simpErase <|> simpLemma),* "]" : tactic =>
  let args : Lean.Syntax.TSepArray [``simpStar, ``simpErase, ``simpLemma] "," := ⟨args.elemsAndSeps⟩
  `(tactic| mvcgen [$args,*,
      -IncrVerif.Proofs.rchInsert_spec,
      -IncrVerif.Proofs.rchRemove_spec,
      -IncrVerif.Proofs.rchMinHeight_spec,
      -IncrVerif.Proofs.rchIncreaseHeight_spec,
      -IncrVerif.Proofs.rchRemoveMin_spec,
      -IncrVerif.Proofs.modNode_spec,
      -IncrVerif.Proofs.logEv_spec,
      -IncrVerif.Proofs.tick_spec,
      -IncrVerif.Proofs.modBind_spec,
      -IncrVerif.Proofs.modExpert_spec,
      -IncrVerif.Proofs.modObs_spec,
      -IncrVerif.Proofs.modVar_spec,
      -IncrVerif.Proofs.bumpCounter_spec,
      -IncrVerif.Proofs.setHeight_spec,
      -IncrVerif.Proofs.addParent_spec,
      -IncrVerif.Proofs.removeParent_spec,
      -IncrVerif.Proofs.handleAfterStabilisation_spec,
      -IncrVerif.Proofs.maybeHandleAfterStabilisation_spec,
      -IncrVerif.Proofs.assertM_spec,
      -IncrVerif.Proofs.dassert_spec,
      -IncrVerif.Proofs.getNode_spec,
      -IncrVerif.Proofs.getBind_spec,
      -IncrVerif.Proofs.getExpert_spec,
      -IncrVerif.Proofs.getVar_spec,
      -IncrVerif.Proofs.getObs_spec,
      -IncrVerif.Proofs.scopeHeight_spec,
      -IncrVerif.Proofs.scopeIsNecessary_spec,
      -IncrVerif.Proofs.scopeIsValid_spec,
      -IncrVerif.Proofs.isConstant_spec,
      -IncrVerif.Proofs.resolveOpnd_spec,
      -IncrVerif.Proofs.expertOf_spec,
      -IncrVerif.Proofs.expertIdxRaw_spec,
      -IncrVerif.Proofs.valueUnwrap_spec,
      -IncrVerif.Proofs.assertRunningIsChild_spec,
      -IncrVerif.Proofs.createNode_spec,
      -IncrVerif.Proofs.createVar_spec,
      -IncrVerif.Proofs.createBind_spec,
      -IncrVerif.Proofs.ahhAddUnlessMem_spec,
      -IncrVerif.Proofs.ahhRemoveMin_spec,
      -IncrVerif.Proofs.ensureHeightRequirement_spec,
      -IncrVerif.Proofs.shouldCutoff_spec,
      -IncrVerif.Proofs.edgeOnChange_spec,
      -IncrVerif.Proofs.runEdgeCallback_spec,
      -IncrVerif.Proofs.observabilityChange_spec,
      -IncrVerif.Proofs.becameUnnecessary_spec,
      -IncrVerif.Proofs.checkIfUnnecessary_spec,
      -IncrVerif.Proofs.removeChildren_spec,
      -IncrVerif.Proofs.invalidateNode_spec,
      -IncrVerif.Proofs.propagateInvalidity_spec,
      -IncrVerif.Proofs.adjustHeightsLoop_spec,
      -IncrVerif.Proofs.adjustHeights_spec,
      -IncrVerif.Proofs.markMapRefUnknown_spec,
      -IncrVerif.Proofs.becameNecessary_spec,
      -IncrVerif.Proofs.addParentWithoutAdjustingHeights_spec,
      -IncrVerif.Proofs.becameNecessaryPropagate_spec,
      -IncrVerif.Proofs.stateAddParent_spec,
      -IncrVerif.Proofs.changeChildBindRhs_spec,
      -IncrVerif.Proofs.mapM_spec,
      -IncrVerif.Proofs.mapConst_spec,
      -IncrVerif.Proofs.expertMakeStale_spec,
      -IncrVerif.Proofs.expertAddDependency_spec,
      -IncrVerif.Proofs.swapEdgeIndices_spec,
      -IncrVerif.Proofs.expertRemoveDependency_spec,
      -IncrVerif.Proofs.expertInvalidate_spec,
      -IncrVerif.Proofs.elabInstr_spec,
      -IncrVerif.Proofs.elabTemplateBase_spec,
      -IncrVerif.Proofs.memoCall_spec,
      -IncrVerif.Proofs.elabInstrM_spec,
      -IncrVerif.Proofs.elabTemplate_spec,
      -IncrVerif.Proofs.didSetVarWhileNotStabilising_spec,
      -IncrVerif.Proofs.writeVar_spec,
      -IncrVerif.Proofs.disallowFutureUse_spec,
      -IncrVerif.Proofs.subscribe_spec,
      -IncrVerif.Proofs.unsubscribe_spec,
      -IncrVerif.Proofs.runEffectBasic_spec,
      -IncrVerif.Proofs.dropVarHandle_spec,
      -IncrVerif.Proofs.childChanged_spec,
      -IncrVerif.Proofs.parentIterCanRecomputeNow_spec,
      -IncrVerif.Proofs.maybeChangeValueManual_spec,
      -IncrVerif.Proofs.maybeChangeValue_spec,
      -IncrVerif.Proofs.runEffects_spec,
      -IncrVerif.Proofs.expertValue_spec,
      -IncrVerif.Proofs.withOldEvents_spec,
      -IncrVerif.Proofs.perKeyDriver_spec,
      -IncrVerif.Proofs.recomputeOne_spec,
      -IncrVerif.Proofs.recompute_spec,
      -IncrVerif.Proofs.addNewObservers_spec,
      -IncrVerif.Proofs.unlinkDisallowedObservers_spec,
      -IncrVerif.Proofs.runAll_spec,
      -IncrVerif.Proofs.stabiliseEnd_spec,
      -IncrVerif.Proofs.drainHeap_spec,
      -IncrVerif.Proofs.stabilise_spec,
      -IncrVerif.Proofs.setMaxHeightAllowed_spec,
      -IncrVerif.Proofs.Poison.assertM_fr,
      -IncrVerif.Proofs.Poison.dassert_fr,
      -IncrVerif.Proofs.Poison.logEv_fr,
      -IncrVerif.Proofs.Poison.tick_fr,
      -IncrVerif.Proofs.Poison.getNode_fr,
      -IncrVerif.Proofs.Poison.modNode_fr,
      -IncrVerif.Proofs.Poison.getBind_fr,
      -IncrVerif.Proofs.Poison.modBind_fr,
      -IncrVerif.Proofs.Poison.getExpert_fr,
      -IncrVerif.Proofs.Poison.modExpert_fr,
      -IncrVerif.Proofs.Poison.getVar_fr,
      -IncrVerif.Proofs.Poison.modVar_fr,
      -IncrVerif.Proofs.Poison.getObs_fr,
      -IncrVerif.Proofs.Poison.modObs_fr,
      -IncrVerif.Proofs.Poison.bumpCounter_fr,
      -IncrVerif.Proofs.Poison.scopeHeight_fr,
      -IncrVerif.Proofs.Poison.scopeIsNecessary_fr,
      -IncrVerif.Proofs.Poison.scopeIsValid_fr,
      -IncrVerif.Proofs.Poison.rchLink_fr,
      -IncrVerif.Proofs.Poison.rchUnlink_fr,
      -IncrVerif.Proofs.Poison.rchInsert_fr,
      -IncrVerif.Proofs.Poison.rchRemove_fr,
      -IncrVerif.Proofs.Poison.rchMinHeight_fr,
      -IncrVerif.Proofs.Poison.rchIncreaseHeight_fr,
      -IncrVerif.Proofs.Poison.rchRemoveMin_fr,
      -IncrVerif.Proofs.Poison.setHeight_fr,
      -IncrVerif.Proofs.Poison.ahhAddUnlessMem_fr,
      -IncrVerif.Proofs.Poison.ahhRemoveMin_fr,
      -IncrVerif.Proofs.Poison.ensureHeightRequirement_fr,
      -IncrVerif.Proofs.Poison.adjustHeightsLoop_fr,
      -IncrVerif.Proofs.Poison.adjustHeights_fr,
      -IncrVerif.Proofs.Poison.addParent_fr,
      -IncrVerif.Proofs.Poison.removeParent_fr,
      -IncrVerif.Proofs.Poison.handleAfterStabilisation_fr,
      -IncrVerif.Proofs.Poison.maybeHandleAfterStabilisation_fr,
      -IncrVerif.Proofs.Poison.shouldCutoff_fr,
      -IncrVerif.Proofs.Poison.edgeOnChange_fr,
      -IncrVerif.Proofs.Poison.runEdgeCallback_fr,
      -IncrVerif.Proofs.Poison.observabilityChange_fr,
      -IncrVerif.Proofs.Poison.markMapRefUnknown_fr,
      -IncrVerif.Proofs.Poison.becameNecessary_fr,
      -IncrVerif.Proofs.Poison.addParentWithoutAdjustingHeights_fr,
      -IncrVerif.Proofs.Poison.becameUnnecessary_fr,
      -IncrVerif.Proofs.Poison.checkIfUnnecessary_fr,
      -IncrVerif.Proofs.Poison.removeChildren_fr,
      -IncrVerif.Proofs.Poison.invalidateNode_fr,
      -IncrVerif.Proofs.Poison.propagateInvalidity_fr,
      -IncrVerif.Proofs.Poison.becameNecessaryPropagate_fr,
      -IncrVerif.Proofs.Poison.stateAddParent_fr,
      -IncrVerif.Proofs.Poison.changeChildBindRhs_fr,
      -IncrVerif.Proofs.Poison.assertRunningIsChild_fr,
      -IncrVerif.Proofs.Poison.expertOf_fr,
      -IncrVerif.Proofs.Poison.expertIdxRaw_fr,
      -IncrVerif.Proofs.Poison.expertMakeStale_fr,
      -IncrVerif.Proofs.Poison.expertAddDependency_fr,
      -IncrVerif.Proofs.Poison.swapEdgeIndices_fr,
      -IncrVerif.Proofs.Poison.expertRemoveDependency_fr,
      -IncrVerif.Proofs.Poison.expertInvalidate_fr,
      -IncrVerif.Proofs.Poison.mapM_fr,
      -IncrVerif.Proofs.Poison.mapConst_fr,
      -IncrVerif.Proofs.Poison.createNode_fr,
      -IncrVerif.Proofs.Poison.createVar_fr,
      -IncrVerif.Proofs.Poison.createBind_fr,
      -IncrVerif.Proofs.Poison.isConstant_fr,
      -IncrVerif.Proofs.Poison.resolveOpnd_fr,
      -IncrVerif.Proofs.Poison.elabInstr_fr,
      -IncrVerif.Proofs.Poison.elabTemplateBase_fr,
      -IncrVerif.Proofs.Poison.memoCall_fr,
      -IncrVerif.Proofs.Poison.elabInstrM_fr,
      -IncrVerif.Proofs.Poison.elabTemplate_fr,
      -IncrVerif.Proofs.Poison.didSetVarWhileNotStabilising_fr,
      -IncrVerif.Proofs.Poison.writeVar_fr,
      -IncrVerif.Proofs.Poison.disallowFutureUse_fr,
      -IncrVerif.Proofs.Poison.subscribe_fr,
      -IncrVerif.Proofs.Poison.unsubscribe_fr,
      -IncrVerif.Proofs.Poison.runEffectBasic_fr,
      -IncrVerif.Proofs.Poison.dropVarHandle_fr,
      -IncrVerif.Proofs.Poison.valueUnwrap_fr,
      -IncrVerif.Proofs.Poison.childChanged_fr,
      -IncrVerif.Proofs.Poison.parentIterCanRecomputeNow_fr,
      -IncrVerif.Proofs.Poison.maybeChangeValueManual_fr,
      -IncrVerif.Proofs.Poison.maybeChangeValue_fr,
      -IncrVerif.Proofs.Poison.runEffects_fr,
      -IncrVerif.Proofs.Poison.expertValue_fr,
      -IncrVerif.Proofs.Poison.withOldEvents_fr,
      -IncrVerif.Proofs.Poison.perKeyDriver_fr,
      -IncrVerif.Proofs.Poison.recomputeOne_fr,
      -IncrVerif.Proofs.Poison.recompute_fr,
      -IncrVerif.Proofs.Poison.addNewObservers_fr,
      -IncrVerif.Proofs.Poison.unlinkDisallowedObservers_fr,
      -IncrVerif.Proofs.Poison.runAll_fr,
      -IncrVerif.Proofs.Poison.drainHeap_fr,
      -IncrVerif.Proofs.Poison.setMaxHeightAllowed_fr,
      -IncrVerif.Proofs.Poison.assertM_vs,
      -IncrVerif.Proofs.Poison.dassert_vs,
      -IncrVerif.Proofs.Poison.getNode_vs,
      -IncrVerif.Proofs.Poison.modNode_vs,
      -IncrVerif.Proofs.Poison.getBind_vs,
      -IncrVerif.Proofs.Poison.modBind_vs,
      -IncrVerif.Proofs.Poison.getExpert_vs,
      -IncrVerif.Proofs.Poison.modExpert_vs,
      -IncrVerif.Proofs.Poison.getObs_vs,
      -IncrVerif.Proofs.Poison.modObs_vs,
      -IncrVerif.Proofs.Poison.getVar_vs,
      -IncrVerif.Proofs.Poison.modVar_vs,
      -IncrVerif.Proofs.Poison.bumpCounter_vs,
      -IncrVerif.Proofs.Poison.handleAfterStabilisation_vs,
      -IncrVerif.Proofs.Poison.resolveOpnd_vs,
      -IncrVerif.Proofs.Poison.isConstant_vs,
      -IncrVerif.Proofs.Poison.createNode_vs,
      -IncrVerif.Proofs.Poison.createVar_vs,
      -IncrVerif.Proofs.Poison.createBind_vs,
      -IncrVerif.Proofs.Poison.mapM_vs])

/-- `nv_mvcgen` without arguments -/
macro "nv_mvcgen0" : tactic =>
  `(tactic| mvcgen [
      -IncrVerif.Proofs.rchInsert_spec,
      -IncrVerif.Proofs.rchRemove_spec,
      -IncrVerif.Proofs.rchMinHeight_spec,
      -IncrVerif.Proofs.rchIncreaseHeight_spec,
      -IncrVerif.Proofs.rchRemoveMin_spec,
      -IncrVerif.Proofs.modNode_spec,
      -IncrVerif.Proofs.logEv_spec,
      -IncrVerif.Proofs.tick_spec,
      -IncrVerif.Proofs.modBind_spec,
      -IncrVerif.Proofs.modExpert_spec,
      -IncrVerif.Proofs.modObs_spec,
      -IncrVerif.Proofs.modVar_spec,
      -IncrVerif.Proofs.bumpCounter_spec,
      -IncrVerif.Proofs.setHeight_spec,
      -IncrVerif.Proofs.addParent_spec,
      -IncrVerif.Proofs.removeParent_spec,
      -IncrVerif.Proofs.handleAfterStabilisation_spec,
      -IncrVerif.Proofs.maybeHandleAfterStabilisation_spec,
      -IncrVerif.Proofs.assertM_spec,
      -IncrVerif.Proofs.dassert_spec,
      -IncrVerif.Proofs.getNode_spec,
      -IncrVerif.Proofs.getBind_spec,
      -IncrVerif.Proofs.getExpert_spec,
      -IncrVerif.Proofs.getVar_spec,
      -IncrVerif.Proofs.getObs_spec,
      -IncrVerif.Proofs.scopeHeight_spec,
      -IncrVerif.Proofs.scopeIsNecessary_spec,
      -IncrVerif.Proofs.scopeIsValid_spec,
      -IncrVerif.Proofs.isConstant_spec,
      -IncrVerif.Proofs.resolveOpnd_spec,
      -IncrVerif.Proofs.expertOf_spec,
      -IncrVerif.Proofs.expertIdxRaw_spec,
      -IncrVerif.Proofs.valueUnwrap_spec,
      -IncrVerif.Proofs.assertRunningIsChild_spec,
      -IncrVerif.Proofs.createNode_spec,
      -IncrVerif.Proofs.createVar_spec,
      -IncrVerif.Proofs.createBind_spec,
      -IncrVerif.Proofs.ahhAddUnlessMem_spec,
      -IncrVerif.Proofs.ahhRemoveMin_spec,
      -IncrVerif.Proofs.ensureHeightRequirement_spec,
      -IncrVerif.Proofs.shouldCutoff_spec,
      -IncrVerif.Proofs.edgeOnChange_spec,
      -IncrVerif.Proofs.runEdgeCallback_spec,
      -IncrVerif.Proofs.observabilityChange_spec,
      -IncrVerif.Proofs.becameUnnecessary_spec,
      -IncrVerif.Proofs.checkIfUnnecessary_spec,
      -IncrVerif.Proofs.removeChildren_spec,
      -IncrVerif.Proofs.invalidateNode_spec,
      -IncrVerif.Proofs.propagateInvalidity_spec,
      -IncrVerif.Proofs.adjustHeightsLoop_spec,
      -IncrVerif.Proofs.adjustHeights_spec,
      -IncrVerif.Proofs.markMapRefUnknown_spec,
      -IncrVerif.Proofs.becameNecessary_spec,
      -IncrVerif.Proofs.addParentWithoutAdjustingHeights_spec,
      -IncrVerif.Proofs.becameNecessaryPropagate_spec,
      -IncrVerif.Proofs.stateAddParent_spec,
      -IncrVerif.Proofs.changeChildBindRhs_spec,
      -IncrVerif.Proofs.mapM_spec,
      -IncrVerif.Proofs.mapConst_spec,
      -IncrVerif.Proofs.expertMakeStale_spec,
      -IncrVerif.Proofs.expertAddDependency_spec,
      -IncrVerif.Proofs.swapEdgeIndices_spec,
      -IncrVerif.Proofs.expertRemoveDependency_spec,
      -IncrVerif.Proofs.expertInvalidate_spec,
      -IncrVerif.Proofs.elabInstr_spec,
      -IncrVerif.Proofs.elabTemplateBase_spec,
      -IncrVerif.Proofs.memoCall_spec,
      -IncrVerif.Proofs.elabInstrM_spec,
      -IncrVerif.Proofs.elabTemplate_spec,
      -IncrVerif.Proofs.didSetVarWhileNotStabilising_spec,
      -IncrVerif.Proofs.writeVar_spec,
      -IncrVerif.Proofs.disallowFutureUse_spec,
      -IncrVerif.Proofs.subscribe_spec,
      -IncrVerif.Proofs.unsubscribe_spec,
      -IncrVerif.Proofs.runEffectBasic_spec,
      -IncrVerif.Proofs.dropVarHandle_spec,
      -IncrVerif.Proofs.childChanged_spec,
      -IncrVerif.Proofs.parentIterCanRecomputeNow_spec,
      -IncrVerif.Proofs.maybeChangeValueManual_spec,
      -IncrVerif.Proofs.maybeChangeValue_spec,
      -IncrVerif.Proofs.runEffects_spec,
      -IncrVerif.Proofs.expertValue_spec,
      -IncrVerif.Proofs.withOldEvents_spec,
      -IncrVerif.Proofs.perKeyDriver_spec,
      -IncrVerif.Proofs.recomputeOne_spec,
      -IncrVerif.Proofs.recompute_spec,
      -IncrVerif.Proofs.addNewObservers_spec,
      -IncrVerif.Proofs.unlinkDisallowedObservers_spec,
      -IncrVerif.Proofs.runAll_spec,
      -IncrVerif.Proofs.stabiliseEnd_spec,
      -IncrVerif.Proofs.drainHeap_spec,
      -IncrVerif.Proofs.stabilise_spec,
      -IncrVerif.Proofs.setMaxHeightAllowed_spec,
      -IncrVerif.Proofs.Poison.assertM_fr,
      -IncrVerif.Proofs.Poison.dassert_fr,
      -IncrVerif.Proofs.Poison.logEv_fr,
      -IncrVerif.Proofs.Poison.tick_fr,
      -IncrVerif.Proofs.Poison.getNode_fr,
      -IncrVerif.Proofs.Poison.modNode_fr,
      -IncrVerif.Proofs.Poison.getBind_fr,
      -IncrVerif.Proofs.Poison.modBind_fr,
      -IncrVerif.Proofs.Poison.getExpert_fr,
      -IncrVerif.Proofs.Poison.modExpert_fr,
      -IncrVerif.Proofs.Poison.getVar_fr,
      -IncrVerif.Proofs.Poison.modVar_fr,
      -IncrVerif.Proofs.Poison.getObs_fr,
      -IncrVerif.Proofs.Poison.modObs_fr,
      -IncrVerif.Proofs.Poison.bumpCounter_fr,
      -IncrVerif.Proofs.Poison.scopeHeight_fr,
      -IncrVerif.Proofs.Poison.scopeIsNecessary_fr,
      -IncrVerif.Proofs.Poison.scopeIsValid_fr,
      -IncrVerif.Proofs.Poison.rchLink_fr,
      -IncrVerif.Proofs.Poison.rchUnlink_fr,
      -IncrVerif.Proofs.Poison.rchInsert_fr,
      -IncrVerif.Proofs.Poison.rchRemove_fr,
      -IncrVerif.Proofs.Poison.rchMinHeight_fr,
      -IncrVerif.Proofs.Poison.rchIncreaseHeight_fr,
      -IncrVerif.Proofs.Poison.rchRemoveMin_fr,
      -IncrVerif.Proofs.Poison.setHeight_fr,
      -IncrVerif.Proofs.Poison.ahhAddUnlessMem_fr,
      -IncrVerif.Proofs.Poison.ahhRemoveMin_fr,
      -IncrVerif.Proofs.Poison.ensureHeightRequirement_fr,
      -IncrVerif.Proofs.Poison.adjustHeightsLoop_fr,
      -IncrVerif.Proofs.Poison.adjustHeights_fr,
      -IncrVerif.Proofs.Poison.addParent_fr,
      -IncrVerif.Proofs.Poison.removeParent_fr,
      -IncrVerif.Proofs.Poison.handleAfterStabilisation_fr,
      -IncrVerif.Proofs.Poison.maybeHandleAfterStabilisation_fr,
      -IncrVerif.Proofs.Poison.shouldCutoff_fr,
      -IncrVerif.Proofs.Poison.edgeOnChange_fr,
      -IncrVerif.Proofs.Poison.runEdgeCallback_fr,
      -IncrVerif.Proofs.Poison.observabilityChange_fr,
      -IncrVerif.Proofs.Poison.markMapRefUnknown_fr,
      -IncrVerif.Proofs.Poison.becameNecessary_fr,
      -IncrVerif.Proofs.Poison.addParentWithoutAdjustingHeights_fr,
      -IncrVerif.Proofs.Poison.becameUnnecessary_fr,
      -IncrVerif.Proofs.Poison.checkIfUnnecessary_fr,
      -IncrVerif.Proofs.Poison.removeChildren_fr,
      -IncrVerif.Proofs.Poison.invalidateNode_fr,
      -IncrVerif.Proofs.Poison.propagateInvalidity_fr,
      -IncrVerif.Proofs.Poison.becameNecessaryPropagate_fr,
      -IncrVerif.Proofs.Poison.stateAddParent_fr,
      -IncrVerif.Proofs.Poison.changeChildBindRhs_fr,
      -IncrVerif.Proofs.Poison.assertRunningIsChild_fr,
      -IncrVerif.Proofs.Poison.expertOf_fr,
      -IncrVerif.Proofs.Poison.expertIdxRaw_fr,
      -IncrVerif.Proofs.Poison.expertMakeStale_fr,
      -IncrVerif.Proofs.Poison.expertAddDependency_fr,
      -IncrVerif.Proofs.Poison.swapEdgeIndices_fr,
      -IncrVerif.Proofs.Poison.expertRemoveDependency_fr,
      -IncrVerif.Proofs.Poison.expertInvalidate_fr,
      -IncrVerif.Proofs.Poison.mapM_fr,
      -IncrVerif.Proofs.Poison.mapConst_fr,
      -IncrVerif.Proofs.Poison.createNode_fr,
      -IncrVerif.Proofs.Poison.createVar_fr,
      -IncrVerif.Proofs.Poison.createBind_fr,
      -IncrVerif.Proofs.Poison.isConstant_fr,
      -IncrVerif.Proofs.Poison.resolveOpnd_fr,
      -IncrVerif.Proofs.Poison.elabInstr_fr,
      -IncrVerif.Proofs.Poison.elabTemplateBase_fr,
      -IncrVerif.Proofs.Poison.memoCall_fr,
      -IncrVerif.Proofs.Poison.elabInstrM_fr,
      -IncrVerif.Proofs.Poison.elabTemplate_fr,
      -IncrVerif.Proofs.Poison.didSetVarWhileNotStabilising_fr,
      -IncrVerif.Proofs.Poison.writeVar_fr,
      -IncrVerif.Proofs.Poison.disallowFutureUse_fr,
      -IncrVerif.Proofs.Poison.subscribe_fr,
      -IncrVerif.Proofs.Poison.unsubscribe_fr,
      -IncrVerif.Proofs.Poison.runEffectBasic_fr,
      -IncrVerif.Proofs.Poison.dropVarHandle_fr,
      -IncrVerif.Proofs.Poison.valueUnwrap_fr,
      -IncrVerif.Proofs.Poison.childChanged_fr,
      -IncrVerif.Proofs.Poison.parentIterCanRecomputeNow_fr,
      -IncrVerif.Proofs.Poison.maybeChangeValueManual_fr,
      -IncrVerif.Proofs.Poison.maybeChangeValue_fr,
      -IncrVerif.Proofs.Poison.runEffects_fr,
      -IncrVerif.Proofs.Poison.expertValue_fr,
      -IncrVerif.Proofs.Poison.withOldEvents_fr,
      -IncrVerif.Proofs.Poison.perKeyDriver_fr,
      -IncrVerif.Proofs.Poison.recomputeOne_fr,
      -IncrVerif.Proofs.Poison.recompute_fr,
      -IncrVerif.Proofs.Poison.addNewObservers_fr,
      -IncrVerif.Proofs.Poison.unlinkDisallowedObservers_fr,
      -IncrVerif.Proofs.Poison.runAll_fr,
      -IncrVerif.Proofs.Poison.drainHeap_fr,
      -IncrVerif.Proofs.Poison.setMaxHeightAllowed_fr,
      -IncrVerif.Proofs.Poison.assertM_vs,
      -IncrVerif.Proofs.Poison.dassert_vs,
      -IncrVerif.Proofs.Poison.getNode_vs,
      -IncrVerif.Proofs.Poison.modNode_vs,
      -IncrVerif.Proofs.Poison.getBind_vs,
      -IncrVerif.Proofs.Poison.modBind_vs,
      -IncrVerif.Proofs.Poison.getExpert_vs,
      -IncrVerif.Proofs.Poison.modExpert_vs,
      -IncrVerif.Proofs.Poison.getObs_vs,
      -IncrVerif.Proofs.Poison.modObs_vs,
      -IncrVerif.Proofs.Poison.getVar_vs,
      -IncrVerif.Proofs.Poison.modVar_vs,
      -IncrVerif.Proofs.Poison.bumpCounter_vs,
      -IncrVerif.Proofs.Poison.handleAfterStabilisation_vs,
      -IncrVerif.Proofs.Poison.resolveOpnd_vs,
      -IncrVerif.Proofs.Poison.isConstant_vs,
      -IncrVerif.Proofs.Poison.createNode_vs,
      -IncrVerif.Proofs.Poison.createVar_vs,
      -IncrVerif.Proofs.Poison.createBind_vs,
      -IncrVerif.Proofs.Poison.mapM_vs])


open Lean Elab Tactic Meta in
/-- split every conjunction and existential among the hypotheses -/
elab "split_ands" : tactic => do
  for _ in [0:200] do
    let g ← getMainGoal
    let found ← g.withContext do
      let mut r : Option FVarId := none
      for d in (← getLCtx) do
        if d.isImplementationDetail then continue
        let t ← instantiateMVars d.type
        if t.isAppOfArity ``And 2 || t.isAppOfArity ``Exists 2 then r := some d.fvarId
      return r
    match found with
    | none => break
    | some fv =>
      let gs ← g.cases fv
      replaceMainGoal (gs.toList.map (·.mvarId))

/-! ## the view: what the necessity invariant reads of a state -/

/-- the fields of a node the invariant reads; `base` = "has an observer or is forced necessary" -/
structure RNode where
  parents : List (Nat × Nat)
  base : Bool
  valid : Bool
  inRch : Bool
  kind : Kind

def RNode.nec (r : RNode) : Bool := !r.parents.isEmpty || r.base

def rel (nd : Node) : RNode :=
  ⟨nd.parents, !nd.observers.isEmpty || nd.forceNecessary, nd.valid, nd.inRch, nd.kind⟩

theorem rel_nec (nd : Node) : (rel nd).nec = nd.isNecessary := by
  simp [rel, RNode.nec, Node.isNecessary, Bool.or_assoc]

structure View where
  size : Nat
  nb : Nat
  ne : Nat
  rn : Nat → RNode
  ch : Nat → List Nat
  bmain : Nat → Option Nat
  debug : Bool

/-- children of a node as a function of its (valid) kind and the bind / expert tables -/
def chK (k : Option Kind) (binds : Array BindRec) (experts : Array ExpertRec) : List Nat :=
  match k with
  | none => []
  | some (.const _) => []
  | some (.var _) => []
  | some (.map _ args) => args
  | some (.mapRef _ i) => [i]
  | some (.mapWithOld _ i) => [i]
  | some (.fold _ _ cs) => cs
  | some (.bindLhsChange b) => match binds[b]? with
    | some br => [br.lhs]
    | none => []
  | some (.bindMain b lc) => match binds[b]? with
    | some br => lc :: (match br.rhs with | some r => [r] | none => [])
    | none => [lc]
  | some (.expert e) => match experts[e]? with
    | some er => er.children.map (·.child)
    | none => []

theorem children_eq (s : State) (n : Nat) :
    s.children n = chK (s.nodeD n).kind? s.binds s.experts := by
  unfold State.children chK
  rfl

def nodeAt (nodes : Array Node) (m : Nat) : Node := nodes[m]?.getD default

def mkView (nodes : Array Node) (binds : Array BindRec) (experts : Array ExpertRec) (dbg : Bool) : View :=
  { size := nodes.size, nb := binds.size, ne := experts.size
    rn := fun m => rel (nodeAt nodes m)
    ch := fun m => chK (nodeAt nodes m).kind? binds experts
    bmain := fun b => binds[b]?.map (·.main)
    debug := dbg }

def viewOf (s : State) : View := mkView s.nodes s.binds s.experts s.cfg.debug

theorem viewOf_rn (s : State) (m : Nat) : (viewOf s).rn m = rel (s.nodeD m) := rfl
theorem viewOf_ch (s : State) (m : Nat) : (viewOf s).ch m = s.children m := (children_eq s m).symm
theorem viewOf_nec (s : State) (m : Nat) : ((viewOf s).rn m).nec = s.isNecessary m := rel_nec _
theorem viewOf_valid (s : State) (m : Nat) : ((viewOf s).rn m).valid = (s.nodeD m).valid := rfl
theorem viewOf_inRch (s : State) (m : Nat) : ((viewOf s).rn m).inRch = (s.nodeD m).inRch := rfl
theorem viewOf_parents (s : State) (m : Nat) : ((viewOf s).rn m).parents = (s.nodeD m).parents := rfl
theorem viewOf_debug (s : State) : (viewOf s).debug = s.cfg.debug := rfl
theorem viewOf_size (s : State) : (viewOf s).size = s.nodes.size := rfl

theorem nodeAt_modify (nodes : Array Node) (n m : Nat) (f : Node → Node) :
    nodeAt (nodes.modify n f) m = if n = m ∧ m < nodes.size then f (nodeAt nodes m) else nodeAt nodes m := by
  simp only [nodeAt, Array.getElem?_modify]
  by_cases h : n = m
  · subst h
    by_cases h2 : n < nodes.size
    · simp [h2]
    · simp [h2, Array.getElem?_eq_none (Nat.le_of_not_lt h2)]
  · simp [h]

theorem nodeAt_of_le (nodes : Array Node) (m : Nat) (h : nodes.size ≤ m) : nodeAt nodes m = default := by
  simp [nodeAt, Array.getElem?_eq_none h]

theorem nodeAt_of_getElem? {nodes : Array Node} {m : Nat} {nd : Node} (h : nodes[m]? = some nd) :
    nodeAt nodes m = nd := by simp [nodeAt, h]

/-- a node update that leaves the fields read by the invariant alone -/
abbrev NodeFrame (f : Node → Node) : Prop := ∀ x, rel (f x) = rel x

theorem NodeFrame.kind? {f : Node → Node} (hf : NodeFrame f) (x : Node) : (f x).kind? = x.kind? := by
  have := hf x
  simp only [rel, RNode.mk.injEq] at this
  simp [Node.kind?, this.2.2.1, this.2.2.2.2]

theorem mkView_modify_frame (nodes : Array Node) (binds experts dbg) (n : Nat) (f : Node → Node)
    (hf : NodeFrame f) : mkView (nodes.modify n f) binds experts dbg = mkView nodes binds experts dbg := by
  simp only [mkView, Array.size_modify, View.mk.injEq, true_and, and_true]
  constructor
  · funext m
    rw [nodeAt_modify]; split
    · exact hf _
    · rfl
  · funext m
    rw [nodeAt_modify]; split
    · rw [hf.kind?]
    · rfl


theorem chK_binds_congr (k : Option Kind) (binds binds' : Array BindRec) (experts : Array ExpertRec)
    (h : ∀ b : Nat, (binds'[b]?.map fun (r : BindRec) => (r.lhs, r.rhs)) = (binds[b]?.map fun (r : BindRec) => (r.lhs, r.rhs))) :
    chK k binds' experts = chK k binds experts := by
  cases k with
  | none => rfl
  | some kd =>
    cases kd <;> try rfl
    · rename_i b
      have := h b
      simp only [chK]
      cases h1 : binds'[b]? <;> cases h2 : binds[b]? <;> simp_all
    · rename_i b lc
      have := h b
      simp only [chK]
      cases h1 : binds'[b]? <;> cases h2 : binds[b]? <;> simp_all

theorem mkView_binds_frame (nodes : Array Node) (binds binds' : Array BindRec) (experts dbg)
    (hsz : binds'.size = binds.size)
    (h : ∀ b : Nat, (binds'[b]?.map fun (r : BindRec) => (r.lhs, r.rhs, r.main)) =
      (binds[b]?.map fun (r : BindRec) => (r.lhs, r.rhs, r.main))) :
    mkView nodes binds' experts dbg = mkView nodes binds experts dbg := by
  simp only [mkView, hsz, View.mk.injEq, true_and, and_true]
  constructor
  · funext m
    apply chK_binds_congr
    intro b
    have := h b
    cases h1 : binds'[b]? <;> cases h2 : binds[b]? <;> simp_all
  · funext b
    have := h b
    cases h1 : binds'[b]? <;> cases h2 : binds[b]? <;> simp_all

theorem mkView_modBind_frame (nodes : Array Node) (binds : Array BindRec) (experts dbg) (b : Nat)
    (f : BindRec → BindRec) (hf : ∀ x, (f x).lhs = x.lhs ∧ (f x).rhs = x.rhs ∧ (f x).main = x.main) :
    mkView nodes (binds.modify b f) experts dbg = mkView nodes binds experts dbg := by
  apply mkView_binds_frame
  · simp
  · intro b'
    simp only [Array.getElem?_modify]
    split
    · cases binds[b']? <;> simp [hf]
    · rfl

theorem chK_experts_congr (k : Option Kind) (binds : Array BindRec) (experts experts' : Array ExpertRec)
    (h : ∀ e : Nat, (experts'[e]?.map fun (r : ExpertRec) => r.children.map (·.child)) =
      (experts[e]?.map fun (r : ExpertRec) => r.children.map (·.child))) :
    chK k binds experts' = chK k binds experts := by
  cases k with
  | none => rfl
  | some kd =>
    cases kd <;> try rfl
    rename_i e
    have := h e
    simp only [chK]
    cases h1 : experts'[e]? <;> cases h2 : experts[e]? <;> simp_all

theorem mkView_modExpert_frame (nodes : Array Node) (binds : Array BindRec) (experts : Array ExpertRec)
    (dbg) (e : Nat) (f : ExpertRec → ExpertRec) (hf : ∀ x, (f x).children = x.children) :
    mkView nodes binds (experts.modify e f) dbg = mkView nodes binds experts dbg := by
  simp only [mkView, Array.size_modify, View.mk.injEq, true_and, and_true]
  funext m
  apply chK_experts_congr
  intro e'
  simp only [Array.getElem?_modify]
  split
  · cases experts[e']? <;> simp [hf]
  · rfl

/-! ## triples over views -/

/-- `x` does not change the view -/
abbrev VF {α} (v : View) (x : M α) : Prop :=
  ⦃fun s => ⌜viewOf s = v⌝⦄ x ⦃post⟨fun _ s => ⌜viewOf s = v⌝, fun _ _ => ⌜True⌝⟩⦄

attribute [spec] IncrVerif.Engine.panic

section prims
variable (v : View)

@[spec 100000] theorem assertM_v (c : Bool) (site : String) :
    ⦃fun s => ⌜viewOf s = v⌝⦄ assertM c site ⦃post⟨fun _ s => ⌜viewOf s = v ∧ c = true⌝, fun _ _ => ⌜True⌝⟩⦄ := by
  nv_mvcgen [assertM]

@[spec 100000] theorem dassert_v (c : Bool) (site : String) :
    ⦃fun s => ⌜viewOf s = v⌝⦄ dassert c site
    ⦃post⟨fun _ s => ⌜viewOf s = v ∧ (v.debug = true → c = true)⌝, fun _ _ => ⌜True⌝⟩⦄ := by
  nv_mvcgen [dassert]
  · rename_i s h hc
    subst h
    refine ⟨rfl, fun hd => ?_⟩
    simp [viewOf_debug] at hd
    simpa [hd] using hc

@[spec 100000] theorem logEv_v (e : Event) : VF v (logEv e) := by
  nv_mvcgen [logEv]
@[spec 100000] theorem tick_v : VF v tick := by
  nv_mvcgen [tick]
@[spec 100000] theorem bumpCounter_v (f : Counters → Counters) : VF v (bumpCounter f) := by
  nv_mvcgen [bumpCounter]
@[spec 100000] theorem modVar_v (n : Nat) (f : VarCell → VarCell) : VF v (modVar n f) := by
  nv_mvcgen [modVar]
@[spec 100000] theorem modObs_v (n : Nat) (f : ObsRec → ObsRec) : VF v (modObs n f) := by
  nv_mvcgen [modObs]

@[spec 100000] theorem getNode_v (n : Nat) :
    ⦃fun s => ⌜viewOf s = v⌝⦄ getNode n
    ⦃post⟨fun nd s => ⌜viewOf s = v ∧ rel nd = v.rn n ∧ n < v.size⌝, fun _ _ => ⌜True⌝⟩⦄ := by
  nv_mvcgen [getNode]
  rename_i s h nd hnd
  subst h
  refine ⟨rfl, ?_, (Array.getElem?_eq_some_iff.1 hnd).1⟩
  simp [viewOf, mkView, nodeAt, hnd]

@[spec 100000] theorem getBind_v (b : Nat) :
    ⦃fun s => ⌜viewOf s = v⌝⦄ getBind b
    ⦃post⟨fun br s => ⌜viewOf s = v ∧ s.binds[b]? = some br⌝, fun _ _ => ⌜True⌝⟩⦄ := by
  nv_mvcgen [getBind]

@[spec 100000] theorem getExpert_v (e : Nat) :
    ⦃fun s => ⌜viewOf s = v⌝⦄ getExpert e
    ⦃post⟨fun er s => ⌜viewOf s = v ∧ s.experts[e]? = some er⌝, fun _ _ => ⌜True⌝⟩⦄ := by
  nv_mvcgen [getExpert]

@[spec 100000] theorem getVar_v (n : Nat) : VF v (getVar n) := by
  nv_mvcgen [getVar]
@[spec 100000] theorem getObs_v (n : Nat) : VF v (getObs n) := by
  nv_mvcgen [getObs]

@[spec 100000] theorem modNode_v (n : Nat) (f : Node → Node) (hf : NodeFrame f) : VF v (modNode n f) := by
  nv_mvcgen [modNode]
  rename_i s h _
  rw [← h]
  exact mkView_modify_frame _ _ _ _ _ _ hf

@[spec 100000] theorem modBind_v (b : Nat) (f : BindRec → BindRec)
    (hf : ∀ x, (f x).lhs = x.lhs ∧ (f x).rhs = x.rhs ∧ (f x).main = x.main) : VF v (modBind b f) := by
  nv_mvcgen [modBind]
  rename_i s h _
  rw [← h]
  exact mkView_modBind_frame _ _ _ _ _ _ hf

@[spec 100000] theorem modExpert_v (e : Nat) (f : ExpertRec → ExpertRec)
    (hf : ∀ x, (f x).children = x.children) : VF v (modExpert e f) := by
  nv_mvcgen [modExpert]
  rename_i s h _
  rw [← h]
  exact mkView_modExpert_frame _ _ _ _ _ _ hf

end prims


/-! ## loop rule over views -/

theorem forIn_view {α β} (l : List α) (init : β) (f : α → β → M (ForInStep β))
    (Inv : List α → View → List α → β → View → Prop)
    (hstep : ∀ (done : List α) (a : α) (rest : List α) (b : β) (v : View), l = done ++ a :: rest →
       ⦃fun s => ⌜viewOf s = v⌝⦄ f a b
       ⦃post⟨fun r s => ⌜(∃ b', r = .yield b') ∧
          ∀ v0 b', r = .yield b' → Inv l v0 done b v → Inv l v0 (done ++ [a]) b' (viewOf s)⌝,
          fun _ _ => ⌜True⌝⟩⦄)
    (v : View) :
    ⦃fun s => ⌜viewOf s = v⌝⦄ forIn l init f
    ⦃post⟨fun b s => ⌜∀ v0, Inv l v0 [] init v → Inv l v0 l b (viewOf s)⌝, fun _ _ => ⌜True⌝⟩⦄ := by
  suffices h : ∀ (rest done : List α) (b : β) (v : View), l = done ++ rest →
      ⦃fun s => ⌜viewOf s = v⌝⦄ forIn rest b f
      ⦃post⟨fun b' s => ⌜∀ v0, Inv l v0 done b v → Inv l v0 l b' (viewOf s)⌝, fun _ _ => ⌜True⌝⟩⦄ by
    exact h l [] init v rfl
  intro rest
  induction rest with
  | nil =>
    intro done b v hl
    simp only [List.forIn_nil]
    nv_mvcgen0
    rename_i s h
    intro v0 hinv
    simp only [List.append_nil] at hl
    subst hl
    rw [h]; exact hinv
  | cons a rest ih =>
    intro done b v hl
    rw [List.forIn_cons]
    have h1 := hstep done a rest b v hl
    have h2 := fun b' v' => ih (done ++ [a]) b' v' (by simp [hl])
    nv_mvcgen [h1, h2]
    · rename_i hh
      obtain ⟨⟨b', hb'⟩, -⟩ := hh
      cases hb'
    · intro hh2 v0 hinv
      rename_i hh _ _
      exact hh2 v0 (hh.2 v0 _ rfl hinv)


/-! ## view updates -/

def View.setRn (v : View) (n : Nat) (r : RNode) : View :=
  { v with rn := fun m => if m = n then r else v.rn m }

theorem mkView_modify_setRn (nodes : Array Node) (binds experts dbg) (n : Nat) (f : Node → Node)
    (hn : n < nodes.size) (hk : (f (nodeAt nodes n)).kind? = (nodeAt nodes n).kind?) :
    mkView (nodes.modify n f) binds experts dbg
      = (mkView nodes binds experts dbg).setRn n (rel (f (nodeAt nodes n))) := by
  simp only [mkView, View.setRn, Array.size_modify, View.mk.injEq, true_and, and_true]
  constructor
  · funext m
    rw [nodeAt_modify]
    by_cases h : n = m
    · subst h; simp [hn]
    · have : ¬ m = n := fun e => h e.symm
      simp [h, this]
  · funext m
    rw [nodeAt_modify]; split
    · rename_i h; rw [← h.1, hk]
    · rfl

def View.setInRch (v : View) (n : Nat) (b : Bool) : View := v.setRn n { v.rn n with inRch := b }
def View.setParents (v : View) (n : Nat) (l : List (Nat × Nat)) : View := v.setRn n { v.rn n with parents := l }

/-! ## `swapRemove` -/

theorem swapRemove_spec {α} [BEq α] [LawfulBEq α] (q : List α) (x : α) (idx : Nat) (hnd : q.Nodup)
    (hidx : q.idxOf? x = some idx) :
    (∀ m, m ∈ swapRemove q idx ↔ (m ∈ q ∧ m ≠ x)) ∧ (swapRemove q idx).Nodup := by
  rw [List.idxOf?_eq_some_iff] at hidx
  obtain ⟨hlt, hget, -⟩ := hidx
  unfold swapRemove
  cases hl : q.getLast? with
  | none =>
    rw [List.getLast?_eq_none_iff] at hl
    subst hl; simp at hlt
  | some last =>
    rw [List.getLast?_eq_some_iff] at hl
    obtain ⟨ys, rfl⟩ := hl
    have hlen : (ys ++ [last]).length = ys.length + 1 := by simp
    by_cases hc : idx = ys.length
    · subst hc
      simp at hget
      subst hget
      simp [List.nodup_append] at hnd ⊢
      refine ⟨fun m => ?_, hnd.1⟩
      constructor
      · intro hm; exact ⟨Or.inl hm, hnd.2 m hm⟩
      · rintro ⟨h1 | h1, h2⟩
        · exact h1
        · exact absurd h1 h2
    · have hlt' : idx < ys.length := by omega
      rw [List.getElem_append_left hlt'] at hget
      have hys : ys = ys.take idx ++ x :: ys.drop (idx + 1) := by
        rw [← hget]; simp
      have hset : (ys ++ [last]).set idx last = (ys.take idx ++ last :: ys.drop (idx + 1)) ++ [last] := by
        rw [List.set_append, if_pos hlt', List.set_eq_take_append_cons_drop, if_pos hlt']
      have hne : (idx + 1 == (ys ++ [last]).length) = false := by
        simp; omega
      simp only [hne, hset, List.dropLast_concat]
      generalize ys.take idx = A at *
      generalize ys.drop (idx+1) = B at *
      subst hys
      simp [List.nodup_append] at hnd ⊢
      grind

/-! ### part N2 -/

/-! ## primitives that change the view -/

section prims2
variable (v : View)

macro "nf_triv" : tactic =>
  `(tactic| first
    | assumption
    | (intro x; rfl)
    | (intro x; exact ⟨rfl, rfl, rfl⟩)
    | (intros; trivial)
    | (intros; rfl))

@[spec 100000] theorem setHeight_v (n : Nat) (h : Int) : VF v (setHeight n h) := by
  nv_mvcgen [setHeight]
  all_goals nf_triv

@[spec 100000] theorem handleAfterStabilisation_v (n : Nat) : VF v (handleAfterStabilisation n) := by
  nv_mvcgen [handleAfterStabilisation]
  all_goals first | nf_triv | simp_all
  rename_i h
  exact h

@[spec 100000] theorem maybeHandleAfterStabilisation_v (n : Nat) : VF v (maybeHandleAfterStabilisation n) := by
  nv_mvcgen [maybeHandleAfterStabilisation]
  all_goals first | nf_triv | simp_all

theorem viewOf_modify_rel (s : State) (n : Nat) (f : Node → Node) (g : RNode → RNode)
    (hn : n < s.nodes.size) (hg : ∀ x, rel (f x) = g (rel x)) (hk : ∀ x, (f x).kind? = x.kind?) :
    viewOf { s with nodes := s.nodes.modify n f } = (viewOf s).setRn n (g ((viewOf s).rn n)) := by
  have := mkView_modify_setRn s.nodes s.binds s.experts s.cfg.debug n f hn (hk _)
  rw [hg] at this
  exact this

theorem modify_of_le {α} (a : Array α) (n : Nat) (f : α → α) (h : a.size ≤ n) : a.modify n f = a := by
  apply Array.ext
  · simp
  · intro j h1 h2
    rw [Array.getElem_modify]
    have : n ≠ j := by
      intro e; subst e; exact absurd h2 (Nat.not_lt.2 h)
    simp [this]

@[spec 100000] theorem addParent_v (c i p : Nat) :
    ⦃fun s => ⌜viewOf s = v⌝⦄ addParent c i p
    ⦃post⟨fun _ s => ⌜(c < v.size → viewOf s = v.setParents c ((v.rn c).parents ++ [(p, i)])) ∧
        (v.size ≤ c → viewOf s = v)⌝, fun _ _ => ⌜True⌝⟩⦄ := by
  nv_mvcgen [addParent, -modNode_v, modNode]
  rename_i s h _
  subst h
  constructor
  · intro hc
    exact viewOf_modify_rel s c _ (fun r => { r with parents := r.parents ++ [(p, i)] }) hc
      (fun _ => rfl) (fun _ => rfl)
  · intro hc
    have := modify_of_le s.nodes c (fun x => { x with parents := x.parents ++ [(p, i)] }) hc
    simp +zetaDelta only [viewOf, this]

@[spec 100000] theorem removeParent_v (c i p : Nat) :
    ⦃fun s => ⌜viewOf s = v⌝⦄ removeParent c i p
    ⦃post⟨fun _ s => ⌜∃ pi, (v.rn c).parents.idxOf? (p, i) = some pi ∧ c < v.size ∧
        viewOf s = v.setParents c (swapRemove (v.rn c).parents pi)⌝, fun _ _ => ⌜True⌝⟩⦄ := by
  nv_mvcgen [removeParent, -modNode_v, modNode]
  rename_i s1 h1 nd pi hpi s h t
  obtain ⟨h2, h3, h4⟩ := h
  subst h1
  refine ⟨pi, ?_, h4, ?_⟩
  · rw [← h3]; exact hpi
  · have hc : c < s.nodes.size := by rw [← h2] at h4; exact h4
    have := viewOf_modify_rel s c (fun x => { x with parents := swapRemove x.parents pi })
      (fun r => { r with parents := swapRemove r.parents pi }) hc (fun _ => rfl) (fun _ => rfl)
    rw [h2] at this
    exact this


theorem viewOf_def (s : State) : viewOf s = mkView s.nodes s.binds s.experts s.cfg.debug := rfl

/-- normal form of view expressions: `viewOf` of a state the program built from `s` by updating fields
the view does not read is `viewOf s` -/
macro "vnorm" : tactic =>
  `(tactic| ((try simp +zetaDelta only [viewOf] at *)
             (try simp only [← viewOf_def] at *)))

theorem node_valid (nd : Node) : nd.valid = (rel nd).valid := rfl
theorem node_inRch (nd : Node) : nd.inRch = (rel nd).inRch := rfl
theorem node_parents (nd : Node) : nd.parents = (rel nd).parents := rfl
theorem node_kind (nd : Node) : nd.kind = (rel nd).kind := rfl
theorem node_nec (nd : Node) : nd.isNecessary = (rel nd).nec := (rel_nec nd).symm
theorem node_kind? (nd : Node) : nd.kind? = if (rel nd).valid = true then some (rel nd).kind else none := rfl
theorem state_nec (s : State) (n : Nat) : s.isNecessary n = ((viewOf s).rn n).nec := (viewOf_nec s n).symm
theorem state_ch (s : State) (n : Nat) : s.children n = (viewOf s).ch n := (viewOf_ch s n).symm
theorem state_debug (s : State) : s.cfg.debug = (viewOf s).debug := rfl
theorem state_size (s : State) : s.nodes.size = (viewOf s).size := rfl
theorem state_rn (s : State) (n : Nat) : rel (s.nodeD n) = (viewOf s).rn n := rfl

/-- every fact about a state or a node expressed through the view at entry -/
macro "vsimp" : tactic =>
  `(tactic| ((try simp +zetaDelta only [node_valid, node_inRch, node_parents, node_kind, node_nec, node_kind?,
               state_nec, state_ch, state_debug, state_size, state_rn, State.needsToBeComputed] at *)
             vnorm
             split_ands
             try simp_all only [true_and, and_true]))

/-- closes frame goals -/
macro "vf_triv" : tactic =>
  `(tactic| first
    | assumption
    | exact ‹viewOf _ = _›
    | exact (‹viewOf _ = _ ∧ _›).1
    | nf_triv)

@[spec 100000] theorem rchMinHeight_v : VF v rchMinHeight := by
  nv_mvcgen [rchMinHeight]
  all_goals vf_triv

theorem viewOf_setMarker (s : State) (n : Nat) (h : Int) (hn : n < s.nodes.size) :
    viewOf { s with nodes := s.nodes.modify n fun x => { x with heightInRch := h } }
      = (viewOf s).setInRch n (decide (h ≥ 0)) :=
  viewOf_modify_rel s n _ (fun r => { r with inRch := decide (h ≥ 0) }) hn (fun _ => rfl) (fun _ => rfl)

theorem rchLink_v (n : Nat) :
    ⦃fun s => ⌜viewOf s = v⌝⦄ rchLink n
    ⦃post⟨fun _ s => ⌜viewOf s = v.setInRch n true ∧ n < v.size⌝, fun _ _ => ⌜True⌝⟩⦄ := by
  nv_mvcgen [rchLink, -modNode_v, modNode]
  rename_i s3 h3 nd s2 h2 _ s1 h1 _ s h t1 t
  have hn : n < s.nodes.size := by
    have := h2.2.2
    rw [← h2.1, ← h1.1, ← h.1] at this; exact this
  have e := viewOf_setMarker s n nd.height hn
  have hh : decide (nd.height ≥ 0) = true := h1.2
  rw [hh, h.1, h1.1, h2.1, h3] at e
  refine ⟨e, ?_⟩
  rw [← h3]; exact h2.2.2


theorem isStale_valid (s : State) (n : Nat) (h : s.isStale n = true) : (s.nodeD n).valid = true := by
  unfold State.isStale at h
  simp only [Node.kind?] at h
  by_cases hv : (s.nodeD n).valid = true
  · exact hv
  · simp [hv] at h

@[spec 100000] theorem rchInsert_v (n : Nat) :
    ⦃fun s => ⌜viewOf s = v⌝⦄ rchInsert n
    ⦃post⟨fun _ s => ⌜viewOf s = v.setInRch n true ∧ n < v.size ∧
        (v.debug = true → (v.rn n).nec = true ∧ (v.rn n).valid = true)⌝, fun _ _ => ⌜True⌝⟩⦄ := by
  have hl := rchLink_v
  nv_mvcgen [rchInsert, hl]
  all_goals vsimp
  all_goals
    intro hd
    have h := ‹v.debug = true → (!_ && (_ && _)) = true› hd
    simp only [Bool.and_eq_true] at h
    have hv := isStale_valid _ _ h.2.2
    vsimp


theorem View.setRn_self (v : View) (n : Nat) (r : RNode) (h : v.rn n = r) : v.setRn n r = v := by
  cases v
  simp only [View.setRn, View.mk.injEq, true_and, and_true]
  funext m
  split
  · rename_i e; rw [e]; exact h.symm
  · rfl

theorem View.setInRch_self (v : View) (n : Nat) (b : Bool) (h : (v.rn n).inRch = b) : v.setInRch n b = v := by
  apply View.setRn_self
  subst h; rfl

theorem viewOf_rn_of_le (s : State) (n : Nat) (h : s.nodes.size ≤ n) : (viewOf s).rn n = rel default := by
  simp [viewOf, mkView, nodeAt_of_le _ _ h]

theorem viewOf_clearMarker (s : State) (n : Nat) :
    viewOf { s with nodes := s.nodes.modify n fun x => { x with heightInRch := -1 } }
      = (viewOf s).setInRch n false := by
  by_cases hn : n < s.nodes.size
  · exact viewOf_setMarker s n (-1) hn
  · have hle : s.nodes.size ≤ n := Nat.le_of_not_lt hn
    rw [View.setInRch_self]
    · simp only [viewOf, modify_of_le _ _ _ hle]
    · rw [viewOf_rn_of_le _ _ hle]; rfl

theorem mkView_clearMarker (s : State) (n : Nat) (v : View) (h : viewOf s = v) :
    mkView (s.nodes.modify n fun x => { x with heightInRch := -1 }) s.binds s.experts s.cfg.debug
      = v.setInRch n false := by
  rw [← h]; exact viewOf_clearMarker s n

theorem rchUnlink_v (n : Nat) :
    ⦃fun s => ⌜viewOf s = v⌝⦄ rchUnlink n
    ⦃post⟨fun _ s => ⌜viewOf s = v ∧ (v.rn n).inRch = true⌝, fun _ _ => ⌜True⌝⟩⦄ := by
  nv_mvcgen [rchUnlink]
  vsimp
  rw [← ‹rel _ = v.rn n›]
  simp only [rel, Node.inRch, decide_eq_true_eq]
  have := ‹¬ Node.heightInRch _ < 0›
  omega

@[spec 100000] theorem rchRemove_v (n : Nat) :
    ⦃fun s => ⌜viewOf s = v⌝⦄ rchRemove n
    ⦃post⟨fun _ s => ⌜viewOf s = v.setInRch n false⌝, fun _ _ => ⌜True⌝⟩⦄ := by
  have hu := rchUnlink_v
  nv_mvcgen [rchRemove, hu, -modNode_v, modNode]
  vnorm
  rw [mkView_clearMarker _ n _ rfl]
  vsimp

@[spec 100000] theorem rchIncreaseHeight_v (n : Nat) : VF v (rchIncreaseHeight n) := by
  have hu := rchUnlink_v
  have hl := rchLink_v
  nv_mvcgen [rchIncreaseHeight, hu, hl]
  vsimp
  intro _ _
  exact View.setInRch_self _ _ _ (by assumption)

@[spec 100000] theorem rchRemoveMin_v :
    ⦃fun s => ⌜viewOf s = v⌝⦄ rchRemoveMin
    ⦃post⟨fun r s => ⌜match r with
        | none => viewOf s = v
        | some n => viewOf s = v.setInRch n false⌝, fun _ _ => ⌜True⌝⟩⦄ := by
  nv_mvcgen [rchRemoveMin, -modNode_v, modNode]
  all_goals vnorm
  all_goals try rw [mkView_clearMarker _ _ _ rfl]
  all_goals vsimp

end prims2

/-! ### part N3 -/

/-- loop rule: a loop whose body does not change the view does not change the view -/
theorem forIn_vf {α β} (v : View) (l : List α) (init : β) (f : α → β → M (ForInStep β))
    (hf : ∀ a b v, VF v (f a b)) : VF v (forIn l init f) := by
  induction l generalizing init with
  | nil => simp only [List.forIn_nil]; nv_mvcgen0
  | cons a l ih =>
    rw [List.forIn_cons]
    have := hf a init
    nv_mvcgen [this, ih]
    all_goals vsimp

/-- closes what `mvcgen` leaves for functions that do not change the view -/
macro "vf_fin" : tactic =>
  `(tactic| (all_goals (try vsimp); all_goals first | vf_triv | skip))

section frames
variable (v : View)

@[spec 100000] theorem scopeHeight_v (sc : Scope) : VF v (scopeHeight sc) := by
  nv_mvcgen [scopeHeight]
  vf_fin
@[spec 100000] theorem scopeIsNecessary_v (sc : Scope) : VF v (scopeIsNecessary sc) := by
  nv_mvcgen [scopeIsNecessary]
  vf_fin
@[spec 100000] theorem scopeIsValid_v (sc : Scope) : VF v (scopeIsValid sc) := by
  nv_mvcgen [scopeIsValid]
  vf_fin
@[spec 100000] theorem ahhAddUnlessMem_v (n : Nat) : VF v (ahhAddUnlessMem n) := by
  nv_mvcgen [ahhAddUnlessMem]
  vf_fin
@[spec 100000] theorem ahhRemoveMin_v : VF v ahhRemoveMin := by
  nv_mvcgen [ahhRemoveMin]
  vf_fin
@[spec 100000] theorem ensureHeightRequirement_v (oc op c p : Nat) : VF v (ensureHeightRequirement oc op c p) := by
  nv_mvcgen [ensureHeightRequirement]
  vf_fin

@[spec 100000] theorem adjustHeightsLoop_v (oc op fuel : Nat) : VF v (adjustHeightsLoop oc op fuel) := by
  induction fuel generalizing v with
  | zero => nv_mvcgen [adjustHeightsLoop]
  | succ fuel ih =>
    nv_mvcgen [adjustHeightsLoop, ih, -Spec.forIn_list, forIn_vf]
    vf_fin

@[spec 100000] theorem adjustHeights_v (oc op fuel : Nat) : VF v (adjustHeights oc op fuel) := by
  nv_mvcgen [adjustHeights]
  vf_fin

@[spec 100000] theorem shouldCutoff_v (env : Env) (n : Nat) (o w : Val) : VF v (shouldCutoff env n o w) := by
  nv_mvcgen [shouldCutoff]
  vf_fin
@[spec 100000] theorem edgeOnChange_v (env : Env) (e : Nat) (edge : ExpertEdge) : VF v (edgeOnChange env e edge) := by
  nv_mvcgen [edgeOnChange]
  vf_fin
@[spec 100000] theorem runEdgeCallback_v (env : Env) (e i : Nat) : VF v (runEdgeCallback env e i) := by
  nv_mvcgen [runEdgeCallback]
  vf_fin
@[spec 100000] theorem observabilityChange_v (e : Nat) (b : Bool) : VF v (observabilityChange e b) := by
  nv_mvcgen [observabilityChange]
  vf_fin

@[spec 100000] theorem markMapRefUnknown_v (fuel n : Nat) : VF v (markMapRefUnknown fuel n) := by
  induction fuel generalizing v n with
  | zero => nv_mvcgen [markMapRefUnknown]
  | succ fuel ih =>
    nv_mvcgen [markMapRefUnknown, ih, -Spec.forIn_list, forIn_vf]
    vf_fin

end frames

/-! ### part N4 -/

/-! ## the invariant on views -/

def HasEdge (v : View) (p : Nat) : Prop := ∃ c i, (p, i) ∈ (v.rn c).parents

/-- bind-main and expert kinds name their record injectively, the record exists, and the `main` entry of
a bind record is the main node of that bind (in particular it exists) -/
structure KindOK (v : View) : Prop where
  bmInj : ∀ n n' b lc lc', (v.rn n).kind = .bindMain b lc → (v.rn n').kind = .bindMain b lc' → n = n'
  bmLt : ∀ n b lc, (v.rn n).kind = .bindMain b lc → b < v.nb
  exInj : ∀ n n' e, (v.rn n).kind = .expert e → (v.rn n').kind = .expert e → n = n'
  exLt : ∀ n e, (v.rn n).kind = .expert e → e < v.ne
  bmHas : ∀ b m, v.bmain b = some m → ∃ lc, (v.rn m).kind = .bindMain b lc
  bmOf : ∀ m b lc, (v.rn m).kind = .bindMain b lc → v.bmain b = some m
  blLt : ∀ n b, (v.rn n).kind = .bindLhsChange b → b < v.nb

theorem KindOK.congr {v v' : View} (h : KindOK v) (hk : ∀ m, (v'.rn m).kind = (v.rn m).kind)
    (hnb : v'.nb = v.nb) (hne : v'.ne = v.ne) (hbm : v'.bmain = v.bmain) : KindOK v' := by
  refine ⟨?_, ?_, ?_, ?_, ?_, ?_, ?_⟩
  · intro n n' b lc lc' h1 h2; rw [hk] at h1 h2; exact h.bmInj n n' b lc lc' h1 h2
  · intro n b lc h1; rw [hk] at h1; rw [hnb]; exact h.bmLt n b lc h1
  · intro n n' e h1 h2; rw [hk] at h1 h2; exact h.exInj n n' e h1 h2
  · intro n e h1; rw [hk] at h1; rw [hne]; exact h.exLt n e h1
  · intro b m h1; rw [hbm] at h1; obtain ⟨lc, h2⟩ := h.bmHas b m h1; exact ⟨lc, by rw [hk]; exact h2⟩
  · intro m b lc h1; rw [hk] at h1; rw [hbm]; exact h.bmOf m b lc h1
  · intro n b h1; rw [hk] at h1; rw [hnb]; exact h.blLt n b h1

/-- the part of the invariant that holds at every point of the unlinking cascade -/
structure J (v : View) : Prop where
  dbg : v.debug = true
  e1 : ∀ c p i, (p, i) ∈ (v.rn c).parents → (v.ch p)[i]? = some c
  e3v : ∀ n, (v.rn n).inRch = true → (v.rn n).valid = true
  e4 : ∀ c, (v.rn c).parents.Nodup
  k : KindOK v
  chv : ∀ m, (v.rn m).valid = false → v.ch m = []

/-- an unnecessary node that is still recorded as a parent, or still queued -/
def Bad (v : View) (p : Nat) : Prop :=
  (v.rn p).nec = false ∧ (HasEdge v p ∨ (v.rn p).inRch = true)

/-- the invariant -/
structure NecV (v : View) : Prop extends J v where
  nobad : ∀ p, ¬ Bad v p

theorem NecV.e2 {v : View} (h : NecV v) (c p i : Nat) (hm : (p, i) ∈ (v.rn c).parents) :
    (v.rn p).nec = true := by
  cases hn : (v.rn p).nec with
  | true => rfl
  | false => exact absurd ⟨hn, Or.inl ⟨c, i, hm⟩⟩ (h.nobad p)

theorem NecV.e3 {v : View} (h : NecV v) (n : Nat) (hm : (v.rn n).inRch = true) :
    (v.rn n).nec = true ∧ (v.rn n).valid = true := by
  refine ⟨?_, h.e3v n hm⟩
  cases hn : (v.rn n).nec with
  | true => rfl
  | false => exact absurd ⟨hn, Or.inr hm⟩ (h.nobad n)

theorem NecV.of {v : View} (hj : J v) (h2 : ∀ c p i, (p, i) ∈ (v.rn c).parents → (v.rn p).nec = true)
    (h3 : ∀ n, (v.rn n).inRch = true → (v.rn n).nec = true) : NecV v := by
  refine ⟨hj, ?_⟩
  rintro p ⟨hn, ⟨c, i, hm⟩ | hq⟩
  · rw [h2 c p i hm] at hn; cases hn
  · rw [h3 p hq] at hn; cases hn

/-! ## the unlinking cascade -/

/-- what the unlinking cascade may change: parent lists shrink, queue markers are cleared -/
structure URel (v v' : View) : Prop where
  size : v'.size = v.size
  nb : v'.nb = v.nb
  ne : v'.ne = v.ne
  ch : v'.ch = v.ch
  bmain : v'.bmain = v.bmain
  debug : v'.debug = v.debug
  kind : ∀ m, (v'.rn m).kind = (v.rn m).kind
  valid : ∀ m, (v'.rn m).valid = (v.rn m).valid
  base : ∀ m, (v'.rn m).base = (v.rn m).base
  par : ∀ m x, x ∈ (v'.rn m).parents → x ∈ (v.rn m).parents
  inRch : ∀ m, (v'.rn m).inRch = true → (v.rn m).inRch = true

theorem URel.refl (v : View) : URel v v :=
  ⟨rfl, rfl, rfl, rfl, rfl, rfl, fun _ => rfl, fun _ => rfl, fun _ => rfl, fun _ _ h => h, fun _ h => h⟩

theorem URel.trans {a b c : View} (h1 : URel a b) (h2 : URel b c) : URel a c :=
  ⟨h2.size.trans h1.size, h2.nb.trans h1.nb, h2.ne.trans h1.ne, h2.ch.trans h1.ch,
   h2.bmain.trans h1.bmain, h2.debug.trans h1.debug,
   fun m => (h2.kind m).trans (h1.kind m), fun m => (h2.valid m).trans (h1.valid m),
   fun m => (h2.base m).trans (h1.base m), fun m x h => h1.par m x (h2.par m x h),
   fun m h => h1.inRch m (h2.inRch m h)⟩

theorem URel.hasEdge {v v' : View} (h : URel v v') {p : Nat} (he : HasEdge v' p) : HasEdge v p := by
  obtain ⟨c, i, hm⟩ := he
  exact ⟨c, i, h.par c _ hm⟩

theorem URel.nec {v v' : View} (h : URel v v') (m : Nat) (hn : (v'.rn m).nec = true) : (v.rn m).nec = true := by
  simp only [RNode.nec, Bool.or_eq_true, Bool.not_eq_true', List.isEmpty_eq_false_iff] at hn ⊢
  rcases hn with hn | hn
  · left
    obtain ⟨x, hx⟩ := List.exists_mem_of_ne_nil _ hn
    exact List.ne_nil_of_mem (h.par m x hx)
  · right; rw [← h.base]; exact hn

/-- the state of a view after `removeParent c i p` -/
theorem remPar_step {v : View} {c p i pi : Nat} (hJ : J v)
    (hidx : (v.rn c).parents.idxOf? (p, i) = some pi) :
    J (v.setParents c (swapRemove (v.rn c).parents pi)) ∧
    URel v (v.setParents c (swapRemove (v.rn c).parents pi)) ∧
    (∀ q, Bad (v.setParents c (swapRemove (v.rn c).parents pi)) q → Bad v q ∨ q = c) ∧
    (∀ m x, x ∈ ((v.setParents c (swapRemove (v.rn c).parents pi)).rn m).parents →
      x ∈ (v.rn m).parents ∧ ¬ (m = c ∧ x = (p, i))) := by
  obtain ⟨hmem, hnd⟩ := swapRemove_spec _ _ _ (hJ.e4 c) hidx
  have hpar : ∀ m x, x ∈ ((v.setParents c (swapRemove (v.rn c).parents pi)).rn m).parents →
      x ∈ (v.rn m).parents ∧ ¬ (m = c ∧ x = (p, i)) := by
    intro m x hx
    simp only [View.setParents, View.setRn] at hx
    split at hx
    · rename_i e; subst e
      have := (hmem x).1 hx
      exact ⟨this.1, fun h => this.2 h.2⟩
    · rename_i e; exact ⟨hx, fun h => e h.1⟩
  have hother : ∀ m, m ≠ c → (v.setParents c (swapRemove (v.rn c).parents pi)).rn m = v.rn m := by
    intro m hm; simp [View.setParents, View.setRn, hm]
  have hself : (v.setParents c (swapRemove (v.rn c).parents pi)).rn c =
      { v.rn c with parents := swapRemove (v.rn c).parents pi } := by
    simp [View.setParents, View.setRn]
  have hrel : URel v (v.setParents c (swapRemove (v.rn c).parents pi)) := by
    refine ⟨rfl, rfl, rfl, rfl, rfl, rfl, ?_, ?_, ?_, fun m x h => (hpar m x h).1, ?_⟩ <;> intro m <;>
      by_cases hm : m = c
    all_goals first
      | (subst hm; rw [hself]; try (intro h; exact h))
      | (rw [hother m hm]; try (intro h; exact h))
  refine ⟨⟨hJ.dbg, ?_, ?_, ?_, ?_, fun m hm => hJ.chv m (by rw [← hrel.valid]; exact hm)⟩, hrel, ?_, hpar⟩
  · intro c' p' i' hm
    exact hJ.e1 c' p' i' (hpar c' _ hm).1
  · intro n hn
    rw [hrel.valid]; exact hJ.e3v n (hrel.inRch n hn)
  · intro c'
    by_cases hm : c' = c
    · subst hm; rw [hself]; exact hnd
    · rw [hother c' hm]; exact hJ.e4 c'
  · exact hJ.k.congr hrel.kind rfl rfl rfl
  · rintro q ⟨hn, hb⟩
    by_cases hq : q = c
    · exact Or.inr hq
    · left
      rw [hother q hq] at hn hb
      refine ⟨hn, ?_⟩
      rcases hb with hb | hb
      · exact Or.inl (hrel.hasEdge hb)
      · exact Or.inr hb

/-! ### part N5 -/

/-- result of `checkIfUnnecessary c` / `becameUnnecessary c` -/
def UPost (c : Nat) (v v' : View) : Prop :=
  J v → J v' ∧ URel v v' ∧ ∀ p, Bad v' p → Bad v p ∧ p ≠ c

/-- result of `removeChildren n` -/
def RCPost (n : Nat) (v v' : View) : Prop :=
  J v → J v' ∧ URel v v' ∧ (∀ p, Bad v' p → Bad v p) ∧ ¬ HasEdge v' n

/-- loop invariant of `removeChildren n` -/
def RCInv (n : Nat) (l : List Nat) (v0 : View) (done : List Nat) (idx : Nat) (v : View) : Prop :=
  idx = done.length ∧
  (l = v0.ch n → J v0 → J v ∧ URel v0 v ∧ (∀ p, Bad v p → Bad v0 p) ∧
    ∀ c i, (n, i) ∈ (v.rn c).parents → done.length ≤ i)

abbrev CUT (fuel : Nat) (v : View) (c : Nat) : Prop :=
  ⦃fun s => ⌜viewOf s = v⌝⦄ checkIfUnnecessary fuel c
  ⦃post⟨fun _ s => ⌜UPost c v (viewOf s)⌝, fun _ _ => ⌜True⌝⟩⦄
abbrev BUT (fuel : Nat) (v : View) (n : Nat) : Prop :=
  ⦃fun s => ⌜viewOf s = v⌝⦄ becameUnnecessary fuel n
  ⦃post⟨fun _ s => ⌜(v.rn n).nec = false → UPost n v (viewOf s)⌝, fun _ _ => ⌜True⌝⟩⦄
abbrev RCT (fuel : Nat) (v : View) (n : Nat) : Prop :=
  ⦃fun s => ⌜viewOf s = v⌝⦄ removeChildren fuel n
  ⦃post⟨fun _ s => ⌜RCPost n v (viewOf s)⌝, fun _ _ => ⌜True⌝⟩⦄

theorem rcInv_step {n : Nat} {l done rest : List Nat} {a b pi : Nat} {v v1 v2 v0 : View}
    (hl : l = done ++ a :: rest)
    (hidx : (v.rn a).parents.idxOf? (n, b) = some pi)
    (hv1 : v1 = v.setParents a (swapRemove (v.rn a).parents pi))
    (hcu : UPost a v1 v2) (hinv : RCInv n l v0 done b v) : RCInv n l v0 (done ++ [a]) (b + 1) v2 := by
  obtain ⟨hb, hinv⟩ := hinv
  refine ⟨by simp [hb], fun hl0 hJ0 => ?_⟩
  obtain ⟨hJ, hrel, hbad, hedge⟩ := hinv hl0 hJ0
  obtain ⟨hJ1, hrel1, hbad1, hpar1⟩ := remPar_step hJ hidx
  rw [← hv1] at hJ1 hrel1 hbad1 hpar1
  obtain ⟨hJ2, hrel2, hbad2⟩ := hcu hJ1
  refine ⟨hJ2, (hrel.trans hrel1).trans hrel2, ?_, ?_⟩
  · intro p hp
    obtain ⟨h1, hne⟩ := hbad2 p hp
    rcases hbad1 p h1 with h | h
    · exact hbad p h
    · exact absurd h hne
  · intro c i hm
    have hm1 := hrel2.par c _ hm
    obtain ⟨hm0, hnot⟩ := hpar1 c _ hm1
    have hle := hedge c i hm0
    simp only [List.length_append, List.length_singleton]
    by_cases hi : i = done.length
    · exfalso
      have he1 := hJ.e1 c n i hm0
      rw [hrel.ch, ← hl0, hl, hi] at he1
      simp at he1
      apply hnot
      exact ⟨he1.symm, by rw [hi, hb]⟩
    · omega

theorem rcInv_final {n : Nat} {v v' : View} {r : Nat}
    (h : ∀ v0, RCInv n (v.ch n) v0 [] 0 v → RCInv n (v.ch n) v0 (v.ch n) r v') : RCPost n v v' := by
  intro hJ
  have h0 : RCInv n (v.ch n) v [] 0 v :=
    ⟨rfl, fun _ _ => ⟨hJ, URel.refl v, fun _ h => h, fun _ _ _ => Nat.zero_le _⟩⟩
  obtain ⟨-, h1⟩ := h v h0
  obtain ⟨hJ', hrel, hbad, hedge⟩ := h1 rfl hJ
  refine ⟨hJ', hrel, hbad, ?_⟩
  rintro ⟨c, i, hm⟩
  have := hedge c i hm
  have he1 := hJ'.e1 c n i hm
  rw [hrel.ch] at he1
  have : i < (v.ch n).length := by
    rcases Nat.lt_or_ge i (v.ch n).length with h | h
    · exact h
    · rw [List.getElem?_eq_none h] at he1; cases he1
  omega

theorem rc_step (fuel : Nat) (ih : ∀ v c, CUT fuel v c) (v : View) (n : Nat) : RCT (fuel + 1) v n := by
  have hl := fun l init f => forIn_view l init f (RCInv n)
  nv_mvcgen [removeChildren, ih, -Spec.forIn_list, hl]
  · refine ⟨⟨_, rfl⟩, ?_⟩
    intro v0 b' hb' hinv
    cases hb'
    rename_i hl s2 hv r1 s1 hrp r idx s hcu
    obtain ⟨pi, hidx, -, hv1⟩ := hrp
    rw [hv] at hidx hv1
    exact rcInv_step hl hidx hv1 hcu hinv
  · rename_i s1 hv1 _ r s h
    rw [← hv1]
    apply rcInv_final (r := r)
    rw [viewOf_ch]
    exact h


theorem clearRch_step {v : View} (n : Nat) (hJ : J v) :
    J (v.setInRch n false) ∧ URel v (v.setInRch n false) ∧
    (∀ p, Bad (v.setInRch n false) p → Bad v p ∧ (p = n → HasEdge v n)) := by
  have hother : ∀ m, m ≠ n → (v.setInRch n false).rn m = v.rn m := by
    intro m hm; simp [View.setInRch, View.setRn, hm]
  have hself : (v.setInRch n false).rn n = { v.rn n with inRch := false } := by
    simp [View.setInRch, View.setRn]
  have hrel : URel v (v.setInRch n false) := by
    refine ⟨rfl, rfl, rfl, rfl, rfl, rfl, ?_, ?_, ?_, ?_, ?_⟩ <;> intro m <;> by_cases hm : m = n
    · subst hm; rw [hself]
    · rw [hother m hm]
    · subst hm; rw [hself]
    · rw [hother m hm]
    · subst hm; rw [hself]
    · rw [hother m hm]
    · subst hm; rw [hself]; exact fun x h => h
    · rw [hother m hm]; exact fun x h => h
    · subst hm; rw [hself]; intro h; cases h
    · rw [hother m hm]; exact fun h => h
  have hpar : ∀ m, ((v.setInRch n false).rn m).parents = (v.rn m).parents := by
    intro m
    by_cases hm : m = n
    · subst hm; rw [hself]
    · rw [hother m hm]
  refine ⟨⟨hJ.dbg, ?_, ?_, ?_, hJ.k.congr hrel.kind rfl rfl rfl,
    fun m hm => hJ.chv m (by rw [← hrel.valid]; exact hm)⟩, hrel, ?_⟩
  · intro c p i hm; rw [hpar] at hm; exact hJ.e1 c p i hm
  · intro m hm; rw [hrel.valid]; exact hJ.e3v m (hrel.inRch m hm)
  · intro c; rw [hpar]; exact hJ.e4 c
  · rintro p ⟨hn, hb⟩
    have hnec : (v.rn p).nec = false := by
      cases h : (v.rn p).nec with
      | false => rfl
      | true =>
        have : ((v.setInRch n false).rn p).nec = true := by
          simp only [RNode.nec, hpar, hrel.base]; exact h
        rw [this] at hn; cases hn
    have hedge : ∀ q, HasEdge (v.setInRch n false) q → HasEdge v q := fun q h => hrel.hasEdge h
    rcases hb with hb | hb
    · exact ⟨⟨hnec, Or.inl (hedge p hb)⟩, fun _ => by subst_vars; exact hedge _ hb⟩
    · by_cases hp : p = n
      · subst hp; rw [hself] at hb; cases hb
      · rw [hother p hp] at hb
        exact ⟨⟨hnec, Or.inr hb⟩, fun h => absurd h hp⟩

theorem bu_final {n : Nat} {v v1 : View} (hn : (v.rn n).nec = false) (h1 : RCPost n v v1) :
    UPost n v (v1.setInRch n false) := by
  intro hJ
  obtain ⟨hJ1, hrel1, hbad1, hne⟩ := h1 hJ
  obtain ⟨hJ2, hrel2, hbad2⟩ := clearRch_step n hJ1
  refine ⟨hJ2, hrel1.trans hrel2, ?_⟩
  intro p hp
  obtain ⟨hb, hpn⟩ := hbad2 p hp
  exact ⟨hbad1 p hb, fun e => hne (hpn e)⟩

theorem bu_step (fuel : Nat) (ih : ∀ v n, RCT fuel v n) (v : View) (n : Nat) : BUT (fuel + 1) v n := by
  nv_mvcgen [becameUnnecessary, ih]
  all_goals vsimp
  all_goals first
    | (intro _ hn; exact bu_final hn ‹RCPost n v _›)
    | (intro hn
       have h1 := bu_final hn ‹RCPost n v _›
       rw [View.setInRch_self _ _ _ (by simpa using ‹¬ _ = true›)] at h1
       exact h1)


theorem cu_step (fuel : Nat) (ih : ∀ v n, BUT fuel v n) (v : View) (c : Nat) : CUT (fuel + 1) v c := by
  nv_mvcgen [checkIfUnnecessary, ih]
  all_goals vsimp
  · intro h
    exact h (by simpa using ‹(!(v.rn c).nec) = true›)
  · intro hJ
    refine ⟨hJ, URel.refl v, ?_⟩
    rintro p hb
    refine ⟨hb, ?_⟩
    rintro rfl
    have := hb.1
    simp_all

theorem unlink_specs (fuel : Nat) :
    (∀ v n, BUT fuel v n) ∧ (∀ v c, CUT fuel v c) ∧ (∀ v n, RCT fuel v n) := by
  induction fuel with
  | zero =>
    refine ⟨?_, ?_, ?_⟩ <;> intro v n
    · nv_mvcgen [becameUnnecessary]
    · nv_mvcgen [checkIfUnnecessary]
    · nv_mvcgen [removeChildren]
  | succ fuel ih =>
    obtain ⟨ih1, ih2, ih3⟩ := ih
    exact ⟨bu_step fuel ih3, cu_step fuel ih1, rc_step fuel ih2⟩

@[spec 100000] theorem becameUnnecessary_v (v : View) (fuel n : Nat) : BUT fuel v n := (unlink_specs fuel).1 v n
@[spec 100000] theorem checkIfUnnecessary_v (v : View) (fuel c : Nat) : CUT fuel v c := (unlink_specs fuel).2.1 v c
@[spec 100000] theorem removeChildren_v (v : View) (fuel n : Nat) : RCT fuel v n := (unlink_specs fuel).2.2 v n

/-! ### part N6 -/

/-! ## the linking cascade -/

/-- what the linking cascade may change: parent lists grow, queue markers are set -/
structure LRel (v v' : View) : Prop where
  size : v'.size = v.size
  nb : v'.nb = v.nb
  ne : v'.ne = v.ne
  ch : v'.ch = v.ch
  bmain : v'.bmain = v.bmain
  debug : v'.debug = v.debug
  kind : ∀ m, (v'.rn m).kind = (v.rn m).kind
  valid : ∀ m, (v'.rn m).valid = (v.rn m).valid
  base : ∀ m, (v'.rn m).base = (v.rn m).base
  par : ∀ m x, x ∈ (v.rn m).parents → x ∈ (v'.rn m).parents
  inRch : ∀ m, (v.rn m).inRch = true → (v'.rn m).inRch = true

theorem LRel.refl (v : View) : LRel v v :=
  ⟨rfl, rfl, rfl, rfl, rfl, rfl, fun _ => rfl, fun _ => rfl, fun _ => rfl, fun _ _ h => h, fun _ h => h⟩

theorem LRel.trans {a b c : View} (h1 : LRel a b) (h2 : LRel b c) : LRel a c :=
  ⟨h2.size.trans h1.size, h2.nb.trans h1.nb, h2.ne.trans h1.ne, h2.ch.trans h1.ch,
   h2.bmain.trans h1.bmain, h2.debug.trans h1.debug,
   fun m => (h2.kind m).trans (h1.kind m), fun m => (h2.valid m).trans (h1.valid m),
   fun m => (h2.base m).trans (h1.base m), fun m x h => h2.par m x (h1.par m x h),
   fun m h => h2.inRch m (h1.inRch m h)⟩

theorem LRel.nec {v v' : View} (h : LRel v v') (m : Nat) (hn : (v.rn m).nec = true) : (v'.rn m).nec = true := by
  simp only [RNode.nec, Bool.or_eq_true, Bool.not_eq_true', List.isEmpty_eq_false_iff] at hn ⊢
  rcases hn with hn | hn
  · left
    obtain ⟨x, hx⟩ := List.exists_mem_of_ne_nil _ hn
    exact List.ne_nil_of_mem (h.par m x hx)
  · right; rw [h.base]; exact hn

theorem nec_of_mem {r : RNode} {x : Nat × Nat} (h : x ∈ r.parents) : r.nec = true := by
  simp only [RNode.nec, Bool.or_eq_true, Bool.not_eq_true', List.isEmpty_eq_false_iff]
  exact Or.inl (List.ne_nil_of_mem h)

/-- the view after `addParent c idx p` -/
theorem addPar_step {v : View} {c p idx : Nat} (h : NecV v) (hp : (v.rn p).nec = true)
    (hch : (v.ch p)[idx]? = some c) (hnew : (p, idx) ∉ (v.rn c).parents) :
    NecV (v.setParents c ((v.rn c).parents ++ [(p, idx)])) ∧
    LRel v (v.setParents c ((v.rn c).parents ++ [(p, idx)])) ∧
    (∀ m x, x ∈ ((v.setParents c ((v.rn c).parents ++ [(p, idx)])).rn m).parents →
      x ∈ (v.rn m).parents ∨ (m = c ∧ x = (p, idx))) ∧
    ((v.setParents c ((v.rn c).parents ++ [(p, idx)])).rn c).nec = true := by
  have hother : ∀ m, m ≠ c → (v.setParents c ((v.rn c).parents ++ [(p, idx)])).rn m = v.rn m := by
    intro m hm; simp [View.setParents, View.setRn, hm]
  have hself : (v.setParents c ((v.rn c).parents ++ [(p, idx)])).rn c =
      { v.rn c with parents := (v.rn c).parents ++ [(p, idx)] } := by
    simp [View.setParents, View.setRn]
  have hpar : ∀ m x, x ∈ ((v.setParents c ((v.rn c).parents ++ [(p, idx)])).rn m).parents →
      x ∈ (v.rn m).parents ∨ (m = c ∧ x = (p, idx)) := by
    intro m x hx
    by_cases hm : m = c
    · subst hm
      rw [hself] at hx
      simp only [List.mem_append, List.mem_singleton] at hx
      rcases hx with hx | hx
      · exact Or.inl hx
      · exact Or.inr ⟨rfl, hx⟩
    · rw [hother m hm] at hx; exact Or.inl hx
  have hrel : LRel v (v.setParents c ((v.rn c).parents ++ [(p, idx)])) := by
    refine ⟨rfl, rfl, rfl, rfl, rfl, rfl, ?_, ?_, ?_, ?_, ?_⟩ <;> intro m <;> by_cases hm : m = c
    · subst hm; rw [hself]
    · rw [hother m hm]
    · subst hm; rw [hself]
    · rw [hother m hm]
    · subst hm; rw [hself]
    · rw [hother m hm]
    · subst hm; rw [hself]; intro x hx; exact List.mem_append_left _ hx
    · rw [hother m hm]; exact fun x h => h
    · subst hm; rw [hself]; exact fun h => h
    · rw [hother m hm]; exact fun h => h
  have hnecc : ((v.setParents c ((v.rn c).parents ++ [(p, idx)])).rn c).nec = true := by
    rw [hself]; exact nec_of_mem (x := (p, idx)) (by simp)
  refine ⟨?_, hrel, hpar, hnecc⟩
  apply NecV.of
  · refine ⟨h.dbg, ?_, ?_, ?_, h.k.congr hrel.kind rfl rfl rfl,
      fun m hm => h.chv m (by rw [← hrel.valid]; exact hm)⟩
    · intro c' p' i' hm
      rcases hpar c' _ hm with h1 | ⟨h1, h2⟩
      · exact h.e1 c' p' i' h1
      · cases h2; subst h1; exact hch
    · intro m hm
      rw [hrel.valid]
      apply h.e3v
      by_cases hmc : m = c
      · subst hmc; rw [hself] at hm; exact hm
      · rw [hother m hmc] at hm; exact hm
    · intro m
      by_cases hmc : m = c
      · subst hmc; rw [hself]
        simp only [List.nodup_append, List.nodup_cons, List.not_mem_nil, not_false_eq_true,
          List.nodup_nil, and_self, List.mem_singleton, true_and]
        refine ⟨h.e4 m, ?_⟩
        intro a ha b hb
        subst hb
        intro e; subst e; exact hnew ha
      · rw [hother m hmc]; exact h.e4 m
  · intro c' p' i' hm
    apply hrel.nec
    rcases hpar c' _ hm with h1 | ⟨h1, h2⟩
    · exact h.e2 c' p' i' h1
    · cases h2; exact hp
  · intro m hm
    apply hrel.nec
    apply (h.e3 m _).1
    by_cases hmc : m = c
    · subst hmc; rw [hself] at hm; exact hm
    · rw [hother m hmc] at hm; exact hm

/-- the view after `rchInsert n` of a necessary valid node -/
theorem setRch_step {v : View} (n : Nat) (h : NecV v) (hn : (v.rn n).nec = true)
    (hv : (v.rn n).valid = true) :
    NecV (v.setInRch n true) ∧ LRel v (v.setInRch n true) ∧
    (∀ m, ((v.setInRch n true).rn m).parents = (v.rn m).parents) := by
  have hother : ∀ m, m ≠ n → (v.setInRch n true).rn m = v.rn m := by
    intro m hm; simp [View.setInRch, View.setRn, hm]
  have hself : (v.setInRch n true).rn n = { v.rn n with inRch := true } := by
    simp [View.setInRch, View.setRn]
  have hpar : ∀ m, ((v.setInRch n true).rn m).parents = (v.rn m).parents := by
    intro m
    by_cases hm : m = n
    · subst hm; rw [hself]
    · rw [hother m hm]
  have hrel : LRel v (v.setInRch n true) := by
    refine ⟨rfl, rfl, rfl, rfl, rfl, rfl, ?_, ?_, ?_, ?_, ?_⟩ <;> intro m <;> by_cases hm : m = n
    · subst hm; rw [hself]
    · rw [hother m hm]
    · subst hm; rw [hself]
    · rw [hother m hm]
    · subst hm; rw [hself]
    · rw [hother m hm]
    · subst hm; rw [hself]; exact fun x h => h
    · rw [hother m hm]; exact fun x h => h
    · subst hm; rw [hself]; exact fun _ => rfl
    · rw [hother m hm]; exact fun h => h
  refine ⟨?_, hrel, hpar⟩
  apply NecV.of
  · refine ⟨h.dbg, ?_, ?_, ?_, h.k.congr hrel.kind rfl rfl rfl,
      fun m hm => h.chv m (by rw [← hrel.valid]; exact hm)⟩
    · intro c p i hm; rw [hpar] at hm; exact h.e1 c p i hm
    · intro m hm
      rw [hrel.valid]
      by_cases hmn : m = n
      · subst hmn; exact hv
      · rw [hother m hmn] at hm; exact h.e3v m hm
    · intro c; rw [hpar]; exact h.e4 c
  · intro c p i hm
    rw [hpar] at hm
    exact hrel.nec p (h.e2 c p i hm)
  · intro m hm
    apply hrel.nec
    by_cases hmn : m = n
    · subst hmn; exact hn
    · rw [hother m hmn] at hm; exact (h.e3 m hm).1

/-! ### part N7 -/

def APost (c idx p : Nat) (v v' : View) : Prop :=
  NecV v → (v.ch p)[idx]? = some c → (p, idx) ∉ (v.rn c).parents →
    NecV v' ∧ LRel v v' ∧
    (∀ m c' i, (v.rn m).nec = true → (m, i) ∈ (v'.rn c').parents →
      (m, i) ∈ (v.rn c').parents ∨ (m = p ∧ i = idx ∧ c' = c))

def BNPost (n : Nat) (v v' : View) : Prop :=
  NecV v → (v.rn n).nec = true → ¬ HasEdge v n →
    NecV v' ∧ LRel v v' ∧
    (∀ m c i, (v.rn m).nec = true → m ≠ n → (m, i) ∈ (v'.rn c).parents → (m, i) ∈ (v.rn c).parents)

abbrev APT (env : Env) (fuel : Nat) (v : View) (c idx p : Nat) : Prop :=
  ⦃fun s => ⌜viewOf s = v⌝⦄ addParentWithoutAdjustingHeights env fuel c idx p
  ⦃post⟨fun _ s => ⌜APost c idx p v (viewOf s)⌝, fun _ _ => ⌜True⌝⟩⦄
abbrev BNT (env : Env) (fuel : Nat) (v : View) (n : Nat) : Prop :=
  ⦃fun s => ⌜viewOf s = v⌝⦄ becameNecessary env fuel n
  ⦃post⟨fun _ s => ⌜BNPost n v (viewOf s)⌝, fun _ _ => ⌜True⌝⟩⦄

theorem ap_size {v v1 : View} {c : Nat} {l : List (Nat × Nat)}
    (hv1 : c < v.size → v1 = v.setParents c l) (hv1' : v.size ≤ c → v1 = v) (hc : c < v1.size) :
    c < v.size ∧ v1 = v.setParents c l := by
  rcases Nat.lt_or_ge c v.size with h | h
  · exact ⟨h, hv1 h⟩
  · rw [hv1' h] at hc; omega

theorem ap_final_norec {v v1 : View} {c idx p : Nat}
    (hdbg : v.debug = true → (v.rn p).nec = true)
    (hv1 : c < v.size → v1 = v.setParents c ((v.rn c).parents ++ [(p, idx)])) (hv1' : v.size ≤ c → v1 = v)
    (hc : c < v1.size) : APost c idx p v v1 := by
  intro hN hch hnew
  obtain ⟨-, e⟩ := ap_size hv1 hv1' hc
  obtain ⟨h1, h2, h3, -⟩ := addPar_step hN (hdbg hN.dbg) hch hnew
  rw [← e] at h1 h2 h3
  refine ⟨h1, h2, ?_⟩
  intro m c' i _ hm
  rcases h3 c' _ hm with h | ⟨h, h'⟩
  · exact Or.inl h
  · cases h'; exact Or.inr ⟨rfl, rfl, h⟩

theorem ap_final_rec {v v1 v2 : View} {c idx p : Nat}
    (hdbg : v.debug = true → (v.rn p).nec = true)
    (hv1 : c < v.size → v1 = v.setParents c ((v.rn c).parents ++ [(p, idx)])) (hv1' : v.size ≤ c → v1 = v)
    (hc : c < v1.size) (hnn : (!(v.rn c).nec) = true) (hbn : BNPost c v1 v2) : APost c idx p v v2 := by
  intro hN hch hnew
  obtain ⟨-, e⟩ := ap_size hv1 hv1' hc
  have hp := hdbg hN.dbg
  have hcn : (v.rn c).nec = false := by simpa using hnn
  obtain ⟨h1, h2, h3, h4⟩ := addPar_step hN hp hch hnew
  rw [← e] at h1 h2 h3 h4
  have hpc : p ≠ c := by rintro rfl; rw [hp] at hcn; cases hcn
  have hne : ¬ HasEdge v1 c := by
    rintro ⟨c', i, hm⟩
    rcases h3 c' _ hm with h | ⟨-, h⟩
    · have := hN.e2 c' c i h; rw [this] at hcn; cases hcn
    · cases h; exact hpc rfl
  obtain ⟨g1, g2, g3⟩ := hbn h1 h4 hne
  refine ⟨g1, h2.trans g2, ?_⟩
  intro m c' i hm hmem
  have hmc : m ≠ c := by rintro rfl; rw [hm] at hcn; cases hcn
  have := g3 m c' i (h2.nec m hm) hmc hmem
  rcases h3 c' _ this with h | ⟨h, h'⟩
  · exact Or.inl h
  · cases h'; exact Or.inr ⟨rfl, rfl, h⟩

theorem ap_step (env : Env) (fuel : Nat) (ih : ∀ v n, BNT env fuel v n) (v : View) (c idx p : Nat) :
    APT env (fuel + 1) v c idx p := by
  nv_mvcgen [addParentWithoutAdjustingHeights, ih]
  all_goals vsimp
  all_goals first
    | exact ap_final_rec (by assumption) (by assumption) (by assumption) (by assumption) (by assumption) (by assumption)
    | (intro _; exact ap_final_rec (by assumption) (by assumption) (by assumption) (by assumption) (by assumption) (by assumption))
    | exact ap_final_norec (by assumption) (by assumption) (by assumption) (by assumption)
    | (intro _; exact ap_final_norec (by assumption) (by assumption) (by assumption) (by assumption))


/-- loop invariant of `becameNecessary n` -/
def BNInv (n : Nat) (l : List Nat) (v0 : View) (done : List Nat) (b : Int × Nat) (v : View) : Prop :=
  b.2 = done.length ∧
  (l = v0.ch n → NecV v0 → (v0.rn n).nec = true → ¬ HasEdge v0 n →
    NecV v ∧ LRel v0 v ∧
    (∀ m c i, (v0.rn m).nec = true → m ≠ n → (m, i) ∈ (v.rn c).parents → (m, i) ∈ (v0.rn c).parents) ∧
    ∀ c i, (n, i) ∈ (v.rn c).parents → i < done.length)

theorem bnInv_step {n : Nat} {l done rest : List Nat} {a : Nat} {b b' : Int × Nat} {v0 v1 v2 : View}
    (hl : l = done ++ a :: rest) (hap : APost a b.2 n v1 v2) (hb' : b'.2 = b.2 + 1)
    (hinv : BNInv n l v0 done b v1) : BNInv n l v0 (done ++ [a]) b' v2 := by
  obtain ⟨hb, hinv⟩ := hinv
  refine ⟨by simp [hb', hb], fun hl0 hN0 hn0 hne0 => ?_⟩
  obtain ⟨hN, hrel, hfr, hedge⟩ := hinv hl0 hN0 hn0 hne0
  have hch : (v1.ch n)[b.2]? = some a := by
    rw [hrel.ch, ← hl0, hl, hb]; simp
  have hnew : (n, b.2) ∉ (v1.rn a).parents := by
    intro hm
    have := hedge a b.2 hm
    omega
  obtain ⟨hN2, hrel2, hfr2⟩ := hap hN hch hnew
  refine ⟨hN2, hrel.trans hrel2, ?_, ?_⟩
  · intro m c i hm hmn hmem
    rcases hfr2 m c i (hrel.nec m hm) hmem with h | ⟨h, -, -⟩
    · exact hfr m c i hm hmn h
    · exact absurd h hmn
  · intro c i hmem
    simp only [List.length_append, List.length_singleton]
    rcases hfr2 n c i (hrel.nec n hn0) hmem with h | ⟨-, h, -⟩
    · have := hedge c i h; omega
    · omega

theorem bn_final_noins {n : Nat} {v v1 : View} {b0 r : Int × Nat} (hb0 : b0.2 = 0)
    (h : ∀ v0, BNInv n (v.ch n) v0 [] b0 v → BNInv n (v.ch n) v0 (v.ch n) r v1) : BNPost n v v1 := by
  intro hN hn hne
  have h0 : BNInv n (v.ch n) v [] b0 v := by
    refine ⟨by simp [hb0], fun _ _ _ _ => ⟨hN, LRel.refl v, fun _ _ _ _ _ h => h, ?_⟩⟩
    intro c i hm
    exact absurd ⟨c, i, hm⟩ hne
  obtain ⟨-, h1⟩ := h v h0
  obtain ⟨hN1, hrel, hfr, -⟩ := h1 rfl hN hn hne
  exact ⟨hN1, hrel, hfr⟩

theorem bn_final_ins {n : Nat} {v v1 : View} {b0 r : Int × Nat} (hb0 : b0.2 = 0)
    (h : ∀ v0, BNInv n (v.ch n) v0 [] b0 v → BNInv n (v.ch n) v0 (v.ch n) r v1)
    (hd1 : v1.debug = true → (v1.rn n).nec = true) (hd2 : v1.debug = true → (v1.rn n).valid = true) :
    BNPost n v (v1.setInRch n true) := by
  intro hN hn hne
  obtain ⟨hN1, hrel, hfr⟩ := bn_final_noins hb0 h hN hn hne
  have hnn := hd1 hN1.dbg
  have hvv := hd2 hN1.dbg
  obtain ⟨g1, g2, g3⟩ := setRch_step n hN1 hnn hvv
  refine ⟨g1, hrel.trans g2, ?_⟩
  intro m c i hm hmn hmem
  rw [g3] at hmem
  exact hfr m c i hm hmn hmem

theorem bn_step (env : Env) (fuel : Nat) (ih : ∀ v c idx p, APT env fuel v c idx p) (v : View) (n : Nat) :
    BNT env (fuel + 1) v n := by
  have hl := fun l init f => forIn_view l init f (BNInv n)
  nv_mvcgen [becameNecessary, ih, -Spec.forIn_list, hl]
  all_goals vsimp
  all_goals first
    | (refine ⟨⟨_, rfl⟩, ?_⟩
       intro v0 b' hb' hinv
       cases hb'
       exact bnInv_step rfl (by assumption) rfl hinv)
    | exact bn_final_ins (b0 := (_, 0)) rfl (by assumption) (by assumption) (by assumption)
    | (intro _; exact bn_final_ins (b0 := (_, 0)) rfl (by assumption) (by assumption) (by assumption))
    | exact bn_final_noins (b0 := (_, 0)) rfl (by assumption)
    | (intro _; exact bn_final_noins (b0 := (_, 0)) rfl (by assumption))


theorem link_specs (env : Env) (fuel : Nat) :
    (∀ v n, BNT env fuel v n) ∧ (∀ v c idx p, APT env fuel v c idx p) := by
  induction fuel with
  | zero =>
    refine ⟨?_, ?_⟩ <;> intros
    · nv_mvcgen [becameNecessary]
    · nv_mvcgen [addParentWithoutAdjustingHeights]
  | succ fuel ih =>
    obtain ⟨ih1, ih2⟩ := ih
    exact ⟨bn_step env fuel ih2, ap_step env fuel ih1⟩

@[spec 100000] theorem becameNecessary_v (v : View) (env : Env) (fuel n : Nat) : BNT env fuel v n :=
  (link_specs env fuel).1 v n
@[spec 100000] theorem addParentWithoutAdjustingHeights_v (v : View) (env : Env) (fuel c idx p : Nat) :
    APT env fuel v c idx p := (link_specs env fuel).2 v c idx p

/-! ### part N8 -/

/-! ## invalidation -/

/-- the view after `valid := false` on an existing node `n` -/
def View.inval' (v : View) (n : Nat) : View :=
  { v with rn := fun m => if m = n then { v.rn n with valid := false } else v.rn m
           ch := fun m => if m = n then [] else v.ch m }

/-- the view after `modNode n (valid := false)` -/
def View.inval (v : View) (n : Nat) : View := if n < v.size then v.inval' n else v

theorem viewOf_inval' (s : State) (n : Nat) (hn : n < s.nodes.size) :
    viewOf { s with nodes := s.nodes.modify n fun x => { x with valid := false } } = (viewOf s).inval' n := by
  simp only [viewOf, mkView, View.inval', Array.size_modify, View.mk.injEq, true_and, and_true]
  constructor
  · funext m
    rw [nodeAt_modify]
    by_cases h : n = m
    · subst h; simp [hn]; rfl
    · have : ¬ m = n := fun e => h e.symm
      simp [h, this]
  · funext m
    rw [nodeAt_modify]
    by_cases h : n = m
    · subst h; simp [hn, Node.kind?, chK]
    · have : ¬ m = n := fun e => h e.symm
      simp [h, this]

theorem mkView_inval (s : State) (n : Nat) (v : View) (h : viewOf s = v) :
    mkView (s.nodes.modify n fun x => { x with valid := false }) s.binds s.experts s.cfg.debug = v.inval n := by
  subst h
  unfold View.inval
  split
  · rename_i hn; exact viewOf_inval' s n hn
  · rename_i hn
    have : s.nodes.size ≤ n := Nat.le_of_not_lt hn
    simp only [viewOf, modify_of_le _ _ _ this]

theorem viewOf_chv (s : State) (m : Nat) (h : ((viewOf s).rn m).valid = false) : (viewOf s).ch m = [] := by
  have h' : (nodeAt s.nodes m).valid = false := h
  simp [viewOf, mkView, Node.kind?, h', chK]

/-- what invalidation may change -/
structure IRel (v v' : View) : Prop where
  size : v'.size = v.size
  nb : v'.nb = v.nb
  ne : v'.ne = v.ne
  bmain : v'.bmain = v.bmain
  debug : v'.debug = v.debug
  kind : ∀ m, (v'.rn m).kind = (v.rn m).kind
  base : ∀ m, (v'.rn m).base = (v.rn m).base
  valid : ∀ m, (v'.rn m).valid = true → (v.rn m).valid = true
  ch : ∀ m, (v'.rn m).valid = true → v'.ch m = v.ch m
  par : ∀ m x, x ∈ (v'.rn m).parents → x ∈ (v.rn m).parents
  inRch : ∀ m, (v'.rn m).inRch = true → (v.rn m).inRch = true

theorem IRel.refl (v : View) : IRel v v :=
  ⟨rfl, rfl, rfl, rfl, rfl, fun _ => rfl, fun _ => rfl, fun _ h => h, fun _ _ => rfl, fun _ _ h => h,
    fun _ h => h⟩

theorem IRel.trans {a b c : View} (h1 : IRel a b) (h2 : IRel b c) : IRel a c :=
  ⟨h2.size.trans h1.size, h2.nb.trans h1.nb, h2.ne.trans h1.ne, h2.bmain.trans h1.bmain,
   h2.debug.trans h1.debug, fun m => (h2.kind m).trans (h1.kind m), fun m => (h2.base m).trans (h1.base m),
   fun m h => h1.valid m (h2.valid m h), fun m h => (h2.ch m h).trans (h1.ch m (h2.valid m h)),
   fun m x h => h1.par m x (h2.par m x h), fun m h => h1.inRch m (h2.inRch m h)⟩

theorem URel.toIRel {v v' : View} (h : URel v v') : IRel v v' :=
  ⟨h.size, h.nb, h.ne, h.bmain, h.debug, h.kind, h.base, fun m hm => by rw [← h.valid]; exact hm,
    fun m _ => by rw [h.ch], h.par, h.inRch⟩

theorem IRel.hasEdge {v v' : View} (h : IRel v v') {p : Nat} (he : HasEdge v' p) : HasEdge v p := by
  obtain ⟨c, i, hm⟩ := he
  exact ⟨c, i, h.par c _ hm⟩

def IPost (v v' : View) : Prop := NecV v → NecV v' ∧ IRel v v'

/-- the view after `valid := false` and unqueueing of a node no child records -/
theorem inval_step' {v : View} (n : Nat) (h : NecV v) (hne : ¬ HasEdge v n) :
    NecV ((v.inval' n).setInRch n false) ∧ IRel v ((v.inval' n).setInRch n false) := by
  have hother : ∀ m, m ≠ n → ((v.inval' n).setInRch n false).rn m = v.rn m := by
    intro m hm; simp [View.setInRch, View.setRn, View.inval', hm]
  have hself : ((v.inval' n).setInRch n false).rn n = { v.rn n with valid := false, inRch := false } := by
    simp [View.setInRch, View.setRn, View.inval']
  have hcho : ∀ m, m ≠ n → ((v.inval' n).setInRch n false).ch m = v.ch m := by
    intro m hm; simp [View.setInRch, View.setRn, View.inval', hm]
  have hchs : ((v.inval' n).setInRch n false).ch n = [] := by
    simp [View.setInRch, View.setRn, View.inval']
  have hpar : ∀ m, (((v.inval' n).setInRch n false).rn m).parents = (v.rn m).parents := by
    intro m
    by_cases hm : m = n
    · subst hm; rw [hself]
    · rw [hother m hm]
  have hnec : ∀ m, (((v.inval' n).setInRch n false).rn m).nec = (v.rn m).nec := by
    intro m
    by_cases hm : m = n
    · subst hm; rw [hself]; rfl
    · rw [hother m hm]
  have hrel : IRel v ((v.inval' n).setInRch n false) := by
    refine ⟨rfl, rfl, rfl, rfl, rfl, ?_, ?_, ?_, ?_, ?_, ?_⟩ <;> intro m <;> by_cases hm : m = n
    · subst hm; rw [hself]
    · rw [hother m hm]
    · subst hm; rw [hself]
    · rw [hother m hm]
    · subst hm; rw [hself]; intro h; cases h
    · rw [hother m hm]; exact fun h => h
    · subst hm; rw [hself]; intro h; cases h
    · rw [hother m hm]; intro _; exact hcho m hm
    · subst hm; rw [hself]; exact fun x h => h
    · rw [hother m hm]; exact fun x h => h
    · subst hm; rw [hself]; intro h; cases h
    · rw [hother m hm]; exact fun h => h
  refine ⟨?_, hrel⟩
  apply NecV.of
  · refine ⟨h.dbg, ?_, ?_, ?_, h.k.congr hrel.kind rfl rfl rfl, ?_⟩
    · intro c p i hm
      rw [hpar] at hm
      have hpn : p ≠ n := by rintro rfl; exact hne ⟨c, i, hm⟩
      rw [hcho p hpn]; exact h.e1 c p i hm
    · intro m hm
      by_cases hmn : m = n
      · subst hmn; rw [hself] at hm; cases hm
      · rw [hother m hmn] at hm ⊢; exact h.e3v m hm
    · intro c; rw [hpar]; exact h.e4 c
    · intro m hm
      by_cases hmn : m = n
      · subst hmn; exact hchs
      · rw [hother m hmn] at hm; rw [hcho m hmn]; exact h.chv m hm
  · intro c p i hm
    rw [hpar] at hm; rw [hnec]; exact h.e2 c p i hm
  · intro m hm
    rw [hnec]
    exact (h.e3 m (hrel.inRch m hm)).1


theorem inval_step {v : View} (n : Nat) (h : NecV v) (hne : ¬ HasEdge v n) :
    NecV ((v.inval n).setInRch n false) ∧ IRel v ((v.inval n).setInRch n false) := by
  unfold View.inval
  split
  · exact inval_step' n h hne
  · obtain ⟨hJ, hrel, hbad⟩ := clearRch_step n h.toJ
    exact ⟨⟨hJ, fun p hp => h.nobad p (hbad p hp).1⟩, hrel.toIRel⟩

abbrev IT (fuel : Nat) (v : View) (n : Nat) : Prop :=
  ⦃fun s => ⌜viewOf s = v⌝⦄ invalidateNode fuel n
  ⦃post⟨fun _ s => ⌜IPost v (viewOf s)⌝, fun _ _ => ⌜True⌝⟩⦄

/-- loop invariant of the nested invalidations -/
def ILInv (_l : List Nat) (v0 : View) (_done : List Nat) (_b : PUnit.{1}) (v : View) : Prop :=
  NecV v0 → NecV v ∧ IRel v0 v

theorem inval_pre_rc {n : Nat} {v v1 : View} (h : RCPost n v v1) :
    NecV v → NecV v1 ∧ IRel v v1 ∧ ¬ HasEdge v1 n := by
  intro hN
  obtain ⟨hJ, hrel, hbad, hne⟩ := h hN.toJ
  exact ⟨⟨hJ, fun p hp => hN.nobad p (hbad p hp)⟩, hrel.toIRel, hne⟩

theorem inval_pre_norc {n : Nat} {v : View} (h : ¬ (v.rn n).nec = true) :
    NecV v → NecV v ∧ IRel v v ∧ ¬ HasEdge v n := by
  intro hN
  refine ⟨hN, IRel.refl v, ?_⟩
  rintro ⟨c, i, hm⟩
  exact h (hN.e2 c n i hm)

theorem inval_fin {n : Nat} {v v1 v2 : View}
    (hA : RCPost n v v1 ∨ (¬ (v.rn n).nec = true ∧ v1 = v))
    (hB : (∃ (l : List Nat) (b : PUnit.{1}), ∀ v0, ILInv l v0 [] PUnit.unit v1 → ILInv l v0 l b v2) ∨ v2 = v1) :
    IPost v ((v2.inval n).setInRch n false) := by
  intro hN
  have h1 : NecV v1 ∧ IRel v v1 ∧ ¬ HasEdge v1 n := by
    rcases hA with hA | ⟨hA, rfl⟩
    · exact inval_pre_rc hA hN
    · exact inval_pre_norc hA hN
  obtain ⟨h1, r1, hne⟩ := h1
  have h2 : NecV v2 ∧ IRel v1 v2 := by
    rcases hB with ⟨l, b, hB⟩ | rfl
    · exact hB v1 (fun h => ⟨h, IRel.refl v1⟩) h1
    · exact ⟨h1, IRel.refl _⟩
  obtain ⟨h2, r2⟩ := h2
  obtain ⟨h3, r3⟩ := inval_step n h2 (fun he => hne (r2.hasEdge he))
  exact ⟨h3, (r1.trans r2).trans r3⟩

theorem inval_final {n : Nat} {v v1 v2 : View}
    (hA : NecV v → NecV v1 ∧ IRel v v1 ∧ ¬ HasEdge v1 n)
    (hB : NecV v1 → NecV v2 ∧ IRel v1 v2) : IPost v ((v2.inval n).setInRch n false) := by
  intro hN
  obtain ⟨h1, r1, hne⟩ := hA hN
  obtain ⟨h2, r2⟩ := hB h1
  obtain ⟨h3, r3⟩ := inval_step n h2 (fun he => hne (r2.hasEdge he))
  exact ⟨h3, (r1.trans r2).trans r3⟩

@[spec 200000] theorem modNode_inval_v (v : View) (n : Nat) :
    ⦃fun s => ⌜viewOf s = v⌝⦄ modNode n (fun x => { x with valid := false })
    ⦃post⟨fun _ s => ⌜viewOf s = v.inval n⌝, fun _ _ => ⌜True⌝⟩⦄ := by
  nv_mvcgen [-modNode_v, modNode]
  vnorm
  exact mkView_inval _ n v ‹_›

theorem inv_step (fuel : Nat) (ih : ∀ v n, IT fuel v n) (v : View) (n : Nat) : IT (fuel + 1) v n := by
  have hl := fun (l : List Nat) init f => forIn_view l init f ILInv
  have hl2 := fun (v : View) (l : List (Nat × Nat)) (init : PUnit) f => forIn_vf v l init f
  nv_mvcgen [invalidateNode, ih, -Spec.forIn_list, hl, hl2]
  all_goals vsimp
  all_goals first
    | exact fun h => ⟨h, IRel.refl _⟩
    | (intro x; rfl)
    | (intros; trivial)
    | (refine ⟨⟨PUnit.unit, trivial⟩, ?_⟩
       intro v0 b' hinv hN
       obtain ⟨h1, r1⟩ := hinv hN
       obtain ⟨h2, r2⟩ := ‹IPost _ _› h1
       exact ⟨h2, r1.trans r2⟩)
    | skip
  all_goals try intro (_ : viewOf _ = _)
  all_goals try rw [← View.setInRch_self (View.inval _ n) n false (by simpa using ‹¬ _ = true›)]
  all_goals
    apply inval_fin
    · first
        | exact Or.inl ‹RCPost n v _›
        | exact Or.inr ⟨‹¬ _ = true›, rfl⟩
    · first
        | exact Or.inl ⟨_, _, ‹∀ v0, ILInv _ v0 [] PUnit.unit _ → ILInv _ v0 _ _ _›⟩
        | exact Or.inr rfl


@[spec 100000] theorem invalidateNode_v (v : View) (fuel n : Nat) : IT fuel v n := by
  induction fuel generalizing v n with
  | zero => nv_mvcgen [invalidateNode]
  | succ fuel ih => exact inv_step fuel ih v n

/-! ### part N9 -/

/-! ## functions that keep the invariant on the nose -/

/-- `x` keeps the invariant (normal outcome) -/
abbrev NP {α} (v : View) (x : M α) : Prop :=
  ⦃fun s => ⌜viewOf s = v⌝⦄ x ⦃post⟨fun _ s => ⌜NecV v → NecV (viewOf s)⌝, fun _ _ => ⌜True⌝⟩⦄

theorem necV_ins {v : View} {n : Nat} (h : NecV v) (h1 : v.debug = true → (v.rn n).nec = true)
    (h2 : v.debug = true → (v.rn n).valid = true) : NecV (v.setInRch n true) :=
  (setRch_step n h (h1 h.dbg) (h2 h.dbg)).1

/-- the invariant-keeping triple, composed with what happened before (for calls in tail position) -/
theorem NP.comp {α} {v v' : View} {x : M α} (hx : NP v' x) (h : NecV v → NecV v') :
    ⦃fun s => ⌜viewOf s = v'⌝⦄ x ⦃post⟨fun _ s => ⌜NecV v → NecV (viewOf s)⌝, fun _ _ => ⌜True⌝⟩⦄ := by
  nv_mvcgen [hx]
  intro h1 h2
  exact h1 (h h2)

@[spec 100000] theorem propagateInvalidity_v (v : View) (fuel : Nat) : NP v (propagateInvalidity fuel) := by
  induction fuel generalizing v with
  | zero => nv_mvcgen [propagateInvalidity]
  | succ fuel ih =>
    have ih' := fun v' (h : NecV v → NecV v') => (ih v').comp h
    clear ih
    nv_mvcgen [propagateInvalidity, ih']
    all_goals vsimp
    all_goals first
      | (intros; trivial)
      | (intro s hI hN; exact (hI hN).1)
      | (intro s _ _ h1 hN; exact necV_ins hN h1 (fun _ => by assumption))
      | (intros; assumption)


/-- chains the facts the specifications left in the context -/
macro "nv_auto" : tactic =>
  `(tactic| (intros; simp only [APost, BNPost, IPost] at *; grind [necV_ins]))

@[spec 100000] theorem becameNecessaryPropagate_v (v : View) (env : Env) (fuel n : Nat) :
    ⦃fun s => ⌜viewOf s = v⌝⦄ becameNecessaryPropagate env fuel n
    ⦃post⟨fun _ s => ⌜NecV v → (v.rn n).nec = true → ¬ HasEdge v n → NecV (viewOf s)⌝,
      fun _ _ => ⌜True⌝⟩⦄ := by
  nv_mvcgen [becameNecessaryPropagate]
  all_goals vsimp
  all_goals nv_auto

@[spec 100000] theorem stateAddParent_v (v : View) (env : Env) (fuel c idx p : Nat) :
    ⦃fun s => ⌜viewOf s = v⌝⦄ stateAddParent env fuel c idx p
    ⦃post⟨fun _ s => ⌜NecV v → (v.ch p)[idx]? = some c → (p, idx) ∉ (v.rn c).parents → NecV (viewOf s)⌝,
      fun _ _ => ⌜True⌝⟩⦄ := by
  nv_mvcgen [stateAddParent]
  all_goals vsimp
  all_goals nv_auto

/-! ### part N10 -/

/-! ## `changeChildBindRhs` -/

/-- the view after `forceNecessary := _` on node `n` (the `base` flag becomes `b`) -/
def View.setBase (v : View) (n : Nat) (b : Bool) : View :=
  if n < v.size then v.setRn n { v.rn n with base := b } else v

theorem viewOf_setForce (s : State) (n : Nat) (b : Bool) :
    viewOf { s with nodes := s.nodes.modify n fun x => { x with forceNecessary := b } }
      = (viewOf s).setBase n (!(s.nodeD n).observers.isEmpty || b) := by
  unfold View.setBase
  split
  · rename_i hn
    exact mkView_modify_setRn s.nodes s.binds s.experts s.cfg.debug n _ hn rfl
  · rename_i hn
    have : s.nodes.size ≤ n := Nat.le_of_not_lt hn
    simp only [viewOf, modify_of_le _ _ _ this]


theorem mkView_setForce (s : State) (n : Nat) (b : Bool) (v : View) (h : viewOf s = v) :
    ∃ b', (b = true → b' = true) ∧
      mkView (s.nodes.modify n fun x => { x with forceNecessary := b }) s.binds s.experts s.cfg.debug
        = v.setBase n b' := by
  subst h
  exact ⟨_, fun hb => by simp [hb], viewOf_setForce s n b⟩

@[spec 200000] theorem modNode_force_v (v : View) (n : Nat) (b : Bool) :
    ⦃fun s => ⌜viewOf s = v⌝⦄ modNode n (fun x => { x with forceNecessary := b })
    ⦃post⟨fun _ s => ⌜∃ b', (b = true → b' = true) ∧ viewOf s = v.setBase n b'⌝, fun _ _ => ⌜True⌝⟩⦄ := by
  nv_mvcgen [-modNode_v, modNode]
  vnorm
  exact mkView_setForce _ n b v ‹_›

/-- the invariant, except that the edge `(main, index)` recorded by `old` may name the wrong child -/
structure NecX (v : View) (main index : Nat) (old : Option Nat) : Prop where
  dbg : v.debug = true
  e1x : ∀ c p i, (p, i) ∈ (v.rn c).parents →
    (v.ch p)[i]? = some c ∨ (p = main ∧ i = index ∧ old = some c)
  e3v : ∀ n, (v.rn n).inRch = true → (v.rn n).valid = true
  e4 : ∀ c, (v.rn c).parents.Nodup
  k : KindOK v
  chv : ∀ m, (v.rn m).valid = false → v.ch m = []
  nobad : ∀ p, ¬ Bad v p

theorem NecV.toX {v : View} (h : NecV v) (main index : Nat) (old : Option Nat) : NecX v main index old :=
  ⟨h.dbg, fun c p i hm => Or.inl (h.e1 c p i hm), h.e3v, h.e4, h.k, h.chv, h.nobad⟩

theorem NecX.toNec {v : View} {main index : Nat} {old : Option Nat} (h : NecX v main index old)
    (hex : ∀ c, old = some c → (main, index) ∈ (v.rn c).parents → (v.ch main)[index]? = some c) : NecV v := by
  refine ⟨⟨h.dbg, ?_, h.e3v, h.e4, h.k, h.chv⟩, h.nobad⟩
  intro c p i hm
  rcases h.e1x c p i hm with h1 | ⟨rfl, rfl, h3⟩
  · exact h1
  · exact hex c h3 hm

theorem setBase_other (v : View) (n m : Nat) (b : Bool) (h : m ≠ n) : (v.setBase n b).rn m = v.rn m := by
  unfold View.setBase; split
  · simp [View.setRn, h]
  · rfl

theorem setBase_parents (v : View) (n m : Nat) (b : Bool) :
    ((v.setBase n b).rn m).parents = (v.rn m).parents := by
  unfold View.setBase; split
  · simp only [View.setRn]; split
    · subst_vars; rfl
    · rfl
  · rfl

/-- changing the `base` flag of `o`: everything but "no bad node" survives, and only `o` can be bad -/
theorem setBase_step {v : View} (o : Nat) (b : Bool) (h : NecV v) :
    J (v.setBase o b) ∧ ∀ p, Bad (v.setBase o b) p → p = o := by
  have hstat : (v.setBase o b).ch = v.ch ∧ (v.setBase o b).debug = v.debug ∧
      (v.setBase o b).nb = v.nb ∧ (v.setBase o b).ne = v.ne ∧ (v.setBase o b).bmain = v.bmain := by
    unfold View.setBase; split <;> exact ⟨rfl, rfl, rfl, rfl, rfl⟩
  have hfields : ∀ m, ((v.setBase o b).rn m).kind = (v.rn m).kind ∧
      ((v.setBase o b).rn m).valid = (v.rn m).valid ∧ ((v.setBase o b).rn m).inRch = (v.rn m).inRch := by
    intro m
    unfold View.setBase; split
    · simp only [View.setRn]; split
      · subst_vars; exact ⟨rfl, rfl, rfl⟩
      · exact ⟨rfl, rfl, rfl⟩
    · exact ⟨rfl, rfl, rfl⟩
  refine ⟨⟨by rw [hstat.2.1]; exact h.dbg, ?_, ?_, ?_, ?_, ?_⟩, ?_⟩
  · intro c p i hm
    rw [setBase_parents] at hm
    rw [hstat.1]; exact h.e1 c p i hm
  · intro m hm
    rw [(hfields m).2.2] at hm; rw [(hfields m).2.1]; exact h.e3v m hm
  · intro c; rw [setBase_parents]; exact h.e4 c
  · exact h.k.congr (fun m => (hfields m).1) hstat.2.2.1 hstat.2.2.2.1 hstat.2.2.2.2
  · intro m hm
    rw [(hfields m).2.1] at hm; rw [hstat.1]; exact h.chv m hm
  · rintro p ⟨hn, hb⟩
    by_cases hp : p = o
    · exact hp
    · exfalso
      rw [setBase_other v o p b hp] at hn
      apply h.nobad p
      refine ⟨hn, ?_⟩
      rcases hb with ⟨c, i, hm⟩ | hb
      · rw [setBase_parents] at hm; exact Or.inl ⟨c, i, hm⟩
      · rw [(hfields p).2.2] at hb; exact Or.inr hb

theorem cc_final {o : Nat} {v4 v5 : View} (hJ : J v4) (hb : ∀ p, Bad v4 p → p = o) (hcu : UPost o v4 v5) :
    NecV v5 := by
  obtain ⟨hJ5, -, hbad⟩ := hcu hJ
  refine ⟨hJ5, fun p hp => ?_⟩
  obtain ⟨h1, h2⟩ := hbad p hp
  exact h2 (hb p h1)


/-- `removeParent o index main` followed by `forceNecessary := true` on `o` repairs the invariant -/
theorem ccx_rem_force {v : View} {main index o pi : Nat} (hx : NecX v main index (some o))
    (hidx : (v.rn o).parents.idxOf? (main, index) = some pi) (ho : o < v.size) :
    NecV ((v.setParents o (swapRemove (v.rn o).parents pi)).setBase o true) ∧
    ((v.setParents o (swapRemove (v.rn o).parents pi)).setBase o true).ch = v.ch ∧
    (∀ m, m ≠ o → ((v.setParents o (swapRemove (v.rn o).parents pi)).setBase o true).rn m = v.rn m) := by
  obtain ⟨hmem, hnd⟩ := swapRemove_spec _ _ _ (hx.e4 o) hidx
  have hsz : o < (v.setParents o (swapRemove (v.rn o).parents pi)).size := ho
  have hother : ∀ m, m ≠ o →
      ((v.setParents o (swapRemove (v.rn o).parents pi)).setBase o true).rn m = v.rn m := by
    intro m hm
    rw [setBase_other _ _ _ _ hm]
    simp [View.setParents, View.setRn, hm]
  have hself : ((v.setParents o (swapRemove (v.rn o).parents pi)).setBase o true).rn o =
      { v.rn o with parents := swapRemove (v.rn o).parents pi, base := true } := by
    simp [View.setBase, View.setParents, View.setRn, ho]
  have hch : ((v.setParents o (swapRemove (v.rn o).parents pi)).setBase o true).ch = v.ch := by
    simp [View.setBase, View.setParents, View.setRn, ho]
  have hpar : ∀ m x, x ∈ (((v.setParents o (swapRemove (v.rn o).parents pi)).setBase o true).rn m).parents →
      x ∈ (v.rn m).parents ∧ ¬ (m = o ∧ x = (main, index)) := by
    intro m x hm
    by_cases hmo : m = o
    · subst hmo
      rw [hself] at hm
      have := (hmem x).1 hm
      exact ⟨this.1, fun h => this.2 h.2⟩
    · rw [hother m hmo] at hm; exact ⟨hm, fun h => hmo h.1⟩
  have hedge : ∀ p, HasEdge ((v.setParents o (swapRemove (v.rn o).parents pi)).setBase o true) p → HasEdge v p := by
    rintro p ⟨c, i, hm⟩; exact ⟨c, i, (hpar c _ hm).1⟩
  have hfields : ∀ m, (((v.setParents o (swapRemove (v.rn o).parents pi)).setBase o true).rn m).kind = (v.rn m).kind ∧
      (((v.setParents o (swapRemove (v.rn o).parents pi)).setBase o true).rn m).valid = (v.rn m).valid ∧
      (((v.setParents o (swapRemove (v.rn o).parents pi)).setBase o true).rn m).inRch = (v.rn m).inRch := by
    intro m
    by_cases hmo : m = o
    · subst hmo; rw [hself]; exact ⟨rfl, rfl, rfl⟩
    · rw [hother m hmo]; exact ⟨rfl, rfl, rfl⟩
  have hstat : ((v.setParents o (swapRemove (v.rn o).parents pi)).setBase o true).debug = v.debug ∧
      ((v.setParents o (swapRemove (v.rn o).parents pi)).setBase o true).nb = v.nb ∧
      ((v.setParents o (swapRemove (v.rn o).parents pi)).setBase o true).ne = v.ne ∧
      ((v.setParents o (swapRemove (v.rn o).parents pi)).setBase o true).bmain = v.bmain := by
    simp [View.setBase, View.setParents, View.setRn, ho]
  refine ⟨⟨⟨by rw [hstat.1]; exact hx.dbg, ?_, ?_, ?_, ?_, ?_⟩, ?_⟩, hch, hother⟩
  · intro c p i hm
    obtain ⟨h1, h2⟩ := hpar c _ hm
    rw [hch]
    rcases hx.e1x c p i h1 with h | ⟨rfl, rfl, h⟩
    · exact h
    · cases h; exact absurd ⟨rfl, rfl⟩ h2
  · intro m hm
    rw [(hfields m).2.2] at hm; rw [(hfields m).2.1]; exact hx.e3v m hm
  · intro c
    by_cases hco : c = o
    · subst hco; rw [hself]; exact hnd
    · rw [hother c hco]; exact hx.e4 c
  · exact hx.k.congr (fun m => (hfields m).1) hstat.2.1 hstat.2.2.1 hstat.2.2.2
  · intro m hm
    rw [(hfields m).2.1] at hm; rw [hch]; exact hx.chv m hm
  · rintro p ⟨hn, hb⟩
    by_cases hpo : p = o
    · subst hpo; rw [hself] at hn; simp [RNode.nec] at hn
    · rw [hother p hpo] at hn
      apply hx.nobad p
      refine ⟨hn, ?_⟩
      rcases hb with hb | hb
      · exact Or.inl (hedge p hb)
      · rw [(hfields p).2.2] at hb; exact Or.inr hb


def IsBindMain (v : View) (m : Nat) : Prop :=
  (v.rn m).valid = true ∧ ∃ b lc, (v.rn m).kind = .bindMain b lc

def CCPost (main : Nat) (old : Option Nat) (new index : Nat) (v v' : View) : Prop :=
  NecX v main index old →
  (IsBindMain v main → (v.ch main)[index]? = some new) →
  (¬ IsBindMain v main → NecV v) →
  ((main, index) ∈ (v.rn new).parents → old = some new) →
  NecV v'

theorem isBindMain_of {v : View} {m b lc : Nat}
    (h : (if (v.rn m).valid = true then some (v.rn m).kind else none) = some (Kind.bindMain b lc)) :
    IsBindMain v m := by
  split at h
  · rename_i hv; exact ⟨hv, b, lc, by injection h⟩
  · cases h

theorem cc_none {v v' : View} {main new index b lc : Nat}
    (hk : (if (v.rn main).valid = true then some (v.rn main).kind else none) = some (Kind.bindMain b lc))
    (hsap : NecV v → (v.ch main)[index]? = some new → ¬ (main, index) ∈ (v.rn new).parents → NecV v') :
    CCPost main none new index v v' := by
  intro hx hnew _ hnd
  have hN : NecV v := hx.toNec (fun c h => by cases h)
  exact hsap hN (hnew (isBindMain_of hk)) (fun h => by cases hnd h)

theorem cc_same {v : View} {main new index k b lc : Nat}
    (hk : (if (v.rn main).valid = true then some (v.rn main).kind else none) = some (Kind.bindMain b lc))
    (he : (k == new) = true) : CCPost main (some k) new index v v := by
  intro hx hnew _ _
  have : k = new := by simpa using he
  subst this
  exact hx.toNec (fun c h _ => by cases h; exact hnew (isBindMain_of hk))

theorem cc_notbm {v : View} {main new index : Nat} {old : Option Nat}
    (hk : ∀ b lc, (if (v.rn main).valid = true then some (v.rn main).kind else none) = some (Kind.bindMain b lc)
      → False) : CCPost main old new index v v := by
  intro _ _ hfull _
  apply hfull
  rintro ⟨hv, b, lc, hkd⟩
  exact hk b lc (by simp [hv, hkd])

theorem cc_main {v v1 v2 v3 v4 v5 : View} {main new index k pi b lc : Nat} {b' b'' : Bool}
    (hk : (if (v.rn main).valid = true then some (v.rn main).kind else none) = some (Kind.bindMain b lc))
    (hne : ¬ (k == new) = true)
    (hidx : (v.rn k).parents.idxOf? (main, index) = some pi) (hks : k < v.size)
    (hv1 : v1 = v.setParents k (swapRemove (v.rn k).parents pi))
    (hb' : b' = true) (hv2 : v2 = v1.setBase k b')
    (hsap : NecV v2 → (v2.ch main)[index]? = some new → ¬ (main, index) ∈ (v2.rn new).parents → NecV v3)
    (hv4 : v4 = v3.setBase k b'') (hcu : UPost k v4 v5) :
    CCPost main (some k) new index v v5 := by
  intro hx hnew _ hnd
  have hkn : k ≠ new := by simpa using hne
  subst hb' hv1 hv2 hv4
  obtain ⟨hN2, hch, hoth⟩ := ccx_rem_force hx hidx hks
  have hN3 := hsap hN2 (by rw [hch]; exact hnew (isBindMain_of hk))
    (by
      rw [hoth new (Ne.symm hkn)]
      intro h
      have := hnd h
      injection this with e
      exact hkn e)
  obtain ⟨hJ4, hb4⟩ := setBase_step k b'' hN3
  exact cc_final hJ4 hb4 hcu

@[spec 100000] theorem changeChildBindRhs_v (v : View) (env : Env) (fuel main : Nat) (old : Option Nat)
    (new index : Nat) :
    ⦃fun s => ⌜viewOf s = v⌝⦄ changeChildBindRhs env fuel main old new index
    ⦃post⟨fun _ s => ⌜CCPost main old new index v (viewOf s)⌝, fun _ _ => ⌜True⌝⟩⦄ := by
  nv_mvcgen [changeChildBindRhs]
  all_goals vsimp
  · intro h; exact cc_none (by assumption) h
  · exact cc_same (by assumption) (by assumption)
  · intro h
    exact cc_main (b' := true) (by assumption) (by assumption) (by assumption) (by assumption) rfl
      rfl rfl (by assumption) rfl h
  · subst_vars; exact cc_notbm (by assumption)

/-! ### part N11 -/

/-! ## node creation -/

/-- the view after pushing a fresh node of kind `k` whose children are `cs` -/
def View.push (v : View) (k : Kind) (cs : List Nat) : View :=
  { v with size := v.size + 1
           rn := fun m => if m = v.size then ⟨[], false, true, false, k⟩ else v.rn m
           ch := fun m => if m = v.size then cs else v.ch m }

theorem nodeAt_push (nodes : Array Node) (nd : Node) (m : Nat) :
    nodeAt (nodes.push nd) m = if m = nodes.size then nd else nodeAt nodes m := by
  simp only [nodeAt, Array.getElem?_push]
  split
  · simp
  · rfl

theorem mkView_push (nodes : Array Node) (binds experts dbg) (k : Kind) (sc : Scope) (c : CutoffK) :
    mkView (nodes.push { kind := k, createdIn := sc, cutoff := c }) binds experts dbg
      = (mkView nodes binds experts dbg).push k (chK (some k) binds experts) := by
  simp only [mkView, View.push, Array.size_push, View.mk.injEq, true_and, and_true]
  constructor
  · funext m
    rw [nodeAt_push]
    by_cases h : m = nodes.size
    · simp only [h, if_true]; rfl
    · simp only [h, if_false]
  · funext m
    rw [nodeAt_push]
    by_cases h : m = nodes.size
    · simp only [h, if_true]; rfl
    · simp only [h, if_false]

theorem viewOf_push (s : State) (k : Kind) (sc : Scope) (c : CutoffK) (v : View) (h : viewOf s = v)
    (d : Bool) (hd : d = v.debug) :
    mkView (s.nodes.push { kind := k, createdIn := sc, cutoff := c }) s.binds s.experts d
      = v.push k (chK (some k) s.binds s.experts) := by
  subst h hd; exact mkView_push _ _ _ _ _ _ _

@[spec 100000] theorem createNode_v (v : View) (k : Kind) (sc : Scope) (c : CutoffK) :
    ⦃fun s => ⌜viewOf s = v⌝⦄ createNode k sc c
    ⦃post⟨fun r s => ⌜r = v.size ∧ ∃ cs, viewOf s = v.push k cs⌝, fun _ _ => ⌜True⌝⟩⦄ := by
  nv_mvcgen [createNode]
  all_goals vsimp
  all_goals first
    | (intros; trivial)
    | (apply Exists.intro
       apply viewOf_push
       · assumption
       · first | rfl | (rw [← viewOf_debug]; simp_all))


/-- indices that name no node look like the default node -/
def OOB (v : View) : Prop :=
  ∀ m, v.size ≤ m → v.rn m = ⟨[], false, true, false, .const default⟩ ∧ v.ch m = []

theorem viewOf_OOB (s : State) : OOB (viewOf s) := by
  intro m hm
  have : nodeAt s.nodes m = default := nodeAt_of_le _ _ hm
  constructor
  · show rel (nodeAt s.nodes m) = _
    rw [this]; rfl
  · show chK (nodeAt s.nodes m).kind? s.binds s.experts = []
    rw [this]; rfl

theorem OOB_of_eq {s : State} {v : View} (h : viewOf s = v) : OOB v := h ▸ viewOf_OOB s

def KindPlain : Kind → Prop
  | .bindMain _ _ => False
  | .bindLhsChange _ => False
  | .expert _ => False
  | _ => True

/-- a kind a new node may get: plain, or an expert kind naming a record no node names yet -/
def KindFresh (v : View) (k : Kind) : Prop :=
  KindPlain k ∨ ∃ e, k = .expert e ∧ e < v.ne ∧ ∀ m, (v.rn m).kind ≠ .expert e

theorem push_step {v : View} (k : Kind) (cs : List Nat) (h : NecV v) (ho : OOB v) (hk : KindFresh v k) :
    NecV (v.push k cs) := by
  have hother : ∀ m, m ≠ v.size → (v.push k cs).rn m = v.rn m := by
    intro m hm; simp [View.push, hm]
  have hself : (v.push k cs).rn v.size = ⟨[], false, true, false, k⟩ := by simp [View.push]
  have hcho : ∀ m, m ≠ v.size → (v.push k cs).ch m = v.ch m := by
    intro m hm; simp [View.push, hm]
  have hpar : ∀ m, ((v.push k cs).rn m).parents = (v.rn m).parents := by
    intro m
    by_cases hm : m = v.size
    · subst hm; rw [hself, (ho v.size (Nat.le_refl _)).1]
    · rw [hother m hm]
  have hnorec : ∀ c i, (v.size, i) ∉ (v.rn c).parents := by
    intro c i hm
    have := h.e1 c v.size i hm
    rw [(ho v.size (Nat.le_refl _)).2] at this
    cases this
  have hnec : ∀ m, ((v.push k cs).rn m).nec = (v.rn m).nec := by
    intro m
    by_cases hm : m = v.size
    · subst hm; rw [hself, (ho v.size (Nat.le_refl _)).1]; rfl
    · rw [hother m hm]
  have hinr : ∀ m, ((v.push k cs).rn m).inRch = (v.rn m).inRch := by
    intro m
    by_cases hm : m = v.size
    · subst hm; rw [hself, (ho v.size (Nat.le_refl _)).1]
    · rw [hother m hm]
  have hval : ∀ m, ((v.push k cs).rn m).valid = (v.rn m).valid := by
    intro m
    by_cases hm : m = v.size
    · subst hm; rw [hself, (ho v.size (Nat.le_refl _)).1]
    · rw [hother m hm]
  have hkold : ∀ m, m ≠ v.size → ((v.push k cs).rn m).kind = (v.rn m).kind := fun m hm => by rw [hother m hm]
  have hknew : ((v.push k cs).rn v.size).kind = k := by rw [hself]
  have hkoob : (v.rn v.size).kind = .const default := by rw [(ho v.size (Nat.le_refl _)).1]
  apply NecV.of
  · refine ⟨h.dbg, ?_, ?_, ?_, ?_, ?_⟩
    · intro c p i hm
      rw [hpar] at hm
      have hp : p ≠ v.size := by rintro rfl; exact hnorec c i hm
      rw [hcho p hp]; exact h.e1 c p i hm
    · intro m hm; rw [hinr] at hm; rw [hval]; exact h.e3v m hm
    · intro c; rw [hpar]; exact h.e4 c
    · -- kinds
      have hcase : ∀ m, ((v.push k cs).rn m).kind = (v.rn m).kind ∨ (m = v.size ∧ ((v.push k cs).rn m).kind = k) := by
        intro m
        by_cases hm : m = v.size
        · exact Or.inr ⟨hm, by rw [hm, hknew]⟩
        · exact Or.inl (hkold m hm)
      have hnotnew : ∀ m kd, (v.rn m).kind = kd → kd ≠ .const default → m ≠ v.size := by
        rintro m kd hkd hne rfl
        rw [hkoob] at hkd; exact hne hkd.symm
      rcases hk with hk | ⟨e, rfl, he, hfresh⟩
      · have hold : ∀ m kd, ((v.push k cs).rn m).kind = kd → ¬ KindPlain kd → (v.rn m).kind = kd := by
          intro m kd hkd hnp
          rcases hcase m with h1 | ⟨-, h1⟩
          · rw [← h1]; exact hkd
          · rw [h1] at hkd; subst hkd; exact absurd hk hnp
        refine ⟨?_, ?_, ?_, ?_, ?_, ?_, ?_⟩
        · intro n n' b lc lc' h1 h2
          exact h.k.bmInj n n' b lc lc' (hold _ _ h1 (by simp [KindPlain])) (hold _ _ h2 (by simp [KindPlain]))
        · intro n b lc h1; exact h.k.bmLt n b lc (hold _ _ h1 (by simp [KindPlain]))
        · intro n n' e h1 h2
          exact h.k.exInj n n' e (hold _ _ h1 (by simp [KindPlain])) (hold _ _ h2 (by simp [KindPlain]))
        · intro n e h1; exact h.k.exLt n e (hold _ _ h1 (by simp [KindPlain]))
        · intro b m h1
          obtain ⟨lc, h2⟩ := h.k.bmHas b m h1
          exact ⟨lc, by rw [hkold m (hnotnew m _ h2 (by simp))]; exact h2⟩
        · intro m b lc h1; exact h.k.bmOf m b lc (hold _ _ h1 (by simp [KindPlain]))
        · intro n b h1; exact h.k.blLt n b (hold _ _ h1 (by simp [KindPlain]))
      · have hold : ∀ m kd, ((v.push (.expert e) cs).rn m).kind = kd → (∀ e', kd ≠ .expert e') →
            (v.rn m).kind = kd := by
          intro m kd hkd hnp
          rcases hcase m with h1 | ⟨-, h1⟩
          · rw [← h1]; exact hkd
          · rw [h1] at hkd; subst hkd; exact absurd rfl (hnp e)
        refine ⟨?_, ?_, ?_, ?_, ?_, ?_, ?_⟩
        · intro n n' b lc lc' h1 h2
          exact h.k.bmInj n n' b lc lc' (hold _ _ h1 (by simp)) (hold _ _ h2 (by simp))
        · intro n b lc h1; exact h.k.bmLt n b lc (hold _ _ h1 (by simp))
        · intro n n' e' h1 h2
          rcases hcase n with g1 | ⟨g1, g1'⟩ <;> rcases hcase n' with g2 | ⟨g2, g2'⟩
          · rw [g1] at h1; rw [g2] at h2; exact h.k.exInj n n' e' h1 h2
          · rw [g1] at h1; rw [g2'] at h2; injection h2 with h2; subst h2
            exact absurd h1 (hfresh n)
          · rw [g1'] at h1; rw [g2] at h2; injection h1 with h1; subst h1
            exact absurd h2 (hfresh n')
          · rw [g1, g2]
        · intro n e' h1
          rcases hcase n with g1 | ⟨-, g1'⟩
          · rw [g1] at h1; exact h.k.exLt n e' h1
          · rw [g1'] at h1; injection h1 with h1; subst h1; exact he
        · intro b m h1
          obtain ⟨lc, h2⟩ := h.k.bmHas b m h1
          exact ⟨lc, by rw [hkold m (hnotnew m _ h2 (by simp))]; exact h2⟩
        · intro m b lc h1; exact h.k.bmOf m b lc (hold _ _ h1 (by simp))
        · intro n b h1; exact h.k.blLt n b (hold _ _ h1 (by simp))
    · intro m hm
      by_cases hmn : m = v.size
      · subst hmn; rw [hself] at hm; cases hm
      · rw [hother m hmn] at hm; rw [hcho m hmn]; exact h.chv m hm
  · intro c p i hm
    rw [hpar] at hm; rw [hnec]; exact h.e2 c p i hm
  · intro m hm
    rw [hinr] at hm; rw [hnec]; exact (h.e3 m hm).1

theorem OOB_push {v : View} (k : Kind) (cs : List Nat) (ho : OOB v) : OOB (v.push k cs) := by
  intro m hm
  have hm' : v.size + 1 ≤ m := hm
  have hne : m ≠ v.size := by omega
  simp only [View.push, hne, if_false]
  exact ho m (by omega)

/-! ### part N12 -/

section
variable (v : View)

@[spec 100000] theorem isConstant_v (n : Nat) : VF v (isConstant n) := by
  nv_mvcgen [isConstant]
  vf_fin
@[spec 100000] theorem resolveOpnd_v (loc : List Nat) (o : Opnd) : VF v (resolveOpnd loc o) := by
  nv_mvcgen [resolveOpnd]
  vf_fin

@[spec 100000] theorem mapM_v {α β} (f : α → M β) (hf : ∀ a v, VF v (f a)) (l : List α) : VF v (l.mapM f) := by
  induction l generalizing v with
  | nil => nv_mvcgen [List.mapM_nil]
  | cons a l ih =>
    have := hf a
    rw [List.mapM_cons]
    nv_mvcgen [this, ih]
    vf_fin

@[spec 100000] theorem createVar_v (x : Val) (sc : Scope) :
    ⦃fun s => ⌜viewOf s = v⌝⦄ createVar x sc
    ⦃post⟨fun r s => ⌜r = v.size ∧ ∃ k cs, KindPlain k ∧ viewOf s = v.push k cs⌝, fun _ _ => ⌜True⌝⟩⦄ := by
  nv_mvcgen [createVar]
  vsimp
  exact ⟨Kind.var _, _, trivial, rfl⟩

end

/-- node creation only extends a view: existing nodes and existing bind records keep what the view
reads of them -/
structure Ext (v v' : View) : Prop where
  size : v.size ≤ v'.size
  nb : v.nb ≤ v'.nb
  ne : v.ne ≤ v'.ne
  debug : v'.debug = v.debug
  rn : ∀ m, m < v.size → v'.rn m = v.rn m
  ch : ∀ m, m < v.size → v'.ch m = v.ch m
  bmain : ∀ b, b < v.nb → v'.bmain b = v.bmain b

theorem Ext.refl (v : View) : Ext v v :=
  ⟨Nat.le_refl _, Nat.le_refl _, Nat.le_refl _, rfl, fun _ _ => rfl, fun _ _ => rfl, fun _ _ => rfl⟩

theorem Ext.trans {a b c : View} (h1 : Ext a b) (h2 : Ext b c) : Ext a c :=
  ⟨Nat.le_trans h1.size h2.size, Nat.le_trans h1.nb h2.nb, Nat.le_trans h1.ne h2.ne,
   h2.debug.trans h1.debug,
   fun m hm => (h2.rn m (Nat.lt_of_lt_of_le hm h1.size)).trans (h1.rn m hm),
   fun m hm => (h2.ch m (Nat.lt_of_lt_of_le hm h1.size)).trans (h1.ch m hm),
   fun b hb => (h2.bmain b (Nat.lt_of_lt_of_le hb h1.nb)).trans (h1.bmain b hb)⟩

theorem Ext.push (v : View) (k : Kind) (cs : List Nat) : Ext v (v.push k cs) := by
  refine ⟨Nat.le_succ _, Nat.le_refl _, Nat.le_refl _, rfl, ?_, ?_, fun _ _ => rfl⟩
  · intro m hm
    have : m ≠ v.size := Nat.ne_of_lt hm
    simp [View.push, this]
  · intro m hm
    have : m ≠ v.size := Nat.ne_of_lt hm
    simp [View.push, this]

/-- what node creation guarantees: the invariant is kept and the view is only extended -/
def CPost (v v' : View) : Prop := Ext v v' ∧ (NecV v → NecV v')

/-! ### part A1 -/

/-! ## the expert API: frames -/

@[spec 100000] theorem assertRunningIsChild_v (v : View) (n : Nat) (name : String) :
    VF v (assertRunningIsChild n name) := by
  nv_mvcgen [assertRunningIsChild]
  vf_fin

theorem kindq_eq {r : RNode} {k : Kind} (h : (if r.valid = true then some r.kind else none) = some k) :
    r.valid = true ∧ r.kind = k := by
  split at h
  · rename_i hv; exact ⟨hv, by injection h⟩
  · cases h

@[spec 100000] theorem expertOf_v (v : View) (n : Nat) :
    ⦃fun s => ⌜viewOf s = v⌝⦄ expertOf n
    ⦃post⟨fun r s => ⌜viewOf s = v ∧
        ∀ e, r = some e → (v.rn n).valid = true ∧ (v.rn n).kind = .expert e ∧ n < v.size⌝,
      fun _ _ => ⌜True⌝⟩⦄ := by
  nv_mvcgen [expertOf]
  all_goals vsimp
  · intro e he
    cases he
    exact kindq_eq (by assumption)
  · intro e he; cases he

/-! ## views after the expert updates -/

/-- the index swap `swapEdgeIndices` applies to parent records -/
def swapIdx (n i1 i2 : Nat) (pc : Nat × Nat) : Nat × Nat :=
  if pc == (n, i1) then (n, i2) else if pc == (n, i2) then (n, i1) else pc

/-- the parent list of `c` mapped with `σ` -/
def View.mapPar (v : View) (c : Nat) (σ : Nat × Nat → Nat × Nat) : View :=
  v.setRn c { v.rn c with parents := (v.rn c).parents.map σ }

/-- the view after `swapEdgeIndices n c1 i1 c2 i2` -/
def View.swapE (v : View) (n c1 i1 c2 i2 : Nat) : View :=
  { v with rn := fun m => if m = c1 ∨ m = c2 then
      { v.rn m with parents := (v.rn m).parents.map (swapIdx n i1 i2) } else v.rn m }

/-- the view after `modExpert e f` when `f` maps the child list with `g` -/
def View.mapChE (v : View) (e : Nat) (g : List Nat → List Nat) : View :=
  { v with ch := fun m =>
      if (v.rn m).valid = true ∧ (v.rn m).kind = .expert e ∧ e < v.ne then g (v.ch m) else v.ch m }

theorem mkView_mapPar (nodes : Array Node) (binds experts dbg) (c : Nat) (σ : Nat × Nat → Nat × Nat) :
    mkView (nodes.modify c fun x => { x with parents := x.parents.map σ }) binds experts dbg
      = (mkView nodes binds experts dbg).mapPar c σ := by
  by_cases hc : c < nodes.size
  · exact mkView_modify_setRn nodes binds experts dbg c _ hc rfl
  · have hle : nodes.size ≤ c := Nat.le_of_not_lt hc
    rw [modify_of_le _ _ _ hle]
    unfold View.mapPar
    rw [View.setRn_self]
    simp only [mkView, nodeAt_of_le _ _ hle]
    rfl

theorem mapPar_swapE_ne (v : View) (n c1 i1 c2 i2 : Nat) (h : c2 ≠ c1) :
    (v.mapPar c1 (swapIdx n i1 i2)).mapPar c2 (swapIdx n i1 i2) = v.swapE n c1 i1 c2 i2 := by
  simp only [View.mapPar, View.setRn, View.swapE, View.mk.injEq, true_and, and_true]
  funext m
  by_cases h2 : m = c2
  · subst h2; simp [h]
  · by_cases h1 : m = c1
    · subst h1; simp [h2]
    · simp [h1, h2]

theorem mapPar_swapE_eq (v : View) (n c1 i1 i2 : Nat) :
    v.mapPar c1 (swapIdx n i1 i2) = v.swapE n c1 i1 c1 i2 := by
  simp only [View.mapPar, View.setRn, View.swapE, View.mk.injEq, true_and, and_true]
  funext m
  by_cases h1 : m = c1
  · subst h1; simp
  · simp [h1]

theorem mkView_modExpert_ch (nodes : Array Node) (binds : Array BindRec) (experts : Array ExpertRec) (dbg)
    (e : Nat) (f : ExpertRec → ExpertRec) (g : List Nat → List Nat)
    (hf : ∀ x, (f x).children.map (·.child) = g (x.children.map (·.child))) :
    mkView nodes binds (experts.modify e f) dbg = (mkView nodes binds experts dbg).mapChE e g := by
  simp only [mkView, View.mapChE, Array.size_modify, View.mk.injEq, true_and, and_true]
  funext m
  simp only [rel, Node.kind?]
  by_cases hv : (nodeAt nodes m).valid = true
  · simp only [hv, if_true, true_and]
    cases hk : (nodeAt nodes m).kind <;> simp only [chK, reduceCtorEq, false_and, if_false]
    rename_i e'
    by_cases he : e' = e
    · subst he
      simp only [true_and, Array.getElem?_modify, if_true]
      by_cases hlt : e' < experts.size
      · simp [hlt, hf]
      · simp [hlt]
    · have : ¬ e = e' := fun h => he h.symm
      simp [he, Array.getElem?_modify, this]
  · simp [hv, chK]

/-- `swapEdgeIndices` -/
@[spec 100000] theorem swapEdgeIndices_v (v : View) (n c1 i1 c2 i2 : Nat) :
    ⦃fun s => ⌜viewOf s = v⌝⦄ swapEdgeIndices n c1 i1 c2 i2
    ⦃post⟨fun _ s => ⌜viewOf s = v.swapE n c1 i1 c2 i2⌝, fun _ _ => ⌜True⌝⟩⦄ := by
  nv_mvcgen [swapEdgeIndices, -modNode_v, modNode]
  all_goals vnorm
  · refine (mkView_mapPar _ _ _ _ c2 (swapIdx n i1 i2)).trans ?_
    refine (congrArg (fun w => View.mapPar w c2 (swapIdx n i1 i2))
      (mkView_mapPar _ _ _ _ c1 (swapIdx n i1 i2))).trans ?_
    rw [‹mkView _ _ _ _ = v›]
    exact mapPar_swapE_ne v n c1 i1 c2 i2 (by simpa using ‹(c2 != c1) = true›)
  · refine (mkView_mapPar _ _ _ _ c1 (swapIdx n i1 i2)).trans ?_
    rw [‹mkView _ _ _ _ = v›]
    have : c2 = c1 := by simpa using ‹¬ (c2 != c1) = true›
    subst this
    exact mapPar_swapE_eq v n c2 i1 i2

@[spec 200000] theorem modExpert_swap_v (v : View) (e i j : Nat) (a b : ExpertEdge) :
    ⦃fun s => ⌜viewOf s = v⌝⦄ modExpert e (fun x => { x with children := (x.children.set i a).set j b })
    ⦃post⟨fun _ s => ⌜viewOf s = v.mapChE e (fun l => (l.set i a.child).set j b.child)⌝,
      fun _ _ => ⌜True⌝⟩⦄ := by
  nv_mvcgen [-modExpert_v, modExpert]
  vnorm
  rw [← ‹mkView _ _ _ _ = v›]
  exact mkView_modExpert_ch _ _ _ _ e _ _ (by intro x; simp [List.map_set])

@[spec 200000] theorem modExpert_dropLast_v (v : View) (e dep : Nat) :
    ⦃fun s => ⌜viewOf s = v⌝⦄
    modExpert e (fun x => { x with children := x.children.dropLast, forceStale := true,
                                   slots := x.slots.filter (·.1 != dep) })
    ⦃post⟨fun _ s => ⌜viewOf s = v.mapChE e List.dropLast⌝, fun _ _ => ⌜True⌝⟩⦄ := by
  nv_mvcgen [-modExpert_v, modExpert]
  vnorm
  rw [← ‹mkView _ _ _ _ = v›]
  exact mkView_modExpert_ch _ _ _ _ e _ _ (by intro x; simp [List.map_dropLast])

theorem viewOf_ch_expert (s : State) (e m : Nat) (er : ExpertRec) (h : s.experts[e]? = some er)
    (hv : ((viewOf s).rn m).valid = true) (hk : ((viewOf s).rn m).kind = .expert e) :
    (viewOf s).ch m = er.children.map (·.child) := by
  have hv' : (nodeAt s.nodes m).valid = true := hv
  have hk' : (nodeAt s.nodes m).kind = .expert e := hk
  simp [viewOf, mkView, Node.kind?, hv', hk', chK, h]

/-- `getExpert`, with what the record says about the view -/
theorem getExpert_x (v : View) (e : Nat) :
    ⦃fun s => ⌜viewOf s = v⌝⦄ getExpert e
    ⦃post⟨fun er s => ⌜viewOf s = v ∧ e < v.ne ∧
        ∀ m, (v.rn m).valid = true → (v.rn m).kind = .expert e → v.ch m = er.children.map (·.child)⌝,
      fun _ _ => ⌜True⌝⟩⦄ := by
  nv_mvcgen [-getExpert_v, getExpert]
  rename_i s h er her
  subst h
  exact ⟨rfl, (Array.getElem?_eq_some_iff.1 her).1, fun m hv hk => viewOf_ch_expert s e m er her hv hk⟩

/-! ## view-level lemmas -/

/-- the invariant carries over to a view with the same node data up to a re-indexing of the parent lists -/
theorem NecV.transfer {v v' : View} (h : NecV v)
    (hnb : v'.nb = v.nb) (hne : v'.ne = v.ne) (hbm : v'.bmain = v.bmain) (hdbg : v'.debug = v.debug)
    (hk : ∀ m, (v'.rn m).kind = (v.rn m).kind) (hv : ∀ m, (v'.rn m).valid = (v.rn m).valid)
    (hb : ∀ m, (v'.rn m).base = (v.rn m).base) (hq : ∀ m, (v'.rn m).inRch = (v.rn m).inRch)
    (hp : ∀ m, (v'.rn m).parents.isEmpty = (v.rn m).parents.isEmpty)
    (hedge : ∀ p, HasEdge v' p → HasEdge v p)
    (he1 : ∀ c p i, (p, i) ∈ (v'.rn c).parents → (v'.ch p)[i]? = some c)
    (he4 : ∀ c, (v'.rn c).parents.Nodup)
    (hchv : ∀ m, (v'.rn m).valid = false → v'.ch m = []) : NecV v' := by
  have hnec : ∀ m, (v'.rn m).nec = (v.rn m).nec := by
    intro m; simp only [RNode.nec, hp, hb]
  refine ⟨⟨by rw [hdbg]; exact h.dbg, he1, ?_, he4, h.k.congr hk hnb hne hbm, hchv⟩, ?_⟩
  · intro m hm; rw [hq] at hm; rw [hv]; exact h.e3v m hm
  · rintro p ⟨hn, hb'⟩
    apply h.nobad p
    rw [hnec] at hn
    refine ⟨hn, ?_⟩
    rcases hb' with hb' | hb'
    · exact Or.inl (hedge p hb')
    · rw [hq] at hb'; exact Or.inr hb'

theorem mapChE_ch_self (v : View) (e n : Nat) (g : List Nat → List Nat)
    (hv : (v.rn n).valid = true) (hk : (v.rn n).kind = .expert e) (he : e < v.ne) :
    (v.mapChE e g).ch n = g (v.ch n) := by
  simp [View.mapChE, hv, hk, he]

/-- changing the child list of the expert nodes in a way compatible with the recorded edges -/
theorem necV_mapChE {v : View} (e : Nat) (g : List Nat → List Nat) (h : NecV v)
    (hg : ∀ m c i, (v.rn m).valid = true → (v.rn m).kind = .expert e → (m, i) ∈ (v.rn c).parents →
      (g (v.ch m))[i]? = some c) : NecV (v.mapChE e g) := by
  apply h.transfer (v' := v.mapChE e g) rfl rfl rfl rfl (fun _ => rfl) (fun _ => rfl) (fun _ => rfl)
    (fun _ => rfl) (fun _ => rfl) (fun p hp => hp)
  · intro c p i hm
    simp only [View.mapChE]
    split
    · rename_i hc; exact hg p c i hc.1 hc.2.1 hm
    · exact h.e1 c p i hm
  · exact h.e4
  · intro m hm
    have hm' : (v.rn m).valid = false := hm
    simp only [View.mapChE, hm', Bool.false_eq_true, false_and, if_false]
    exact h.chv m hm'

theorem swapIdx_fst (n i1 i2 : Nat) (x : Nat × Nat) : (swapIdx n i1 i2 x).1 = x.1 := by
  unfold swapIdx
  split
  · rename_i h; simp at h; rw [h]
  · split
    · rename_i h; simp at h; rw [h]
    · rfl

theorem swapIdx_invol (n i1 i2 : Nat) (x : Nat × Nat) : swapIdx n i1 i2 (swapIdx n i1 i2 x) = x := by
  obtain ⟨p, i⟩ := x
  simp only [swapIdx, beq_iff_eq, Prod.mk.injEq]
  grind

theorem swapIdx_inj (n i1 i2 : Nat) (x y : Nat × Nat) (h : swapIdx n i1 i2 x = swapIdx n i1 i2 y) : x = y := by
  rw [← swapIdx_invol n i1 i2 x, h, swapIdx_invol]

theorem swapIdx_other (n i1 i2 : Nat) (x : Nat × Nat) (h1 : x ≠ (n, i1)) (h2 : x ≠ (n, i2)) :
    swapIdx n i1 i2 x = x := by
  simp [swapIdx, h1, h2]

theorem lt_of_getElem?_some {l : List Nat} {i c : Nat} (h : l[i]? = some c) : i < l.length := by
  rcases Nat.lt_or_ge i l.length with h' | h'
  · exact h'
  · rw [List.getElem?_eq_none h'] at h; cases h

theorem necV_swap_aux {v v' : View} {n c1 c2 i1 i2 : Nat} (h : NecV v)
    (h1 : (v.ch n)[i1]? = some c1) (h2 : (v.ch n)[i2]? = some c2)
    (hstat : v'.nb = v.nb ∧ v'.ne = v.ne ∧ v'.bmain = v.bmain ∧ v'.debug = v.debug)
    (hfields : ∀ m, (v'.rn m).kind = (v.rn m).kind ∧ (v'.rn m).valid = (v.rn m).valid ∧
      (v'.rn m).base = (v.rn m).base ∧ (v'.rn m).inRch = (v.rn m).inRch)
    (hpar : ∀ c, (v'.rn c).parents = (v.rn c).parents.map (swapIdx n i1 i2))
    (hchn : v'.ch n = ((v.ch n).set i1 c2).set i2 c1)
    (hcho : ∀ p, p ≠ n → v'.ch p = v.ch p) : NecV v' := by
  have hl1 := lt_of_getElem?_some h1
  have hl2 := lt_of_getElem?_some h2
  apply h.transfer hstat.1 hstat.2.1 hstat.2.2.1 hstat.2.2.2 (fun m => (hfields m).1)
    (fun m => (hfields m).2.1) (fun m => (hfields m).2.2.1) (fun m => (hfields m).2.2.2)
  · intro m; rw [hpar, List.isEmpty_map]
  · rintro p ⟨c, i, hm⟩
    rw [hpar, List.mem_map] at hm
    obtain ⟨x, hx, hxe⟩ := hm
    have := swapIdx_fst n i1 i2 x
    rw [hxe] at this
    refine ⟨c, x.2, ?_⟩
    have e : (p, x.2) = x := by
      have : p = x.1 := this
      rw [this]
    rw [e]; exact hx
  · intro c p i hm
    rw [hpar, List.mem_map] at hm
    obtain ⟨⟨p', i'⟩, hx, hxe⟩ := hm
    have he1 := h.e1 c p' i' hx
    by_cases ha : (p', i') = (n, i1)
    · cases ha
      have : swapIdx n i1 i2 (n, i1) = (n, i2) := by simp [swapIdx]
      rw [this] at hxe; cases hxe
      rw [h1] at he1; cases he1
      rw [hchn]
      simp [hl2]
    · by_cases hb : (p', i') = (n, i2)
      · cases hb
        have hne : i2 ≠ i1 := fun e => ha (by rw [e])
        have : swapIdx n i1 i2 (n, i2) = (n, i1) := by simp [swapIdx, hne]
        rw [this] at hxe; cases hxe
        rw [h2] at he1; cases he1
        rw [hchn]
        simp [hl1, hne]
      · rw [swapIdx_other n i1 i2 _ ha hb] at hxe
        cases hxe
        by_cases hp : p = n
        · subst hp
          have n1 : i1 ≠ i := fun e => ha (by rw [e])
          have n2 : i2 ≠ i := fun e => hb (by rw [e])
          rw [hchn]
          simp only [List.getElem?_set, n1, n2, if_false]
          exact he1
        · rw [hcho p hp]; exact he1
  · intro c
    rw [hpar]
    exact List.Pairwise.map _ (fun a b hab e => hab (swapIdx_inj n i1 i2 a b e)) (h.e4 c)
  · intro m hm
    have hm' := hm
    rw [(hfields m).2.1] at hm'
    by_cases hmn : m = n
    · subst hmn
      rw [h.chv m hm'] at h1; cases h1
    · rw [hcho m hmn]; exact h.chv m hm'

theorem swapE_valid (v : View) (n c1 i1 c2 i2 m : Nat) :
    ((v.swapE n c1 i1 c2 i2).rn m).valid = (v.rn m).valid := by
  simp only [View.swapE]; split <;> rfl

theorem swapE_kind (v : View) (n c1 i1 c2 i2 m : Nat) :
    ((v.swapE n c1 i1 c2 i2).rn m).kind = (v.rn m).kind := by
  simp only [View.swapE]; split <;> rfl

/-- swapping two entries of the child list of the expert node `n` together with the index records -/
theorem necV_swap {v : View} {n e c1 c2 i1 i2 : Nat} (h : NecV v)
    (hv : (v.rn n).valid = true) (hk : (v.rn n).kind = .expert e)
    (h1 : (v.ch n)[i1]? = some c1) (h2 : (v.ch n)[i2]? = some c2) :
    NecV ((v.swapE n c1 i1 c2 i2).mapChE e (fun l => (l.set i1 c2).set i2 c1)) := by
  have he : e < v.ne := h.k.exLt n e hk
  apply necV_swap_aux (v' := (v.swapE n c1 i1 c2 i2).mapChE e (fun l => (l.set i1 c2).set i2 c1)) h h1 h2
    ⟨rfl, rfl, rfl, rfl⟩
  · intro m
    simp only [View.mapChE, View.swapE]
    split <;> exact ⟨rfl, rfl, rfl, rfl⟩
  · intro c
    simp only [View.mapChE, View.swapE]
    split
    · rfl
    · rename_i hc
      symm
      refine (List.map_congr_left (g := id) fun x hx => ?_).trans (List.map_id _)
      apply swapIdx_other
      · rintro rfl
        have := h.e1 c n i1 hx
        rw [h1] at this; cases this
        exact hc (Or.inl rfl)
      · rintro rfl
        have := h.e1 c n i2 hx
        rw [h2] at this; cases this
        exact hc (Or.inr rfl)
  · exact mapChE_ch_self (v.swapE n c1 i1 c2 i2) e n _ ((swapE_valid v n c1 i1 c2 i2 n).trans hv)
      ((swapE_kind v n c1 i1 c2 i2 n).trans hk) he
  · intro p hp
    simp only [View.mapChE]
    split
    · rename_i hc
      exact absurd (h.k.exInj p n e (by rw [← swapE_kind v n c1 i1 c2 i2]; exact hc.2.1) hk) hp
    · rfl

/-! ## `expertRemoveDependency` -/

/-- the state of the view after the first half of `expertRemoveDependency`: the invariant holds and the
edge to remove is the last entry of the child list of the expert node `n` -/
structure Mid (v2 : View) (n e c1 li : Nat) : Prop where
  nec : NecV v2
  valid : (v2.rn n).valid = true
  kind : (v2.rn n).kind = .expert e
  last : (v2.ch n)[li]? = some c1
  len : (v2.ch n).length = li + 1

theorem edge_at (cs : List ExpertEdge) (i : Nat) (hi : i < cs.length) :
    (cs.map (·.child))[i]? = some (cs[i]?.getD default).child := by
  simp [List.getElem?_eq_getElem hi]

theorem findIdx_lt {cs : List ExpertEdge} {q : ExpertEdge → Bool} {ei : Nat}
    (hfi : cs.findIdx? q = some ei) : ei < cs.length := by
  rw [List.findIdx?_eq_some_iff_getElem] at hfi
  exact hfi.1

/-- the two entries were swapped on both sides -/
theorem midA {v v1 v2 : View} {n e ei : Nat} {cs : List ExpertEdge} {q : ExpertEdge → Bool}
    (h : NecV v) (hv : (v.rn n).valid = true) (hk : (v.rn n).kind = .expert e)
    (hch : v.ch n = cs.map (·.child)) (hfi : cs.findIdx? q = some ei)
    (hv1 : v1 = v.swapE n (cs[ei]?.getD default).child ei (cs[cs.length - 1]?.getD default).child (cs.length - 1))
    (hv2 : v2 = v1.mapChE e (fun l => (l.set ei (cs[cs.length - 1]?.getD default).child).set (cs.length - 1)
      (cs[ei]?.getD default).child)) :
    Mid v2 n e (cs[ei]?.getD default).child (cs.length - 1) := by
  have hlt := findIdx_lt hfi
  have hlt2 : cs.length - 1 < cs.length := by omega
  have h1 : (v.ch n)[ei]? = some (cs[ei]?.getD default).child := by rw [hch]; exact edge_at cs ei hlt
  have h2 : (v.ch n)[cs.length - 1]? = some (cs[cs.length - 1]?.getD default).child := by
    rw [hch]; exact edge_at cs _ hlt2
  have he : e < v.ne := h.k.exLt n e hk
  subst hv1 hv2
  have hchn := mapChE_ch_self (v.swapE n (cs[ei]?.getD default).child ei (cs[cs.length - 1]?.getD default).child
      (cs.length - 1)) e n (fun l => (l.set ei (cs[cs.length - 1]?.getD default).child).set (cs.length - 1)
      (cs[ei]?.getD default).child) ((swapE_valid _ _ _ _ _ _ n).trans hv) ((swapE_kind _ _ _ _ _ _ n).trans hk) he
  have hlen : (v.ch n).length = cs.length := by rw [hch]; simp
  refine ⟨necV_swap h hv hk h1 h2, (swapE_valid _ _ _ _ _ _ n).trans hv, (swapE_kind _ _ _ _ _ _ n).trans hk, ?_, ?_⟩
  · rw [hchn]
    show (((v.ch n).set ei _).set (cs.length - 1) _)[cs.length - 1]? = _
    simp [hlen, hlt2]
  · rw [hchn]
    show (((v.ch n).set ei _).set (cs.length - 1) _).length = _
    simp [hlen]; omega

/-- no edge of `n` is recorded: the child list may change freely -/
theorem necV_mapChE_unnec {v : View} {n e : Nat} (g : List Nat → List Nat) (h : NecV v)
    (hk : (v.rn n).kind = .expert e) (hn : (v.rn n).nec = false) : NecV (v.mapChE e g) := by
  apply necV_mapChE e g h
  intro m c i _ hkm hm
  have : m = n := h.k.exInj m n e hkm hk
  subst this
  have := h.e2 c m i hm
  rw [this] at hn; cases hn

theorem midB {v v2 : View} {n e ei : Nat} {cs : List ExpertEdge} {q : ExpertEdge → Bool}
    (h : NecV v) (hv : (v.rn n).valid = true) (hk : (v.rn n).kind = .expert e)
    (hch : v.ch n = cs.map (·.child)) (hfi : cs.findIdx? q = some ei)
    (hn : ¬ (v.rn n).nec = true)
    (hv2 : v2 = v.mapChE e (fun l => (l.set ei (cs[cs.length - 1]?.getD default).child).set (cs.length - 1)
      (cs[ei]?.getD default).child)) :
    Mid v2 n e (cs[ei]?.getD default).child (cs.length - 1) := by
  have hlt := findIdx_lt hfi
  have hlt2 : cs.length - 1 < cs.length := by omega
  have he : e < v.ne := h.k.exLt n e hk
  subst hv2
  have hchn := mapChE_ch_self v e n (fun l => (l.set ei (cs[cs.length - 1]?.getD default).child).set (cs.length - 1)
      (cs[ei]?.getD default).child) hv hk he
  have hlen : (v.ch n).length = cs.length := by rw [hch]; simp
  refine ⟨necV_mapChE_unnec _ h hk (by simpa using hn), hv, hk, ?_, ?_⟩
  · rw [hchn]
    simp [hlen, hlt2]
  · rw [hchn]
    simp [hlen]; omega

theorem midC {v : View} {n e ei : Nat} {cs : List ExpertEdge} {q : ExpertEdge → Bool}
    (h : NecV v) (hv : (v.rn n).valid = true) (hk : (v.rn n).kind = .expert e)
    (hch : v.ch n = cs.map (·.child)) (hfi : cs.findIdx? q = some ei)
    (hei : ¬ (ei != cs.length - 1) = true) :
    Mid v n e (cs[ei]?.getD default).child (cs.length - 1) := by
  have hlt := findIdx_lt hfi
  have hei' : ei = cs.length - 1 := by simpa using hei
  refine ⟨h, hv, hk, ?_, ?_⟩
  · rw [hch, ← hei']; exact edge_at cs ei hlt
  · rw [hch]; simp; omega

/-- `n` is unnecessary: dropping the last child is harmless -/
theorem finU {v2 : View} {n e c1 li : Nat} (hm : Mid v2 n e c1 li) (hn : ¬ (v2.rn n).nec = true) :
    NecV (v2.mapChE e List.dropLast) :=
  necV_mapChE_unnec _ hm.nec hm.kind (by simpa using hn)

/-- `n` is necessary: the last edge is unlinked, the cascade runs, `n` is possibly queued, and the last child
is dropped -/
theorem finN {v2 v3 v4 v5 : View} {n e c1 li pi : Nat} (hm : Mid v2 n e c1 li)
    (hidx : (v2.rn c1).parents.idxOf? (n, li) = some pi)
    (hv3 : v3 = v2.setParents c1 (swapRemove (v2.rn c1).parents pi))
    (hcu : UPost c1 v3 v4)
    (hv5 : v5 = v4 ∨ (v5 = v4.setInRch n true ∧
      (v4.debug = true → (v4.rn n).nec = true ∧ (v4.rn n).valid = true))) :
    NecV (v5.mapChE e List.dropLast) := by
  obtain ⟨hJ3, hrel3, hbad3, hpar3⟩ := remPar_step hm.nec.toJ hidx
  rw [← hv3] at hJ3 hrel3 hbad3 hpar3
  obtain ⟨hJ4, hrel4, hbad4⟩ := hcu hJ3
  have hN4 : NecV v4 := by
    refine ⟨hJ4, fun p hp => ?_⟩
    obtain ⟨hb, hne⟩ := hbad4 p hp
    rcases hbad3 p hb with hb2 | hb2
    · exact hm.nec.nobad p hb2
    · exact hne hb2
  have h5 : NecV v5 ∧ (∀ m, (v5.rn m).parents = (v4.rn m).parents) ∧ v5.ch = v4.ch ∧
      (∀ m, (v5.rn m).kind = (v4.rn m).kind) := by
    rcases hv5 with rfl | ⟨rfl, hd⟩
    · exact ⟨hN4, fun _ => rfl, rfl, fun _ => rfl⟩
    · obtain ⟨g1, g2, g3⟩ := setRch_step n hN4 (hd hN4.dbg).1 (hd hN4.dbg).2
      exact ⟨g1, g3, g2.ch, g2.kind⟩
  obtain ⟨hN5, hp5, hch5, hk5⟩ := h5
  apply necV_mapChE e _ hN5
  intro m c i _ hkm hmem
  have hkm2 : (v2.rn m).kind = .expert e := by
    rw [← hrel3.kind, ← hrel4.kind, ← hk5]; exact hkm
  have : m = n := hm.nec.k.exInj m n e hkm2 hm.kind
  subst this
  rw [hp5] at hmem
  obtain ⟨hmem2, hnot⟩ := hpar3 c _ (hrel4.par c _ hmem)
  have he1 := hm.nec.e1 c m i hmem2
  rw [hch5, hrel4.ch, hrel3.ch]
  have hil : i < (v2.ch m).length := lt_of_getElem?_some he1
  have hne : i ≠ li := by
    rintro rfl
    rw [hm.last] at he1
    cases he1
    exact hnot ⟨rfl, rfl⟩
  rw [List.getElem?_dropLast, if_pos (by rw [hm.len] at hil ⊢; omega)]
  exact he1

/-- the second half of `expertRemoveDependency` -/
macro "erd_fin " h:ident : tactic =>
  `(tactic| first
    | exact finN $h ‹List.idxOf? _ _ = some _› rfl ‹UPost _ _ _› (Or.inr ⟨rfl, ‹_ → _ ∧ _›⟩)
    | exact finN $h ‹List.idxOf? _ _ = some _› rfl ‹UPost _ _ _› (Or.inl rfl)
    | exact finU $h ‹¬ _ = true›)

@[spec 100000] theorem expertRemoveDependency_v (v : View) (fuel n dep : Nat) :
    NP v (expertRemoveDependency fuel n dep) := by
  have hge := getExpert_x
  nv_mvcgen [expertRemoveDependency, -getExpert_v, hge]
  all_goals vsimp
  all_goals first
    | (intros; trivial)
    | skip
  all_goals
    intro _ hN
    obtain ⟨hv, hk, -⟩ := ‹∀ e, some _ = some e → _› _ rfl
    have hch := ‹∀ m, (v.rn m).valid = true → (v.rn m).kind = Kind.expert _ → v.ch m = _› n hv hk
    have hfi := ‹List.findIdx? (fun (x : ExpertEdge) => x.dep == dep) _ = some _›
    first
      | (have hmid := midA hN hv hk hch hfi rfl rfl
         erd_fin hmid)
      | (have hmid := midB hN hv hk hch hfi (by assumption) rfl
         erd_fin hmid)
      | (have hmid := midC hN hv hk hch hfi (by assumption)
         erd_fin hmid)

/-! ## `expertInvalidate`, `expertMakeStale` -/

@[spec 100000] theorem expertInvalidate_v (v : View) (fuel n : Nat) : NP v (expertInvalidate fuel n) := by
  have hp := fun v' (h : NecV v → NecV v') => (propagateInvalidity_v v' fuel).comp h
  nv_mvcgen [expertInvalidate, -propagateInvalidity_v, hp]
  all_goals vsimp
  intro s hI hN
  exact (hI hN).1

@[spec 100000] theorem expertMakeStale_v (v : View) (n : Nat) : NP v (expertMakeStale n) := by
  nv_mvcgen [expertMakeStale]
  all_goals vsimp
  all_goals first
    | (intros; trivial)
    | (intro _ _ h hN; exact necV_ins hN (fun d => (h d).1) (fun d => (h d).2))

/-! ### part B1 -/

/-! ## node creation: what is needed of the entry view besides `NecV`

`Ext v v'` does not hold unconditionally for the functions that push a bind or an expert record: a
(dangling) valid node of kind `.bindLhsChange b` with `b = v.nb` has `ch = []` before and `[lhs]` after
`binds.push { lhs, body }` (bind-main and expert kinds are harmless: new records have `rhs = none` /
`children = []`, but `perKey` appends an edge to the new record).  `KindOK.blLt` / `KindOK.exLt` exclude
this (such a state is not a reachable engine state). -/

structure WF (v : View) : Prop where
  bl : ∀ n b, (v.rn n).kind = .bindLhsChange b → b < v.nb
  ex : ∀ n e, (v.rn n).kind = .expert e → e < v.ne

theorem NecV.wf {v : View} (h : NecV v) : WF v := ⟨h.k.blLt, h.k.exLt⟩

/-- what node creation guarantees -/
structure Step (v w : View) : Prop where
  ext : WF v → Ext v w
  wf : WF v → WF w
  nec : NecV v → NecV w

theorem Step.refl (v : View) : Step v v := ⟨fun _ => Ext.refl v, id, id⟩

theorem Step.trans {a b c : View} (h1 : Step a b) (h2 : Step b c) : Step a c :=
  ⟨fun h => (h1.ext h).trans (h2.ext (h1.wf h)), fun h => h2.wf (h1.wf h),
   fun hn => h2.nec (h1.nec hn)⟩

/-! ### a plain node -/

theorem step_push {v : View} (k : Kind) (cs : List Nat) (ho : OOB v) (hk : KindPlain k) :
    Step v (v.push k cs) := by
  refine ⟨fun _ => Ext.push v k cs, fun h => ?_, fun hn => push_step k cs hn ho (Or.inl hk)⟩
  have hkind : ∀ m, ((v.push k cs).rn m).kind = (v.rn m).kind ∨ ((v.push k cs).rn m).kind = k := by
    intro m
    by_cases hm : m = v.size
    · right; simp [View.push, hm]
    · left; simp [View.push, hm]
  refine ⟨?_, ?_⟩
  · intro n b h1
    rcases hkind n with h2 | h2
    · rw [h2] at h1; exact h.bl n b h1
    · rw [h2] at h1; subst h1; exact False.elim hk
  · intro n e h1
    rcases hkind n with h2 | h2
    · rw [h2] at h1; exact h.ex n e h1
    · rw [h2] at h1; subst h1; exact False.elim hk

/-! ### an expert record and its node -/

/-- the view after pushing an expert record without children -/
def View.addE (v : View) : View := { v with ne := v.ne + 1 }

theorem necV_addE {v : View} (h : NecV v) : NecV v.addE :=
  ⟨⟨h.dbg, h.e1, h.e3v, h.e4,
    { h.k with exLt := fun n e h1 => Nat.lt_succ_of_lt (h.k.exLt n e h1) }, h.chv⟩, h.nobad⟩

theorem OOB_addE {v : View} (ho : OOB v) : OOB v.addE := ho

theorem step_addE (v : View) : Step v v.addE :=
  ⟨fun _ => ⟨Nat.le_refl _, Nat.le_refl _, Nat.le_succ _, rfl, fun _ _ => rfl, fun _ _ => rfl, fun _ _ => rfl⟩,
   fun h => ⟨h.bl, fun n e h1 => Nat.lt_succ_of_lt (h.ex n e h1)⟩,
   fun h => necV_addE h⟩

theorem step_pushE {v : View} (cs : List Nat) (ho : OOB v) :
    Step v (v.addE.push (.expert v.ne) cs) := by
  refine ⟨fun h => ((step_addE v).ext h).trans (Ext.push _ _ _), fun h => ?_, fun hn => ?_⟩
  · have hkind : ∀ m, ((v.addE.push (.expert v.ne) cs).rn m).kind = (v.rn m).kind ∨
        ((v.addE.push (.expert v.ne) cs).rn m).kind = .expert v.ne := by
      intro m
      by_cases hm : m = v.size
      · right; simp [View.push, View.addE, hm]
      · left; simp [View.push, View.addE, hm]
    refine ⟨?_, ?_⟩
    · intro n b h1
      rcases hkind n with h2 | h2
      · rw [h2] at h1; exact h.bl n b h1
      · rw [h2] at h1; cases h1
    · intro n e h1
      rcases hkind n with h2 | h2
      · rw [h2] at h1; exact Nat.lt_succ_of_lt (h.ex n e h1)
      · rw [h2] at h1; injection h1 with h1; subst h1; exact Nat.lt_succ_self _
  · refine push_step _ cs (necV_addE hn) (OOB_addE ho) (Or.inr ⟨v.ne, rfl, Nat.lt_succ_self _, ?_⟩)
    intro m hk
    exact Nat.lt_irrefl _ (hn.k.exLt m _ hk)

/-- the view after appending an edge to `lc` to expert record `e` -/
def View.appCh (v : View) (e lc : Nat) : View :=
  { v with ch := fun m => if (v.rn m).valid = true ∧ (v.rn m).kind = .expert e ∧ e < v.ne
                          then v.ch m ++ [lc] else v.ch m }

theorem OOB_appCh {v : View} (e lc : Nat) (ho : OOB v) : OOB (v.appCh e lc) := by
  intro m hm
  obtain ⟨h1, h2⟩ := ho m hm
  refine ⟨h1, ?_⟩
  simp only [View.appCh]
  rw [if_neg, h2]
  rintro ⟨-, hk, -⟩
  rw [h1] at hk; cases hk

theorem appCh_necV {v : View} (e lc : Nat) (h : NecV v) : NecV (v.appCh e lc) := by
  refine ⟨⟨h.dbg, ?_, h.e3v, h.e4, h.k.congr (fun _ => rfl) rfl rfl rfl, ?_⟩, h.nobad⟩
  · intro c p i hm
    have := h.e1 c p i hm
    simp only [View.appCh]
    split
    · have hlt : i < (v.ch p).length := by
        rcases Nat.lt_or_ge i (v.ch p).length with h1 | h1
        · exact h1
        · rw [List.getElem?_eq_none h1] at this; cases this
      rw [List.getElem?_append_left hlt]; exact this
    · exact this
  · intro m hm
    simp only [View.appCh]
    rw [if_neg]
    · exact h.chv m hm
    · rintro ⟨hv, -⟩
      have hm' : (v.rn m).valid = false := hm
      rw [hm'] at hv; cases hv

/-- appending an edge to an expert record that did not exist in `v` -/
theorem Step.appCh {v w : View} (e lc : Nat) (h : Step v w) (he : v.ne ≤ e) : Step v (w.appCh e lc) := by
  refine ⟨fun hw => ?_, fun hw => ?_, fun hn => appCh_necV e lc (h.nec hn)⟩
  · have hx := h.ext hw
    refine ⟨hx.size, hx.nb, hx.ne, hx.debug, hx.rn, ?_, hx.bmain⟩
    intro m hm
    rw [← hx.ch m hm]
    simp only [View.appCh]
    rw [if_neg]
    rintro ⟨-, hk, -⟩
    rw [hx.rn m hm] at hk
    exact Nat.lt_irrefl _ (Nat.lt_of_lt_of_le (hw.ex m e hk) he)
  · have := h.wf hw
    exact ⟨this.bl, this.ex⟩

/-! ### a bind record and its two nodes -/

/-- the view after `createBind body lhs` (`cs1`, `cs2`: the children of the two new nodes) -/
def View.bindV (v : View) (lhs : Nat) (cs1 cs2 : List Nat) : View :=
  { size := v.size + 2, nb := v.nb + 1, ne := v.ne, debug := v.debug
    rn := fun m => if m = v.size + 1 then ⟨[], false, true, false, .bindMain v.nb v.size⟩
                   else if m = v.size then ⟨[], false, true, false, .bindLhsChange v.nb⟩ else v.rn m
    ch := fun m => if m = v.size + 1 then cs2 else if m = v.size then cs1
                   else if (v.rn m).valid = true ∧ (v.rn m).kind = .bindLhsChange v.nb then [lhs] else v.ch m
    bmain := fun b => if b = v.nb then some (v.size + 1) else v.bmain b }

/-- `createBind` keeps the invariant.  `KindOK.bmHas` is what makes this inductive: with the earlier clause
(`bmain b = some m → kind m = .bindMain b' lc → b' = b`) the state `nodes = #[]`,
`binds = #[{ lhs := 0, body := 0, main := 1 }]` satisfied the invariant and `createBind 0 0` broke it (the
dangling `main = 1` of record 0 then names the main node of the new record 1). -/
theorem nec_bindV {v : View} (lhs : Nat) (cs1 cs2 : List Nat) (h : NecV v) (ho : OOB v) :
    NecV (v.bindV lhs cs1 cs2) := by
  have hS := ho v.size (Nat.le_refl _)
  have hS1 := ho (v.size + 1) (Nat.le_succ _)
  have hne : v.size + 1 ≠ v.size := Nat.succ_ne_self _
  have hnobl : ∀ m, ¬ ((v.rn m).valid = true ∧ (v.rn m).kind = .bindLhsChange v.nb) :=
    fun m hm => Nat.lt_irrefl _ (h.k.blLt m _ hm.2)
  have hother : ∀ m, m ≠ v.size → m ≠ v.size + 1 → (v.bindV lhs cs1 cs2).rn m = v.rn m := by
    intro m h1 h2; simp [View.bindV, h1, h2]
  have hself : (v.bindV lhs cs1 cs2).rn v.size = ⟨[], false, true, false, .bindLhsChange v.nb⟩ := by
    simp [View.bindV]
  have hself1 : (v.bindV lhs cs1 cs2).rn (v.size + 1) = ⟨[], false, true, false, .bindMain v.nb v.size⟩ := by
    simp [View.bindV]
  have hcho : ∀ m, m ≠ v.size → m ≠ v.size + 1 → (v.bindV lhs cs1 cs2).ch m = v.ch m := by
    intro m h1 h2
    simp only [View.bindV, h1, h2, if_false]
    exact if_neg (hnobl m)
  have hflds : ∀ m, ((v.bindV lhs cs1 cs2).rn m).parents = (v.rn m).parents ∧
      ((v.bindV lhs cs1 cs2).rn m).nec = (v.rn m).nec ∧
      ((v.bindV lhs cs1 cs2).rn m).inRch = (v.rn m).inRch ∧
      ((v.bindV lhs cs1 cs2).rn m).valid = (v.rn m).valid := by
    intro m
    by_cases h1 : m = v.size
    · subst h1; rw [hself, hS.1]; exact ⟨rfl, rfl, rfl, rfl⟩
    · by_cases h2 : m = v.size + 1
      · subst h2; rw [hself1, hS1.1]; exact ⟨rfl, rfl, rfl, rfl⟩
      · rw [hother m h1 h2]; exact ⟨rfl, rfl, rfl, rfl⟩
  have hnorec : ∀ c p i, (p, i) ∈ (v.rn c).parents → p ≠ v.size ∧ p ≠ v.size + 1 := by
    intro c p i hm
    have := h.e1 c p i hm
    constructor
    · rintro rfl; rw [hS.2] at this; cases this
    · rintro rfl; rw [hS1.2] at this; cases this
  have hkind : ∀ m, (m = v.size ∧ ((v.bindV lhs cs1 cs2).rn m).kind = .bindLhsChange v.nb) ∨
      (m = v.size + 1 ∧ ((v.bindV lhs cs1 cs2).rn m).kind = .bindMain v.nb v.size) ∨
      (m ≠ v.size ∧ m ≠ v.size + 1 ∧ ((v.bindV lhs cs1 cs2).rn m).kind = (v.rn m).kind) := by
    intro m
    by_cases h1 : m = v.size
    · left; subst h1; rw [hself]; exact ⟨rfl, rfl⟩
    · by_cases h2 : m = v.size + 1
      · right; left; subst h2; rw [hself1]; exact ⟨rfl, rfl⟩
      · right; right; rw [hother m h1 h2]; exact ⟨h1, h2, rfl⟩
  have hbm : ∀ b, b ≠ v.nb → (v.bindV lhs cs1 cs2).bmain b = v.bmain b := by
    intro b hb; simp [View.bindV, hb]
  have hbmn : (v.bindV lhs cs1 cs2).bmain v.nb = some (v.size + 1) := by simp [View.bindV]
  have hold : ∀ m, (m = v.size ∨ m = v.size + 1) → (v.rn m).kind = .const default := by
    rintro m (rfl | rfl)
    · rw [hS.1]
    · rw [hS1.1]
  apply NecV.of
  · refine ⟨h.dbg, ?_, ?_, ?_, ?_, ?_⟩
    · intro c p i hm
      rw [(hflds c).1] at hm
      obtain ⟨h1, h2⟩ := hnorec c p i hm
      rw [hcho p h1 h2]; exact h.e1 c p i hm
    · intro m hm
      rw [(hflds m).2.2.1] at hm; rw [(hflds m).2.2.2]; exact h.e3v m hm
    · intro c; rw [(hflds c).1]; exact h.e4 c
    · have k := h.k
      refine ⟨?_, ?_, ?_, ?_, ?_, ?_, ?_⟩
      · intro n n' b lc lc' h1 h2
        rcases hkind n with ⟨-, g1⟩ | ⟨e1, g1⟩ | ⟨-, -, g1⟩ <;>
          rcases hkind n' with ⟨-, g2⟩ | ⟨e2, g2⟩ | ⟨-, -, g2⟩ <;> rw [g1] at h1 <;> rw [g2] at h2
        all_goals try (cases h1; done)
        all_goals try (cases h2; done)
        · rw [e1, e2]
        · injection h1 with h1 _; subst h1
          exact absurd (k.bmLt n' _ _ h2) (Nat.lt_irrefl _)
        · injection h2 with h2 _; subst h2
          exact absurd (k.bmLt n _ _ h1) (Nat.lt_irrefl _)
        · exact k.bmInj n n' b lc lc' h1 h2
      · intro n b lc h1
        rcases hkind n with ⟨-, g1⟩ | ⟨-, g1⟩ | ⟨-, -, g1⟩ <;> rw [g1] at h1
        · cases h1
        · injection h1 with h1 _; subst h1; exact Nat.lt_succ_self _
        · exact Nat.lt_succ_of_lt (k.bmLt n b lc h1)
      · intro n n' e h1 h2
        rcases hkind n with ⟨-, g1⟩ | ⟨-, g1⟩ | ⟨-, -, g1⟩ <;>
          rcases hkind n' with ⟨-, g2⟩ | ⟨-, g2⟩ | ⟨-, -, g2⟩ <;> rw [g1] at h1 <;> rw [g2] at h2
        all_goals try (cases h1; done)
        all_goals try (cases h2; done)
        exact k.exInj n n' e h1 h2
      · intro n e h1
        rcases hkind n with ⟨-, g1⟩ | ⟨-, g1⟩ | ⟨-, -, g1⟩ <;> rw [g1] at h1
        · cases h1
        · cases h1
        · exact k.exLt n e h1
      · intro b m h1
        by_cases hb : b = v.nb
        · subst hb
          rw [hbmn] at h1; injection h1 with h1; subst h1
          exact ⟨v.size, by rw [hself1]⟩
        · rw [hbm b hb] at h1
          obtain ⟨lc, hk⟩ := k.bmHas b m h1
          refine ⟨lc, ?_⟩
          rcases hkind m with ⟨e1, -⟩ | ⟨e1, -⟩ | ⟨-, -, g1⟩
          · rw [hold m (Or.inl e1)] at hk; cases hk
          · rw [hold m (Or.inr e1)] at hk; cases hk
          · rw [g1]; exact hk
      · intro m b lc h1
        rcases hkind m with ⟨-, g1⟩ | ⟨e1, g1⟩ | ⟨-, -, g1⟩ <;> rw [g1] at h1
        · cases h1
        · injection h1 with h1 _; subst h1; rw [hbmn, e1]
        · have hb : b ≠ v.nb := fun e => by
            subst e; exact Nat.lt_irrefl _ (k.bmLt m _ lc h1)
          rw [hbm b hb]; exact k.bmOf m b lc h1
      · intro n b h1
        rcases hkind n with ⟨-, g1⟩ | ⟨-, g1⟩ | ⟨-, -, g1⟩ <;> rw [g1] at h1
        · injection h1 with h1; subst h1; exact Nat.lt_succ_self _
        · cases h1
        · exact Nat.lt_succ_of_lt (k.blLt n b h1)
    · intro m hm
      rw [(hflds m).2.2.2] at hm
      have h1 : m ≠ v.size := by rintro rfl; rw [hS.1] at hm; cases hm
      have h2 : m ≠ v.size + 1 := by rintro rfl; rw [hS1.1] at hm; cases hm
      rw [hcho m h1 h2]; exact h.chv m hm
  · intro c p i hm
    rw [(hflds c).1] at hm; rw [(hflds p).2.1]; exact h.e2 c p i hm
  · intro m hm
    rw [(hflds m).2.2.1] at hm; rw [(hflds m).2.1]; exact (h.e3 m hm).1

theorem step_bindV {v : View} (lhs : Nat) (cs1 cs2 : List Nat) (ho : OOB v) :
    Step v (v.bindV lhs cs1 cs2) := by
  refine ⟨fun hw => ?_, fun hw => ?_, fun hn => nec_bindV lhs cs1 cs2 hn ho⟩
  · refine ⟨Nat.le_add_right _ _, Nat.le_succ _, Nat.le_refl _, rfl, ?_, ?_, ?_⟩
    · intro m hm
      have h1 : m ≠ v.size := Nat.ne_of_lt hm
      have h2 : m ≠ v.size + 1 := Nat.ne_of_lt (Nat.lt_succ_of_lt hm)
      simp [View.bindV, h1, h2]
    · intro m hm
      have h1 : m ≠ v.size := Nat.ne_of_lt hm
      have h2 : m ≠ v.size + 1 := Nat.ne_of_lt (Nat.lt_succ_of_lt hm)
      simp only [View.bindV, h1, h2, if_false]
      exact if_neg (fun hh => Nat.lt_irrefl _ (hw.bl m _ hh.2))
    · intro b hb
      have : b ≠ v.nb := Nat.ne_of_lt hb
      simp [View.bindV, this]
  · have hkind : ∀ m, ((v.bindV lhs cs1 cs2).rn m).kind = .bindLhsChange v.nb ∨
        ((v.bindV lhs cs1 cs2).rn m).kind = .bindMain v.nb v.size ∨
        ((v.bindV lhs cs1 cs2).rn m).kind = (v.rn m).kind := by
      intro m
      by_cases h2 : m = v.size + 1
      · right; left; simp [View.bindV, h2]
      · by_cases h1 : m = v.size
        · left; simp [View.bindV, h1]
        · right; right; simp [View.bindV, h1, h2]
    refine ⟨?_, ?_⟩
    · intro n b h1
      rcases hkind n with g | g | g <;> rw [g] at h1
      · injection h1 with h1; subst h1; exact Nat.lt_succ_self _
      · cases h1
      · exact Nat.lt_succ_of_lt (hw.bl n b h1)
    · intro n e h1
      rcases hkind n with g | g | g <;> rw [g] at h1
      · cases h1
      · cases h1
      · exact hw.ex n e h1

/-! ## state level: record tables -/

theorem mkView_pushE (nodes : Array Node) (binds : Array BindRec) (experts : Array ExpertRec) (d : Bool)
    (x : ExpertRec) (hx : x.children = []) :
    mkView nodes binds (experts.push x) d = (mkView nodes binds experts d).addE := by
  simp only [mkView, View.addE, Array.size_push, View.mk.injEq, true_and, and_true]
  funext m
  cases hk : (nodeAt nodes m).kind? with
  | none => rfl
  | some kd =>
    cases kd <;> try rfl
    rename_i e
    simp only [chK, Array.getElem?_push]
    by_cases he : e = experts.size
    · subst he
      simp [hx]
    · simp [he]

theorem mkView_appCh (nodes : Array Node) (binds : Array BindRec) (experts : Array ExpertRec) (d : Bool)
    (e : Nat) (ed : ExpertEdge) (fs : Bool) :
    mkView nodes binds (experts.modify e fun r => { r with children := r.children ++ [ed], forceStale := fs }) d
      = (mkView nodes binds experts d).appCh e ed.child := by
  simp only [mkView, View.appCh, Array.size_modify, View.mk.injEq, true_and, and_true]
  funext m
  suffices h : ∀ nd : Node, chK nd.kind? binds
      (experts.modify e fun r => { r with children := r.children ++ [ed], forceStale := fs }) =
      if (rel nd).valid = true ∧ (rel nd).kind = .expert e ∧ e < experts.size
      then chK nd.kind? binds experts ++ [ed.child] else chK nd.kind? binds experts from h _
  intro nd
  simp only [rel, Node.kind?]
  by_cases hv : nd.valid = true
  · simp only [hv, if_true, true_and]
    cases hk : nd.kind <;> simp [chK]
    rename_i e'
    simp only [Array.getElem?_modify]
    by_cases he : e' = e
    · subst he
      cases hx : experts[e']? with
      | none =>
        have : ¬ e' < experts.size := by
          intro hlt
          rw [Array.getElem?_eq_getElem hlt] at hx; cases hx
        simp [this]
      | some er =>
        have : e' < experts.size := (Array.getElem?_eq_some_iff.1 hx).1
        simp [this]
    · have he' : ¬ e = e' := fun h => he h.symm
      simp [he, he']
  · simp [hv, chK]

/-- the view after pushing a bind record without right-hand side -/
def View.addB (v : View) (lhs main : Nat) : View :=
  { v with nb := v.nb + 1
           ch := fun m => if (v.rn m).valid = true ∧ (v.rn m).kind = .bindLhsChange v.nb then [lhs] else v.ch m
           bmain := fun b => if b = v.nb then some main else v.bmain b }

theorem mkView_pushB (nodes : Array Node) (binds : Array BindRec) (experts : Array ExpertRec) (d : Bool)
    (r : BindRec) (hr : r.rhs = none) :
    mkView nodes (binds.push r) experts d = (mkView nodes binds experts d).addB r.lhs r.main := by
  simp only [mkView, View.addB, Array.size_push, View.mk.injEq, true_and, and_true]
  constructor
  · funext m
    suffices h : ∀ nd : Node, chK nd.kind? (binds.push r) experts =
        if (rel nd).valid = true ∧ (rel nd).kind = .bindLhsChange binds.size then [r.lhs]
        else chK nd.kind? binds experts from h _
    intro nd
    simp only [rel, Node.kind?]
    by_cases hv : nd.valid = true
    · simp only [hv, if_true, true_and]
      cases hk : nd.kind <;> simp [chK]
      · rename_i b
        simp only [Array.getElem?_push]
        by_cases hb : b = binds.size
        · simp [hb]
        · simp [hb]
      · rename_i b lc
        simp only [Array.getElem?_push]
        by_cases hb : b = binds.size
        · simp [hb, hr]
        · simp [hb]
    · simp [hv, chK]
  · funext b
    simp only [Array.getElem?_push]
    by_cases hb : b = binds.size
    · simp [hb]
    · simp [hb]

/-- the view after writing the `main` field of bind record `b` -/
def View.setBmain (v : View) (b main : Nat) : View :=
  { v with bmain := fun x => if x = b ∧ b < v.nb then some main else v.bmain x }

theorem mkView_setBmain (nodes : Array Node) (binds : Array BindRec) (experts : Array ExpertRec) (d : Bool)
    (b lc main : Nat) :
    mkView nodes (binds.modify b fun x => { x with lhsChange := lc, main := main }) experts d
      = (mkView nodes binds experts d).setBmain b main := by
  simp only [mkView, View.setBmain, Array.size_modify, View.mk.injEq, true_and, and_true]
  constructor
  · funext m
    apply chK_binds_congr
    intro b'
    simp only [Array.getElem?_modify]
    split
    · cases binds[b']? <;> simp
    · rfl
  · funext b'
    simp only [Array.getElem?_modify]
    by_cases hb : b = b'
    · subst hb
      cases hx : binds[b]? with
      | none =>
        have : ¬ b < binds.size := by
          intro hlt
          rw [Array.getElem?_eq_getElem hlt] at hx; cases hx
        simp [this]
      | some er =>
        have : b < binds.size := (Array.getElem?_eq_some_iff.1 hx).1
        simp [this]
    · have hb' : ¬ b' = b := fun h => hb h.symm
      simp [hb, hb']

theorem bindV_eq (v : View) (lhs : Nat) (cs1 cs2 : List Nat) :
    (((v.addB lhs 0).push (.bindLhsChange v.nb) cs1).push (.bindMain v.nb v.size) cs2).setBmain v.nb (v.size + 1)
      = v.bindV lhs cs1 cs2 := by
  simp only [View.setBmain, View.push, View.addB, View.bindV, View.mk.injEq, true_and, and_true]
  refine ⟨?_, ?_, ?_⟩
  · funext m
    by_cases h2 : m = v.size + 1
    · simp [h2]
    · by_cases h1 : m = v.size
      · simp [h1]
      · simp [h1, h2]
  · funext m
    by_cases h2 : m = v.size + 1
    · simp [h2]
    · by_cases h1 : m = v.size
      · simp [h1]
      · simp [h1, h2]
  · funext b
    by_cases hb : b = v.nb
    · simp [hb]
    · simp [hb]

/-! ## `createBind` -/

theorem state_nb (s : State) : s.binds.size = (viewOf s).nb := rfl
theorem state_ne (s : State) : s.experts.size = (viewOf s).ne := rfl

/-- `createBind` is treated atomically: between its steps the `main` entry of the new record is `0` -/
theorem createBind_raw (v : View) (body lhs : Nat) :
    ⦃fun s => ⌜viewOf s = v⌝⦄ createBind body lhs
    ⦃post⟨fun r s => ⌜r = v.size + 1 ∧ ∃ cs1 cs2, viewOf s = v.bindV lhs cs1 cs2⌝, fun _ _ => ⌜True⌝⟩⦄ := by
  nv_mvcgen [createBind, -modBind_v, modBind]
  all_goals (try simp +zetaDelta only [viewOf] at *)
  all_goals (try simp only [mkView_pushB, mkView_setBmain] at *)
  all_goals (try simp only [← viewOf_def] at *)
  split_ands
  simp only [state_nb] at *
  simp_all only []
  exact ⟨rfl, _, _, bindV_eq v lhs _ _⟩

/-! ## chaining -/

theorem Step.push {v w : View} (k : Kind) (cs : List Nat) (h : Step v w) (ho : OOB w) (hk : KindPlain k) :
    Step v (w.push k cs) := h.trans (step_push k cs ho hk)

theorem Step.pushE {v w : View} (cs : List Nat) (h : Step v w) (ho : OOB w) :
    Step v (w.addE.push (.expert w.ne) cs) := h.trans (step_pushE cs ho)

theorem Step.bindV {v w : View} (lhs : Nat) (cs1 cs2 : List Nat) (h : Step v w) (ho : OOB w) :
    Step v (w.bindV lhs cs1 cs2) := h.trans (step_bindV lhs cs1 cs2 ho)

theorem mkView_setNode (nodes : Array Node) (binds : Array BindRec) (experts : Array ExpertRec) (d : Bool)
    (e n : Nat) :
    mkView nodes binds (experts.modify e fun x => { x with node := n }) d = mkView nodes binds experts d :=
  mkView_modExpert_frame _ _ _ _ _ _ (fun _ => rfl)

/-- every fact through the entry view, record tables included -/
macro "vsimp'" : tactic =>
  `(tactic| ((try simp +zetaDelta only [viewOf] at *)
             (try simp only [mkView_pushE, mkView_appCh, mkView_setNode] at *)
             (try simp only [← viewOf_def] at *)
             (try simp only [state_nb, state_ne] at *)
             vsimp))

/-- closes `Step v (v.push … .push …)` and its side conditions -/
macro "step_auto" : tactic =>
  `(tactic| (repeat' (first
               | exact Step.refl _
               | assumption
               | exact OOB_of_eq (by assumption)
               | apply Step.pushE
               | apply Step.push
               | apply Step.bindV
               | apply Step.appCh
               | apply OOB_push
               | apply OOB_addE
               | apply OOB_appCh
               | exact Nat.le_refl _
               | trivial)))

/-! ## `elabInstr` -/

theorem elabInstr_s (v : View) (loc : List Nat) (lv : Val) (i : Instr) :
    ⦃fun s => ⌜viewOf s = v⌝⦄ elabInstr loc lv i
    ⦃post⟨fun _ s => ⌜Step v (viewOf s)⌝, fun _ _ => ⌜True⌝⟩⦄ := by
  have hb := createBind_raw
  nv_mvcgen [elabInstr, hb, -modExpert_v, modExpert]
  all_goals vsimp'
  all_goals try (intro x; rfl)
  all_goals (intros; vsimp; step_auto)

/-! ## templates -/

/-- loop invariant of the template loops -/
def TInv {α β} (_l : List α) (v0 : View) (_done : List α) (_b : β) (v : View) : Prop := Step v0 v

theorem tinv_fin {v w : View} (h : ∀ v0 : View, Step v0 v → Step v0 w) : Step v w := h v (Step.refl v)

theorem elabTemplateBase_s (v : View) (t : Template) (lv : Val) (init : List Nat) :
    ⦃fun s => ⌜viewOf s = v⌝⦄ elabTemplateBase t lv init
    ⦃post⟨fun _ s => ⌜Step v (viewOf s)⌝, fun _ _ => ⌜True⌝⟩⦄ := by
  have hl := fun (l : List Instr) (init : List Nat) f => forIn_view l init f TInv
  have hi := elabInstr_s
  nv_mvcgen [elabTemplateBase, -Spec.forIn_list, hl, hi]
  all_goals clear hl hi
  all_goals vsimp
  all_goals first
    | (refine ⟨⟨_, rfl⟩, ?_⟩
       intro v0 b' _ hinv
       exact Step.trans hinv ‹Step _ _›)
    | (intro _; exact tinv_fin (by assumption))
theorem memoCall_s (v : View) (env : Env) (m : Nat) (key : Int) :
    ⦃fun s => ⌜viewOf s = v⌝⦄ memoCall env m key
    ⦃post⟨fun _ s => ⌜Step v (viewOf s)⌝, fun _ _ => ⌜True⌝⟩⦄ := by
  have ht := elabTemplateBase_s
  nv_mvcgen [memoCall, ht]
  all_goals clear ht
  all_goals vsimp
  all_goals exact Step.refl _

theorem elabInstrM_s (v : View) (env : Env) (loc : List Nat) (lv : Val) (i : Instr) :
    ⦃fun s => ⌜viewOf s = v⌝⦄ elabInstrM env loc lv i
    ⦃post⟨fun _ s => ⌜Step v (viewOf s)⌝, fun _ _ => ⌜True⌝⟩⦄ := by
  have hm := memoCall_s
  have hi := elabInstr_s
  nv_mvcgen [elabInstrM, hm, hi]

theorem elabTemplate_s (v : View) (env : Env) (t : Template) (lv : Val) :
    ⦃fun s => ⌜viewOf s = v⌝⦄ elabTemplate env t lv
    ⦃post⟨fun _ s => ⌜Step v (viewOf s)⌝, fun _ _ => ⌜True⌝⟩⦄ := by
  have hl := fun (l : List Instr) (init : List Nat) f => forIn_view l init f TInv
  have hi := elabInstrM_s
  nv_mvcgen [elabTemplate, -Spec.forIn_list, hl, hi]
  all_goals clear hl hi
  all_goals vsimp
  all_goals first
    | (refine ⟨⟨_, rfl⟩, ?_⟩
       intro v0 b' _ hinv
       exact Step.trans hinv ‹Step _ _›)
    | (intro _; exact tinv_fin (by assumption))

/-! ## the registered specifications -/

theorem Step.toCP {v w : View} (h : Step v w) : NecV v → Ext v w ∧ NecV w :=
  fun hn => ⟨h.ext hn.wf, h.nec hn⟩

theorem Step.toCPost {v w : View} (h : Step v w) (hw : WF v) : CPost v w := ⟨h.ext hw, h.nec⟩

/-- `x` called from a state satisfying the invariant only extends the view and keeps the invariant -/
abbrev CP {α} (v : View) (x : M α) : Prop :=
  ⦃fun s => ⌜viewOf s = v⌝⦄ x
  ⦃post⟨fun _ s => ⌜NecV v → Ext v (viewOf s) ∧ NecV (viewOf s)⌝, fun _ _ => ⌜True⌝⟩⦄

theorem CP.of_step {α} {v : View} {x : M α}
    (h : ⦃fun s => ⌜viewOf s = v⌝⦄ x ⦃post⟨fun _ s => ⌜Step v (viewOf s)⌝, fun _ _ => ⌜True⌝⟩⦄) : CP v x := by
  nv_mvcgen [h]
  exact fun hs => hs.toCP

theorem createBind_s (v : View) (body lhs : Nat) :
    ⦃fun s => ⌜viewOf s = v⌝⦄ createBind body lhs
    ⦃post⟨fun _ s => ⌜Step v (viewOf s)⌝, fun _ _ => ⌜True⌝⟩⦄ := by
  have hb := createBind_raw
  nv_mvcgen [hb]
  intros
  vsimp
  exact step_bindV _ _ _ (OOB_of_eq (by assumption))

@[spec 100000] theorem createBind_v (v : View) (body lhs : Nat) : CP v (createBind body lhs) :=
  CP.of_step (createBind_s v body lhs)
@[spec 100000] theorem elabInstr_v (v : View) (loc : List Nat) (lv : Val) (i : Instr) :
    CP v (elabInstr loc lv i) := CP.of_step (elabInstr_s v loc lv i)
@[spec 100000] theorem elabTemplateBase_v (v : View) (t : Template) (lv : Val) (init : List Nat) :
    CP v (elabTemplateBase t lv init) := CP.of_step (elabTemplateBase_s v t lv init)
@[spec 100000] theorem memoCall_v (v : View) (env : Env) (m : Nat) (key : Int) : CP v (memoCall env m key) :=
  CP.of_step (memoCall_s v env m key)
@[spec 100000] theorem elabInstrM_v (v : View) (env : Env) (loc : List Nat) (lv : Val) (i : Instr) :
    CP v (elabInstrM env loc lv i) := CP.of_step (elabInstrM_s v env loc lv i)
@[spec 100000] theorem elabTemplate_v (v : View) (env : Env) (t : Template) (lv : Val) :
    CP v (elabTemplate env t lv) := CP.of_step (elabTemplate_s v env t lv)

/-! ### part N13 -/

/-! ## `expertAddDependency` -/

@[spec 200000] theorem modExpert_app_v (v : View) (e : Nat) (edge : ExpertEdge) :
    ⦃fun s => ⌜viewOf s = v⌝⦄
    modExpert e (fun x => { x with children := x.children ++ [edge], forceStale := true })
    ⦃post⟨fun _ s => ⌜viewOf s = v.mapChE e (· ++ [edge.child])⌝, fun _ _ => ⌜True⌝⟩⦄ := by
  nv_mvcgen [-modExpert_v, modExpert]
  vnorm
  rw [← ‹mkView _ _ _ _ = v›]
  exact mkView_modExpert_ch _ _ _ _ e _ _ (by intro x; simp)

/-- appending a child to an expert record keeps the invariant -/
theorem necV_appCh {v : View} (e c : Nat) (h : NecV v) : NecV (v.mapChE e (· ++ [c])) := by
  apply necV_mapChE e _ h
  intro m c' i _ _ hm
  have := h.e1 c' m i hm
  rw [List.getElem?_append_left (lt_of_getElem?_some this)]
  exact this

theorem ead_pre {v : View} {n e c : Nat} {cs : List ExpertEdge} (h : NecV v)
    (hv : (v.rn n).valid = true) (hk : (v.rn n).kind = .expert e) (he : e < v.ne)
    (hch : v.ch n = cs.map (·.child)) :
    NecV (v.mapChE e (· ++ [c])) ∧ ((v.mapChE e (· ++ [c])).ch n)[cs.length]? = some c ∧
      (n, cs.length) ∉ ((v.mapChE e (· ++ [c])).rn c).parents := by
  refine ⟨necV_appCh e c h, ?_, ?_⟩
  · simp [View.mapChE, hv, hk, he, hch]
  · intro hm
    have hm' : (n, cs.length) ∈ (v.rn c).parents := hm
    have := h.e1 c n cs.length hm'
    rw [hch] at this
    simp at this


@[spec 100000] theorem expertAddDependency_v (v : View) (env : Env) (fuel n child : Nat) (cb : Bool) :
    NP v (expertAddDependency env fuel n child cb) := by
  have hge := getExpert_x
  nv_mvcgen [expertAddDependency, -getExpert_v, hge]
  all_goals vsimp
  all_goals first
    | (intros; trivial)
    | exact fun h => necV_appCh _ _ h
    | (intro hN
       obtain ⟨hv, hk, -⟩ := ‹∀ e, some _ = some e → _› _ rfl
       have hch := ‹∀ m, (v.rn m).valid = true → (v.rn m).kind = Kind.expert _ → v.ch m = _› n hv hk
       obtain ⟨h1, h2, h3⟩ := ead_pre (c := child) hN hv hk ‹_ < v.ne› hch
       have hN2 := ‹NecV (v.mapChE _ _) → _ → _ → NecV _› h1 h2 h3
       first
         | exact hN2
         | exact necV_ins hN2 (fun d => (‹_ = true → _ ∧ _› d).1) (fun d => (‹_ = true → _ ∧ _› d).2))

/-! ### part N14 -/

/-! ## var writes, observers, effects of user code (basic) -/

/-- closes the goals left after `vsimp` by chaining the facts in the context -/
macro "nv_fin" : tactic =>
  `(tactic| all_goals first
      | done
      | (intros; trivial)
      | (intro x; rfl)
      | (intros; (try simp only [APost, BNPost, IPost] at *); grind [necV_ins]))

@[spec 100000] theorem didSetVarWhileNotStabilising_v (v : View) (x : Nat) :
    NP v (didSetVarWhileNotStabilising x) := by
  nv_mvcgen [didSetVarWhileNotStabilising]
  all_goals vsimp
  nv_fin

@[spec 100000] theorem writeVar_v (v : View) (x : Nat) (f : Val → Val) (isSet : Bool) :
    NP v (writeVar x f isSet) := by
  nv_mvcgen [writeVar]
  all_goals vsimp
  nv_fin

@[spec 100000] theorem disallowFutureUse_v (v : View) (o : Nat) : VF v (disallowFutureUse o) := by
  nv_mvcgen [disallowFutureUse]
  vf_fin

@[spec 100000] theorem subscribe_v (v : View) (o hid : Nat) : VF v (subscribe o hid) := by
  nv_mvcgen [subscribe]
  vf_fin

@[spec 100000] theorem unsubscribe_v (v : View) (o token owner : Nat) : VF v (unsubscribe o token owner) := by
  nv_mvcgen [unsubscribe]
  vf_fin

@[spec 100000] theorem mapConst_np {α β : Type} (v : View) (b : β) (x : M α) (hx : NP v x) :
    NP v (Functor.mapConst b x) := by
  rw [LawfulFunctor.map_const]
  simp only [Function.comp_apply]
  nv_mvcgen [hx]

/-- dropping a `Var` handle touches `vars` and `deadVars` only: the view is unchanged -/
@[spec 100000] theorem dropVarHandle_v (v : View) (x : Nat) : VF v (dropVarHandle x) := by
  nv_mvcgen [dropVarHandle]
  vf_fin

/-- `withVarHandle x act` is `act` or a no-op -/
theorem withVarHandle_np (v : View) (x : Nat) (act : M Unit) (h : NP v act) :
    NP v (withVarHandle x act) := by
  nv_mvcgen [withVarHandle, h]
  all_goals vsimp
  nv_fin

theorem discard_np {α : Type} (v : View) (x : M α) (h : NP v x) : NP v (discard x) := by
  nv_mvcgen [Functor.discard, h]

@[spec 100000] theorem runEffectBasic_v (v : View) (env : Env) (e : Effect) : NP v (runEffectBasic env e) := by
  cases e with
  | setVar x a =>
    simp only [runEffectBasic]
    exact withVarHandle_np v x _ (discard_np v _ (writeVar_v _ _ _ _))
  | modifyVar x a =>
    simp only [runEffectBasic]
    exact withVarHandle_np v x _ (discard_np v _ (writeVar_v _ _ _ _))
  | updateVar x a =>
    simp only [runEffectBasic]
    exact withVarHandle_np v x _ (discard_np v _ (writeVar_v _ _ _ _))
  | replaceVar x a =>
    simp only [runEffectBasic]
    apply withVarHandle_np
    nv_mvcgen [Functor.discard]
    all_goals vsimp
    nv_fin
  | replaceWithVar x a =>
    simp only [runEffectBasic]
    apply withVarHandle_np
    nv_mvcgen [Functor.discard]
    all_goals vsimp
    nv_fin
  | dropVar x =>
    nv_mvcgen [runEffectBasic, Functor.discard]
    all_goals vsimp
    nv_fin
  | _ =>
    nv_mvcgen [runEffectBasic, Functor.discard]
    all_goals vsimp
    nv_fin


/-! ## recompute: helpers -/

@[spec 100000] theorem valueUnwrap_v (v : View) (env : Env) (n : Nat) (site : String) :
    VF v (valueUnwrap env n site) := by
  nv_mvcgen [valueUnwrap]
  vf_fin

@[spec 100000] theorem expertIdxRaw_v (v : View) (n : Nat) : VF v (expertIdxRaw n) := by
  nv_mvcgen [expertIdxRaw]
  vf_fin

@[spec 100000] theorem expertValue_v (v : View) (env : Env) (e : Nat) (d sl : List (Option Val)) :
    VF v (expertValue env e d sl) := by
  nv_mvcgen [expertValue]
  vf_fin

@[spec 100000] theorem withOldEvents_v (v : View) (env : Env) (g n : Nat) (σ : Val) (old : Option Val)
    (x new : Val) (did : Bool) : VF v (withOldEvents env g n σ old x new did) := by
  nv_mvcgen [withOldEvents, -Spec.forIn_list, forIn_vf]
  vf_fin

@[spec 100000] theorem childChanged_v (v : View) (env : Env) (fuel p c ci : Nat) (o : Option Val) :
    VF v (childChanged env fuel p c ci o) := by
  induction fuel generalizing v p c ci o with
  | zero => nv_mvcgen [childChanged]
  | succ fuel ih =>
    nv_mvcgen [childChanged, ih, -Spec.forIn_list, forIn_vf]
    vf_fin

/-- what the recompute steps do to the view: the invariant is kept, parent lists and necessity only grow -/
def MPost (v v' : View) : Prop := NecV v → NecV v' ∧ LRel v v'

theorem MPost.refl (v : View) : MPost v v := fun h => ⟨h, LRel.refl v⟩

theorem MPost.ins {v : View} {n : Nat} (h1 : v.debug = true → (v.rn n).nec = true)
    (h2 : v.debug = true → (v.rn n).valid = true) : MPost v (v.setInRch n true) := by
  intro h
  obtain ⟨g1, g2, -⟩ := setRch_step n h (h1 h.dbg) (h2 h.dbg)
  exact ⟨g1, g2⟩

theorem MPost.trans {a b c : View} (h1 : MPost a b) (h2 : MPost b c) : MPost a c := by
  intro h
  obtain ⟨g1, r1⟩ := h1 h
  obtain ⟨g2, r2⟩ := h2 g1
  exact ⟨g2, r1.trans r2⟩

@[spec 100000] theorem parentIterCanRecomputeNow_v (v : View) (p child : Nat) :
    ⦃fun s => ⌜viewOf s = v⌝⦄ parentIterCanRecomputeNow p child
    ⦃post⟨fun r s => ⌜MPost v (viewOf s) ∧ (r = true → viewOf s = v ∧ (v.rn p).valid = true)⌝,
      fun _ _ => ⌜True⌝⟩⦄ := by
  nv_mvcgen [parentIterCanRecomputeNow]
  all_goals vsimp
  all_goals first
    | exact ⟨MPost.refl v, by simp⟩
    | exact ⟨MPost.refl v, (kindq_eq (by assumption)).1⟩
    | exact ⟨MPost.ins (by grind) (by grind), by simp⟩


/-- result of `maybeChangeValue…`: the invariant is kept and the node handed back for direct recomputation
is necessary and valid -/
def MVPost (r : Option Nat) (v v' : View) : Prop :=
  NecV v → NecV v' ∧ LRel v v' ∧ ∀ p, r = some p → (v'.rn p).nec = true ∧ (v'.rn p).valid = true

def MLInv (_l : List (Nat × Nat)) (v0 : View) (_done : List (Nat × Nat)) (_b : PUnit.{1}) (v : View) : Prop :=
  MPost v0 v

theorem mv_none {v v' : View} (h : MPost v v') : MVPost none v v' := by
  intro hN
  obtain ⟨h1, h2⟩ := h hN
  exact ⟨h1, h2, fun p hp => by cases hp⟩

theorem mv_some {v v' : View} {n p0 ci0 : Nat} {rest : List (Nat × Nat)} (h : MPost v v')
    (hpar : (v.rn n).parents = (p0, ci0) :: rest) (hval : (v'.rn p0).valid = true) :
    MVPost (some p0) v v' := by
  intro hN
  obtain ⟨h1, h2⟩ := h hN
  refine ⟨h1, h2, fun p hp => ?_⟩
  have : p0 = p := Option.some.inj hp
  subst this
  exact ⟨h2.nec p0 (hN.e2 n p0 ci0 (by rw [hpar]; simp)), hval⟩

@[spec 100000] theorem maybeChangeValueManual_v (v : View) (env : Env) (fuel n : Nat) (o : Option Val) (b1 b2 : Bool) :
    ⦃fun s => ⌜viewOf s = v⌝⦄ maybeChangeValueManual env fuel n o b1 b2
    ⦃post⟨fun r s => ⌜MVPost r v (viewOf s)⌝, fun _ _ => ⌜True⌝⟩⦄ := by
  have hl := fun (l : List (Nat × Nat)) init f => forIn_view l init f MLInv
  nv_mvcgen [maybeChangeValueManual, -Spec.forIn_list, hl]
  all_goals vsimp
  all_goals first
    | exact mv_none (MPost.refl v)
    | (intro x; rfl)
    | (refine ⟨⟨PUnit.unit, trivial⟩, fun v0 b' hinv => MPost.trans hinv ?_⟩
       first | exact MPost.refl _ | exact MPost.ins (by grind) (by grind))
    | (have hloop := ‹∀ v0, MLInv _ v0 [] PUnit.unit v → MLInv _ v0 _ _ _› v (MPost.refl v)
       first
         | exact mv_some hloop (by assumption) (‹True → _ ∧ _› trivial).2
         | exact mv_none hloop
         | exact mv_none (hloop.trans (by assumption)))


@[spec 100000] theorem maybeChangeValue_v (v : View) (env : Env) (fuel n : Nat) (new : Val) :
    ⦃fun s => ⌜viewOf s = v⌝⦄ maybeChangeValue env fuel n new
    ⦃post⟨fun r s => ⌜MVPost r v (viewOf s)⌝, fun _ _ => ⌜True⌝⟩⦄ := by
  nv_mvcgen [maybeChangeValue]
  all_goals vsimp
  all_goals first
    | (intro x; rfl)
    | (intro h; exact h)

/-! ### part N15 -/

/-- loop rule: a loop whose body keeps the invariant keeps the invariant -/
theorem forIn_np {α β} (v : View) (l : List α) (init : β) (f : α → β → M (ForInStep β))
    (hf : ∀ a b v, NP v (f a b)) : NP v (forIn l init f) := by
  induction l generalizing init v with
  | nil =>
    simp only [List.forIn_nil]
    nv_mvcgen0
    rename_i h; rw [h]; exact fun h => h
  | cons a l ih =>
    rw [List.forIn_cons]
    have h1 := hf a init
    have ih' := fun b v' (h : NecV v → NecV v') => (ih v' b).comp h
    nv_mvcgen [h1, ih']
    all_goals vsimp
    nv_fin

@[spec 100000] theorem runEffects_v (v : View) (env : Env) (fuel : Nat) (effs : List Effect) (arg : Int) :
    NP v (runEffects env fuel effs arg) := by
  nv_mvcgen [runEffects, -Spec.forIn_list, forIn_np]
  all_goals vsimp
  nv_fin

/-! ### part N16 -/

/-! ## the bind right-hand side changes -/

/-- the view after `rhs := some r` in bind record `b` -/
def View.setRhs (v : View) (b r : Nat) : View :=
  { v with ch := fun m =>
      if (v.rn m).valid = true ∧ b < v.nb then
        (match (v.rn m).kind with
          | .bindMain b' lc => if b' = b then [lc, r] else v.ch m
          | _ => v.ch m)
      else v.ch m }

theorem chK_setRhs (k : Option Kind) (binds : Array BindRec) (experts : Array ExpertRec) (b r : Nat)
    (f : BindRec → BindRec) (hb : b < binds.size)
    (hf : ∀ x, (f x).lhs = x.lhs ∧ (f x).rhs = some r) :
    chK k (binds.modify b f) experts =
      match k with
      | some (.bindMain b' lc) => if b' = b then [lc, r] else chK k binds experts
      | _ => chK k binds experts := by
  cases k with
  | none => rfl
  | some kd =>
    cases kd <;> try rfl
    · rename_i b'
      simp only [chK, Array.getElem?_modify]
      by_cases h : b = b'
      · subst h; simp [Array.getElem?_eq_getElem hb, (hf _).1]
      · simp [h]
    · rename_i b' lc
      simp only [chK, Array.getElem?_modify]
      by_cases h : b' = b
      · subst h; simp [Array.getElem?_eq_getElem hb, (hf _).2]
      · have : ¬ b = b' := fun e => h e.symm
        simp [h, this]

theorem mkView_setRhs (nodes : Array Node) (binds : Array BindRec) (experts : Array ExpertRec) (dbg : Bool)
    (b r : Nat) (f : BindRec → BindRec)
    (hf : ∀ x, (f x).lhs = x.lhs ∧ (f x).rhs = some r ∧ (f x).main = x.main) :
    mkView nodes (binds.modify b f) experts dbg = (mkView nodes binds experts dbg).setRhs b r := by
  by_cases hb : b < binds.size
  · have hch : ∀ m, chK (nodeAt nodes m).kind? (binds.modify b f) experts =
        ((mkView nodes binds experts dbg).setRhs b r).ch m := by
      intro m
      rw [chK_setRhs _ _ _ b r f hb (fun x => ⟨(hf x).1, (hf x).2.1⟩)]
      have hb' : b < binds.size := hb
      generalize hnd : nodeAt nodes m = nd
      have e1 : ((mkView nodes binds experts dbg).rn m) = rel nd := by simp [mkView, hnd]
      have e2 : ((mkView nodes binds experts dbg).ch m) = chK nd.kind? binds experts := by simp [mkView, hnd]
      have e3 : (mkView nodes binds experts dbg).nb = binds.size := rfl
      simp only [View.setRhs, e1, e2, e3]
      cases hv : nd.valid with
      | false => simp [rel, Node.kind?, hv]
      | true =>
        cases hk : nd.kind <;> simp [rel, Node.kind?, hv, hk, hb']
    have hbm : ∀ b' : Nat, (binds.modify b f)[b']?.map (fun (x : BindRec) => x.main) = binds[b']?.map (fun (x : BindRec) => x.main) := by
      intro b'
      simp only [Array.getElem?_modify]
      split
      · cases binds[b']? <;> simp [(hf _).2.2]
      · rfl
    show View.mk _ _ _ _ _ _ _ = View.mk _ _ _ _ _ _ _
    congr 1
    · simp; rfl
    · funext m; exact hch m
    · funext b'; exact hbm b'
  · have hle : binds.size ≤ b := Nat.le_of_not_lt hb
    rw [modify_of_le _ _ _ hle]
    have : ¬ b < (mkView nodes binds experts dbg).nb := hb
    simp only [View.setRhs, this, and_false, if_false]


@[spec 200000] theorem modBind_rhs_v (v : View) (b r : Nat) :
    ⦃fun s => ⌜viewOf s = v⌝⦄ modBind b (fun x => { x with rhs := some r })
    ⦃post⟨fun _ s => ⌜viewOf s = v.setRhs b r⌝, fun _ _ => ⌜True⌝⟩⦄ := by
  nv_mvcgen [-modBind_v, modBind]
  vnorm
  rw [← ‹mkView _ _ _ _ = v›]
  exact mkView_setRhs _ _ _ _ b r _ (fun _ => ⟨rfl, rfl, rfl⟩)

theorem viewOf_bmain (s : State) (b : Nat) (br : BindRec) (h : s.binds[b]? = some br) :
    (viewOf s).bmain b = some br.main := by
  simp [viewOf, mkView, h]

theorem viewOf_ch_bindMain (s : State) (b m lc : Nat) (br : BindRec) (h : s.binds[b]? = some br)
    (hv : ((viewOf s).rn m).valid = true) (hk : ((viewOf s).rn m).kind = .bindMain b lc) :
    (viewOf s).ch m = lc :: br.rhs.toList := by
  have hv' : (nodeAt s.nodes m).valid = true := hv
  have hk' : (nodeAt s.nodes m).kind = .bindMain b lc := hk
  simp only [viewOf, mkView, Node.kind?, hv', hk', chK, h, if_true]
  cases br.rhs <;> rfl

/-- `getBind`, with what the record says about the view -/
theorem getBind_x (v : View) (b : Nat) :
    ⦃fun s => ⌜viewOf s = v⌝⦄ getBind b
    ⦃post⟨fun br s => ⌜viewOf s = v ∧ v.bmain b = some br.main ∧ b < v.nb ∧
        ∀ m lc, (v.rn m).valid = true → (v.rn m).kind = .bindMain b lc → v.ch m = lc :: br.rhs.toList⌝,
      fun _ _ => ⌜True⌝⟩⦄ := by
  nv_mvcgen [-getBind_v, getBind]
  rename_i s h br hbr
  subst h
  exact ⟨rfl, viewOf_bmain s b br hbr, (Array.getElem?_eq_some_iff.1 hbr).1,
    fun m lc hv hk => viewOf_ch_bindMain s b m lc br hbr hv hk⟩


theorem toList_getElem?_zero {α} (o : Option α) (c : α) (h : o.toList[0]? = some c) : o = some c := by
  cases o with
  | none => simp at h
  | some x => simp at h; rw [h]

/-- after the new right-hand side has been written into the bind record, everything `changeChildBindRhs`
asks for holds -/
theorem bind_rhs_pre {v v1 : View} {b main r : Nat} {old : Option Nat}
    (hN : NecV v) (ho : OOB v) (hbm : v.bmain b = some main) (hb : b < v.nb)
    (hch : ∀ m lc, (v.rn m).valid = true → (v.rn m).kind = .bindMain b lc → v.ch m = lc :: old.toList)
    (hext : Ext v v1) (hN1 : NecV v1) :
    NecX (v1.setRhs b r) main 1 old ∧
    (IsBindMain (v1.setRhs b r) main → ((v1.setRhs b r).ch main)[1]? = some r) ∧
    (¬ IsBindMain (v1.setRhs b r) main → NecV (v1.setRhs b r)) ∧
    ((main, 1) ∈ ((v1.setRhs b r).rn r).parents → old = some r) := by
  obtain ⟨lc0, hk0⟩ := hN.k.bmHas b main hbm
  have hmsz : main < v.size := by
    rcases Nat.lt_or_ge main v.size with h | h
    · exact h
    · have := (ho main h).1; rw [this] at hk0; cases hk0
  have hrn1 : v1.rn main = v.rn main := hext.rn main hmsz
  have hch1 : v1.ch main = v.ch main := hext.ch main hmsz
  have hbm1 : v1.bmain b = some main := by rw [hext.bmain b hb]; exact hbm
  have hb1 : b < v1.nb := Nat.lt_of_lt_of_le hb hext.nb
  have hk1 : (v1.rn main).kind = .bindMain b lc0 := by rw [hrn1]; exact hk0
  have huniq : ∀ m lc, (v1.rn m).kind = .bindMain b lc → m = main := by
    intro m lc h
    have := hN1.k.bmOf m b lc h
    rw [hbm1] at this; exact (Option.some.inj this).symm
  have hrn2 : ∀ m, (v1.setRhs b r).rn m = v1.rn m := fun _ => rfl
  have hch2o : ∀ m, m ≠ main → (v1.setRhs b r).ch m = v1.ch m := by
    intro m hm
    simp only [View.setRhs]
    split
    · split
      · rename_i b' lc hk
        split
        · rename_i hb'; subst hb'; exact absurd (huniq m lc hk) hm
        · rfl
      · rfl
    · rfl
  have hch2i : (v1.rn main).valid = false → (v1.setRhs b r).ch main = v1.ch main := by
    intro hv; simp [View.setRhs, hv]
  have hch2v : (v1.rn main).valid = true → (v1.setRhs b r).ch main = [lc0, r] := by
    intro hv; simp [View.setRhs, hv, hb1, hk1]
  have hchold : (v1.rn main).valid = true → v1.ch main = lc0 :: old.toList := by
    intro hv
    rw [hch1]; exact hch main lc0 (by rw [← hrn1]; exact hv) hk0
  have hK : KindOK (v1.setRhs b r) := hN1.k.congr (fun _ => rfl) rfl rfl rfl
  have hchv : ∀ m, ((v1.setRhs b r).rn m).valid = false → (v1.setRhs b r).ch m = [] := by
    intro m hm
    have hm' : (v1.rn m).valid = false := hm
    have : (v1.setRhs b r).ch m = v1.ch m := by simp [View.setRhs, hm']
    rw [this]; exact hN1.chv m hm'
  have hbad : ∀ p, ¬ Bad (v1.setRhs b r) p := fun p hp => hN1.nobad p hp
  refine ⟨⟨hN1.dbg, ?_, hN1.e3v, hN1.e4, hK, hchv, hbad⟩, ?_, ?_, ?_⟩
  · intro c p i hm
    have hm1 : (p, i) ∈ (v1.rn c).parents := hm
    have he := hN1.e1 c p i hm1
    by_cases hp : p = main
    · subst hp
      cases hv : (v1.rn p).valid with
      | false => left; rw [hch2i hv]; exact he
      | true =>
        rw [hchold hv] at he
        rw [hch2v hv]
        match i, he with
        | 0, he => left; simpa using he
        | 1, he => right; exact ⟨rfl, rfl, toList_getElem?_zero old c (by simpa using he)⟩
        | (i+2), he =>
          exfalso
          cases old <;> simp at he
    · left; rw [hch2o p hp]; exact he
  · rintro ⟨hv, -⟩
    rw [hch2v hv]; rfl
  · intro hnb
    have hv : (v1.rn main).valid = false := by
      cases h : (v1.rn main).valid with
      | false => rfl
      | true => exact absurd ⟨h, b, lc0, hk1⟩ hnb
    refine ⟨⟨hN1.dbg, ?_, hN1.e3v, hN1.e4, hK, hchv⟩, hbad⟩
    intro c p i hm
    have he := hN1.e1 c p i hm
    by_cases hp : p = main
    · subst hp; rw [hch2i hv]; exact he
    · rw [hch2o p hp]; exact he
  · intro hm
    have he := hN1.e1 r main 1 hm
    cases hv : (v1.rn main).valid with
    | false => rw [hN1.chv main hv] at he; cases he
    | true =>
      rw [hchold hv] at he
      exact toList_getElem?_zero old r (by simpa using he)

/-! ### part N17 -/

theorem necV_pushE {v : View} (cs : List Nat) (h : NecV v) (ho : OOB v) :
    NecV (v.addE.push (.expert v.ne) cs) :=
  (step_pushE cs ho).nec h

@[spec 100000] theorem perKeyDriver_v (v : View) (env : Env) (fuel op : Nat) (newMap : List (Int × Int)) :
    NP v (perKeyDriver env fuel op newMap) := by
  nv_mvcgen [perKeyDriver, -Spec.forIn_list, forIn_np, Functor.discard]
  all_goals try exact expertAddDependency_v _ _ _ _ _ _
  all_goals vsimp'
  all_goals first
    | (intro x; rfl)
    | (intros; trivial)
    | (intro hN
       have h1 := necV_pushE (by assumption) hN (OOB_of_eq (by assumption))
       grind)

/-- result of `recomputeOne`: the invariant is kept and the node handed back is necessary and valid -/
def RPost (r : Option Nat) (v v' : View) : Prop :=
  NecV v → NecV v' ∧ ∀ p, r = some p → (v'.rn p).nec = true ∧ (v'.rn p).valid = true

theorem rpost_of_mv {r : Option Nat} {v v1 v2 : View} (hmv : MVPost r v1 v2) (h : NecV v → NecV v1) :
    RPost r v v2 := by
  intro hN
  obtain ⟨h1, -, h3⟩ := hmv (h hN)
  exact ⟨h1, h3⟩

set_option maxHeartbeats 1000000 in
@[spec 100000] theorem recomputeOne_v (v : View) (env : Env) (fuel n : Nat) :
    ⦃fun s => ⌜viewOf s = v⌝⦄ recomputeOne env fuel n
    ⦃post⟨fun r s => ⌜RPost r v (viewOf s)⌝, fun _ _ => ⌜True⌝⟩⦄ := by
  have hl2 := fun (v : View) (l : List ExpertEdge) (init : PUnit) f => forIn_vf v l init f
  have hl := fun (l : List Nat) init f => forIn_view l init f ILInv
  have hgb := getBind_x
  nv_mvcgen [recomputeOne, -Spec.forIn_list, hl2, hl, -getBind_v, hgb]
  all_goals vsimp
  all_goals first
    | (intro x; rfl)
    | (intros; trivial)
    | (intros; simp only [MVPost, RPost, IPost] at *; grind)
    | (refine ⟨⟨PUnit.unit, trivial⟩, ?_⟩
       intro v0 b' hinv hN
       obtain ⟨h1, r1⟩ := hinv hN
       obtain ⟨h2, r2⟩ := ‹IPost _ _› h1
       exact ⟨h2, r1.trans r2⟩)
    | (intro hmv
       refine rpost_of_mv hmv (fun hN => ?_)
       obtain ⟨hext, hN1⟩ := ‹NecV v → Ext v _ ∧ NecV _› hN
       obtain ⟨ha, hb, hc, hd⟩ := bind_rhs_pre (r := _) hN (OOB_of_eq ‹viewOf _ = v›) ‹v.bmain _ = some _›
         ‹_ < v.nb› ‹∀ m lc, (v.rn m).valid = true → (v.rn m).kind = Kind.bindMain _ lc → v.ch m = _› hext hN1
       have hN3 := ‹CCPost _ _ _ 1 _ _› ha hb hc hd
       first
         | exact hN3
         | (have hN4 := (‹∀ v0, ILInv _ v0 [] PUnit.unit _ → ILInv _ v0 _ _ _› _ (fun h => ⟨h, IRel.refl _⟩) hN3).1
            exact ‹NecV _ → NecV _› hN4))

/-! ### part N18 -/

/-! ## recompute chain, heap drain -/

@[spec 100000] theorem recompute_v (v : View) (env : Env) (fuel n : Nat) : NP v (recompute env fuel n) := by
  induction fuel generalizing v n with
  | zero => nv_mvcgen [recompute]
  | succ fuel ih =>
    have ih' := fun v' p (h : NecV v → NecV v') => (ih v' p).comp h
    nv_mvcgen [recompute, ih']
    all_goals vsimp
    all_goals first
      | (intros; trivial)
      | (intros; simp only [RPost] at *; grind)

theorem necV_clear {v : View} (n : Nat) (h : NecV v) : NecV (v.setInRch n false) := by
  obtain ⟨hJ, -, hbad⟩ := clearRch_step n h.toJ
  exact ⟨hJ, fun p hp => h.nobad p (hbad p hp).1⟩

@[spec 100000] theorem drainHeap_v (v : View) (env : Env) (fuel : Nat) : NP v (drainHeap env fuel) := by
  induction fuel generalizing v with
  | zero => nv_mvcgen [drainHeap]
  | succ fuel ih =>
    have ih' := fun v' (h : NecV v → NecV v') => (ih v').comp h
    nv_mvcgen [drainHeap, ih']
    all_goals vsimp
    all_goals first
      | (intros; trivial)
      | (intros; grind [necV_clear])


/-! ## observers -/

theorem mkView_setObs (s : State) (n : Nat) (f : Node → Node) (v : View) (h : viewOf s = v)
    (hf : ∀ x, (f x).parents = x.parents ∧ (f x).forceNecessary = x.forceNecessary ∧ (f x).valid = x.valid ∧
      (f x).heightInRch = x.heightInRch ∧ (f x).kind = x.kind) :
    ∃ b', (((f (s.nodeD n)).observers.isEmpty = false) → b' = true) ∧
      mkView (s.nodes.modify n f) s.binds s.experts s.cfg.debug = v.setBase n b' := by
  subst h
  refine ⟨!(f (s.nodeD n)).observers.isEmpty || (s.nodeD n).forceNecessary, fun h => by simp [h], ?_⟩
  unfold View.setBase
  split
  · rename_i hn
    have hk : (f (nodeAt s.nodes n)).kind? = (nodeAt s.nodes n).kind? := by
      simp [Node.kind?, (hf _).2.2.1, (hf _).2.2.2.2]
    have := mkView_modify_setRn s.nodes s.binds s.experts s.cfg.debug n f hn hk
    rw [this]
    congr 1
    obtain ⟨h1, h2, h3, h4, h5⟩ := hf (nodeAt s.nodes n)
    simp only [rel, h1, h2, h3, h5, Node.inRch, h4]
    rfl
  · rename_i hn
    have : s.nodes.size ≤ n := Nat.le_of_not_lt hn
    simp only [viewOf, modify_of_le _ _ _ this]

@[spec 200000] theorem modNode_addObs_v (v : View) (n o : Nat) (k : Int) :
    ⦃fun s => ⌜viewOf s = v⌝⦄
    modNode n (fun x => { x with observers := x.observers ++ [o], numOnUpdateHandlers := x.numOnUpdateHandlers + k })
    ⦃post⟨fun _ s => ⌜viewOf s = v.setBase n true⌝, fun _ _ => ⌜True⌝⟩⦄ := by
  nv_mvcgen [-modNode_v, modNode]
  vnorm
  obtain ⟨b', hb, e⟩ := mkView_setObs ‹State› n
    (fun x => { x with observers := x.observers ++ [o], numOnUpdateHandlers := x.numOnUpdateHandlers + k }) v
    (by assumption) (fun _ => ⟨rfl, rfl, rfl, rfl, rfl⟩)
  rw [hb (by simp)] at e
  exact e

@[spec 200000] theorem modNode_remObs_v (v : View) (n o : Nat) (k : Int) :
    ⦃fun s => ⌜viewOf s = v⌝⦄
    modNode n (fun x => { x with observers := x.observers.filter (· != o),
                                 numOnUpdateHandlers := x.numOnUpdateHandlers - k })
    ⦃post⟨fun _ s => ⌜∃ b', viewOf s = v.setBase n b'⌝, fun _ _ => ⌜True⌝⟩⦄ := by
  nv_mvcgen [-modNode_v, modNode]
  vnorm
  obtain ⟨b', -, e⟩ := mkView_setObs ‹State› n
    (fun x => { x with observers := x.observers.filter (· != o),
                       numOnUpdateHandlers := x.numOnUpdateHandlers - k }) v
    (by assumption) (fun _ => ⟨rfl, rfl, rfl, rfl, rfl⟩)
  exact ⟨b', e⟩


theorem necV_setBase_true {v : View} (n : Nat) (h : NecV v) : NecV (v.setBase n true) := by
  obtain ⟨hJ, hb⟩ := setBase_step n true h
  refine ⟨hJ, fun p hp => ?_⟩
  have := hb p hp
  subst this
  have hn := hp.1
  unfold View.setBase at hn hp
  split at hn
  · simp [View.setRn, RNode.nec] at hn
  · rename_i hsz
    simp only [hsz, if_false] at hp
    exact h.nobad p hp

theorem hasEdge_setBase {v : View} (n p : Nat) (b : Bool) (h : HasEdge (v.setBase n b) p) : HasEdge v p := by
  obtain ⟨c, i, hm⟩ := h
  rw [setBase_parents] at hm
  exact ⟨c, i, hm⟩

theorem addObs_step {v v2 : View} {node : Nat} (hN : NecV v) (hw : (v.rn node).nec = false)
    (hd : (v.setBase node true).debug = true → ((v.setBase node true).rn node).nec = true)
    (hbn : NecV (v.setBase node true) → ((v.setBase node true).rn node).nec = true →
      ¬ HasEdge (v.setBase node true) node → NecV v2) : NecV v2 := by
  have h1 := necV_setBase_true node hN
  refine hbn h1 (hd h1.dbg) (fun he => ?_)
  obtain ⟨c, i, hm⟩ := hasEdge_setBase _ _ _ he
  have := hN.e2 c node i hm
  rw [this] at hw; cases hw

@[spec 100000] theorem addNewObservers_v (v : View) (env : Env) (fuel : Nat) :
    NP v (addNewObservers env fuel) := by
  nv_mvcgen [addNewObservers, -Spec.forIn_list, forIn_np]
  all_goals vsimp
  all_goals first
    | (intros; trivial)
    | (intro x; rfl)
    | exact fun h => necV_setBase_true _ h
    | (intro hN
       exact addObs_step hN (by simpa using ‹(!(RNode.nec _)) = true›) (by assumption) (by assumption))


theorem remObs_step {v v2 : View} {node : Nat} {b' : Bool} (hN : NecV v)
    (hcu : UPost node (v.setBase node b') v2) : NecV v2 := by
  obtain ⟨hJ, hb⟩ := setBase_step node b' hN
  exact cc_final hJ hb hcu

@[spec 100000] theorem unlinkDisallowedObservers_v (v : View) (fuel : Nat) :
    NP v (unlinkDisallowedObservers fuel) := by
  nv_mvcgen [unlinkDisallowedObservers, -Spec.forIn_list, forIn_np]
  all_goals vsimp
  all_goals first
    | (intros; trivial)
    | (intro x; rfl)
    | (intro hN; exact remObs_step hN (by assumption))


/-! ## update handlers, `stabilise` -/

@[spec 100000] theorem runAll_v (v : View) (env : Env) (fuel o n : Nat) (nu : NodeUpdate) (now : Int) :
    NP v (runAll env fuel o n nu now) := by
  nv_mvcgen [runAll, -Spec.forIn_list, forIn_np]
  all_goals vsimp
  nv_fin

@[spec 100000] theorem stabiliseEnd_v (v : View) (env : Env) (fuel : Nat) : NP v (stabiliseEnd env fuel) := by
  nv_mvcgen [stabiliseEnd, -Spec.forIn_list, forIn_np]
  all_goals vsimp
  nv_fin

@[spec 100000] theorem stabilise_v (v : View) (env : Env) (fuel : Nat) : NP v (stabilise env fuel) := by
  have hse := fun v' (h : NecV v → NecV v') => (stabiliseEnd_v v' env fuel).comp h
  nv_mvcgen [stabilise, -stabiliseEnd_v, hse]
  all_goals vsimp
  nv_fin

/-! ### part N19 -/

/-! ## the invariant on states, and the plain (`run`) form of the triples -/

/-- The necessity / edge invariant.
* `e1`: every recorded parent edge is a real edge (so the parent is a valid node with children);
* `e2`: every recorded parent is necessary;
* `e3`: a node marked as queued in the recompute heap is necessary and valid (with `HeapWF`: every node in a
  bucket of the recompute heap is, see `NecWF.queued`);
* `e4`: no parent edge is recorded twice;
* `kinds`: bookkeeping of the record tables (`KindOK` on the view: bind-main / expert kinds name their record
  injectively, the records exist, `main` of a bind record is the bind-main node of that bind). -/
structure NecWF (s : State) : Prop where
  e1 : ∀ c p i, (p, i) ∈ (s.nodeD c).parents →
    p < s.nodes.size ∧ c < s.nodes.size ∧ (s.children p)[i]? = some c
  e2 : ∀ c p i, (p, i) ∈ (s.nodeD c).parents → s.isNecessary p = true
  e3 : ∀ n, (s.nodeD n).inRch = true → s.isNecessary n = true ∧ (s.nodeD n).valid = true
  e4 : ∀ c, (s.nodeD c).parents.Nodup
  kinds : KindOK (viewOf s)

theorem nodeD_of_le (s : State) (n : Nat) (h : s.nodes.size ≤ n) : s.nodeD n = default := nodeAt_of_le _ _ h

theorem necV_of_necWF {s : State} (h : NecWF s) (hd : s.cfg.debug = true) : NecV (viewOf s) := by
  apply NecV.of
  · refine ⟨hd, ?_, ?_, h.e4, h.kinds, viewOf_chv s⟩
    · intro c p i hm
      rw [viewOf_ch]; exact (h.e1 c p i hm).2.2
    · intro n hn; exact (h.e3 n hn).2
  · intro c p i hm
    rw [viewOf_nec]; exact h.e2 c p i hm
  · intro n hn
    rw [viewOf_nec]; exact (h.e3 n hn).1

theorem necWF_of_necV {s : State} (h : NecV (viewOf s)) : NecWF s ∧ s.cfg.debug = true := by
  refine ⟨⟨?_, ?_, ?_, h.e4, h.k⟩, h.dbg⟩
  · intro c p i hm
    have he := h.e1 c p i hm
    rw [viewOf_ch] at he
    refine ⟨?_, ?_, he⟩
    · rcases Nat.lt_or_ge p s.nodes.size with hp | hp
      · exact hp
      · have := (viewOf_OOB s p hp).2
        rw [viewOf_ch] at this; rw [this] at he; cases he
    · rcases Nat.lt_or_ge c s.nodes.size with hc | hc
      · exact hc
      · rw [nodeD_of_le s c hc] at hm; cases hm
  · intro c p i hm
    rw [← viewOf_nec]; exact h.e2 c p i hm
  · intro n hn
    have := h.e3 n hn
    rw [viewOf_nec] at this; exact this

theorem necV_iff (s : State) : NecV (viewOf s) ↔ NecWF s ∧ s.cfg.debug = true :=
  ⟨necWF_of_necV, fun h => necV_of_necWF h.1 h.2⟩

/-- with a well-formed recompute heap: every queued node is necessary and valid -/
theorem NecWF.queued {s : State} (h : NecWF s) (hh : HeapWF s) (k : Nat) (hk : k < s.rch.queues.size)
    (n : Nat) (hn : n ∈ s.rch.queues[k]) : s.isNecessary n = true ∧ (s.nodeD n).valid = true := by
  have := ((hh.mem k hk n).1 hn).2
  apply h.e3
  simp only [Node.inRch, decide_eq_true_eq, this]
  omega

/-- run form of a view triple -/
theorem run_of_triple {α} {x : M α} {R : α → View → View → Prop}
    (h : ∀ v, ⦃fun s => ⌜viewOf s = v⌝⦄ x ⦃post⟨fun r s => ⌜R r v (viewOf s)⌝, fun _ _ => ⌜True⌝⟩⦄)
    (s s' : State) (a : α) (hr : x.run.run s = (.ok a, s')) : R a (viewOf s) (viewOf s') := by
  have := (triple_iff x _ _ _).1 (h (viewOf s)) s rfl
  rw [hr] at this
  exact this

/-- run form of `NP` -/
theorem NP.run {α} {x : M α} (h : ∀ v, NP v x) (s s' : State) (a : α) (hs : NecWF s)
    (hd : s.cfg.debug = true) (hr : x.run.run s = (.ok a, s')) : NecWF s' ∧ s'.cfg.debug = true :=
  necWF_of_necV (run_of_triple (R := fun _ v v' => NecV v → NecV v') h s s' a hr (necV_of_necWF hs hd))

theorem kindOK_init (N : Nat) (d : Bool) : KindOK (viewOf (State.init N d)) := by
  have hk : ∀ m, ((viewOf (State.init N d)).rn m).kind = .const default := by
    intro m; exact (viewOf_OOB (State.init N d) m (Nat.zero_le _)).1 ▸ rfl
  refine ⟨?_, ?_, ?_, ?_, ?_, ?_, ?_⟩
  · intro n n' b lc lc' h; rw [hk] at h; cases h
  · intro n b lc h; rw [hk] at h; cases h
  · intro n n' e h; rw [hk] at h; cases h
  · intro n e h; rw [hk] at h; cases h
  · intro b m h; simp [viewOf, mkView, State.init] at h
  · intro m b lc h; rw [hk] at h; cases h
  · intro n b h; rw [hk] at h; cases h

theorem necWF_init (N : Nat) (d : Bool) : NecWF (State.init N d) := by
  have hnd : ∀ n, (State.init N d).nodeD n = default := fun n => nodeD_of_le _ n (Nat.zero_le _)
  refine ⟨?_, ?_, ?_, ?_, kindOK_init N d⟩
  · intro c p i hm; rw [hnd] at hm; cases hm
  · intro c p i hm; rw [hnd] at hm; cases hm
  · intro n hn; rw [hnd] at hn; cases hn
  · intro c; rw [hnd]; exact List.nodup_nil

/-! ### part N20: run-form theorems (restated with comments in `Props/C05.lean`) -/

theorem popped_mem (s0 : State) :
    ⦃fun s => ⌜s = s0⌝⦄ rchRemoveMin
    ⦃post⟨fun r _ => ⌜∀ n, r = some n → ∃ (k : Nat) (hk : k < s0.rch.queues.size), n ∈ s0.rch.queues[k]⌝,
      fun _ _ => ⌜True⌝⟩⦄ := by
  nv_mvcgen [-rchRemoveMin_v, rchRemoveMin, -dassert_v, dassert, -modNode_v, modNode]
  all_goals first
    | (intro n hn; cases hn; done)
    | skip
  rename_i s h _ _ lb n rest hq _ _
  intro m hm
  cases hm
  subst h
  have hlt : lb < s.rch.queues.size := (Array.getElem?_eq_some_iff.1 hq).1
  have hqe : s.rch.queues[lb] = n :: rest := (Array.getElem?_eq_some_iff.1 hq).2
  exact ⟨lb, hlt, by rw [hqe]; simp⟩


/-- plain form: the popped node sat in a bucket of the heap -/
theorem popped_in_heap (s s' : State) (n : Nat) (hr : rchRemoveMin.run.run s = (.ok (some n), s')) :
    ∃ (k : Nat) (hk : k < s.rch.queues.size), n ∈ s.rch.queues[k] := by
  have := (triple_iff rchRemoveMin _ _ _).1 (popped_mem s) s rfl
  rw [hr] at this
  exact this n rfl

/-- **C05 (a)**: in a state that satisfies the necessity invariant and whose recompute heap is well-formed, the
node `remove_min` hands to `recompute` is necessary and valid. -/
theorem popped_is_necessary (s s' : State) (n : Nat) (hN : NecWF s) (hH : HeapWF s)
    (hr : rchRemoveMin.run.run s = (.ok (some n), s')) :
    s.isNecessary n = true ∧ (s.nodeD n).valid = true := by
  obtain ⟨k, hk, hn⟩ := popped_in_heap s s' n hr
  exact hN.queued hH k hk n hn

/-- … and it still is after the pop (the pop only clears its queue marker) -/
theorem popped_is_necessary' (s s' : State) (n : Nat) (hN : NecWF s) (hH : HeapWF s)
    (hr : rchRemoveMin.run.run s = (.ok (some n), s')) :
    s'.isNecessary n = true ∧ (s'.nodeD n).valid = true := by
  obtain ⟨h1, h2⟩ := popped_is_necessary s s' n hN hH hr
  have hv := run_of_triple (R := fun r v v' => match r with
      | none => v' = v
      | some n => v' = v.setInRch n false) (fun v => rchRemoveMin_v v) s s' (some n) hr
  simp only at hv
  have e : (viewOf s').rn n = { (viewOf s).rn n with inRch := false } := by
    rw [hv]; simp [View.setInRch, View.setRn]
  constructor
  · rw [← viewOf_nec, e]; rw [← viewOf_nec] at h1; exact h1
  · rw [← viewOf_valid, e]; exact h2

/-- **C05 (b)**: if `recomputeOne` is run from a state satisfying the invariant and hands back a parent `p` for
direct recomputation, the invariant holds afterwards and `p` is necessary and valid. -/
theorem chain_is_necessary (env : Env) (fuel n p : Nat) (s s' : State) (hN : NecWF s)
    (hd : s.cfg.debug = true) (hr : (recomputeOne env fuel n).run.run s = (.ok (some p), s')) :
    NecWF s' ∧ s'.cfg.debug = true ∧ s'.isNecessary p = true ∧ (s'.nodeD p).valid = true := by
  have h := run_of_triple (R := fun r v v' => RPost r v v') (fun v => recomputeOne_v v env fuel n) s s' _ hr
    (necV_of_necWF hN hd)
  obtain ⟨h1, h2⟩ := h
  obtain ⟨g1, g2⟩ := necWF_of_necV h1
  obtain ⟨g3, g4⟩ := h2 p rfl
  exact ⟨g1, g2, by rw [← viewOf_nec]; exact g3, g4⟩


/-! ## (c) every node `stabilise` recomputes is necessary: ghost-instrumented copies -/

/-- ghost check: the node about to be recomputed is necessary and valid -/
def assertNec (n : Nat) : M Unit := do
  let s ← get
  assertM (s.isNecessary n && (s.nodeD n).valid) "C05:recompute-of-unnecessary-node"

/-- `recompute` with the ghost check in front of every `recomputeOne` -/
def recomputeChecked (env : Env) : Nat → Nat → M Unit
  | 0, _ => throw .outOfFuel
  | fuel+1, n => do
    assertNec n
    match ← recomputeOne env fuel n with
    | none => pure ()
    | some p => recomputeChecked env fuel p

/-- `drainHeap` on top of `recomputeChecked` -/
def drainHeapChecked (env : Env) : Nat → M Unit
  | 0 => throw .outOfFuel
  | fuel+1 => do
    match ← rchRemoveMin with
    | none => pure ()
    | some n =>
      recomputeChecked env fuel n
      drainHeapChecked env fuel

/-- `stabilise` on top of `drainHeapChecked` -/
def stabiliseChecked (env : Env) (fuel : Nat) : M Unit := do
  assertM ((← get).status == .notStabilising) "state:stabilise:status"
  modify fun s => { s with status := .stabilising }
  addNewObservers env fuel
  unlinkDisallowedObservers fuel
  drainHeapChecked env fuel
  stabiliseEnd env fuel

theorem run_assertNec (n : Nat) (s : State) (h1 : s.isNecessary n = true) (h2 : (s.nodeD n).valid = true) :
    (assertNec n).run.run s = (.ok (), s) := by
  simp [assertNec, run_bind, run_get, run_assertM, h1, h2]

theorem recomputeChecked_eq (env : Env) (fuel : Nat) : ∀ (n : Nat) (s : State), NecWF s → s.cfg.debug = true →
    s.isNecessary n = true → (s.nodeD n).valid = true →
    (recomputeChecked env fuel n).run.run s = (recompute env fuel n).run.run s := by
  induction fuel with
  | zero => intros; rfl
  | succ fuel ih =>
    intro n s hN hd h1 h2
    simp only [recomputeChecked, recompute, run_bind, run_assertNec n s h1 h2]
    rcases hr : (recomputeOne env fuel n).run.run s with ⟨r, s'⟩
    cases r with
    | error e => rfl
    | ok o =>
      cases o with
      | none => rfl
      | some p =>
        obtain ⟨g1, g2, g3, g4⟩ := chain_is_necessary env fuel n p s s' hN hd hr
        exact ih p s' g1 g2 g3 g4


/-- what the drain loop needs of a state: the invariant, a well-formed heap, debug assertions on -/
def Good (s : State) : Prop := NecWF s ∧ HeapWF s ∧ s.cfg.debug = true

theorem Good.step {α} {x : M α} (hn : ∀ v, NP v x) (hh : Pres .debug x) {s s' : State} {a : α}
    (hg : Good s) (hr : x.run.run s = (.ok a, s')) : Good s' := by
  obtain ⟨h1, h2, h3⟩ := hg
  obtain ⟨g1, g2⟩ := NP.run hn s s' a h1 h3 hr
  have := hh.run s ((HWF_debug_iff s).2 ⟨h2, h3⟩)
  rw [hr] at this
  exact ⟨g1, ((HWF_debug_iff s').1 this).1, g2⟩

theorem rchRemoveMin_np (v : View) : NP v rchRemoveMin := by
  nv_mvcgen [rchRemoveMin_v]
  intro h
  split at h
  · rw [h, ‹viewOf _ = v›]; exact fun h => h
  · rw [h, ‹viewOf _ = v›]; exact fun hN => necV_clear _ hN

theorem drainHeapChecked_eq (env : Env) (fuel : Nat) : ∀ (s : State), Good s →
    (drainHeapChecked env fuel).run.run s = (drainHeap env fuel).run.run s := by
  induction fuel with
  | zero => intros; rfl
  | succ fuel ih =>
    intro s hg
    simp only [drainHeapChecked, drainHeap, run_bind]
    rcases hr : rchRemoveMin.run.run s with ⟨r, s1⟩
    cases r with
    | error e => rfl
    | ok o =>
      cases o with
      | none => rfl
      | some n =>
        have hg1 : Good s1 := hg.step rchRemoveMin_np (rchRemoveMin_spec .debug) hr
        obtain ⟨p1, p2⟩ := popped_is_necessary' s s1 n hg.1 hg.2.1 hr
        have e := recomputeChecked_eq env fuel n s1 hg1.1 hg1.2.2 p1 p2
        simp only [run_bind, e]
        rcases hr2 : (recompute env fuel n).run.run s1 with ⟨r2, s2⟩
        cases r2 with
        | error e => rfl
        | ok u =>
          exact ih s2 (hg1.step (fun v => recompute_v v env fuel n) (recompute_spec env fuel n) hr2)

/-- **C05 (c)**: from a state satisfying the invariant (with a well-formed heap, debug assertions on),
`stabilise` behaves exactly like its ghost-instrumented copy, which checks in front of *every* call of
`recomputeOne` that the node is necessary and valid and would panic with the site
`"C05:recompute-of-unnecessary-node"` otherwise: the check never fires — only nodes needed by a live
observer are ever computed. -/
theorem stabiliseChecked_eq (env : Env) (fuel : Nat) (s : State) (hN : NecWF s) (hH : HeapWF s)
    (hd : s.cfg.debug = true) :
    (stabiliseChecked env fuel).run.run s = (stabilise env fuel).run.run s := by
  by_cases hst : (s.status == Status.notStabilising) = true
  · simp only [stabiliseChecked, stabilise, run_bind, run_get, run_assertM, run_modify, hst, if_true]
    have hg0 : Good { s with status := .stabilising } :=
      ⟨⟨hN.e1, hN.e2, hN.e3, hN.e4, hN.kinds⟩, ⟨hH.mem, hH.nodup, hH.length, hH.range⟩, hd⟩
    rcases hr1 : (addNewObservers env fuel).run.run { s with status := .stabilising } with ⟨r1, s1⟩
    cases r1 with
    | error e => rfl
    | ok u1 =>
      have hg1 : Good s1 := hg0.step (fun v => addNewObservers_v v env fuel) (addNewObservers_spec env fuel) hr1
      simp only []
      rcases hr2 : (unlinkDisallowedObservers fuel).run.run s1 with ⟨r2, s2⟩
      cases r2 with
      | error e => rfl
      | ok u2 =>
        have hg2 : Good s2 :=
          hg1.step (fun v => unlinkDisallowedObservers_v v fuel) (unlinkDisallowedObservers_spec .debug fuel) hr2
        simp only [drainHeapChecked_eq env fuel s2 hg2]
  · simp only [stabiliseChecked, stabilise, run_bind, run_get, run_assertM, hst]
    rfl


/-! ## (d) no necessary node, no work -/

theorem heap_empty_of_none_necessary (s : State) (hN : NecWF s) (hH : HeapWF s)
    (hnone : ∀ n, s.isNecessary n = false) : s.rch.length = 0 := by
  rw [hH.length]
  unfold bucketSum
  apply sum_length_of_all_empty
  intro x hx
  rw [Array.mem_toList_iff] at hx
  obtain ⟨k, hk, rfl⟩ := Array.mem_iff_getElem.1 hx
  cases hq : s.rch.queues[k] with
  | nil => rfl
  | cons n rest =>
    have := (hN.queued hH k hk n (by rw [hq]; simp)).1
    rw [hnone n] at this; cases this

theorem run_rchRemoveMin_empty (s : State) (h : s.rch.length = 0) :
    rchRemoveMin.run.run s = (.ok none, s) := by
  simp [rchRemoveMin, run_bind, run_get, h]
  rfl

/-- **C05 (d)**: if no node is necessary (in particular: no observer is in use and none is new) then, in a
state satisfying the invariant with a well-formed heap, the recompute heap is empty and `drainHeap` returns at
once without touching the state — nothing is computed. -/
theorem no_observers_no_work (env : Env) (fuel : Nat) (s : State) (hN : NecWF s) (hH : HeapWF s)
    (hnone : ∀ n, s.isNecessary n = false) :
    s.rch.length = 0 ∧ (drainHeap env (fuel + 1)).run.run s = (.ok (), s) := by
  have h0 := heap_empty_of_none_necessary s hN hH hnone
  refine ⟨h0, ?_⟩
  simp only [drainHeap, run_bind, run_rchRemoveMin_empty s h0]
  rfl


/-! ## the invariant holds initially and is kept by every API entry point (normal outcome) -/

/-- the initial state satisfies the invariant -/
theorem necwf_init (maxHeight : Nat) (debug : Bool) : NecWF (State.init maxHeight debug) :=
  necWF_init maxHeight debug

theorem VF.toNP {α} {x : M α} (h : ∀ v, VF v x) (v : View) : NP v x := by
  have := h v
  nv_mvcgen [this]
  intro hv; rw [hv]; exact fun h => h

/-- `stabilise` keeps the invariant (when it returns normally; debug assertions on) -/
theorem stabilise_ok (env : Env) (fuel : Nat) (s s' : State) (hN : NecWF s) (hd : s.cfg.debug = true)
    (hr : (stabilise env fuel).run.run s = (.ok (), s')) : NecWF s' ∧ s'.cfg.debug = true :=
  NP.run (fun v => stabilise_v v env fuel) s s' () hN hd hr

/-- `writeVar` (all five write operations on a var) keeps the invariant -/
theorem writeVar_ok (x : Nat) (f : Val → Val) (isSet : Bool) (s s' : State) (a : Val) (hN : NecWF s)
    (hd : s.cfg.debug = true) (hr : (writeVar x f isSet).run.run s = (.ok a, s')) :
    NecWF s' ∧ s'.cfg.debug = true :=
  NP.run (fun v => writeVar_v v x f isSet) s s' a hN hd hr

/-- `subscribe` keeps the invariant -/
theorem subscribe_ok (o hid : Nat) (s s' : State) (a : Except ObsError Nat) (hN : NecWF s)
    (hd : s.cfg.debug = true) (hr : (subscribe o hid).run.run s = (.ok a, s')) :
    NecWF s' ∧ s'.cfg.debug = true :=
  NP.run (VF.toNP fun v => subscribe_v v o hid) s s' a hN hd hr

/-- `unsubscribe` keeps the invariant -/
theorem unsubscribe_ok (o token owner : Nat) (s s' : State) (a : Except ObsError Unit) (hN : NecWF s)
    (hd : s.cfg.debug = true) (hr : (unsubscribe o token owner).run.run s = (.ok a, s')) :
    NecWF s' ∧ s'.cfg.debug = true :=
  NP.run (VF.toNP fun v => unsubscribe_v v o token owner) s s' a hN hd hr

/-- `disallowFutureUse` keeps the invariant (the observer is only unlinked by the next `stabilise`) -/
theorem disallowFutureUse_ok (o : Nat) (s s' : State) (hN : NecWF s)
    (hd : s.cfg.debug = true) (hr : (disallowFutureUse o).run.run s = (.ok (), s')) :
    NecWF s' ∧ s'.cfg.debug = true :=
  NP.run (VF.toNP fun v => disallowFutureUse_v v o) s s' () hN hd hr

/-- creating nodes at top level keeps the invariant -/
theorem elabInstr_ok (lv : Val) (i : Instr) (s s' : State) (a : Option Nat) (hN : NecWF s)
    (hd : s.cfg.debug = true) (hr : (elabInstr [] lv i).run.run s = (.ok a, s')) :
    NecWF s' ∧ s'.cfg.debug = true :=
  necWF_of_necV (run_of_triple (R := fun _ v v' => NecV v → Ext v v' ∧ NecV v')
    (fun v => elabInstr_v v [] lv i) s s' a hr (necV_of_necWF hN hd)).2

/-- `expertAddDependency` keeps the invariant -/
theorem expertAddDependency_ok (env : Env) (fuel n child : Nat) (cb : Bool) (s s' : State) (a : Nat)
    (hN : NecWF s) (hd : s.cfg.debug = true)
    (hr : (expertAddDependency env fuel n child cb).run.run s = (.ok a, s')) :
    NecWF s' ∧ s'.cfg.debug = true :=
  NP.run (fun v => expertAddDependency_v v env fuel n child cb) s s' a hN hd hr

/-- `expertRemoveDependency` keeps the invariant -/
theorem expertRemoveDependency_ok (fuel n dep : Nat) (s s' : State) (hN : NecWF s)
    (hd : s.cfg.debug = true) (hr : (expertRemoveDependency fuel n dep).run.run s = (.ok (), s')) :
    NecWF s' ∧ s'.cfg.debug = true :=
  NP.run (fun v => expertRemoveDependency_v v fuel n dep) s s' () hN hd hr

/-! ## helpers for concrete examples -/

/-- a run whose outcome is (checked by evaluation to be) `ok a` -/
theorem run_ok_of {α} [DecidableEq α] (x : M α) (s : State) (a : α)
    (h : (match (x.run.run s).1 with | .ok b => decide (b = a) | .error _ => false) = true) :
    x.run.run s = (.ok a, (x.run.run s).2) := by
  rcases hr : x.run.run s with ⟨r, s'⟩
  rw [hr] at h
  cases r with
  | error e => simp at h
  | ok b => simp at h; rw [h]

theorem good_of_run {α} {x : M α} {s s' : State} {a : α} (hg : Good s)
    (hn : NecWF s' ∧ s'.cfg.debug = true) (hh : Pres .debug x) (hr : x.run.run s = (.ok a, s')) : Good s' := by
  have := hh.run s ((HWF_debug_iff s).2 ⟨hg.2.1, hg.2.2⟩)
  rw [hr] at this
  exact ⟨hn.1, ((HWF_debug_iff s').1 this).1, hn.2⟩

theorem Good.withStatus {s : State} (h : Good s) (st : Status) : Good { s with status := st } :=
  ⟨⟨h.1.e1, h.1.e2, h.1.e3, h.1.e4, h.1.kinds⟩, ⟨h.2.1.mem, h.2.1.nodup, h.2.1.length, h.2.1.range⟩, h.2.2⟩

theorem Good.withObservers {s : State} (h : Good s) (obs : Array ObsRec) (no : List Nat) :
    Good { s with observers := obs, newObservers := no } :=
  ⟨⟨h.1.e1, h.1.e2, h.1.e3, h.1.e4, h.1.kinds⟩, ⟨h.2.1.mem, h.2.1.nodup, h.2.1.length, h.2.1.range⟩, h.2.2⟩

end IncrVerif.Proofs.Nec
