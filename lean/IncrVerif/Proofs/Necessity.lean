import IncrVerif.Proofs.Poison
import Std.Do
import Std.Tactic.Do
import Lean

namespace IncrVerif.Proofs.Nec
open IncrVerif.Engine Std.Do

set_option mvcgen.warning false

attribute [-spec] IncrVerif.Proofs.rchInsert_spec
  IncrVerif.Proofs.rchRemove_spec
  IncrVerif.Proofs.rchMinHeight_spec
  IncrVerif.Proofs.rchIncreaseHeight_spec
  IncrVerif.Proofs.rchRemoveMin_spec
  IncrVerif.Proofs.modNode_spec
  IncrVerif.Proofs.logEv_spec
  IncrVerif.Proofs.tick_spec
  IncrVerif.Proofs.modBind_spec
  IncrVerif.Proofs.modExpert_spec
  IncrVerif.Proofs.modObs_spec
  IncrVerif.Proofs.modVar_spec
  IncrVerif.Proofs.bumpCounter_spec
  IncrVerif.Proofs.setHeight_spec
  IncrVerif.Proofs.addParent_spec
  IncrVerif.Proofs.removeParent_spec
  IncrVerif.Proofs.handleAfterStabilisation_spec
  IncrVerif.Proofs.maybeHandleAfterStabilisation_spec
  IncrVerif.Proofs.assertM_spec
  IncrVerif.Proofs.dassert_spec
  IncrVerif.Proofs.getNode_spec
  IncrVerif.Proofs.getBind_spec
  IncrVerif.Proofs.getExpert_spec
  IncrVerif.Proofs.getVar_spec
  IncrVerif.Proofs.getObs_spec
  IncrVerif.Proofs.scopeHeight_spec
  IncrVerif.Proofs.scopeIsNecessary_spec
  IncrVerif.Proofs.scopeIsValid_spec
  IncrVerif.Proofs.isConstant_spec
  IncrVerif.Proofs.resolveOpnd_spec
  IncrVerif.Proofs.expertOf_spec
  IncrVerif.Proofs.expertIdxRaw_spec
  IncrVerif.Proofs.valueUnwrap_spec
  IncrVerif.Proofs.assertRunningIsChild_spec
  IncrVerif.Proofs.createNode_spec
  IncrVerif.Proofs.createVar_spec
  IncrVerif.Proofs.createBind_spec
  IncrVerif.Proofs.ahhAddUnlessMem_spec
  IncrVerif.Proofs.ahhRemoveMin_spec
  IncrVerif.Proofs.ensureHeightRequirement_spec
  IncrVerif.Proofs.shouldCutoff_spec
  IncrVerif.Proofs.edgeOnChange_spec
  IncrVerif.Proofs.runEdgeCallback_spec
  IncrVerif.Proofs.observabilityChange_spec
  IncrVerif.Proofs.becameUnnecessary_spec
  IncrVerif.Proofs.checkIfUnnecessary_spec
  IncrVerif.Proofs.removeChildren_spec
  IncrVerif.Proofs.invalidateNode_spec
  IncrVerif.Proofs.propagateInvalidity_spec
  IncrVerif.Proofs.adjustHeightsLoop_spec
  IncrVerif.Proofs.adjustHeights_spec
  IncrVerif.Proofs.markMapRefUnknown_spec
  IncrVerif.Proofs.becameNecessary_spec
  IncrVerif.Proofs.addParentWithoutAdjustingHeights_spec
  IncrVerif.Proofs.becameNecessaryPropagate_spec
  IncrVerif.Proofs.stateAddParent_spec
  IncrVerif.Proofs.changeChildBindRhs_spec
  IncrVerif.Proofs.mapM_spec
  IncrVerif.Proofs.mapConst_spec
  IncrVerif.Proofs.expertMakeStale_spec
  IncrVerif.Proofs.expertAddDependency_spec
  IncrVerif.Proofs.swapEdgeIndices_spec
  IncrVerif.Proofs.expertRemoveDependency_spec
  IncrVerif.Proofs.expertInvalidate_spec
  IncrVerif.Proofs.elabInstr_spec
  IncrVerif.Proofs.elabTemplateBase_spec
  IncrVerif.Proofs.memoCall_spec
  IncrVerif.Proofs.elabInstrM_spec
  IncrVerif.Proofs.elabTemplate_spec
  IncrVerif.Proofs.didSetVarWhileNotStabilising_spec
  IncrVerif.Proofs.writeVar_spec
  IncrVerif.Proofs.disallowFutureUse_spec
  IncrVerif.Proofs.subscribe_spec
  IncrVerif.Proofs.unsubscribe_spec
  IncrVerif.Proofs.runEffectBasic_spec
  IncrVerif.Proofs.childChanged_spec
  IncrVerif.Proofs.parentIterCanRecomputeNow_spec
  IncrVerif.Proofs.maybeChangeValueManual_spec
  IncrVerif.Proofs.maybeChangeValue_spec
  IncrVerif.Proofs.runEffects_spec
  IncrVerif.Proofs.expertValue_spec
  IncrVerif.Proofs.withOldEvents_spec
  IncrVerif.Proofs.perKeyDriver_spec
  IncrVerif.Proofs.recomputeOne_spec
  IncrVerif.Proofs.recompute_spec
  IncrVerif.Proofs.addNewObservers_spec
  IncrVerif.Proofs.unlinkDisallowedObservers_spec
  IncrVerif.Proofs.runAll_spec
  IncrVerif.Proofs.stabiliseEnd_spec
  IncrVerif.Proofs.drainHeap_spec
  IncrVerif.Proofs.stabilise_spec
  IncrVerif.Proofs.setMaxHeightAllowed_spec
  IncrVerif.Proofs.Poison.assertM_fr
  IncrVerif.Proofs.Poison.dassert_fr
  IncrVerif.Proofs.Poison.logEv_fr
  IncrVerif.Proofs.Poison.tick_fr
  IncrVerif.Proofs.Poison.getNode_fr
  IncrVerif.Proofs.Poison.modNode_fr
  IncrVerif.Proofs.Poison.getBind_fr
  IncrVerif.Proofs.Poison.modBind_fr
  IncrVerif.Proofs.Poison.getExpert_fr
  IncrVerif.Proofs.Poison.modExpert_fr
  IncrVerif.Proofs.Poison.getVar_fr
  IncrVerif.Proofs.Poison.modVar_fr
  IncrVerif.Proofs.Poison.getObs_fr
  IncrVerif.Proofs.Poison.modObs_fr
  IncrVerif.Proofs.Poison.bumpCounter_fr
  IncrVerif.Proofs.Poison.scopeHeight_fr
  IncrVerif.Proofs.Poison.scopeIsNecessary_fr
  IncrVerif.Proofs.Poison.scopeIsValid_fr
  IncrVerif.Proofs.Poison.rchLink_fr
  IncrVerif.Proofs.Poison.rchUnlink_fr
  IncrVerif.Proofs.Poison.rchInsert_fr
  IncrVerif.Proofs.Poison.rchRemove_fr
  IncrVerif.Proofs.Poison.rchMinHeight_fr
  IncrVerif.Proofs.Poison.rchIncreaseHeight_fr
  IncrVerif.Proofs.Poison.rchRemoveMin_fr
  IncrVerif.Proofs.Poison.setHeight_fr
  IncrVerif.Proofs.Poison.ahhAddUnlessMem_fr
  IncrVerif.Proofs.Poison.ahhRemoveMin_fr
  IncrVerif.Proofs.Poison.ensureHeightRequirement_fr
  IncrVerif.Proofs.Poison.adjustHeightsLoop_fr
  IncrVerif.Proofs.Poison.adjustHeights_fr
  IncrVerif.Proofs.Poison.addParent_fr
  IncrVerif.Proofs.Poison.removeParent_fr
  IncrVerif.Proofs.Poison.handleAfterStabilisation_fr
  IncrVerif.Proofs.Poison.maybeHandleAfterStabilisation_fr
  IncrVerif.Proofs.Poison.shouldCutoff_fr
  IncrVerif.Proofs.Poison.edgeOnChange_fr
  IncrVerif.Proofs.Poison.runEdgeCallback_fr
  IncrVerif.Proofs.Poison.observabilityChange_fr
  IncrVerif.Proofs.Poison.markMapRefUnknown_fr
  IncrVerif.Proofs.Poison.becameNecessary_fr
  IncrVerif.Proofs.Poison.addParentWithoutAdjustingHeights_fr
  IncrVerif.Proofs.Poison.becameUnnecessary_fr
  IncrVerif.Proofs.Poison.checkIfUnnecessary_fr
  IncrVerif.Proofs.Poison.removeChildren_fr
  IncrVerif.Proofs.Poison.invalidateNode_fr
  IncrVerif.Proofs.Poison.propagateInvalidity_fr
  IncrVerif.Proofs.Poison.becameNecessaryPropagate_fr
  IncrVerif.Proofs.Poison.stateAddParent_fr
  IncrVerif.Proofs.Poison.changeChildBindRhs_fr
  IncrVerif.Proofs.Poison.assertRunningIsChild_fr
  IncrVerif.Proofs.Poison.expertOf_fr
  IncrVerif.Proofs.Poison.expertIdxRaw_fr
  IncrVerif.Proofs.Poison.expertMakeStale_fr
  IncrVerif.Proofs.Poison.expertAddDependency_fr
  IncrVerif.Proofs.Poison.swapEdgeIndices_fr
  IncrVerif.Proofs.Poison.expertRemoveDependency_fr
  IncrVerif.Proofs.Poison.expertInvalidate_fr
  IncrVerif.Proofs.Poison.mapM_fr
  IncrVerif.Proofs.Poison.mapConst_fr
  IncrVerif.Proofs.Poison.createNode_fr
  IncrVerif.Proofs.Poison.createVar_fr
  IncrVerif.Proofs.Poison.createBind_fr
  IncrVerif.Proofs.Poison.isConstant_fr
  IncrVerif.Proofs.Poison.resolveOpnd_fr
  IncrVerif.Proofs.Poison.elabInstr_fr
  IncrVerif.Proofs.Poison.elabTemplateBase_fr
  IncrVerif.Proofs.Poison.memoCall_fr
  IncrVerif.Proofs.Poison.elabInstrM_fr
  IncrVerif.Proofs.Poison.elabTemplate_fr
  IncrVerif.Proofs.Poison.didSetVarWhileNotStabilising_fr
  IncrVerif.Proofs.Poison.writeVar_fr
  IncrVerif.Proofs.Poison.disallowFutureUse_fr
  IncrVerif.Proofs.Poison.subscribe_fr
  IncrVerif.Proofs.Poison.unsubscribe_fr
  IncrVerif.Proofs.Poison.runEffectBasic_fr
  IncrVerif.Proofs.Poison.valueUnwrap_fr
  IncrVerif.Proofs.Poison.childChanged_fr
  IncrVerif.Proofs.Poison.parentIterCanRecomputeNow_fr
  IncrVerif.Proofs.Poison.maybeChangeValueManual_fr
  IncrVerif.Proofs.Poison.maybeChangeValue_fr
  IncrVerif.Proofs.Poison.runEffects_fr
  IncrVerif.Proofs.Poison.expertValue_fr
  IncrVerif.Proofs.Poison.withOldEvents_fr
  IncrVerif.Proofs.Poison.perKeyDriver_fr
  IncrVerif.Proofs.Poison.recomputeOne_fr
  IncrVerif.Proofs.Poison.recompute_fr
  IncrVerif.Proofs.Poison.addNewObservers_fr
  IncrVerif.Proofs.Poison.unlinkDisallowedObservers_fr
  IncrVerif.Proofs.Poison.runAll_fr
  IncrVerif.Proofs.Poison.drainHeap_fr
  IncrVerif.Proofs.Poison.setMaxHeightAllowed_fr
  IncrVerif.Proofs.Poison.assertM_vs
  IncrVerif.Proofs.Poison.dassert_vs
  IncrVerif.Proofs.Poison.getNode_vs
  IncrVerif.Proofs.Poison.modNode_vs
  IncrVerif.Proofs.Poison.getBind_vs
  IncrVerif.Proofs.Poison.modBind_vs
  IncrVerif.Proofs.Poison.getExpert_vs
  IncrVerif.Proofs.Poison.modExpert_vs
  IncrVerif.Proofs.Poison.getObs_vs
  IncrVerif.Proofs.Poison.modObs_vs
  IncrVerif.Proofs.Poison.getVar_vs
  IncrVerif.Proofs.Poison.modVar_vs
  IncrVerif.Proofs.Poison.bumpCounter_vs
  IncrVerif.Proofs.Poison.handleAfterStabilisation_vs
  IncrVerif.Proofs.Poison.resolveOpnd_vs
  IncrVerif.Proofs.Poison.isConstant_vs
  IncrVerif.Proofs.Poison.createNode_vs
  IncrVerif.Proofs.Poison.createVar_vs
  IncrVerif.Proofs.Poison.createBind_vs
  IncrVerif.Proofs.Poison.mapM_vs

open Lean Elab Tactic Meta in
/-- split every conjunction among the hypotheses -/
elab "split_ands" : tactic => do
  for _ in [0:200] do
    let g ← getMainGoal
    let found ← g.withContext do
      let mut r : Option FVarId := none
      for d in (← getLCtx) do
        if d.isImplementationDetail then continue
        let t ← instantiateMVars d.type
        if t.isAppOfArity ``And 2 then r := some d.fvarId
      return r
    match found with
    | none => break
    | some fv =>
      let gs ← g.cases fv
      replaceMainGoal (gs.toList.map (·.mvarId))

/-! ## the view: what the necessity invariant reads of a state -/

/-- the fields of a node the invariant reads; `base` = "has an observer or is forced necessary" -/
structure RNode where
  parents : List (Nat × Nat)
  base : Bool
  valid : Bool
  inRch : Bool
  kind : Kind

def RNode.nec (r : RNode) : Bool := !r.parents.isEmpty || r.base

def rel (nd : Node) : RNode :=
  ⟨nd.parents, !nd.observers.isEmpty || nd.forceNecessary, nd.valid, nd.inRch, nd.kind⟩

theorem rel_nec (nd : Node) : (rel nd).nec = nd.isNecessary := by
  simp [rel, RNode.nec, Node.isNecessary, Bool.or_assoc]

structure View where
  size : Nat
  nb : Nat
  ne : Nat
  rn : Nat → RNode
  ch : Nat → List Nat
  bmain : Nat → Option Nat
  debug : Bool

/-- children of a node as a function of its (valid) kind and the bind / expert tables -/
def chK (k : Option Kind) (binds : Array BindRec) (experts : Array ExpertRec) : List Nat :=
  match k with
  | none => []
  | some (.const _) => []
  | some (.var _) => []
  | some (.map _ args) => args
  | some (.mapRef _ i) => [i]
  | some (.mapWithOld _ i) => [i]
  | some (.fold _ _ cs) => cs
  | some (.bindLhsChange b) => match binds[b]? with
    | some br => [br.lhs]
    | none => []
  | some (.bindMain b lc) => match binds[b]? with
    | some br => lc :: (match br.rhs with | some r => [r] | none => [])
    | none => [lc]
  | some (.expert e) => match experts[e]? with
    | some er => er.children.map (·.child)
    | none => []

theorem children_eq (s : State) (n : Nat) :
    s.children n = chK (s.nodeD n).kind? s.binds s.experts := by
  unfold State.children chK
  rfl

def nodeAt (nodes : Array Node) (m : Nat) : Node := nodes[m]?.getD default

def mkView (nodes : Array Node) (binds : Array BindRec) (experts : Array ExpertRec) (dbg : Bool) : View :=
  { size := nodes.size, nb := binds.size, ne := experts.size
    rn := fun m => rel (nodeAt nodes m)
    ch := fun m => chK (nodeAt nodes m).kind? binds experts
    bmain := fun b => binds[b]?.map (·.main)
    debug := dbg }

def viewOf (s : State) : View := mkView s.nodes s.binds s.experts s.cfg.debug

theorem viewOf_rn (s : State) (m : Nat) : (viewOf s).rn m = rel (s.nodeD m) := rfl
theorem viewOf_ch (s : State) (m : Nat) : (viewOf s).ch m = s.children m := (children_eq s m).symm
theorem viewOf_nec (s : State) (m : Nat) : ((viewOf s).rn m).nec = s.isNecessary m := rel_nec _
theorem viewOf_valid (s : State) (m : Nat) : ((viewOf s).rn m).valid = (s.nodeD m).valid := rfl
theorem viewOf_inRch (s : State) (m : Nat) : ((viewOf s).rn m).inRch = (s.nodeD m).inRch := rfl
theorem viewOf_parents (s : State) (m : Nat) : ((viewOf s).rn m).parents = (s.nodeD m).parents := rfl
theorem viewOf_debug (s : State) : (viewOf s).debug = s.cfg.debug := rfl
theorem viewOf_size (s : State) : (viewOf s).size = s.nodes.size := rfl

theorem nodeAt_modify (nodes : Array Node) (n m : Nat) (f : Node → Node) :
    nodeAt (nodes.modify n f) m = if n = m ∧ m < nodes.size then f (nodeAt nodes m) else nodeAt nodes m := by
  simp only [nodeAt, Array.getElem?_modify]
  by_cases h : n = m
  · subst h
    by_cases h2 : n < nodes.size
    · simp [h2]
    · simp [h2, Array.getElem?_eq_none (Nat.le_of_not_lt h2)]
  · simp [h]

theorem nodeAt_of_le (nodes : Array Node) (m : Nat) (h : nodes.size ≤ m) : nodeAt nodes m = default := by
  simp [nodeAt, Array.getElem?_eq_none h]

theorem nodeAt_of_getElem? {nodes : Array Node} {m : Nat} {nd : Node} (h : nodes[m]? = some nd) :
    nodeAt nodes m = nd := by simp [nodeAt, h]

/-- a node update that leaves the fields read by the invariant alone -/
abbrev NodeFrame (f : Node → Node) : Prop := ∀ x, rel (f x) = rel x

theorem NodeFrame.kind? {f : Node → Node} (hf : NodeFrame f) (x : Node) : (f x).kind? = x.kind? := by
  have := hf x
  simp only [rel, RNode.mk.injEq] at this
  simp [Node.kind?, this.2.2.1, this.2.2.2.2]

theorem mkView_modify_frame (nodes : Array Node) (binds experts dbg) (n : Nat) (f : Node → Node)
    (hf : NodeFrame f) : mkView (nodes.modify n f) binds experts dbg = mkView nodes binds experts dbg := by
  simp only [mkView, Array.size_modify, View.mk.injEq, true_and, and_true]
  constructor
  · funext m
    rw [nodeAt_modify]; split
    · exact hf _
    · rfl
  · funext m
    rw [nodeAt_modify]; split
    · rw [hf.kind?]
    · rfl


theorem chK_binds_congr (k : Option Kind) (binds binds' : Array BindRec) (experts : Array ExpertRec)
    (h : ∀ b : Nat, (binds'[b]?.map fun (r : BindRec) => (r.lhs, r.rhs)) = (binds[b]?.map fun (r : BindRec) => (r.lhs, r.rhs))) :
    chK k binds' experts = chK k binds experts := by
  cases k with
  | none => rfl
  | some kd =>
    cases kd <;> try rfl
    · rename_i b
      have := h b
      simp only [chK]
      cases h1 : binds'[b]? <;> cases h2 : binds[b]? <;> simp_all
    · rename_i b lc
      have := h b
      simp only [chK]
      cases h1 : binds'[b]? <;> cases h2 : binds[b]? <;> simp_all

theorem mkView_binds_frame (nodes : Array Node) (binds binds' : Array BindRec) (experts dbg)
    (hsz : binds'.size = binds.size)
    (h : ∀ b : Nat, (binds'[b]?.map fun (r : BindRec) => (r.lhs, r.rhs, r.main)) =
      (binds[b]?.map fun (r : BindRec) => (r.lhs, r.rhs, r.main))) :
    mkView nodes binds' experts dbg = mkView nodes binds experts dbg := by
  simp only [mkView, hsz, View.mk.injEq, true_and, and_true]
  constructor
  · funext m
    apply chK_binds_congr
    intro b
    have := h b
    cases h1 : binds'[b]? <;> cases h2 : binds[b]? <;> simp_all
  · funext b
    have := h b
    cases h1 : binds'[b]? <;> cases h2 : binds[b]? <;> simp_all

theorem mkView_modBind_frame (nodes : Array Node) (binds : Array BindRec) (experts dbg) (b : Nat)
    (f : BindRec → BindRec) (hf : ∀ x, (f x).lhs = x.lhs ∧ (f x).rhs = x.rhs ∧ (f x).main = x.main) :
    mkView nodes (binds.modify b f) experts dbg = mkView nodes binds experts dbg := by
  apply mkView_binds_frame
  · simp
  · intro b'
    simp only [Array.getElem?_modify]
    split
    · cases binds[b']? <;> simp [hf]
    · rfl

theorem chK_experts_congr (k : Option Kind) (binds : Array BindRec) (experts experts' : Array ExpertRec)
    (h : ∀ e : Nat, (experts'[e]?.map fun (r : ExpertRec) => r.children.map (·.child)) =
      (experts[e]?.map fun (r : ExpertRec) => r.children.map (·.child))) :
    chK k binds experts' = chK k binds experts := by
  cases k with
  | none => rfl
  | some kd =>
    cases kd <;> try rfl
    rename_i e
    have := h e
    simp only [chK]
    cases h1 : experts'[e]? <;> cases h2 : experts[e]? <;> simp_all

theorem mkView_modExpert_frame (nodes : Array Node) (binds : Array BindRec) (experts : Array ExpertRec)
    (dbg) (e : Nat) (f : ExpertRec → ExpertRec) (hf : ∀ x, (f x).children = x.children) :
    mkView nodes binds (experts.modify e f) dbg = mkView nodes binds experts dbg := by
  simp only [mkView, Array.size_modify, View.mk.injEq, true_and, and_true]
  funext m
  apply chK_experts_congr
  intro e'
  simp only [Array.getElem?_modify]
  split
  · cases experts[e']? <;> simp [hf]
  · rfl

/-! ## triples over views -/

/-- `x` does not change the view -/
abbrev VF {α} (v : View) (x : M α) : Prop :=
  ⦃fun s => ⌜viewOf s = v⌝⦄ x ⦃post⟨fun _ s => ⌜viewOf s = v⌝, fun _ _ => ⌜True⌝⟩⦄

attribute [spec] IncrVerif.Engine.panic

section prims
variable (v : View)

@[spec] theorem assertM_v (c : Bool) (site : String) :
    ⦃fun s => ⌜viewOf s = v⌝⦄ assertM c site ⦃post⟨fun _ s => ⌜viewOf s = v ∧ c = true⌝, fun _ _ => ⌜True⌝⟩⦄ := by
  mvcgen [assertM]

@[spec] theorem dassert_v (c : Bool) (site : String) :
    ⦃fun s => ⌜viewOf s = v⌝⦄ dassert c site
    ⦃post⟨fun _ s => ⌜viewOf s = v ∧ (v.debug = true → c = true)⌝, fun _ _ => ⌜True⌝⟩⦄ := by
  mvcgen [dassert]
  · rename_i s h hc
    subst h
    refine ⟨rfl, fun hd => ?_⟩
    simp [viewOf_debug] at hd
    simpa [hd] using hc

@[spec] theorem logEv_v (e : Event) : VF v (logEv e) := by
  mvcgen [logEv]
@[spec] theorem tick_v : VF v tick := by
  mvcgen [tick]
@[spec] theorem bumpCounter_v (f : Counters → Counters) : VF v (bumpCounter f) := by
  mvcgen [bumpCounter]
@[spec] theorem modVar_v (n : Nat) (f : VarCell → VarCell) : VF v (modVar n f) := by
  mvcgen [modVar]
@[spec] theorem modObs_v (n : Nat) (f : ObsRec → ObsRec) : VF v (modObs n f) := by
  mvcgen [modObs]

@[spec] theorem getNode_v (n : Nat) :
    ⦃fun s => ⌜viewOf s = v⌝⦄ getNode n
    ⦃post⟨fun nd s => ⌜viewOf s = v ∧ rel nd = v.rn n ∧ n < v.size⌝, fun _ _ => ⌜True⌝⟩⦄ := by
  mvcgen [getNode]
  rename_i s h nd hnd
  subst h
  refine ⟨rfl, ?_, (Array.getElem?_eq_some_iff.1 hnd).1⟩
  simp [viewOf, mkView, nodeAt, hnd]

@[spec] theorem getBind_v (b : Nat) :
    ⦃fun s => ⌜viewOf s = v⌝⦄ getBind b
    ⦃post⟨fun br s => ⌜viewOf s = v ∧ s.binds[b]? = some br⌝, fun _ _ => ⌜True⌝⟩⦄ := by
  mvcgen [getBind]

@[spec] theorem getExpert_v (e : Nat) :
    ⦃fun s => ⌜viewOf s = v⌝⦄ getExpert e
    ⦃post⟨fun er s => ⌜viewOf s = v ∧ s.experts[e]? = some er⌝, fun _ _ => ⌜True⌝⟩⦄ := by
  mvcgen [getExpert]

@[spec] theorem getVar_v (n : Nat) : VF v (getVar n) := by
  mvcgen [getVar]
@[spec] theorem getObs_v (n : Nat) : VF v (getObs n) := by
  mvcgen [getObs]

@[spec] theorem modNode_v (n : Nat) (f : Node → Node) (hf : NodeFrame f) : VF v (modNode n f) := by
  mvcgen [modNode]
  rename_i s h _
  rw [← h]
  exact mkView_modify_frame _ _ _ _ _ _ hf

@[spec] theorem modBind_v (b : Nat) (f : BindRec → BindRec)
    (hf : ∀ x, (f x).lhs = x.lhs ∧ (f x).rhs = x.rhs ∧ (f x).main = x.main) : VF v (modBind b f) := by
  mvcgen [modBind]
  rename_i s h _
  rw [← h]
  exact mkView_modBind_frame _ _ _ _ _ _ hf

@[spec] theorem modExpert_v (e : Nat) (f : ExpertRec → ExpertRec)
    (hf : ∀ x, (f x).children = x.children) : VF v (modExpert e f) := by
  mvcgen [modExpert]
  rename_i s h _
  rw [← h]
  exact mkView_modExpert_frame _ _ _ _ _ _ hf

end prims


/-! ## loop rule over views -/

theorem forIn_view {α β} (l : List α) (init : β) (f : α → β → M (ForInStep β))
    (Inv : List α → View → List α → β → View → Prop)
    (hstep : ∀ (done : List α) (a : α) (rest : List α) (b : β) (v : View), l = done ++ a :: rest →
       ⦃fun s => ⌜viewOf s = v⌝⦄ f a b
       ⦃post⟨fun r s => ⌜(∃ b', r = .yield b') ∧
          ∀ v0 b', r = .yield b' → Inv l v0 done b v → Inv l v0 (done ++ [a]) b' (viewOf s)⌝,
          fun _ _ => ⌜True⌝⟩⦄)
    (v : View) :
    ⦃fun s => ⌜viewOf s = v⌝⦄ forIn l init f
    ⦃post⟨fun b s => ⌜∀ v0, Inv l v0 [] init v → Inv l v0 l b (viewOf s)⌝, fun _ _ => ⌜True⌝⟩⦄ := by
  suffices h : ∀ (rest done : List α) (b : β) (v : View), l = done ++ rest →
      ⦃fun s => ⌜viewOf s = v⌝⦄ forIn rest b f
      ⦃post⟨fun b' s => ⌜∀ v0, Inv l v0 done b v → Inv l v0 l b' (viewOf s)⌝, fun _ _ => ⌜True⌝⟩⦄ by
    exact h l [] init v rfl
  intro rest
  induction rest with
  | nil =>
    intro done b v hl
    simp only [List.forIn_nil]
    mvcgen
    rename_i s h
    intro v0 hinv
    simp only [List.append_nil] at hl
    subst hl
    rw [h]; exact hinv
  | cons a rest ih =>
    intro done b v hl
    rw [List.forIn_cons]
    have h1 := hstep done a rest b v hl
    have h2 := fun b' v' => ih (done ++ [a]) b' v' (by simp [hl])
    mvcgen [h1, h2]
    · rename_i hh
      obtain ⟨⟨b', hb'⟩, -⟩ := hh
      cases hb'
    · intro hh2 v0 hinv
      rename_i hh _ _
      exact hh2 v0 (hh.2 v0 _ rfl hinv)


/-! ## view updates -/

def View.setRn (v : View) (n : Nat) (r : RNode) : View :=
  { v with rn := fun m => if m = n then r else v.rn m }

theorem mkView_modify_setRn (nodes : Array Node) (binds experts dbg) (n : Nat) (f : Node → Node)
    (hn : n < nodes.size) (hk : (f (nodeAt nodes n)).kind? = (nodeAt nodes n).kind?) :
    mkView (nodes.modify n f) binds experts dbg
      = (mkView nodes binds experts dbg).setRn n (rel (f (nodeAt nodes n))) := by
  simp only [mkView, View.setRn, Array.size_modify, View.mk.injEq, true_and, and_true]
  constructor
  · funext m
    rw [nodeAt_modify]
    by_cases h : n = m
    · subst h; simp [hn]
    · have : ¬ m = n := fun e => h e.symm
      simp [h, this]
  · funext m
    rw [nodeAt_modify]; split
    · rename_i h; rw [← h.1, hk]
    · rfl

def View.setInRch (v : View) (n : Nat) (b : Bool) : View := v.setRn n { v.rn n with inRch := b }
def View.setParents (v : View) (n : Nat) (l : List (Nat × Nat)) : View := v.setRn n { v.rn n with parents := l }

/-! ## `swapRemove` -/

theorem swapRemove_spec {α} [BEq α] [LawfulBEq α] (q : List α) (x : α) (idx : Nat) (hnd : q.Nodup)
    (hidx : q.idxOf? x = some idx) :
    (∀ m, m ∈ swapRemove q idx ↔ (m ∈ q ∧ m ≠ x)) ∧ (swapRemove q idx).Nodup := by
  rw [List.idxOf?_eq_some_iff] at hidx
  obtain ⟨hlt, hget, -⟩ := hidx
  unfold swapRemove
  cases hl : q.getLast? with
  | none =>
    rw [List.getLast?_eq_none_iff] at hl
    subst hl; simp at hlt
  | some last =>
    rw [List.getLast?_eq_some_iff] at hl
    obtain ⟨ys, rfl⟩ := hl
    have hlen : (ys ++ [last]).length = ys.length + 1 := by simp
    by_cases hc : idx = ys.length
    · subst hc
      simp at hget
      subst hget
      simp [List.nodup_append] at hnd ⊢
      refine ⟨fun m => ?_, hnd.1⟩
      constructor
      · intro hm; exact ⟨Or.inl hm, hnd.2 m hm⟩
      · rintro ⟨h1 | h1, h2⟩
        · exact h1
        · exact absurd h1 h2
    · have hlt' : idx < ys.length := by omega
      rw [List.getElem_append_left hlt'] at hget
      have hys : ys = ys.take idx ++ x :: ys.drop (idx + 1) := by
        rw [← hget]; simp
      have hset : (ys ++ [last]).set idx last = (ys.take idx ++ last :: ys.drop (idx + 1)) ++ [last] := by
        rw [List.set_append, if_pos hlt', List.set_eq_take_append_cons_drop, if_pos hlt']
      have hne : (idx + 1 == (ys ++ [last]).length) = false := by
        simp; omega
      simp only [hne, hset, List.dropLast_concat]
      generalize ys.take idx = A at *
      generalize ys.drop (idx+1) = B at *
      subst hys
      simp [List.nodup_append] at hnd ⊢
      grind

/-! ## primitives that change the view -/

section prims2
variable (v : View)

macro "nf_triv" : tactic =>
  `(tactic| first
    | assumption
    | (intro x; rfl)
    | (intro x; exact ⟨rfl, rfl, rfl⟩)
    | (intros; trivial)
    | (intros; rfl))

@[spec] theorem setHeight_v (n : Nat) (h : Int) : VF v (setHeight n h) := by
  mvcgen [setHeight]
  all_goals nf_triv

@[spec] theorem handleAfterStabilisation_v (n : Nat) : VF v (handleAfterStabilisation n) := by
  mvcgen [handleAfterStabilisation]
  all_goals first | nf_triv | simp_all
  rename_i h
  exact h

@[spec] theorem maybeHandleAfterStabilisation_v (n : Nat) : VF v (maybeHandleAfterStabilisation n) := by
  mvcgen [maybeHandleAfterStabilisation]
  all_goals first | nf_triv | simp_all

theorem viewOf_modify_rel (s : State) (n : Nat) (f : Node → Node) (g : RNode → RNode)
    (hn : n < s.nodes.size) (hg : ∀ x, rel (f x) = g (rel x)) (hk : ∀ x, (f x).kind? = x.kind?) :
    viewOf { s with nodes := s.nodes.modify n f } = (viewOf s).setRn n (g ((viewOf s).rn n)) := by
  have := mkView_modify_setRn s.nodes s.binds s.experts s.cfg.debug n f hn (hk _)
  rw [hg] at this
  exact this

theorem modify_of_le {α} (a : Array α) (n : Nat) (f : α → α) (h : a.size ≤ n) : a.modify n f = a := by
  apply Array.ext
  · simp
  · intro j h1 h2
    rw [Array.getElem_modify]
    have : n ≠ j := by
      intro e; subst e; exact absurd h2 (Nat.not_lt.2 h)
    simp [this]

@[spec] theorem addParent_v (c i p : Nat) :
    ⦃fun s => ⌜viewOf s = v⌝⦄ addParent c i p
    ⦃post⟨fun _ s => ⌜(c < v.size → viewOf s = v.setParents c ((v.rn c).parents ++ [(p, i)])) ∧
        (v.size ≤ c → viewOf s = v)⌝, fun _ _ => ⌜True⌝⟩⦄ := by
  mvcgen [addParent, -modNode_v, modNode]
  rename_i s h _
  subst h
  constructor
  · intro hc
    exact viewOf_modify_rel s c _ (fun r => { r with parents := r.parents ++ [(p, i)] }) hc
      (fun _ => rfl) (fun _ => rfl)
  · intro hc
    have := modify_of_le s.nodes c (fun x => { x with parents := x.parents ++ [(p, i)] }) hc
    simp +zetaDelta only [viewOf, this]

@[spec] theorem removeParent_v (c i p : Nat) :
    ⦃fun s => ⌜viewOf s = v⌝⦄ removeParent c i p
    ⦃post⟨fun _ s => ⌜∃ pi, (v.rn c).parents.idxOf? (p, i) = some pi ∧ c < v.size ∧
        viewOf s = v.setParents c (swapRemove (v.rn c).parents pi)⌝, fun _ _ => ⌜True⌝⟩⦄ := by
  mvcgen [removeParent, -modNode_v, modNode]
  rename_i s1 h1 nd pi hpi s h t
  obtain ⟨h2, h3, h4⟩ := h
  subst h1
  refine ⟨pi, ?_, h4, ?_⟩
  · rw [← h3]; exact hpi
  · have hc : c < s.nodes.size := by rw [← h2] at h4; exact h4
    have := viewOf_modify_rel s c (fun x => { x with parents := swapRemove x.parents pi })
      (fun r => { r with parents := swapRemove r.parents pi }) hc (fun _ => rfl) (fun _ => rfl)
    rw [h2] at this
    exact this


theorem viewOf_def (s : State) : viewOf s = mkView s.nodes s.binds s.experts s.cfg.debug := rfl

/-- normal form of view expressions: `viewOf` of a state the program built from `s` by updating fields
the view does not read is `viewOf s` -/
macro "vnorm" : tactic =>
  `(tactic| ((try simp +zetaDelta only [viewOf] at *)
             (try simp only [← viewOf_def] at *)))

theorem node_valid (nd : Node) : nd.valid = (rel nd).valid := rfl
theorem node_inRch (nd : Node) : nd.inRch = (rel nd).inRch := rfl
theorem node_parents (nd : Node) : nd.parents = (rel nd).parents := rfl
theorem node_kind (nd : Node) : nd.kind = (rel nd).kind := rfl
theorem node_nec (nd : Node) : nd.isNecessary = (rel nd).nec := (rel_nec nd).symm
theorem node_kind? (nd : Node) : nd.kind? = if (rel nd).valid = true then some (rel nd).kind else none := rfl
theorem state_nec (s : State) (n : Nat) : s.isNecessary n = ((viewOf s).rn n).nec := (viewOf_nec s n).symm
theorem state_ch (s : State) (n : Nat) : s.children n = (viewOf s).ch n := (viewOf_ch s n).symm
theorem state_debug (s : State) : s.cfg.debug = (viewOf s).debug := rfl
theorem state_size (s : State) : s.nodes.size = (viewOf s).size := rfl
theorem state_rn (s : State) (n : Nat) : rel (s.nodeD n) = (viewOf s).rn n := rfl

/-- every fact about a state or a node expressed through the view at entry -/
macro "vsimp" : tactic =>
  `(tactic| ((try simp +zetaDelta only [node_valid, node_inRch, node_parents, node_kind, node_nec, node_kind?,
               state_nec, state_ch, state_debug, state_size, state_rn, State.needsToBeComputed] at *)
             vnorm
             split_ands
             try simp_all only [true_and, and_true]))

/-- closes frame goals -/
macro "vf_triv" : tactic =>
  `(tactic| first
    | assumption
    | exact ‹viewOf _ = _›
    | exact (‹viewOf _ = _ ∧ _›).1
    | nf_triv)

@[spec] theorem rchMinHeight_v : VF v rchMinHeight := by
  mvcgen [rchMinHeight]
  all_goals vf_triv

theorem viewOf_setMarker (s : State) (n : Nat) (h : Int) (hn : n < s.nodes.size) :
    viewOf { s with nodes := s.nodes.modify n fun x => { x with heightInRch := h } }
      = (viewOf s).setInRch n (decide (h ≥ 0)) :=
  viewOf_modify_rel s n _ (fun r => { r with inRch := decide (h ≥ 0) }) hn (fun _ => rfl) (fun _ => rfl)

theorem rchLink_v (n : Nat) :
    ⦃fun s => ⌜viewOf s = v⌝⦄ rchLink n
    ⦃post⟨fun _ s => ⌜viewOf s = v.setInRch n true ∧ n < v.size⌝, fun _ _ => ⌜True⌝⟩⦄ := by
  mvcgen [rchLink, -modNode_v, modNode]
  rename_i s3 h3 nd s2 h2 _ s1 h1 _ s h t1 t
  have hn : n < s.nodes.size := by
    have := h2.2.2
    rw [← h2.1, ← h1.1, ← h.1] at this; exact this
  have e := viewOf_setMarker s n nd.height hn
  have hh : decide (nd.height ≥ 0) = true := h1.2
  rw [hh, h.1, h1.1, h2.1, h3] at e
  refine ⟨e, ?_⟩
  rw [← h3]; exact h2.2.2


theorem isStale_valid (s : State) (n : Nat) (h : s.isStale n = true) : (s.nodeD n).valid = true := by
  unfold State.isStale at h
  simp only [Node.kind?] at h
  by_cases hv : (s.nodeD n).valid = true
  · exact hv
  · simp [hv] at h

@[spec] theorem rchInsert_v (n : Nat) :
    ⦃fun s => ⌜viewOf s = v⌝⦄ rchInsert n
    ⦃post⟨fun _ s => ⌜viewOf s = v.setInRch n true ∧ n < v.size ∧
        (v.debug = true → (v.rn n).nec = true ∧ (v.rn n).valid = true)⌝, fun _ _ => ⌜True⌝⟩⦄ := by
  have hl := rchLink_v
  mvcgen [rchInsert, hl]
  all_goals vsimp
  all_goals
    intro hd
    have h := ‹v.debug = true → (!_ && (_ && _)) = true› hd
    simp only [Bool.and_eq_true] at h
    have hv := isStale_valid _ _ h.2.2
    vsimp


theorem View.setRn_self (v : View) (n : Nat) (r : RNode) (h : v.rn n = r) : v.setRn n r = v := by
  cases v
  simp only [View.setRn, View.mk.injEq, true_and, and_true]
  funext m
  split
  · rename_i e; rw [e]; exact h.symm
  · rfl

theorem View.setInRch_self (v : View) (n : Nat) (b : Bool) (h : (v.rn n).inRch = b) : v.setInRch n b = v := by
  apply View.setRn_self
  subst h; rfl

theorem viewOf_rn_of_le (s : State) (n : Nat) (h : s.nodes.size ≤ n) : (viewOf s).rn n = rel default := by
  simp [viewOf, mkView, nodeAt_of_le _ _ h]

theorem viewOf_clearMarker (s : State) (n : Nat) :
    viewOf { s with nodes := s.nodes.modify n fun x => { x with heightInRch := -1 } }
      = (viewOf s).setInRch n false := by
  by_cases hn : n < s.nodes.size
  · exact viewOf_setMarker s n (-1) hn
  · have hle : s.nodes.size ≤ n := Nat.le_of_not_lt hn
    rw [View.setInRch_self]
    · simp only [viewOf, modify_of_le _ _ _ hle]
    · rw [viewOf_rn_of_le _ _ hle]; rfl

theorem mkView_clearMarker (s : State) (n : Nat) (v : View) (h : viewOf s = v) :
    mkView (s.nodes.modify n fun x => { x with heightInRch := -1 }) s.binds s.experts s.cfg.debug
      = v.setInRch n false := by
  rw [← h]; exact viewOf_clearMarker s n

theorem rchUnlink_v (n : Nat) :
    ⦃fun s => ⌜viewOf s = v⌝⦄ rchUnlink n
    ⦃post⟨fun _ s => ⌜viewOf s = v ∧ (v.rn n).inRch = true⌝, fun _ _ => ⌜True⌝⟩⦄ := by
  mvcgen [rchUnlink]
  vsimp
  rw [← ‹rel _ = v.rn n›]
  simp only [rel, Node.inRch, decide_eq_true_eq]
  have := ‹¬ Node.heightInRch _ < 0›
  omega

@[spec] theorem rchRemove_v (n : Nat) :
    ⦃fun s => ⌜viewOf s = v⌝⦄ rchRemove n
    ⦃post⟨fun _ s => ⌜viewOf s = v.setInRch n false⌝, fun _ _ => ⌜True⌝⟩⦄ := by
  have hu := rchUnlink_v
  mvcgen [rchRemove, hu, -modNode_v, modNode]
  vnorm
  rw [mkView_clearMarker _ n _ rfl]
  vsimp

@[spec] theorem rchIncreaseHeight_v (n : Nat) : VF v (rchIncreaseHeight n) := by
  have hu := rchUnlink_v
  have hl := rchLink_v
  mvcgen [rchIncreaseHeight, hu, hl]
  vsimp
  intro _ _
  exact View.setInRch_self _ _ _ (by assumption)

@[spec] theorem rchRemoveMin_v :
    ⦃fun s => ⌜viewOf s = v⌝⦄ rchRemoveMin
    ⦃post⟨fun r s => ⌜match r with
        | none => viewOf s = v
        | some n => viewOf s = v.setInRch n false⌝, fun _ _ => ⌜True⌝⟩⦄ := by
  mvcgen [rchRemoveMin, -modNode_v, modNode]
  all_goals vnorm
  all_goals try rw [mkView_clearMarker _ _ _ rfl]
  all_goals vsimp

end prims2

/-- loop rule: a loop whose body does not change the view does not change the view -/
theorem forIn_vf {α β} (v : View) (l : List α) (init : β) (f : α → β → M (ForInStep β))
    (hf : ∀ a b v, VF v (f a b)) : VF v (forIn l init f) := by
  induction l generalizing init with
  | nil => simp only [List.forIn_nil]; mvcgen
  | cons a l ih =>
    rw [List.forIn_cons]
    have := hf a init
    mvcgen [this, ih]
    all_goals vsimp

/-- closes what `mvcgen` leaves for functions that do not change the view -/
macro "vf_fin" : tactic =>
  `(tactic| (all_goals (try vsimp); all_goals first | vf_triv | skip))

section frames
variable (v : View)

@[spec] theorem scopeHeight_v (sc : Scope) : VF v (scopeHeight sc) := by
  mvcgen [scopeHeight]
  vf_fin
@[spec] theorem scopeIsNecessary_v (sc : Scope) : VF v (scopeIsNecessary sc) := by
  mvcgen [scopeIsNecessary]
  vf_fin
@[spec] theorem scopeIsValid_v (sc : Scope) : VF v (scopeIsValid sc) := by
  mvcgen [scopeIsValid]
  vf_fin
@[spec] theorem ahhAddUnlessMem_v (n : Nat) : VF v (ahhAddUnlessMem n) := by
  mvcgen [ahhAddUnlessMem]
  vf_fin
@[spec] theorem ahhRemoveMin_v : VF v ahhRemoveMin := by
  mvcgen [ahhRemoveMin]
  vf_fin
@[spec] theorem ensureHeightRequirement_v (oc op c p : Nat) : VF v (ensureHeightRequirement oc op c p) := by
  mvcgen [ensureHeightRequirement]
  vf_fin

@[spec] theorem adjustHeightsLoop_v (oc op fuel : Nat) : VF v (adjustHeightsLoop oc op fuel) := by
  induction fuel generalizing v with
  | zero => mvcgen [adjustHeightsLoop]
  | succ fuel ih =>
    mvcgen [adjustHeightsLoop, ih, -Spec.forIn_list, forIn_vf]
    vf_fin

@[spec] theorem adjustHeights_v (oc op fuel : Nat) : VF v (adjustHeights oc op fuel) := by
  mvcgen [adjustHeights]
  vf_fin

@[spec] theorem shouldCutoff_v (env : Env) (n : Nat) (o w : Val) : VF v (shouldCutoff env n o w) := by
  mvcgen [shouldCutoff]
  vf_fin
@[spec] theorem edgeOnChange_v (env : Env) (e : Nat) (edge : ExpertEdge) : VF v (edgeOnChange env e edge) := by
  mvcgen [edgeOnChange]
  vf_fin
@[spec] theorem runEdgeCallback_v (env : Env) (e i : Nat) : VF v (runEdgeCallback env e i) := by
  mvcgen [runEdgeCallback]
  vf_fin
@[spec] theorem observabilityChange_v (e : Nat) (b : Bool) : VF v (observabilityChange e b) := by
  mvcgen [observabilityChange]
  vf_fin

@[spec] theorem markMapRefUnknown_v (fuel n : Nat) : VF v (markMapRefUnknown fuel n) := by
  induction fuel generalizing v n with
  | zero => mvcgen [markMapRefUnknown]
  | succ fuel ih =>
    mvcgen [markMapRefUnknown, ih, -Spec.forIn_list, forIn_vf]
    vf_fin

end frames

/-! ## the invariant on views -/

def HasEdge (v : View) (p : Nat) : Prop := ∃ c i, (p, i) ∈ (v.rn c).parents

/-- bind-main and expert kinds name their record injectively, the record exists, and the `main` entry of
a bind record is not the main node of another bind -/
structure KindOK (v : View) : Prop where
  bmInj : ∀ n n' b lc lc', (v.rn n).kind = .bindMain b lc → (v.rn n').kind = .bindMain b lc' → n = n'
  bmLt : ∀ n b lc, (v.rn n).kind = .bindMain b lc → b < v.nb
  exInj : ∀ n n' e, (v.rn n).kind = .expert e → (v.rn n').kind = .expert e → n = n'
  exLt : ∀ n e, (v.rn n).kind = .expert e → e < v.ne
  bmain : ∀ b m b' lc, v.bmain b = some m → (v.rn m).kind = .bindMain b' lc → b' = b
  bmOf : ∀ m b lc, (v.rn m).kind = .bindMain b lc → v.bmain b = some m

theorem KindOK.congr {v v' : View} (h : KindOK v) (hk : ∀ m, (v'.rn m).kind = (v.rn m).kind)
    (hnb : v'.nb = v.nb) (hne : v'.ne = v.ne) (hbm : v'.bmain = v.bmain) : KindOK v' := by
  refine ⟨?_, ?_, ?_, ?_, ?_, ?_⟩
  · intro n n' b lc lc' h1 h2; rw [hk] at h1 h2; exact h.bmInj n n' b lc lc' h1 h2
  · intro n b lc h1; rw [hk] at h1; rw [hnb]; exact h.bmLt n b lc h1
  · intro n n' e h1 h2; rw [hk] at h1 h2; exact h.exInj n n' e h1 h2
  · intro n e h1; rw [hk] at h1; rw [hne]; exact h.exLt n e h1
  · intro b m b' lc h1 h2; rw [hbm] at h1; rw [hk] at h2; exact h.bmain b m b' lc h1 h2
  · intro m b lc h1; rw [hk] at h1; rw [hbm]; exact h.bmOf m b lc h1

/-- the part of the invariant that holds at every point of the unlinking cascade -/
structure J (v : View) : Prop where
  dbg : v.debug = true
  e1 : ∀ c p i, (p, i) ∈ (v.rn c).parents → (v.ch p)[i]? = some c
  e3v : ∀ n, (v.rn n).inRch = true → (v.rn n).valid = true
  e4 : ∀ c, (v.rn c).parents.Nodup
  k : KindOK v
  chv : ∀ m, (v.rn m).valid = false → v.ch m = []

/-- an unnecessary node that is still recorded as a parent, or still queued -/
def Bad (v : View) (p : Nat) : Prop :=
  (v.rn p).nec = false ∧ (HasEdge v p ∨ (v.rn p).inRch = true)

/-- the invariant -/
structure NecV (v : View) : Prop extends J v where
  nobad : ∀ p, ¬ Bad v p

theorem NecV.e2 {v : View} (h : NecV v) (c p i : Nat) (hm : (p, i) ∈ (v.rn c).parents) :
    (v.rn p).nec = true := by
  cases hn : (v.rn p).nec with
  | true => rfl
  | false => exact absurd ⟨hn, Or.inl ⟨c, i, hm⟩⟩ (h.nobad p)

theorem NecV.e3 {v : View} (h : NecV v) (n : Nat) (hm : (v.rn n).inRch = true) :
    (v.rn n).nec = true ∧ (v.rn n).valid = true := by
  refine ⟨?_, h.e3v n hm⟩
  cases hn : (v.rn n).nec with
  | true => rfl
  | false => exact absurd ⟨hn, Or.inr hm⟩ (h.nobad n)

theorem NecV.of {v : View} (hj : J v) (h2 : ∀ c p i, (p, i) ∈ (v.rn c).parents → (v.rn p).nec = true)
    (h3 : ∀ n, (v.rn n).inRch = true → (v.rn n).nec = true) : NecV v := by
  refine ⟨hj, ?_⟩
  rintro p ⟨hn, ⟨c, i, hm⟩ | hq⟩
  · rw [h2 c p i hm] at hn; cases hn
  · rw [h3 p hq] at hn; cases hn

/-! ## the unlinking cascade -/

/-- what the unlinking cascade may change: parent lists shrink, queue markers are cleared -/
structure URel (v v' : View) : Prop where
  size : v'.size = v.size
  nb : v'.nb = v.nb
  ne : v'.ne = v.ne
  ch : v'.ch = v.ch
  bmain : v'.bmain = v.bmain
  debug : v'.debug = v.debug
  kind : ∀ m, (v'.rn m).kind = (v.rn m).kind
  valid : ∀ m, (v'.rn m).valid = (v.rn m).valid
  base : ∀ m, (v'.rn m).base = (v.rn m).base
  par : ∀ m x, x ∈ (v'.rn m).parents → x ∈ (v.rn m).parents
  inRch : ∀ m, (v'.rn m).inRch = true → (v.rn m).inRch = true

theorem URel.refl (v : View) : URel v v :=
  ⟨rfl, rfl, rfl, rfl, rfl, rfl, fun _ => rfl, fun _ => rfl, fun _ => rfl, fun _ _ h => h, fun _ h => h⟩

theorem URel.trans {a b c : View} (h1 : URel a b) (h2 : URel b c) : URel a c :=
  ⟨h2.size.trans h1.size, h2.nb.trans h1.nb, h2.ne.trans h1.ne, h2.ch.trans h1.ch,
   h2.bmain.trans h1.bmain, h2.debug.trans h1.debug,
   fun m => (h2.kind m).trans (h1.kind m), fun m => (h2.valid m).trans (h1.valid m),
   fun m => (h2.base m).trans (h1.base m), fun m x h => h1.par m x (h2.par m x h),
   fun m h => h1.inRch m (h2.inRch m h)⟩

theorem URel.hasEdge {v v' : View} (h : URel v v') {p : Nat} (he : HasEdge v' p) : HasEdge v p := by
  obtain ⟨c, i, hm⟩ := he
  exact ⟨c, i, h.par c _ hm⟩

theorem URel.nec {v v' : View} (h : URel v v') (m : Nat) (hn : (v'.rn m).nec = true) : (v.rn m).nec = true := by
  simp only [RNode.nec, Bool.or_eq_true, Bool.not_eq_true', List.isEmpty_eq_false_iff] at hn ⊢
  rcases hn with hn | hn
  · left
    obtain ⟨x, hx⟩ := List.exists_mem_of_ne_nil _ hn
    exact List.ne_nil_of_mem (h.par m x hx)
  · right; rw [← h.base]; exact hn

/-- the state of a view after `removeParent c i p` -/
theorem remPar_step {v : View} {c p i pi : Nat} (hJ : J v)
    (hidx : (v.rn c).parents.idxOf? (p, i) = some pi) :
    J (v.setParents c (swapRemove (v.rn c).parents pi)) ∧
    URel v (v.setParents c (swapRemove (v.rn c).parents pi)) ∧
    (∀ q, Bad (v.setParents c (swapRemove (v.rn c).parents pi)) q → Bad v q ∨ q = c) ∧
    (∀ m x, x ∈ ((v.setParents c (swapRemove (v.rn c).parents pi)).rn m).parents →
      x ∈ (v.rn m).parents ∧ ¬ (m = c ∧ x = (p, i))) := by
  obtain ⟨hmem, hnd⟩ := swapRemove_spec _ _ _ (hJ.e4 c) hidx
  have hpar : ∀ m x, x ∈ ((v.setParents c (swapRemove (v.rn c).parents pi)).rn m).parents →
      x ∈ (v.rn m).parents ∧ ¬ (m = c ∧ x = (p, i)) := by
    intro m x hx
    simp only [View.setParents, View.setRn] at hx
    split at hx
    · rename_i e; subst e
      have := (hmem x).1 hx
      exact ⟨this.1, fun h => this.2 h.2⟩
    · rename_i e; exact ⟨hx, fun h => e h.1⟩
  have hother : ∀ m, m ≠ c → (v.setParents c (swapRemove (v.rn c).parents pi)).rn m = v.rn m := by
    intro m hm; simp [View.setParents, View.setRn, hm]
  have hself : (v.setParents c (swapRemove (v.rn c).parents pi)).rn c =
      { v.rn c with parents := swapRemove (v.rn c).parents pi } := by
    simp [View.setParents, View.setRn]
  have hrel : URel v (v.setParents c (swapRemove (v.rn c).parents pi)) := by
    refine ⟨rfl, rfl, rfl, rfl, rfl, rfl, ?_, ?_, ?_, fun m x h => (hpar m x h).1, ?_⟩ <;> intro m <;>
      by_cases hm : m = c
    all_goals first
      | (subst hm; rw [hself]; try (intro h; exact h))
      | (rw [hother m hm]; try (intro h; exact h))
  refine ⟨⟨hJ.dbg, ?_, ?_, ?_, ?_, fun m hm => hJ.chv m (by rw [← hrel.valid]; exact hm)⟩, hrel, ?_, hpar⟩
  · intro c' p' i' hm
    exact hJ.e1 c' p' i' (hpar c' _ hm).1
  · intro n hn
    rw [hrel.valid]; exact hJ.e3v n (hrel.inRch n hn)
  · intro c'
    by_cases hm : c' = c
    · subst hm; rw [hself]; exact hnd
    · rw [hother c' hm]; exact hJ.e4 c'
  · exact hJ.k.congr hrel.kind rfl rfl rfl
  · rintro q ⟨hn, hb⟩
    by_cases hq : q = c
    · exact Or.inr hq
    · left
      rw [hother q hq] at hn hb
      refine ⟨hn, ?_⟩
      rcases hb with hb | hb
      · exact Or.inl (hrel.hasEdge hb)
      · exact Or.inr hb

/-- result of `checkIfUnnecessary c` / `becameUnnecessary c` -/
def UPost (c : Nat) (v v' : View) : Prop :=
  J v → J v' ∧ URel v v' ∧ ∀ p, Bad v' p → Bad v p ∧ p ≠ c

/-- result of `removeChildren n` -/
def RCPost (n : Nat) (v v' : View) : Prop :=
  J v → J v' ∧ URel v v' ∧ (∀ p, Bad v' p → Bad v p) ∧ ¬ HasEdge v' n

/-- loop invariant of `removeChildren n` -/
def RCInv (n : Nat) (l : List Nat) (v0 : View) (done : List Nat) (idx : Nat) (v : View) : Prop :=
  idx = done.length ∧
  (l = v0.ch n → J v0 → J v ∧ URel v0 v ∧ (∀ p, Bad v p → Bad v0 p) ∧
    ∀ c i, (n, i) ∈ (v.rn c).parents → done.length ≤ i)

abbrev CUT (fuel : Nat) (v : View) (c : Nat) : Prop :=
  ⦃fun s => ⌜viewOf s = v⌝⦄ checkIfUnnecessary fuel c
  ⦃post⟨fun _ s => ⌜UPost c v (viewOf s)⌝, fun _ _ => ⌜True⌝⟩⦄
abbrev BUT (fuel : Nat) (v : View) (n : Nat) : Prop :=
  ⦃fun s => ⌜viewOf s = v⌝⦄ becameUnnecessary fuel n
  ⦃post⟨fun _ s => ⌜(v.rn n).nec = false → UPost n v (viewOf s)⌝, fun _ _ => ⌜True⌝⟩⦄
abbrev RCT (fuel : Nat) (v : View) (n : Nat) : Prop :=
  ⦃fun s => ⌜viewOf s = v⌝⦄ removeChildren fuel n
  ⦃post⟨fun _ s => ⌜RCPost n v (viewOf s)⌝, fun _ _ => ⌜True⌝⟩⦄

theorem rcInv_step {n : Nat} {l done rest : List Nat} {a b pi : Nat} {v v1 v2 v0 : View}
    (hl : l = done ++ a :: rest)
    (hidx : (v.rn a).parents.idxOf? (n, b) = some pi)
    (hv1 : v1 = v.setParents a (swapRemove (v.rn a).parents pi))
    (hcu : UPost a v1 v2) (hinv : RCInv n l v0 done b v) : RCInv n l v0 (done ++ [a]) (b + 1) v2 := by
  obtain ⟨hb, hinv⟩ := hinv
  refine ⟨by simp [hb], fun hl0 hJ0 => ?_⟩
  obtain ⟨hJ, hrel, hbad, hedge⟩ := hinv hl0 hJ0
  obtain ⟨hJ1, hrel1, hbad1, hpar1⟩ := remPar_step hJ hidx
  rw [← hv1] at hJ1 hrel1 hbad1 hpar1
  obtain ⟨hJ2, hrel2, hbad2⟩ := hcu hJ1
  refine ⟨hJ2, (hrel.trans hrel1).trans hrel2, ?_, ?_⟩
  · intro p hp
    obtain ⟨h1, hne⟩ := hbad2 p hp
    rcases hbad1 p h1 with h | h
    · exact hbad p h
    · exact absurd h hne
  · intro c i hm
    have hm1 := hrel2.par c _ hm
    obtain ⟨hm0, hnot⟩ := hpar1 c _ hm1
    have hle := hedge c i hm0
    simp only [List.length_append, List.length_singleton]
    by_cases hi : i = done.length
    · exfalso
      have he1 := hJ.e1 c n i hm0
      rw [hrel.ch, ← hl0, hl, hi] at he1
      simp at he1
      apply hnot
      exact ⟨he1.symm, by rw [hi, hb]⟩
    · omega

theorem rcInv_final {n : Nat} {v v' : View} {r : Nat}
    (h : ∀ v0, RCInv n (v.ch n) v0 [] 0 v → RCInv n (v.ch n) v0 (v.ch n) r v') : RCPost n v v' := by
  intro hJ
  have h0 : RCInv n (v.ch n) v [] 0 v :=
    ⟨rfl, fun _ _ => ⟨hJ, URel.refl v, fun _ h => h, fun _ _ _ => Nat.zero_le _⟩⟩
  obtain ⟨-, h1⟩ := h v h0
  obtain ⟨hJ', hrel, hbad, hedge⟩ := h1 rfl hJ
  refine ⟨hJ', hrel, hbad, ?_⟩
  rintro ⟨c, i, hm⟩
  have := hedge c i hm
  have he1 := hJ'.e1 c n i hm
  rw [hrel.ch] at he1
  have : i < (v.ch n).length := by
    rcases Nat.lt_or_ge i (v.ch n).length with h | h
    · exact h
    · rw [List.getElem?_eq_none h] at he1; cases he1
  omega

theorem rc_step (fuel : Nat) (ih : ∀ v c, CUT fuel v c) (v : View) (n : Nat) : RCT (fuel + 1) v n := by
  have hl := fun l init f => forIn_view l init f (RCInv n)
  mvcgen [removeChildren, ih, -Spec.forIn_list, hl]
  · refine ⟨⟨_, rfl⟩, ?_⟩
    intro v0 b' hb' hinv
    cases hb'
    rename_i hl s2 hv r1 s1 hrp r idx s hcu
    obtain ⟨pi, hidx, -, hv1⟩ := hrp
    rw [hv] at hidx hv1
    exact rcInv_step hl hidx hv1 hcu hinv
  · rename_i s1 hv1 _ r s h
    rw [← hv1]
    apply rcInv_final (r := r)
    rw [viewOf_ch]
    exact h


theorem clearRch_step {v : View} (n : Nat) (hJ : J v) :
    J (v.setInRch n false) ∧ URel v (v.setInRch n false) ∧
    (∀ p, Bad (v.setInRch n false) p → Bad v p ∧ (p = n → HasEdge v n)) := by
  have hother : ∀ m, m ≠ n → (v.setInRch n false).rn m = v.rn m := by
    intro m hm; simp [View.setInRch, View.setRn, hm]
  have hself : (v.setInRch n false).rn n = { v.rn n with inRch := false } := by
    simp [View.setInRch, View.setRn]
  have hrel : URel v (v.setInRch n false) := by
    refine ⟨rfl, rfl, rfl, rfl, rfl, rfl, ?_, ?_, ?_, ?_, ?_⟩ <;> intro m <;> by_cases hm : m = n
    · subst hm; rw [hself]
    · rw [hother m hm]
    · subst hm; rw [hself]
    · rw [hother m hm]
    · subst hm; rw [hself]
    · rw [hother m hm]
    · subst hm; rw [hself]; exact fun x h => h
    · rw [hother m hm]; exact fun x h => h
    · subst hm; rw [hself]; intro h; cases h
    · rw [hother m hm]; exact fun h => h
  have hpar : ∀ m, ((v.setInRch n false).rn m).parents = (v.rn m).parents := by
    intro m
    by_cases hm : m = n
    · subst hm; rw [hself]
    · rw [hother m hm]
  refine ⟨⟨hJ.dbg, ?_, ?_, ?_, hJ.k.congr hrel.kind rfl rfl rfl,
    fun m hm => hJ.chv m (by rw [← hrel.valid]; exact hm)⟩, hrel, ?_⟩
  · intro c p i hm; rw [hpar] at hm; exact hJ.e1 c p i hm
  · intro m hm; rw [hrel.valid]; exact hJ.e3v m (hrel.inRch m hm)
  · intro c; rw [hpar]; exact hJ.e4 c
  · rintro p ⟨hn, hb⟩
    have hnec : (v.rn p).nec = false := by
      cases h : (v.rn p).nec with
      | false => rfl
      | true =>
        have : ((v.setInRch n false).rn p).nec = true := by
          simp only [RNode.nec, hpar, hrel.base]; exact h
        rw [this] at hn; cases hn
    have hedge : ∀ q, HasEdge (v.setInRch n false) q → HasEdge v q := fun q h => hrel.hasEdge h
    rcases hb with hb | hb
    · exact ⟨⟨hnec, Or.inl (hedge p hb)⟩, fun _ => by subst_vars; exact hedge _ hb⟩
    · by_cases hp : p = n
      · subst hp; rw [hself] at hb; cases hb
      · rw [hother p hp] at hb
        exact ⟨⟨hnec, Or.inr hb⟩, fun h => absurd h hp⟩

theorem bu_final {n : Nat} {v v1 : View} (hn : (v.rn n).nec = false) (h1 : RCPost n v v1) :
    UPost n v (v1.setInRch n false) := by
  intro hJ
  obtain ⟨hJ1, hrel1, hbad1, hne⟩ := h1 hJ
  obtain ⟨hJ2, hrel2, hbad2⟩ := clearRch_step n hJ1
  refine ⟨hJ2, hrel1.trans hrel2, ?_⟩
  intro p hp
  obtain ⟨hb, hpn⟩ := hbad2 p hp
  exact ⟨hbad1 p hb, fun e => hne (hpn e)⟩

theorem bu_step (fuel : Nat) (ih : ∀ v n, RCT fuel v n) (v : View) (n : Nat) : BUT (fuel + 1) v n := by
  mvcgen [becameUnnecessary, ih]
  all_goals vsimp
  all_goals first
    | (intro _ hn; exact bu_final hn ‹RCPost n v _›)
    | (intro hn
       have h1 := bu_final hn ‹RCPost n v _›
       rw [View.setInRch_self _ _ _ (by simpa using ‹¬ _ = true›)] at h1
       exact h1)


theorem cu_step (fuel : Nat) (ih : ∀ v n, BUT fuel v n) (v : View) (c : Nat) : CUT (fuel + 1) v c := by
  mvcgen [checkIfUnnecessary, ih]
  all_goals vsimp
  · intro h
    exact h (by simpa using ‹(!(v.rn c).nec) = true›)
  · intro hJ
    refine ⟨hJ, URel.refl v, ?_⟩
    rintro p hb
    refine ⟨hb, ?_⟩
    rintro rfl
    have := hb.1
    simp_all

theorem unlink_specs (fuel : Nat) :
    (∀ v n, BUT fuel v n) ∧ (∀ v c, CUT fuel v c) ∧ (∀ v n, RCT fuel v n) := by
  induction fuel with
  | zero =>
    refine ⟨?_, ?_, ?_⟩ <;> intro v n
    · mvcgen [becameUnnecessary]
    · mvcgen [checkIfUnnecessary]
    · mvcgen [removeChildren]
  | succ fuel ih =>
    obtain ⟨ih1, ih2, ih3⟩ := ih
    exact ⟨bu_step fuel ih3, cu_step fuel ih1, rc_step fuel ih2⟩

@[spec] theorem becameUnnecessary_v (v : View) (fuel n : Nat) : BUT fuel v n := (unlink_specs fuel).1 v n
@[spec] theorem checkIfUnnecessary_v (v : View) (fuel c : Nat) : CUT fuel v c := (unlink_specs fuel).2.1 v c
@[spec] theorem removeChildren_v (v : View) (fuel n : Nat) : RCT fuel v n := (unlink_specs fuel).2.2 v n

/-! ## the linking cascade -/

/-- what the linking cascade may change: parent lists grow, queue markers are set -/
structure LRel (v v' : View) : Prop where
  size : v'.size = v.size
  nb : v'.nb = v.nb
  ne : v'.ne = v.ne
  ch : v'.ch = v.ch
  bmain : v'.bmain = v.bmain
  debug : v'.debug = v.debug
  kind : ∀ m, (v'.rn m).kind = (v.rn m).kind
  valid : ∀ m, (v'.rn m).valid = (v.rn m).valid
  base : ∀ m, (v'.rn m).base = (v.rn m).base
  par : ∀ m x, x ∈ (v.rn m).parents → x ∈ (v'.rn m).parents
  inRch : ∀ m, (v.rn m).inRch = true → (v'.rn m).inRch = true

theorem LRel.refl (v : View) : LRel v v :=
  ⟨rfl, rfl, rfl, rfl, rfl, rfl, fun _ => rfl, fun _ => rfl, fun _ => rfl, fun _ _ h => h, fun _ h => h⟩

theorem LRel.trans {a b c : View} (h1 : LRel a b) (h2 : LRel b c) : LRel a c :=
  ⟨h2.size.trans h1.size, h2.nb.trans h1.nb, h2.ne.trans h1.ne, h2.ch.trans h1.ch,
   h2.bmain.trans h1.bmain, h2.debug.trans h1.debug,
   fun m => (h2.kind m).trans (h1.kind m), fun m => (h2.valid m).trans (h1.valid m),
   fun m => (h2.base m).trans (h1.base m), fun m x h => h2.par m x (h1.par m x h),
   fun m h => h2.inRch m (h1.inRch m h)⟩

theorem LRel.nec {v v' : View} (h : LRel v v') (m : Nat) (hn : (v.rn m).nec = true) : (v'.rn m).nec = true := by
  simp only [RNode.nec, Bool.or_eq_true, Bool.not_eq_true', List.isEmpty_eq_false_iff] at hn ⊢
  rcases hn with hn | hn
  · left
    obtain ⟨x, hx⟩ := List.exists_mem_of_ne_nil _ hn
    exact List.ne_nil_of_mem (h.par m x hx)
  · right; rw [h.base]; exact hn

theorem nec_of_mem {r : RNode} {x : Nat × Nat} (h : x ∈ r.parents) : r.nec = true := by
  simp only [RNode.nec, Bool.or_eq_true, Bool.not_eq_true', List.isEmpty_eq_false_iff]
  exact Or.inl (List.ne_nil_of_mem h)

/-- the view after `addParent c idx p` -/
theorem addPar_step {v : View} {c p idx : Nat} (h : NecV v) (hp : (v.rn p).nec = true)
    (hch : (v.ch p)[idx]? = some c) (hnew : (p, idx) ∉ (v.rn c).parents) :
    NecV (v.setParents c ((v.rn c).parents ++ [(p, idx)])) ∧
    LRel v (v.setParents c ((v.rn c).parents ++ [(p, idx)])) ∧
    (∀ m x, x ∈ ((v.setParents c ((v.rn c).parents ++ [(p, idx)])).rn m).parents →
      x ∈ (v.rn m).parents ∨ (m = c ∧ x = (p, idx))) ∧
    ((v.setParents c ((v.rn c).parents ++ [(p, idx)])).rn c).nec = true := by
  have hother : ∀ m, m ≠ c → (v.setParents c ((v.rn c).parents ++ [(p, idx)])).rn m = v.rn m := by
    intro m hm; simp [View.setParents, View.setRn, hm]
  have hself : (v.setParents c ((v.rn c).parents ++ [(p, idx)])).rn c =
      { v.rn c with parents := (v.rn c).parents ++ [(p, idx)] } := by
    simp [View.setParents, View.setRn]
  have hpar : ∀ m x, x ∈ ((v.setParents c ((v.rn c).parents ++ [(p, idx)])).rn m).parents →
      x ∈ (v.rn m).parents ∨ (m = c ∧ x = (p, idx)) := by
    intro m x hx
    by_cases hm : m = c
    · subst hm
      rw [hself] at hx
      simp only [List.mem_append, List.mem_singleton] at hx
      rcases hx with hx | hx
      · exact Or.inl hx
      · exact Or.inr ⟨rfl, hx⟩
    · rw [hother m hm] at hx; exact Or.inl hx
  have hrel : LRel v (v.setParents c ((v.rn c).parents ++ [(p, idx)])) := by
    refine ⟨rfl, rfl, rfl, rfl, rfl, rfl, ?_, ?_, ?_, ?_, ?_⟩ <;> intro m <;> by_cases hm : m = c
    · subst hm; rw [hself]
    · rw [hother m hm]
    · subst hm; rw [hself]
    · rw [hother m hm]
    · subst hm; rw [hself]
    · rw [hother m hm]
    · subst hm; rw [hself]; intro x hx; exact List.mem_append_left _ hx
    · rw [hother m hm]; exact fun x h => h
    · subst hm; rw [hself]; exact fun h => h
    · rw [hother m hm]; exact fun h => h
  have hnecc : ((v.setParents c ((v.rn c).parents ++ [(p, idx)])).rn c).nec = true := by
    rw [hself]; exact nec_of_mem (x := (p, idx)) (by simp)
  refine ⟨?_, hrel, hpar, hnecc⟩
  apply NecV.of
  · refine ⟨h.dbg, ?_, ?_, ?_, h.k.congr hrel.kind rfl rfl rfl,
      fun m hm => h.chv m (by rw [← hrel.valid]; exact hm)⟩
    · intro c' p' i' hm
      rcases hpar c' _ hm with h1 | ⟨h1, h2⟩
      · exact h.e1 c' p' i' h1
      · cases h2; subst h1; exact hch
    · intro m hm
      rw [hrel.valid]
      apply h.e3v
      by_cases hmc : m = c
      · subst hmc; rw [hself] at hm; exact hm
      · rw [hother m hmc] at hm; exact hm
    · intro m
      by_cases hmc : m = c
      · subst hmc; rw [hself]
        simp only [List.nodup_append, List.nodup_cons, List.not_mem_nil, not_false_eq_true,
          List.nodup_nil, and_self, List.mem_singleton, true_and]
        refine ⟨h.e4 m, ?_⟩
        intro a ha b hb
        subst hb
        intro e; subst e; exact hnew ha
      · rw [hother m hmc]; exact h.e4 m
  · intro c' p' i' hm
    apply hrel.nec
    rcases hpar c' _ hm with h1 | ⟨h1, h2⟩
    · exact h.e2 c' p' i' h1
    · cases h2; exact hp
  · intro m hm
    apply hrel.nec
    apply (h.e3 m _).1
    by_cases hmc : m = c
    · subst hmc; rw [hself] at hm; exact hm
    · rw [hother m hmc] at hm; exact hm

/-- the view after `rchInsert n` of a necessary valid node -/
theorem setRch_step {v : View} (n : Nat) (h : NecV v) (hn : (v.rn n).nec = true)
    (hv : (v.rn n).valid = true) :
    NecV (v.setInRch n true) ∧ LRel v (v.setInRch n true) ∧
    (∀ m, ((v.setInRch n true).rn m).parents = (v.rn m).parents) := by
  have hother : ∀ m, m ≠ n → (v.setInRch n true).rn m = v.rn m := by
    intro m hm; simp [View.setInRch, View.setRn, hm]
  have hself : (v.setInRch n true).rn n = { v.rn n with inRch := true } := by
    simp [View.setInRch, View.setRn]
  have hpar : ∀ m, ((v.setInRch n true).rn m).parents = (v.rn m).parents := by
    intro m
    by_cases hm : m = n
    · subst hm; rw [hself]
    · rw [hother m hm]
  have hrel : LRel v (v.setInRch n true) := by
    refine ⟨rfl, rfl, rfl, rfl, rfl, rfl, ?_, ?_, ?_, ?_, ?_⟩ <;> intro m <;> by_cases hm : m = n
    · subst hm; rw [hself]
    · rw [hother m hm]
    · subst hm; rw [hself]
    · rw [hother m hm]
    · subst hm; rw [hself]
    · rw [hother m hm]
    · subst hm; rw [hself]; exact fun x h => h
    · rw [hother m hm]; exact fun x h => h
    · subst hm; rw [hself]; exact fun _ => rfl
    · rw [hother m hm]; exact fun h => h
  refine ⟨?_, hrel, hpar⟩
  apply NecV.of
  · refine ⟨h.dbg, ?_, ?_, ?_, h.k.congr hrel.kind rfl rfl rfl,
      fun m hm => h.chv m (by rw [← hrel.valid]; exact hm)⟩
    · intro c p i hm; rw [hpar] at hm; exact h.e1 c p i hm
    · intro m hm
      rw [hrel.valid]
      by_cases hmn : m = n
      · subst hmn; exact hv
      · rw [hother m hmn] at hm; exact h.e3v m hm
    · intro c; rw [hpar]; exact h.e4 c
  · intro c p i hm
    rw [hpar] at hm
    exact hrel.nec p (h.e2 c p i hm)
  · intro m hm
    apply hrel.nec
    by_cases hmn : m = n
    · subst hmn; exact hn
    · rw [hother m hmn] at hm; exact (h.e3 m hm).1

def APost (c idx p : Nat) (v v' : View) : Prop :=
  NecV v → (v.ch p)[idx]? = some c → (p, idx) ∉ (v.rn c).parents →
    NecV v' ∧ LRel v v' ∧
    (∀ m c' i, (v.rn m).nec = true → (m, i) ∈ (v'.rn c').parents →
      (m, i) ∈ (v.rn c').parents ∨ (m = p ∧ i = idx ∧ c' = c))

def BNPost (n : Nat) (v v' : View) : Prop :=
  NecV v → (v.rn n).nec = true → ¬ HasEdge v n →
    NecV v' ∧ LRel v v' ∧
    (∀ m c i, (v.rn m).nec = true → m ≠ n → (m, i) ∈ (v'.rn c).parents → (m, i) ∈ (v.rn c).parents)

abbrev APT (env : Env) (fuel : Nat) (v : View) (c idx p : Nat) : Prop :=
  ⦃fun s => ⌜viewOf s = v⌝⦄ addParentWithoutAdjustingHeights env fuel c idx p
  ⦃post⟨fun _ s => ⌜APost c idx p v (viewOf s)⌝, fun _ _ => ⌜True⌝⟩⦄
abbrev BNT (env : Env) (fuel : Nat) (v : View) (n : Nat) : Prop :=
  ⦃fun s => ⌜viewOf s = v⌝⦄ becameNecessary env fuel n
  ⦃post⟨fun _ s => ⌜BNPost n v (viewOf s)⌝, fun _ _ => ⌜True⌝⟩⦄

theorem ap_size {v v1 : View} {c : Nat} {l : List (Nat × Nat)}
    (hv1 : c < v.size → v1 = v.setParents c l) (hv1' : v.size ≤ c → v1 = v) (hc : c < v1.size) :
    c < v.size ∧ v1 = v.setParents c l := by
  rcases Nat.lt_or_ge c v.size with h | h
  · exact ⟨h, hv1 h⟩
  · rw [hv1' h] at hc; omega

theorem ap_final_norec {v v1 : View} {c idx p : Nat}
    (hdbg : v.debug = true → (v.rn p).nec = true)
    (hv1 : c < v.size → v1 = v.setParents c ((v.rn c).parents ++ [(p, idx)])) (hv1' : v.size ≤ c → v1 = v)
    (hc : c < v1.size) : APost c idx p v v1 := by
  intro hN hch hnew
  obtain ⟨-, e⟩ := ap_size hv1 hv1' hc
  obtain ⟨h1, h2, h3, -⟩ := addPar_step hN (hdbg hN.dbg) hch hnew
  rw [← e] at h1 h2 h3
  refine ⟨h1, h2, ?_⟩
  intro m c' i _ hm
  rcases h3 c' _ hm with h | ⟨h, h'⟩
  · exact Or.inl h
  · cases h'; exact Or.inr ⟨rfl, rfl, h⟩

theorem ap_final_rec {v v1 v2 : View} {c idx p : Nat}
    (hdbg : v.debug = true → (v.rn p).nec = true)
    (hv1 : c < v.size → v1 = v.setParents c ((v.rn c).parents ++ [(p, idx)])) (hv1' : v.size ≤ c → v1 = v)
    (hc : c < v1.size) (hnn : (!(v.rn c).nec) = true) (hbn : BNPost c v1 v2) : APost c idx p v v2 := by
  intro hN hch hnew
  obtain ⟨-, e⟩ := ap_size hv1 hv1' hc
  have hp := hdbg hN.dbg
  have hcn : (v.rn c).nec = false := by simpa using hnn
  obtain ⟨h1, h2, h3, h4⟩ := addPar_step hN hp hch hnew
  rw [← e] at h1 h2 h3 h4
  have hpc : p ≠ c := by rintro rfl; rw [hp] at hcn; cases hcn
  have hne : ¬ HasEdge v1 c := by
    rintro ⟨c', i, hm⟩
    rcases h3 c' _ hm with h | ⟨-, h⟩
    · have := hN.e2 c' c i h; rw [this] at hcn; cases hcn
    · cases h; exact hpc rfl
  obtain ⟨g1, g2, g3⟩ := hbn h1 h4 hne
  refine ⟨g1, h2.trans g2, ?_⟩
  intro m c' i hm hmem
  have hmc : m ≠ c := by rintro rfl; rw [hm] at hcn; cases hcn
  have := g3 m c' i (h2.nec m hm) hmc hmem
  rcases h3 c' _ this with h | ⟨h, h'⟩
  · exact Or.inl h
  · cases h'; exact Or.inr ⟨rfl, rfl, h⟩

theorem ap_step (env : Env) (fuel : Nat) (ih : ∀ v n, BNT env fuel v n) (v : View) (c idx p : Nat) :
    APT env (fuel + 1) v c idx p := by
  mvcgen [addParentWithoutAdjustingHeights, ih]
  all_goals vsimp
  all_goals first
    | exact ap_final_rec (by assumption) (by assumption) (by assumption) (by assumption) (by assumption) (by assumption)
    | (intro _; exact ap_final_rec (by assumption) (by assumption) (by assumption) (by assumption) (by assumption) (by assumption))
    | exact ap_final_norec (by assumption) (by assumption) (by assumption) (by assumption)
    | (intro _; exact ap_final_norec (by assumption) (by assumption) (by assumption) (by assumption))


/-- loop invariant of `becameNecessary n` -/
def BNInv (n : Nat) (l : List Nat) (v0 : View) (done : List Nat) (b : Int × Nat) (v : View) : Prop :=
  b.2 = done.length ∧
  (l = v0.ch n → NecV v0 → (v0.rn n).nec = true → ¬ HasEdge v0 n →
    NecV v ∧ LRel v0 v ∧
    (∀ m c i, (v0.rn m).nec = true → m ≠ n → (m, i) ∈ (v.rn c).parents → (m, i) ∈ (v0.rn c).parents) ∧
    ∀ c i, (n, i) ∈ (v.rn c).parents → i < done.length)

theorem bnInv_step {n : Nat} {l done rest : List Nat} {a : Nat} {b b' : Int × Nat} {v0 v1 v2 : View}
    (hl : l = done ++ a :: rest) (hap : APost a b.2 n v1 v2) (hb' : b'.2 = b.2 + 1)
    (hinv : BNInv n l v0 done b v1) : BNInv n l v0 (done ++ [a]) b' v2 := by
  obtain ⟨hb, hinv⟩ := hinv
  refine ⟨by simp [hb', hb], fun hl0 hN0 hn0 hne0 => ?_⟩
  obtain ⟨hN, hrel, hfr, hedge⟩ := hinv hl0 hN0 hn0 hne0
  have hch : (v1.ch n)[b.2]? = some a := by
    rw [hrel.ch, ← hl0, hl, hb]; simp
  have hnew : (n, b.2) ∉ (v1.rn a).parents := by
    intro hm
    have := hedge a b.2 hm
    omega
  obtain ⟨hN2, hrel2, hfr2⟩ := hap hN hch hnew
  refine ⟨hN2, hrel.trans hrel2, ?_, ?_⟩
  · intro m c i hm hmn hmem
    rcases hfr2 m c i (hrel.nec m hm) hmem with h | ⟨h, -, -⟩
    · exact hfr m c i hm hmn h
    · exact absurd h hmn
  · intro c i hmem
    simp only [List.length_append, List.length_singleton]
    rcases hfr2 n c i (hrel.nec n hn0) hmem with h | ⟨-, h, -⟩
    · have := hedge c i h; omega
    · omega

theorem bn_final_noins {n : Nat} {v v1 : View} {b0 r : Int × Nat} (hb0 : b0.2 = 0)
    (h : ∀ v0, BNInv n (v.ch n) v0 [] b0 v → BNInv n (v.ch n) v0 (v.ch n) r v1) : BNPost n v v1 := by
  intro hN hn hne
  have h0 : BNInv n (v.ch n) v [] b0 v := by
    refine ⟨by simp [hb0], fun _ _ _ _ => ⟨hN, LRel.refl v, fun _ _ _ _ _ h => h, ?_⟩⟩
    intro c i hm
    exact absurd ⟨c, i, hm⟩ hne
  obtain ⟨-, h1⟩ := h v h0
  obtain ⟨hN1, hrel, hfr, -⟩ := h1 rfl hN hn hne
  exact ⟨hN1, hrel, hfr⟩

theorem bn_final_ins {n : Nat} {v v1 : View} {b0 r : Int × Nat} (hb0 : b0.2 = 0)
    (h : ∀ v0, BNInv n (v.ch n) v0 [] b0 v → BNInv n (v.ch n) v0 (v.ch n) r v1)
    (hd1 : v1.debug = true → (v1.rn n).nec = true) (hd2 : v1.debug = true → (v1.rn n).valid = true) :
    BNPost n v (v1.setInRch n true) := by
  intro hN hn hne
  obtain ⟨hN1, hrel, hfr⟩ := bn_final_noins hb0 h hN hn hne
  have hnn := hd1 hN1.dbg
  have hvv := hd2 hN1.dbg
  obtain ⟨g1, g2, g3⟩ := setRch_step n hN1 hnn hvv
  refine ⟨g1, hrel.trans g2, ?_⟩
  intro m c i hm hmn hmem
  rw [g3] at hmem
  exact hfr m c i hm hmn hmem

theorem bn_step (env : Env) (fuel : Nat) (ih : ∀ v c idx p, APT env fuel v c idx p) (v : View) (n : Nat) :
    BNT env (fuel + 1) v n := by
  have hl := fun l init f => forIn_view l init f (BNInv n)
  mvcgen [becameNecessary, ih, -Spec.forIn_list, hl]
  all_goals vsimp
  all_goals first
    | (refine ⟨⟨_, rfl⟩, ?_⟩
       intro v0 b' hb' hinv
       cases hb'
       exact bnInv_step rfl (by assumption) rfl hinv)
    | exact bn_final_ins (b0 := (_, 0)) rfl (by assumption) (by assumption) (by assumption)
    | (intro _; exact bn_final_ins (b0 := (_, 0)) rfl (by assumption) (by assumption) (by assumption))
    | exact bn_final_noins (b0 := (_, 0)) rfl (by assumption)
    | (intro _; exact bn_final_noins (b0 := (_, 0)) rfl (by assumption))


theorem link_specs (env : Env) (fuel : Nat) :
    (∀ v n, BNT env fuel v n) ∧ (∀ v c idx p, APT env fuel v c idx p) := by
  induction fuel with
  | zero =>
    refine ⟨?_, ?_⟩ <;> intros
    · mvcgen [becameNecessary]
    · mvcgen [addParentWithoutAdjustingHeights]
  | succ fuel ih =>
    obtain ⟨ih1, ih2⟩ := ih
    exact ⟨bn_step env fuel ih2, ap_step env fuel ih1⟩

@[spec] theorem becameNecessary_v (v : View) (env : Env) (fuel n : Nat) : BNT env fuel v n :=
  (link_specs env fuel).1 v n
@[spec] theorem addParentWithoutAdjustingHeights_v (v : View) (env : Env) (fuel c idx p : Nat) :
    APT env fuel v c idx p := (link_specs env fuel).2 v c idx p

/-! ## invalidation -/

/-- the view after `valid := false` on an existing node `n` -/
def View.inval' (v : View) (n : Nat) : View :=
  { v with rn := fun m => if m = n then { v.rn n with valid := false } else v.rn m
           ch := fun m => if m = n then [] else v.ch m }

/-- the view after `modNode n (valid := false)` -/
def View.inval (v : View) (n : Nat) : View := if n < v.size then v.inval' n else v

theorem viewOf_inval' (s : State) (n : Nat) (hn : n < s.nodes.size) :
    viewOf { s with nodes := s.nodes.modify n fun x => { x with valid := false } } = (viewOf s).inval' n := by
  simp only [viewOf, mkView, View.inval', Array.size_modify, View.mk.injEq, true_and, and_true]
  constructor
  · funext m
    rw [nodeAt_modify]
    by_cases h : n = m
    · subst h; simp [hn]; rfl
    · have : ¬ m = n := fun e => h e.symm
      simp [h, this]
  · funext m
    rw [nodeAt_modify]
    by_cases h : n = m
    · subst h; simp [hn, Node.kind?, chK]
    · have : ¬ m = n := fun e => h e.symm
      simp [h, this]

theorem mkView_inval (s : State) (n : Nat) (v : View) (h : viewOf s = v) :
    mkView (s.nodes.modify n fun x => { x with valid := false }) s.binds s.experts s.cfg.debug = v.inval n := by
  subst h
  unfold View.inval
  split
  · rename_i hn; exact viewOf_inval' s n hn
  · rename_i hn
    have : s.nodes.size ≤ n := Nat.le_of_not_lt hn
    simp only [viewOf, modify_of_le _ _ _ this]

theorem viewOf_chv (s : State) (m : Nat) (h : ((viewOf s).rn m).valid = false) : (viewOf s).ch m = [] := by
  have h' : (nodeAt s.nodes m).valid = false := h
  simp [viewOf, mkView, Node.kind?, h', chK]

/-- what invalidation may change -/
structure IRel (v v' : View) : Prop where
  size : v'.size = v.size
  nb : v'.nb = v.nb
  ne : v'.ne = v.ne
  bmain : v'.bmain = v.bmain
  debug : v'.debug = v.debug
  kind : ∀ m, (v'.rn m).kind = (v.rn m).kind
  base : ∀ m, (v'.rn m).base = (v.rn m).base
  valid : ∀ m, (v'.rn m).valid = true → (v.rn m).valid = true
  ch : ∀ m, (v'.rn m).valid = true → v'.ch m = v.ch m
  par : ∀ m x, x ∈ (v'.rn m).parents → x ∈ (v.rn m).parents
  inRch : ∀ m, (v'.rn m).inRch = true → (v.rn m).inRch = true

theorem IRel.refl (v : View) : IRel v v :=
  ⟨rfl, rfl, rfl, rfl, rfl, fun _ => rfl, fun _ => rfl, fun _ h => h, fun _ _ => rfl, fun _ _ h => h,
    fun _ h => h⟩

theorem IRel.trans {a b c : View} (h1 : IRel a b) (h2 : IRel b c) : IRel a c :=
  ⟨h2.size.trans h1.size, h2.nb.trans h1.nb, h2.ne.trans h1.ne, h2.bmain.trans h1.bmain,
   h2.debug.trans h1.debug, fun m => (h2.kind m).trans (h1.kind m), fun m => (h2.base m).trans (h1.base m),
   fun m h => h1.valid m (h2.valid m h), fun m h => (h2.ch m h).trans (h1.ch m (h2.valid m h)),
   fun m x h => h1.par m x (h2.par m x h), fun m h => h1.inRch m (h2.inRch m h)⟩

theorem URel.toIRel {v v' : View} (h : URel v v') : IRel v v' :=
  ⟨h.size, h.nb, h.ne, h.bmain, h.debug, h.kind, h.base, fun m hm => by rw [← h.valid]; exact hm,
    fun m _ => by rw [h.ch], h.par, h.inRch⟩

theorem IRel.hasEdge {v v' : View} (h : IRel v v') {p : Nat} (he : HasEdge v' p) : HasEdge v p := by
  obtain ⟨c, i, hm⟩ := he
  exact ⟨c, i, h.par c _ hm⟩

def IPost (v v' : View) : Prop := NecV v → NecV v' ∧ IRel v v'

/-- the view after `valid := false` and unqueueing of a node no child records -/
theorem inval_step' {v : View} (n : Nat) (h : NecV v) (hne : ¬ HasEdge v n) :
    NecV ((v.inval' n).setInRch n false) ∧ IRel v ((v.inval' n).setInRch n false) := by
  have hother : ∀ m, m ≠ n → ((v.inval' n).setInRch n false).rn m = v.rn m := by
    intro m hm; simp [View.setInRch, View.setRn, View.inval', hm]
  have hself : ((v.inval' n).setInRch n false).rn n = { v.rn n with valid := false, inRch := false } := by
    simp [View.setInRch, View.setRn, View.inval']
  have hcho : ∀ m, m ≠ n → ((v.inval' n).setInRch n false).ch m = v.ch m := by
    intro m hm; simp [View.setInRch, View.setRn, View.inval', hm]
  have hchs : ((v.inval' n).setInRch n false).ch n = [] := by
    simp [View.setInRch, View.setRn, View.inval']
  have hpar : ∀ m, (((v.inval' n).setInRch n false).rn m).parents = (v.rn m).parents := by
    intro m
    by_cases hm : m = n
    · subst hm; rw [hself]
    · rw [hother m hm]
  have hnec : ∀ m, (((v.inval' n).setInRch n false).rn m).nec = (v.rn m).nec := by
    intro m
    by_cases hm : m = n
    · subst hm; rw [hself]; rfl
    · rw [hother m hm]
  have hrel : IRel v ((v.inval' n).setInRch n false) := by
    refine ⟨rfl, rfl, rfl, rfl, rfl, ?_, ?_, ?_, ?_, ?_, ?_⟩ <;> intro m <;> by_cases hm : m = n
    · subst hm; rw [hself]
    · rw [hother m hm]
    · subst hm; rw [hself]
    · rw [hother m hm]
    · subst hm; rw [hself]; intro h; cases h
    · rw [hother m hm]; exact fun h => h
    · subst hm; rw [hself]; intro h; cases h
    · rw [hother m hm]; intro _; exact hcho m hm
    · subst hm; rw [hself]; exact fun x h => h
    · rw [hother m hm]; exact fun x h => h
    · subst hm; rw [hself]; intro h; cases h
    · rw [hother m hm]; exact fun h => h
  refine ⟨?_, hrel⟩
  apply NecV.of
  · refine ⟨h.dbg, ?_, ?_, ?_, h.k.congr hrel.kind rfl rfl rfl, ?_⟩
    · intro c p i hm
      rw [hpar] at hm
      have hpn : p ≠ n := by rintro rfl; exact hne ⟨c, i, hm⟩
      rw [hcho p hpn]; exact h.e1 c p i hm
    · intro m hm
      by_cases hmn : m = n
      · subst hmn; rw [hself] at hm; cases hm
      · rw [hother m hmn] at hm ⊢; exact h.e3v m hm
    · intro c; rw [hpar]; exact h.e4 c
    · intro m hm
      by_cases hmn : m = n
      · subst hmn; exact hchs
      · rw [hother m hmn] at hm; rw [hcho m hmn]; exact h.chv m hm
  · intro c p i hm
    rw [hpar] at hm; rw [hnec]; exact h.e2 c p i hm
  · intro m hm
    rw [hnec]
    exact (h.e3 m (hrel.inRch m hm)).1


theorem inval_step {v : View} (n : Nat) (h : NecV v) (hne : ¬ HasEdge v n) :
    NecV ((v.inval n).setInRch n false) ∧ IRel v ((v.inval n).setInRch n false) := by
  unfold View.inval
  split
  · exact inval_step' n h hne
  · obtain ⟨hJ, hrel, hbad⟩ := clearRch_step n h.toJ
    exact ⟨⟨hJ, fun p hp => h.nobad p (hbad p hp).1⟩, hrel.toIRel⟩

abbrev IT (fuel : Nat) (v : View) (n : Nat) : Prop :=
  ⦃fun s => ⌜viewOf s = v⌝⦄ invalidateNode fuel n
  ⦃post⟨fun _ s => ⌜IPost v (viewOf s)⌝, fun _ _ => ⌜True⌝⟩⦄

/-- loop invariant of the nested invalidations -/
def ILInv (_l : List Nat) (v0 : View) (_done : List Nat) (_b : PUnit.{1}) (v : View) : Prop :=
  NecV v0 → NecV v ∧ IRel v0 v

theorem inval_pre_rc {n : Nat} {v v1 : View} (h : RCPost n v v1) :
    NecV v → NecV v1 ∧ IRel v v1 ∧ ¬ HasEdge v1 n := by
  intro hN
  obtain ⟨hJ, hrel, hbad, hne⟩ := h hN.toJ
  exact ⟨⟨hJ, fun p hp => hN.nobad p (hbad p hp)⟩, hrel.toIRel, hne⟩

theorem inval_pre_norc {n : Nat} {v : View} (h : ¬ (v.rn n).nec = true) :
    NecV v → NecV v ∧ IRel v v ∧ ¬ HasEdge v n := by
  intro hN
  refine ⟨hN, IRel.refl v, ?_⟩
  rintro ⟨c, i, hm⟩
  exact h (hN.e2 c n i hm)

theorem inval_fin {n : Nat} {v v1 v2 : View}
    (hA : RCPost n v v1 ∨ (¬ (v.rn n).nec = true ∧ v1 = v))
    (hB : (∃ (l : List Nat) (b : PUnit.{1}), ∀ v0, ILInv l v0 [] PUnit.unit v1 → ILInv l v0 l b v2) ∨ v2 = v1) :
    IPost v ((v2.inval n).setInRch n false) := by
  intro hN
  have h1 : NecV v1 ∧ IRel v v1 ∧ ¬ HasEdge v1 n := by
    rcases hA with hA | ⟨hA, rfl⟩
    · exact inval_pre_rc hA hN
    · exact inval_pre_norc hA hN
  obtain ⟨h1, r1, hne⟩ := h1
  have h2 : NecV v2 ∧ IRel v1 v2 := by
    rcases hB with ⟨l, b, hB⟩ | rfl
    · exact hB v1 (fun h => ⟨h, IRel.refl v1⟩) h1
    · exact ⟨h1, IRel.refl _⟩
  obtain ⟨h2, r2⟩ := h2
  obtain ⟨h3, r3⟩ := inval_step n h2 (fun he => hne (r2.hasEdge he))
  exact ⟨h3, (r1.trans r2).trans r3⟩

theorem inval_final {n : Nat} {v v1 v2 : View}
    (hA : NecV v → NecV v1 ∧ IRel v v1 ∧ ¬ HasEdge v1 n)
    (hB : NecV v1 → NecV v2 ∧ IRel v1 v2) : IPost v ((v2.inval n).setInRch n false) := by
  intro hN
  obtain ⟨h1, r1, hne⟩ := hA hN
  obtain ⟨h2, r2⟩ := hB h1
  obtain ⟨h3, r3⟩ := inval_step n h2 (fun he => hne (r2.hasEdge he))
  exact ⟨h3, (r1.trans r2).trans r3⟩

@[spec high] theorem modNode_inval_v (v : View) (n : Nat) :
    ⦃fun s => ⌜viewOf s = v⌝⦄ modNode n (fun x => { x with valid := false })
    ⦃post⟨fun _ s => ⌜viewOf s = v.inval n⌝, fun _ _ => ⌜True⌝⟩⦄ := by
  mvcgen [-modNode_v, modNode]
  vnorm
  exact mkView_inval _ n v ‹_›

theorem inv_step (fuel : Nat) (ih : ∀ v n, IT fuel v n) (v : View) (n : Nat) : IT (fuel + 1) v n := by
  have hl := fun (l : List Nat) init f => forIn_view l init f ILInv
  have hl2 := fun (v : View) (l : List (Nat × Nat)) (init : PUnit) f => forIn_vf v l init f
  mvcgen [invalidateNode, ih, -Spec.forIn_list, hl, hl2]
  all_goals vsimp
  all_goals first
    | exact fun h => ⟨h, IRel.refl _⟩
    | (intro x; rfl)
    | (intros; trivial)
    | (refine ⟨⟨PUnit.unit, trivial⟩, ?_⟩
       intro v0 b' hinv hN
       obtain ⟨h1, r1⟩ := hinv hN
       obtain ⟨h2, r2⟩ := ‹IPost _ _› h1
       exact ⟨h2, r1.trans r2⟩)
    | skip
  all_goals try intro (_ : viewOf _ = _)
  all_goals try rw [← View.setInRch_self (View.inval _ n) n false (by simpa using ‹¬ _ = true›)]
  all_goals
    apply inval_fin
    · first
        | exact Or.inl ‹RCPost n v _›
        | exact Or.inr ⟨‹¬ _ = true›, rfl⟩
    · first
        | exact Or.inl ⟨_, _, ‹∀ v0, ILInv _ v0 [] PUnit.unit _ → ILInv _ v0 _ _ _›⟩
        | exact Or.inr rfl


@[spec] theorem invalidateNode_v (v : View) (fuel n : Nat) : IT fuel v n := by
  induction fuel generalizing v n with
  | zero => mvcgen [invalidateNode]
  | succ fuel ih => exact inv_step fuel ih v n

end IncrVerif.Proofs.Nec
