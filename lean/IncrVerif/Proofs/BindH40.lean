import IncrVerif.Proofs.BindH39
/-!
# Binds, the run of a change detector in fragment F0, part 5: `StepL`
-/
namespace IncrVerif.Proofs.BindH
open IncrVerif.Engine IncrVerif.Proofs IncrVerif.Proofs.Step IncrVerif.Proofs.Sched IncrVerif.Proofs.Quiet
namespace BC

namespace Mid
variable {env : Env} {n b rhs : Nat} {br : BindRec} {r : Option Nat} {s t s' : State}

theorem size (X : Mid env n b rhs br r s t s') : s'.nodes.size = s.nodes.size :=
  X.step.size.trans X.rel.size

theorem stab (X : Mid env n b rhs br r s t s') : s'.stabNum = s.stabNum :=
  X.step.stabNum.trans X.rel.stabNum

theorem kind (X : Mid env n b rhs br r s t s') (m : Nat) : (s'.nodeD m).kind = (s.nodeD m).kind :=
  (X.step.shapes m).kind.trans (X.rel.nk m).kind
theorem valid (X : Mid env n b rhs br r s t s') (m : Nat) : (s'.nodeD m).valid = (s.nodeD m).valid :=
  (X.step.shapes m).valid.trans (X.rel.nk m).valid
theorem cutoff (X : Mid env n b rhs br r s t s') (m : Nat) : (s'.nodeD m).cutoff = (s.nodeD m).cutoff :=
  (X.step.shapes m).cutoff.trans (X.rel.nk m).cutoff
theorem createdIn (X : Mid env n b rhs br r s t s') (m : Nat) :
    (s'.nodeD m).createdIn = (s.nodeD m).createdIn :=
  (X.step.shapes m).createdIn.trans (X.rel.nk m).createdIn
theorem observers (X : Mid env n b rhs br r s t s') (m : Nat) :
    (s'.nodeD m).observers = (s.nodeD m).observers :=
  (X.step.shapes m).observers.trans (X.rel.nk m).observers

theorem ne (X : Mid env n b rhs br r s t s') : br.main ≠ n := by have := X.hnm; omega

/-- the last step changes no stamp at all (`n` was stamped before `relink`) -/
theorem recT (X : Mid env n b rhs br r s t s') (m : Nat) :
    (s'.nodeD m).recomputedAt = (t.nodeD m).recomputedAt := by
  by_cases e : m = n
  · subst e; rw [X.step.recomputedAt, X.rel.recN, X.rel.stabNum]
  · exact (X.step.other m e).recomputedAt

theorem chgT (X : Mid env n b rhs br r s t s') (m : Nat) :
    (s'.nodeD m).changedAt = (t.nodeD m).changedAt := by
  by_cases e : m = n
  · subst e; rw [X.step.changedAt, if_pos rfl, X.rel.chgN, X.rel.stabNum]
  · exact (X.step.other m e).changedAt

theorem keyEq (X : Mid env n b rhs br r s t s') : BL.KeyEq t s' :=
  ⟨X.step.size, X.step.binds, X.step.vars, fun m => (X.step.shapes m).valid, fun m => (X.step.shapes m).kind,
    fun m => (X.step.shapes m).cutoff, fun m => (X.step.shapes m).createdIn, X.recT, X.chgT⟩

theorem staleT (X : Mid env n b rhs br r s t s') (m : Nat) : s'.isStale m = t.isStale m :=
  X.keyEq.isStale X.ginv.frag m

theorem childrenT (X : Mid env n b rhs br r s t s') (m : Nat) : s'.children m = t.children m :=
  X.keyEq.children X.ginv.frag m

theorem children_main_t (X : Mid env n b rhs br r s t s') (A : AllB env s) : t.children br.main = [n, rhs] :=
  X.rel.children_main' A X.hml X.hkm

theorem children_other (X : Mid env n b rhs br r s t s') (A : AllB env s) {m : Nat} (hm : m ≠ br.main) :
    s'.children m = s.children m :=
  (X.childrenT m).trans (X.rel.children A X.hb hm)

/-- the main node is stale after `relink` -/
theorem main_stale (X : Mid env n b rhs br r s t s') (A : AllB env s)
    (hmr : (s.nodeD br.main).recomputedAt < s.stabNum) : t.isStale br.main = true := by
  have hlt : br.main < t.nodes.size := by rw [X.rel.size]; exact X.hml
  have N := X.ginv.frag.node br.main hlt
  apply isStale_of_child N.valid N.kind (c := n)
  · rw [X.children_main_t A]; simp
  · rw [X.rel.chgN, X.rel.recO br.main X.ne]; exact hmr

/-- the only recorded parent of `n` after `relink` is the main node -/
theorem par_n (X : Mid env n b rhs br r s t s') (hk : (s.nodeD n).kind = .bindLhsChange b) {p : Nat}
    (hp : p ∈ (t.nodeD n).parents.map (·.1)) : p = br.main := by
  obtain ⟨⟨p', i⟩, hmem, rfl⟩ := List.mem_map.1 hp
  obtain ⟨hci, -⟩ := X.ginv.par n p' i hmem
  have hpl := X.ginv.kid_lt_size hci
  have N := X.ginv.frag.node p' hpl
  have hkp := N.lcChild n b (List.mem_of_getElem? hci) (by rw [(X.rel.nk n).kind]; exact hk)
  obtain ⟨br', hb', hm', -⟩ := N.mainRec b n hkp
  rw [X.rel.bind] at hb'
  cases hb'
  exact hm'.symm

theorem main_par (X : Mid env n b rhs br r s t s') (A : AllB env s) :
    br.main ∈ (t.nodeD n).parents.map (·.1) := by
  have h0 : (t.children br.main)[0]? = some n := by rw [X.children_main_t A]; rfl
  exact List.mem_map.2 ⟨(br.main, 0), X.ginv.conv br.main 0 n h0 ((wants_closed rfl).2 X.necMain), rfl⟩

end Mid

/-- **the run of a change detector in F0 satisfies `StepL`** -/
theorem stepL_of_mid {env : Env} {n b rhs : Nat} {br : BindRec} {r : Option Nat} {s t s' : State}
    (I : DInv env s (some n)) (A : F0Inv env s) (hk : (s.nodeD n).kind = .bindLhsChange b)
    (hmr : (s.nodeD br.main).recomputedAt < s.stabNum)
    (X : Mid env n b rhs br r s t s') :
    StepL env n b br { br with rhs := some rhs } r s s' := by
  have R := X.step
  have M := X.rel
  have hmst := X.main_stale A.frag hmr
  refine
    { bind := X.hb
      bind' := by rw [R.binds]; exact M.bind
      lc := ⟨X.hlc, X.hlc, rfl, rfl, rfl⟩
      bindsOther := ⟨by rw [R.binds]; exact M.bindsSize, fun b' e => by rw [R.binds]; exact M.bindsOther b' e⟩
      grow := by rw [X.size]; exact Nat.le_refl _
      vars := R.vars.trans M.vars
      stabNum := X.stab
      graph' := R.graph X.graph
      heap' := R.heap
      stamps' := ⟨by rw [X.stab]; exact I.stamps.now, fun m => ?_, fun c vc h => ?_⟩
      qstale' := fun m hm => ?_
      pending' := fun m hn hs => ?_
      self := ?_
      old := fun m hm e => Or.inr ?_
      new := fun m h1 h2 => by rw [X.size] at h2; omega
      main := ⟨X.hml, X.hmem, by rw [X.childrenT, X.children_main_t A.frag]; simp, X.ne⟩
      ret := fun p hp => ?_ }
  · -- stamps of the nodes
    rw [X.stab, X.recT, X.chgT]
    by_cases e : m = n
    · subst e; rw [M.recN, M.chgN]; exact ⟨Int.le_refl _, Int.le_refl _⟩
    · rw [M.recO m e, M.chgO m e]; exact I.stamps.node m
  · -- stamps of the variables
    rw [R.vars, M.vars] at h
    rw [X.stab]; exact I.stamps.var c vc h
  · -- only stale nodes are queued
    rw [X.staleT]
    rcases R.newIn m hm with h1 | ⟨-, h1⟩
    · exact X.ginv.qstale m h1
    · rw [X.par_n hk h1]; exact hmst
  · -- stale necessary nodes are queued or handed over
    rw [R.nec] at hn
    rw [X.staleT] at hs
    by_cases e : m = br.main
    · rw [e]; exact R.parentsIn rfl br.main (X.main_par A.frag)
    · left
      have hq := X.ginv.queued m rfl hn hs e
      by_cases e2 : m = n
      · exfalso
        have hlt : n < t.nodes.size := nec_lt_size X.necN
        have hfr : t.isStale n = false := by
          apply isStale_fresh (X.ginv.frag.node n hlt).kind (by rw [M.stabNum]; exact I.stamps.now)
            (by rw [M.recN, M.stabNum])
          · intro c vc h
            rw [M.vars] at h
            rw [M.stabNum]; exact I.stamps.var c vc h
          · intro c
            rw [M.stabNum]
            by_cases e3 : c = n
            · rw [e3, M.chgN]; exact Int.le_refl _
            · rw [M.chgO c e3]; exact (I.stamps.node c).2
        rw [e2, hfr] at hs; cases hs
      · exact (R.other m e2).inRch hq
  · -- the change detector itself
    refine ⟨by rw [R.recomputedAt, M.stabNum], by rw [R.changedAt, if_pos rfl, M.stabNum], R.value, ?_, X.kind n,
      X.children_other A.frag (Ne.symm X.ne), X.createdIn n⟩
    rw [X.valid]; exact (I.cur_facts).2.2.1
  · -- the other old nodes
    refine ⟨X.valid m, X.kind m, X.createdIn m, ?_, ?_, ?_, fun hm' => X.children_other A.frag hm'⟩
    · rw [(R.other m e).value, M.value]
    · rw [(R.other m e).recomputedAt, M.recO m e]
    · rw [(R.other m e).changedAt, M.chgO m e]
  · -- the handed-over node
    obtain ⟨-, h1, h2, h3⟩ := R.ret p hp
    have hpm := X.par_n hk h1
    subst hpm
    refine ⟨rfl, h2, by rw [R.nec]; exact X.necMain, fun m hm => ?_⟩
    have hcm := X.children_main_t A.frag
    rw [(R.shapes _).height, (R.shapes m).height]
    rcases h3 with ⟨h4, -⟩ | h4 | ⟨b', lc, -, h4, -⟩
    · rw [hcm] at h4; cases h4
    · exact h4 m hm
    · rw [hcm] at h4
      injection h4 with _ h5
      injection h5 with h6 _
      have := X.hrn
      omega

end BC
end IncrVerif.Proofs.BindH
