import IncrVerif.Proofs.TidyH64
/-!
# T1b, part 8: the drain of the fragment static + `map_ref` RETURNS

Port of `Sched.recompute_total` / `drainHeap_total(_values)`: the invariants live on the virtual state; every pop and
every step of a direct-recompute chain lowers `unrun (virt g s)` and uses one unit of fuel, and a step needs
`s.nodes.size` further units for its `child_changed` recursion.
-/
namespace IncrVerif.Proofs.TidyH.RT
open IncrVerif.Engine IncrVerif.Driver IncrVerif.Proofs IncrVerif.Proofs.Step IncrVerif.Proofs.Sched IncrVerif.Proofs.Quiet
open IncrVerif.Proofs.MapRefH

section
variable {env : Env}

theorem dstep_size {s s' : State} {g g' : Nat → Option Val} (f : DStep env s s' g g') :
    s'.nodes.size = s.nodes.size := by
  have := f.frame.size; rwa [virt_size, virt_size] at this

/-- after its `recompute` the current node carries the stamp of the round -/
theorem recomputeR_ran : ∀ (fuel n : Nat) (s s' : State) (g : Nat → Option Val), DInvR env s g (some n) →
    (recompute env fuel n).run.run s = (.ok (), s') → (s'.nodeD n).recomputedAt = s.stabNum := by
  intro fuel
  cases fuel with
  | zero => intro n s s' g _ h; unfold recompute at h; cases h
  | succ fuel =>
    intro n s s' g D h
    unfold recompute at h
    obtain ⟨r, s1, h1, h2⟩ := bind_ok_inv h
    obtain ⟨g1, D1, f1, hn1⟩ := recomputeOneR_inv D h1
    rw [virt_nodeD, virtNode_recomputedAt] at hn1
    cases r with
    | none => obtain ⟨-, rfl⟩ := pure_ok_inv h2; exact hn1
    | some p =>
      obtain ⟨g2, -, f2⟩ := recomputeR_inv fuel p s1 s' g1 D1 h2
      have hst : (virt g1 s1).stabNum = s.stabNum := f1.frame.stabNum
      have := f2.frame.ran n (by rw [virt_nodeD, virtNode_recomputedAt, hst]; exact hn1)
      rw [virt_nodeD, virtNode_recomputedAt, hst] at this
      exact this

/-- **the chain returns** -/
theorem recomputeR_total : ∀ (fuel n : Nat) (s : State) (g : Nat → Option Val), DInvR env s g (some n) →
    Safe (virt g s) → unrun (virt g s) + s.nodes.size + 1 ≤ fuel →
    ∃ s', (recompute env fuel n).run.run s = (.ok (), s') := by
  intro fuel
  induction fuel with
  | zero => intro n s g _ _ h; omega
  | succ fuel ih =>
    intro n s g D S hf
    have I := D.inv
    have hnlt := (I.graph.nec n (I.cur n rfl).1).1
    have hpos := unrun_pos hnlt I.cur_not_yet
    obtain ⟨r, s1, h1⟩ := recomputeOneR_returns (fuel := fuel) D S (by omega) (by omega)
    obtain ⟨g1, D1, f1, hn1⟩ := recomputeOneR_inv D h1
    unfold recompute
    rw [run_bind_ok h1]
    cases r with
    | none => exact ⟨s1, rfl⟩
    | some p =>
      have hlt := f1.frame.unrun_lt I.stamps hnlt I.cur_not_yet hn1
      have hsz := dstep_size f1
      exact ih p s1 g1 D1 (S.frame f1.frame) (by omega)

/-- **the drain returns** -/
theorem drainHeapR_total : ∀ (fuel : Nat) (s : State) (g : Nat → Option Val), DInvR env s g none →
    Safe (virt g s) → unrun (virt g s) + s.nodes.size + 2 ≤ fuel →
    ∃ s', (drainHeap env fuel).run.run s = (.ok (), s') := by
  intro fuel
  induction fuel with
  | zero => intro s g _ _ h; omega
  | succ fuel ih =>
    intro s g D S hf
    obtain ⟨r, s1, hpop⟩ := rchRemoveMin_ok (heapInv_of_virt D.inv.heap)
    unfold drainHeap
    rw [run_bind_ok hpop]
    cases r with
    | none => exact ⟨s1, rfl⟩
    | some n =>
      obtain ⟨hv, F1, K1, hp1⟩ := popR D hpop
      obtain ⟨I1, f1⟩ := pop_inv D.inv hv
      have D1 : DInvR env s1 g (some n) := ⟨F1, I1, K1, hp1⟩
      have hle := f1.unrun_le D.inv.stamps
      have hsz1 : s1.nodes.size = s.nodes.size := by have := f1.size; rwa [virt_size, virt_size] at this
      obtain ⟨s2, hrec⟩ := recomputeR_total fuel n s1 g D1 (S.frame f1) (by omega)
      obtain ⟨g2, D2, f2⟩ := recomputeR_inv fuel n s1 s2 g D1 hrec
      have hnlt := (I1.graph.nec n (I1.cur n rfl).1).1
      -- the popped node has run
      have hran : ((virt g2 s2).nodeD n).recomputedAt = (virt g s1).stabNum := by
        rw [virt_nodeD, virtNode_recomputedAt]; exact recomputeR_ran fuel n s1 s2 g D1 hrec
      have hlt := f2.frame.unrun_lt I1.stamps hnlt I1.cur_not_yet hran
      have hsz2 := dstep_size f2
      obtain ⟨s', hd⟩ := ih s2 g2 D2 ((S.frame f1).frame f2.frame) (by omega)
      exact ⟨s', by rw [run_bind_ok hrec]; exact hd⟩

end
end IncrVerif.Proofs.TidyH.RT
