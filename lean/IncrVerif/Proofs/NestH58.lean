import IncrVerif.Proofs.NestH57
import IncrVerif.Proofs.NestH54
/-!
# Nested binds (F2), part 4e: `stabilise` on programs with nested binds (fragment F2), given the lc-step theorem `LcStepF2 env`

Port of `BindH97` (`C2e`).  The only hypothesis left is `H : LcStepF2 env` (the description of a run of a change detector, `N2g`).
-/
namespace IncrVerif.Proofs.NestH
open IncrVerif.Engine IncrVerif.Proofs IncrVerif.Proofs.Step IncrVerif.Proofs.Sched IncrVerif.Proofs.Quiet
open IncrVerif.Proofs.BindH

/-- **`stabilise` on a program with nested binds** (given the lc-step theorem).  From the invariant between API actions `QI2`, a successful `stabilise` (with
arbitrary pending new/disallowed observers) ends in the invariant again (`Stabilised2.inv : QI2 env s'`); variables unchanged, round number + 1; every
necessary node is valid, non-stale and reads (stored value and observer read) its from-scratch value `evalB` in the final graph; the drain started from a
state with the drain invariant, ran no node twice and no node of a generation (of a bind or of an inner bind) that died in it. -/
theorem stabilise_F2 {env : Env} (H : LcStepF2 env) {fuel : Nat} {s s' : State} (Q : QI2 env s)
    (h : (stabilise env fuel).run.run s = (.ok (), s')) : Stabilised2 env fuel s s' :=
  stabilise_q2 (lcStepsOK_auxS_F2 H) Q h

/-- after a `stabilise` every in-use observer reads the from-scratch value of its node, and every observer is in use or unlinked -/
theorem stabilise_reads_F2 {env : Env} (H : LcStepF2 env) {fuel : Nat} {s s' : State} (Q : QI2 env s)
    (h : (stabilise env fuel).run.run s = (.ok (), s')) : ReadsOK1 env s' ∧ ObsSettled s' :=
  stabilised_reads2 (stabilise_F2 H Q h)

end IncrVerif.Proofs.NestH
