import IncrVerif.Proofs.CutH27
/-!
# C06 for whole histories, part 9: between stabilisations nothing happens to values and stamps

* `step_kept`: a static API action other than `stabilise` leaves value, `recomputedAt`, `changedAt` and kind of every
  existing node untouched; it leaves every cutoff untouched unless it is a `cutoff` action.
* `always_history`: hence, over any list of static actions without `cutoff` actions, a node with cutoff `.always` that has
  a value keeps its `changedAt` for ever (and its cutoff, and it keeps having a value): "after its first result the
  node never bumps `changedAt` again".
-/
namespace IncrVerif.Proofs.CutH
open IncrVerif.Engine IncrVerif.Driver IncrVerif.Proofs IncrVerif.Proofs.Step IncrVerif.Proofs.Sched
variable {e : Bool}

/-- the node array is untouched -/
def NodesEq (s s' : State) : Prop := s'.nodes = s.nodes

instance : PreOrd NodesEq := ⟨fun _ => rfl, fun h1 h2 => Eq.trans h2 h1⟩

macro_rules
  | `(tactic| qleaf) =>
    `(tactic| ((with_reducible apply Step.Pres.modify); intro _; exact (rfl : State.nodes _ = State.nodes _)))

theorem PresN.bumpCounter (f) : Step.Pres NodesEq (bumpCounter f) := by unfold Engine.bumpCounter; qpres
macro_rules | `(tactic| qleaf) => `(tactic| with_reducible apply PresN.bumpCounter)
theorem PresN.getObs (o) : Step.Pres NodesEq (getObs o) := by unfold Engine.getObs; qpres
macro_rules | `(tactic| qleaf) => `(tactic| with_reducible apply PresN.getObs)
theorem PresN.modObs (o f) : Step.Pres NodesEq (modObs o f) := by unfold Engine.modObs; qpres
macro_rules | `(tactic| qleaf) => `(tactic| with_reducible apply PresN.modObs)
theorem PresN.disallowFutureUse (o) : Step.Pres NodesEq (disallowFutureUse o) := by
  unfold Engine.disallowFutureUse; qpres
macro_rules | `(tactic| qleaf) => `(tactic| with_reducible apply PresN.disallowFutureUse)
theorem PresN.resolveOpnd (l o) : Step.Pres NodesEq (resolveOpnd l o) := by unfold Engine.resolveOpnd; qpres
macro_rules | `(tactic| qleaf) => `(tactic| with_reducible apply PresN.resolveOpnd)

/-- value, both stamps and kind of every existing node are the same in `s'` -/
def Kept (s s' : State) : Prop :=
  s.nodes.size ≤ s'.nodes.size ∧
    ∀ m, m < s.nodes.size → Untouched s s' m ∧ (s'.nodeD m).kind = (s.nodeD m).kind

/-- the cutoff of every existing node is the same in `s'` -/
def KeptCut (s s' : State) : Prop := ∀ m, m < s.nodes.size → (s'.nodeD m).cutoff = (s.nodeD m).cutoff

theorem Kept.refl (s : State) : Kept s s := ⟨Nat.le_refl _, fun m _ => ⟨Untouched.refl s m, rfl⟩⟩

theorem Kept.trans {a b c : State} (h1 : Kept a b) (h2 : Kept b c) : Kept a c := by
  refine ⟨Nat.le_trans h1.1 h2.1, fun m hm => ?_⟩
  obtain ⟨u1, k1⟩ := h1.2 m hm
  obtain ⟨u2, k2⟩ := h2.2 m (Nat.lt_of_lt_of_le hm h1.1)
  exact ⟨u1.trans u2, k2.trans k1⟩

theorem KeptCut.trans {a b c : State} (hs : a.nodes.size ≤ b.nodes.size) (h1 : KeptCut a b) (h2 : KeptCut b c) :
    KeptCut a c := fun m hm => (h2 m (Nat.lt_of_lt_of_le hm hs)).trans (h1 m hm)

theorem kept_of_nodes {s s' : State} (h : s'.nodes = s.nodes) : Kept s s' ∧ KeptCut s s' := by
  have hnd : ∀ m, s'.nodeD m = s.nodeD m := fun m => by simp [State.nodeD, h]
  refine ⟨⟨by rw [h]; exact Nat.le_refl _, fun m _ => ?_⟩, fun m _ => by rw [hnd]⟩
  rw [Untouched, hnd]; exact ⟨⟨rfl, rfl, rfl⟩, rfl⟩

/-- is the action a `cutoff` action? -/
def IsCutoff : Action → Bool
  | .create (.cutoff _ _) => true
  | _ => false

/-- a write keeps the node data (only `heightInRch` of the watch node may change) -/
theorem writeVar_kept {env : Env} {s s' : State} {v : Nat} {f : Val → Val} {isSet : Bool} {r : Val}
    (Q : QInv env e s) (h : (writeVar v f isSet).run.run s = (.ok r, s')) : Kept s s' ∧ KeptCut s s' := by
  obtain ⟨vc, hv⟩ := writeVar_ok_cell h
  have hst : s.status ≠ .stabilising := by rw [Q.status]; intro e; cases e
  obtain ⟨-, hs', -, -, hh⟩ := writeVar_outside_ok v f isSet s s' vc r hv hst h
  obtain ⟨R, -⟩ := wroteOutside_q (f vc.value) Q hv hh
  rw [← hs'] at R
  refine ⟨⟨by rw [R.size]; exact Nat.le_refl _, fun m _ => ⟨⟨R.value m, R.recomputedAt m, R.changedAt m⟩, R.kind m⟩⟩,
    fun m _ => ?_⟩
  obtain ⟨y, ey⟩ := R.node m
  rw [ey]

/-- **between stabilisations.** A static action other than `stabilise` leaves value, stamps and kind of every existing
node untouched, and the cutoffs too unless it is a `cutoff` action. -/
theorem step_kept {env : Env} {s s' : State} {a : Action} {tokens : Array Nat} {r : String × Array Nat}
    (Q : QInv env e s) (ha : StaticAction env a) (hns : a ≠ .stabilise)
    (h : (stepAction env a tokens).run.run s = (.ok r, s')) :
    Kept s s' ∧ (IsCutoff a = false → KeptCut s s') := by
  have viaNodes : Step.Pres NodesEq (stepAction env a tokens) → Kept s s' ∧ (IsCutoff a = false → KeptCut s s') :=
    fun P => ⟨(kept_of_nodes (P.h _ _ _ h)).1, fun _ => (kept_of_nodes (P.h _ _ _ h)).2⟩
  have viaWrite : ∀ {v : Nat} {f : Val → Val} {isSet : Bool} {r1 : Val},
      (writeVar v f isSet).run.run s = (.ok r1, s') → Kept s s' ∧ (IsCutoff a = false → KeptCut s s') :=
    fun hw => ⟨(writeVar_kept Q hw).1, fun _ => (writeVar_kept Q hw).2⟩
  cases a <;> try exact ha.elim
  case stabilise => exact absurd rfl hns
  case create i =>
    unfold stepAction at h
    simp only at h
    obtain ⟨ro, s1, h1, h2⟩ := bind_ok_inv h
    rcases elab_static Q ha h1 with ⟨k, cut, ero, hk, hkids, hcut, C⟩ | ⟨n, c, ei, m, ero, es1⟩
    · rw [ero] at h2
      simp only at h2
      obtain ⟨s2, e2, h3⟩ := bind_modify_inv h2
      obtain ⟨-, e3⟩ := pure_ok_inv h3
      have hnd : ∀ m, m < s.nodes.size → s'.nodeD m = s.nodeD m := by
        intro m hm
        rw [e3, e2]
        exact C.nodeD_lt hm
      have hsz : s'.nodes.size = s.nodes.size + 1 := by rw [e3, e2]; exact C.size
      refine ⟨⟨by omega, fun m hm => ?_⟩, fun _ m hm => by rw [hnd m hm]⟩
      rw [Untouched, hnd m hm]; exact ⟨⟨rfl, rfl, rfl⟩, rfl⟩
    · rw [ero] at h2
      simp only at h2
      obtain ⟨-, e3⟩ := pure_ok_inv h2
      rw [e3, es1]
      refine ⟨⟨by rw [(cutSet_sameC m c s).size]; exact Nat.le_refl _, fun k _ => ?_⟩, fun hc => ?_⟩
      · have g := (cutSet_sameC m c s).node k
        exact ⟨⟨cutSet_value m c s k, g.recomputedAt, g.changedAt⟩, g.kind⟩
      · rw [ei] at hc; cases hc
  case observe n =>
    apply viaNodes
    unfold stepAction; qpres
  case cloneObs o =>
    apply viaNodes
    unfold stepAction; qpres
  case dropObs o =>
    apply viaNodes
    unfold stepAction; qpres
  case disallow o =>
    apply viaNodes
    unfold stepAction; qpres
  case set v x =>
    unfold stepAction at h
    dsimp only at h
    obtain ⟨_, s1, h1, h2⟩ := bind_ok_inv h
    obtain ⟨-, e2⟩ := pure_ok_inv h2
    obtain ⟨r1, h1⟩ := discard_ok_inv h1
    exact viaWrite (by rw [e2]; exact h1)
  case modify v d =>
    unfold stepAction at h
    dsimp only at h
    obtain ⟨_, s1, h1, h2⟩ := bind_ok_inv h
    obtain ⟨-, e2⟩ := pure_ok_inv h2
    obtain ⟨r1, h1⟩ := discard_ok_inv h1
    exact viaWrite (by rw [e2]; exact h1)
  case update v d =>
    unfold stepAction at h
    dsimp only at h
    obtain ⟨_, s1, h1, h2⟩ := bind_ok_inv h
    obtain ⟨-, e2⟩ := pure_ok_inv h2
    obtain ⟨r1, h1⟩ := discard_ok_inv h1
    exact viaWrite (by rw [e2]; exact h1)
  case replace v x =>
    unfold stepAction at h
    dsimp only at h
    obtain ⟨_, s1, h1, h2⟩ := bind_ok_inv h
    obtain ⟨-, e2⟩ := pure_ok_inv h2
    exact viaWrite (by rw [e2]; exact h1)
  case replaceWith v d =>
    unfold stepAction at h
    dsimp only at h
    obtain ⟨_, s1, h1, h2⟩ := bind_ok_inv h
    obtain ⟨-, e2⟩ := pure_ok_inv h2
    exact viaWrite (by rw [e2]; exact h1)
  case get v =>
    apply viaNodes
    unfold stepAction; qpres
  case isStable =>
    apply viaNodes
    unfold stepAction; qpres
  case stats =>
    apply viaNodes
    unfold stepAction; qpres

/-- **`Cutoff::Always`, whole histories.** From a reachable state in which node `m` has cutoff `.always` and a value,
run any list of static actions that contains no `cutoff` action: `m` still has cutoff `.always`, still has a value, and
its `changedAt` is what it was — it never bumps `changedAt` again, however often it is recomputed. -/
theorem always_history {env : Env} {acts : List Action} {s s' : State} {tk tk' : Array Nat} {m : Nat}
    (Q : QInv env e s) (ha : ∀ a, a ∈ acts → StaticAction env a) (hnc : ∀ a, a ∈ acts → IsCutoff a = false)
    (hm : m < s.nodes.size) (hc : (s.nodeD m).cutoff = .always) (hv : (s.nodeD m).value ≠ none)
    (h : runActions env acts s tk = .ok (s', tk')) :
    (s'.nodeD m).cutoff = .always ∧ (s'.nodeD m).value ≠ none ∧
      (s'.nodeD m).changedAt = (s.nodeD m).changedAt := by
  induction acts generalizing e s tk with
  | nil => simp only [runActions] at h; cases h; exact ⟨hc, hv, rfl⟩
  | cons a as ih =>
    simp only [runActions] at h
    rcases hx : (stepAction env a tk).run.run s with ⟨_ | r, s1⟩
    · rw [hx] at h; cases h
    · rw [hx] at h
      have ha0 := ha a (List.mem_cons_self ..)
      have Q1 := step_qx Q ha0 hx
      -- one action keeps the three facts
      have key : s.nodes.size ≤ s1.nodes.size ∧ (s1.nodeD m).cutoff = .always ∧ (s1.nodeD m).value ≠ none ∧
          (s1.nodeD m).changedAt = (s.nodeD m).changedAt := by
        by_cases hst : a = .stabilise
        · subst hst
          have hrun := step_stabilise hx
          have G := stabilise_gate Q hrun
          have R := stabilise_q Q hrun
          refine ⟨by rw [R.size]; exact Nat.le_refl _, by rw [G.cutoff, hc], ?_, G.always_keeps hc hv⟩
          by_cases hran : (s1.nodeD m).recomputedAt = s.stabNum
          · obtain ⟨w, -, hw⟩ := G.ran_consistent hran
            rw [hw]; intro hn; cases hn
          · rw [(G.notRan m hran).1]; exact hv
        · obtain ⟨K, KC⟩ := step_kept Q ha0 hst hx
          obtain ⟨u, -⟩ := K.2 m hm
          exact ⟨K.1, by rw [KC (hnc a (List.mem_cons_self ..)) m hm, hc], by rw [u.1]; exact hv, u.2.2⟩
      obtain ⟨k0, k1, k2, k3⟩ := key
      obtain ⟨r1, r2, r3⟩ := ih Q1 (fun b hb => ha b (List.mem_cons_of_mem _ hb))
        (fun b hb => hnc b (List.mem_cons_of_mem _ hb)) (Nat.lt_of_lt_of_le hm k0) k1 k2 h
      exact ⟨r1, r2, r3.trans k3⟩

end IncrVerif.Proofs.CutH
