import IncrVerif.Proofs.FullH32
import IncrVerif.Proofs.FullH17
import IncrVerif.Proofs.FullH10
import IncrVerif.Proofs.MapOld12
import IncrVerif.Proofs.BindH10
/-!
# C01 full fragment, MW3: building the `StepRelB` of a map_with_old step; frames of the actual run moved to the virtual states
-/
namespace IncrVerif.Proofs.FullH
open IncrVerif.Engine IncrVerif.Proofs IncrVerif.Proofs.Step IncrVerif.Proofs.Sched IncrVerif.Proofs.Quiet
open IncrVerif.Proofs.BindH (DInv BGraph StepRelB Edge Below TargetB ConsistentB BKind)
open IncrVerif.Proofs.NestH (AuxS2 Aux2 GenOK2 F2Inv)
open IncrVerif.Proofs.MapOldH (mwoX mwoX_nodeD mwoX_size)
open IncrVerif.Proofs.MapRefH (ValFrame)
namespace MW

/-! ## `StepRelB` from the two shapes of the run (pure `BindH` level) -/

/-- the machine reports "unchanged": nothing but the stamp of `n` moves -/
theorem rel_false {env : Env} {P W : State} {n : Nat} {v : Val} (gP : BGraph env P) (hiP : HeapInv P) (hU : Upd n P W)
    (hb : W.binds = P.binds) (hv : (W.nodeD n).value = some v) (hr : (W.nodeD n).recomputedAt = P.stabNum)
    (hc : (W.nodeD n).changedAt = (P.nodeD n).changedAt) (hold : (P.nodeD n).value = some v) :
    StepRelB n v false none P W :=
  BindH.BS.stepRelB_of_quiet gP hU hb (Step.Quiet.refl _) hv hr (by rw [hc]; simp) (fun _ => ⟨hold, rfl⟩) (hU.heap hiP) rfl
    (fun m hm => Or.inl hm) (fun hc => by cases hc) (fun p hp => by cases hp)

/-- the machine reports "changed": the notification walk, run in a state `W` of the `Upd` family of `S` -/
theorem rel_true {env : Env} {fuel n : Nat} {o : Option Val} {v : Val} {S W S' : State} {r : Option Nat}
    (gr : BGraph env S) (hi : HeapInv S) (hlt : n < S.nodes.size) (hU : Upd n S W) (hb : W.binds = S.binds)
    (hv : (W.nodeD n).value = some v) (hr : (W.nodeD n).recomputedAt = S.stabNum)
    (h : (maybeChangeValueManual env fuel n o true true).run.run W = (.ok r, S')) : StepRelB n v true r S S' := by
  have hltW : n < W.nodes.size := by rw [hU.size]; exact hlt
  have q : Step.Quiet (touched n W) S' := mcvm_true_quiet _ _ _ _ _ _ _ _ h
  have hUT : Upd n S (touched n W) := hU.touched
  have hbT : (touched n W).binds = S.binds := hb
  have eT : (touched n W).nodeD n = { W.nodeD n with changedAt := W.stabNum } := by
    rw [touched_nodeD, if_pos ⟨rfl, hltW⟩]
  have hparT : ((touched n W).nodeD n).parents = (S.nodeD n).parents := hUT.shape.parents
  have hpar : ∀ p, p ∈ ((touched n W).nodeD n).parents.map (·.1) → BindH.BS.ParentOK env (touched n W) p := by
    intro p hp
    rw [hparT] at hp
    obtain ⟨⟨p', ci⟩, hmem, rfl⟩ := List.mem_map.1 hp
    have hpn := (gr.parent n p' ci hmem).1
    have h1 := BindH.BS.nec_lt hpn
    have h2 := (gr.nec p' hpn).1
    have h3 := (gr.node p' h1 h2).1
    have sh := hUT.shapeAll p'
    exact ⟨by rw [hUT.size]; exact h1, by rw [sh.valid]; exact h2, by rw [sh.kind]; exact h3, by rw [hUT.nec]; exact hpn⟩
  obtain ⟨k, hret⟩ := BindH.BS.mcvm_heapB (hUT.heap hi) hpar h
  have hpin := mcvm_parents env fuel n _ W S' r _ (some_of_lt hltW) h
  have hparW : (W.nodeD n).parents = (S.nodeD n).parents := hU.shape.parents
  refine BindH.BS.stepRelB_of_quiet gr hUT hbT q ?_ ?_ ?_ (fun hc => by cases hc) k.heap k.qsize ?_ ?_ ?_
  · rw [eT]; exact hv
  · rw [eT]; exact hr
  · rw [eT, if_pos rfl]; exact hU.stabNum
  · intro m hm
    rcases k.only m hm with h1 | h1
    · exact Or.inl h1
    · rw [hparT] at h1; exact Or.inr ⟨rfl, h1⟩
  · intro _ p hp
    rw [← hparW] at hp
    rcases hpin p hp with h1 | h1
    · exact Or.inl h1.2
    · exact Or.inr h1.2.1
  · intro p hp
    obtain ⟨h1, h2, h3⟩ := hret p hp
    rw [hparT] at h1
    exact ⟨rfl, h1, h2, h3⟩

/-! ## frames of an actual run, moved to the virtual states -/

section
variable {g g' : Nat → Option Val} {s s' : State}

theorem dk_virt {b : Nat} (d : BindH.C2k.DK b s s') : BindH.C2k.DK b (virt g s) (virt g' s') where
  observers := d.observers
  allObservers := d.allObservers
  newObservers := d.newObservers
  disallowedObservers := d.disallowedObservers
  setDuringStab := d.setDuringStab
  deadVars := d.deadVars
  alive := d.alive
  status := d.status
  has h := by
    have h0 : ∀ m, (s.nodeD m).numOnUpdateHandlers = 0 := fun m => by
      have := h m; rwa [virt_nodeD, virtNode_num] at this
    obtain ⟨k1, k2⟩ := d.has h0
    exact ⟨fun m => by rw [virt_nodeD, virtNode_num]; exact k1 m, k2⟩
  grow := by rw [virt_size, virt_size]; exact d.grow
  old m hm := by
    rw [virt_size] at hm
    obtain ⟨a, b, c⟩ := d.old m hm
    simp only [virt_nodeD, virtNode_kind, virtNode_createdIn, virtNode_observers]
    exact ⟨by rw [a], b, c⟩
  new m h1 h2 := by
    rw [virt_size] at h1 h2
    rw [virt_nodeD, virtNode_createdIn]
    exact d.new m h1 h2

theorem hah_virt (h : BindH.BF.HAh s s') : BindH.BF.HAh (virt g s) (virt g' s') := by
  intro m
  rw [virt_nodeD, virt_nodeD, virtNode_heightInAhh, virtNode_heightInAhh]
  exact h m

theorem num_virt (h : ∀ m, (s'.nodeD m).numOnUpdateHandlers = (s.nodeD m).numOnUpdateHandlers) (m : Nat) :
    ((virt g' s').nodeD m).numOnUpdateHandlers = ((virt g s).nodeD m).numOnUpdateHandlers := by
  rw [virt_nodeD, virt_nodeD, virtNode_num, virtNode_num]
  exact h m

/-- the four state fields `F2Inv.transfer` asks for, from `KeyD` of the actual run -/
theorem keyD_fields (k : KeyD s s') : s'.top = s.top ∧ s'.ahh = s.ahh ∧ s'.propagateInvalidity = s.propagateInvalidity ∧
    s'.currentScope = s.currentScope := by
  simp only [KeyD, stateKeyD, Prod.mk.injEq] at k
  obtain ⟨-, -, hsc, htop, -, -, hpinv, -, -, -, hahh⟩ := k
  exact ⟨htop, hahh, hpinv, hsc⟩

end

/-! ## the state in which the notifications of a map_with_old step start -/

section
variable {g : Nat → Option Val} {s : State}

theorem virtNode_shape {gv gv' : Option Val} {nd nd' : Node} (hk : nd'.kind = nd.kind) (h1 : nd'.createdIn = nd.createdIn)
    (h2 : nd'.valid = nd.valid) (h3 : nd'.cutoff = nd.cutoff) (h4 : nd'.height = nd.height) (h5 : nd'.parents = nd.parents)
    (h6 : nd'.observers = nd.observers) (h7 : nd'.forceNecessary = nd.forceNecessary) :
    SameShape (virtNode gv nd) (virtNode gv' nd') :=
  ⟨by rw [virtNode_kind, virtNode_kind, hk], by rw [virtNode_createdIn, virtNode_createdIn, h1],
   by rw [virtNode_valid, virtNode_valid, h2], by rw [virtNode_cutoff, virtNode_cutoff, hk, h3],
   by rw [virtNode_height, virtNode_height, h4], by rw [virtNode_parents, virtNode_parents, h5],
   by rw [virtNode_observers, virtNode_observers, h6], by rw [virtNode_forceNecessary, virtNode_forceNecessary, h7]⟩

/-- the virtual image of that state differs from a virtual pre-state `P` (the virtual state itself, or patched at `n`)
only in the value and stamps of node `n` -/
theorem mwoX_upd {n : Nat} {new σ' : Val} {es : List Event} (P : State) (hn : n < s.nodes.size)
    (hpc : s.panicCountdown = none) (hP : ∀ m, ∃ w, P.nodeD m = { (virt g s).nodeD m with value := w })
    (hPo : ∀ m, m ≠ n → P.nodeD m = (virt g s).nodeD m)
    (hsz : P.nodes.size = s.nodes.size) (hvars : P.vars = s.vars) (hst : P.stabNum = s.stabNum) (hr : P.rch = s.rch) :
    Upd n P (virt g (mwoX n new σ' es s)) := by
  have hX := fun m => mwoX_nodeD n m new σ' es s hn
  refine ⟨by rw [virt_size, mwoX_size, hsz], hvars.symm, hst.symm, hpc, hr.symm, fun m hm => ?_, ?_, ?_⟩
  · rw [virt_nodeD, hX, if_neg hm, hPo m hm, virt_nodeD]
  · obtain ⟨w, hw⟩ := hP n
    rw [virt_nodeD, hX, if_pos rfl, hw, virt_nodeD]
    have := virtNode_shape (gv := g n) (gv' := g n) (nd := s.nodeD n)
      (nd' := { s.nodeD n with recomputedAt := s.stabNum, value := some new, oldState := σ' }) rfl rfl rfl rfl rfl rfl rfl rfl
    exact ⟨this.kind, this.createdIn, this.valid, this.cutoff, this.height, this.parents, this.observers, this.forceNecessary⟩
  · obtain ⟨w, hw⟩ := hP n
    rw [virt_nodeD, hX, if_pos rfl, hw, virt_nodeD]
    show (virtNode _ _).heightInRch = (virtNode _ _).heightInRch
    rw [virtNode_heightInRch, virtNode_heightInRch]

theorem mwoX_valFrame (n : Nat) (new σ' : Val) (es : List Event) (hn : n < s.nodes.size) :
    ValFrame n s (mwoX n new σ' es s) := by
  have hX := fun m => mwoX_nodeD n m new σ' es s hn
  refine ⟨mwoX_size .., ?_, ?_, ?_, ?_, ?_, ?_, ?_, ?_, fun h => h⟩
  all_goals intro m
  all_goals rw [hX]
  · split
    · rename_i e; rw [e]
    · rfl
  · split
    · rename_i e; rw [e]
    · rfl
  · split
    · rename_i e; rw [e]
    · rfl
  · split
    · rename_i e; rw [e]
    · rfl
  · split
    · rename_i e; rw [e]
    · rfl
  · split
    · rename_i e; rw [e]
    · rfl
  · split
    · rename_i e; rw [e]
    · rfl
  · intro hm; rw [if_neg hm]

end
end MW
end IncrVerif.Proofs.FullH
