import IncrVerif.Proofs.Sched13
import IncrVerif.Proofs.SchedEx2
/-!
# The example states are `Safe`
-/
namespace IncrVerif.Proofs.Sched
open IncrVerif.Engine IncrVerif.Proofs IncrVerif.Proofs.Step

theorem exD_safe : Safe exD where
  height := by
    refine cases3 _ ?_ ?_ ?_ ?_
    · intro _; decide
    · intro _; decide
    · intro _; decide
    · intro m hm h; rw [State.isNecessary, exD_ge m hm] at h; cases h
  scope := by
    refine cases3 _ ?_ ?_ ?_ ?_
    · intro _; rfl
    · intro _; rfl
    · intro _; rfl
    · intro m hm h; rw [State.isNecessary, exD_ge m hm] at h; cases h

theorem exQ_safe : Safe exQ where
  height := by
    refine cases3 _ ?_ ?_ ?_ ?_
    · intro _; decide
    · intro _; decide
    · intro _; decide
    · intro m hm h; rw [State.isNecessary, exQ_ge m hm] at h; cases h
  scope := by
    refine cases3 _ ?_ ?_ ?_ ?_
    · intro _; rfl
    · intro _; rfl
    · intro _; rfl
    · intro m hm h; rw [State.isNecessary, exQ_ge m hm] at h; cases h

end IncrVerif.Proofs.Sched
