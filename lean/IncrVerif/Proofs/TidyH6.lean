import IncrVerif.Proofs.TidyH4
import IncrVerif.Proofs.TidyH5
/-!
# C17 as a statement about the whole event log of one `stabilise` (fragment static + `map_with_old`)
-/
namespace IncrVerif.Proofs.TidyH
open IncrVerif IncrVerif.Engine IncrVerif.Driver IncrVerif.Proofs IncrVerif.Proofs.Step IncrVerif.Proofs.Sched IncrVerif.Proofs.Quiet
open IncrVerif.Proofs.MapOldH

theorem NoCalls.of_mute {n : Nat} {l : List Event} (h : ∀ e, e ∈ l → Mute e) : NoCalls n l := by
  intro e he
  have := h e he
  cases e with
  | inv w m a r => exact Or.inl this
  | cut => exact Or.inl trivial
  | notif => exact this.elim
  | note => exact Or.inr (fun h => h)

/-- what one `stabilise` does with the operator node `n` (closure `g`, input node `i`) and what it logs about it;
`new` is the part of the log written by this `stabilise` (most recent first) -/
inductive StabCalls (d : Defs) (n g i : Nat) (s s' : State) (new : List Event) : Prop
  /-- the operator did not run: stamp, closure state and stored output are unchanged, no user-function call of `n` -/
  | idle : (s'.nodeD n).recomputedAt = (s.nodeD n).recomputedAt → (s'.nodeD n).oldState = (s.nodeD n).oldState →
      (s'.nodeD n).value = (s.nodeD n).value → NoCalls n new → StabCalls d n g i s s' new
  /-- the operator ran, once: the calls are exactly `opCalls` of (closure state = the input it last ran on, stored
  output) before the `stabilise` and the value `x` its input node has after it -/
  | ran (x : Val) (A B : List Event) : (s'.nodeD n).recomputedAt = s.stabNum → (s'.nodeD i).value = some x → Canon x →
      new = A ++ callEvents n (opCalls d g (s.nodeD n).oldState (s.nodeD n).value x) ++ B →
      NoCalls n A → NoCalls n B → StabCalls d n g i s s' new

/-- **T2c: C17 for the whole log of one `stabilise`.** -/
theorem stabilise_calls {d : Defs} {n g i fuel : Nat} {s s' : State} (hg : opBase ≤ g)
    (Q : QInvW d.toEnv Canon (machSpec d) s) (hk : (s.nodeD n).kind = .mapWithOld g i)
    (h : (stabilise d.toEnv fuel).run.run s = (.ok (), s')) :
    ∃ new, s'.log = new ++ s.log ∧ (s.nodeD n).recomputedAt < s.stabNum ∧ StabCalls d n g i s s' new := by
  have V := valOK_toEnv d
  obtain ⟨t1, t2, t3, -, h1, h2, h3, h4⟩ := stabilise_split h
  obtain ⟨D2, W2, hst, hsd, hdv, hobs, hrec⟩ := prefix_drainInvW Q h1 h2
  obtain ⟨E, a1, a2, a3⟩ := end_finishedW V D2 hsd hdv hobs h3 h4
  have hlogE := stabiliseEnd_log a1 a2 a3 h4
  -- the prefix logs mute events only
  obtain ⟨n1, e1, m1⟩ := (addNewObservers_logN d.toEnv fuel).h _ _ _ h1
  obtain ⟨n2, e2, m2⟩ := (unlinkDisallowedObservers_logN fuel).h _ _ _ h2
  have e12 : t2.log = (n2 ++ n1) ++ s.log := by
    rw [e2, e1, List.append_assoc]
  have nc12 : NoCalls n (n2 ++ n1) := (NoCalls.of_mute m2).append (NoCalls.of_mute m1)
  have hk2 : (t2.nodeD n).kind = .mapWithOld g i := by rw [wKey_kind (W2.node n)]; exact hk
  have hold2 : (t2.nodeD n).oldState = (s.nodeD n).oldState := wKey_oldState (W2.node n)
  have hval2 : (t2.nodeD n).value = (s.nodeD n).value := wKey_value (W2.node n)
  have hrec_s : (s.nodeD n).recomputedAt < s.stabNum := (hrec n).2
  obtain ⟨-, hc⟩ := drain_log hg D2 hk2 (by rw [(hrec n).1, hst]; exact hrec_s) h3
  have hEn : ∀ m, ∃ b, s'.nodeD m = { t3.nodeD m with inHandleAfterStab := b } := E.node
  have f_rec : ∀ m, (s'.nodeD m).recomputedAt = (t3.nodeD m).recomputedAt := fun m => by
    obtain ⟨b, hb⟩ := hEn m; rw [hb]
  have f_old : ∀ m, (s'.nodeD m).oldState = (t3.nodeD m).oldState := fun m => by
    obtain ⟨b, hb⟩ := hEn m; rw [hb]
  have f_val : ∀ m, (s'.nodeD m).value = (t3.nodeD m).value := fun m => by
    obtain ⟨b, hb⟩ := hEn m; rw [hb]
  rcases hc with u | r
  · obtain ⟨A, eA, nA⟩ := u.log
    refine ⟨A ++ (n2 ++ n1), by rw [hlogE, eA, e12]; simp only [List.append_assoc], hrec_s, ?_⟩
    refine StabCalls.idle ?_ ?_ ?_ (nA.append nc12)
    · rw [f_rec, u.stamp]; exact (hrec n).1
    · rw [f_old, u.oldState, hold2]
    · rw [f_val, u.value, hval2]
  · obtain ⟨x, A, B, hx, hC, eL, nA, nB⟩ := r.log
    refine ⟨A ++ callEvents n (opCalls d g (s.nodeD n).oldState (s.nodeD n).value x) ++ (B ++ (n2 ++ n1)), ?_, hrec_s, ?_⟩
    · rw [hlogE, eL, e12, hold2, hval2]
      simp only [List.append_assoc]
    · refine StabCalls.ran x A (B ++ (n2 ++ n1)) ?_ ?_ hC rfl nA (nB.append nc12)
      · rw [f_rec, r.after, hst]
      · rw [f_val]; exact hx

end IncrVerif.Proofs.TidyH
