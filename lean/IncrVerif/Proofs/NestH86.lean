import IncrVerif.Proofs.NestH76
import IncrVerif.Proofs.NestH41
/-!
# Total correctness for binds (F1 ⊂ F2), part b1: the notification walk of `maybe_change_value_manual` never panics

Port of `Sched10`/`Sched11` (`ParentSafe`, `KInv.insert_run`, `KInv.picrn_run`, `mcvm_safe`) from static graphs to graphs with (nested) binds:
the parents of the changed node may be `bindLhsChange`/`bindMain` nodes and nodes of scopes.

* `T2b.ParentSafe2 env T n p`: what the walk needs of a parent `p` of the changed node `n`, in the state `T` in which the notification starts
  (value stored, `changedAt` stamped);
* `T2b.mcvm_noerr`: with `1 ≤ fuel`, a propagating `maybe_change_value_manual` whose parents are all `ParentSafe2` does not end in a panic.
-/
namespace IncrVerif.Proofs.NestH
open IncrVerif.Engine IncrVerif.Proofs IncrVerif.Proofs.Step IncrVerif.Proofs.Sched IncrVerif.Proofs.Quiet
open IncrVerif.Proofs.BindH
namespace T2b

/-- a run that cannot end in a panic returns -/
theorem tot_of_noerr {α} {x : M α} {s : State} (h : ∀ e s', x.run.run s ≠ (.error e, s')) :
    Tot x s (fun _ _ => True) := by
  rcases hx : x.run.run s with ⟨e | a, s'⟩
  · exact absurd hx (h e s')
  · exact ⟨a, s', hx, trivial⟩

/-- `child_changed` on a valid parent of a kind of the bind fragment returns at once (when there is fuel) -/
theorem childChanged_bkind_run {env : Env} {fuel p c ci : Nat} {o : Option Val} {t : State} {pn : Node}
    (hp : t.nodes[p]? = some pn) (hv : pn.valid = true) (hk : BKind env pn.kind) :
    (childChanged env (fuel + 1) p c ci o).run.run t = (.ok (), t) := by
  unfold childChanged
  rw [run_bind_ok (run_getNode_some hp)]
  rw [BS.kind?_of_valid hv]
  cases hkd : pn.kind <;> rw [hkd] at hk <;> first | rfl | exact False.elim hk

/-- what the walk needs of a parent `p` of `n`, in the state `T` in which the notification starts -/
structure ParentSafe2 (env : Env) (T : State) (n p : Nat) : Prop where
  ok : BS.ParentOK env T p
  child : n ∈ T.children p
  nlt : n < T.nodes.size
  stale : (T.nodeD p).recomputedAt < (T.nodeD n).changedAt
  h0 : 0 ≤ (T.nodeD p).height
  hmax : (T.nodeD p).height ≤ T.rch.maxAllowed
  /-- the scope of the parent: the record and the change detector exist -/
  scope : ∀ b, (T.nodeD p).createdIn = .bind b → ∃ br, T.binds[b]? = some br ∧ br.lhsChange < T.nodes.size
  /-- the change detector of a main node exists -/
  main : ∀ b lc, (T.nodeD p).kind = .bindMain b lc → lc < T.nodes.size

/-- the child list of a parent does not change during the walk -/
theorem children_quiet {env : Env} {T t : State} {p : Nat} (ok : BS.ParentOK env T p) (q : Quiet T t) :
    t.children p = T.children p :=
  children_congr_kind (q.node p).kind (q.node p).valid q.binds (fun e => ok.kind.not_expert e)

/-- a parent of the changed node needs to be computed, throughout the notification walk -/
theorem ParentSafe2.needs {env : Env} {T t : State} {n p : Nat} (h : ParentSafe2 env T n p) (q : Quiet T t) :
    t.needsToBeComputed p = true := by
  have ok := h.ok.quiet q
  have hst : t.isStale p = true := by
    apply isStale_of_child (env := env) (c := n) ok.valid ok.kind
    · rw [children_quiet h.ok q]; exact h.child
    · rw [(q.node n).changedAt, (q.node p).recomputedAt]; exact h.stale
  unfold State.needsToBeComputed
  rw [ok.nec, hst]; rfl

/-- `insert p` for a not yet queued parent `p`, during the walk -/
theorem insert_run2 {env : Env} {T t : State} {P : List Nat} {n p : Nat} {nd : Node}
    (k : KInv T P t) (hp : ParentSafe2 env T n p) (hmem : p ∈ P) (hnd : t.nodes[p]? = some nd)
    (hnot : nd.inRch = false) :
    (rchInsert p).run.run t = (.ok (), inserted p nd.height t) ∧ KInv T P (inserted p nd.height t) := by
  have e : t.nodeD p = nd := nodeD_of_some hnd
  have hh : nd.height = (T.nodeD p).height := by rw [← e]; exact (k.q.node p).height
  have h0 : 0 ≤ nd.height := by rw [hh]; exact hp.h0
  have hmax : nd.height ≤ t.rch.maxAllowed := by rw [hh, k.maxAllowed]; exact hp.hmax
  exact ⟨rchInsert_safe_run hnd hnot (hp.needs k.q) h0 hmax,
    BS.kinv_inserted k (hp.ok.quiet k.q).nec hmem hnd hnot h0 hmax⟩

/-- `parent_iter_can_recompute_now p0 n` for a not queued parent `p0` of `n`, during the walk: no assertion fails, no lookup fails -/
theorem picrn_run2 {env : Env} {T t : State} {P : List Nat} {n p0 : Nat} {pn : Node}
    (k : KInv T P t) (hp : ParentSafe2 env T n p0) (hmem : p0 ∈ P)
    (hpn : t.nodes[p0]? = some pn) (hnot : pn.inRch = false) :
    ∃ b t', (parentIterCanRecomputeNow p0 n).run.run t = (.ok b, t') ∧ KInv T P t' := by
  have e : t.nodeD p0 = pn := nodeD_of_some hpn
  have ok := hp.ok.quiet k.q
  have hv : pn.valid = true := by rw [← e]; exact ok.valid
  have hk? : pn.kind? = some pn.kind := BS.kind?_of_valid hv
  have hkB : BKind env pn.kind := by rw [← e]; exact ok.kind
  have hkT : pn.kind = (T.nodeD p0).kind := by rw [← e]; exact (k.q.node p0).kind
  have hnt : n < t.nodes.size := by rw [k.q.size]; exact hp.nlt
  have hchild : n ∈ t.children p0 := by rw [children_quiet hp.ok k.q]; exact hp.child
  have hsc : ∃ sh, scopeHeightOf t pn.createdIn = .ok sh := by
    cases hci : pn.createdIn with
    | top => exact ⟨_, rfl⟩
    | bind b =>
      obtain ⟨br, hb, hl⟩ := hp.scope b (by rw [← (k.q.node p0).createdIn, e]; exact hci)
      have hb' : t.binds[b]? = some br := by rw [k.q.binds]; exact hb
      have hl' : br.lhsChange < t.nodes.size := by rw [k.q.size]; exact hl
      simp only [scopeHeightOf, hb', some_of_lt hl']
      exact ⟨_, rfl⟩
  have hcan : ∃ can, canRecomputeNow t pn pn.kind (t.nodeD n).height (minHeightOf t) = .ok can := by
    obtain ⟨sh, hsh⟩ := hsc
    cases hkd : pn.kind <;> rw [hkd] at hkB
    case const =>
      simp only [State.children, e, hk?, hkd] at hchild; cases hchild
    case var =>
      simp only [State.children, e, hk?, hkd] at hchild; cases hchild
    case fold => exact ⟨_, rfl⟩
    case map f args =>
      simp only [canRecomputeNow]
      split
      · exact ⟨_, rfl⟩
      · rw [hsh]; exact ⟨_, rfl⟩
    case bindLhsChange b =>
      simp only [canRecomputeNow]
      rw [hsh]; exact ⟨_, rfl⟩
    case bindMain b lc =>
      have hl : lc < t.nodes.size := by rw [k.q.size]; exact hp.main b lc (by rw [← hkT]; exact hkd)
      simp only [canRecomputeNow, some_of_lt hl]
      exact ⟨_, rfl⟩
    all_goals exact False.elim hkB
  obtain ⟨can, hcan⟩ := hcan
  rw [Step.picrn_run, hpn]
  simp only [hk?, some_of_lt hnt, hcan]
  by_cases h1 : (can || decide (pn.height ≤ minHeightOf t)) = true
  · rw [if_pos h1]; exact ⟨_, _, rfl, k.withMinHeight⟩
  rw [if_neg h1]
  have k' := k.withMinHeight
  have hneeds : t.needsToBeComputed p0 = true := hp.needs k.q
  rw [if_neg (by rintro ⟨-, h⟩; rw [hneeds] at h; cases h),
    if_neg (by rintro ⟨-, h⟩; rw [hnot] at h; cases h)]
  obtain ⟨hrun, k''⟩ := insert_run2 k' hp hmem (show (Step.withMinHeight t).nodes[p0]? = some pn from hpn) hnot
  rw [hrun]
  exact ⟨_, _, rfl, k''⟩

/-- the notification part of a propagating `maybe_change_value_manual` (parents of kinds of the bind fragment), with fuel: no panic -/
theorem mcvm_noerr {env : Env} {fuel n : Nat} {o : Option Val} {T0 s' : State} {e : Panic}
    (hn : n < T0.nodes.size)
    (hi : HeapInv (touched n T0))
    (hpar : ∀ p, p ∈ ((touched n T0).nodeD n).parents.map (·.1) → ParentSafe2 env (touched n T0) n p)
    (hf : 1 ≤ fuel)
    (h : (maybeChangeValueManual env fuel n o true true).run.run T0 = (.error e, s')) : False := by
  obtain ⟨fuel, rfl⟩ : ∃ k, fuel = k + 1 := ⟨fuel - 1, by omega⟩
  have hnT : n < (touched n T0).nodes.size := by simpa [touched] using hn
  generalize hT : touched n T0 = T at hi hpar hnT
  generalize hP : (T.nodeD n).parents.map (·.1) = P at hpar
  unfold maybeChangeValueManual at h
  simp only [Bool.not_true, Bool.false_eq_true, if_false, if_true, run_bind_get, run_bind_modNode,
    run_bind_bumpCounter] at h
  change StateT.run (ExceptT.run _) (touched n T0) = _ at h
  rw [hT] at h
  refine Runs.err (P := fun _ => False) (Q := fun _ _ => True) ?_ h
  -- handler bookkeeping
  obtain ⟨s1, h1⟩ := mhas_ok hnT
  have k1 : KInv T P s1 := (KInv.refl P hi).mhas h1
  refine Runs.bind (Runs.of_ok (Q := fun _ t => KInv T P t) h1 k1) ?_
  clear h1 k1 s1
  intro _ s0 k1
  have hn1 : n < s0.nodes.size := by rw [k1.q.size]; exact hnT
  refine Runs.bind (Runs.getNode (Q := fun nd t => t = s0 ∧ nd = s0.nodeD n) (some_of_lt hn1) ⟨rfl, rfl⟩) ?_
  rintro nd1 s1 ⟨rfl, rfl⟩
  rw [(k1.q.node n).parents]
  rcases hps : (T.nodeD n).parents with _ | ⟨⟨p0, ci0⟩, rest⟩
  · exact Runs.pure trivial
  rw [hps] at hP
  dsimp only
  have hmem0 : p0 ∈ P := by rw [← hP]; simp
  have hmemr : ∀ a, a ∈ rest → a.1 ∈ P := by
    intro a ha; rw [← hP]; exact List.mem_cons_of_mem _ (List.mem_map_of_mem ha)
  -- the loop over the other parents
  refine Runs.bind (Runs.forIn (KInv T P) _ rest ?_ s1 k1) ?_
  · intro a ha t k
    obtain ⟨p, ci⟩ := a
    have hpS := hpar p (hmemr _ ha)
    have hpt := hpS.ok.quiet k.q
    have hpn := some_of_lt hpt.lt
    refine Runs.bind (Runs.of_ok (Q := fun _ t' => t' = t) (childChanged_bkind_run hpn hpt.valid hpt.kind) rfl) ?_
    rintro _ t' rfl
    refine Runs.bind_get (Runs.bind_dassert (hpS.needs k.q) (Runs.bind_getNode hpn ?_))
    split
    · rename_i hin
      obtain ⟨hrun, k'⟩ := insert_run2 k hpS (hmemr _ ha) hpn (by simpa using hin)
      exact Runs.bind_ok hrun (Runs.pure k')
    · exact Runs.pure k
  -- the first parent
  intro _ s2 k2
  have hp0S := hpar p0 hmem0
  have hp0 := hp0S.ok.quiet k2.q
  have hpn0 := some_of_lt hp0.lt
  refine Runs.bind (Runs.of_ok (Q := fun _ t' => t' = s2) (childChanged_bkind_run hpn0 hp0.valid hp0.kind) rfl) ?_
  rintro _ t' rfl
  refine Runs.bind_get (Runs.bind_dassert (hp0S.needs k2.q) (Runs.bind_getNode hpn0 ?_))
  split
  · rename_i hin
    obtain ⟨b, t2, hrun, -⟩ := picrn_run2 k2 hp0S hmem0 hpn0 (by simpa using hin)
    refine Runs.bind_ok hrun ?_
    split <;> exact Runs.pure trivial
  · exact Runs.pure trivial

end T2b
end IncrVerif.Proofs.NestH
