import IncrVerif.Proofs.EffH3
/-!
# Effects, part 4: one `recomputeOne` with write effects = the deferred writes, then the effect-free `recomputeOne`
-/
namespace IncrVerif.Proofs.EffH
open IncrVerif.Engine IncrVerif.Driver IncrVerif.Proofs IncrVerif.Proofs.Step IncrVerif.Proofs.Sched
open IncrVerif.Proofs.Quiet

/-- the effects node `n` issues when it is recomputed in state `s` (user `map` nodes only) -/
def nodeEffs (env : Env) (s : State) (n : Nat) : List Effect :=
  match (s.nodeD n).kind with
  | .map f args =>
    if f < fnZip then
      match valuesOf env s args with
      | some vals => env.fnEff f vals
      | none => []
    else []
  | _ => []

/-- master equation of `recomputeOne` on a user `map` node, the effects still to be run -/
theorem recomputeOne_mapEff_run (env : Env) (fuel n : Nat) (s : State) (nd : Node) (f : Nat)
    (args : List Nat) (vals : List Val)
    (hn : s.nodes[n]? = some nd) (hv : nd.valid = true) (hk : nd.kind = .map f args)
    (hf : f < fnZip) (hvals : valuesOf env s args = some vals) (hp : s.panicCountdown = none) :
    (recomputeOne env fuel n).run.run s =
      (do runEffects env fuel (env.fnEff f vals) ((vals.headD .unit).toInt)
          logEv (.inv s!"f{f}" n vals (env.fn f vals).render)
          maybeChangeValue env fuel n (env.fn f vals)).run.run (started n s) := by
  have hk? : ({ nd with recomputedAt := s.stabNum } : Node).kind? = some (.map f args) := by
    simp [Node.kind?, hv, hk]
  have hvals' : valuesOf env (started n s) args = some vals := by
    rw [valuesOf_congr env s (started n s) args (fun a _ => started_value env n s a)]; exact hvals
  have hn' := started_getElem? n s nd hn
  unfold recomputeOne
  simp only [run_bind_get]
  cases hd : s.cfg.debug
  all_goals
    simp only [started, hd, Bool.false_eq_true, if_false, if_true, run_bind_modify,
      run_bind_bumpCounter, run_bind_get, run_bind_modNode] at hn' hvals' ⊢
    rw [run_bind_ok (run_getNode_some hn'), hk?]
    dsimp only
    rw [run_bind_of (run_mapM_valueUnwrap env _ _ args), hvals']
    dsimp only
    rw [if_pos hf]
    simp only [run_bind_tick_none, hp]


theorem nodeEffs_of_kind {env : Env} {s : State} {n f : Nat} {args : List Nat} {vals : List Val}
    (hk : (s.nodeD n).kind = .map f args) (hf : f < fnZip) (hvals : valuesOf env s args = some vals) :
    nodeEffs env s n = env.fnEff f vals := by
  simp only [nodeEffs, hk, if_pos hf, hvals]

theorem nodeEffs_wonly {env : Env} (hw : WOnly env) (s : State) (n : Nat) :
    ∀ e, e ∈ nodeEffs env s n → (effWrite e).isSome = true := by
  intro e he
  unfold nodeEffs at he
  split at he
  · split at he
    · split at he
      · exact hw _ _ e he
      · cases he
    · cases he
  · cases he

/-- **One step.** A successful `recomputeOne` of a node whose function has write effects, on the current node of the
scheduling invariant (stated for the effect-free environment), while `status = stabilising`: it is the deferred
writes `nodeEffs env s n` (closed form `effSteps`) followed by the EFFECT-FREE `recomputeOne` — same result, same
final state.  Every written cell exists. -/
theorem recomputeOne_eff_eq {env : Env} {fuel n : Nat} {s s' : State} {r : Option Nat}
    (I : Inv (noEff env) s (some n)) (hst : s.status = .stabilising) (hw : WOnly env) (hh : HandlesOK s)
    (h : (recomputeOne env fuel n).run.run s = (.ok r, s')) :
    (recomputeOne (noEff env) fuel n).run.run (effSteps (nodeEffs env s n) s) = (.ok r, s') ∧
    ∀ v f, (v, f) ∈ writesOf (nodeEffs env s n) → ∃ c, s.vars[v]? = some c := by
  have g := I.graph
  have hn := (I.cur n rfl).1
  obtain ⟨hlt, hv, hk, _, _⟩ := g.nec n hn
  have hnn := some_of_lt hlt
  obtain ⟨vals, hvals⟩ := I.kids_values
  have hvo := g.valuesOf hn
  rw [hvals, valuesOf_noEff] at hvo
  have nil : ∀ (e : nodeEffs env s n = []), 
      (recomputeOne (noEff env) fuel n).run.run s = (.ok r, s') →
      (recomputeOne (noEff env) fuel n).run.run (effSteps (nodeEffs env s n) s) = (.ok r, s') ∧
      ∀ v f, (v, f) ∈ writesOf (nodeEffs env s n) → ∃ c, s.vars[v]? = some c := by
    intro e h0
    rw [e]
    exact ⟨h0, fun v f hm => by cases hm⟩
  cases hkd : (s.nodeD n).kind with
  | const w =>
    refine nil (by simp only [nodeEffs, hkd]) ?_
    rw [recomputeOne_const_run env fuel n s _ w hnn hv hkd] at h
    rw [recomputeOne_const_run (noEff env) fuel n s _ w hnn hv hkd, mcv_noEff]; exact h
  | var c =>
    obtain ⟨vc, hvc⟩ := g.var n c hn hkd
    refine nil (by simp only [nodeEffs, hkd]) ?_
    rw [recomputeOne_var_run env fuel n s _ c vc hnn hv hkd hvc] at h
    rw [recomputeOne_var_run (noEff env) fuel n s _ c vc hnn hv hkd hvc, mcv_noEff]; exact h
  | map f args =>
    rw [hkd] at hk hvo
    by_cases hf : f < fnZip
    · rw [nodeEffs_of_kind hkd hf hvo]
      rw [recomputeOne_mapEff_run env fuel n s _ f args vals hnn hv hkd hf hvo g.pc] at h
      obtain ⟨u, X, hX, h⟩ := bind_ok_inv h
      have hwo : ∀ e, e ∈ env.fnEff f vals → (effWrite e).isSome = true := fun e he => hw f vals e he
      have hh' : HandlesOK (started n s) := hh
      obtain ⟨eX, hex⟩ := runEffects_writes (s := started n s) hst hwo hh' hX
      rw [eX, effSteps_started, run_bind_logEv] at h
      refine ⟨?_, hex⟩
      have P := effSteps_sameP (env.fnEff f vals) s
      have hnn' : (effSteps (env.fnEff f vals) s).nodes[n]? = some (s.nodeD n) := by
        rw [P.nodes]; exact hnn
      have hvo' : valuesOf (noEff env) (effSteps (env.fnEff f vals) s) args = some vals := by
        rw [valuesOf_noEff, P.valuesOf]; exact hvo
      rw [recomputeOne_map_run (noEff env) fuel n _ _ f args vals hnn' hv hkd hf hvo' rfl
        (by rw [P.pc]; exact g.pc), mcv_noEff]
      exact h
    · refine nil (by simp only [nodeEffs, hkd, if_neg hf]) ?_
      rw [recomputeOne_mapBuiltin_run env fuel n s _ f args vals hnn hv hkd hf hk.1 hvo] at h
      rw [recomputeOne_mapBuiltin_run (noEff env) fuel n s _ f args vals hnn hv hkd hf hk.1
        (by rw [valuesOf_noEff]; exact hvo), mcv_noEff]
      exact h
  | fold f init cs =>
    rw [hkd] at hvo
    refine nil (by simp only [nodeEffs, hkd]) ?_
    rw [recomputeOne_fold_run env fuel n s _ f init cs vals hnn hv hkd hvo g.pc] at h
    rw [recomputeOne_fold_run (noEff env) fuel n s _ f init cs vals hnn hv hkd
      (by rw [valuesOf_noEff]; exact hvo) g.pc, mcv_noEff]
    exact h
  | mapRef _ _ => rw [hkd] at hk; exact hk.elim
  | mapWithOld _ _ => rw [hkd] at hk; exact hk.elim
  | bindLhsChange _ => rw [hkd] at hk; exact hk.elim
  | bindMain _ _ => rw [hkd] at hk; exact hk.elim
  | expert _ => rw [hkd] at hk; exact hk.elim

end IncrVerif.Proofs.EffH
