import IncrVerif.Proofs.PerKeyH26
import IncrVerif.Proofs.PerKeyH28
/-!
# A run of a per-key change detector, part 8: ASSEMBLY of `LcStepSpec env`

`lcStepSpec_of`: from the two iteration contracts (`IterRight`, `IterUnequal`: LC4, LC5), "the result is necessary"
(`ResNecSpec`: LC2 `res_nec`) and the final part (`LcFinalSpec`: LC7 `lc_final`).
-/
namespace IncrVerif.Proofs.PerKeyH
open IncrVerif.Engine IncrVerif.Driver IncrVerif.Proofs IncrVerif.Proofs.Step IncrVerif.Proofs.Sched
open IncrVerif.Proofs.ExpertH IncrVerif.Proofs.EffH IncrVerif.Proofs.DriverH IncrVerif.Proofs.ExpertH.QR

/-- LC2 `res_nec` -/
def ResNecSpec (env : Env) : Prop :=
  ∀ (s : State) (n op : Nat) (pr : PerKeyRec), PD env s (some n) → s.perkeys[op]? = some pr → pr.lhsChange = n →
    s.isNecessary pr.result = true

/-- LC7 `lc_final` -/
def LcFinalSpec (env : Env) : Prop :=
  ∀ (s s2 s' : State) (n op eres fuel : Nat) (pr : PerKeyRec) (m : List (Int × Int)) (r : Option Nat),
    LcBase env s n op pr eres → LE env s n op pr eres m s2 →
    (maybeChangeValue env fuel n .unit).run.run s2 = (.ok r, s') →
    PD env s' r ∧ NoRem s' ∧ PStep s s' ∧ ((V s').nodeD n).recomputedAt = s.stabNum

theorem lcStepSpec_of {env : Env} (hR : IterRight env) (hU : IterUnequal env) (hN : ResNecSpec env)
    (hF : LcFinalSpec env) : LcStepSpec env := by
  intro fuel n op args s s' r D N hk h
  obtain ⟨pr, eres, B⟩ := lcbase_of D N hk
  obtain ⟨m, s2, -, hconv, hm, hdrv, hmcv⟩ := lc_run_split B hk h
  have H0 := li_start_of B (hN s n op pr D B.hop B.hn)
  have E := driver_end hR hU B H0 hconv hm hdrv
  exact hF s s2 s' n op eres fuel pr m r B E hmcv

end IncrVerif.Proofs.PerKeyH
