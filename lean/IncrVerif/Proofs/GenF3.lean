import IncrVerif.Proofs.GenF2
/-!
# C03, combined fragment, part 3: the scope-field frame `CKey` for every API action and along histories
-/
open IncrVerif.Engine IncrVerif.Driver IncrVerif.Proofs IncrVerif.Proofs.Step
namespace IncrVerif.Proofs.GenF.CK

theorem PresCK.subscribe (o h) : Step.Pres CKey (subscribe o h) := by unfold Engine.subscribe; qpres
ck_leaf PresCK.subscribe
theorem PresCK.unsubscribe (o t ow) : Step.Pres CKey (unsubscribe o t ow) := by unfold Engine.unsubscribe; qpres
ck_leaf PresCK.unsubscribe
theorem PresCK.setMaxHeightAllowed (k) : Step.Pres CKey (setMaxHeightAllowed k) := by unfold Engine.setMaxHeightAllowed; qpres
ck_leaf PresCK.setMaxHeightAllowed

ck_leaf PresCK.stabilise

set_option maxHeartbeats 4000000 in
/-- every API action, every outcome: existing nodes keep their scope field, existing bind records stay -/
theorem PresCK.stepAction (env : Env) (a : Action) (tokens : Array Nat) : Step.Pres CKey (stepAction env a tokens) := by
  cases a <;> (simp only [Engine.stepAction]; qpres)

theorem ckey_runActions (env : Env) : ∀ (acts : List Action) (s s' : State) (tk tk' : Array Nat),
    Quiet.runActions env acts s tk = .ok (s', tk') → CKey s s' := by
  intro acts
  induction acts with
  | nil => intro s s' tk tk' h; simp only [Quiet.runActions] at h; cases h; exact PreOrd.refl s
  | cons a as ih =>
    intro s s' tk tk' h
    simp only [Quiet.runActions] at h
    rcases hx : (stepAction env a tk).run.run s with ⟨_ | r, s1⟩
    · rw [hx] at h; cases h
    · rw [hx] at h
      exact PreOrd.trans ((PresCK.stepAction env a tk).h s _ s1 hx) (ih s1 s' r.2 tk' h)

end IncrVerif.Proofs.GenF.CK
