import IncrVerif.Proofs.TidyH34
/-!
# T4: `adjustHeights` returns (total correctness) for `QR.GInv`, part 2 (port of NestH83/84)

FUEL: every node is popped at most once; `mu s0 dn` = the number of nodes not yet popped; the loop needs `mu s0 dn < fuel`,
i.e. `s.nodes.size + 1 ≤ fuel` initially.  No "cyclic" panic: ranks strictly increase along recorded parent edges.
-/
namespace IncrVerif.Proofs.TidyH.XT
open IncrVerif.Engine IncrVerif.Driver IncrVerif.Proofs IncrVerif.Proofs.Step IncrVerif.Proofs.Sched
open IncrVerif.Proofs.ExpertH IncrVerif.Proofs.ExpertH.QR IncrVerif.Proofs.ExpertH.QR.BA

namespace X4e

variable {env : Env} {rk : Nat → Nat} {N : Nat}

/-- the static facts about `s0` totality needs; `oc`: the original child, `B`: the node raised first -/
structure LoopHypT (env : Env) (rk : Nat → Nat) (oc B : Nat) (s0 : State) : Prop where
  static : AllStatic env rk s0
  par : ∀ c p i, (p, i) ∈ (s0.nodeD c).parents → (kids (s0.nodeD p).kind)[i]? = some c
  pnec : ∀ c p i, (p, i) ∈ (s0.nodeD c).parents → s0.isNecessary p = true
  pos0 : ∀ m, s0.isNecessary m = true → 0 ≤ (s0.nodeD m).height
  /-- every recorded edge whose lower node is not the original child is fine in `s0` -/
  fine0 : ∀ c p i, (p, i) ∈ (s0.nodeD c).parents → c ≠ oc → (s0.nodeD c).height < (s0.nodeD p).height
  rkoc : rk oc < rk B

theorem LoopHypT.up (HT : LoopHypT env rk oc B s0) {c p i : Nat} (h : (p, i) ∈ (s0.nodeD c).parents) :
    rk c < rk p := by
  have hk := HT.par c p i h
  have hp : p < s0.nodes.size := nec_lt_size (HT.pnec c p i h)
  exact (HT.static.node p hp).kidsLt c (getElem?_mem_kids hk)

/-- the number of nodes not yet popped -/
def mu (s0 : State) (dn : List Nat) : Nat := (List.range s0.nodes.size).countP fun m => decide (m ∉ dn)

theorem mu_nil (s0 : State) : mu s0 [] = s0.nodes.size := by
  unfold mu
  simp

theorem mu_cons_lt {s0 : State} {dn : List Nat} {n : Nat} (hn : n < s0.nodes.size) (hd : n ∉ dn) :
    mu s0 (n :: dn) < mu s0 dn := by
  unfold mu
  apply countP_lt_of_imp _ _ _ _ n (List.mem_range.2 hn)
  · exact decide_eq_true hd
  · exact decide_eq_false (fun h => h (List.mem_cons_self ..))
  · intro m _ hm
    have := of_decide_eq_true hm
    exact decide_eq_true (fun h => this (List.mem_cons_of_mem _ h))

/-- `ensureHeightRequirement c p` for a recorded edge `(p, i)` of the popped node `c`: returns, keeps both invariants -/
theorem ehr_loop_step {B : Nat} {s0 u : State} {dn : List Nat} {X : Nat → Nat → Nat → Prop} {oc op c p i : Nat}
    (HT : LoopHypT env rk oc B s0)
    (A : AInv rk B s0 u X noY) (hX : ∀ x q j, X x q j → x = c) (T : TI N s0 u dn noZ)
    (hm0 : (p, i) ∈ (s0.nodeD c).parents) (hcn : s0.isNecessary c = true) (hB : rk B ≤ rk c)
    (hlbp : u.ahh.lowerBound ≤ (u.nodeD p).height) (hlc : u.ahh.lowerBound ≤ (s0.nodeD c).height) :
    ∃ u', (ensureHeightRequirement oc op c p).run.run u = (.ok (), u') ∧
      AInv rk B s0 u' (fun x q j => X x q j ∧ q ≠ p) noY ∧ HRel u u' ∧
      u'.ahh.lowerBound = u.ahh.lowerBound ∧ TI N s0 u' dn noZ := by
  have hrk := HT.up hm0
  have hroc := HT.rkoc
  have hpo : p ≠ oc := fun e => by rw [e] at hrk; omega
  have hco : c ≠ oc := fun e => by rw [e] at hB; omega
  have hcp : c ≠ p := fun e => by rw [← e] at hrk; omega
  have hc0 : c < s0.nodes.size := nec_lt_size hcn
  have hnp0 := HT.pnec c p i hm0
  have hp0 : p < s0.nodes.size := nec_lt_size hnp0
  have hcb := T.bound c hcn (fun h => h)
  have hdp : dp s0 c < dp s0 p := dp_kid_lt' HT.static (HT.par c p i hm0)
  have hmax : (u.nodeD c).height + 1 ≤ u.ahh.maxAllowed := by
    have h2 := dp_lt_size HT.static hp0
    have h3 := T.room.size
    have h4 := T.room.ahh
    have h5 := A.rel.size
    omega
  have h0 : 0 ≤ (u.nodeD p).height := by
    have := HT.pos0 p hnp0
    have := A.rel.height p
    omega
  obtain ⟨u', hrun⟩ := ehr_tot (oc := oc) (op := op) (c := c) (p := p) (s := u) (by rw [A.rel.size]; exact hc0)
    (by rw [A.rel.size]; exact hp0) (by rw [A.rel.nec]; exact hcn) (by rw [A.rel.nec]; exact hnp0) hpo hlbp h0 hmax
  have hne : ∀ x q j, (q, j) ∈ (s0.nodeD x).parents → x ≠ q := fun x q j hm e => by
    have := HT.up hm; rw [e] at this; omega
  obtain ⟨A', hr, hlb'⟩ := ehr_step hrun A hX hne hcp hlbp (by omega)
  have hpd : p ∉ dn := by
    intro hd
    have h1 := (T.dnLow p hd).2
    have h2 := HT.fine0 c p i hm0 hco
    omega
  obtain ⟨T', -⟩ := TI.ehr hrun A T hcb hdp hpd hnp0 (fun h => h.elim)
  exact ⟨u', hrun, A', hr, hlb', T'.mono (fun m h => h.1)⟩

/-- the loop over the parents of the popped node `c` returns -/
theorem parents_loop_tot {B : Nat} {s0 s : State} {dn : List Nat} {oc op c : Nat} {nd : Node}
    (HT : LoopHypT env rk oc B s0) (hndD : s.nodeD c = nd)
    {f : Nat × Nat → PUnit → M (ForInStep PUnit)}
    (hf : ∀ a u u', (ensureHeightRequirement oc op c a.1).run.run u = (.ok (), u') →
      (f a PUnit.unit).run.run u = (.ok (.yield PUnit.unit), u'))
    (A : AInv rk B s0 s (fun x _ _ => x = c) noY) (T : TI N s0 s dn noZ)
    (hlb : ∀ q i, (q, i) ∈ (s.nodeD c).parents → s.ahh.lowerBound ≤ (s.nodeD q).height) (hB : rk B ≤ rk c)
    (hcn : s0.isNecessary c = true) (hlc : s.ahh.lowerBound ≤ (s0.nodeD c).height) :
    Tot (forIn nd.parents PUnit.unit f) s (fun _ t =>
      AInv rk B s0 t noX noY ∧ t.ahh.lowerBound = s.ahh.lowerBound ∧
      (∀ m, (s.nodeD m).height ≤ (t.nodeD m).height) ∧ TI N s0 t dn noZ) := by
  have hloop := forIn_tot f nd.parents
    (fun j (_ : PUnit) (t : State) =>
      AInv rk B s0 t (fun x q i => x = c ∧ ∃ k, j ≤ k ∧ nd.parents[k]? = some (q, i)) noY ∧
        t.ahh.lowerBound = s.ahh.lowerBound ∧ (∀ m, (s.nodeD m).height ≤ (t.nodeD m).height) ∧
        TI N s0 t dn noZ)
    (by
      intro j a b t hj ⟨At, hlbt, hgrow, Tt⟩
      have hmem : (a.1, a.2) ∈ (s.nodeD c).parents := by
        rw [hndD]; exact List.mem_of_getElem? hj
      have hmem0 : (a.1, a.2) ∈ (s0.nodeD c).parents := by rw [← A.rel.parents]; exact hmem
      obtain ⟨t', hrun, At1, hr1, hlb1, Tt1⟩ := ehr_loop_step (op := op) HT At (fun x q i hx => hx.1) Tt hmem0 hcn hB
        (by
          rw [hlbt]
          have := hlb a.1 a.2 hmem
          have := hgrow a.1
          omega)
        (by rw [hlbt]; exact hlc)
      refine ⟨PUnit.unit, t', hf a t t' hrun, At1.mono ?_ (fun _ hy => hy), by rw [hlb1, hlbt],
        fun m => Int.le_trans (hgrow m) (hr1.height m), Tt1⟩
      rintro x q i - ⟨⟨hx, k, hk, hkq⟩, hqa⟩
      refine ⟨hx, k, ?_, hkq⟩
      rcases Nat.lt_or_ge j k with hlt | hge
      · exact hlt
      · have : k = j := by omega
        rw [this, hj] at hkq
        cases hkq
        exact absurd rfl hqa)
    nd.parents 0 PUnit.unit s (by simp) (Nat.zero_le _)
    ⟨A.mono (by
        intro x q i hm hx
        refine ⟨hx, ?_⟩
        rw [hx, hndD] at hm
        obtain ⟨k, hk⟩ := List.mem_iff_getElem?.1 hm
        exact ⟨k, Nat.zero_le _, hk⟩) (fun _ hy => hy), rfl, fun _ => Int.le_refl _, T⟩
  obtain ⟨u, t, hfor, At, h2, h3, Tt⟩ := hloop
  refine ⟨u, t, hfor, At.mono ?_ (fun _ hy => hy), h2, h3, Tt⟩
  rintro x q i - ⟨-, k, hk, hkq⟩
  rw [List.getElem?_eq_none hk] at hkq
  cases hkq

/-- what the loop guarantees (total form) -/
def LoopTot (rk : Nat → Nat) (N B : Nat) (s0 : State) (oc op fuel : Nat) : Prop :=
  ∀ s dn, AInv rk B s0 s noX noY → TI N s0 s dn noZ → mu s0 dn < fuel →
    Tot (adjustHeightsLoop oc op fuel) s (fun _ s' => ∃ dn', TI N s0 s' dn' noZ)

/-- the tail of one iteration returns -/
theorem tail_tot {B : Nat} {s0 s : State} {dn : List Nat} {oc op c fuel : Nat}
    (HT : LoopHypT env rk oc B s0)
    (ih : LoopTot rk N B s0 oc op fuel)
    (A : AInv rk B s0 s (fun x _ _ => x = c) noY) (T : TI N s0 s dn noZ)
    (hlb : ∀ q i, (q, i) ∈ (s.nodeD c).parents → s.ahh.lowerBound ≤ (s.nodeD q).height) (hB : rk B ≤ rk c)
    (hcn : s0.isNecessary c = true) (hlc : s.ahh.lowerBound ≤ (s0.nodeD c).height)
    (hfuel : mu s0 dn < fuel) :
    Tot (loopTail oc op c fuel) s (fun _ s' => ∃ dn', TI N s0 s' dn' noZ) := by
  have hc0 : c < s0.nodes.size := nec_lt_size hcn
  have hc : c < s.nodes.size := by rw [A.rel.size]; exact hc0
  unfold loopTail
  refine Tot.bind_getNode hc ?_
  refine Tot.bind (parents_loop_tot (op := op) HT rfl ?_ A T hlb hB hcn hlc) ?_
  · intro a u u' h
    rw [run_bind_ok h]
    rfl
  rintro _ t - ⟨At, hlbt, hgrow, Tt⟩
  have hct : c < t.nodes.size := by rw [At.rel.size]; exact hc0
  refine Tot.bind_getNode hct ?_
  dsimp only
  split
  · rename_i b hkb
    exfalso
    have hk := (HT.static.node c hc0).kind
    rw [← At.rel.kind c] at hk
    unfold Node.kind? at hkb
    split at hkb
    · have e := Option.some.inj hkb
      rw [e] at hk; exact hk
    · cases hkb
  · exact ih t dn At Tt hfuel

theorem loop_tot {B : Nat} {s0 : State} {oc op : Nat} (HT : LoopHypT env rk oc B s0) (fuel : Nat) :
    LoopTot rk N B s0 oc op fuel := by
  induction fuel with
  | zero => intro s dn _ _ h; omega
  | succ fuel ih =>
    intro s dn A T hfuel
    unfold adjustHeightsLoop
    obtain ⟨r, s1, h1⟩ := ahhRemoveMin_tot s
    refine Tot.bind_ok h1 ?_
    rcases ahhRemoveMin_ok_inv h1 with ⟨er, e1, hnone⟩ | ⟨c, rest, er, hq, e1⟩
    · rw [er]
      exact Tot.pure ⟨dn, by rw [e1]; exact T⟩
    · rw [er]
      dsimp only
      obtain ⟨A1, hBc, hlb1, key⟩ := A.pop hq
      obtain ⟨T1, hcd, hcs, hcn, hlbc, hstr⟩ := TI.pop A T hq
      rw [← e1] at A1 hlb1 key T1 hlbc
      have hc0 : c < s0.nodes.size := by rw [← A.rel.size]; exact hcs
      have hc1 : c < s1.nodes.size := by rw [A1.rel.size]; exact hc0
      have hfuel1 : mu s0 (c :: dn) < fuel := by
        have := mu_cons_lt (s0 := s0) (dn := dn) (n := c) hc0 hcd
        omega
      have hmk1 : ahhMk s1 c = -1 := by
        simp only [ahhMk]
        rw [key, if_pos rfl]
      have hpar1 : (s1.nodeD c).parents = (s.nodeD c).parents := by rw [key, if_pos rfl]
      refine Tot.bind_getNode hc1 ?_
      by_cases hin : (s1.nodeD c).inRch = true
      · rw [if_pos hin]
        have hstr1 : (s1.nodeD c).heightInRch < (s1.nodeD c).height := by
          have hin' := hin
          rw [key, if_pos rfl] at hin' ⊢
          exact hstr hin'
        have hmax : (s1.nodeD c).height ≤ s1.rch.maxAllowed := by
          have h1 := T1.bound c hcn (fun h => h)
          have h2 := dp_lt_size HT.static hc0
          have h3 := T1.room.size
          have h4 := T1.room.rch
          have h5 := A1.rel.size
          omega
        obtain ⟨s2, h2⟩ := rchIncreaseHeight_tot A1.heap.wf hc1 hin hstr1 hmax
        refine Tot.bind_ok h2 ?_
        obtain ⟨Q, -, h0, hmx, hQ, e2⟩ := rchIncreaseHeight_ok_inv h2
        have hwf : HeapWF s2 := by
          have := (triple_iff _ _ _ _).1 (rchIncreaseHeight_spec .release c) s1
            ⟨(HWF_release_iff s1).2 A1.heap.wf, Or.inr ⟨s1.nodeD c, some_of_lt hc1, h0, by
              simp only [Heap.maxAllowed] at hmx; omega⟩⟩
          rw [h2] at this
          exact (HWF_release_iff s2).1 this
        rw [e2] at hwf
        have A2 := A1.rebucket hc1 hin h0 hQ hwf (fun _ hy => hy) hBc
        have T2 := T1.rebucket hc1 hmk1 hQ
        rw [← e2] at A2 T2
        have key2 : ∀ m, (s2.nodeD m).height = (s1.nodeD m).height ∧
            (s2.nodeD m).parents = (s1.nodeD m).parents := by
          intro m
          rw [e2, nodeD_upd (s := s1) (f := fun y => { y with heightInRch := (s1.nodeD c).height }) rfl hc1]
          split
          · rename_i e; rw [e]; exact ⟨rfl, rfl⟩
          · exact ⟨rfl, rfl⟩
        have elb : s2.ahh.lowerBound = s1.ahh.lowerBound := by rw [e2]; rfl
        refine tail_tot HT ih A2 T2 ?_ hBc hcn (by rw [elb, hlbc]; exact Int.le_refl _) hfuel1
        intro q i hm
        rw [(key2 c).2, hpar1] at hm
        have := hlb1 q i hm
        rw [(key2 q).1, elb]; omega
      · rw [if_neg hin]
        have A2 : AInv rk B s0 s1 (fun x _ _ => x = c) noY := by
          refine ⟨A1.rel, A1.wf, A1.heap, A1.edge, A1.old, ?_, A1.hle, A1.low, A1.memB⟩
          intro m hq' hm _
          by_cases e : m = c
          · rw [e] at hq'; exact absurd hq' hin
          · exact A1.hgt m hq' hm e
        refine tail_tot HT ih A2 T1 ?_ hBc hcn (by rw [hlbc]; exact Int.le_refl _) hfuel1
        intro q i hm
        rw [hpar1] at hm
        have := hlb1 q i hm
        omega

end X4e
end IncrVerif.Proofs.TidyH.XT
