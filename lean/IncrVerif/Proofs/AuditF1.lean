import IncrVerif.Proofs.FullH1
/-!
# C11 (bookkeeping self-consistent at every quiescent point), part 1: the audit predicate `Audit s` on ACTUAL states

* `Audit s`: the clauses of property C11 about the model state `s` itself, phrased with the engine's own readers (`State.isNecessary`, `State.children`,
  `State.isStale`, `Node.inRch`, the fields of `State`/`Node`/`Heap`) — no ghost, no virtual state, no environment.
* `audit_of_qinv2`: the invariant between API actions of fragment F2 (static core + nested binds, `NestH.QInv2`) implies `Audit`.
* `Audit.of_virt`: `Audit (virt g s) → Audit s` — the virtual state of the combined fragment has the same parents, observers, heights, heap markers, validity,
  scopes, children, staleness as the actual state; only kinds / stored values / cutoffs / `didChange` flags differ, and `Audit` reads none of these
  (`children` and `isStale` are transferred by `virt_children`, `virt_isStale`).
-/
namespace IncrVerif.Proofs.AuditF
open IncrVerif.Engine IncrVerif.Proofs IncrVerif.Proofs.Step IncrVerif.Proofs.Sched IncrVerif.Proofs.Quiet
open IncrVerif.Proofs.BindH (BGraph AhhEmpty)
open IncrVerif.Proofs.NestH (QG2 QI2 QInv2 GenOK2 F2Inv Struct2)
open IncrVerif.Proofs.FullH

/-- **The audit of C11**, on the actual engine state. -/
structure Audit (s : State) : Prop where
  -- control is outside `stabilise`: nothing is pending inside the engine
  status : s.status = .notStabilising
  currentScope : s.currentScope = .top
  handleAfterStab : s.handleAfterStab = []
  propagateInvalidity : s.propagateInvalidity = []
  setDuringStab : s.setDuringStab = []
  deadVars : s.deadVars = []
  -- needed (necessary) nodes
  /-- a needed node exists, is valid and has a height -/
  nec : ∀ n, s.isNecessary n = true → n < s.nodes.size ∧ (s.nodeD n).valid = true ∧ 0 ≤ (s.nodeD n).height
  /-- EDGE SYMMETRY, child side: the `i`-th input `c` of a needed node `n` exists, is needed, records the entry `(n, i)` among its parents, and is strictly lower -/
  childRec : ∀ n, s.isNecessary n = true → ∀ i c, (s.children n)[i]? = some c →
    c < s.nodes.size ∧ s.isNecessary c = true ∧ (n, i) ∈ (s.nodeD c).parents ∧ (s.nodeD c).height < (s.nodeD n).height
  /-- EDGE SYMMETRY, parent side: a recorded parent entry `(p, i)` of `c` is the `i`-th input edge of the needed node `p` -/
  parentRec : ∀ c p i, (p, i) ∈ (s.nodeD c).parents → s.isNecessary p = true ∧ (s.children p)[i]? = some c
  /-- every edge is recorded once -/
  parentsNodup : ∀ c, (s.nodeD c).parents.Nodup
  /-- THE SCOPE HEIGHT RULE: a needed node created by the closure of bind `b` is strictly higher than the bind's change detector, which is a valid needed node -/
  scopeHeight : ∀ n b, s.isNecessary n = true → (s.nodeD n).createdIn = .bind b →
    ∃ br, s.binds[b]? = some br ∧ br.lhsChange < s.nodes.size ∧ (s.nodeD br.lhsChange).valid = true ∧
      s.isNecessary br.lhsChange = true ∧ (s.nodeD br.lhsChange).height < (s.nodeD n).height
  -- unneeded / invalid nodes
  /-- an unneeded node has no dependants, no observers, and is not scheduled -/
  unnec : ∀ n, s.isNecessary n = false →
    (s.nodeD n).parents = [] ∧ (s.nodeD n).observers = [] ∧ (s.nodeD n).inRch = false
  /-- an invalid node is isolated (hence unneeded) and not scheduled -/
  invalid : ∀ n, (s.nodeD n).valid = false → (s.nodeD n).parents = [] ∧ (s.nodeD n).observers = [] ∧
    (s.nodeD n).inRch = false ∧ s.isNecessary n = false
  noForce : ∀ n, (s.nodeD n).forceNecessary = false
  noHandlers : ∀ n, (s.nodeD n).numOnUpdateHandlers = 0
  -- the recompute heap
  /-- bucket membership = the markers `heightInRch`, no duplicates, `length` = number of entries, markers in range (`Props/C11Heap`) -/
  heapWF : HeapWF s
  /-- the heap holds EXACTLY the needed stale nodes -/
  queued : ∀ m, (s.nodeD m).inRch = true ↔ (s.isNecessary m = true ∧ s.isStale m = true)
  /-- … each at its height -/
  queuedAt : ∀ m, (s.nodeD m).inRch = true → (s.nodeD m).heightInRch = (s.nodeD m).height
  lowerBound : 0 ≤ s.rch.lowerBound ∧ ∀ m, (s.nodeD m).inRch = true → s.rch.lowerBound ≤ (s.nodeD m).height
  -- the adjust-heights heap is empty and no node is marked
  ahhLength : s.ahh.length = 0
  ahhBuckets : ∀ i (hi : i < s.ahh.queues.size), s.ahh.queues[i] = []
  ahhMarks : ∀ m, (s.nodeD m).heightInAhh = -1
  -- observers and variables
  /-- observer bookkeeping: the observer list of a node = the linked (in use / disallowed) observers watching it; created ones wait in `newObservers`,
  disallowed ones in `disallowedObservers` (once each) -/
  obs : ObsInv s s.newObservers s.disallowedObservers
  /-- variable cells and `var` nodes name each other -/
  vars : VarsOK s

/-! ## consequences: the heap content, bucket by bucket -/

theorem inRch_iff (nd : Node) : nd.inRch = true ↔ 0 ≤ nd.heightInRch := by
  simp [Node.inRch]

/-- **the recompute heap holds exactly the needed stale (valid) nodes, each once, in the bucket of its height** -/
theorem Audit.bucket {s : State} (A : Audit s) (h : Nat) (hh : h < s.rch.queues.size) :
    (s.rch.queues[h]).Nodup ∧ ∀ n, n ∈ s.rch.queues[h] ↔
      (s.isNecessary n = true ∧ s.isStale n = true ∧ (s.nodeD n).valid = true ∧ (s.nodeD n).height = (h : Int)) := by
  refine ⟨A.heapWF.nodup h hh, fun n => ?_⟩
  rw [A.heapWF.mem h hh n]
  constructor
  · rintro ⟨_, hm⟩
    have hin : (s.nodeD n).inRch = true := by rw [inRch_iff, hm]; omega
    obtain ⟨h1, h2⟩ := (A.queued n).1 hin
    exact ⟨h1, h2, (A.nec n h1).2.1, by rw [← A.queuedAt n hin]; exact hm⟩
  · rintro ⟨h1, h2, _, h4⟩
    have hin := (A.queued n).2 ⟨h1, h2⟩
    exact ⟨(A.nec n h1).1, by rw [A.queuedAt n hin]; exact h4⟩

/-- a needed stale node lies within the height limit of the heap -/
theorem Audit.stale_height_le {s : State} (A : Audit s) {n : Nat} (h1 : s.isNecessary n = true) (h2 : s.isStale n = true) :
    (s.nodeD n).height ≤ s.rch.maxAllowed := by
  have hin := (A.queued n).2 ⟨h1, h2⟩
  have := A.heapWF.range n (A.nec n h1).1
  rw [inRch_iff] at hin
  rw [← A.queuedAt n ((inRch_iff _).2 hin)]
  unfold Heap.maxAllowed
  omega

/-- when no needed node is stale (after a `stabilise`) every bucket is empty -/
theorem Audit.buckets_empty {s : State} (A : Audit s) (hf : ∀ n, s.isNecessary n = true → s.isStale n = false)
    (h : Nat) (hh : h < s.rch.queues.size) : s.rch.queues[h] = [] := by
  cases e : s.rch.queues[h] with
  | nil => rfl
  | cons a l =>
    have := ((A.bucket h hh).2 a).1 (by rw [e]; exact List.mem_cons_self)
    rw [hf a this.1] at this
    exact absurd this.2.1 (by simp)

/-! ## fragment F2 (static core + nested binds): the invariant between API actions implies the audit -/

theorem audit_of_qinv2 {env : Env} {rk : Nat → Nat} {s : State} (Q : QInv2 env rk s) : Audit s := by
  have G := Q.bgraph
  have I := Q.struct
  have F := Q.f2
  have necLt : ∀ n, s.isNecessary n = true → n < s.nodes.size := fun n hn => by
    by_cases hlt : n < s.nodes.size
    · exact hlt
    · rw [State.isNecessary, nodeD_default_of_ge s n (by omega)] at hn; cases hn
  have qn : ∀ m, (s.nodeD m).inRch = true → s.isNecessary m = true := fun m hm => by
    rcases I.qnec m hm with h | ⟨k, h⟩
    · exact h
    · cases h
  exact
    { status := Q.status
      currentScope := I.frag.scope
      handleAfterStab := Q.handleAfterStab
      propagateInvalidity := F.pinv
      setDuringStab := Q.setDuringStab
      deadVars := Q.deadVars
      nec := fun n hn => ⟨necLt n hn, (G.nec n hn).1, (G.nec n hn).2⟩
      childRec := fun n hn i c hc => by
        obtain ⟨h1, h2, h3⟩ := G.child n hn i c hc
        exact ⟨necLt c h1, h1, h2, h3⟩
      parentRec := G.parent
      parentsNodup := F.nodup
      scopeHeight := fun n b hn hsc => by
        obtain ⟨br, hb, h1, h2, h3⟩ := G.scope n b (necLt n hn) (G.nec n hn).1 hsc
        exact ⟨br, hb, h1, h2, (h3 hn).1, (h3 hn).2⟩
      unnec := fun n hn => by
        have hp : (s.nodeD n).parents = [] ∧ (s.nodeD n).observers = [] := by
          simp only [State.isNecessary, Node.isNecessary, Bool.or_eq_false_iff, Bool.not_eq_false', List.isEmpty_iff] at hn
          exact ⟨hn.1.1, hn.1.2⟩
        refine ⟨hp.1, hp.2, ?_⟩
        cases hq : (s.nodeD n).inRch with
        | false => rfl
        | true => rw [qn n hq] at hn; cases hn
      invalid := fun n hv => by
        obtain ⟨h1, h2, h3⟩ := F.inv n hv
        refine ⟨h1, h2, h3, ?_⟩
        simp [State.isNecessary, Node.isNecessary, h1, h2, F.noForce n]
      noForce := F.noForce
      noHandlers := F.noHandlers
      heapWF := I.heap.wf
      queued := fun m => ⟨fun hm => ⟨qn m hm, I.qstale m hm⟩, fun hm => I.queued m rfl hm.1 hm.2 (fun h => h)⟩
      queuedAt := fun m hm => I.hgt m hm rfl
      lowerBound := ⟨I.heap.lb0, fun m hm => by rw [← I.hgt m hm rfl]; exact I.heap.lb m hm⟩
      ahhLength := F.ahh.length
      ahhBuckets := F.ahh.buckets
      ahhMarks := F.ahh.marks
      obs := Q.obs
      vars := Q.vars }

theorem audit_of_qi2 {env : Env} {s : State} (Q : QI2 env s) : Audit s := by
  obtain ⟨rk, Q⟩ := Q
  exact audit_of_qinv2 Q

theorem audit_of_qg2 {env : Env} {s : State} (Q : QG2 env s) : Audit s := audit_of_qi2 Q.1

/-! ## from the virtual state to the actual state -/

theorem virt_inRch (g : Nat → Option Val) (s : State) (m : Nat) : ((virt g s).nodeD m).inRch = (s.nodeD m).inRch := by
  rw [virt_nodeD, virtNode_inRch]

theorem heapWF_of_virt {g : Nat → Option Val} {s : State} (W : HeapWF (virt g s)) : HeapWF s where
  mem h hh n := by
    have := W.mem h hh n
    simp only [virt_rch, virt_size, virt_nodeD, virtNode_heightInRch] at this
    exact this
  nodup h hh := W.nodup h hh
  length := W.length
  range n hn := by
    have := W.range n (by rw [virt_size]; exact hn)
    simp only [virt_rch, virt_nodeD, virtNode_heightInRch] at this
    exact this

theorem obsInv_of_virt {g : Nat → Option Val} {s : State} {pn pd : List Nat} (O : ObsInv (virt g s) pn pd) : ObsInv s pn pd where
  inRange o ob ho := by
    have := O.inRange o ob ho
    rw [virt_size] at this
    exact this
  mem n o := by
    have := O.mem n o
    simp only [virt_nodeD, virtNode_observers, virt_observers] at this
    exact this
  created := O.created
  newIn := O.newIn
  dis := O.dis
  disIn := O.disIn
  disNodup := O.disNodup

theorem varsOK_of_virt {g : Nat → Option Val} {s : State} (V : VarsOK (virt g s)) : VarsOK s where
  node n c hn hk := by
    have := V.node n c (by rw [virt_size]; exact hn) (by rw [virt_nodeD, virtNode_kind, virtKind_var_iff]; exact hk)
    exact this
  cell c vc hc := by
    have := V.cell c vc hc
    rw [virt_size, virt_nodeD, virtNode_kind, virtKind_var_iff] at this
    exact this

/-- **`Audit` reads only what virtualisation keeps.** -/
theorem Audit.of_virt {g : Nat → Option Val} {s : State} (A : Audit (virt g s)) : Audit s where
  status := A.status
  currentScope := A.currentScope
  handleAfterStab := A.handleAfterStab
  propagateInvalidity := A.propagateInvalidity
  setDuringStab := A.setDuringStab
  deadVars := A.deadVars
  nec n hn := by
    have := A.nec n (by rw [virt_isNecessary]; exact hn)
    simp only [virt_size, virt_nodeD, virtNode_valid, virtNode_height] at this
    exact this
  childRec n hn i c hc := by
    have := A.childRec n (by rw [virt_isNecessary]; exact hn) i c (by rw [virt_children]; exact hc)
    simp only [virt_size, virt_isNecessary, virt_nodeD, virtNode_parents, virtNode_height] at this
    exact this
  parentRec c p i hp := by
    have := A.parentRec c p i (by rw [virt_nodeD, virtNode_parents]; exact hp)
    simp only [virt_isNecessary, virt_children] at this
    exact this
  parentsNodup c := by
    have := A.parentsNodup c
    rw [virt_nodeD, virtNode_parents] at this
    exact this
  scopeHeight n b hn hsc := by
    have := A.scopeHeight n b (by rw [virt_isNecessary]; exact hn) (by rw [virt_nodeD, virtNode_createdIn]; exact hsc)
    simp only [virt_size, virt_isNecessary, virt_binds, virt_nodeD, virtNode_valid, virtNode_height] at this
    exact this
  unnec n hn := by
    have := A.unnec n (by rw [virt_isNecessary]; exact hn)
    simp only [virt_nodeD, virtNode_parents, virtNode_observers, virtNode_inRch] at this
    exact this
  invalid n hv := by
    have := A.invalid n (by rw [virt_nodeD, virtNode_valid]; exact hv)
    simp only [virt_isNecessary, virt_nodeD, virtNode_parents, virtNode_observers, virtNode_inRch] at this
    exact this
  noForce n := by
    have := A.noForce n
    rw [virt_nodeD, virtNode_forceNecessary] at this
    exact this
  noHandlers n := by
    have := A.noHandlers n
    rw [virt_nodeD, virtNode_num] at this
    exact this
  heapWF := heapWF_of_virt A.heapWF
  queued m := by
    have := A.queued m
    simp only [virt_inRch, virt_isNecessary, virt_isStale] at this
    exact this
  queuedAt m hm := by
    have := A.queuedAt m (by rw [virt_inRch]; exact hm)
    simp only [virt_nodeD, virtNode_heightInRch, virtNode_height] at this
    exact this
  lowerBound := by
    have := A.lowerBound
    simp only [virt_rch, virt_nodeD, virtNode_inRch, virtNode_height] at this
    exact this
  ahhLength := A.ahhLength
  ahhBuckets := A.ahhBuckets
  ahhMarks m := by
    have := A.ahhMarks m
    rw [virt_nodeD, virtNode_heightInAhh] at this
    exact this
  obs := obsInv_of_virt A.obs
  vars := varsOK_of_virt A.vars

/-- the invariant of fragment F2 on the VIRTUAL state gives the audit of the ACTUAL state -/
theorem audit_of_virt_qg2 {env' : Env} {g : Nat → Option Val} {s : State} (Q : QG2 env' (virt g s)) : Audit s :=
  (audit_of_qg2 Q).of_virt

end IncrVerif.Proofs.AuditF
