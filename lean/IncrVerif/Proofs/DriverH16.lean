import IncrVerif.Proofs.DriverH14
import IncrVerif.Proofs.DriverH15
/-!
# `RmSpec`, part 7: the call on a NECESSARY expert node, threaded through the virtual states
-/
namespace IncrVerif.Proofs.DriverH
open IncrVerif.Engine IncrVerif.Driver IncrVerif.Proofs IncrVerif.Proofs.Step IncrVerif.Proofs.Sched
open IncrVerif.Proofs.ExpertH IncrVerif.Proofs.ExpertH.QR IncrVerif.Proofs.Xp

theorem swapNat_last (i k : Nat) : swapNat i k k = i := by
  unfold swapNat
  split
  · rename_i h; exact h
  · simp

theorem staleOf_fold_fresh {S : State} {m f : Nat} {v : Val} {cs : List Nat}
    (hk : (S.nodeD m).kind = .fold f v cs) (hr : (S.nodeD m).recomputedAt = -1) : staleOf S m = true := by
  unfold staleOf
  rw [hk, hr]
  simp

theorem rmPrepared_expert_ne {x e e' i : Nat} {er : ExpertRec} {s : State} (h : e' ≠ e) :
    (rmPrepared x e er i s).experts[e']? = s.experts[e']? := by
  obtain ⟨N, hN⟩ := rmPrepared_eq x e er i s
  rw [hN]
  show (s.experts.setIfInBounds e _)[e']? = _
  rw [Array.getElem?_setIfInBounds]
  simp [Ne.symm h]

theorem rmPrepared_kind (x e : Nat) (er : ExpertRec) (i : Nat) (s : State) (m : Nat) :
    ((rmPrepared x e er i s).nodeD m).kind = (s.nodeD m).kind := by
  rw [rmPrepared_setParents]

section
variable {E : Env} {rk : Nat → Nat} {s : State} {x e i : Nat} {er : ExpertRec}

/-- the prepared state still satisfies what the simulation needs -/
theorem fr_rmPrepared (fr : Fr s) (hx : s.experts[e]? = some er) : Fr (rmPrepared x e er i s) := by
  obtain ⟨N, hN⟩ := rmPrepared_eq x e er i s
  refine ⟨by rw [hN]; exact fr.pc, fun n => ?_, by rw [hN]; exact fr.pinv, fun n => ?_, fun e' r h => ?_⟩
  · rw [rmPrepared_setParents]; exact fr.valid n
  · rw [rmPrepared_kind]; exact fr.kind n
  · by_cases he : e' = e
    · subst he
      rw [rmPrepared_expert hx] at h
      cases h
      exact fr.ni e' er hx
    · rw [rmPrepared_expert_ne he] at h; exact fr.ni e' r h

/-- **the prepared state, read in the virtual state, is a `Prep` step** -/
theorem prep_virt (F : XFrag E s) (I : Struct (virtEnv E) rk (virt s)) (hlt : x < s.nodes.size)
    (hk : (s.nodeD x).kind = .expert e) (hx : s.experts[e]? = some er) (hi : i < er.children.length) :
    Prep x i (er.children.length - 1)
      (.fold (xBase + er.f) (.int 0) ((swapToEnd er.children i).map (·.child)))
      (virt s) (virt (rmPrepared x e er i s)) := by
  obtain ⟨N, hN⟩ := rmPrepared_eq x e er i s
  have hsym : ∀ m j, (x, j) ∈ (s.nodeD m).parents → (er.children[j]?).map (·.child) = some m := by
    intro m j hm
    have := (I.par m x j (by rw [virt_nodeD]; exact hm)).1
    rw [virt_kids_expert hk hx, List.getElem?_map] at this
    exact this
  have hx1 := rmPrepared_expert (n := x) (i := i) hx
  refine ⟨by rw [virt_size]; exact hlt, by rw [virt_size, virt_size, rmPrepared_size],
    by rw [hN]; rfl, by rw [hN]; rfl, by rw [hN]; rfl, by rw [hN]; rfl, fun m => ?_, fun m hm => ?_, ?_, fun j => ?_⟩
  · rw [virt_nodeD, virt_nodeD]
    exact rmPrepared_parents hi hsym m
  · have h1 := rmPrepared_setParents x e er i s m
    generalize ((rmPrepared x e er i s).nodeD m).parents = Pm at h1
    have h2 : virtNode (rmPrepared x e er i s).experts (s.nodeD m) = virtNode s.experts (s.nodeD m) := by
      apply virtNode_congrD
      intro e' he'
      have : e' ≠ e := by intro h; rw [h] at he'; exact hm (F.xinj he' hk)
      unfold xRec; rw [rmPrepared_expert_ne this]
    have key : (virt (rmPrepared x e er i s)).nodeD m = { (virt s).nodeD m with parents := Pm } := by
      rw [virt_nodeD, virt_nodeD, h1, ← h2]; rfl
    rw [key]
  · have h1 := rmPrepared_setParents x e er i s x
    generalize ((rmPrepared x e er i s).nodeD x).parents = Px at h1
    have key : (virt (rmPrepared x e er i s)).nodeD x =
        { (virt s).nodeD x with
          kind := .fold (xBase + er.f) (.int 0) ((swapToEnd er.children i).map (·.child)),
          recomputedAt := -1, parents := Px } := by
      rw [virt_nodeD, virt_nodeD, h1]
      unfold virtNode
      simp only [hk, virtKind, ExpertH.forced, xRec_some hx1, if_true]
    rw [key]
  · show ((swapToEnd er.children i).map (·.child))[j]? = _
    rw [virt_kids_expert hk hx, List.getElem?_map, List.getElem?_map, swapToEnd_getElem? _ _ hi]

end

/-- what the necessary case delivers -/
structure RmOut (E : Env) (e x i : Nat) (er : ExpertRec) (s s' : State) : Prop where
  st : ∃ rk, Struct (virtEnv E) rk (virt s')
  fr : Fr s'
  self : ∃ er', s'.experts[e]? = some er' ∧ er'.children = swapPop er.children i ∧ er'.forceStale = true
  other : ∀ e' er0 er0', e' ≠ e → s.experts[e']? = some er0 → s'.experts[e']? = some er0' →
    er0'.children = er0.children ∧ er0'.forceStale = er0.forceStale
  nec : s'.isNecessary x = s.isNecessary x
  necAll : s.isNecessary x = false → ∀ m, s'.isNecessary m = s.isNecessary m

set_option maxHeartbeats 1000000 in
theorem rm_nec {E : Env} {s s' : State} {fuel x dep e i : Nat} {er : ExpertRec}
    (M : Mid E s) (hlt : x < s.nodes.size) (hk : (s.nodeD x).kind = .expert e) (hx : s.experts[e]? = some er)
    (hi : er.children.findIdx? (·.dep == dep) = some i) (hnec : s.isNecessary x = true)
    (h : (expertRemoveDependency fuel x dep).run.run s = (.ok (), s')) : RmOut E e x i er s s' := by
  have F := M.frag
  obtain ⟨rk, I⟩ := M.st
  have fr := M.fr
  have hxE : IsExpert s x (s.nodeD x) e er := ⟨some_of_lt hlt, F.valid x hlt, hk, hx⟩
  have hrun : runningOk s x = true := by
    cases hr : runningOk s x with
    | true => rfl
    | false =>
      obtain ⟨p, hp⟩ := expertRemoveDependency_assert_fails fuel x dep hxE hr
      rw [hp] at h; cases h
  have hnecN : (s.nodeD x).isNecessary = true := hnec
  rw [expertRemoveDependency_necessary fuel x dep hxE hrun hi hnecN] at h
  obtain ⟨hil, -, -⟩ := findIdx_facts _ _ _ hi
  -- the prepared state
  have P := prep_virt (i := i) F I hlt hk hx hil
  have fr1 := fr_rmPrepared (x := x) (i := i) fr hx
  have hx1 := rmPrepared_expert (n := x) (i := i) hx
  have hkind1 := rmPrepared_kind x e er i s
  have hsz1 := rmPrepared_size x e er i s
  have hne1 : ∀ e', e' ≠ e → (rmPrepared x e er i s).experts[e']? = s.experts[e']? :=
    fun e' h => rmPrepared_expert_ne h
  have hnecv : (virt s).isNecessary x = true := by rw [virt_isNecessary]; exact hnec
  have hkids0 : kids ((virt s).nodeD x).kind = er.children.map (·.child) := virt_kids_expert hk hx
  have hK : (kids ((virt s).nodeD x).kind).length = (er.children.length - 1) + 1 := by
    rw [hkids0, List.length_map]; omega
  have hst1 : staleOf (virt (rmPrepared x e er i s)) x = true :=
    staleOf_fold_fresh P.kind_self (by rw [P.self])
  obtain ⟨I1, hh1, h01, hg1⟩ := GInv.prep I P hnecv (by rw [hK]; omega) (by rw [hK]; omega) trivial hst1
  rw [hK] at I1
  have hkid1 : (kids ((virt (rmPrepared x e er i s)).nodeD x).kind)[er.children.length - 1]? =
      some (er.children[i]?.getD default).child := by
    rw [P.kind_self]
    show ((swapToEnd er.children i).map (·.child))[er.children.length - 1]? = _
    rw [List.getElem?_map, swapToEnd_getElem? _ _ hil, swapNat_last, List.getElem?_eq_getElem hil]
    rfl
  have hkind1x : ((virt (rmPrepared x e er i s)).nodeD x).kind =
      .fold (xBase + er.f) (.int 0) ((swapToEnd er.children i).map (·.child)) := P.kind_self
  have hnec1 : (rmPrepared x e er i s).isNecessary x = true := by
    rw [← virt_isNecessary, P.nec]; exact hnecv
  generalize rmPrepared x e er i s = s1 at h P fr1 hx1 hkind1 hsz1 hne1 hst1 I1 hh1 h01 hg1 hkid1 hkind1x hnec1
  generalize hc : (er.children[i]?.getD default).child = c at h hkid1
  -- the unlinking phase
  obtain ⟨_, s2, h2, h⟩ := bind_ok_inv h
  obtain ⟨_, s3, h3, h4⟩ := bind_ok_inv h
  obtain ⟨hv2, fr2⟩ := Sim.removeParent c (er.children.length - 1) x s1 fr1 _ s2 h2
  obtain ⟨hv3, fr3⟩ := Sim.checkIfUnnecessary fuel c s2 fr2 _ s3 h3
  obtain ⟨I3, hx31, hh3, -⟩ := rm_unlink I1 hkid1 hh1 hv2 hv3
  have xf13 : XF s1 s3 := ((PresX.removeParent c _ x).h _ _ _ h2).trans ((PresX.checkIfUnnecessary fuel c).h _ _ _ h3)
  obtain ⟨r, hr3, hf3, -, hch3, -, hfs3⟩ := xf13.xrec hx1
  have hsz3 : s3.nodes.size = s.nodes.size := xf13.size.trans hsz1
  have hlt3 : x < s3.nodes.size := by rw [hsz3]; exact hlt
  have hkind3 : ∀ m, (s3.nodeD m).kind = (s.nodeD m).kind := fun m => (xf13.kind m).trans (hkind1 m)
  have hclt : c < s3.nodes.size := by
    have := I1.kid_in hkid1
    rw [virt_size] at this
    rw [xf13.size]; exact this
  have hn3 := some_of_lt hlt3
  have hc3 := some_of_lt hclt
  have hcv : (s3.nodeD c).valid = true := fr3.valid c
  have hnec3 : s3.isNecessary x = true := by
    have := I3.lnec x _ (upd_self ..)
    rwa [virt_isNecessary] at this
  -- the record after `rmFinish`
  have hfin : finishRec r (!(s3.nodeD c).valid) dep =
      { r with children := r.children.dropLast, forceStale := true, slots := r.slots.filter (·.1 != dep) } := by
    rw [hcv]; rfl
  generalize hr' : finishRec r (!(s3.nodeD c).valid) dep = r' at hfin
  have hr'f : r'.f = er.f := by rw [hfin]; exact hf3
  have hch3' : r.children = swapToEnd er.children i := hch3
  have hr'c : r'.children = (swapToEnd er.children i).dropLast := by rw [hfin, ← hch3']
  have hr'fs : r'.forceStale = true := by rw [hfin]
  have hr'ni : r'.numInvalidChildren = 0 := by rw [hfin]; exact fr3.ni e r hr3
  -- the virtual state after the record update
  have hinj3 : ∀ m, (s3.nodeD m).kind = .expert e → m = x := by
    intro m hm; rw [hkind3] at hm; exact F.xinj hm hk
  have R := rekind_putExpert (r' := r') hlt3 ((hkind3 x).trans hk) hr3 hinj3 hr'fs
  have hkind3x : ((virt s3).nodeD x).kind =
      .fold (xBase + er.f) (.int 0) ((swapToEnd er.children i).map (·.child)) := by rw [hx31]; exact hkind1x
  have hkk : kids (Kind.fold (xBase + r'.f) (.int 0) (r'.children.map (·.child))) =
      (kids ((virt s3).nodeD x).kind).take (er.children.length - 1) := by
    rw [hkind3x]
    show r'.children.map (·.child) = ((swapToEnd er.children i).map (·.child)).take _
    rw [hr'c, List.dropLast_eq_take, List.map_take, swapToEnd_length]
  have hst4 : staleOf (virt (putExpert e r' s3)) x = true := staleOf_fold_fresh R.kind_self R.rec_self
  have h03 : 0 ≤ ((virt s3).nodeD x).height := by rw [hx31]; exact h01
  have hg3 : ((virt s3).nodeD x).inRch = true → ((virt s3).nodeD x).heightInRch = ((virt s3).nodeD x).height := by
    rw [hx31]; exact hg1
  have frput : ∀ t, Fr t → t.experts = s3.experts → Fr (putExpert e r' t) := by
    intro t ft ht
    refine ⟨ft.pc, ft.valid, ft.pinv, ft.kind, fun e' r0 h0 => ?_⟩
    by_cases he : e' = e
    · subst he
      rw [putExpert_get (s := t) r' (by rw [ht]; exact hr3)] at h0
      cases h0; exact hr'ni
    · rw [putExpert_get_ne _ _ (Ne.symm he)] at h0; exact ft.ni e' r0 h0
  -- the final state
  have fin : ∀ t, (t = s3 ∨ t = inserted x (s3.nodeD x).height s3) → s' = putExpert e r' t → Fr t →
      Struct (virtEnv E) rk (virt s') → RmOut E e x i er s s' := by
    intro t ht hs' ft S'
    have hte : t.experts = s3.experts := by rcases ht with rfl | rfl <;> rfl
    have htn : ∀ m, t.isNecessary m = s3.isNecessary m := by
      intro m
      rcases ht with rfl | rfl
      · rfl
      · simp only [State.isNecessary, inserted_nodeD]; split <;> rfl
    refine ⟨⟨rk, S'⟩, by rw [hs']; exact frput t ft hte, ⟨r', ?_, ?_, hr'fs⟩, ?_, ?_, ?_⟩
    · rw [hs']; exact putExpert_get (s := t) r' (by rw [hte]; exact hr3)
    · rw [hr'c, swapToEnd_dropLast]
    · intro e' er0 er0' he h0 h0'
      rw [hs', putExpert_get_ne _ _ (Ne.symm he), hte] at h0'
      rw [← hne1 e' he] at h0
      obtain ⟨er1, h1, -, -, hc1, -, hf1⟩ := xf13.xrec h0
      rw [h1] at h0'; cases h0'
      exact ⟨hc1, hf1⟩
    · rw [hs', putExpert_isNecessary, htn, hnec3, hnec]
    · intro hf; rw [hnec] at hf; cases hf
  obtain ⟨ndn, hndn, h4⟩ : ∃ ndn, s3.nodes[x]? = some ndn ∧ (rmFinish x e c dep).run.run s3 = (.ok (), s') :=
    ⟨_, hn3, h4⟩
  have hndD : s3.nodeD x = ndn := nodeD_of_some hndn
  cases hq : ndn.inRch with
  | true =>
    rw [rmFinish_run_queued hndn hq hr3 hc3, hr'] at h4
    have hs' : s' = putExpert e r' s3 := by cases h4; rfl
    refine fin s3 (Or.inl rfl) hs' fr3 ?_
    rw [hs']
    exact rm_close I3 R hkk trivial hst4 hh3 h03 hg3
      (Or.inl ⟨by rw [virt_nodeD, hndD]; exact hq, rfl⟩)
  | false =>
    rw [rmFinish_run_insert hndn hq hr3 hc3, hr'] at h4
    rcases hins : (rchInsert x).run.run s3 with ⟨_ | u, S1⟩
    · rw [hins] at h4; cases h4
    · rw [hins] at h4
      have hs' : s' = putExpert e r' (inserted x ndn.height s3) := by cases h4; rfl
      obtain ⟨-, fr6⟩ := Sim.rchInsert x s3 fr3 _ S1 hins
      obtain ⟨nd1, hn1, h0, hmax, e1⟩ := rchInsert_ok_inv hins
      rw [hndn] at hn1; cases hn1
      rw [e1] at fr6
      refine fin _ (Or.inr (by rw [hndD])) hs' fr6 ?_
      have hnqv : ((virt s3).nodeD x).inRch = false := by rw [virt_nodeD, hndD]; exact hq
      have hlt3v : x < (virt s3).nodes.size := by rw [virt_size]; exact hlt3
      have hheap := I3.heap.inserted (x := ndn.height) hlt3v hnqv h0 hmax
      rw [hs']
      refine rm_close I3 R hkk trivial hst4 hh3 h03 hg3 (Or.inr ⟨hnqv, ?_⟩)
      refine ⟨rfl, rfl, ?_, rfl, fun m => ?_, fun m hm => ?_, ?_, ?_⟩
      · rw [virt_size, virt_size]; exact Array.size_modify ..
      · rw [virt_nodeD, virt_nodeD, putExpert_nodeD, putExpert_nodeD, inserted_nodeD]
        split
        · exact ⟨_, rfl⟩
        · exact ⟨(s3.nodeD m).heightInRch, rfl⟩
      · rw [virt_nodeD, virt_nodeD, putExpert_nodeD, putExpert_nodeD, inserted_nodeD,
          if_neg (fun h => hm h.1.symm)]
        rfl
      · refine hheap.congr rfl ?_ (fun m => ?_)
        · rw [virt_size]; show (inserted x ndn.height s3).nodes.size = (inserted x ndn.height (virt s3)).nodes.size
          simp [inserted, virt_size]
        · rw [virt_nodeD, putExpert_nodeD, inserted_nodeD, inserted_nodeD, virt_size, virt_nodeD]
          split <;> rfl
      · rw [virt_nodeD, virt_nodeD, putExpert_nodeD, putExpert_nodeD, inserted_nodeD, if_pos ⟨rfl, hlt3⟩, hndD]
        rfl

end IncrVerif.Proofs.DriverH
