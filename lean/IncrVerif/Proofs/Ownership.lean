import IncrVerif.Proofs.Observers
/-!
# Helper lemmas for C12 (ownership: what is still allocated)

* `ReachG refs roots n`: `n` is a root or reachable from a root through `refs` edges.
* `reachFrom` is sound for every fuel, and complete once the fuel covers
  `frontier.length + Σ_{n unseen} (refs n).length` (every step pops one frontier entry; an entry is
  pushed only when its referrer is visited for the first time).
* the fuel `State.aliveSet` uses (`roots.length + Σ_{n < nodes.size} (refsOf n).length + 8`) is exactly
  of that form, so `aliveSet` is the reachable set for every state (`mem_aliveSet_iff`).
-/
namespace IncrVerif.Proofs.Own
open IncrVerif.Engine

/-! ## reachability -/

/-- `n` is a root, or reachable from a root through `refs` edges -/
inductive ReachG (refs : Nat → List Nat) (roots : List Nat) : Nat → Prop
  | root {n : Nat} : n ∈ roots → ReachG refs roots n
  | step {m n : Nat} : ReachG refs roots m → n ∈ refs m → ReachG refs roots n

theorem ReachG.mono {refs : Nat → List Nat} {r r' : List Nat} (h : ∀ x, x ∈ r → x ∈ r') {n : Nat}
    (hn : ReachG refs r n) : ReachG refs r' n := by
  induction hn with
  | root hm => exact .root (h _ hm)
  | step _ hc ih => exact .step ih hc

/-- anything satisfying a property closed under `refs` and containing the roots contains `ReachG` -/
theorem ReachG.closed {refs : Nat → List Nat} {roots : List Nat} {P : Nat → Prop}
    (h0 : ∀ n, n ∈ roots → P n) (h1 : ∀ m n, P m → n ∈ refs m → P n) {n : Nat}
    (hn : ReachG refs roots n) : P n := by
  induction hn with
  | root hm => exact h0 _ hm
  | step _ hc ih => exact h1 _ _ ih hc

/-! ## `reachFrom`: soundness (any fuel) -/

theorem reachFrom_sound (refs : Nat → List Nat) (P : Nat → Prop)
    (hstep : ∀ m n, P m → n ∈ refs m → P n) :
    ∀ (fuel : Nat) (frontier seen : List Nat), (∀ n, n ∈ frontier → P n) → (∀ n, n ∈ seen → P n) →
      ∀ n, n ∈ reachFrom refs fuel frontier seen → P n := by
  intro fuel
  induction fuel with
  | zero => intro frontier seen _ hs n hn; exact hs n (by simpa [reachFrom] using hn)
  | succ fuel ih =>
    intro frontier seen hf hs n hn
    cases frontier with
    | nil => exact hs n (by simpa [reachFrom] using hn)
    | cons a rest =>
      rw [reachFrom] at hn
      split at hn
      · exact ih rest seen (fun x hx => hf x (List.mem_cons_of_mem _ hx)) hs n hn
      · refine ih (refs a ++ rest) (a :: seen) ?_ ?_ n hn
        · intro x hx
          rcases List.mem_append.1 hx with hx | hx
          · exact hstep a x (hf a (List.mem_cons_self ..)) hx
          · exact hf x (List.mem_cons_of_mem _ hx)
        · intro x hx
          rcases List.mem_cons.1 hx with rfl | hx
          · exact hf _ (List.mem_cons_self ..)
          · exact hs x hx

/-- `seen` only grows -/
theorem reachFrom_seen (refs : Nat → List Nat) :
    ∀ (fuel : Nat) (frontier seen : List Nat) (n : Nat), n ∈ seen →
      n ∈ reachFrom refs fuel frontier seen := by
  intro fuel
  induction fuel with
  | zero => intro _ _ n hn; simpa [reachFrom] using hn
  | succ fuel ih =>
    intro frontier seen n hn
    cases frontier with
    | nil => simpa [reachFrom] using hn
    | cons a rest =>
      rw [reachFrom]
      split
      · exact ih rest seen n hn
      · exact ih _ _ n (List.mem_cons_of_mem _ hn)

/-! ## `reachFrom`: completeness (enough fuel) -/

/-- what the search may still push: the out-degrees of the nodes in `l` -/
def degSum (refs : Nat → List Nat) (l : List Nat) : Nat := (l.map fun n => (refs n).length).sum

theorem degSum_erase (refs : Nat → List Nat) (l : List Nat) (a : Nat) (h : a ∈ l) :
    degSum refs (l.erase a) + (refs a).length = degSum refs l := by
  induction l with
  | nil => cases h
  | cons b l ih =>
    by_cases hb : b = a
    · subst hb; simp [degSum]; omega
    · have ha : a ∈ l := by
        rcases List.mem_cons.1 h with h | h
        · exact absurd h.symm hb
        · exact h
      have := ih ha
      rw [List.erase_cons_tail (by simpa using hb)]
      simp only [degSum, List.map_cons, List.sum_cons] at this ⊢
      omega

/-- The search with enough fuel returns a set that contains `seen` and `frontier` and is closed
under `refs` on everything it added.  `unseen` lists (at least) the not-yet-seen nodes that have
references; the fuel must cover the frontier plus everything those can still push. -/
theorem reachFrom_complete (refs : Nat → List Nat) :
    ∀ (fuel : Nat) (frontier seen unseen : List Nat),
      (∀ n, n ∉ seen → refs n ≠ [] → n ∈ unseen) →
      frontier.length + degSum refs unseen ≤ fuel →
      (∀ n, n ∈ frontier → n ∈ reachFrom refs fuel frontier seen) ∧
      (∀ m, m ∈ reachFrom refs fuel frontier seen → m ∉ seen →
        ∀ c, c ∈ refs m → c ∈ reachFrom refs fuel frontier seen) := by
  intro fuel
  induction fuel with
  | zero =>
    intro frontier seen unseen _ hfuel
    have : frontier = [] := List.eq_nil_of_length_eq_zero (by omega)
    subst this
    exact ⟨fun n hn => (nomatch hn), fun m hm hms => absurd (by simpa [reachFrom] using hm) hms⟩
  | succ fuel ih =>
    intro frontier seen unseen hun hfuel
    cases frontier with
    | nil => exact ⟨fun n hn => (nomatch hn), fun m hm hms => absurd (by simpa [reachFrom] using hm) hms⟩
    | cons a rest =>
      rw [reachFrom]
      split
      · rename_i hmem
        have ha : a ∈ seen := by simpa using hmem
        obtain ⟨h1, h2⟩ := ih rest seen unseen hun (by simp only [List.length_cons] at hfuel; omega)
        refine ⟨fun n hn => ?_, h2⟩
        rcases List.mem_cons.1 hn with rfl | hn
        · exact reachFrom_seen refs fuel rest seen _ ha
        · exact h1 n hn
      · rename_i hmem
        have ha : a ∉ seen := by simpa using hmem
        have hcost : (refs a ++ rest).length + degSum refs (unseen.erase a) ≤ fuel := by
          simp only [List.length_cons, List.length_append] at hfuel ⊢
          by_cases hau : a ∈ unseen
          · have := degSum_erase refs unseen a hau; omega
          · have hnil : refs a = [] := Classical.byContradiction fun hne => hau (hun a ha hne)
            rw [List.erase_of_not_mem hau, hnil]; simp; omega
        obtain ⟨h1, h2⟩ := ih (refs a ++ rest) (a :: seen) (unseen.erase a) (by
          intro n hn hne
          have hna : n ≠ a := fun e => hn (e ▸ List.mem_cons_self ..)
          have hns : n ∉ seen := fun e => hn (List.mem_cons_of_mem _ e)
          exact (List.mem_erase_of_ne hna).2 (hun n hns hne)) hcost
        refine ⟨fun n hn => ?_, fun m hm hms c hc => ?_⟩
        · rcases List.mem_cons.1 hn with rfl | hn
          · exact reachFrom_seen refs fuel _ _ _ (List.mem_cons_self ..)
          · exact h1 n (List.mem_append_right _ hn)
        · by_cases hma : m = a
          · subst hma; exact h1 c (List.mem_append_left _ hc)
          · exact h2 m hm (by simp [hma, hms]) c hc

/-! ## the alive set of a state -/

/-- reachable from a root of the state through strong references -/
def Reach (s : State) (n : Nat) : Prop := ReachG s.refsOf s.roots n

theorem nodeD_default_kind (s : State) (n : Nat) (h : s.nodes.size ≤ n) :
    (s.nodeD n).kind = .const default := by
  simp [State.nodeD, Array.getElem?_eq_none h]; rfl

/-- nodes that do not exist hold nothing -/
theorem refsOf_out_of_range (s : State) (n : Nat) (h : s.nodes.size ≤ n) : s.refsOf n = [] := by
  simp only [State.refsOf, nodeD_default_kind s n h]

theorem foldl_add_eq (f : Nat → Nat) (l : List Nat) (a : Nat) :
    l.foldl (fun acc n => acc + f n) a = a + (l.map f).sum := by
  induction l generalizing a with
  | nil => simp
  | cons x l ih => simp only [List.foldl_cons, List.map_cons, List.sum_cons, ih]; omega

/-- the fuel of `aliveSet`, in terms of `degSum` -/
theorem aliveSet_eq (s : State) :
    s.aliveSet = reachFrom s.refsOf
      (s.roots.length + degSum s.refsOf (List.range s.nodes.size) + 8) s.roots [] := by
  unfold State.aliveSet degSum
  rw [foldl_add_eq]; simp

theorem aliveSet_sound (s : State) (n : Nat) (h : n ∈ s.aliveSet) : Reach s n :=
  reachFrom_sound s.refsOf (Reach s) (fun _ _ hm hc => .step hm hc) _ s.roots []
    (fun _ hx => .root hx) (fun _ hx => by cases hx) n h

/-- the search is complete for ANY fuel that covers the roots plus all references held by existing
nodes -/
theorem search_complete (s : State) (fuel : Nat)
    (hfuel : s.roots.length + degSum s.refsOf (List.range s.nodes.size) ≤ fuel) (n : Nat)
    (h : Reach s n) : n ∈ reachFrom s.refsOf fuel s.roots [] := by
  have hc := reachFrom_complete s.refsOf fuel s.roots [] (List.range s.nodes.size)
    (by
      intro m _ hne
      refine List.mem_range.2 (Classical.byContradiction fun hge => hne ?_)
      exact refsOf_out_of_range s m (by omega))
    hfuel
  exact ReachG.closed (P := fun n => n ∈ reachFrom s.refsOf fuel s.roots []) hc.1
    (fun m c hm hcm => hc.2 m hm (by simp) c hcm) h

theorem search_sound (s : State) (fuel : Nat) (n : Nat)
    (h : n ∈ reachFrom s.refsOf fuel s.roots []) : Reach s n :=
  reachFrom_sound s.refsOf (Reach s) (fun _ _ hm hc => .step hm hc) _ s.roots []
    (fun _ hx => .root hx) (fun _ hx => by cases hx) n h

theorem aliveSet_complete (s : State) (n : Nat) (h : Reach s n) : n ∈ s.aliveSet := by
  rw [aliveSet_eq]; exact search_complete s _ (by omega) n h

theorem mem_aliveSet_iff (s : State) (n : Nat) : n ∈ s.aliveSet ↔ Reach s n :=
  ⟨aliveSet_sound s n, aliveSet_complete s n⟩

theorem isAlive_iff (s : State) (n : Nat) : s.isAlive n = true ↔ Reach s n := by
  simp only [State.isAlive, List.contains_iff_mem]
  exact mem_aliveSet_iff s n

theorem reachFrom_nil (refs : Nat → List Nat) (fuel : Nat) : reachFrom refs fuel [] [] = [] := by
  cases fuel <;> rfl

/-- fewer roots, same references: fewer nodes alive -/
theorem aliveSet_subset (s s' : State) (hrefs : s'.refsOf = s.refsOf)
    (hroots : ∀ n, n ∈ s'.roots → n ∈ s.roots) (n : Nat) (h : n ∈ s'.aliveSet) : n ∈ s.aliveSet := by
  apply aliveSet_complete s
  have := aliveSet_sound s' n h
  unfold Reach at this ⊢
  rw [hrefs] at this
  exact this.mono hroots

/-! ## roots: how they move when a handle is given up -/

theorem refsOf_congr (s s' : State) (h1 : s'.nodes = s.nodes) (h2 : s'.binds = s.binds)
    (h3 : s'.experts = s.experts) : s'.refsOf = s.refsOf := by
  funext n; simp only [State.refsOf, State.nodeD, h1, h2, h3]

theorem mem_roots (s : State) (n : Nat) : n ∈ s.roots ↔
    (n ∈ s.handles ∨ (∃ k, (k, n) ∈ s.slots) ∨
     (∃ vc, vc ∈ s.vars.toList ∧ (vc.handles > 0 ∨ vc.linked = true) ∧ vc.node = n) ∨
     (∃ ob, ob ∈ s.observers.toList ∧ (ob.clones > 0 ∨ ob.state = .inUse ∨ ob.state = .disallowed)
        ∧ ob.node = n) ∨
     (∃ q, q ∈ s.rch.queues.toList ∧ n ∈ q)) := by
  simp only [State.roots, List.mem_append, List.mem_map, List.mem_filterMap, List.mem_flatten,
    or_assoc]
  constructor
  · rintro (h | ⟨⟨k, m⟩, h, rfl⟩ | ⟨vc, h1, h2⟩ | ⟨ob, h1, h2⟩ | h)
    · exact .inl h
    · exact .inr (.inl ⟨k, h⟩)
    · split at h2
      · rename_i hc; cases h2
        exact .inr (.inr (.inl ⟨vc, h1, by simpa using hc, rfl⟩))
      · cases h2
    · split at h2
      · rename_i hc; cases h2
        exact .inr (.inr (.inr (.inl ⟨ob, h1, by simpa [or_assoc] using hc, rfl⟩)))
      · cases h2
    · exact .inr (.inr (.inr (.inr h)))
  · rintro (h | ⟨k, h⟩ | ⟨vc, h1, h2, rfl⟩ | ⟨ob, h1, h2, rfl⟩ | h)
    · exact .inl h
    · exact .inr (.inl ⟨(k, n), h, rfl⟩)
    · refine .inr (.inr (.inl ⟨vc, h1, ?_⟩))
      rw [if_pos (by simpa using h2)]
    · refine .inr (.inr (.inr (.inl ⟨ob, h1, ?_⟩)))
      rw [if_pos (by simpa [or_assoc] using h2)]
    · exact .inr (.inr (.inr (.inr h)))

/-- membership in a list modified at one position -/
theorem mem_modify_toList {α} (a : Array α) (i : Nat) (f : α → α) (x : α)
    (h : x ∈ (a.modify i f).toList) : x ∈ a.toList ∨ ∃ y, a[i]? = some y ∧ x = f y := by
  rw [Array.mem_toList_iff, Array.mem_iff_getElem?] at h
  obtain ⟨j, hj⟩ := h
  rw [Array.getElem?_modify] at hj
  split at hj
  · cases hy : a[j]? with
    | none => rw [hy] at hj; cases hj
    | some y =>
      rw [hy] at hj; cases hj
      rename_i hij
      exact .inr ⟨y, by rw [hij]; exact hy, rfl⟩
  · exact .inl (by rw [Array.mem_toList_iff, Array.mem_iff_getElem?]; exact ⟨j, hj⟩)

/-- dropping a node handle removes (at most) a root -/
theorem roots_eraseHandle (s : State) (h : Nat) (n : Nat)
    (hn : n ∈ ({ s with handles := s.handles.erase h } : State).roots) : n ∈ s.roots := by
  rw [mem_roots] at hn ⊢
  rcases hn with hn | hn
  · exact .inl (List.mem_of_mem_erase hn)
  · exact .inr hn

/-- changing one observer record in a way that keeps its node and does not give it a new reason to
be held (no extra public handle, not moved into `inUse`/`disallowed` from outside them) adds no root -/
theorem roots_modObs (s s' : State) (o : Nat) (f : ObsRec → ObsRec)
    (hobs : s'.observers = s.observers.modify o f) (hha : s'.handles = s.handles)
    (hsl : s'.slots = s.slots) (hv : s'.vars = s.vars) (hr : s'.rch = s.rch)
    (hnode : ∀ ob, s.observers[o]? = some ob → (f ob).node = ob.node)
    (hcl : ∀ ob, s.observers[o]? = some ob → (f ob).clones ≤ ob.clones)
    (hst : ∀ ob, s.observers[o]? = some ob → (f ob).state = .inUse ∨ (f ob).state = .disallowed →
      ob.state = .inUse ∨ ob.state = .disallowed)
    (n : Nat) (hn : n ∈ s'.roots) : n ∈ s.roots := by
  rw [mem_roots] at hn ⊢
  rw [hobs, hha, hsl, hv, hr] at hn
  rcases hn with hn | hn | hn | ⟨ob, h1, h2, h3⟩ | hn
  · exact .inl hn
  · exact .inr (.inl hn)
  · exact .inr (.inr (.inl hn))
  · refine .inr (.inr (.inr (.inl ?_)))
    rcases mem_modify_toList _ _ _ _ h1 with h1 | ⟨y, hy, rfl⟩
    · exact ⟨ob, h1, h2, h3⟩
    · have hmem : y ∈ s.observers.toList := by
        rw [Array.mem_toList_iff, Array.mem_iff_getElem?]; exact ⟨o, hy⟩
      refine ⟨y, hmem, ?_, (hnode y hy).symm.trans h3⟩
      have := hcl y hy
      rcases h2 with h2 | h2
      · exact .inl (by omega)
      · exact .inr (hst y hy h2)
  · exact .inr (.inr (.inr (.inr hn)))

/-- changing one variable cell in a way that keeps its node, adds no public handle and does not
re-link the `Var ↔ watch` cycle adds no root -/
theorem roots_modVar (s : State) (v : Nat) (f : VarCell → VarCell)
    (hnode : ∀ vc, (f vc).node = vc.node) (hh : ∀ vc, (f vc).handles ≤ vc.handles)
    (hl : ∀ vc, (f vc).linked = true → vc.linked = true)
    (n : Nat) (hn : n ∈ ({ s with vars := s.vars.modify v f } : State).roots) : n ∈ s.roots := by
  rw [mem_roots] at hn ⊢
  rcases hn with hn | hn | ⟨vc, h1, h2, h3⟩ | hn
  · exact .inl hn
  · exact .inr (.inl hn)
  · refine .inr (.inr (.inl ?_))
    rcases mem_modify_toList _ _ _ _ h1 with h1 | ⟨y, hy, rfl⟩
    · exact ⟨vc, h1, h2, h3⟩
    · have hmem : y ∈ s.vars.toList := by
        rw [Array.mem_toList_iff, Array.mem_iff_getElem?]; exact ⟨v, hy⟩
      refine ⟨y, hmem, ?_, (hnode y).symm.trans h3⟩
      have := hh y
      rcases h2 with h2 | h2
      · exact .inl (by omega)
      · exact .inr (hl y h2)
  · exact .inr (.inr (.inr hn))

/-! ## dropping a node handle (`stepAction (.dropHandle o)`) -/

/-- what `resolveOpnd` returns (it never changes the state) -/
def resolve (s : State) (loc : List Nat) : Opnd → Except Panic Nat
  | .outer k => match s.top[k]? with
    | some n => .ok n
    | none => .error (.site "model:bad-outer")
  | .abs n => .ok n
  | .loc j => match loc[j]? with
    | some n => .ok n
    | none => .error (.site "model:bad-local")
  | .slot k => match s.slots.lookup k with
    | some n => .ok n
    | none => .error (.site "model:empty-slot")

theorem resolveOpnd_run (s : State) (loc : List Nat) (o : Opnd) :
    (resolveOpnd loc o).run.run s = (resolve s loc o, s) := by
  cases o with
  | outer k =>
    simp only [resolveOpnd, resolve, Obs.run_bind, Obs.run_get]
    cases s.top[k]? <;> rfl
  | abs n => rfl
  | loc j =>
    simp only [resolveOpnd, resolve]
    cases loc[j]? <;> rfl
  | slot k =>
    simp only [resolveOpnd, resolve, Obs.run_bind, Obs.run_get]
    cases s.slots.lookup k <;> rfl

/-- the state after the program drops its handle on node `n` -/
def dropped (s : State) (n : Nat) : State := { s with handles := s.handles.erase n }

theorem dropHandle_run (env : Env) (o : Opnd) (tokens : Array Nat) (s : State) :
    (stepAction env (.dropHandle o) tokens).run.run s =
      match resolve s [] o with
      | .error p => (.error p, s)
      | .ok n =>
        if s.handles.contains n then (.ok ("ok", tokens), dropped s n)
        else (.ok ("noop", tokens), s) := by
  simp only [stepAction, Obs.run_bind, resolveOpnd_run]
  cases resolve s [] o with
  | error p => rfl
  | ok n =>
    simp only [Obs.run_get]
    by_cases h : s.handles.contains n = true
    · simp only [h, if_true, Obs.run_bind, Obs.run_modify, Obs.run_pure]; rfl
    · simp only [h, Bool.false_eq_true, if_false, Obs.run_pure]

/-! ## the drop actions can only shrink the set of roots -/

/-- same strong references, no new root -/
def Shrink (s s' : State) : Prop := s'.refsOf = s.refsOf ∧ ∀ n, n ∈ s'.roots → n ∈ s.roots

instance : Obs.PreOrd Shrink :=
  ⟨fun _ => ⟨rfl, fun _ h => h⟩, fun h1 h2 => ⟨h2.1.trans h1.1, fun n h => h1.2 n (h2.2 n h)⟩⟩

theorem Shrink.of_eq {s s' : State} (h1 : s'.nodes = s.nodes) (h2 : s'.binds = s.binds)
    (h3 : s'.experts = s.experts) (h4 : s'.handles = s.handles) (h5 : s'.slots = s.slots)
    (h6 : s'.vars = s.vars) (h7 : s'.observers = s.observers) (h8 : s'.rch = s.rch) :
    Shrink s s' :=
  ⟨refsOf_congr s s' h1 h2 h3, fun n hn => by simpa only [State.roots, h4, h5, h6, h7, h8] using hn⟩

theorem Shrink.alive {s s' : State} (h : Shrink s s') (n : Nat)
    (hn : n ∈ s'.aliveSet) : n ∈ s.aliveSet := aliveSet_subset s s' h.1 h.2 n hn

theorem shrink_bumpCounter (f) : Obs.Pres Shrink (bumpCounter f) := by
  unfold bumpCounter
  exact Obs.Pres.modify fun s => Shrink.of_eq rfl rfl rfl rfl rfl rfl rfl rfl

theorem shrink_modObs (o : Nat) (f : ObsRec → ObsRec)
    (hnode : ∀ ob, (f ob).node = ob.node) (hcl : ∀ ob, (f ob).clones ≤ ob.clones)
    (hst : ∀ ob, (f ob).state = .inUse ∨ (f ob).state = .disallowed →
      ob.state = .inUse ∨ ob.state = .disallowed) : Obs.Pres Shrink (modObs o f) := by
  unfold modObs
  exact Obs.Pres.modify fun s => ⟨refsOf_congr _ _ rfl rfl rfl,
    roots_modObs s _ o f rfl rfl rfl rfl rfl (fun ob _ => hnode ob) (fun ob _ => hcl ob)
      (fun ob _ => hst ob)⟩

theorem shrink_modVar (v : Nat) (f : VarCell → VarCell)
    (hnode : ∀ vc, (f vc).node = vc.node) (hh : ∀ vc, (f vc).handles ≤ vc.handles)
    (hl : ∀ vc, (f vc).linked = true → vc.linked = true) : Obs.Pres Shrink (modVar v f) := by
  unfold modVar
  exact Obs.Pres.modify fun s => ⟨refsOf_congr _ _ rfl rfl rfl, roots_modVar s v f hnode hh hl⟩

/-- `disallow_future_use`: created ↦ unlinked (the engine never held it), in use ↦ disallowed (the
engine keeps holding it until the next stabilisation): no new root -/
theorem shrink_disallowFutureUse (o : Nat) : Obs.Pres Shrink (disallowFutureUse o) := by
  refine ⟨fun s r s' hrun => ?_⟩
  unfold disallowFutureUse at hrun
  cases hob : s.observers[o]? with
  | none =>
    rw [Obs.run_bind_error (Obs.run_getObs_none hob)] at hrun
    cases hrun; exact Obs.PreOrd.refl s
  | some ob =>
    rw [Obs.run_bind_ok (Obs.run_getObs_some hob)] at hrun
    cases hst : ob.state
    all_goals simp only [hst, bumpCounter, modObs, Obs.run_bind, Obs.run_modify, Obs.run_pure] at hrun
    all_goals cases hrun
    · refine ⟨refsOf_congr _ _ rfl rfl rfl, ?_⟩
      refine roots_modObs s _ o (fun x => { x with state := .unlinked, handlers := [] })
        rfl rfl rfl rfl rfl (fun _ _ => rfl) (fun _ _ => Nat.le_refl _) ?_
      intro _ _ h; rcases h with h | h <;> cases h
    · refine ⟨refsOf_congr _ _ rfl rfl rfl, ?_⟩
      refine roots_modObs s _ o (fun x => { x with state := .disallowed })
        rfl rfl rfl rfl rfl (fun _ _ => rfl) (fun _ _ => Nat.le_refl _) ?_
      intro ob' hob' _
      rw [hob] at hob'; cases hob'
      rw [hst]; exact .inl rfl
    · exact Obs.PreOrd.refl s
    · exact Obs.PreOrd.refl s

/-- the three handle-dropping API actions -/
theorem shrink_dropHandle (env : Env) (o : Opnd) (tokens : Array Nat) :
    Obs.Pres Shrink (stepAction env (.dropHandle o) tokens) := by
  refine ⟨fun s r s' hrun => ?_⟩
  rw [dropHandle_run] at hrun
  split at hrun
  · cases hrun; exact Obs.PreOrd.refl s
  · split at hrun
    · cases hrun
      exact ⟨refsOf_congr _ _ rfl rfl rfl, roots_eraseHandle s _⟩
    · cases hrun; exact Obs.PreOrd.refl s

theorem shrink_dropObs (env : Env) (o : Nat) (tokens : Array Nat) :
    Obs.Pres Shrink (stepAction env (.dropObs o) tokens) := by
  simp only [stepAction]
  refine Obs.Pres.bind (Obs.Pres.getObs o) fun ob => ?_
  split
  · exact Obs.Pres.pure _
  · refine Obs.Pres.bind (shrink_modObs _ _ (fun _ => rfl) (fun _ => Nat.sub_le _ _) (fun _ h => h))
      fun _ => ?_
    split
    · exact Obs.Pres.bind (shrink_disallowFutureUse o) fun _ => Obs.Pres.pure _
    · exact Obs.Pres.pure _

/-- dropping a `Var` handle (as an API action or as an effect of user code) -/
theorem shrink_dropVarHandle (v : Nat) : Obs.Pres Shrink (dropVarHandle v) := by
  unfold dropVarHandle
  refine Obs.Pres.bind (Obs.Pres.getVar v) fun vc => ?_
  split
  · exact Obs.Pres.pure _
  · refine Obs.Pres.bind (shrink_modVar _ _ (fun _ => rfl) (fun _ => Nat.sub_le _ _) (fun _ h => h))
      fun _ => ?_
    split
    · exact Obs.Pres.bind (Obs.Pres.modify fun s => Shrink.of_eq rfl rfl rfl rfl rfl rfl rfl rfl)
        fun _ => Obs.Pres.pure _
    · exact Obs.Pres.pure _

theorem shrink_dropVar (env : Env) (v : Nat) (tokens : Array Nat) :
    Obs.Pres Shrink (stepAction env (.dropVar v) tokens) := by
  simp only [stepAction]
  refine Obs.Pres.bind (shrink_dropVarHandle v) fun b => ?_
  split <;> exact Obs.Pres.pure _

/-! ## closed form of dropping a `Var` handle -/

/-- the state after one `Var` handle of `v` (cell `vc`, `vc.handles ≠ 0`) was dropped -/
def varDropped (s : State) (v : Nat) (vc : VarCell) : State :=
  { s with
    vars := s.vars.modify v fun x => { x with handles := x.handles - 1 },
    deadVars := if vc.handles = 1 then s.deadVars ++ [v] else s.deadVars }

theorem dropVarHandle_run (s : State) (v : Nat) (vc : VarCell) (h : s.vars[v]? = some vc) :
    (dropVarHandle v).run.run s =
      (.ok (decide (vc.handles ≠ 0)), if vc.handles = 0 then s else varDropped s v vc) := by
  simp only [dropVarHandle, getVar, Obs.run_bind, Obs.run_get, h, Obs.run_pure]
  by_cases h0 : vc.handles = 0
  · simp only [h0, beq_self_eq_true, if_true, Obs.run_pure]; rfl
  · have hb : (vc.handles == 0) = false := by simpa using h0
    have hd : decide (vc.handles ≠ 0) = true := by simpa using h0
    simp only [hd, hb, Bool.false_eq_true, if_false, h0, modVar, Obs.run_bind, Obs.run_modify]
    by_cases h1 : vc.handles = 1
    · simp only [h1, beq_self_eq_true, if_true, Obs.run_bind, Obs.run_modify, Obs.run_pure, varDropped]
    · have hb1 : (vc.handles == 1) = false := by simpa using h1
      simp only [hb1, h1, Bool.false_eq_true, if_false, Obs.run_pure, varDropped]

theorem dropVarHandle_run_none (s : State) (v : Nat) (h : s.vars[v]? = none) :
    (dropVarHandle v).run.run s = (.error (.site "model:no-such-var"), s) := by
  simp only [dropVarHandle, getVar, Obs.run_bind, Obs.run_get, h, Engine.panic, Obs.run_throw]


/-- the effect `.dropVar v` of user code is `dropVarHandle v` with the result discarded -/
theorem dropVar_effect_run (env : Env) (s : State) (v : Nat) (vc : VarCell) (h : s.vars[v]? = some vc) :
    (runEffectBasic env (.dropVar v)).run.run s =
      (.ok (), if vc.handles = 0 then s else varDropped s v vc) := by
  simp only [runEffectBasic, Functor.discard]
  rw [LawfulFunctor.map_const]
  show (Function.const Bool () <$> dropVarHandle v).run.run s = _
  rw [← bind_pure_comp, Obs.run_bind, dropVarHandle_run s v vc h]
  rfl

/-- the API action `.dropVar v` -/
theorem dropVar_action_run (env : Env) (tokens : Array Nat) (s : State) (v : Nat) (vc : VarCell)
    (h : s.vars[v]? = some vc) :
    (stepAction env (.dropVar v) tokens).run.run s =
      (.ok (if vc.handles = 0 then "noop" else "ok", tokens),
       if vc.handles = 0 then s else varDropped s v vc) := by
  simp only [stepAction, Obs.run_bind, dropVarHandle_run s v vc h]
  by_cases h0 : vc.handles = 0 <;> simp [h0] <;> rfl

theorem varDropped_getElem? (s : State) (v : Nat) (vc : VarCell) (h : s.vars[v]? = some vc) :
    (varDropped s v vc).vars[v]? = some { vc with handles := vc.handles - 1 } := by
  simp [varDropped, Array.getElem?_modify, h]

theorem varDropped_getElem?_ne (s : State) (v w : Nat) (vc : VarCell) (hw : w ≠ v) :
    (varDropped s v vc).vars[w]? = s.vars[w]? := by
  simp [varDropped, Array.getElem?_modify, Ne.symm hw]

/-! ## concrete states for the non-vacuity examples of `Props/C12.lean` -/

/-- variable 0 is node 0 (public handle kept); node 1 maps over node 0, the program holds a handle on
it and observer 0 is in use on it; node 2 is a constant nobody holds; node 3 maps over node 1, nobody
holds a handle on it but it is queued in the recompute heap -/
def exOwn : State :=
  { State.init 4 with
    nodes := #[{ kind := .var 0, createdIn := .top }, { kind := .map 0 [0], createdIn := .top },
               { kind := .const .unit, createdIn := .top },
               { kind := .map 1 [1], createdIn := .top, heightInRch := 1 }],
    vars := #[{ value := .int 5, setAt := 0, node := 0 }],
    observers := #[{ node := 1, state := .inUse }],
    rch := { queues := #[[], [3], [], [], []], length := 1, lowerBound := 1 },
    handles := [1], top := #[0, 1, 2, 3] }

/-- `exOwn` after everything was given up: handle dropped, variable dropped and unlinked, observer
dropped and unlinked, heap drained -/
def exOwnReleased : State :=
  { exOwn with
    handles := [],
    vars := #[{ value := .int 5, setAt := 0, node := 0, handles := 0, linked := false }],
    observers := #[{ node := 1, state := .unlinked, clones := 0 }],
    rch := mkHeap 4 }

/-- three nodes: two constants and a fold that lists node 0 thirty times before node 1; the program
holds the fold only.  (With the fuel `nodes.size * (nodes.size + 2) + roots.length + 8` used before the
repair, the search ran out of fuel among the copies of node 0 and missed node 1.) -/
def exBigFold : State :=
  { State.init 4 with
    nodes := #[{ kind := .const .unit, createdIn := .top }, { kind := .const .unit, createdIn := .top },
               { kind := .fold 0 .unit (List.replicate 30 0 ++ [1]), createdIn := .top }],
    handles := [2], top := #[0, 1, 2] }

end IncrVerif.Proofs.Own
