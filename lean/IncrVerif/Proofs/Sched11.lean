import IncrVerif.Proofs.Sched10
/-!
# Safety of the drain: the walk through `maybe_change_value_manual`, and the theorems
-/
namespace IncrVerif.Proofs.Sched
open IncrVerif.Engine IncrVerif.Proofs IncrVerif.Proofs.Step

/-- `maybe_handle_after_stabilisation n` on an existing node cannot fail -/
theorem mhas_ok {n : Nat} {s : State} (hn : n < s.nodes.size) :
    ∃ s', (maybeHandleAfterStabilisation n).run.run s = (.ok (), s') := by
  have hnn := some_of_lt hn
  unfold maybeHandleAfterStabilisation handleAfterStabilisation
  simp only [run_bind, run_getNode, hnn, run_ite, run_pure, run_modNode, run_modify]
  split
  · split
    · exact ⟨_, rfl⟩
    · exact ⟨_, rfl⟩
  · exact ⟨_, rfl⟩

/-- the notification part of a propagating `maybe_change_value_manual`: the only panic is running out
of fuel in `child_changed`, with `fuel = 0` -/
theorem mcvm_safe {env : Env} {fuel n : Nat} {o : Option Val} {T0 s' : State} {e : Panic}
    (hn : n < T0.nodes.size)
    (hi : HeapInv (touched n T0))
    (hpar : ∀ p, p ∈ ((touched n T0).nodeD n).parents.map (·.1) → ParentSafe env (touched n T0) n p)
    (h : (maybeChangeValueManual env fuel n o true true).run.run T0 = (.error e, s')) :
    e = .outOfFuel ∧ fuel = 0 := by
  have hnT : n < (touched n T0).nodes.size := by simpa [touched] using hn
  generalize hT : touched n T0 = T at hi hpar hnT
  generalize hP : (T.nodeD n).parents.map (·.1) = P at hpar
  unfold maybeChangeValueManual at h
  simp only [Bool.not_true, Bool.false_eq_true, if_false, if_true, run_bind_get, run_bind_modNode,
    run_bind_bumpCounter] at h
  change StateT.run (ExceptT.run _) (touched n T0) = _ at h
  rw [hT] at h
  refine Runs.err (P := fun e => e = .outOfFuel ∧ fuel = 0) (Q := fun _ _ => True) ?_ h
  -- handler bookkeeping
  obtain ⟨s1, h1⟩ := mhas_ok hnT
  have k1 : KInv T P s1 := (KInv.refl P hi).mhas h1
  refine Runs.bind (Runs.of_ok (Q := fun _ t => KInv T P t) h1 k1) ?_
  clear h1 k1 s1
  intro _ s0 k1
  have hn1 : n < s0.nodes.size := by rw [k1.q.size]; exact hnT
  refine Runs.bind (Runs.getNode (Q := fun nd t => t = s0 ∧ nd = s0.nodeD n) (some_of_lt hn1) ⟨rfl, rfl⟩) ?_
  rintro nd1 s1 ⟨rfl, rfl⟩
  rw [(k1.q.node n).parents]
  rcases hps : (T.nodeD n).parents with _ | ⟨⟨p0, ci0⟩, rest⟩
  · exact Runs.pure trivial
  rw [hps] at hP
  dsimp only
  have hmem0 : p0 ∈ P := by rw [← hP]; simp
  have hmemr : ∀ a, a ∈ rest → a.1 ∈ P := by
    intro a ha; rw [← hP]; exact List.mem_cons_of_mem _ (List.mem_map_of_mem ha)
  -- the loop over the other parents
  refine Runs.bind (Runs.forIn (KInv T P) _ rest ?_ s1 k1) ?_
  · intro a ha t k
    obtain ⟨p, ci⟩ := a
    have hpS := hpar p (hmemr _ ha)
    have hpt := hpS.ok.quiet k.q
    have hpn := some_of_lt hpt.lt
    refine Runs.bind (childChanged_runs hpn hpt.valid hpt.kind) ?_
    rintro _ t' rfl
    refine Runs.bind_get (Runs.bind_dassert (hpS.needs k.q) (Runs.bind_getNode hpn ?_))
    split
    · rename_i hin
      obtain ⟨hrun, k'⟩ := k.insert_run hpS (hmemr _ ha) hpn (by simpa using hin)
      exact Runs.bind_ok hrun (Runs.pure k')
    · exact Runs.pure k
  -- the first parent
  intro _ s2 k2
  have hp0S := hpar p0 hmem0
  have hp0 := hp0S.ok.quiet k2.q
  have hpn0 := some_of_lt hp0.lt
  refine Runs.bind (childChanged_runs hpn0 hp0.valid hp0.kind) ?_
  rintro _ t' rfl
  refine Runs.bind_get (Runs.bind_dassert (hp0S.needs k2.q) (Runs.bind_getNode hpn0 ?_))
  split
  · rename_i hin
    obtain ⟨b, t2, hrun, -⟩ := k2.picrn_run hp0S hmem0 hnT hpn0 (by simpa using hin)
    refine Runs.bind_ok hrun ?_
    split <;> exact Runs.pure trivial
  · exact Runs.pure trivial

/-! ## `maybe_change_value` and `recompute_one` -/

/-- `maybe_change_value n v` run in a state `S0` of the `Upd` family of `s` -/
theorem mcv_safe {env : Env} {fuel n : Nat} {v : Val} {s S0 s' : State} {e : Panic}
    (g : Graph env s) (hi : HeapInv s) (S : Safe s) (hn : s.isNecessary n = true)
    (hfresh : ∀ p, p ∈ (s.nodeD n).parents.map (·.1) → (s.nodeD p).recomputedAt < s.stabNum)
    (hU : Upd n s S0)
    (h : (maybeChangeValue env fuel n v).run.run S0 = (.error e, s')) :
    e = .outOfFuel ∧ fuel = 0 := by
  obtain ⟨hlt, _, _, hcut, _⟩ := g.nec n hn
  have hlt0 : n < S0.nodes.size := by rw [hU.size]; exact hlt
  have hn0 := some_of_lt hlt0
  have hcut0 : (S0.nodeD n).cutoff = .eq ∨ (S0.nodeD n).cutoff = .never := by
    rw [hU.shape.cutoff]; exact hcut
  generalize hW : setValue n (some v) (logged (mcvLog env S0 n v) S0) = W
  have hUW : Upd n s W := by rw [← hW]; exact (hU.logged _).setValue _
  rcases mcvChanges_static env S0 n v hcut0 with hd | ⟨hd, -⟩
  · rw [mcv_run' env fuel n v S0 _ hn0 hU.pc, hd] at h
    dsimp only at h
    rw [hW] at h
    have hltW : n < W.nodes.size := by rw [hUW.size]; exact hlt
    have hUT : Upd n s (touched n W) := hUW.touched
    have eT : (touched n W).nodeD n = { W.nodeD n with changedAt := W.stabNum } := by
      rw [touched_nodeD, if_pos ⟨rfl, hltW⟩]
    have hparT : ((touched n W).nodeD n).parents = (s.nodeD n).parents := hUT.shape.parents
    refine mcvm_safe hltW (hUT.heap hi) ?_ h
    intro p hp
    rw [hparT] at hp
    obtain ⟨hpn, hkid, -, -, hne⟩ := g.parent_facts hp
    obtain ⟨h1, h2, h3, _, h5⟩ := g.nec p hpn
    have ep : (touched n W).nodeD p = s.nodeD p := hUT.other p hne
    refine ⟨⟨by rw [hUT.size]; exact h1, by rw [ep]; exact h2, by rw [ep]; exact h3,
      by rw [hUT.nec]; exact hpn⟩, by rw [ep]; exact hkid, ?_, by rw [ep]; exact h5, ?_, ?_⟩
    · rw [ep, eT]
      show _ < W.stabNum
      rw [hUW.stabNum]; exact hfresh p hp
    · rw [ep, hUT.rch]; exact S.height p hpn
    · rw [ep]; exact S.scope p hpn
  · rw [mcv_suppress env fuel n v S0 _ hn0 hU.pc hd] at h
    cases h

/-- a `recomputeOne` on a necessary node of a static graph whose children all have values and whose
parents have not been recomputed in this round cannot fail an assertion -/
theorem recomputeOne_safe_static {env : Env} {fuel n : Nat} {s s' : State} {e : Panic}
    (g : Graph env s) (hi : HeapInv s) (S : Safe s) (hn : s.isNecessary n = true)
    (hfresh : ∀ p, p ∈ (s.nodeD n).parents.map (·.1) → (s.nodeD p).recomputedAt < s.stabNum)
    (hvals : ∃ vals, plainVals s (kids (s.nodeD n).kind) = some vals)
    (h : (recomputeOne env fuel n).run.run s = (.error e, s')) : e = .outOfFuel ∧ fuel = 0 := by
  obtain ⟨hlt, hv, hk, _, _⟩ := g.nec n hn
  have hnn := some_of_lt hlt
  have hU := Upd.started n s g.pc
  obtain ⟨vals, hvals⟩ := hvals
  have hvo := g.valuesOf hn
  rw [hvals] at hvo
  cases hkd : (s.nodeD n).kind with
  | const w =>
    rw [recomputeOne_const_run env fuel n s _ w hnn hv hkd] at h
    exact mcv_safe g hi S hn hfresh hU h
  | var c =>
    obtain ⟨vc, hvc⟩ := g.var n c hn hkd
    rw [recomputeOne_var_run env fuel n s _ c vc hnn hv hkd hvc] at h
    exact mcv_safe g hi S hn hfresh hU h
  | map f args =>
    rw [hkd] at hk hvo
    by_cases hf : f < fnZip
    · rw [recomputeOne_map_run env fuel n s _ f args vals hnn hv hkd hf hvo (hk.2 hf vals) g.pc] at h
      exact mcv_safe g hi S hn hfresh (hU.logged _) h
    · rw [recomputeOne_mapBuiltin_run env fuel n s _ f args vals hnn hv hkd hf hk.1 hvo] at h
      exact mcv_safe g hi S hn hfresh hU h
  | fold f init cs =>
    rw [hkd] at hvo
    rw [recomputeOne_fold_run env fuel n s _ f init cs vals hnn hv hkd hvo g.pc] at h
    exact mcv_safe g hi S hn hfresh (hU.logged _) h
  | mapRef _ _ => rw [hkd] at hk; exact hk.elim
  | mapWithOld _ _ => rw [hkd] at hk; exact hk.elim
  | bindLhsChange _ => rw [hkd] at hk; exact hk.elim
  | bindMain _ _ => rw [hkd] at hk; exact hk.elim
  | expert _ => rw [hkd] at hk; exact hk.elim

/-- a `recomputeOne` on the current node of the invariant cannot fail an assertion; it can only run
out of fuel, and only with `fuel = 0` -/
theorem recomputeOne_safe {env : Env} {fuel n : Nat} {s s' : State} {e : Panic}
    (I : Inv env s (some n)) (S : Safe s)
    (h : (recomputeOne env fuel n).run.run s = (.error e, s')) : e = .outOfFuel ∧ fuel = 0 := by
  refine recomputeOne_safe_static I.graph I.heap S (I.cur n rfl).1 ?_ I.kids_values h
  intro p hp
  exact I.fresh n (Or.inr rfl) p (I.graph.parent_facts hp).2.2.1

/-- a successful `recomputeOne` keeps `Safe` -/
theorem recomputeOne_keeps_safe {env : Env} {fuel n : Nat} {s s' : State} {r : Option Nat}
    (I : Inv env s (some n)) (S : Safe s)
    (h : (recomputeOne env fuel n).run.run s = (.ok r, s')) : Safe s' :=
  S.frame (recomputeOne_inv I h).2.1

/-! ## `remove_min` -/

/-- `remove_min` under the heap invariant returns -/
theorem rchRemoveMin_ok {s : State} (h : HeapInv s) :
    ∃ r s1, rchRemoveMin.run.run s = (.ok r, s1) := by
  simp only [rchRemoveMin, run_bind, run_get, run_ite, run_pure, run_dassert]
  by_cases he : s.rch.length = 0
  · rw [if_pos (by simpa using he)]
    exact ⟨_, _, rfl⟩
  rw [if_neg (by simpa using he)]
  have hlb := h.lb0
  rw [if_neg (by rintro ⟨-, h⟩; simp at h; omega)]
  dsimp only
  obtain ⟨m0, hm0⟩ := h.exists_queued he
  obtain ⟨-, x, xs, hq⟩ := h.firstNonEmpty_le hm0
  rw [hq]
  simp only [run_bind, run_modify, run_modNode, run_pure]
  exact ⟨_, _, rfl⟩

/-- `remove_min` under the heap invariant cannot fail, and keeps `Safe` -/
theorem rchRemoveMin_safe {env : Env} {s : State} (I : DrainInv env s) (S : Safe s) :
    ∃ r s1, rchRemoveMin.run.run s = (.ok r, s1) ∧ Safe s1 := by
  obtain ⟨r, s1, hr⟩ := rchRemoveMin_ok I.heap
  refine ⟨r, s1, hr, ?_⟩
  cases r with
  | none => obtain ⟨rfl, -⟩ := rchRemoveMin_inv I.heap hr; exact S
  | some n => exact S.frame (pop_inv I hr).2

/-! ## the chain and the loop -/

theorem recompute_safe {env : Env} : ∀ (fuel n : Nat) (s s' : State) (e : Panic), Inv env s (some n) →
    Safe s → (recompute env fuel n).run.run s = (.error e, s') → e = .outOfFuel := by
  intro fuel
  induction fuel with
  | zero => intro n s s' e _ _ h; unfold recompute at h; cases h; rfl
  | succ fuel ih =>
    intro n s s' e I S h
    unfold recompute at h
    rcases bind_err_inv h with h1 | ⟨r, s1, h1, h2⟩
    · exact (recomputeOne_safe I S h1).1
    · have I1 := (recomputeOne_inv I h1).1
      have S1 := recomputeOne_keeps_safe I S h1
      cases r with
      | none => rw [run_pure] at h2; cases h2
      | some p => exact ih p s1 s' e I1 S1 h2

theorem recompute_keeps_safe {env : Env} : ∀ (fuel n : Nat) (s s' : State), Inv env s (some n) →
    Safe s → (recompute env fuel n).run.run s = (.ok (), s') → Safe s' :=
  fun fuel n s s' I S h => S.frame (recompute_inv fuel n s s' I h).2

/-- **no assertion fails during a drain**: a `drainHeap` from a state with the drain invariant and
`Safe` either returns or runs out of fuel -/
theorem drainHeap_safe {env : Env} : ∀ (fuel : Nat) (s s' : State) (e : Panic), DrainInv env s →
    Safe s → (drainHeap env fuel).run.run s = (.error e, s') → e = .outOfFuel := by
  intro fuel
  induction fuel with
  | zero => intro s s' e _ _ h; unfold drainHeap at h; cases h; rfl
  | succ fuel ih =>
    intro s s' e I S h
    unfold drainHeap at h
    obtain ⟨r0, t0, hr0, S0⟩ := rchRemoveMin_safe I S
    rcases bind_err_inv h with h1 | ⟨r, s1, h1, h2⟩
    · rw [hr0] at h1; cases h1
    cases r with
    | none => rw [run_pure] at h2; cases h2
    | some n =>
      obtain ⟨I1, f1⟩ := pop_inv I h1
      have S1 := S.frame f1
      rcases bind_err_inv h2 with h3 | ⟨u, s2, h3, h4⟩
      · exact recompute_safe fuel n s1 s' e I1 S1 h3
      · obtain ⟨I2, f2⟩ := recompute_inv fuel n s1 s2 I1 h3
        exact ih s2 s' e I2 (S1.frame f2) h4

end IncrVerif.Proofs.Sched
