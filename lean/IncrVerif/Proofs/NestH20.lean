import IncrVerif.Proofs.NestH19
import IncrVerif.Proofs.BindH65
/-!
# Nested binds (F2), the closure run, part 1: rank extension, bind tables that grow, `GInv2` through growth

* `NN.rkNew rk main m`: the rank after creating node `m` in the scope of the bind whose main node is `main` (old nodes doubled, the new node just below `main`).
* `NN.BFwd s s'`: every record of `s` is a record of `s'` up to the list of registered nodes (records may be appended).
* `NN.Grow2 s s'`: `s'` has the nodes of `s` plus pristine ones.  `Grow2.ginv2`: the dynamic part of `GInv2` (all nodes closed) through growth, given the
  static part `All2` of the new state (port of `CN.Grow1.ginv1`, BindH62).
-/
namespace IncrVerif.Proofs.NestH
open IncrVerif.Engine IncrVerif.Proofs IncrVerif.Proofs.Step IncrVerif.Proofs.Sched IncrVerif.Proofs.Quiet
open IncrVerif.Proofs.BindH

theorem RkExt.refl (rk : Nat → Nat) (N : Nat) : RkExt rk rk N := fun _ _ _ _ => Iff.rfl

/-- rank extensions compose -/
theorem RkExt.trans {rk rk' rk'' : Nat → Nat} {N N' : Nat} (h1 : RkExt rk rk' N) (h2 : RkExt rk' rk'' N')
    (hN : N ≤ N') : RkExt rk rk'' N :=
  fun a c ha hc => (h2 a c (by omega) (by omega)).trans (h1 a c ha hc)

theorem RkExt.mono {rk rk' : Nat → Nat} {N N' : Nat} (h : RkExt rk rk' N') (hN : N ≤ N') : RkExt rk rk' N :=
  fun a c ha hc => h a c (by omega) (by omega)

namespace NN

/-- the rank after the creation of node `m` in the scope of the bind with main node `main` -/
def rkNew (rk : Nat → Nat) (main m : Nat) : Nat → Nat := fun x => if x = m then 2 * rk main - 1 else 2 * rk x

theorem rkNew_new (rk : Nat → Nat) (main m : Nat) : rkNew rk main m m = 2 * rk main - 1 := by
  simp only [rkNew, if_true]

theorem rkNew_old (rk : Nat → Nat) (main m : Nat) {x : Nat} (h : x ≠ m) : rkNew rk main m x = 2 * rk x := by
  simp only [rkNew, if_neg h]

theorem rkNew_ext (rk : Nat → Nat) (main : Nat) {m N : Nat} (h : N ≤ m) : RkExt rk (rkNew rk main m) N := by
  intro a c ha hc
  rw [rkNew_old rk main m (by omega), rkNew_old rk main m (by omega)]
  omega

/-- the bind tables: every record of `s` is in `s'`, up to its list of registered nodes -/
def BFwd (s s' : State) : Prop :=
  ∀ (b : Nat) (br : BindRec), s.binds[b]? = some br → ∃ l, s'.binds[b]? = some { br with allNodesCreatedOnRhs := l }

theorem BFwd.of_bsame {s s' : State} (h : CN.BSame s s') : BFwd s s' := fun _ _ hb => h.fwd hb

/-- the record in the new table of an old index: all fields but the list are those of the old record -/
theorem BFwd.bwd {s s' : State} (h : BFwd s s') {b : Nat} {br br' : BindRec} (hb : s.binds[b]? = some br)
    (hb' : s'.binds[b]? = some br') :
    br'.lhs = br.lhs ∧ br'.body = br.body ∧ br'.lhsChange = br.lhsChange ∧ br'.main = br.main ∧ br'.rhs = br.rhs := by
  obtain ⟨l, h1⟩ := h b br hb
  rw [hb'] at h1
  cases h1
  exact ⟨rfl, rfl, rfl, rfl, rfl⟩

/-- the child list of a node of the bind fragment does not read the lists of registered nodes -/
theorem children_congr_F {env : Env} {s s' : State} {n : Nat} (hn : s'.nodeD n = s.nodeD n) (hb : BFwd s s')
    (hB : BKind env (s.nodeD n).kind)
    (hlc : ∀ b, (s.nodeD n).kind = .bindLhsChange b → ∃ br, s.binds[b]? = some br)
    (hmain : ∀ b lc, (s.nodeD n).kind = .bindMain b lc → ∃ br, s.binds[b]? = some br) :
    s'.children n = s.children n := by
  unfold State.children Node.kind?
  rw [hn]
  cases hvv : (s.nodeD n).valid
  · rfl
  · cases h : (s.nodeD n).kind with
    | bindLhsChange b =>
      simp only [if_true]
      obtain ⟨br, h1⟩ := hlc b h
      obtain ⟨l, h2⟩ := hb b br h1
      simp only [h1, h2]
    | bindMain b lc =>
      simp only [if_true]
      obtain ⟨br, h1⟩ := hmain b lc h
      obtain ⟨l, h2⟩ := hb b br h1
      simp only [h1, h2]
    | _ => rw [h] at hB; first | rfl | exact False.elim hB

/-- `s'` has the nodes of `s` plus pristine ones; the records of `s` are kept up to the lists of registered nodes -/
structure Grow2 (s s' : State) : Prop where
  size : s.nodes.size ≤ s'.nodes.size
  old : ∀ m, m < s.nodes.size → s'.nodeD m = s.nodeD m
  new : ∀ m, s.nodes.size ≤ m → m < s'.nodes.size →
    (s'.nodeD m).valid = true ∧ (s'.nodeD m).parents = [] ∧ (s'.nodeD m).observers = [] ∧
      (s'.nodeD m).forceNecessary = false ∧ (s'.nodeD m).heightInRch = -1 ∧ (s'.nodeD m).heightInAhh = -1
  binds : BFwd s s'
  vars : s'.vars = s.vars
  rch : s'.rch = s.rch
  ahh : s'.ahh = s.ahh

namespace Grow2
variable {env : Env} {rk rk' : Nat → Nat} {s s' : State} {ex : Nat → Prop} {dy dy' : List Nat}

/-- a node outside `s`: pristine in `s'` -/
theorem fresh (G : Grow2 s s') {m : Nat} (hm : s.nodes.size ≤ m) :
    (s'.nodeD m).valid = true ∧ (s'.nodeD m).parents = [] ∧ (s'.nodeD m).observers = [] ∧
      (s'.nodeD m).forceNecessary = false ∧ (s'.nodeD m).heightInRch = -1 ∧ (s'.nodeD m).heightInAhh = -1 := by
  by_cases h : m < s'.nodes.size
  · exact G.new m hm h
  · rw [nodeD_default s' m (by omega)]
    exact ⟨rfl, rfl, rfl, rfl, rfl, rfl⟩

theorem nec_new (G : Grow2 s s') {m : Nat} (hm : s.nodes.size ≤ m) : s'.isNecessary m = false := by
  obtain ⟨-, h1, h2, h3, -⟩ := G.fresh hm
  simp only [State.isNecessary, Node.isNecessary, h1, h2, h3]
  rfl

theorem nec_old (G : Grow2 s s') {m : Nat} (hm : m < s.nodes.size) : s'.isNecessary m = s.isNecessary m := by
  rw [State.isNecessary, State.isNecessary, G.old m hm]

theorem lt_of_nec (G : Grow2 s s') {m : Nat} (h : s'.isNecessary m = true) : m < s.nodes.size := by
  rcases Nat.lt_or_ge m s.nodes.size with h1 | h1
  · exact h1
  · rw [G.nec_new h1] at h; cases h

theorem lt_of_par (G : Grow2 s s') {m : Nat} {x : Nat × Nat} (h : x ∈ (s'.nodeD m).parents) : m < s.nodes.size := by
  rcases Nat.lt_or_ge m s.nodes.size with h1 | h1
  · exact h1
  · rw [(G.fresh h1).2.1] at h; cases h

theorem lt_of_inRch (G : Grow2 s s') {m : Nat} (h : (s'.nodeD m).inRch = true) : m < s.nodes.size := by
  rcases Nat.lt_or_ge m s.nodes.size with h1 | h1
  · exact h1
  · unfold Node.inRch at h
    rw [(G.fresh h1).2.2.2.2.1] at h
    simp at h

theorem children_old (G : Grow2 s s') (A : All2 env rk s dy) {m : Nat} (hm : m < s.nodes.size) :
    s'.children m = s.children m :=
  children_congr_F (G.old m hm) G.binds (A.node m hm).kind
    (fun b h => by obtain ⟨br, h1, -⟩ := (A.node m hm).lcRec b h; exact ⟨br, h1⟩)
    (fun b lc h => by obtain ⟨br, h1, -⟩ := (A.node m hm).mainRec b lc h; exact ⟨br, h1⟩)

theorem isStale_old (G : Grow2 s s') (A : All2 env rk s dy) {m : Nat} (hm : m < s.nodes.size) :
    s'.isStale m = s.isStale m :=
  CN.isStale_congr_C (A.node m hm).kind (G.old m hm) (G.children_old A hm) G.vars
    (fun c hc => by rw [G.old c ((A.node m hm).kidsIn c hc)])

theorem heapWF (G : Grow2 s s') (h : HeapWF s) : HeapWF s' := by
  rw [← HWF_release_iff] at h ⊢
  unfold HWF at *
  have e : markerOf s'.nodes = markerOf s.nodes := by
    funext m
    show (s'.nodeD m).heightInRch = (s.nodeD m).heightInRch
    rcases Nat.lt_or_ge m s.nodes.size with h1 | h1
    · rw [G.old m h1]
    · rw [(G.fresh h1).2.2.2.2.1, nodeD_default s m h1]; rfl
  rw [G.rch, e]; exact ⟨h.1, by simp⟩

theorem ahhEmpty (G : Grow2 s s') (h : AhhEmpty s) : AhhEmpty s' := by
  refine ⟨by rw [G.ahh]; exact h.length, ?_, ?_⟩
  · rw [G.ahh]; exact h.buckets
  · intro m
    rcases Nat.lt_or_ge m s.nodes.size with h1 | h1
    · rw [G.old m h1]; exact h.marks m
    · exact (G.fresh h1).2.2.2.2.2

/-- **`GInv2` through growth**: the dynamic part, given the static part of the new state (with its rank) -/
theorem ginv2 (G : Grow2 s s') (I : GInv2 env rk s allClosed ex dy) (A' : All2 env rk' s' dy') :
    GInv2 env rk' s' allClosed ex dy' := by
  have A := I.frag
  have wants_old : ∀ {p i}, p < s.nodes.size → (Wants s' allClosed p i ↔ Wants s allClosed p i) := by
    intro p i hp
    rw [wants_closed rfl, wants_closed rfl, G.nec_old hp]
  refine
    { frag := A'
      par := ?_, conv := ?_, nodup := ?_, hlt := ?_, hpos := ?_
      lnec := fun p k ho => by cases ho
      unec := fun p k ho => by cases ho
      heap := ⟨G.heapWF I.heap.wf, ?_, by rw [G.rch]; exact I.heap.lb0⟩
      hgt := ?_, qnec := ?_, queued := ?_, qstale := ?_
      opLt := fun m ho => absurd rfl ho
      scopeH := ?_, inv := ?_, scopeObs := ?_, lcObs := ?_ }
  · intro c p i h
    have hc := G.lt_of_par h
    rw [G.old c hc] at h
    obtain ⟨h1, h2⟩ := I.par c p i h
    have hp := children_lt_size h1
    rw [G.children_old A hp, wants_old hp]
    exact ⟨h1, h2⟩
  · intro p i c hk hw
    have hp : p < s.nodes.size := G.lt_of_nec ((wants_closed rfl).1 hw)
    rw [G.children_old A hp] at hk
    rw [wants_old hp] at hw
    have hm := I.conv p i c hk hw
    rw [G.old c (mem_parents_lt_size hm)]; exact hm
  · intro c
    rcases Nat.lt_or_ge c s.nodes.size with h1 | h1
    · rw [G.old c h1]; exact I.nodup c
    · rw [(G.fresh h1).2.1]; exact List.nodup_nil
  · intro c p i h ho
    have hc := G.lt_of_par h
    rw [G.old c hc] at h
    have hp := children_lt_size (I.par c p i h).1
    rw [G.old c hc, G.old p hp]
    exact I.hlt c p i h ho
  · intro n hn ho
    have e := G.lt_of_nec hn
    rw [G.nec_old e] at hn
    rw [G.old n e]; exact I.hpos n hn ho
  · intro m hq
    have hlt := G.lt_of_inRch hq
    rw [G.old m hlt] at hq
    rw [G.rch, G.old m hlt]; exact I.heap.lb m hq
  · intro m hq ho
    have hlt := G.lt_of_inRch hq
    rw [G.old m hlt] at hq ⊢
    exact I.hgt m hq ho
  · intro m hq
    have hlt := G.lt_of_inRch hq
    rw [G.old m hlt] at hq
    rw [G.nec_old hlt]; exact I.qnec m hq
  · intro m ho hn hs hx
    have hlt := G.lt_of_nec hn
    rw [G.nec_old hlt] at hn
    rw [G.isStale_old A hlt] at hs
    rw [G.old m hlt]; exact I.queued m ho hn hs hx
  · intro m hq
    have hlt := G.lt_of_inRch hq
    rw [G.old m hlt] at hq
    rw [G.isStale_old A hlt]; exact I.qstale m hq
  · intro n b br' hv hsc hb hn ho
    have hlt := G.lt_of_nec hn
    rw [G.nec_old hlt] at hn
    rw [G.old n hlt] at hv hsc ⊢
    obtain ⟨br, hb0, -⟩ := A.scope_bind hlt hsc
    obtain ⟨-, -, hl, -, -⟩ := G.binds.bwd hb0 hb
    rw [hl, G.old br.lhsChange (A.lc_lt hb0)]
    exact I.scopeH n b br hv hsc hb0 hn ho
  · intro m hv
    rcases Nat.lt_or_ge m s.nodes.size with h1 | h1
    · rw [G.old m h1] at hv ⊢
      exact I.inv m hv
    · rw [(G.fresh h1).1] at hv; cases hv
  · intro m b h
    rcases Nat.lt_or_ge m s.nodes.size with h1 | h1
    · rw [G.old m h1] at h ⊢
      exact I.scopeObs m b h
    · exact (G.fresh h1).2.2.1
  · intro m b h
    rcases Nat.lt_or_ge m s.nodes.size with h1 | h1
    · rw [G.old m h1] at h ⊢
      exact I.lcObs m b h
    · exact (G.fresh h1).2.2.1

end Grow2

end NN

end IncrVerif.Proofs.NestH
